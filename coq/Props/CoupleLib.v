(* CoupleLib: engine additions for property C07 (emitter-accepted code is decoded by the CPU at the same
   boundaries) over the regenerated interpreter models.  Three things on top of Props/SafeLib.v:

   1. [Frame s s']: a value-free relation "the trace grew by l and memory changed only at addresses that
      have an EvW event in l", with a symbolic executor [fr_run] that proves [fr_ok s (routine args s)] for
      every translated routine (the only primitive that changes memory logs the write).
   2. [cstep]/[crun]: a variant of SafeLib's symbolic executor that (a) rewrites reads of fields whose
      invariant layer is [eq c] to c, (b) decides [if]s whose condition computes to a constructor instead of
      splitting, (c) re-targets the [eq] layer when such a field is assigned, (d) carries a hypothesis
      [mem s = m0] as long as only non-writing steps are taken, so that the opcode fetch (and the operand read
      of REP / SEP) return known bytes, (e) inlines local continuations at their call (the invariant in force
      at the call differs from the one at the definition once layers are re-targeted; dead branches are pruned
      by (b), so the inlining stays small).
   3. the bit facts behind REP / SEP. *)
From Coq Require Import ZArith List Bool Lia NArith.
From Lib Require Import ZOps Machine.
From Props Require Import SafeLib.
Import ListNotations.
Local Open Scope Z_scope.

(* ------------------------------------------------------------------ flag values *)
Definition bitp (v : Z) : Prop := v = 0 \/ v = 1.
Lemma bitp_0 : bitp 0. Proof. left; reflexivity. Qed.
Lemma bitp_1 : bitp 1. Proof. right; reflexivity. Qed.
Lemma bitp_and1 x : bitp (w_and x 1).
Proof.
  unfold bitp, w_and. assert (E : Z.land x 1 = x mod 2) by (change 1 with (Z.ones 1); apply Z.land_ones; lia).
  rewrite E. pose proof (Z.mod_pos_bound x 2 ltac:(lia)). lia.
Qed.
Lemma bitp_conv8 x : bitp x -> bitp (conv8 x).
Proof. intros [H|H]; subst; [left|right]; reflexivity. Qed.
Lemma bitp_b2z b : bitp (b2z b).
Proof. destruct b; [right|left]; reflexivity. Qed.
Lemma bitp_rng W v : 1 <= W -> bitp v -> rng W v.
Proof. intros HW [H|H]; subst; apply (rng_weaken 1); try exact HW; unfold rng; simpl; lia. Qed.
Lemma bitp_if (c : bool) a b : bitp a -> bitp b -> bitp (if c then a else b).
Proof. destruct c; auto. Qed.

Ltac solve_bitp :=
  lazymatch goal with
  | |- bitp 0 => exact bitp_0
  | |- bitp 1 => exact bitp_1
  | |- bitp (w_and _ 1) => apply bitp_and1
  | |- bitp (conv8 _) => apply bitp_conv8; solve_bitp
  | |- bitp (b2z _) => apply bitp_b2z
  | |- bitp (if _ then _ else _) => apply bitp_if; solve_bitp
  | |- bitp ?v => first [ assumption
                        | is_var v; let b := eval cbv delta [v] in v in change (bitp b); solve_bitp ]
  end.

(* the predicate of an invariant layer applied to the assigned value: ranges are tried first by SafeLib *)
Ltac ovr_hook ::= first [ solve_bitp | reflexivity | exact I ].

(* ------------------------------------------------------------------ 1. memory frame, value-free *)
Definition Frame (s s' : st) : Prop :=
  exists l, trace s' = l ++ trace s /\ forall a, (forall v, ~ In (EvW a v) l) -> mem s' a = mem s a.

Definition fr_ok {A} (s : st) (r : res A) : Prop :=
  match r with Ok _ s' => Frame s s' | Panic => True end.

Lemma Frame_refl s : Frame s s.
Proof. exists []. split; [reflexivity|]. intros; reflexivity. Qed.

Lemma Frame_trans a b c : Frame a b -> Frame b c -> Frame a c.
Proof.
  intros [l1 [T1 M1]] [l2 [T2 M2]]. exists (l2 ++ l1). split.
  - rewrite T2, T1. apply app_assoc.
  - intros x Hx. rewrite M2, M1; [reflexivity| |]; intros v Hin; apply (Hx v); apply in_or_app; auto.
Qed.

Lemma Frame_set s0 s f v : Frame s0 s -> Frame s0 (set f v s).
Proof. intros [l [T M]]. exists l. split; [exact T | exact M]. Qed.

Lemma Frame_log s0 s e : (forall a v, e <> EvW a v) -> Frame s0 s -> Frame s0 (log e s).
Proof.
  intros He [l [T M]]. exists (e :: l). split; [simpl; f_equal; exact T|].
  intros a Ha. apply M. intros v Hin. apply (Ha v). right. exact Hin.
Qed.

Lemma Frame_write s0 s a v : Frame s0 s -> Frame s0 (log (EvW a v) (upd a v s)).
Proof.
  intros [l [T M]]. exists (EvW a v :: l). split; [simpl; f_equal; exact T|].
  intros b Hb. simpl. destruct (Z.eqb_spec b a) as [E|E].
  - subst b. exfalso. apply (Hb v). left. reflexivity.
  - apply M. intros w Hin. apply (Hb w). right. exact Hin.
Qed.

Lemma fr_bind {A B} s0 s (m : res A) (k : A -> st -> res B) :
  fr_ok s m -> Frame s0 s -> (forall a s1, Frame s0 s1 -> fr_ok s0 (k a s1)) -> fr_ok s0 (bind m k).
Proof.
  destruct m as [a s1|]; simpl; [|auto]. intros H1 H0 Hk. apply Hk. eapply Frame_trans; eassumption.
Qed.

Lemma fr_tail {A} s0 s (r : res A) : fr_ok s r -> Frame s0 s -> fr_ok s0 r.
Proof. destruct r as [a s1|]; simpl; [|auto]. intros H1 H0. eapply Frame_trans; eassumption. Qed.

Lemma fr_seg_get i s : fr_ok s (seg_get i s).
Proof. unfold seg_get. destruct (seg_ok i); simpl; [apply Frame_refl | exact I]. Qed.
Lemma fr_mem_read h a s : fr_ok s (mem_read h a s).
Proof.
  unfold mem_read. destruct (addr_ok a); simpl; [|exact I].
  apply Frame_log; [intros; discriminate | apply Frame_refl].
Qed.
Lemma fr_mem_write h a v s : fr_ok s (mem_write h a v s).
Proof. unfold mem_write. destruct (addr_ok a); simpl; [|exact I]. apply Frame_write. apply Frame_refl. Qed.
Lemma fr_bus_read i a s : fr_ok s (bus_read i a s).
Proof. unfold bus_read. destruct (seg_ok i); [apply fr_mem_read | exact I]. Qed.
Lemma fr_bus_write i a v s : fr_ok s (bus_write i a v s).
Proof. unfold bus_write. destruct (seg_ok i); [apply fr_mem_write | exact I]. Qed.
Lemma fr_cb_pc a s : fr_ok s (cb_pc a s).
Proof.
  unfold cb_pc. simpl. destruct (onpc s a); [|apply Frame_refl].
  apply Frame_log; [intros; discriminate | apply Frame_refl].
Qed.
Lemma fr_cb_call_OnWDM v s : fr_ok s (cb_call_OnWDM v s).
Proof. unfold cb_call_OnWDM. simpl. apply Frame_log; [intros; discriminate | apply Frame_refl]. Qed.

Ltac fr_prim :=
  first [ apply fr_mem_read | apply fr_mem_write | apply fr_bus_read | apply fr_bus_write
        | apply fr_seg_get | apply fr_cb_pc | apply fr_cb_call_OnWDM ].

Ltac fr_step call :=
  lazymatch goal with
  | |- fr_ok ?s0 (bind _ _) =>
      eapply fr_bind;
      [ first [ fr_prim | call tt ]
      | eassumption
      | cbv beta; let r := fresh "r" in let s := fresh "s" in let H := fresh "Hf" in intros r s H ]
  | |- fr_ok ?s0 (let x := set ?f ?v ?s1 in @?b x) =>
      match goal with
      | H : Frame s0 s1 |- _ =>
          let Hn := fresh "Hf" in
          assert (Hn : Frame s0 (set f v s1)) by (apply Frame_set; exact H);
          change (fr_ok s0 (b (set f v s1))); cbv beta;
          let s2 := fresh "s" in generalize (set f v s1) Hn; clear Hn; intros s2 Hn
      end
  | |- fr_ok ?s0 (let x := ?e in @?b x) =>
      let x' := fresh "x" in
      pose (x' := e); change (fr_ok s0 (b x')); cbv beta;
      lazymatch type of e with
      | st -> res _ =>
          let Hk := fresh "Hk" in
          assert (Hk : forall s1, Frame s0 s1 -> fr_ok s0 (x' s1));
          [ let s1 := fresh "s" in let Hf := fresh "Hf" in intros s1 Hf; cbv beta delta [x']; clear x' | clearbody x' ]
      | Z -> st -> res _ =>
          let Hk := fresh "Hk" in
          assert (Hk : forall a1 s1, Frame s0 s1 -> fr_ok s0 (x' a1 s1));
          [ let a1 := fresh "a" in let s1 := fresh "s" in let Hf := fresh "Hf" in intros a1 s1 Hf; cbv beta delta [x']; clear x'
          | clearbody x' ]
      | _ => idtac
      end
  | |- fr_ok _ (if ?c then _ else _) => case c
  | |- fr_ok _ (Ok _ _) => cbv beta; eassumption
  | |- fr_ok _ Panic => exact I
  | |- fr_ok ?s0 ?t =>
      let h := head_of t in
      first [ is_var h;
              first [ match goal with Hk : context [h] |- _ => eapply Hk; eassumption end
                    | cbv beta delta [h] ]
            | eapply fr_tail; [ first [ fr_prim | call tt ] | eassumption ] ]
  end.

Ltac fr_run call :=
  let H0 := fresh "Hf" in
  lazymatch goal with |- fr_ok ?s0 _ => pose proof (Frame_refl s0) as H0 end;
  cbv beta iota delta [seg_nil orb]; repeat (fr_step call).

(* what the frame gives about one address *)
Definition wrote (s s' : st) (a : Z) : Prop :=
  exists l v, trace s' = l ++ trace s /\ In (EvW a v) l.

Lemma in_evw_dec (l : list ev) a : (exists v, In (EvW a v) l) \/ (forall v, ~ In (EvW a v) l).
Proof.
  induction l as [|e l IH]; [right; intros v []|].
  destruct IH as [[v Hv]|IH]; [left; exists v; right; exact Hv|].
  destruct e as [b w|b w|b|w].
  - right. intros v [H|H]; [discriminate | exact (IH v H)].
  - destruct (Z.eq_dec b a) as [E|E].
    + subst b. left. exists w. left. reflexivity.
    + right. intros v [H|H]; [inversion H; contradiction | exact (IH v H)].
  - right. intros v [H|H]; [discriminate | exact (IH v H)].
  - right. intros v [H|H]; [discriminate | exact (IH v H)].
Qed.

Lemma Frame_mem s s' a : Frame s s' -> mem s' a = mem s a \/ wrote s s' a.
Proof.
  intros [l [T M]]. destruct (in_evw_dec l a) as [[v Hv]|Hn].
  - right. exists l, v. split; assumption.
  - left. apply M. exact Hn.
Qed.

(* ------------------------------------------------------------------ 2. the executor with known fields *)
Lemma safe_if_true {A} (Q : A -> st -> Prop) (c : bool) a b : c = true -> safe Q a -> safe Q (if c then a else b).
Proof. intros E H. rewrite E. exact H. Qed.
Lemma safe_if_false {A} (Q : A -> st -> Prop) (c : bool) a b : c = false -> safe Q b -> safe Q (if c then a else b).
Proof. intros E H. rewrite E. exact H. Qed.

(* assignment to a field whose layer is being replaced: every other field keeps its predicate *)
Lemma inv_set_relayer (B B' : N -> Z -> Prop) g v s :
  Inv B s -> (forall f u, f <> g -> B f u -> B' f u) -> B' g v -> Inv B' (set g v s).
Proof.
  intros [H Ht] Himp Hv. split; [|exact Ht]. intro f. unfold get, set; simpl. destruct (N.eqb f g) eqn:E.
  - apply N.eqb_eq in E. subst f. exact Hv.
  - apply Himp; [intro E'; subst f; rewrite N.eqb_refl in E; discriminate | apply H].
Qed.

Lemma inv_relax (B B' : N -> Z -> Prop) s : Inv B s -> (forall f u, B f u -> B' f u) -> Inv B' s.
Proof. intros [H Ht] Himp. split; [|exact Ht]. intro f. apply Himp. apply H. Qed.

(* layer-wise implication between two nests of the same shape that differ at the layers of field g *)
Ltac relayer_tac :=
  let f := fresh "f" in let u := fresh "u" in let Hne := fresh "Hne" in let H := fresh "H" in
  intros f u Hne H;
  repeat lazymatch goal with
         | |- ovr ?h ?P ?B f u =>
             let H1 := fresh "H" in let H2 := fresh "H" in
             destruct H as [H1 H2]; split;
             [ | first [ exact H2
                       | destruct (N.eqb_spec f h) as [E|E]; [ exfalso; apply Hne; exact E | exact I ] ] ];
             rename H1 into H
         | |- _ => exact H
         end.

(* the nest B with the predicate of the first layer of field g replaced by P' (fails if there is none) *)
Ltac relayer B g P' :=
  lazymatch B with
  | ovr ?h ?P ?B' =>
      let b := eval cbv in (N.eqb h g) in
      lazymatch b with
      | true => constr:(ovr h P' B')
      | false => let r := relayer B' g P' in constr:(ovr h P r)
      end
  end.

(* the predicate of the first layer of field g *)
Ltac layer_of B g :=
  lazymatch B with
  | ovr ?h ?P ?B' =>
      let b := eval cbv in (N.eqb h g) in
      lazymatch b with
      | true => P
      | false => layer_of B' g
      end
  end.

(* rewrite every [get g s] whose layer in H : Inv B s is [eq c] to c *)
Ltac rw_known_in H :=
  lazymatch type of H with
  | Inv (ovr ?g (eq ?c) ?B') ?s =>
      try rewrite <- (inv_ovr_get B' g (eq c) s H);
      rw_known_in constr:(inv_ovr_base B' g (eq c) s H)
  | Inv (ovr ?g ?P ?B') ?s => rw_known_in constr:(inv_ovr_base B' g P s H)
  | _ => idtac
  end.

Ltac rw_known :=
  lazymatch goal with
  | H : Inv _ _ |- _ => rw_known_in H
  | _ => idtac
  end.

Lemma safe_cb_pc_m (B : N -> Z -> Prop) a m0 s :
  Inv B s -> mem s = m0 -> safe (fun r s' => True /\ Inv B s' /\ mem s' = m0) (cb_pc a s).
Proof.
  intros H Hm. unfold cb_pc. simpl. split; [exact I|].
  destruct (onpc s a); [split; [apply inv_log; [exact I | exact H] | exact Hm] | split; assumption].
Qed.

Ltac solve_side_c :=
  lazymatch goal with
  | |- rng _ _ => solve_rng
  | |- Inv _ _ => eassumption
  | |- mem _ = _ => eassumption
  | |- True => exact I
  | |- _ => idtac
  end.

Ltac is_const e :=
  lazymatch e with
  | Z0 => idtac | Zpos _ => idtac | Zneg _ => idtac | true => idtac | false => idtac
  end.

(* one step; [callm] = lemmas that keep the memory hypothesis (tried first), [call] = SafeLib-style lemmas of
   translated callees, [sethook] = what to do when a field is assigned whose layer is neither eq nor provable,
   [hook] runs before every step *)
Ltac cstep callm call sethook hook :=
  hook tt; rw_known;
  lazymatch goal with
  | |- safe _ (bind _ _) =>
      eapply safe_bind;
      [ first [ callm tt | call_prim; solve_side_c | call tt; solve_side_c ]
      | cbv beta; let r := fresh "r" in let s := fresh "s" in let Hr := fresh "Hr" in let Hp := fresh "Hp" in
        intros r s [Hr Hp];
        lazymatch type of Hp with
        | Inv _ _ => idtac
        | _ /\ _ => let Hi := fresh "Hi" in let Hm := fresh "Hm" in destruct Hp as [Hi Hm]
        end ]
  | |- safe ?Q (let x := set ?f ?v ?s0 in @?b x) =>
      match goal with
      | H : Inv ?B s0 |- _ =>
          let Hn := fresh "Hi" in
          first [ sethook Hn B f v s0 H
                | (* a field known by value: the new value becomes the known one *)
                  let P := layer_of B f in
                  lazymatch P with eq _ => idtac end;
                  let B' := relayer B f (eq v) in
                  assert (Hn : Inv B' (set f v s0)) by (eapply inv_set_relayer; [exact H | relayer_tac | prove_B])
                | assert (Hn : Inv B (set f v s0)) by (apply inv_set; [exact H | prove_B]) ];
          change (safe Q (b (set f v s0))); cbv beta;
          try (match goal with
               | Hm : mem s0 = ?m0 |- _ => generalize (Hm : mem (set f v s0) = m0)
               end);
          let s1 := fresh "s" in generalize (set f v s0) Hn; clear Hn; intros s1 Hn;
          try (lazymatch goal with |- mem s1 = _ -> _ => let Hm' := fresh "Hm" in intro Hm' end)
      end
  | |- safe ?Q (let x := ?e in @?b x) =>
      first [ (* variables and literals are substituted, so that conditions over them compute *)
              first [ is_var e | is_const e ]; change (safe Q (b e)); cbv beta
            | let x' := fresh "x" in pose (x' := e); change (safe Q (b x')); cbv beta ]
  | |- safe _ (if ?c then _ else _) =>
      first [ lazymatch c with context [get] => fail | _ => idtac end; tryif is_var c then fail else idtac;
              let b := eval cbv in c in
              lazymatch b with
              | true => apply safe_if_true; [ vm_compute; reflexivity | ]
              | false => apply safe_if_false; [ vm_compute; reflexivity | ]
              end
            | case c ]
  | |- safe _ (Ok _ _) => cbv beta; split; [ res_goal | eassumption ]
  | |- safe _ Panic => fail 1 "symbolic execution reached Panic"
  | |- safe _ ?t =>
      let h := head_of t in
      first [ is_var h; cbv beta delta [h]
            | callm tt
            | call tt; solve_side_c ]
  end.

Ltac crun callm call sethook hook := cbv beta iota delta [seg_nil orb]; repeat (cstep callm call sethook hook).

Ltac no_sethook Hn B f v s0 H := fail.
Ltac no_hook x := idtac.
Ltac no_call x := fail.

(* ------------------------------------------------------------------ addresses *)
Lemma lor_shl16 : forall b a, 0 <= b < 256 -> 0 <= a < 65536 -> w_or (shl32 b 16) a = b * 65536 + a.
Proof.
  intros b a Hb Ha. unfold w_or, shl32. rewrite Z.shiftl_mul_pow2 by lia.
  change (2 ^ 16) with 65536. rewrite Z.mod_small by lia.
  rewrite <- Z.lxor_lor, <- Z.add_nocarry_lxor; try reflexivity.
  - apply Z.bits_inj'. intros n Hn. rewrite Z.land_spec, Z.bits_0.
    destruct (Z.ltb_spec n 16).
    + replace (b * 65536) with (b * 2 ^ 16) by reflexivity. rewrite Z.mul_pow2_bits_low by lia. reflexivity.
    + replace a with (a mod 2 ^ 16) by (apply Z.mod_small; change (2 ^ 16) with 65536; lia).
      rewrite Z.mod_pow2_bits_high by lia. apply andb_false_r.
  - apply Z.bits_inj'. intros n Hn. rewrite Z.land_spec, Z.bits_0.
    destruct (Z.ltb_spec n 16).
    + replace (b * 65536) with (b * 2 ^ 16) by reflexivity. rewrite Z.mul_pow2_bits_low by lia. reflexivity.
    + replace a with (a mod 2 ^ 16) by (apply Z.mod_small; change (2 ^ 16) with 65536; lia).
      rewrite Z.mod_pow2_bits_high by lia. apply andb_false_r.
Qed.

(* ------------------------------------------------------------------ 3. REP / SEP on one status bit *)
(* bit k of a byte as 0 / 1, the way SetFlags extracts it *)
Definition bitof (v k : Z) : Z := w_and (w_shr v k) 1.

Lemma bitof_testbit v k : 0 <= k -> bitof v k = b2z (Z.testbit v k).
Proof.
  intro Hk. unfold bitof, w_and, w_shr.
  assert (E : forall y, Z.land y 1 = y mod 2) by (intro y; change 1 with (Z.ones 1); apply Z.land_ones; lia).
  rewrite E. rewrite Z.shiftr_div_pow2 by exact Hk. rewrite <- Z.testbit_spec' by exact Hk.
  destruct (Z.testbit v k); reflexivity.
Qed.

(* REP: P := P and not o *)
Lemma rep_bit F o k : 0 <= k < 8 -> rng 8 o ->
  bitof (w_and F (not8 o)) k = if Z.testbit o k then 0 else bitof F k.
Proof.
  intros Hk Ho. rewrite !bitof_testbit by lia. unfold w_and, not8. rewrite Z.land_spec, Z.lxor_spec.
  replace (Z.testbit 255 k) with true.
  - destruct (Z.testbit o k); [rewrite andb_false_r | rewrite andb_true_r]; reflexivity.
  - symmetry. change 255 with (Z.ones 8). apply Z.ones_spec_low. lia.
Qed.

(* SEP: P := P or o *)
Lemma sep_bit F o k : 0 <= k ->
  bitof (w_or F o) k = if Z.testbit o k then 1 else bitof F k.
Proof.
  intros Hk. rewrite !bitof_testbit by lia. unfold w_or. rewrite Z.lor_spec.
  destruct (Z.testbit o k); [rewrite orb_true_r | rewrite orb_false_r]; reflexivity.
Qed.

Definition rep_val (old o k : Z) : Z := if Z.testbit o k then 0 else old.
Definition sep_val (old o k : Z) : Z := if Z.testbit o k then 1 else old.

Lemma bitp_rep_val old o k : bitp old -> bitp (rep_val old o k).
Proof. unfold rep_val. destruct (Z.testbit o k); [intros; apply bitp_0 | auto]. Qed.
Lemma bitp_sep_val old o k : bitp old -> bitp (sep_val old o k).
Proof. unfold sep_val. destruct (Z.testbit o k); [intros; apply bitp_1 | auto]. Qed.
