(* C11: lemmas about the System memory-map model (Model/System.v) and the statement of the property
   against a mapper's BusAddressToPak (parameter b2p; instantiated per run with the regenerated
   lorom function).  Static part: page-table justification, bus/RAM access lemmas, check => prop. *)
From Coq Require Import Uint63 ZArith Bool Lia List.
From Lib Require Import U63Ops Sweep Digest.
From Model Require Import System.
Import ListNotations.
Local Open Scope uint63_scope.

(* ------------------------------------------------------------------------------------------ *)
(* 1. the balanced-tree memo table                                                              *)

Lemma lookup_build {A : Type} (f : int -> A) (d : A) : forall (k : nat) (base sz i : int),
  (to_Z sz = 2 ^ Z.of_nat k)%Z ->
  (to_Z base + 2 ^ Z.of_nat k <= wB)%Z ->
  (to_Z base <= to_Z i < to_Z base + 2 ^ Z.of_nat k)%Z ->
  lookup k base sz (build k base sz f) i d = f i.
Proof.
  induction k as [|k IH]; intros base sz i Hsz Hb Hi.
  - cbn. change (2 ^ Z.of_nat 0)%Z with 1%Z in Hi.
    assert (E : i = base) by (apply to_Z_inj; lia). subst; reflexivity.
  - cbn [build lookup].
    assert (Hpow : (2 ^ Z.of_nat (S k) = 2 * 2 ^ Z.of_nat k)%Z).
    { rewrite Nat2Z.inj_succ, Z.pow_succ_r by lia. reflexivity. }
    assert (Hpos : (0 < 2 ^ Z.of_nat k)%Z) by (apply Z.pow_pos_nonneg; lia).
    assert (Hh : to_Z (sz >> 1) = (2 ^ Z.of_nat k)%Z).
    { rewrite lsr_spec, Hsz, Hpow. change (to_Z 1) with 1%Z. change (2 ^ 1)%Z with 2%Z.
      rewrite Z.mul_comm, Z.div_mul by lia. reflexivity. }
    pose proof (to_Z_bounded base) as Bb.
    assert (Hadd : to_Z (base + (sz >> 1)) = (to_Z base + 2 ^ Z.of_nat k)%Z).
    { rewrite add_spec, Hh. apply Z.mod_small. lia. }
    destruct (i <? base + (sz >> 1)) eqn:E.
    + apply Uint63.ltb_spec in E. apply IH; lia.
    + assert (Hge : ~ (to_Z i < to_Z (base + (sz >> 1)))%Z).
      { intro C. apply Uint63.ltb_spec in C. congruence. }
      apply IH; lia.
Qed.

(* ------------------------------------------------------------------------------------------ *)
(* 2. ranges made of whole 8 KiB pages: the owner of an address is the owner of its page        *)

Lemma land_8191 (x : int) : to_Z (x land 8191) = (to_Z x mod 8192)%Z.
Proof. rewrite land_spec'. change (to_Z 8191) with (Z.ones 13). rewrite Z.land_ones by lia. reflexivity. Qed.

Lemma page_base_spec (a : int) : (to_Z a < 16777216)%Z ->
  to_Z ((a >> 13) << 13) = (8192 * (to_Z a / 8192))%Z.
Proof.
  intro Ha. pose proof (to_Z_bounded a) as Ba.
  rewrite lsl_spec, lsr_spec. change (to_Z 13) with 13%Z. change (2 ^ 13)%Z with 8192%Z.
  rewrite Z.mod_small; [lia|].
  change wB with 9223372036854775808%Z.
  Ltac Zify.zify_post_hook ::= Z.div_mod_to_equations. lia.
Qed.

Lemma bool_eq_iff (x y : bool) : (x = true <-> y = true) -> x = y.
Proof. destruct x, y; intuition congruence. Qed.

Lemma covers_page (x : attach) (a : int) :
  page_aligned x = true -> (a <? 16777216) = true -> covers x a = covers x ((a >> 13) << 13).
Proof.
  unfold page_aligned, covers. intros H Ha.
  repeat (apply andb_prop in H; destruct H as [H ?]).
  rename H into H1, H2 into H2', H1 into H3, H0 into H4.
  apply Uint63.eqb_spec in H1. apply Uint63.eqb_spec in H2'.
  apply (f_equal to_Z) in H1. apply (f_equal to_Z) in H2'.
  rewrite land_8191 in H1, H2'. change (to_Z 0) with 0%Z in H1, H2'.
  apply Uint63.leb_spec in H3. apply Uint63.ltb_spec in H4. apply Uint63.ltb_spec in Ha.
  change (to_Z 16777216) with 16777216%Z in *.
  pose proof (to_Z_bounded (a_end x)) as Be. pose proof (to_Z_bounded (a_start x)) as Bs.
  pose proof (to_Z_bounded a) as Ba.
  assert (He1 : to_Z (a_end x + 1) = (to_Z (a_end x) + 1)%Z).
  { rewrite add_spec. change (to_Z 1) with 1%Z. apply Z.mod_small.
    change wB with 9223372036854775808%Z. lia. }
  rewrite He1 in H2'.
  pose proof (page_base_spec a Ha) as Hp.
  apply bool_eq_iff. rewrite !andb_true_iff, !Uint63.leb_spec, Hp.
  Ltac Zify.zify_post_hook ::= Z.div_mod_to_equations. lia.
Qed.

Lemma fold_owner_ext (l : list attach) (a a' : int) :
  (forall x, In x l -> covers x a = covers x a') ->
  forall acc, fold_left (fun acc x => if covers x a then Some x else acc) l acc =
              fold_left (fun acc x => if covers x a' then Some x else acc) l acc.
Proof.
  induction l as [|x l IH]; intros H acc; [reflexivity|].
  cbn [fold_left]. rewrite (H x (or_introl eq_refl)). apply IH. intros y Hy. apply H. right; exact Hy.
Qed.

Lemma winner_page (l : list attach) (a : int) :
  forallb page_aligned l = true -> (a <? 16777216) = true ->
  winner l a = winner l ((a >> 13) << 13).
Proof.
  intros Hl Ha. unfold winner. apply fold_owner_ext. intros x Hx.
  apply covers_page; [|exact Ha]. rewrite forallb_forall in Hl. apply Hl; exact Hx.
Qed.

(* closed facts about the modelled Attach list, by computation *)
Lemma attaches_page_aligned : forallb page_aligned attaches = true.
Proof. vm_compute. reflexivity. Qed.
Lemma attaches_ok : forallb attach_ok attaches = true.
Proof. vm_compute. reflexivity. Qed.
Lemma attaches_count : length attaches = 485%nat.   (* 2*64 ROM + 2*2 SRAM + 1 + 128 WRAM + 2*112 hwio *)
Proof. vm_compute. reflexivity. Qed.
Lemma ptab_is_build : ptab = build 11 0 2048 (page_owner attaches).
Proof. vm_compute. reflexivity. Qed.

Lemma lsr13_bound (a : int) : (a <? 16777216) = true -> (to_Z (a >> 13) < 2048)%Z.
Proof.
  intro Ha. apply Uint63.ltb_spec in Ha. change (to_Z 16777216) with 16777216%Z in Ha.
  pose proof (to_Z_bounded a) as Ba.
  rewrite lsr_spec. change (to_Z 13) with 13%Z. change (2 ^ 13)%Z with 8192%Z.
  Ltac Zify.zify_post_hook ::= Z.div_mod_to_equations. lia.
Qed.

(* the page table computes the fold over all 485 Attach records *)
Theorem resolve_fast_ok (a : int) : (a <? 16777216) = true -> resolve_fast a = resolve a.
Proof.
  intro Ha. unfold resolve_fast, resolve, resolve_in. f_equal.
  rewrite ptab_is_build.
  rewrite (lookup_build (page_owner attaches) None 11 0 2048 (a >> 13)).
  - unfold page_owner. symmetry. apply winner_page; [exact attaches_page_aligned | exact Ha].
  - reflexivity.
  - vm_compute. discriminate.
  - pose proof (lsr13_bound a Ha). pose proof (to_Z_bounded (a >> 13)).
    change (to_Z 0) with 0%Z. change (2 ^ Z.of_nat 11)%Z with 2048%Z. lia.
Qed.

(* ------------------------------------------------------------------------------------------ *)
(* 3. accesses: a read returns the byte of the resolved cell, a write changes exactly that cell   *)

Lemma cls_eqb_eq (a b : cls) : cls_eqb a b = true -> a = b.
Proof. destruct a, b; cbn; congruence. Qed.
Lemma cls_eqb_refl (a : cls) : cls_eqb a a = true.
Proof. destruct a; reflexivity. Qed.

Lemma upd_same (st : store) c o v : upd st c o v c o = v.
Proof. unfold upd. rewrite cls_eqb_refl, Uint63.eqb_refl. reflexivity. Qed.

Lemma upd_other (st : store) c o v c' o' : (c' <> c \/ o' <> o) -> upd st c o v c' o' = st c' o'.
Proof.
  unfold upd. intro H. destruct (cls_eqb c c') eqn:E1; [|reflexivity].
  destruct (o =? o') eqn:E2; [|reflexivity].
  apply cls_eqb_eq in E1. apply Uint63.eqb_spec in E2. subst. destruct H; congruence.
Qed.

Theorem bus_read_resolve (st : store) (a : int) :
  bus_read st a = match resolve a with CNone => RPanic | CIO => RIO | CCell c o => RByte (st c o) end.
Proof.
  unfold bus_read, resolve, resolve_in, cell_at. destruct (winner attaches a) as [x|]; [|reflexivity].
  unfold dev_cell. destruct (a_dev x) as [c lo len off|]; [|reflexivity].
  cbv zeta. destruct (sub32 a off <? len); reflexivity.
Qed.

Theorem bus_write_resolve (st : store) (a v : int) :
  bus_write st a v = match resolve a with CNone => None | CIO => Some st | CCell c o => Some (upd st c o v) end.
Proof.
  unfold bus_write, resolve, resolve_in, cell_at. destruct (winner attaches a) as [x|]; [|reflexivity].
  unfold dev_cell. destruct (a_dev x) as [c lo len off|]; [|reflexivity].
  cbv zeta. destruct (sub32 a off <? len); reflexivity.
Qed.

(* reads and writes through an address whose cell is (c, o) *)
Definition access_prop (a : int) (c : cls) (o : int) : Prop :=
  (forall st, bus_read st a = RByte (st c o)) /\
  (forall st v, exists st', bus_write st a v = Some st' /\ st' c o = v /\
                            forall c' o', (c' <> c \/ o' <> o) -> st' c' o' = st c' o').

Theorem access_cell (a : int) (c : cls) (o : int) : resolve a = CCell c o -> access_prop a c o.
Proof.
  intro H. split.
  - intro st. rewrite bus_read_resolve, H. reflexivity.
  - intros st v. exists (upd st c o v). rewrite bus_write_resolve, H.
    split; [reflexivity|]. split; [apply upd_same|]. intros c' o' Hne. apply upd_other; exact Hne.
Qed.

(* an access the model calls I/O or panic leaves all three arrays as they were *)
Theorem access_other (a : int) (st : store) (v : int) :
  resolve a = CIO \/ resolve a = CNone -> bus_write st a v = Some st \/ bus_write st a v = None.
Proof. rewrite bus_write_resolve. intros [H|H]; rewrite H; auto. Qed.

(* ------------------------------------------------------------------------------------------ *)
(* 4. the property, against a mapper's bus -> pak function                                        *)

(* the cell an FX Pak Pro address designates: ROM pak p < $E00000 -> ROM[p]; SRAM $E00000+o -> SRAM[o];
   WRAM $F50000+o -> WRAM[o] (o < $20000); nothing else *)
Definition pak_cell (p : int) : option (cls * int) :=
  if p <? 0xE00000 then Some (ROM, p)
  else if p <? 0xF00000 then Some (SRAM, p - 0xE00000)
  else if (0xF50000 <=? p) && (p <? 0xF70000) then Some (WRAM, p - 0xF50000)
  else None.

(* and back: the pak address of a cell *)
Definition cell_pak (c : cls) (o : int) : int :=
  match c with ROM => o | SRAM => 0xE00000 + o | WRAM => 0xF50000 + o end.

Definition ocell_eqb (x : option (cls * int)) (c : cls) (o : int) : bool :=
  match x with Some (c', o') => cls_eqb c' c && (o' =? o) | None => false end.
Lemma ocell_eqb_ok x c o : ocell_eqb x c o = true -> x = Some (c, o).
Proof.
  destruct x as [[c' o']|]; cbn; [|discriminate]. intro H. apply andb_prop in H; destruct H as [H1 H2].
  apply cls_eqb_eq in H1. apply Uint63.eqb_spec in H2. subst; reflexivity.
Qed.

Definition cell_eqb (x y : cell) : bool :=
  match x, y with
  | CNone, CNone | CIO, CIO => true
  | CCell c o, CCell c' o' => cls_eqb c c' && (o =? o')
  | _, _ => false
  end.
Lemma cell_eqb_ok x y : cell_eqb x y = true -> x = y.
Proof.
  destruct x as [| |c o], y as [| |c' o']; cbn; try discriminate; try reflexivity.
  intro H. apply andb_prop in H; destruct H as [H1 H2].
  apply cls_eqb_eq in H1. apply Uint63.eqb_spec in H2. subst; reflexivity.
Qed.

Definition is_cell (x : cell) : bool := match x with CCell _ _ => true | _ => false end.
Definition is_io (x : cell) : bool := match x with CIO => true | _ => false end.

Section Against.
Variable b2p : int -> int * gerr.

(* -- (a) agreement wherever the emulator backs an address with one of its arrays -- *)
Definition agree_check (r : int -> cell) (n : int) : bool :=
  match r n with
  | CCell c o =>
      (o <? arr_len c) &&
      match b2p n with
      | (p, ENil) => (p =? cell_pak c o) && ocell_eqb (pak_cell p) c o
      | _ => false
      end
  | CIO => negb (gerr_is_nil (snd (b2p n)))
  | CNone => true
  end.

Definition agree_prop (n : int) : Prop :=
  (forall c o, resolve n = CCell c o ->
     (o <? arr_len c) = true /\ b2p n = (cell_pak c o, ENil) /\ pak_cell (cell_pak c o) = Some (c, o)) /\
  (resolve n = CIO -> snd (b2p n) <> ENil).

Lemma agree_ok n : agree_check resolve n = true -> agree_prop n.
Proof.
  unfold agree_check, agree_prop. destruct (resolve n) as [| |c o]; intro H.
  - split; [intros; discriminate | intro; discriminate].
  - split; [intros; discriminate|]. intros _ C. rewrite C in H. discriminate.
  - split; [|intro; discriminate]. intros c' o' E; inversion E; subst c' o'.
    apply andb_prop in H; destruct H as [H1 H2]. split; [exact H1|].
    destruct (b2p n) as [p [| |]]; try discriminate.
    apply andb_prop in H2; destruct H2 as [H2 H3]. apply Uint63.eqb_spec in H2. subst p.
    split; [reflexivity | apply ocell_eqb_ok; exact H3].
Qed.

(* -- (b) the mirrors the mapper declares are backed, and by the same storage -- *)
Definition mirror_check (r : int -> cell) (n : int) : bool :=
  let bank := n >> 16 in
  let off := n land 0xFFFF in
  if bank <=? 0x3F then
    (n + 0x800000 <? 16777216) && (0x7E0000 + off <? 16777216) &&
    (if (0x8000 <=? off) || (off <? 0x2000) then is_cell (r n) && cell_eqb (r n) (r (n + 0x800000)) else true) &&
    (if off <? 0x2000 then cell_eqb (r n) (r (0x7E0000 + off)) else true)
  else if (0x70 <=? bank) && (bank <=? 0x7D) && (off <? 0x8000) then
    (n + 0x800000 <? 16777216) && cell_eqb (r n) (r (n + 0x800000)) && negb (is_io (r n))
  else true.

Definition mirror_prop (n : int) : Prop :=
  let bank := n >> 16 in
  let off := n land 0xFFFF in
  (* ROM halves and low WRAM window of banks $00-$3F are backed, and banks $80-$BF show the same cells *)
  ((bank <=? 0x3F) = true -> ((0x8000 <=? off) || (off <? 0x2000)) = true ->
     exists c o, resolve n = CCell c o /\ resolve (n + 0x800000) = CCell c o) /\
  (* the low 8 KiB of a system bank is the start of bank $7E *)
  ((bank <=? 0x3F) = true -> (off <? 0x2000) = true -> resolve n = resolve (0x7E0000 + off)) /\
  (* SRAM banks $F0+ versus $70+: the same cell, or both without backing (never I/O) *)
  (((0x70 <=? bank) && (bank <=? 0x7D) && (off <? 0x8000)) = true ->
     resolve n = resolve (n + 0x800000) /\ resolve n <> CIO).

Lemma mirror_ok n :
  (forall a, (a <? 16777216) = true -> resolve_fast a = resolve a) ->
  (n <? 16777216) = true -> mirror_check resolve_fast n = true -> mirror_prop n.
Proof.
  intros F Hn. unfold mirror_check, mirror_prop. cbv zeta.
  destruct (n >> 16 <=? 0x3F) eqn:Eb.
  - intro H. repeat (apply andb_prop in H; destruct H as [H ?]).
    rename H into B1, H2 into B2, H1 into H3, H0 into H4.
    rewrite (F n Hn), (F _ B1) in H3. rewrite (F n Hn), (F _ B2) in H4.
    split; [|split].
    + intros _ E. rewrite E in H3. apply andb_prop in H3; destruct H3 as [Hc He].
      apply cell_eqb_ok in He. destruct (resolve n) as [| |c o]; try discriminate.
      exists c, o. split; [reflexivity | symmetry; exact He].
    + intros _ E. rewrite E in H4. apply cell_eqb_ok; exact H4.
    + intro C. exfalso. apply andb_prop in C; destruct C as [C _]. apply andb_prop in C; destruct C as [C _].
      apply Uint63.leb_spec in C. apply Uint63.leb_spec in Eb.
      change (to_Z 0x70) with 112%Z in C. change (to_Z 0x3F) with 63%Z in Eb. lia.
  - destruct ((0x70 <=? n >> 16) && (n >> 16 <=? 0x7D) && (n land 0xFFFF <? 0x8000)) eqn:Es.
    + intro H. repeat (apply andb_prop in H; destruct H as [H ?]).
      rename H into B1, H1 into H2, H0 into H3.
      rewrite (F n Hn), (F _ B1) in H2. rewrite (F n Hn) in H3.
      split; [intro; discriminate|]. split; [intros C; discriminate|].
      intros _. split; [apply cell_eqb_ok; exact H2|].
      intro C. rewrite C in H3. discriminate.
    + intros _. split; [intro; discriminate|]. split; [intro; discriminate|]. intro; discriminate.
Qed.

Definition c11_check (n : int) : bool := agree_check resolve_fast n && mirror_check resolve_fast n.
Definition c11_prop (n : int) : Prop := agree_prop n /\ mirror_prop n.

Lemma c11_ok n : (n <? 16777216) = true -> c11_check n = true -> c11_prop n.
Proof.
  intros Hn H. unfold c11_check in H. apply andb_prop in H; destruct H as [H1 H2]. split.
  - apply agree_ok. unfold agree_check in *. rewrite <- (resolve_fast_ok n Hn). exact H1.
  - apply (mirror_ok n resolve_fast_ok Hn H2).
Qed.

Lemma c11_all : all24 c11_check = true -> forall n, (n <? 16777216) = true -> c11_prop n.
Proof. intros H n Hn. apply c11_ok; [exact Hn|]. exact (all24_sound _ H n Hn). Qed.

(* ---- consequences, in the words of the property ---- *)
Section Consequences.
Hypothesis ALL : forall n, (n <? 16777216) = true -> c11_prop n.

(* for every bus address the emulator backs with ROM/SRAM/WRAM storage: the mapper translates it, to the pak
   address of exactly that byte; a read returns that byte and a write changes exactly that byte *)
Theorem map_agrees : forall n, (n <? 16777216) = true -> forall c o, resolve n = CCell c o ->
  (o <? arr_len c) = true /\
  b2p n = (cell_pak c o, ENil) /\ pak_cell (cell_pak c o) = Some (c, o) /\
  access_prop n c o.
Proof.
  intros n Hn c o E. destruct (ALL n Hn) as [[A _] _]. destruct (A c o E) as [A1 [A2 A3]].
  repeat split; auto; apply (access_cell n c o E).
Qed.

(* the same, read from the mapper's side *)
Theorem agree_with_pak : forall n, (n <? 16777216) = true -> forall c o p, resolve n = CCell c o ->
  b2p n = (p, ENil) -> pak_cell p = Some (c, o).
Proof.
  intros n Hn c o p E B. destruct (map_agrees n Hn c o E) as [_ [A2 [A3 _]]].
  rewrite A2 in B. inversion B; subst p. exact A3.
Qed.

(* never a different class: an address the mapper assigns to a cell is that very cell in the emulator, or has
   no backing at all (never I/O, never another array or another byte); and the emulator backs nothing the
   mapper leaves unmapped *)
Theorem never_other_class : forall n, (n <? 16777216) = true ->
  (forall p c o, b2p n = (p, ENil) -> pak_cell p = Some (c, o) -> resolve n = CCell c o \/ resolve n = CNone) /\
  (snd (b2p n) <> ENil -> resolve n = CIO \/ resolve n = CNone).
Proof.
  intros n Hn. destruct (ALL n Hn) as [[A I] _]. split.
  - intros p c o B P. destruct (resolve n) as [| |c' o'] eqn:E; [right; reflexivity | | ].
    + exfalso. apply (I eq_refl). rewrite B. reflexivity.
    + destruct (A c' o' eq_refl) as [_ [A2 A3]]. rewrite A2 in B. inversion B; subst p.
      rewrite A3 in P. inversion P; subst. left; reflexivity.
  - intro U. destruct (resolve n) as [| |c' o'] eqn:E; auto.
    destruct (A c' o' eq_refl) as [_ [A2 _]]. rewrite A2 in U. exfalso; apply U; reflexivity.
Qed.

(* two addresses the mapper sends to one pak address share storage in the emulator, and conversely *)
Theorem mirrors_share_storage : forall n m, (n <? 16777216) = true -> (m <? 16777216) = true ->
  forall c o c' o', resolve n = CCell c o -> resolve m = CCell c' o' ->
  (fst (b2p n) = fst (b2p m) <-> (c = c' /\ o = o')).
Proof.
  intros n m Hn Hm c o c' o' En Em.
  destruct (map_agrees n Hn c o En) as [_ [A2 [A3 _]]].
  destruct (map_agrees m Hm c' o' Em) as [_ [B2 [B3 _]]].
  rewrite A2, B2. cbn [fst]. split.
  - intro E. rewrite E in A3. rewrite A3 in B3. inversion B3; auto.
  - intros [E1 E2]; subst; reflexivity.
Qed.

Theorem declared_mirrors : forall n, (n <? 16777216) = true -> mirror_prop n.
Proof. intros n Hn. exact (proj2 (ALL n Hn)). Qed.

End Consequences.
End Against.

(* ------------------------------------------------------------------------------------------ *)
(* 5. counting inside the kernel (non-vacuity: how many addresses the statements speak about)     *)

Fixpoint count_pow (k : nat) (base sz : int) (P : int -> bool) (acc : int) : int :=
  match k with
  | O => if P base then acc + 1 else acc
  | S k' => let h := sz >> 1 in count_pow k' (base + h) h P (count_pow k' base h P acc)
  end.
Definition count24 (P : int -> bool) : int := count_pow 24 0 16777216 P 0.

(* non-vacuity of the model: it does resolve addresses to every kind of cell *)
Example ex_rom : resolve 0x008000 = CCell ROM 0 /\ resolve 0xBFFFFF = CCell ROM 0x1FFFFF.
Proof. split; vm_compute; reflexivity. Qed.
Example ex_wram : resolve 0x7E2345 = CCell WRAM 0x2345 /\ resolve 0x3F1FFF = CCell WRAM 0x1FFF /\
                  resolve 0x7FFFFF = CCell WRAM 0x1FFFF.
Proof. repeat split; vm_compute; reflexivity. Qed.
Example ex_sram : resolve 0x700000 = CCell SRAM 0 /\ resolve 0xF17FFF = CCell SRAM 0xFFFF.
Proof. split; vm_compute; reflexivity. Qed.
Example ex_io_none : resolve 0x002100 = CIO /\ resolve 0x6F7FFF = CIO /\
                     resolve 0x720000 = CNone /\ resolve 0x400000 = CNone /\ resolve 0x708000 = CNone.
Proof. repeat split; vm_compute; reflexivity. Qed.
