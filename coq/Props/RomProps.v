(* C10 -- ROM.BusReader / ROM.BusWriter (rom.go): theorems about the executable model Model/Rom.v.

   All statements quantify over ANY image, ANY 32-bit bus address and ANY sequence of read sizes /
   write payloads (induction over the history); nothing here is bounded or sampled.

   Window of a bus address a in the ROM half (page a >= $8000), as anchored in rom.go and pinned by
   TestROM_BusReader_Fail_Boundary:   [pc_start a, pc_end a)  with
       pc_start a = $8000 * bank a + (page a - $8000),   pc_end a = $8000 * bank a + $7FFF
   (the last byte of the bank is outside it, for reader and writer alike).

   (a) C10_reads            the results of any sequence of reads = stream_reads over the window bytes
                            (stream_reads_concat / stream_reads_exhausted / stream_reads_eof say what
                            that means: the concatenation is exactly the window, then EOF for ever)
   (b) C10_writes           the results of any sequence of writes = stream_writes over the room in the
                            window; the image afterwards = the image with the accepted payloads,
                            concatenated, stored at pc_start; length, prefix and suffix unchanged
       stream_writes_contract   every result is (len p, nil) or (0, ErrUnexpectedEOF): never n < len p
                            with nil; accepted <=> it still fits; data = concatenation of accepted ones
   (c) C10_read_after_write a reader created at the same address after the writes returns the written
                            bytes first (then the old rest of the window)
   (d) C10_low_page         page < $8000: every read is (0 bytes, ErrUnexpectedEOF), every write is
                            (0, ErrUnexpectedEOF), the image is unchanged -- for any image whatsoever
   (e) C10_no_panic         the window inside the image => neither BusReader nor any Write panics;
       C10_run_no_panic     the same for any mixed history over any number of live handles
   Non-vacuity Examples follow each theorem (computed by vm_compute on concrete images). *)
From Coq Require Import ZArith List Bool Lia.
From Lib Require Import ZList.
From Model Require Import Rom.
Import ListNotations.
Local Open Scope Z_scope.

(* ------------------------------------------------------------------------------------------- *)
(* hypotheses of the theorems                                                                   *)
Definition addr_ok (a : Z) : Prop := 0 <= a < 4294967296.            (* busAddr is a uint32 *)
Definition rom_half (a : Z) : Prop := 32768 <= page a.               (* page >= $8000 *)
Definition window_inside (img : image) (a : Z) : Prop := pc_end a <= zlen img.
Definition bank_inside (img : image) (a : Z) : Prop := 32768 * bank a + 32768 <= zlen img.
Definition sizes_ok (ks : list Z) : Prop := Forall (fun k => 0 <= k) ks.   (* len(p) >= 0 *)

(* ------------------------------------------------------------------------------------------- *)
(* address arithmetic: none of the uint32 operations of BusReader/BusWriter wraps               *)
Lemma page_eq : forall a, page a = a mod 65536.
Proof. intros a. unfold page. change 65535 with (Z.ones 16). rewrite Z.land_ones by lia. reflexivity. Qed.

Lemma bank_eq : forall a, bank a = a / 65536.
Proof. intros a. unfold bank. rewrite Z.shiftr_div_pow2 by lia. reflexivity. Qed.

Lemma page_range : forall a, 0 <= page a < 65536.
Proof. intros a. rewrite page_eq. apply Z.mod_pos_bound. lia. Qed.

Lemma bank_range : forall a, addr_ok a -> 0 <= bank a < 65536.
Proof.
  intros a [H0 H1]. rewrite bank_eq. split.
  - apply Z.div_pos; lia.
  - apply Z.div_lt_upper_bound; lia.
Qed.

Lemma land_shifted_low : forall b p, 0 <= p < 32768 -> Z.land (b * 32768) p = 0.
Proof.
  intros b p Hp. apply Z.bits_inj'. intros n Hn. rewrite Z.land_spec, Z.bits_0.
  destruct (Z.lt_ge_cases n 15) as [Hlt|Hge].
  - change 32768 with (2 ^ 15). rewrite <- Z.shiftl_mul_pow2 by lia.
    rewrite Z.shiftl_spec_low by lia. reflexivity.
  - rewrite <- (Z.mod_small p (2 ^ 15)) by (change (2 ^ 15) with 32768; lia).
    rewrite Z.mod_pow2_bits_high by lia. apply andb_false_r.
Qed.

Lemma lor_shifted_low : forall b p, 0 <= p < 32768 -> Z.lor (b * 32768) p = b * 32768 + p.
Proof.
  intros b p Hp. pose proof (land_shifted_low b p Hp) as Hl.
  rewrite <- Z.lxor_lor by exact Hl. symmetry. apply Z.add_nocarry_lxor. exact Hl.
Qed.

Lemma shifted_bank : forall a, addr_ok a -> u32 (Z.shiftl (bank a) 15) = bank a * 32768.
Proof.
  intros a Ha. pose proof (bank_range a Ha) as Hb. rewrite Z.shiftl_mul_pow2 by lia.
  change (2 ^ 15) with 32768. unfold u32. apply Z.mod_small. lia.
Qed.

Lemma pc_end_eq : forall a, addr_ok a -> pc_end a = 32768 * bank a + 32767.
Proof.
  intros a Ha. unfold pc_end. rewrite shifted_bank by exact Ha. rewrite lor_shifted_low by lia. lia.
Qed.

Lemma pc_start_eq : forall a, addr_ok a -> rom_half a -> pc_start a = 32768 * bank a + (page a - 32768).
Proof.
  intros a Ha Hp. unfold rom_half in Hp. pose proof (page_range a) as Hr.
  unfold pc_start. rewrite shifted_bank by exact Ha.
  replace (u32 (page a - 32768)) with (page a - 32768) by (unfold u32; rewrite Z.mod_small; lia).
  rewrite lor_shifted_low by lia. lia.
Qed.

(* the window: non-negative start, start <= end < 2^32, and 65535 - page bytes long (0..32767) *)
Lemma window_facts : forall a, addr_ok a -> rom_half a ->
  0 <= pc_start a /\ pc_start a <= pc_end a /\ pc_end a < 4294967296 /\ pc_end a - pc_start a = 65535 - page a.
Proof.
  intros a Ha Hp. pose proof (bank_range a Ha). pose proof (page_range a). unfold rom_half in Hp.
  rewrite pc_start_eq, pc_end_eq by assumption. lia.
Qed.

Lemma bank_inside_window : forall img a, addr_ok a -> bank_inside img a -> window_inside img a.
Proof. intros img a Ha Hb. unfold window_inside, bank_inside in *. rewrite pc_end_eq by exact Ha. lia. Qed.

(* the window is the bank's 32 KiB block minus what precedes the address and minus its last byte *)
Lemma window_in_bank : forall a, addr_ok a -> rom_half a ->
  32768 * bank a <= pc_start a /\ pc_end a = 32768 * bank a + 32768 - 1.
Proof.
  intros a Ha Hp. unfold rom_half in Hp. rewrite pc_start_eq, pc_end_eq by assumption. lia.
Qed.

(* ------------------------------------------------------------------------------------------- *)
(* the specification side, explained: what refinement to stream_reads / stream_writes means      *)

Lemma stream_reads_eof : forall ks, stream_reads [] ks = map (fun _ => ([], EEOF)) ks.
Proof. induction ks as [|k ks IH]; [reflexivity|]. cbn [stream_reads map]. now rewrite IH. Qed.

Lemma stream_reads_app : forall ks1 ks2 w, sizes_ok ks1 ->
  stream_reads w (ks1 ++ ks2) = stream_reads w ks1 ++ stream_reads (zdrop (zsum ks1) w) ks2.
Proof.
  induction ks1 as [|k ks1 IH]; intros ks2 w Hk.
  - cbn [app zsum stream_reads]. now rewrite zdrop_nonpos by lia.
  - inversion Hk as [|? ? Hk0 Hks]; subst.
    assert (Hz : 0 <= zsum ks1).
    { clear -Hks. induction Hks as [|x l Hx Hl IHl]; cbn [zsum]; lia. }
    cbn [app stream_reads zsum]. destruct w as [|b w].
    + rewrite IH by exact Hks. rewrite !zdrop_all by (rewrite zlen_nil; lia). reflexivity.
    + rewrite IH by exact Hks. rewrite zdrop_zdrop by lia. reflexivity.
Qed.

Lemma zsum_nonneg : forall ks, sizes_ok ks -> 0 <= zsum ks.
Proof. intros ks H. induction H as [|x l Hx Hl IH]; cbn [zsum]; lia. Qed.

(* the bytes delivered by any sequence of reads, concatenated, are a prefix of the stream:
   exactly its first (sum of the sizes) bytes -- nothing skipped, nothing repeated, nothing beyond *)
Lemma stream_reads_concat : forall ks w, sizes_ok ks ->
  concat (map fst (stream_reads w ks)) = ztake (zsum ks) w.
Proof.
  induction ks as [|k ks IH]; intros w Hk.
  - cbn [stream_reads map concat zsum]. now rewrite ztake_nonpos by lia.
  - inversion Hk as [|? ? Hk0 Hks]; subst. pose proof (zsum_nonneg ks Hks) as Hz.
    cbn [stream_reads zsum]. destruct w as [|b w].
    + cbn [map fst concat app]. rewrite IH by exact Hks. unfold ztake. now rewrite !firstn_nil.
    + cbn [map fst concat]. rewrite IH by exact Hks. symmetry. apply ztake_split; lia.
Qed.

(* once the sizes add up to the length of the stream everything has been delivered ... *)
Lemma stream_reads_exhausted : forall ks w, sizes_ok ks -> zlen w <= zsum ks ->
  concat (map fst (stream_reads w ks)) = w.
Proof. intros ks w Hk Hs. rewrite stream_reads_concat by exact Hk. now apply ztake_all. Qed.

(* ... and every later read, of any size (0 included), is (no bytes, EOF) *)
Lemma stream_reads_then_eof : forall ks1 ks2 w, sizes_ok ks1 -> zlen w <= zsum ks1 ->
  stream_reads w (ks1 ++ ks2) = stream_reads w ks1 ++ map (fun _ => ([], EEOF)) ks2.
Proof.
  intros ks1 ks2 w Hk Hs. rewrite stream_reads_app by exact Hk. rewrite zdrop_all by exact Hs.
  now rewrite stream_reads_eof.
Qed.

(* EOF is reported only at the end: while bytes remain a read returns min k (remaining) bytes, nil *)
Lemma stream_reads_not_early : forall ks1 k ks2 w, sizes_ok ks1 -> 0 <= k -> zsum ks1 < zlen w ->
  nth (length ks1) (stream_reads w (ks1 ++ k :: ks2)) ([], EEOF) =
    (slice w (zsum ks1) (zsum ks1 + Z.min k (zlen w - zsum ks1)), ENil).
Proof.
  intros ks1 k ks2 w Hk Hk0 Hs. pose proof (zsum_nonneg ks1 Hk) as Hz.
  rewrite stream_reads_app by exact Hk.
  assert (Hlen : length (stream_reads w ks1) = length ks1).
  { clear. revert w. induction ks1 as [|x l IH]; intro w; [reflexivity|].
    cbn [stream_reads]. destruct w; cbn [length]; now rewrite IH. }
  rewrite app_nth2 by lia. rewrite Hlen, Nat.sub_diag.
  cbn [stream_reads]. destruct (zdrop (zsum ks1) w) as [|b r] eqn:E.
  - exfalso. assert (Hl : zlen (zdrop (zsum ks1) w) = 0) by now rewrite E.
    rewrite zlen_zdrop in Hl by lia. lia.
  - cbn [nth]. rewrite <- E. f_equal. unfold slice. rewrite Z.add_simpl_l.
    rewrite <- (ztake_ztake _ (zdrop (zsum ks1) w) k (zlen w - zsum ks1)).
    f_equal. symmetry. apply ztake_all. rewrite zlen_zdrop by lia. lia.
Qed.

(* writes: every result is all-or-nothing, acceptance is decided by the room left, the data is the
   concatenation of the accepted payloads, and it never exceeds the room *)
Fixpoint accepted (ps : list (list Z)) (os : list (Z * err)) : list Z :=
  match ps, os with
  | p :: ps', (_, ENil) :: os' => p ++ accepted ps' os'
  | _ :: ps', _ :: os' => accepted ps' os'
  | _, _ => []
  end.

Lemma stream_writes_contract : forall ps cap, 0 <= cap ->
  let '(os, d) := stream_writes cap ps in
  Forall2 (fun p o => o = (zlen p, ENil) \/ o = (0, EUnexpectedEOF)) ps os /\
  d = accepted ps os /\ zlen d <= cap.
Proof.
  induction ps as [|p ps IH]; intros cap Hc.
  - cbn. repeat split; [constructor|lia].
  - cbn [stream_writes]. destruct (cap <? zlen p) eqn:E.
    + specialize (IH cap Hc). destruct (stream_writes cap ps) as [os d]. destruct IH as (H1 & H2 & H3).
      repeat split; [constructor; [now right|exact H1]|exact H2|exact H3].
    + apply Z.ltb_ge in E. specialize (IH (cap - zlen p) ltac:(lia)).
      destruct (stream_writes (cap - zlen p) ps) as [os d]. destruct IH as (H1 & H2 & H3).
      repeat split; [constructor; [now left|exact H1]|cbn [accepted]; now rewrite H2|rewrite zlen_app; lia].
Qed.

(* never "n < len p with nil" *)
Lemma stream_writes_no_silent_partial : forall ps cap os d, stream_writes cap ps = (os, d) ->
  Forall2 (fun p o => snd o = ENil -> fst o = zlen p) ps os.
Proof.
  induction ps as [|p ps IH]; intros cap os d H.
  - cbn in H. inversion H; subst. constructor.
  - cbn [stream_writes] in H. destruct (cap <? zlen p).
    + destruct (stream_writes cap ps) as [os' d'] eqn:E. inversion H; subst.
      constructor; [cbn; discriminate|eapply IH; exact E].
    + destruct (stream_writes (cap - zlen p) ps) as [os' d'] eqn:E. inversion H; subst.
      constructor; [cbn; reflexivity|eapply IH; exact E].
Qed.

(* the head of a history: accepted exactly when it fits into the room that is left *)
Lemma stream_writes_head : forall p ps cap,
  fst (stream_writes cap (p :: ps)) =
    (if cap <? zlen p then (0, EUnexpectedEOF) else (zlen p, ENil)) ::
    fst (stream_writes (if cap <? zlen p then cap else cap - zlen p) ps).
Proof.
  intros p ps cap. cbn [stream_writes]. destruct (cap <? zlen p).
  - now destruct (stream_writes cap ps).
  - now destruct (stream_writes (cap - zlen p) ps).
Qed.

(* ------------------------------------------------------------------------------------------- *)
(* (a) reader                                                                                   *)

Lemma reads_window : forall img s e ks i,
  0 <= s -> e <= zlen img -> 0 <= i <= e - s -> sizes_ok ks ->
  reads img (RWin s e i) ks = stream_reads (slice img (s + i) e) ks.
Proof.
  intros img s e ks. induction ks as [|k ks IH]; intros i Hs He Hi Hk; [reflexivity|].
  inversion Hk as [|? ? Hk0 Hks]; subst.
  cbn [reads read]. destruct (e - s <=? i) eqn:E.
  - apply Z.leb_le in E. rewrite (IH i) by assumption.
    rewrite slice_empty by lia. reflexivity.
  - apply Z.leb_gt in E.
    assert (Hlen : zlen (slice img (s + i) e) = e - s - i) by (rewrite zlen_slice by lia; lia).
    cbn [stream_reads]. destruct (slice img (s + i) e) as [|b w] eqn:Ew.
    { rewrite zlen_nil in Hlen. lia. }
    rewrite <- Ew in Hlen |- *. f_equal.
    + f_equal. rewrite ztake_slice. f_equal. lia.
    + rewrite IH by (try assumption; lia). f_equal.
      destruct (Z_le_gt_dec k (e - s - i)) as [Hle|Hgt].
      * rewrite Z.min_l by lia. rewrite zdrop_slice by lia. f_equal. lia.
      * rewrite Z.min_r by lia. rewrite zdrop_all by lia. apply slice_empty. lia.
Qed.

Theorem C10_reads : forall img a ks,
  addr_ok a -> rom_half a -> window_inside img a -> sizes_ok ks ->
  exists r, bus_reader img a = Ok r /\
            reads img r ks = stream_reads (slice img (pc_start a) (pc_end a)) ks.
Proof.
  intros img a ks Ha Hp Hw Hk. destruct (window_facts a Ha Hp) as (H0 & H1 & H2 & H3).
  unfold window_inside in Hw. unfold rom_half in Hp.
  exists (RWin (pc_start a) (pc_end a) 0). split.
  - unfold bus_reader. replace (page a <? 32768) with false by (symmetry; apply Z.ltb_ge; lia).
    replace (pc_start a <=? pc_end a) with true by (symmetry; apply Z.leb_le; lia).
    replace (pc_end a <=? zlen img) with true by (symmetry; apply Z.leb_le; lia). reflexivity.
  - rewrite reads_window by (try assumption; lia). now rewrite Z.add_0_r.
Qed.

(* the window has 65535 - page bytes; together with stream_reads_concat / _exhausted / _then_eof:
   the concatenation of the reads is the window, byte for byte, and then EOF for ever *)
Lemma window_length : forall img a, addr_ok a -> rom_half a -> window_inside img a ->
  zlen (slice img (pc_start a) (pc_end a)) = 65535 - page a.
Proof.
  intros img a Ha Hp Hw. destruct (window_facts a Ha Hp) as (H0 & H1 & H2 & H3).
  unfold window_inside in Hw. rewrite zlen_slice by lia. exact H3.
Qed.

Corollary C10_reads_total : forall img a ks1 ks2,
  addr_ok a -> rom_half a -> window_inside img a -> sizes_ok ks1 -> sizes_ok ks2 ->
  65535 - page a <= zsum ks1 ->
  exists r, bus_reader img a = Ok r /\
    concat (map fst (reads img r ks1)) = slice img (pc_start a) (pc_end a) /\
    reads img r (ks1 ++ ks2) = reads img r ks1 ++ map (fun _ => ([], EEOF)) ks2.
Proof.
  intros img a ks1 ks2 Ha Hp Hw Hk1 Hk2 Hs.
  assert (Hk : sizes_ok (ks1 ++ ks2)) by (apply Forall_app; now split).
  destruct (C10_reads img a ks1 Ha Hp Hw Hk1) as (r & Hr & H1).
  destruct (C10_reads img a (ks1 ++ ks2) Ha Hp Hw Hk) as (r' & Hr' & H2).
  rewrite Hr in Hr'. inversion Hr'; subst r'.
  pose proof (window_length img a Ha Hp Hw) as Hl.
  exists r. split; [exact Hr|]. split.
  - rewrite H1. apply stream_reads_exhausted; [exact Hk1|lia].
  - rewrite H2, H1. apply stream_reads_then_eof; [exact Hk1|lia].
Qed.

(* ------------------------------------------------------------------------------------------- *)
(* (b) writer                                                                                   *)

Lemma u32_small : forall x, 0 <= x < 4294967296 -> u32 x = x.
Proof. intros x H. unfold u32. now apply Z.mod_small. Qed.

Lemma writes_window : forall s e ps img o,
  0 <= s -> e < 4294967296 -> e <= zlen img -> 0 <= o <= e - s ->
  exists os d, stream_writes (e - s - o) ps = (os, d) /\ zlen d <= e - s - o /\
    writes img (WWin s e o) ps = Ok ((os, splice img (s + o) d), WWin s e (o + zlen d)).
Proof.
  intros s e ps. induction ps as [|p ps IH]; intros img o Hs He Hi Ho.
  - exists [], []. cbn [stream_writes writes]. rewrite splice_nil, zlen_nil, Z.add_0_r.
    repeat split; lia.
  - pose proof (zlen_nonneg _ p) as Hp.
    cbn [writes write stream_writes].
    rewrite (u32_small (s + o)) by lia. rewrite (u32_small (e - (s + o))) by lia.
    replace (e - (s + o)) with (e - s - o) by lia.
    destruct (e - s - o <? zlen p) eqn:E.
    + destruct (IH img o Hs He Hi Ho) as (os & d & H1 & H2 & H3).
      exists ((0, EUnexpectedEOF) :: os), d. rewrite H1, H3. repeat split; assumption.
    + apply Z.ltb_ge in E.
      rewrite (u32_small (o + s)) by lia.
      replace (o + s <=? e) with true by (symmetry; apply Z.leb_le; lia).
      replace (e <=? zlen img) with true by (symmetry; apply Z.leb_le; lia).
      cbn [andb].
      rewrite Z.min_l by lia. rewrite ztake_all by lia. rewrite (u32_small (o + zlen p)) by lia.
      assert (Hl : zlen (splice img (o + s) p) = zlen img) by (apply zlen_splice; lia).
      destruct (IH (splice img (o + s) p) (o + zlen p) Hs He ltac:(lia) ltac:(lia)) as (os & d & H1 & H2 & H3).
      replace (e - s - (o + zlen p)) with (e - s - o - zlen p) in H1, H2 by lia.
      exists ((zlen p, ENil) :: os), (p ++ d). rewrite H1, H3. rewrite zlen_app.
      repeat split; [lia|].
      replace (s + (o + zlen p)) with (o + s + zlen p) by lia.
      rewrite splice_adj by lia.
      replace (o + s) with (s + o) by lia. replace (o + zlen p + zlen d) with (o + (zlen p + zlen d)) by lia.
      reflexivity.
Qed.

Theorem C10_writes : forall img a ps,
  addr_ok a -> rom_half a -> window_inside img a ->
  exists os d w',
    writes img (bus_writer a) ps = Ok ((os, splice img (pc_start a) d), w') /\
    stream_writes (pc_end a - pc_start a) ps = (os, d) /\
    pc_start a + zlen d <= pc_end a /\
    w' = WWin (pc_start a) (pc_end a) (zlen d).
Proof.
  intros img a ps Ha Hp Hw. destruct (window_facts a Ha Hp) as (H0 & H1 & H2 & H3).
  unfold window_inside in Hw. unfold rom_half in Hp.
  destruct (writes_window (pc_start a) (pc_end a) ps img 0 H0 H2 Hw ltac:(lia)) as (os & d & E1 & E2 & E3).
  rewrite Z.sub_0_r in E1, E2. rewrite Z.add_0_r, Z.add_0_l in E3.
  exists os, d, (WWin (pc_start a) (pc_end a) (zlen d)).
  unfold bus_writer. replace (page a <? 32768) with false by (symmetry; apply Z.ltb_ge; lia).
  repeat split; [exact E3|exact E1|lia].
Qed.

(* what "img' = splice img s d with s + len d <= e <= len img" says about the bytes of the image *)
Lemma splice_frame : forall (img d : list Z) s e, 0 <= s -> s + zlen d <= e -> e <= zlen img ->
  let img' := splice img s d in
  zlen img' = zlen img /\
  slice img' 0 s = slice img 0 s /\                 (* nothing before the window changes *)
  zdrop e img' = zdrop e img /\                      (* nothing from the window end on changes *)
  slice img' s e = d ++ slice img (s + zlen d) e /\ (* the window = the data, then its old rest *)
  (forall i, i < s \/ s + zlen d <= i -> znth img' i = znth img i) /\
  (forall i, s <= i < s + zlen d -> znth img' i = znth d (i - s)).
Proof.
  intros img d s e Hs Hd He img'. pose proof (zlen_nonneg _ d) as Hn. subst img'.
  split; [apply zlen_splice; lia|].
  split; [apply slice_splice_before; lia|].
  split.
  { replace e with ((s + zlen d) + (e - (s + zlen d))) by lia.
    rewrite <- (zdrop_zdrop _ (splice img s d) (e - (s + zlen d)) (s + zlen d)) by lia.
    rewrite <- (zdrop_zdrop _ img (e - (s + zlen d)) (s + zlen d)) by lia.
    f_equal. apply zdrop_splice_after; lia. }
  split; [apply slice_splice_window; lia|].
  split; intros i Hi; [apply znth_splice_out; lia|apply znth_splice_in; lia].
Qed.

(* (b), spelled out byte-wise: the complete contract of a writer over any payload sequence *)
Corollary C10_writes_frame : forall img a ps,
  addr_ok a -> rom_half a -> window_inside img a ->
  exists os d w',
    writes img (bus_writer a) ps = Ok ((os, splice img (pc_start a) d), w') /\
    Forall2 (fun p o => o = (zlen p, ENil) \/ o = (0, EUnexpectedEOF)) ps os /\
    d = accepted ps os /\
    pc_start a + zlen d <= pc_end a /\
    let img' := splice img (pc_start a) d in
    zlen img' = zlen img /\
    slice img' 0 (pc_start a) = slice img 0 (pc_start a) /\
    zdrop (pc_end a) img' = zdrop (pc_end a) img /\
    slice img' (pc_start a) (pc_end a) = d ++ slice img (pc_start a + zlen d) (pc_end a).
Proof.
  intros img a ps Ha Hp Hw. destruct (C10_writes img a ps Ha Hp Hw) as (os & d & w' & E1 & E2 & E3 & E4).
  destruct (window_facts a Ha Hp) as (H0 & H1 & H2 & H3). unfold window_inside in Hw.
  pose proof (stream_writes_contract ps (pc_end a - pc_start a) ltac:(lia)) as Hc. rewrite E2 in Hc.
  destruct Hc as (C1 & C2 & C3).
  destruct (splice_frame img d (pc_start a) (pc_end a) H0 E3 Hw) as (F1 & F2 & F3 & F4 & _).
  exists os, d, w'. repeat split; assumption.
Qed.

(* a writer's history can be cut anywhere: the second half behaves like a fresh stream with the
   room that is left, continuing where the first half stopped (so the theorems hold between any two
   calls, not only from the creation of the writer) *)
Lemma stream_writes_app : forall ps1 ps2 cap,
  stream_writes cap (ps1 ++ ps2) =
    let '(os1, d1) := stream_writes cap ps1 in
    let '(os2, d2) := stream_writes (cap - zlen d1) ps2 in (os1 ++ os2, d1 ++ d2).
Proof.
  induction ps1 as [|p ps1 IH]; intros ps2 cap.
  - cbn [app stream_writes]. rewrite zlen_nil, Z.sub_0_r. now destruct (stream_writes cap ps2).
  - cbn [app stream_writes]. destruct (cap <? zlen p).
    + rewrite IH. destruct (stream_writes cap ps1) as [os1 d1].
      now destruct (stream_writes (cap - zlen d1) ps2).
    + rewrite IH. destruct (stream_writes (cap - zlen p) ps1) as [os1 d1].
      rewrite zlen_app. replace (cap - (zlen p + zlen d1)) with (cap - zlen p - zlen d1) by lia.
      destruct (stream_writes (cap - zlen p - zlen d1) ps2). now rewrite app_assoc.
Qed.

(* ------------------------------------------------------------------------------------------- *)
(* (c) reader at the same address after the writes                                              *)

Theorem C10_read_after_write : forall img a ps ks,
  addr_ok a -> rom_half a -> window_inside img a -> sizes_ok ks ->
  exists os d w' r,
    writes img (bus_writer a) ps = Ok ((os, splice img (pc_start a) d), w') /\
    stream_writes (pc_end a - pc_start a) ps = (os, d) /\
    bus_reader (splice img (pc_start a) d) a = Ok r /\
    reads (splice img (pc_start a) d) r ks =
      stream_reads (d ++ slice img (pc_start a + zlen d) (pc_end a)) ks.
Proof.
  intros img a ps ks Ha Hp Hw Hk.
  destruct (C10_writes img a ps Ha Hp Hw) as (os & d & w' & E1 & E2 & E3 & E4).
  destruct (window_facts a Ha Hp) as (H0 & H1 & H2 & H3). unfold window_inside in Hw.
  destruct (splice_frame img d (pc_start a) (pc_end a) H0 E3 Hw) as (F1 & _ & _ & F4 & _).
  assert (Hw' : window_inside (splice img (pc_start a) d) a) by (unfold window_inside; lia).
  destruct (C10_reads (splice img (pc_start a) d) a ks Ha Hp Hw' Hk) as (r & R1 & R2).
  exists os, d, w', r. rewrite F4 in R2. repeat split; assumption.
Qed.

(* in particular: one read of exactly the stored length returns exactly the stored bytes *)
Corollary C10_read_back : forall img a ps,
  addr_ok a -> rom_half a -> window_inside img a ->
  exists os d w' r,
    writes img (bus_writer a) ps = Ok ((os, splice img (pc_start a) d), w') /\
    d = accepted ps os /\
    bus_reader (splice img (pc_start a) d) a = Ok r /\
    (d <> [] -> reads (splice img (pc_start a) d) r [zlen d] = [(d, ENil)]).
Proof.
  intros img a ps Ha Hp Hw. pose proof (zlen_nonneg _ (accepted ps [])) as _.
  destruct (C10_read_after_write img a ps [zlen (snd (stream_writes (pc_end a - pc_start a) ps))] Ha Hp Hw)
    as (os & d & w' & r & E1 & E2 & E3 & E4).
  { constructor; [apply zlen_nonneg|constructor]. }
  destruct (window_facts a Ha Hp) as (H0 & H1 & H2 & H3).
  pose proof (stream_writes_contract ps (pc_end a - pc_start a) ltac:(lia)) as Hc. rewrite E2 in Hc.
  destruct Hc as (_ & C2 & _).
  exists os, d, w', r. repeat split; try assumption.
  intros Hne. rewrite E2 in E4. cbn [snd] in E4. rewrite E4. cbn [stream_reads].
  destruct (d ++ slice img (pc_start a + zlen d) (pc_end a)) as [|b t] eqn:Ed.
  - destruct d; [congruence|discriminate].
  - rewrite <- Ed. now rewrite ztake_app_exact.
Qed.

(* ------------------------------------------------------------------------------------------- *)
(* (d) page < $8000                                                                             *)

Lemma reads_err : forall img ks, reads img RErr ks = map (fun _ => ([], EUnexpectedEOF)) ks.
Proof. intros img. induction ks as [|k ks IH]; [reflexivity|]. cbn [reads read map]. now rewrite IH. Qed.

Lemma writes_err : forall ps img, writes img WErr ps = Ok ((map (fun _ => (0, EUnexpectedEOF)) ps, img), WErr).
Proof. induction ps as [|p ps IH]; intro img; [reflexivity|]. cbn [writes write map]. now rewrite IH. Qed.

Theorem C10_low_page : forall img a ks ps, page a < 32768 ->
  bus_reader img a = Ok RErr /\
  reads img RErr ks = map (fun _ => ([], EUnexpectedEOF)) ks /\
  bus_writer a = WErr /\
  writes img WErr ps = Ok ((map (fun _ => (0, EUnexpectedEOF)) ps, img), WErr).
Proof.
  intros img a ks ps Hp. apply Z.ltb_lt in Hp. unfold bus_reader, bus_writer. rewrite Hp.
  repeat split; [apply reads_err|apply writes_err].
Qed.

(* ------------------------------------------------------------------------------------------- *)
(* (e) no panic                                                                                 *)

Theorem C10_no_panic : forall img a ps, addr_ok a -> window_inside img a ->
  bus_reader img a <> Panic /\ writes img (bus_writer a) ps <> Panic.
Proof.
  intros img a ps Ha Hw. destruct (Z_lt_ge_dec (page a) 32768) as [Hlo|Hhi].
  - destruct (C10_low_page img a [] ps Hlo) as (E1 & _ & E2 & E3). rewrite E1, E2, E3. split; discriminate.
  - assert (Hp : rom_half a) by (unfold rom_half; lia).
    destruct (C10_reads img a [] Ha Hp Hw ltac:(constructor)) as (r & E1 & _).
    destruct (C10_writes img a ps Ha Hp Hw) as (os & d & w' & E2 & _).
    rewrite E1, E2. split; discriminate.
Qed.

Corollary C10_no_panic_bank : forall img a ps, addr_ok a -> bank_inside img a ->
  bus_reader img a <> Panic /\ writes img (bus_writer a) ps <> Panic.
Proof. intros img a ps Ha Hb. apply C10_no_panic; [exact Ha|now apply bank_inside_window]. Qed.

(* any mixed history over any number of live handles: as long as every handle is created for an
   address whose window is inside the image, no call panics and the image keeps its length *)
Definition new_ok (n : Z) (o : op) : Prop :=
  match o with
  | OpNewR a | OpNewW a => addr_ok a /\ pc_end a <= n
  | _ => True
  end.

Definition writer_inv (n : Z) (w : writer) : Prop :=
  match w with
  | WErr => True
  | WWin s e o => 0 <= s /\ 0 <= o /\ s + o <= e /\ e <= n /\ e < 4294967296
  end.

Lemma set_nth_Forall : forall A (P : A -> Prop) l n x, Forall P l -> P x -> Forall P (set_nth n x l).
Proof.
  intros A P l. induction l as [|y l IH]; intros n x Hl Hx.
  - destruct n; constructor.
  - inversion Hl; subst. destruct n; cbn [set_nth]; constructor; auto.
Qed.

Lemma write_inv : forall img w p, writer_inv (zlen img) w ->
  exists n e img' w', write img w p = Ok (((n, e), img'), w') /\ zlen img' = zlen img /\ writer_inv (zlen img) w'.
Proof.
  intros img w p Hw. destruct w as [|s e o].
  - exists 0, EUnexpectedEOF, img, WErr. repeat split.
  - destruct Hw as (H0 & H1 & H2 & H3 & H4). pose proof (zlen_nonneg _ p) as Hp.
    cbn [write]. rewrite (u32_small (s + o)) by lia. rewrite (u32_small (e - (s + o))) by lia.
    destruct (e - (s + o) <? zlen p) eqn:E.
    + exists 0, EUnexpectedEOF, img, (WWin s e o). repeat split; assumption.
    + apply Z.ltb_ge in E. rewrite (u32_small (o + s)) by lia.
      replace (o + s <=? e) with true by (symmetry; apply Z.leb_le; lia).
      replace (e <=? zlen img) with true by (symmetry; apply Z.leb_le; lia). cbn [andb].
      rewrite Z.min_l by lia. rewrite ztake_all by lia. rewrite (u32_small (o + zlen p)) by lia.
      exists (zlen p), ENil, (splice img (o + s) p), (WWin s e (o + zlen p)).
      repeat split; try lia. apply zlen_splice; lia.
Qed.

Theorem C10_run_no_panic : forall ops st,
  Forall (writer_inv (zlen (st_img st))) (st_ws st) ->
  Forall (new_ok (zlen (st_img st))) ops ->
  ~ In ObsPanic (snd (run st ops)) /\ zlen (st_img (fst (run st ops))) = zlen (st_img st).
Proof.
  induction ops as [|o ops IH]; intros st Hinv Hops.
  - cbn. split; [tauto|reflexivity].
  - inversion Hops as [|? ? Ho Hops']; subst.
    assert (Hstep : exists st' ob, step st o = (st', ob) /\ ob <> ObsPanic /\
              zlen (st_img st') = zlen (st_img st) /\ Forall (writer_inv (zlen (st_img st))) (st_ws st')).
    { destruct o as [a|a|h k|h p]; cbn [step].
      - destruct Ho as (Ha & He). destruct (Z_lt_ge_dec (page a) 32768) as [Hlo|Hhi].
        + destruct (C10_low_page (st_img st) a [] [] Hlo) as (E1 & _). rewrite E1.
          eexists _, _. split; [reflexivity|]. cbn. repeat split; [discriminate|exact Hinv].
        + assert (Hp : rom_half a) by (unfold rom_half; lia).
          destruct (C10_reads (st_img st) a [] Ha Hp He ltac:(constructor)) as (r & E1 & _). rewrite E1.
          eexists _, _. split; [reflexivity|]. cbn. repeat split; [discriminate|exact Hinv].
      - destruct Ho as (Ha & He). eexists _, _. split; [reflexivity|]. cbn [st_img st_ws].
        repeat split; [discriminate|]. apply Forall_app. split; [exact Hinv|]. constructor; [|constructor].
        unfold bus_writer. destruct (page a <? 32768) eqn:E; [exact I|]. apply Z.ltb_ge in E.
        destruct (window_facts a Ha E) as (H0 & H1 & H2 & H3). cbn. lia.
      - destruct (read (st_img st) (nth h (st_rs st) RErr) k) as [[bs e] r'].
        eexists _, _. split; [reflexivity|]. cbn. repeat split; [discriminate|exact Hinv].
      - assert (Hw : writer_inv (zlen (st_img st)) (nth h (st_ws st) WErr)).
        { destruct (nth_in_or_default h (st_ws st) WErr) as [Hin|Hd]; [|rewrite Hd; exact I].
          rewrite Forall_forall in Hinv. now apply Hinv. }
        destruct (write_inv (st_img st) _ p Hw) as (n & e & img' & w' & E1 & E2 & E3). rewrite E1.
        eexists _, _. split; [reflexivity|]. cbn [st_img st_ws]. repeat split; [discriminate|exact E2|].
        now apply set_nth_Forall. }
    destruct Hstep as (st' & ob & E & Hob & Hlen & Hinv').
    cbn [run]. rewrite E. rewrite <- Hlen in Hinv', Hops'.
    destruct (IH st' Hinv' Hops') as (I1 & I2).
    destruct (run st' ops) as [st'' obs']. cbn [fst snd] in *. split; [|lia].
    intros [Hh|Ht]; [now apply Hob|now apply I1].
Qed.

(* ------------------------------------------------------------------------------------------- *)
(* Non-vacuity: the hypotheses are satisfiable and the conclusions are about real data.         *)

(* a 64 KiB image; bus $01FFF0: bank 1, window = file offsets [$FFF0, $FFFF): 15 bytes *)
Definition ex_img : image := mkimg 7 0 65536.
Definition ex_a : Z := 131056.   (* $01FFF0 *)

Example ex_hyps : addr_ok ex_a /\ rom_half ex_a /\ window_inside ex_img ex_a /\ bank_inside ex_img ex_a /\
                  pc_start ex_a = 65520 /\ pc_end ex_a = 65535.
Proof. vm_compute. repeat split; congruence. Qed.

(* reads of 4, 0, 20, 0, 3 bytes: 4 bytes, (0, nil), the remaining 11, then EOF (also for size 0) *)
Example ex_reads :
  match bus_reader ex_img ex_a with
  | Ok r => map (fun x => (zlen (fst x), snd x)) (reads ex_img r [4; 0; 20; 0; 3])
  | Panic => []
  end = [(4, ENil); (0, ENil); (11, ENil); (0, EEOF); (0, EEOF)].
Proof. vm_compute. reflexivity. Qed.

Example ex_reads_concat :
  match bus_reader ex_img ex_a with
  | Ok r => concat (map fst (reads ex_img r [4; 0; 20; 0; 3]))
  | Panic => []
  end = slice ex_img 65520 65535 /\ zlen (slice ex_img 65520 65535) = 15.
Proof. vm_compute. split; reflexivity. Qed.

(* writes of 4, 12 (refused: 11 left), 0, 11 (fits exactly), 1 (refused), 0 bytes *)
Definition ex_ps : list (list Z) :=
  [[201; 202; 203; 204]; mkimg 3 0 12; []; mkimg 5 0 11; [9]; []].

(* results as a flat list of numbers, so that Examples over 64 KiB images are decided by booleans
   (a vm_compute normal form must not contain a whole image) *)
Definition err_code (e : err) : Z := match e with ENil => 0 | EEOF => 1 | EUnexpectedEOF => 2 end.
Definition codes (os : list (Z * err)) : list Z := flat_map (fun o => [fst o; err_code (snd o)]) os.

Example ex_writes :
  match writes ex_img (bus_writer ex_a) ex_ps with
  | Ok ((os, img'), w') =>
      list_eqb (codes os) [4; 0;  0; 2;  0; 0;  11; 0;  0; 2;  0; 0] &&
      list_eqb img' (splice ex_img 65520 ([201; 202; 203; 204] ++ mkimg 5 0 11)) &&
      (znth img' 65535 =? znth ex_img 65535) && (znth img' 65519 =? znth ex_img 65519) &&
      negb (list_eqb img' ex_img) &&
      match w' with WWin 65520 65535 15 => true | _ => false end
  | Panic => false
  end = true.
Proof. vm_compute. reflexivity. Qed.

Example ex_read_back :
  match writes ex_img (bus_writer ex_a) ex_ps with
  | Ok ((_, img'), _) =>
      match bus_reader img' ex_a with
      | Ok r => reads img' r [15; 1] = [([201; 202; 203; 204] ++ mkimg 5 0 11, ENil); ([], EEOF)]
      | Panic => False
      end
  | Panic => False
  end.
Proof. vm_compute. reflexivity. Qed.

(* the historical witness of the defect repaired for C10: 4 bytes at $00FFFC (3 bytes of room) *)
Example ex_witness :
  match writes ex_img (bus_writer 65532) [[1; 2; 3; 4]; [5]; [6; 7]; [8]] with
  | Ok ((os, img'), _) =>
      os = [(0, EUnexpectedEOF); (1, ENil); (2, ENil); (0, EUnexpectedEOF)] /\ slice img' 32764 32767 = [5; 6; 7]
  | Panic => False
  end.
Proof. vm_compute. split; reflexivity. Qed.

(* page < $8000 *)
Example ex_low :
  page 98303 = 32767 /\ bus_reader ex_img 98303 = Ok RErr /\
  reads ex_img RErr [0; 5] = [([], EUnexpectedEOF); ([], EUnexpectedEOF)] /\
  match writes ex_img (bus_writer 98303) [[]; [1]] with
  | Ok ((os, img'), WErr) => list_eqb (codes os) [0; 2; 0; 2] && list_eqb img' ex_img
  | _ => false
  end = true.
Proof. vm_compute. repeat split; reflexivity. Qed.

(* Panic is reachable in the model when the window is NOT inside the image (bank 2 of a 64 KiB
   image), so C10_no_panic is not vacuous; one byte short of the bank is still enough *)
Example ex_panic :
  bus_reader ex_img 163840 = Panic /\ writes ex_img (bus_writer 163840) [[1]] = Panic /\
  bus_reader (mkimg 7 0 65535) ex_a <> Panic /\ bus_reader (mkimg 7 0 65534) ex_a = Panic.
Proof. vm_compute. repeat split; congruence. Qed.

(* a mixed history over three live handles: a reader created before the writes sees them *)
Example ex_run :
  snd (run (mkState ex_img [] [])
         [OpNewR ex_a; OpNewW ex_a; OpNewW 131064; OpWrite 0 [1; 2]; OpWrite 1 [3]; OpRead 0 3; OpRead 0 8]) =
  [ObsNew; ObsNew; ObsNew; ObsWrite 2 ENil; ObsWrite 1 ENil;
   ObsRead [1; 2; znth ex_img 65522] ENil; ObsRead (slice ex_img 65523 65528 ++ [3] ++ slice ex_img 65529 65531) ENil].
Proof. vm_compute. reflexivity. Qed.
