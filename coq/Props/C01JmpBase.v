(* C01, control-flow and block-move family: machine lemmas (bus writes, stack, 24-bit reads), the
   Step lemmas for the Go addressing modes 1, 5, 8, 17, 18, 19, 20, 22, 24 (the tactics shared by the
   C01Jmp*.v files are in C01JmpTac.v).

   snapshot_dep: Step, EaWrite, nWrite, push, push16, pull, pull16, Flags, nRead, EaRead, nRead16_wrap, nRead16_cross, EaRead24_wrap, nRead24_wrap, tbl_mode, tbl_size, tbl_proc *)
From Coq Require Import ZArith NArith List Bool Lia.
From Spec Require Import ISA Spec816.
From Lib Require Import ZOps Machine.
From Snapshot Require Import GenFields GenCpu65.
From Props Require Import C01Base C01Flow C01Imm.
Import ListNotations.
Local Open Scope Z_scope.
Arguments Z.modulo : simpl never.
Arguments Z.lor : simpl never.
Arguments Z.land : simpl never.
Arguments Z.shiftl : simpl never.
Arguments Z.shiftr : simpl never.

(* ---------------------------------------------------------------- memory updates *)
Lemma get_upd : forall f a v s, get f (upd a v s) = get f s.
Proof. reflexivity. Qed.
Lemma mem_upd : forall a v s b, mem (upd a v s) b = if b =? a then v else mem s b.
Proof. reflexivity. Qed.

Lemma EaWrite_ok : forall a v s, 0 <= a < 16777216 ->
  EaWrite a v s = Ok tt (log (EvW a v) (upd a v s)).
Proof.
  intros a v s Ha. unfold EaWrite, seg_get, seg_nil, mem_write, seg_ok, addr_ok, w_shr.
  rewrite Z.shiftr_div_pow2 by lia. change (2 ^ 4) with 16.
  assert (H1 : (0 <=? a / 16) && (a / 16 <? 1048576) = true).
  { apply andb_true_intro; split; [apply Z.leb_le | apply Z.ltb_lt].
    apply Z.div_pos; lia. apply Z.div_lt_upper_bound; lia. }
  rewrite H1. cbn [bind].
  assert (H2 : (0 <=? a) && (a <? 16777216) = true).
  { apply andb_true_intro; split; [apply Z.leb_le | apply Z.ltb_lt]; lia. }
  rewrite H2. cbn [bind]. reflexivity.
Qed.

Lemma nWrite_ok : forall b a v s, 0 <= b < 256 -> 0 <= a < 65536 ->
  nWrite b a v s = Ok tt (log (EvW (b * 65536 + a) v) (upd (b * 65536 + a) v s)).
Proof.
  intros b a v s Hb Ha. unfold nWrite. rewrite bank_addr by assumption. rewrite EaWrite_ok by lia. reflexivity.
Qed.

(* ---------------------------------------------------------------- the stack (native mode) *)
Lemma push_ok : forall v s, get f_E s = 0 -> 0 <= get f_SP s < 65536 ->
  push v s = Ok tt (set f_SP (sub16 (get f_SP s) 1) (log (EvW (get f_SP s) v) (upd (get f_SP s) v s))).
Proof.
  intros v s HE Hsp. unfold push. rewrite nWrite_ok by (assumption || lia). rewrite bind_Ok. cbv beta.
  change (0 * 65536 + get f_SP s) with (get f_SP s).
  rewrite get_set_other by reflexivity. rewrite get_log, get_upd, HE.
  change (w_eqb 0 1) with false. cbv iota. rewrite get_log, get_upd. reflexivity.
Qed.

Lemma hi_byte : forall v, conv8 (w_shr v 8) = (v / 256) mod 256.
Proof. intros v. rewrite shr8. reflexivity. Qed.
Lemma lo_byte : forall v, 0 <= v -> conv8 (w_and v 255) = v mod 256.
Proof. intros v Hv. rewrite land255 by assumption. unfold conv8. apply Zmod_mod. Qed.

Lemma push16_ok : forall v s, get f_E s = 0 -> 0 <= get f_SP s < 65536 -> 0 <= v ->
  push16 v s =
  Ok tt (set f_SP (sub16 (sub16 (get f_SP s) 1) 1)
          (log (EvW (sub16 (get f_SP s) 1) (v mod 256))
            (upd (sub16 (get f_SP s) 1) (v mod 256)
              (set f_SP (sub16 (get f_SP s) 1)
                (log (EvW (get f_SP s) ((v / 256) mod 256)) (upd (get f_SP s) ((v / 256) mod 256) s)))))).
Proof.
  intros v s HE Hsp Hv. cbv beta zeta delta [push16]. rewrite hi_byte, lo_byte by assumption.
  rewrite push_ok by assumption. rewrite bind_Ok. cbv beta.
  rewrite push_ok.
  - rewrite bind_Ok. cbv beta. rewrite !get_set_this. reflexivity.
  - rewrite get_set_other by reflexivity. rewrite get_log, get_upd. exact HE.
  - rewrite get_set_this. unfold sub16. apply Z.mod_pos_bound. lia.
Qed.

Lemma pull_ok : forall s, get f_E s = 0 -> 0 <= get f_SP s < 65536 ->
  pull s = Ok (byte (mem s) (add16 (get f_SP s) 1))
              (log (EvR (add16 (get f_SP s) 1) (byte (mem s) (add16 (get f_SP s) 1)))
                 (set f_SP (add16 (get f_SP s) 1) s)).
Proof.
  intros s HE Hsp. cbv beta zeta delta [pull].
  rewrite get_set_other by reflexivity. rewrite HE. change (w_eqb 0 1) with false. cbv iota.
  rewrite get_set_this.
  rewrite nRead_ok by (try lia; unfold add16; apply Z.mod_pos_bound; lia).
  rewrite bind_Ok. cbv beta. rewrite mem_set.
  change (0 * 65536 + add16 (get f_SP s) 1) with (add16 (get f_SP s) 1). reflexivity.
Qed.

(* value in the specification's order: lo + 256 * hi *)
Lemma pull16_ok : forall s, get f_E s = 0 -> 0 <= get f_SP s < 65536 ->
  pull16 s =
  Ok (byte (mem s) (add16 (get f_SP s) 1) + 256 * byte (mem s) (add16 (add16 (get f_SP s) 1) 1))
     (log (EvR (add16 (add16 (get f_SP s) 1) 1) (byte (mem s) (add16 (add16 (get f_SP s) 1) 1)))
        (set f_SP (add16 (add16 (get f_SP s) 1) 1)
           (log (EvR (add16 (get f_SP s) 1) (byte (mem s) (add16 (get f_SP s) 1)))
              (set f_SP (add16 (get f_SP s) 1) s)))).
Proof.
  intros s HE Hsp. cbv beta zeta delta [pull16].
  rewrite pull_ok by assumption. rewrite bind_Ok. cbv beta.
  rewrite pull_ok.
  - rewrite bind_Ok. cbv beta. rewrite get_log, get_set_this.
    change (mem (log (EvR (add16 (get f_SP s) 1) (byte (mem s) (add16 (get f_SP s) 1)))
                  (set f_SP (add16 (get f_SP s) 1) s))) with (mem s).
    rewrite join16 by (unfold byte; apply Z.mod_pos_bound; lia).
    f_equal. lia.
  - rewrite get_log, get_set_other by reflexivity. exact HE.
  - rewrite get_log, get_set_this. unfold add16. apply Z.mod_pos_bound. lia.
Qed.

(* the status byte *)
Lemma flags_val : forall c z i d x m v n,
  (c = 0 \/ c = 1) -> (z = 0 \/ z = 1) -> (i = 0 \/ i = 1) -> (d = 0 \/ d = 1) ->
  (x = 0 \/ x = 1) -> (m = 0 \/ m = 1) -> (v = 0 \/ v = 1) -> (n = 0 \/ n = 1) ->
  w_or (w_or (w_or (w_or (w_or (w_or (w_or (w_or 0 (shl8 c 0)) (shl8 z 1)) (shl8 i 2)) (shl8 d 3)) (shl8 x 4))
       (shl8 m 5)) (shl8 v 6)) (shl8 n 7)
  = c + 2 * z + 4 * i + 8 * d + 16 * x + 32 * m + 64 * v + 128 * n.
Proof.
  intros c z i d x m v n [-> | ->] [-> | ->] [-> | ->] [-> | ->] [-> | ->] [-> | ->] [-> | ->] [-> | ->];
    vm_compute; reflexivity.
Qed.

Definition Pbyte (s : st) : Z :=
  get f_C s + 2 * get f_Z s + 4 * get f_I s + 8 * get f_D s + 16 * get f_X s + 32 * get f_M s
  + 64 * get f_V s + 128 * get f_N s.

Lemma Flags_ok : forall s, flag01 s f_C -> flag01 s f_Z -> flag01 s f_I -> flag01 s f_D ->
  flag01 s f_X -> flag01 s f_M -> flag01 s f_V -> flag01 s f_N ->
  Flags s = Ok (Pbyte s) s.
Proof.
  intros s Hc Hz Hi Hd Hx Hm Hv Hn. cbv beta zeta delta [Flags]. unfold Pbyte.
  rewrite flags_val by assumption. reflexivity.
Qed.

Lemma b2z_flag : forall v, (v = 0 \/ v = 1) -> Spec816.b2z (v =? 1) = v.
Proof. intros v [-> | ->]; reflexivity. Qed.

Lemma P_of_abs : forall s, wf s -> P_of (abs s) = Pbyte s.
Proof.
  intros s W. unfold P_of, Pbyte, abs. cbn [fC fZ fI fD fX fM fV fN].
  rewrite (b2z_flag _ (wf_C s W)), (b2z_flag _ (wf_Z s W)), (b2z_flag _ (wf_I s W)), (b2z_flag _ (wf_D s W)),
          (b2z_flag _ (wf_X s W)), (b2z_flag _ (wf_M s W)), (b2z_flag _ (wf_V s W)), (b2z_flag _ (wf_N s W)).
  reflexivity.
Qed.

Lemma Pbyte_range : forall s, wf s -> 0 <= Pbyte s < 256.
Proof.
  intros s W. unfold Pbyte.
  destruct (wf_C s W) as [-> | ->], (wf_Z s W) as [-> | ->], (wf_I s W) as [-> | ->], (wf_D s W) as [-> | ->],
           (wf_X s W) as [-> | ->], (wf_M s W) as [-> | ->], (wf_V s W) as [-> | ->], (wf_N s W) as [-> | ->]; lia.
Qed.

(* ---------------------------------------------------------------- wider reads *)
Lemma join24 : forall hh mm ll, 0 <= hh < 256 -> 0 <= mm < 256 -> 0 <= ll < 256 ->
  w_or (w_or (shl32 hh 16) (shl32 mm 8)) ll = hh * 65536 + mm * 256 + ll.
Proof.
  intros hh mm ll Hh Hm Hl. unfold w_or, shl32. rewrite !Z.shiftl_mul_pow2 by lia.
  rewrite (Z.mod_small (hh * 2 ^ 16)) by lia. rewrite (Z.mod_small (mm * 2 ^ 8)) by lia.
  rewrite (lor_disjoint hh (mm * 2 ^ 8) 16) by lia.
  replace (hh * 2 ^ 16 + mm * 2 ^ 8) with ((hh * 256 + mm) * 2 ^ 8) by lia.
  rewrite lor_disjoint by lia. lia.
Qed.

Lemma seg_get_ok : forall a s, 0 <= a < 16777216 -> seg_get (w_shr a 4) s = Ok (w_shr a 4) s.
Proof.
  intros a s Ha. unfold seg_get, seg_ok, w_shr. rewrite Z.shiftr_div_pow2 by lia. change (2 ^ 4) with 16.
  assert (H1 : (0 <=? a / 16) && (a / 16 <? 1048576) = true).
  { apply andb_true_intro; split; [apply Z.leb_le | apply Z.ltb_lt].
    apply Z.div_pos; lia. apply Z.div_lt_upper_bound; lia. }
  rewrite H1. reflexivity.
Qed.
Lemma mem_read_ok : forall h a s, 0 <= a < 16777216 ->
  mem_read h a s = Ok (mem s a mod 256) (log (EvR a (mem s a mod 256)) s).
Proof.
  intros h a s Ha. unfold mem_read, addr_ok.
  assert (H2 : (0 <=? a) && (a <? 16777216) = true).
  { apply andb_true_intro; split; [apply Z.leb_le | apply Z.ltb_lt]; lia. }
  rewrite H2. reflexivity.
Qed.

Lemma add16_0 : forall a, 0 <= a < 65536 -> add16 a 0 = a.
Proof. intros a Ha. unfold add16. rewrite Z.add_0_r. apply Z.mod_small. assumption. Qed.
Lemma add16_add16 : forall a j k, add16 (add16 a j) k = add16 a (j + k).
Proof. intros a j k. unfold add16. rewrite Zplus_mod_idemp_l. f_equal. lia. Qed.

Lemma byte_range : forall m a, 0 <= byte m a < 256.
Proof. intros. unfold byte. apply Z.mod_pos_bound. lia. Qed.
Lemma rd16_range : forall m l, 0 <= rd16 m l < 65536.
Proof. intros. unfold rd16. pose proof (byte_range m (loc_byte l 0)). pose proof (byte_range m (loc_byte l 1)). lia. Qed.
Lemma rd24_range : forall m l, 0 <= rd24 m l < 16777216.
Proof.
  intros. unfold rd24. pose proof (byte_range m (loc_byte l 0)). pose proof (byte_range m (loc_byte l 1)).
  pose proof (byte_range m (loc_byte l 2)). lia.
Qed.

Lemma nRead_b : forall b a s, 0 <= b < 256 -> 0 <= a < 65536 ->
  nRead b a s = Ok (byte (mem s) (b * 65536 + a)) (log (EvR (b * 65536 + a) (byte (mem s) (b * 65536 + a))) s).
Proof. exact nRead_ok. Qed.

Lemma loc_wrap0 : forall b a, 0 <= a < 65536 -> loc_byte (LWrap b a) 0 = b * 65536 + a.
Proof. intros b a Ha. unfold loc_byte, ba, w16. rewrite Z.add_0_r, Z.mod_small by assumption. reflexivity. Qed.

(* the reads of the bus layer, in the vocabulary of the specification *)
Lemma nRead16_wrap_rd : forall b a s, 0 <= b < 256 -> 0 <= a < 65536 ->
  nRead16_wrap b a s =
  Ok (rd16 (mem s) (LWrap b a))
     (log (EvR (b * 65536 + add16 a 1) (byte (mem s) (b * 65536 + add16 a 1)))
        (log (EvR (b * 65536 + a) (byte (mem s) (b * 65536 + a))) s)).
Proof.
  intros b a s Hb Ha. rewrite nRead16_wrap_ok by assumption.
  rewrite join16 by (apply Z.mod_pos_bound; lia).
  unfold rd16. rewrite loc_wrap0 by assumption. unfold byte, loc_byte, ba, w16, add16. f_equal. lia.
Qed.

Lemma nRead24_wrap_ok : forall b a s, 0 <= b < 256 -> 0 <= a < 65536 ->
  nRead24_wrap b a s =
  Ok (mem s (b * 65536 + add16 a 2) mod 256 * 65536 + mem s (b * 65536 + add16 a 1) mod 256 * 256
      + mem s (b * 65536 + a) mod 256)
     (log (EvR (b * 65536 + add16 a 2) (mem s (b * 65536 + add16 a 2) mod 256))
        (log (EvR (b * 65536 + add16 a 1) (mem s (b * 65536 + add16 a 1) mod 256))
           (log (EvR (b * 65536 + a) (mem s (b * 65536 + a) mod 256)) s))).
Proof.
  intros b a s Hb Ha. cbv beta zeta delta [nRead24_wrap EaRead24_wrap].
  assert (Ha1 : 0 <= add16 a 1 < 65536) by (unfold add16; apply Z.mod_pos_bound; lia).
  assert (Ha2 : 0 <= add16 a 2 < 65536) by (unfold add16; apply Z.mod_pos_bound; lia).
  rewrite (add16_0 a Ha). rewrite !bank_addr by assumption.
  rewrite seg_get_ok by lia. rewrite bind_Ok. cbv beta.
  rewrite seg_get_ok by lia. rewrite bind_Ok. cbv beta.
  rewrite seg_get_ok by lia. rewrite bind_Ok. cbv beta. unfold seg_nil. cbv beta iota delta [orb].
  rewrite mem_read_ok by lia. rewrite bind_Ok. cbv beta.
  rewrite mem_read_ok by lia. rewrite bind_Ok. cbv beta.
  rewrite mem_read_ok by lia. rewrite bind_Ok. cbv beta.
  rewrite !mem_log. rewrite join24 by (apply Z.mod_pos_bound; lia). reflexivity.
Qed.

Lemma nRead24_wrap_rd : forall b a s, 0 <= b < 256 -> 0 <= a < 65536 ->
  nRead24_wrap b a s =
  Ok (rd24 (mem s) (LWrap b a))
     (log (EvR (b * 65536 + add16 a 2) (byte (mem s) (b * 65536 + add16 a 2)))
        (log (EvR (b * 65536 + add16 a 1) (byte (mem s) (b * 65536 + add16 a 1)))
           (log (EvR (b * 65536 + a) (byte (mem s) (b * 65536 + a))) s))).
Proof.
  intros b a s Hb Ha. rewrite nRead24_wrap_ok by assumption.
  unfold rd24. rewrite loc_wrap0 by assumption. unfold byte, loc_byte, ba, w16, add16. f_equal. lia.
Qed.

(* nRead16_cross is only used for the interrupt vectors: bank 0, offset below $FFFF *)
Lemma nRead16_cross_rd : forall a s, 0 <= a < 65535 ->
  nRead16_cross 0 a s =
  Ok (rd16 (mem s) (LWrap 0 a))
     (log (EvR (a + 1) (byte (mem s) (a + 1))) (log (EvR a (byte (mem s) a)) s)).
Proof.
  intros a s Ha. cbv beta zeta delta [nRead16_cross].
  rewrite bank_addr by lia. change (0 * 65536 + a) with a.
  assert (E : w_and (add32 a 1) 16777215 = a + 1).
  { unfold w_and, add32. change 16777215 with (Z.ones 24). rewrite Z.land_ones by lia.
    change (2 ^ 24) with 16777216. rewrite (Z.mod_small (a + 1) 4294967296) by lia.
    rewrite Z.mod_small by lia. reflexivity. }
  rewrite E.
  rewrite EaRead_ok by lia. rewrite bind_Ok. cbv beta.
  rewrite EaRead_ok by lia. rewrite bind_Ok. cbv beta.
  rewrite mem_log. rewrite join16 by (apply Z.mod_pos_bound; lia).
  unfold rd16. rewrite loc_wrap0 by lia. unfold byte, loc_byte, ba, w16. rewrite (Z.mod_small (a + 1)) by lia.
  change (0 * 65536 + a) with a. change (0 * 65536 + (a + 1)) with (a + 1). f_equal. lia.
Qed.

(* memory of an explicit state as a list of writes over the initial memory *)
Lemma mem_set_f : forall f v s, mem (set f v s) = mem s.
Proof. reflexivity. Qed.
Lemma mem_log_f : forall e s, mem (log e s) = mem s.
Proof. reflexivity. Qed.
Lemma mem_upd_aw : forall a v s, mem (upd a v s) = apply_writes [(a, v)] (mem s).
Proof. reflexivity. Qed.
Lemma aw_aw : forall l1 l2 m, apply_writes l2 (apply_writes l1 m) = apply_writes (l1 ++ l2) m.
Proof.
  induction l1 as [| [a v] r IH]; intros l2 m; [reflexivity |].
  cbn [apply_writes app]. apply IH.
Qed.
(* ---------------------------------------------------------------- Step, by addressing mode *)
(* besides [same s _] the abstracted states carry [mem _ = mem s] (an equality of functions: every
   construct of Step before the routine preserves the memory by conversion) *)
Ltac note_mem s' E :=
  first
  [ match goal with
    | H : mem ?x = ?m |- _ =>
        lazymatch E with context [x] => assert (mem s' = m) by (subst s'; exact H) end
    end
  | idtac ].
Ltac jnote_facts s' E :=
  note_fact f_stepPC s' E; note_fact f_StepInfo_Mode s' E; note_fact f_StepInfo_Addr s' E;
  note_fact f_StepInfo_EA s' E; note_mem s' E.
(* [head_let] / [abs_state2] of C01Base / C01Flow with the extended set of facts (copied rather than
   re-bound with ::= so that importing this file does not change the tactics of the other families) *)
Ltac jhead_let s :=
  lazymatch goal with
  | |- ?Q (let x := ?E in @?B x) =>
      lazymatch type of E with
      | st => let s' := fresh "sp" in let H := fresh "Hs" in
              pose (s' := E); assert (H : same s s') by (subst s'; same_solver);
              jnote_facts s' E;
              change (Q (B s')); cbv beta; clearbody s'
      | _ => change (Q (B E)); cbv beta
      end
  end.
Ltac jabs_state s E :=
  let s' := fresh "sp" in let H := fresh "Hs" in
  pose (s' := E); assert (H : same s s') by (subst s'; same_solver);
  jnote_facts s' E;
  change E with s'; clearbody s'.

Definition opnd (s : st) (k : Z) : Z := mem s (get f_RK s * 65536 + add16 (get f_PC s) k) mod 256.
Arguments opnd : simpl never.
Lemma opnd_range : forall s k, 0 <= opnd s k < 256.
Proof. intros. unfold opnd. apply Z.mod_pos_bound. lia. Qed.
Lemma fetch_opnd : forall s k, fetch (abs s) (mem s) k = opnd s k.
Proof. reflexivity. Qed.
Lemma join_o16 : forall h l, 0 <= h < 256 -> 0 <= l < 256 -> w_or (shl16 h 8) l = l + 256 * h.
Proof. intros h l Hh Hl. rewrite join16 by assumption. lia. Qed.

Ltac step_prelude s Hk Hpc Hop Hmode m :=
  pose proof (eq_refl (mem s));
  cbv beta delta [Step];
  jhead_let s; jhead_let s;
  match goal with H2 : w_eqb (get f_Interrupt s) 2 = false, H3 : w_eqb (get f_Interrupt s) 3 = false |- _ =>
    rewrite H2, H3 end;
  jhead_let s;
  cbv beta delta [cb_pc]; rewrite bind_Ok; cbv beta;
  match goal with |- context [onpc ?a ?b] => destruct (onpc a b) end;
  [ match goal with |- context [log ?e ?x] => jabs_state s (log e x) end | idtac ];
  jhead_let s; jhead_let s; fetch_op s Hk Hpc Hop;
  jhead_let s; rewrite Hmode; jhead_let s;
  match goal with |- context [log ?e ?x] => jabs_state s (log e x) end;
  repeat jhead_let s;
  mode_chain m.

Ltac add16_rng := unfold add16, sub16; apply Z.mod_pos_bound; lia.

Ltac rd_gets s :=
  repeat match goal with
         | H : same s ?x |- context [get f_RK ?x] => rewrite (same_get s x f_RK H eq_refl)
         | H : same s ?x |- context [get f_PC ?x] => rewrite (same_get s x f_PC H eq_refl)
         | H : same s ?x |- context [get f_RXl ?x] => rewrite (same_get s x f_RXl H eq_refl)
         | H : same s ?x |- context [get f_RX ?x] => rewrite (same_get s x f_RX H eq_refl)
         | H : same s ?x |- context [get f_X ?x] => rewrite (same_get s x f_X H eq_refl)
         end.
Ltac rd_mems s :=
  repeat match goal with H : same s ?x |- context [mem ?x _] => rewrite !(proj2 H) end.

Ltac step_tail s HQ :=
  repeat first [ jhead_let s | match goal with |- ?Q' (if ?c then _ else _) => destruct c end ];
  facts_to_initial2 s; apply HQ; assumption.

Ltac step_intro s Hk Hpc Hop Hmode HQ :=
  let Q := fresh "Q" in let Hi2 := fresh "Hi2" in let Hi3 := fresh "Hi3" in let op := fresh "op" in
  intros s op Q [Hi2 Hi3] Hk Hpc Hop Hmode HQ;
  assert (w_eqb (get f_Interrupt s) 2 = false) by (unfold w_eqb; apply Z.eqb_neq; assumption);
  assert (w_eqb (get f_Interrupt s) 3 = false) by (unfold w_eqb; apply Z.eqb_neq; assumption).

(* the 16-bit operand at PC+1 is read at the head of the goal *)
Ltac read_o16 s :=
  rd_gets s; rewrite nRead16_wrap_ok by (assumption || add16_rng); rewrite bind_Ok; cbv beta;
  rd_mems s; rewrite !add16_add16; change (1 + 1) with 2; fold (opnd s 1); fold (opnd s 2);
  rewrite join_o16 by apply opnd_range;
  match goal with |- context [log ?e (log ?e' ?x)] => jabs_state s (log e (log e' x)) end.

Ltac prove_step_o16 m :=
  let s := fresh "s" in let Hk := fresh "Hk" in let Hpc := fresh "Hpc" in let Hop := fresh "Hop" in
  let Hmode := fresh "Hmode" in let HQ := fresh "HQ" in
  step_intro s Hk Hpc Hop Hmode HQ;
  step_prelude s Hk Hpc Hop Hmode m;
  read_o16 s; jhead_let s; step_tail s HQ.

(* modes 1 (abs: JMP, JSR), 18 ((abs): JMP), 19 ([abs]: JML): the operand word is StepInfo.Addr *)
Lemma Step_abs1 : forall s op (Q : res (word * bool) -> Prop),
  no_int s -> 0 <= get f_RK s < 256 -> 0 <= get f_PC s < 65536 ->
  mem s (get f_RK s * 65536 + get f_PC s) mod 256 = op ->
  tbl_mode op = 1 ->
  (forall s1, same s s1 -> mem s1 = mem s -> get f_stepPC s1 = tbl_size op -> get f_StepInfo_Mode s1 = 1 ->
     get f_StepInfo_Addr s1 = opnd s 1 + 256 * opnd s 2 ->
     Q (bind (tbl_proc op s1) (fun _ s2 => finish s2))) ->
  Q (Step s).
Proof. prove_step_o16 1. Qed.

Lemma Step_ind18 : forall s op (Q : res (word * bool) -> Prop),
  no_int s -> 0 <= get f_RK s < 256 -> 0 <= get f_PC s < 65536 ->
  mem s (get f_RK s * 65536 + get f_PC s) mod 256 = op ->
  tbl_mode op = 18 ->
  (forall s1, same s s1 -> mem s1 = mem s -> get f_stepPC s1 = tbl_size op -> get f_StepInfo_Mode s1 = 18 ->
     get f_StepInfo_Addr s1 = opnd s 1 + 256 * opnd s 2 ->
     Q (bind (tbl_proc op s1) (fun _ s2 => finish s2))) ->
  Q (Step s).
Proof. prove_step_o16 18. Qed.

Lemma Step_ind19 : forall s op (Q : res (word * bool) -> Prop),
  no_int s -> 0 <= get f_RK s < 256 -> 0 <= get f_PC s < 65536 ->
  mem s (get f_RK s * 65536 + get f_PC s) mod 256 = op ->
  tbl_mode op = 19 ->
  (forall s1, same s s1 -> mem s1 = mem s -> get f_stepPC s1 = tbl_size op -> get f_StepInfo_Mode s1 = 19 ->
     get f_StepInfo_Addr s1 = opnd s 1 + 256 * opnd s 2 ->
     Q (bind (tbl_proc op s1) (fun _ s2 => finish s2))) ->
  Q (Step s).
Proof. prove_step_o16 19. Qed.

(* mode 24 (rel16: BRL, PER): StepInfo.Addr is the branch target *)
Lemma Step_rel24 : forall s op (Q : res (word * bool) -> Prop),
  no_int s -> 0 <= get f_RK s < 256 -> 0 <= get f_PC s < 65536 ->
  mem s (get f_RK s * 65536 + get f_PC s) mod 256 = op ->
  tbl_mode op = 24 ->
  (forall s1, same s s1 -> mem s1 = mem s -> get f_stepPC s1 = tbl_size op -> get f_StepInfo_Mode s1 = 24 ->
     get f_StepInfo_Addr s1 = add16 (add16 (get f_PC s) 3) (opnd s 1 + 256 * opnd s 2) ->
     Q (bind (tbl_proc op s1) (fun _ s2 => finish s2))) ->
  Q (Step s).
Proof.
  step_intro s Hk Hpc Hop Hmode HQ.
  step_prelude s Hk Hpc Hop Hmode 24; read_o16 s; jhead_let s; jhead_let s; step_tail s HQ.
Qed.

(* modes 5 (imm8: WDM, COP, REP, SEP) and 22 (block move): no operand read, StepInfo.Addr = PC+1 *)
Lemma Step_imm5 : forall s op (Q : res (word * bool) -> Prop),
  no_int s -> 0 <= get f_RK s < 256 -> 0 <= get f_PC s < 65536 ->
  mem s (get f_RK s * 65536 + get f_PC s) mod 256 = op ->
  tbl_mode op = 5 ->
  (forall s1, same s s1 -> mem s1 = mem s -> get f_stepPC s1 = tbl_size op -> get f_StepInfo_Mode s1 = 5 ->
     get f_StepInfo_Addr s1 = add16 (get f_PC s) 1 ->
     Q (bind (tbl_proc op s1) (fun _ s2 => finish s2))) ->
  Q (Step s).
Proof.
  step_intro s Hk Hpc Hop Hmode HQ.
  step_prelude s Hk Hpc Hop Hmode 5; step_tail s HQ.
Qed.

Lemma Step_blk22 : forall s op (Q : res (word * bool) -> Prop),
  no_int s -> 0 <= get f_RK s < 256 -> 0 <= get f_PC s < 65536 ->
  mem s (get f_RK s * 65536 + get f_PC s) mod 256 = op ->
  tbl_mode op = 22 ->
  (forall s1, same s s1 -> mem s1 = mem s -> get f_stepPC s1 = tbl_size op -> get f_StepInfo_Mode s1 = 22 ->
     get f_StepInfo_Addr s1 = add16 (get f_PC s) 1 ->
     Q (bind (tbl_proc op s1) (fun _ s2 => finish s2))) ->
  Q (Step s).
Proof.
  step_intro s Hk Hpc Hop Hmode HQ.
  step_prelude s Hk Hpc Hop Hmode 22; step_tail s HQ.
Qed.

(* mode 8 (implied), with the memory fact *)
Lemma Step_imp8m : forall s op (Q : res (word * bool) -> Prop),
  no_int s -> 0 <= get f_RK s < 256 -> 0 <= get f_PC s < 65536 ->
  mem s (get f_RK s * 65536 + get f_PC s) mod 256 = op ->
  tbl_mode op = 8 ->
  (forall s1, same s s1 -> mem s1 = mem s -> get f_stepPC s1 = tbl_size op -> get f_StepInfo_Mode s1 = 8 ->
     get f_StepInfo_Addr s1 = 0 ->
     Q (bind (tbl_proc op s1) (fun _ s2 => finish s2))) ->
  Q (Step s).
Proof.
  step_intro s Hk Hpc Hop Hmode HQ.
  step_prelude s Hk Hpc Hop Hmode 8; step_tail s HQ.
Qed.

(* mode 20 (long: JML, JSL): the 24-bit operand is StepInfo.EA *)
Lemma Step_long20 : forall s op (Q : res (word * bool) -> Prop),
  no_int s -> 0 <= get f_RK s < 256 -> 0 <= get f_PC s < 65536 ->
  mem s (get f_RK s * 65536 + get f_PC s) mod 256 = op ->
  tbl_mode op = 20 ->
  (forall s1, same s s1 -> mem s1 = mem s -> get f_stepPC s1 = tbl_size op -> get f_StepInfo_Mode s1 = 20 ->
     get f_StepInfo_EA s1 = opnd s 3 * 65536 + opnd s 2 * 256 + opnd s 1 ->
     Q (bind (tbl_proc op s1) (fun _ s2 => finish s2))) ->
  Q (Step s).
Proof.
  step_intro s Hk Hpc Hop Hmode HQ.
  step_prelude s Hk Hpc Hop Hmode 20;
  rd_gets s; rewrite nRead24_wrap_ok by (assumption || add16_rng); rewrite bind_Ok; cbv beta;
  rd_mems s; rewrite !add16_add16; change (1 + 1) with 2; change (1 + 2) with 3;
  fold (opnd s 1); fold (opnd s 2); fold (opnd s 3);
  match goal with |- context [log ?e (log ?e' (log ?e'' ?x))] => jabs_state s (log e (log e' (log e'' x))) end;
  jhead_let s; step_tail s HQ.
Qed.

(* mode 17 ((abs,X): JMP, JSR): StepInfo.EA is PBR:(operand + X); the pointer word Step reads there is
   not used by the routines (they read it again through cmdRead16) *)
Definition xreg (s : st) : Z := if w_eqb (get f_X s) 1 then get f_RXl s else get f_RX s.
Lemma Step_indx17 : forall s op (Q : res (word * bool) -> Prop),
  no_int s -> 0 <= get f_RK s < 256 -> 0 <= get f_PC s < 65536 ->
  mem s (get f_RK s * 65536 + get f_PC s) mod 256 = op ->
  tbl_mode op = 17 ->
  (forall s1, same s s1 -> mem s1 = mem s -> get f_stepPC s1 = tbl_size op -> get f_StepInfo_Mode s1 = 17 ->
     get f_StepInfo_EA s1 = get f_RK s * 65536 + add16 (opnd s 1 + 256 * opnd s 2) (xreg s) ->
     Q (bind (tbl_proc op s1) (fun _ s2 => finish s2))) ->
  Q (Step s).
Proof.
  step_intro s Hk Hpc Hop Hmode HQ. unfold xreg in HQ.
  step_prelude s Hk Hpc Hop Hmode 17;
  read_o16 s; jhead_let s; jhead_let s; rd_gets s;
  (revert HQ; destruct (w_eqb (get f_X s) 1); intro HQ);
  jhead_let s; cbv beta;
  rd_gets s; rewrite nRead16_wrap_ok by (assumption || add16_rng); rewrite bind_Ok; cbv beta;
  match goal with |- context [log ?e (log ?e' ?x)] => jabs_state s (log e (log e' x)) end;
  jhead_let s; rd_gets s; rewrite bank_addr by (assumption || add16_rng);
  jhead_let s; step_tail s HQ.
Qed.
