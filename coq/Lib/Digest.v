(* Rolling digests of a function table, computed inside Coq by vm_compute and, with the same
   arithmetic, by the Go harness over the compiled function: equal digests on every bank tie the
   regenerated Gallina text to the compiled Go code over the whole 2^24 domain (translation
   validation of /verif/gen, up to hash collision). *)
From Coq Require Import Uint63 List.
From Lib Require Import U63Ops.
Import ListNotations.
Local Open Scope uint63_scope.

Definition mix (h v : int) : int := h * 1000003 + v + 1.   (* arithmetic modulo 2^63 *)

Fixpoint fold_pow (k : nat) (base sz : int) (f : int -> int) (h : int) : int :=
  match k with
  | O => mix h (f base)
  | S k' => let hf := sz >> 1 in fold_pow k' (base + hf) hf f (fold_pow k' base hf f h)
  end.

Definition enc (r : int * gerr) : int :=
  (fst r) * 4 + match snd r with ENil => 0 | EUnmapped => 1 | EOther => 2 end.

Fixpoint iota (n : nat) (from : int) : list int :=
  match n with O => [] | S n' => from :: iota n' (from + 1) end.

(* one digest per bank (256 of them) of a function on 24-bit addresses *)
Definition bank_digests (f : int -> int) : list int :=
  map (fun b => fold_pow 16 (b << 16) 65536 f 0) (iota 256 0).

(* indices at which two digest lists differ (a length mismatch shows up as index 999999) *)
Fixpoint diff_idx_from (i : int) (a b : list int) : list int :=
  match a, b with
  | [], [] => []
  | x :: a', y :: b' => if (x =? y) then diff_idx_from (i + 1) a' b' else i :: diff_idx_from (i + 1) a' b'
  | _, _ => [999999]
  end.
Definition diff_idx := diff_idx_from 0.
