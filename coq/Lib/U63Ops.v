(* Width-indexed operators over primitive 63-bit integers: the target of the translator's
   "u63" back end (pure integer functions: mappers, colour).  Every Go value of type
   uint8/uint16/uint32 is represented by an [int] below 2^8/2^16/2^32; each operator that can
   leave that range re-establishes it with an explicit mask, exactly where Go's type does. *)
From Coq Require Import Uint63 List.
Local Open Scope uint63_scope.

Definition word := int.

Inductive gerr := ENil | EUnmapped | EOther.
Definition gerr_is_nil (e : gerr) : bool := match e with ENil => true | _ => false end.
Definition gerr_eqb (a b : gerr) : bool :=
  match a, b with ENil, ENil | EUnmapped, EUnmapped | EOther, EOther => true | _, _ => false end.

Definition mask8 : int := 255.
Definition mask16 : int := 65535.
Definition mask32 : int := 4294967295.

Definition conv8 (a : int) := a land mask8.
Definition conv16 (a : int) := a land mask16.
Definition conv32 (a : int) := a land mask32.

Definition add8 a b := (a + b) land mask8.
Definition add16 a b := (a + b) land mask16.
Definition add32 a b := (a + b) land mask32.
Definition sub8 a b := (a - b) land mask8.
Definition sub16 a b := (a - b) land mask16.
Definition sub32 a b := (a - b) land mask32.
Definition mul8 a b := (a * b) land mask8.
Definition mul16 a b := (a * b) land mask16.
Definition mul32 a b := (a * b) land mask32.
Definition shl8 a k := (a << k) land mask8.
Definition shl16 a k := (a << k) land mask16.
Definition shl32 a k := (a << k) land mask32.
Definition not8 a := a lxor mask8.
Definition not16 a := a lxor mask16.
Definition not32 a := a lxor mask32.
Definition neg8 a := (0 - a) land mask8.
Definition neg16 a := (0 - a) land mask16.
Definition neg32 a := (0 - a) land mask32.

Definition w_shr (a k : int) := a >> k.
Definition w_and (a b : int) := a land b.
Definition w_or (a b : int) := a lor b.
Definition w_xor (a b : int) := a lxor b.
Definition w_div (a b : int) := a / b.
Definition w_mod (a b : int) := a mod b.
Definition w_eqb (a b : int) := (a =? b).
Definition w_ltb (a b : int) := (a <? b).
Definition w_leb (a b : int) := (a <=? b).
