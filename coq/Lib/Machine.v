(* The machine the translated interpreters run on: a register file indexed by generated field
   numbers, a flat 16 MiB byte memory, an event trace, and the outcome type [res] whose [Panic]
   constructor stands for a Go run-time panic (index out of range on the 2^20-entry segment table,
   explicit panic()).  Primitive bus operations used by the translator's special forms are
   defined here by hand and are part of the trusted model of emulator/memory.RAM attached flat
   over the whole address space. *)
From Coq Require Import ZArith NArith List Bool.
Require Import Lib.ZOps.
Local Open Scope Z_scope.

Inductive ev := EvR (a v : Z) | EvW (a v : Z) | EvPC (a : Z) | EvWDM (v : Z).

Record st := mkst {
  regs : N -> Z;          (* every integer / bool field of the Go CPU and Bus structs *)
  mem : Z -> Z;           (* flat memory; only [0, 2^24) is ever accessed *)
  trace : list ev;        (* newest first *)
  onpc : Z -> bool;       (* OnPC callback registered for this 24-bit address? *)
  onwdm : bool            (* OnWDM callback registered? *)
}.

Inductive res (A : Type) := Ok (a : A) (s : st) | Panic.
Arguments Ok {A} a s.
Arguments Panic {A}.

Definition bind {A B} (m : res A) (k : A -> st -> res B) : res B :=
  match m with Ok a s => k a s | Panic => Panic end.

Definition get (f : N) (s : st) : Z := regs s f.
Definition set (f : N) (v : Z) (s : st) : st :=
  mkst (fun g => if N.eqb g f then v else regs s g) (mem s) (trace s) (onpc s) (onwdm s).

Definition log (e : ev) (s : st) : st :=
  mkst (regs s) (mem s) (e :: trace s) (onpc s) (onwdm s).
Definition upd (a v : Z) (s : st) : st :=
  mkst (regs s) (fun b => if Z.eqb b a then v else mem s b) (trace s) (onpc s) (onwdm s).

Definition seg_ok (i : Z) : bool := (0 <=? i) && (i <? 1048576).
Definition addr_ok (a : Z) : bool := (0 <=? a) && (a <? 16777216).

(* primary bus: b.segment[i] ; index out of range panics *)
Definition seg_get (i : Z) (s : st) : res Z := if seg_ok i then Ok i s else Panic.
(* the whole address space is mapped (the assumption of C02 / C08): no segment is nil *)
Definition seg_nil (h : Z) (s : st) : bool := false.
(* Memory.Read / Memory.Write of the flat RAM behind every segment *)
Definition mem_read (h a : Z) (s : st) : res Z :=
  if addr_ok a then let v := mem s a mod 256 in Ok v (log (EvR a v) s) else Panic.
Definition mem_write (h a v : Z) (s : st) : res unit :=
  if addr_ok a then Ok tt (log (EvW a v) (upd a v s)) else Panic.
(* alternative bus: b.Read[i](a) / b.Write[i](a, v) with a flat reader/writer attached everywhere *)
Definition bus_read (i a : Z) (s : st) : res Z :=
  if seg_ok i then mem_read i a s else Panic.
Definition bus_write (i a v : Z) (s : st) : res unit :=
  if seg_ok i then mem_write i a v s else Panic.

(* callbacks *)
Definition cb_pc (a : Z) (s : st) : res unit :=
  Ok tt (if onpc s a then log (EvPC a) s else s).
Definition cb_absent_OnWDM (s : st) : bool := negb (onwdm s).
Definition cb_call_OnWDM (v : Z) (s : st) : res unit := Ok tt (log (EvWDM v) s).
