(* Lists indexed by Z: the vocabulary of the ROM / header models (Go slices of bytes are [list Z]).
   [ztake n l] = l[:n], [zdrop n l] = l[n:], [slice l a b] = l[a:b], [splice l a p] = the list after
   copy(l[a:], p) when p fits.  Definitions are total (indices outside the list saturate); the lemmas
   carry the bounds under which they coincide with Go's slice expressions. *)
From Coq Require Import ZArith List Lia Bool.
Import ListNotations.
Local Open Scope Z_scope.

Definition zlen {A} (l : list A) : Z := Z.of_nat (length l).
Definition ztake {A} (n : Z) (l : list A) : list A := firstn (Z.to_nat n) l.
Definition zdrop {A} (n : Z) (l : list A) : list A := skipn (Z.to_nat n) l.
Definition slice {A} (l : list A) (a b : Z) : list A := ztake (b - a) (zdrop a l).
Definition splice {A} (l : list A) (a : Z) (p : list A) : list A :=
  ztake a l ++ p ++ zdrop (a + zlen p) l.
Definition znth (l : list Z) (i : Z) : Z := if i <? 0 then 0 else nth (Z.to_nat i) l 0.
Definition upd (l : list Z) (i b : Z) : list Z := splice l i [b].
Definition is_byte (b : Z) : Prop := 0 <= b < 256.
Definition bytes_ok (l : list Z) : Prop := Forall is_byte l.
Definition byteb (b : Z) : bool := (0 <=? b) && (b <? 256).

Fixpoint list_eqb (a b : list Z) : bool :=
  match a, b with
  | [], [] => true
  | x :: a', y :: b' => (x =? y) && list_eqb a' b'
  | _, _ => false
  end.

Fixpoint zsum (l : list Z) : Z := match l with [] => 0 | x :: r => x + zsum r end.

(* [ziota a n] = [a; a+1; ...; a+n-1] *)
Fixpoint iota_nat (a : Z) (n : nat) : list Z := match n with O => [] | S m => a :: iota_nat (a + 1) m end.
Definition ziota (a n : Z) : list Z := iota_nat a (Z.to_nat n).

Lemma list_eqb_eq : forall a b, list_eqb a b = true <-> a = b.
Proof.
  induction a as [|x a IH]; destruct b as [|y b]; simpl; split; intro H; try congruence; try discriminate.
  - apply andb_true_iff in H. destruct H as [H1 H2]. apply Z.eqb_eq in H1. apply IH in H2. congruence.
  - inversion H; subst. rewrite Z.eqb_refl. simpl. apply IH. reflexivity.
Qed.

(* ---- nat-level facts missing from the 8.16 standard library ---- *)
Lemma skipn_skipn_nat : forall A (l : list A) a b, skipn a (skipn b l) = skipn (b + a) l.
Proof.
  intros A l a b. revert l. induction b as [|b IH]; intro l; simpl.
  - reflexivity.
  - destruct l as [|x l]. { now rewrite skipn_nil. } apply IH.
Qed.

Lemma nth_skipn_nat : forall A (l : list A) n i d, nth i (skipn n l) d = nth (n + i) l d.
Proof.
  intros A l n. revert l. induction n as [|n IH]; intros l i d; simpl; [reflexivity|].
  destruct l as [|x l]; [destruct i; reflexivity|]. apply IH.
Qed.

(* ---- lengths ---- *)
Lemma zlen_nonneg : forall A (l : list A), 0 <= zlen l.
Proof. intros. unfold zlen. lia. Qed.
Lemma zlen_nil : forall A, zlen (@nil A) = 0.
Proof. reflexivity. Qed.
Lemma zlen_cons : forall A (x : A) l, zlen (x :: l) = 1 + zlen l.
Proof. intros. unfold zlen. simpl length. lia. Qed.
Lemma zlen_app : forall A (a b : list A), zlen (a ++ b) = zlen a + zlen b.
Proof. intros. unfold zlen. rewrite app_length. lia. Qed.
Lemma zlen_0_nil : forall A (l : list A), zlen l = 0 -> l = [].
Proof. intros A [|x l] H; [reflexivity|]. rewrite zlen_cons in H. pose proof (zlen_nonneg _ l). lia. Qed.

Lemma zlen_ztake : forall A (l : list A) n, 0 <= n -> zlen (ztake n l) = Z.min n (zlen l).
Proof. intros. unfold zlen, ztake. rewrite firstn_length. lia. Qed.
Lemma zlen_zdrop : forall A (l : list A) n, 0 <= n -> zlen (zdrop n l) = Z.max 0 (zlen l - n).
Proof. intros. unfold zlen, zdrop. rewrite skipn_length. lia. Qed.

(* ---- take / drop ---- *)
Lemma ztake_nonpos : forall A (l : list A) n, n <= 0 -> ztake n l = [].
Proof. intros. unfold ztake. replace (Z.to_nat n) with O by lia. reflexivity. Qed.
Lemma zdrop_nonpos : forall A (l : list A) n, n <= 0 -> zdrop n l = l.
Proof. intros. unfold zdrop. replace (Z.to_nat n) with O by lia. reflexivity. Qed.
Lemma ztake_all : forall A (l : list A) n, zlen l <= n -> ztake n l = l.
Proof. intros. unfold ztake, zlen in *. apply firstn_all2. lia. Qed.
Lemma zdrop_all : forall A (l : list A) n, zlen l <= n -> zdrop n l = [].
Proof. intros. unfold zdrop, zlen in *. apply skipn_all2. lia. Qed.
Lemma ztake_zdrop_id : forall A (l : list A) n, ztake n l ++ zdrop n l = l.
Proof. intros. apply firstn_skipn. Qed.
Lemma zdrop_zdrop : forall A (l : list A) a b, 0 <= a -> 0 <= b -> zdrop a (zdrop b l) = zdrop (b + a) l.
Proof. intros. unfold zdrop. rewrite skipn_skipn_nat. f_equal. lia. Qed.
Lemma ztake_ztake : forall A (l : list A) a b, ztake a (ztake b l) = ztake (Z.min a b) l.
Proof. intros. unfold ztake. rewrite firstn_firstn. f_equal. lia. Qed.
Lemma zdrop_ztake : forall A (l : list A) a b, 0 <= a -> zdrop a (ztake b l) = ztake (b - a) (zdrop a l).
Proof. intros. unfold zdrop, ztake. rewrite skipn_firstn_comm. f_equal. lia. Qed.
Lemma ztake_app : forall A (l1 l2 : list A) n, ztake n (l1 ++ l2) = ztake n l1 ++ ztake (n - zlen l1) l2.
Proof. intros. unfold ztake, zlen. rewrite firstn_app. do 2 f_equal. lia. Qed.
Lemma zdrop_app : forall A (l1 l2 : list A) n, zdrop n (l1 ++ l2) = zdrop n l1 ++ zdrop (n - zlen l1) l2.
Proof. intros. unfold zdrop, zlen. rewrite skipn_app. do 2 f_equal. lia. Qed.
Lemma ztake_app_exact : forall A (l1 l2 : list A), ztake (zlen l1) (l1 ++ l2) = l1.
Proof.
  intros. rewrite ztake_app. rewrite ztake_all by lia. rewrite ztake_nonpos by lia. apply app_nil_r.
Qed.
Lemma zdrop_app_exact : forall A (l1 l2 : list A), zdrop (zlen l1) (l1 ++ l2) = l2.
Proof.
  intros. rewrite zdrop_app. rewrite zdrop_all by lia. rewrite zdrop_nonpos by lia. reflexivity.
Qed.
Lemma ztake_split : forall A (l : list A) a b, 0 <= a -> 0 <= b ->
  ztake (a + b) l = ztake a l ++ ztake b (zdrop a l).
Proof.
  intros. rewrite <- (ztake_zdrop_id _ l a) at 1. rewrite ztake_app.
  rewrite ztake_ztake. rewrite Z.min_r by lia.
  destruct (Z_le_gt_dec a (zlen l)).
  - rewrite zlen_ztake by lia. rewrite Z.min_l by lia. do 2 f_equal. lia.
  - rewrite (zdrop_all _ l a) by lia. unfold ztake. now rewrite !firstn_nil.
Qed.

(* ---- slices ---- *)
Lemma zlen_slice : forall A (l : list A) a b, 0 <= a -> a <= b -> b <= zlen l -> zlen (slice l a b) = b - a.
Proof. intros. unfold slice. rewrite zlen_ztake by lia. rewrite zlen_zdrop by lia. lia. Qed.
Lemma slice_empty : forall A (l : list A) a b, b <= a -> slice l a b = [].
Proof. intros. unfold slice. apply ztake_nonpos. lia. Qed.
Lemma slice_adj : forall A (l : list A) a b c, 0 <= a -> a <= b -> b <= c ->
  slice l a b ++ slice l b c = slice l a c.
Proof.
  intros. unfold slice. replace (c - a) with ((b - a) + (c - b)) by lia.
  rewrite ztake_split by lia. f_equal. rewrite zdrop_zdrop by lia. do 2 f_equal. lia.
Qed.
Lemma slice_zdrop : forall A (l : list A) k a b, 0 <= k -> 0 <= a ->
  slice (zdrop k l) a b = slice l (k + a) (k + b).
Proof. intros. unfold slice. rewrite zdrop_zdrop by lia. f_equal. lia. Qed.
Lemma slice_ztake : forall A (l : list A) k a b, 0 <= a -> b <= k -> slice (ztake k l) a b = slice l a b.
Proof.
  intros. unfold slice. rewrite zdrop_ztake by lia. rewrite ztake_ztake. f_equal. lia.
Qed.
Lemma slice_full : forall A (l : list A), slice l 0 (zlen l) = l.
Proof. intros. unfold slice. rewrite zdrop_nonpos by lia. apply ztake_all. lia. Qed.
Lemma ztake_slice : forall A (l : list A) a b n, ztake n (slice l a b) = slice l a (a + Z.min n (b - a)).
Proof. intros. unfold slice. rewrite ztake_ztake. f_equal. lia. Qed.
Lemma zdrop_slice : forall A (l : list A) a b n, 0 <= a -> 0 <= n -> zdrop n (slice l a b) = slice l (a + n) b.
Proof.
  intros. unfold slice. rewrite zdrop_ztake by lia. rewrite zdrop_zdrop by lia. f_equal. lia.
Qed.
Lemma slice_app_l : forall A (l1 l2 : list A) a b, 0 <= a -> b <= zlen l1 -> slice (l1 ++ l2) a b = slice l1 a b.
Proof.
  intros. unfold slice. rewrite zdrop_app, ztake_app.
  destruct (Z_le_gt_dec a (zlen l1)).
  - rewrite zlen_zdrop by lia. rewrite (ztake_nonpos _ _ (b - a - _)) by lia. apply app_nil_r.
  - pose proof (zlen_nonneg _ (zdrop a l1)). rewrite !ztake_nonpos by lia. reflexivity.
Qed.
Lemma slice_app_r : forall A (l1 l2 : list A) a b, zlen l1 <= a ->
  slice (l1 ++ l2) a b = slice l2 (a - zlen l1) (b - zlen l1).
Proof.
  intros. pose proof (zlen_nonneg _ l1). unfold slice. rewrite zdrop_app. rewrite zdrop_all by lia. simpl. f_equal. lia.
Qed.

(* ---- splice ---- *)
Lemma zlen_splice : forall A (l p : list A) a, 0 <= a -> a + zlen p <= zlen l -> zlen (splice l a p) = zlen l.
Proof.
  intros. pose proof (zlen_nonneg _ p). unfold splice. rewrite !zlen_app, zlen_ztake, zlen_zdrop by lia. lia.
Qed.
Lemma splice_nil : forall A (l : list A) a, splice l a [] = l.
Proof. intros. unfold splice. simpl. rewrite Z.add_0_r. apply ztake_zdrop_id. Qed.
Lemma splice_self : forall A (l : list A) a b, 0 <= a -> a <= b -> b <= zlen l -> splice l a (slice l a b) = l.
Proof.
  intros. unfold splice. rewrite zlen_slice by lia. replace (a + (b - a)) with b by lia.
  rewrite <- (ztake_zdrop_id _ l b) at 4.
  rewrite app_assoc. f_equal.
  replace (ztake a l) with (slice l 0 a) by (unfold slice; rewrite zdrop_nonpos by lia; f_equal; lia).
  rewrite slice_adj by lia. unfold slice. rewrite zdrop_nonpos by lia. f_equal. lia.
Qed.
Lemma splice_adj : forall A (l p q : list A) a, 0 <= a -> a + zlen p + zlen q <= zlen l ->
  splice (splice l a p) (a + zlen p) q = splice l a (p ++ q).
Proof.
  intros. pose proof (zlen_nonneg _ p). pose proof (zlen_nonneg _ q).
  unfold splice at 1.
  assert (Ht : zlen (ztake a l) = a) by (rewrite zlen_ztake by lia; lia).
  assert (E1 : ztake (a + zlen p) (splice l a p) = ztake a l ++ p).
  { unfold splice. rewrite app_assoc.
    replace (a + zlen p) with (zlen (ztake a l ++ p)) by (rewrite zlen_app; lia).
    apply ztake_app_exact. }
  assert (E2 : zdrop (a + zlen p + zlen q) (splice l a p) = zdrop (a + zlen (p ++ q)) l).
  { unfold splice. rewrite app_assoc. rewrite zdrop_app. rewrite zdrop_all by (rewrite zlen_app; lia).
    simpl. rewrite zlen_app, Ht. rewrite zdrop_zdrop by lia. f_equal. rewrite zlen_app. lia. }
  rewrite E1, E2. unfold splice. now rewrite <- !app_assoc.
Qed.
Lemma slice_splice_same : forall A (l p : list A) a, 0 <= a -> a <= zlen l ->
  slice (splice l a p) a (a + zlen p) = p.
Proof.
  intros. unfold splice.
  assert (Ht : zlen (ztake a l) = a) by (rewrite zlen_ztake by lia; lia).
  rewrite slice_app_r by lia. rewrite Ht. replace (a - a) with 0 by lia. replace (a + zlen p - a) with (zlen p) by lia.
  pose proof (zlen_nonneg _ p). rewrite slice_app_l by lia. apply slice_full.
Qed.
(* the window [a, e) after storing d at its start: d followed by the old tail of the window *)
Lemma slice_splice_window : forall A (l d : list A) a e, 0 <= a -> a + zlen d <= e -> e <= zlen l ->
  slice (splice l a d) a e = d ++ slice l (a + zlen d) e.
Proof.
  intros. pose proof (zlen_nonneg _ d).
  rewrite <- (slice_adj _ (splice l a d) a (a + zlen d) e) by lia.
  rewrite slice_splice_same by lia. f_equal.
  unfold splice. assert (Ht : zlen (ztake a l) = a) by (rewrite zlen_ztake by lia; lia).
  rewrite app_assoc. rewrite slice_app_r by (rewrite zlen_app; lia).
  rewrite zlen_app, Ht. replace (a + zlen d - (a + zlen d)) with 0 by lia.
  rewrite slice_zdrop by lia. f_equal; lia.
Qed.
(* everything before the stored bytes and everything after them is untouched *)
Lemma slice_splice_before : forall A (l p : list A) a, 0 <= a -> a <= zlen l -> slice (splice l a p) 0 a = slice l 0 a.
Proof.
  intros. unfold splice. assert (Ht : zlen (ztake a l) = a) by (rewrite zlen_ztake by lia; lia).
  rewrite slice_app_l by lia. apply slice_ztake; lia.
Qed.
Lemma zdrop_splice_after : forall A (l p : list A) a, 0 <= a -> a + zlen p <= zlen l ->
  zdrop (a + zlen p) (splice l a p) = zdrop (a + zlen p) l.
Proof.
  intros. pose proof (zlen_nonneg _ p). unfold splice.
  assert (Ht : zlen (ztake a l) = a) by (rewrite zlen_ztake by lia; lia).
  rewrite app_assoc. rewrite zdrop_app. rewrite zdrop_all by (rewrite zlen_app; lia). simpl.
  rewrite zlen_app, Ht. replace (a + zlen p - (a + zlen p)) with 0 by lia. now rewrite zdrop_nonpos by lia.
Qed.

(* ---- znth ---- *)
Lemma znth_app_l : forall l1 l2 i, 0 <= i -> i < zlen l1 -> znth (l1 ++ l2) i = znth l1 i.
Proof.
  intros. unfold znth. destruct (i <? 0) eqn:E; [apply Z.ltb_lt in E; lia|].
  apply app_nth1. unfold zlen in *. lia.
Qed.
Lemma znth_app_r : forall l1 l2 i, zlen l1 <= i -> znth (l1 ++ l2) i = znth l2 (i - zlen l1).
Proof.
  intros. pose proof (zlen_nonneg _ l1). unfold znth.
  destruct (i <? 0) eqn:E; [apply Z.ltb_lt in E; lia|].
  destruct (i - zlen l1 <? 0) eqn:E2; [apply Z.ltb_lt in E2; lia|].
  rewrite app_nth2 by (unfold zlen in *; lia). f_equal. unfold zlen in *. lia.
Qed.
Lemma znth_ztake : forall l n i, i < n -> znth (ztake n l) i = znth l i.
Proof.
  intros. unfold znth. destruct (i <? 0) eqn:E; [reflexivity|]. apply Z.ltb_ge in E.
  unfold ztake. rewrite <- (firstn_skipn (Z.to_nat n) l) at 2.
  destruct (Z_lt_ge_dec i (zlen (ztake n l))).
  - symmetry. apply app_nth1. unfold zlen, ztake in *. lia.
  - (* beyond the end of l: both default *)
    assert (zlen l <= i).
    { rewrite zlen_ztake in g by lia. lia. }
    rewrite !nth_overflow; trivial; unfold zlen in *; try lia.
    + rewrite firstn_skipn. lia.
    + rewrite firstn_length. lia.
Qed.
Lemma znth_zdrop : forall l n i, 0 <= n -> 0 <= i -> znth (zdrop n l) i = znth l (n + i).
Proof.
  intros. unfold znth. destruct (i <? 0) eqn:E; [apply Z.ltb_lt in E; lia|].
  destruct (n + i <? 0) eqn:E2; [apply Z.ltb_lt in E2; lia|].
  unfold zdrop. rewrite nth_skipn_nat. f_equal. lia.
Qed.
Lemma znth_splice_out : forall l p a i, 0 <= a -> a + zlen p <= zlen l -> (i < a \/ a + zlen p <= i) ->
  znth (splice l a p) i = znth l i.
Proof.
  intros l p a i Ha Hfit Hi. pose proof (zlen_nonneg _ p).
  destruct (Z_lt_ge_dec i 0) as [Hn|Hn].
  { unfold znth. destruct (i <? 0) eqn:E; [reflexivity|apply Z.ltb_ge in E; lia]. }
  unfold splice. assert (Ht : zlen (ztake a l) = a) by (rewrite zlen_ztake by lia; lia).
  destruct Hi as [Hi|Hi].
  - rewrite znth_app_l by lia. apply znth_ztake; lia.
  - rewrite znth_app_r by lia. rewrite znth_app_r by lia. rewrite znth_zdrop by lia. f_equal. lia.
Qed.
Lemma znth_splice_in : forall l p a i, 0 <= a -> a <= zlen l -> a <= i < a + zlen p ->
  znth (splice l a p) i = znth p (i - a).
Proof.
  intros. unfold splice. assert (Ht : zlen (ztake a l) = a) by (rewrite zlen_ztake by lia; lia).
  rewrite znth_app_r by lia. rewrite Ht. apply znth_app_l; lia.
Qed.
Lemma znth_slice : forall l a b i, 0 <= a -> 0 <= i -> i < b - a -> znth (slice l a b) i = znth l (a + i).
Proof. intros. unfold slice. rewrite znth_ztake by lia. apply znth_zdrop; lia. Qed.
Lemma slice_one : forall l a, 0 <= a -> a < zlen l -> slice l a (a + 1) = [znth l a].
Proof.
  intros. unfold slice, znth. destruct (a <? 0) eqn:E; [apply Z.ltb_lt in E; lia|].
  replace (a + 1 - a) with 1 by lia. unfold zdrop, ztake. change (Z.to_nat 1) with 1%nat.
  assert (Hl : (Z.to_nat a < length l)%nat) by (unfold zlen in *; lia).
  revert Hl. generalize (Z.to_nat a). clear. intros n. revert l.
  induction n as [|n IH]; intros [|x l] Hl; simpl in *; try lia; trivial.
  apply IH. lia.
Qed.

(* ---- bytes ---- *)
Lemma bytes_ok_app : forall a b, bytes_ok (a ++ b) <-> bytes_ok a /\ bytes_ok b.
Proof. intros. unfold bytes_ok. apply Forall_app. Qed.
Lemma bytes_ok_ztake : forall l n, bytes_ok l -> bytes_ok (ztake n l).
Proof.
  intros l n H. unfold bytes_ok in *. rewrite <- (ztake_zdrop_id _ l n) in H. apply Forall_app in H. tauto.
Qed.
Lemma bytes_ok_zdrop : forall l n, bytes_ok l -> bytes_ok (zdrop n l).
Proof.
  intros l n H. unfold bytes_ok in *. rewrite <- (ztake_zdrop_id _ l n) in H. apply Forall_app in H. tauto.
Qed.
Lemma bytes_ok_slice : forall l a b, bytes_ok l -> bytes_ok (slice l a b).
Proof. intros. unfold slice. now apply bytes_ok_ztake, bytes_ok_zdrop. Qed.
Lemma bytes_ok_splice : forall l a p, bytes_ok l -> bytes_ok p -> bytes_ok (splice l a p).
Proof.
  intros. unfold splice. apply bytes_ok_app. split; [now apply bytes_ok_ztake|].
  apply bytes_ok_app. split; [assumption|now apply bytes_ok_zdrop].
Qed.
Lemma bytes_ok_znth : forall l i, bytes_ok l -> is_byte (znth l i).
Proof.
  intros l i H. unfold znth. destruct (i <? 0); [unfold is_byte; lia|].
  destruct (nth_in_or_default (Z.to_nat i) l 0) as [Hin|Hd].
  - unfold bytes_ok in H. rewrite Forall_forall in H. auto.
  - rewrite Hd. unfold is_byte. lia.
Qed.

Lemma zsum_app : forall a b, zsum (a ++ b) = zsum a + zsum b.
Proof. induction a; intros; simpl; [lia|]. rewrite IHa. lia. Qed.
