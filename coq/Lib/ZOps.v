(* Width-indexed operators over Z: the target of the translator's "z" back end (stateful code:
   the two CPU interpreters and their bus layers).  A Go value of type uintN is a Z in [0, 2^N);
   operators that can leave the range reduce modulo 2^N where Go's type does.  Width 0 is Go's
   [int], modelled unbounded (it is only used for the cycle count returned by Step). *)
From Coq Require Import ZArith List.
Local Open Scope Z_scope.

Definition word := Z.
(* width-carrying aliases: a binder of Go type uintN is printed with type zwN (zw0 = Go's int) *)
Definition zw0 := Z.
Definition zw8 := Z.
Definition zw16 := Z.
Definition zw32 := Z.
Definition zw64 := Z.

Definition conv8 (a : Z) := a mod 256.
Definition conv16 (a : Z) := a mod 65536.
Definition conv32 (a : Z) := a mod 4294967296.
Definition conv64 (a : Z) := a mod 18446744073709551616.

Definition add0 (a b : Z) := a + b.
Definition sub0 (a b : Z) := a - b.
Definition add8 a b := (a + b) mod 256.
Definition add16 a b := (a + b) mod 65536.
Definition add32 a b := (a + b) mod 4294967296.
Definition add64 a b := (a + b) mod 18446744073709551616.
Definition sub8 a b := (a - b) mod 256.
Definition sub16 a b := (a - b) mod 65536.
Definition sub32 a b := (a - b) mod 4294967296.
Definition sub64 a b := (a - b) mod 18446744073709551616.
Definition mul8 a b := (a * b) mod 256.
Definition mul16 a b := (a * b) mod 65536.
Definition mul32 a b := (a * b) mod 4294967296.
Definition shl8 a k := (Z.shiftl a k) mod 256.
Definition shl16 a k := (Z.shiftl a k) mod 65536.
Definition shl32 a k := (Z.shiftl a k) mod 4294967296.
Definition shl64 a k := (Z.shiftl a k) mod 18446744073709551616.
Definition not8 a := Z.lxor a 255.
Definition not16 a := Z.lxor a 65535.
Definition not32 a := Z.lxor a 4294967295.
Definition neg8 a := (- a) mod 256.
Definition neg16 a := (- a) mod 65536.
Definition neg32 a := (- a) mod 4294967296.

Definition w_shr (a k : Z) := Z.shiftr a k.
Definition w_and (a b : Z) := Z.land a b.
Definition w_or (a b : Z) := Z.lor a b.
Definition w_xor (a b : Z) := Z.lxor a b.
Definition w_div (a b : Z) := a / b.
Definition w_mod (a b : Z) := a mod b.
Definition w_eqb (a b : Z) := (a =? b).
Definition w_ltb (a b : Z) := (a <? b).
Definition w_leb (a b : Z) := (a <=? b).
Definition w_nth (i : Z) (l : list Z) : Z := nth (Z.to_nat i) l 0.

Definition b2z (b : bool) : Z := if b then 1 else 0.
Definition z2b (z : Z) : bool := negb (z =? 0).
