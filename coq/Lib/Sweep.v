(* Exhaustive enumeration of a range of primitive integers inside the kernel, and its lifting
   to a universally quantified statement.  [all_pow k base sz P] evaluates P on the 2^k points
   base, base+1, ... by binary splitting (recursion on the small nat k only). *)
From Coq Require Import Uint63 ZArith Lia Bool.
Local Open Scope uint63_scope.

Fixpoint all_pow (k : nat) (base sz : int) (P : int -> bool) : bool :=
  match k with
  | O => P base
  | S k' => let h := sz >> 1 in
            if all_pow k' base h P then all_pow k' (base + h) h P else false
  end.

(* first failing point, if any *)
Fixpoint find_pow (k : nat) (base sz : int) (P : int -> bool) : option int :=
  match k with
  | O => if P base then None else Some base
  | S k' => let h := sz >> 1 in
            match find_pow k' base h P with
            | Some x => Some x
            | None => find_pow k' (base + h) h P
            end
  end.

Local Open Scope Z_scope.

Lemma all_pow_sound : forall (P : int -> bool) (k : nat) (base sz : int),
  to_Z sz = 2 ^ Z.of_nat k ->
  to_Z base + 2 ^ Z.of_nat k <= wB ->
  all_pow k base sz P = true ->
  forall i : int, to_Z base <= to_Z i < to_Z base + 2 ^ Z.of_nat k -> P i = true.
Proof.
  intros P k; induction k as [|k IH]; intros base sz Hsz Hb Hall i Hi.
  - cbn in Hall. change (2 ^ Z.of_nat 0) with 1 in Hi.
    assert (E : i = base) by (apply to_Z_inj; lia). subst; exact Hall.
  - cbn [all_pow] in Hall.
    assert (Hpow : 2 ^ Z.of_nat (S k) = 2 * 2 ^ Z.of_nat k).
    { rewrite Nat2Z.inj_succ, Z.pow_succ_r by lia. reflexivity. }
    assert (Hpos : 0 < 2 ^ Z.of_nat k) by (apply Z.pow_pos_nonneg; lia).
    assert (Hh : to_Z (sz >> 1)%uint63 = 2 ^ Z.of_nat k).
    { rewrite lsr_spec, Hsz, Hpow. change (to_Z 1%uint63) with 1. change (2 ^ 1) with 2.
      rewrite Z.mul_comm, Z.div_mul by lia. reflexivity. }
    destruct (all_pow k base (sz >> 1)%uint63 P) eqn:E1; [|discriminate].
    pose proof (to_Z_bounded base) as Bb.
    destruct (Z_lt_le_dec (to_Z i) (to_Z base + 2 ^ Z.of_nat k)) as [Hlt|Hge].
    + eapply (IH base (sz >> 1)%uint63); eauto; lia.
    + assert (Hadd : to_Z (base + (sz >> 1))%uint63 = to_Z base + 2 ^ Z.of_nat k).
      { rewrite add_spec, Hh. apply Z.mod_small. lia. }
      eapply (IH (base + (sz >> 1))%uint63 (sz >> 1)%uint63); eauto; lia.
Qed.

Lemma find_pow_none : forall (P : int -> bool) (k : nat) (base sz : int),
  find_pow k base sz P = None -> all_pow k base sz P = true.
Proof.
  intros P k; induction k as [|k IH]; intros base sz H; cbn in *.
  - destruct (P base); congruence.
  - destruct (find_pow k base (sz >> 1)%uint63 P) eqn:E; [discriminate|].
    rewrite (IH _ _ E). apply IH; exact H.
Qed.

(* the whole 24-bit space *)
Definition all24 (P : int -> bool) : bool := all_pow 24 0%uint63 16777216%uint63 P.
Definition find24 (P : int -> bool) : option int := find_pow 24 0%uint63 16777216%uint63 P.
Definition all16 (P : int -> bool) : bool := all_pow 16 0%uint63 65536%uint63 P.
Definition all8 (P : int -> bool) : bool := all_pow 8 0%uint63 256%uint63 P.

Lemma pow_sound_top (P : int -> bool) (k : nat) (sz : int) :
  to_Z sz = 2 ^ Z.of_nat k -> 2 ^ Z.of_nat k <= wB ->
  all_pow k 0%uint63 sz P = true -> forall i : int, (i <? sz)%uint63 = true -> P i = true.
Proof.
  intros Hsz Hw H i Hi. apply ltb_spec in Hi. pose proof (to_Z_bounded i) as Bi.
  apply (all_pow_sound P k 0%uint63 sz Hsz); [ | exact H | ].
  - rewrite to_Z_0. lia.
  - rewrite to_Z_0. lia.
Qed.

Lemma all24_sound (P : int -> bool) :
  all24 P = true -> forall i : int, (i <? 16777216)%uint63 = true -> P i = true.
Proof. apply (pow_sound_top P 24 16777216%uint63); vm_compute; [reflexivity | discriminate]. Qed.

Lemma all16_sound (P : int -> bool) :
  all16 P = true -> forall i : int, (i <? 65536)%uint63 = true -> P i = true.
Proof. apply (pow_sound_top P 16 65536%uint63); vm_compute; [reflexivity | discriminate]. Qed.

Lemma all8_sound (P : int -> bool) :
  all8 P = true -> forall i : int, (i <? 256)%uint63 = true -> P i = true.
Proof. apply (pow_sound_top P 8 256%uint63); vm_compute; [reflexivity | discriminate]. Qed.
