(* Model/Emitter.v -- hand-written executable model of *asm.Emitter (asm/emitter.go, asm/flags.go),
   routine for routine.  No proofs here (Props/EmitterProps.v); the model is tied to the compiled
   code on every run by the correspondence cases of checks/emitter.py (Model/EmitterTie.v).

   Conventions
   - bytes, addresses and counts are [Z]; Go's uint32 arithmetic on [address]/[base] is made explicit
     with [w32] exactly where the Go types wrap; the tracked flags are a byte.
   - the target []byte is [buf : option (list Z)]: [None] = nil target, [Some b] = a buffer whose
     len = cap = [zlen b] (the harness passes three-index slices, so cap = len) holding its whole
     content, written or not (the listing re-reads it).
   - label names are abstract identifiers [lbl := N]; Go's three maps are association lists kept
     sorted by key ([insert]); [lookup]/[insert]/[remove] satisfy the usual map equations on ANY list,
     sortedness only makes the representation canonical (Props: [sorted_ext]).  Iteration order of a
     Go map is unspecified: it only matters in [Finalize], which takes the two visiting orders as
     parameters; Clone/Append build a map whose content does not depend on the order.
   - a Go panic is [Refused e] where [e] is the state a recover() would see.
   - instruction methods are not modelled one by one: [OIns k bytes l t g] is "a method that checks
     width guard [g], applies tracker update [t] (REP/SEP) and calls emit<k> with [bytes] (and label
     [l])"; which bytes each method passes is property C03. *)
From Coq Require Import ZArith NArith List Bool.
From Lib Require Import ZList.
Import ListNotations.
Local Open Scope Z_scope.

Definition lbl := N.
Definition w32 (x : Z) : Z := x mod 4294967296.
Definition nolbl : lbl := 0%N.

(* ------------------------------------------------------------------ Go maps keyed by label *)
Section Maps.
  Context {A : Type}.
  (* m[k] *)
  Fixpoint lookup (k : lbl) (m : list (lbl * A)) : option A :=
    match m with
    | [] => None
    | (k', v) :: r => if N.eqb k k' then Some v else lookup k r
    end.
  (* m[k] = v *)
  Fixpoint insert (k : lbl) (v : A) (m : list (lbl * A)) : list (lbl * A) :=
    match m with
    | [] => [(k, v)]
    | (k', v') :: r =>
        if N.ltb k k' then (k, v) :: m
        else if N.eqb k k' then (k, v) :: r
        else (k', v') :: insert k v r
    end.
  (* delete(m, k) *)
  Fixpoint remove (k : lbl) (m : list (lbl * A)) : list (lbl * A) :=
    match m with
    | [] => []
    | (k', v') :: r => if N.eqb k k' then remove k r else (k', v') :: remove k r
    end.
  Definition has (k : lbl) (m : list (lbl * A)) : bool :=
    match lookup k m with Some _ => true | None => false end.
  Definition keys (m : list (lbl * A)) : list lbl := map fst m.
  (* for k, v := range c { a[k] = v } *)
  Definition merge (a c : list (lbl * A)) : list (lbl * A) :=
    fold_left (fun acc kv => insert (fst kv) (snd kv) acc) c a.
End Maps.

(* ------------------------------------------------------------------ state *)
(* asmLineType *)
Inductive kind := KIns1 | KIns2 | KIns2L | KIns3 | KIns3L | KIns4 | KBase | KDB | KComment | KLabel.

(* asmLine.  [llabel] = label id (label lines and label instructions), comment id (comment lines),
   0 otherwise.  [ldata] = the bytes spelled out in [ins] of a data line ("db $..").  The mnemonic and
   argsFormat strings are cosmetic and not modelled. *)
Record line := mkLine { lk : kind; laddr : Z; lcount : Z; llabel : lbl; ldata : list Z }.

Record em := mkEm {
  flags : Z;                        (* flagsTracker *)
  gen : bool;                       (* generateText *)
  buf : option (list Z);            (* code *)
  n : Z;
  lines : list line;
  base : Z; baseSet : bool; address : Z;
  labels : list (lbl * Z);
  d8 : list (lbl * list Z);         (* danglingS8, references oldest first *)
  d16 : list (lbl * list Z) }.      (* danglingU16 *)

Definition set_flags (v : Z) (e : em) : em :=
  mkEm v (gen e) (buf e) (n e) (lines e) (base e) (baseSet e) (address e) (labels e) (d8 e) (d16 e).
Definition set_buf (v : option (list Z)) (e : em) : em :=
  mkEm (flags e) (gen e) v (n e) (lines e) (base e) (baseSet e) (address e) (labels e) (d8 e) (d16 e).
Definition set_n (v : Z) (e : em) : em :=
  mkEm (flags e) (gen e) (buf e) v (lines e) (base e) (baseSet e) (address e) (labels e) (d8 e) (d16 e).
Definition set_lines (v : list line) (e : em) : em :=
  mkEm (flags e) (gen e) (buf e) (n e) v (base e) (baseSet e) (address e) (labels e) (d8 e) (d16 e).
Definition set_base (v : Z) (e : em) : em :=
  mkEm (flags e) (gen e) (buf e) (n e) (lines e) v (baseSet e) (address e) (labels e) (d8 e) (d16 e).
Definition set_baseSet (v : bool) (e : em) : em :=
  mkEm (flags e) (gen e) (buf e) (n e) (lines e) (base e) v (address e) (labels e) (d8 e) (d16 e).
Definition set_address (v : Z) (e : em) : em :=
  mkEm (flags e) (gen e) (buf e) (n e) (lines e) (base e) (baseSet e) v (labels e) (d8 e) (d16 e).
Definition set_labels (v : list (lbl * Z)) (e : em) : em :=
  mkEm (flags e) (gen e) (buf e) (n e) (lines e) (base e) (baseSet e) (address e) v (d8 e) (d16 e).
Definition set_d8 (v : list (lbl * list Z)) (e : em) : em :=
  mkEm (flags e) (gen e) (buf e) (n e) (lines e) (base e) (baseSet e) (address e) (labels e) v (d16 e).
Definition set_d16 (v : list (lbl * list Z)) (e : em) : em :=
  mkEm (flags e) (gen e) (buf e) (n e) (lines e) (base e) (baseSet e) (address e) (labels e) (d8 e) v.
Definition add_lines (ls : list line) (e : em) : em := set_lines (lines e ++ ls) e.

(* a.code as a slice: nil has length 0 *)
Definition code (e : em) : list Z := match buf e with None => [] | Some b => b end.

(* NewEmitter(target, generateText) *)
Definition new_em (target : option (list Z)) (g : bool) : em :=
  mkEm 0 g target 0 [] 0 false 0 [] [] [].

Inductive outcome := Done (e : em) | Refused (e : em).

(* ------------------------------------------------------------------ accessors *)
Definition Cap (e : em) : Z := zlen (code e).                    (* Cap() = len(a.code) *)
Definition Len (e : em) : Z := n e.                              (* Len() *)
Definition Bytes (e : em) : list Z := ztake (n e) (code e).      (* Bytes() = a.code[0:a.n] *)
Definition PC (e : em) : Z := address e.                         (* PC() *)
Definition GetBase (e : em) : Z := base e.                       (* GetBase() *)
Definition GetLabel (l : lbl) (e : em) : option Z := lookup l (labels e).   (* GetLabel(name) *)
Definition Flags (e : em) : Z := flags e.                        (* flagsTracker.Flags() *)
Definition IsX16bit (e : em) : bool := Z.land (flags e) 16 =? 0. (* flagsTracker.IsX16bit() *)
Definition IsM16bit (e : em) : bool := Z.land (flags e) 32 =? 0. (* flagsTracker.IsM16bit() *)

(* ------------------------------------------------------------------ emission *)
(* write(d): a nil target accepts and counts nothing; otherwise "not enough space" before copying *)
Definition write (d : list Z) (e : em) : option em :=
  match buf e with
  | None => Some e
  | Some b =>
      if zlen b <? n e + zlen d then None
      else Some (set_n (n e + zlen d) (set_buf (Some (splice b (n e) d)) e))
  end.

(* SetBase(addr) *)
Definition SetBase (a : Z) (e : em) : em := set_baseSet true (set_address a (set_base a e)).

(* emitBase() *)
Definition emitBase (e : em) : em :=
  if gen e && baseSet e
  then set_baseSet false (add_lines [mkLine KBase (address e) 0 nolbl []] e)
  else e.

(* AssumeREP(c): t &= ^c      AssumeSEP(c): t |= c *)
Definition AssumeREP (c : Z) (e : em) : em := set_flags (Z.ldiff (flags e) c) e.
Definition AssumeSEP (c : Z) (e : em) : em := set_flags (Z.lor (flags e) c) e.

(* the six emit routines *)
Inductive ikind := E1 | E2 | E2L | E3 | E3L | E4.
Definition ins_len (k : ikind) : Z :=
  match k with E1 => 1 | E2 | E2L => 2 | E3 | E3L => 3 | E4 => 4 end.
Definition ins_kind (k : ikind) : kind :=
  match k with E1 => KIns1 | E2 => KIns2 | E2L => KIns2L | E3 => KIns3 | E3L => KIns3L | E4 => KIns4 end.
Definition is_label_kind (k : ikind) : bool := match k with E2L | E3L => true | _ => false end.

(* addDanglingS8 / addDanglingU16: refs := m[label]; refs = append(refs, r); m[label] = refs *)
Definition add_dangling (m : list (lbl * list Z)) (l : lbl) (r : Z) : list (lbl * list Z) :=
  insert l (match lookup l m with None => [] | Some rs => rs end ++ [r]) m.

(* common shape of emit1 emit2 emit2Label emit3 emit3Label emit4: write, then (listing on) emitBase and
   the line at the current address, then address += size, then (label forms) record address-1 / -2 *)
Definition emitK (k : ikind) (d : list Z) (l : lbl) (e : em) : outcome :=
  match write d e with
  | None => Refused e
  | Some e1 =>
      let e2 := if gen e1
                then (let eb := emitBase e1 in
                      add_lines [mkLine (ins_kind k) (address eb) (ins_len k)
                                        (if is_label_kind k then l else nolbl) []] eb)
                else e1 in
      let e3 := set_address (w32 (address e2 + ins_len k)) e2 in
      Done (match k with
            | E2L => set_d8 (add_dangling (d8 e3) l (w32 (address e3 - 1))) e3
            | E3L => set_d16 (add_dangling (d16 e3) l (w32 (address e3 - 2))) e3
            | _ => e3
            end)
  end.
Definition emit1 (d : list Z) := emitK E1 d nolbl.
Definition emit2 (d : list Z) := emitK E2 d nolbl.
Definition emit2Label (l : lbl) (d : list Z) := emitK E2L d l.
Definition emit3 (d : list Z) := emitK E3 d nolbl.
Definition emit3Label (l : lbl) (d : list Z) := emitK E3L d l.
Definition emit4 (d : list Z) := emitK E4 d nolbl.

(* Comment(s) *)
Definition Comment (id : N) (e : em) : em :=
  if gen e then (let eb := emitBase e in add_lines [mkLine KComment (address eb) 0 id []] eb) else e.

(* Label(name): panics on redefinition; does not call emitBase *)
Definition Label (l : lbl) (e : em) : outcome :=
  match lookup l (labels e) with
  | Some _ => Refused e
  | None =>
      let e1 := set_labels (insert l (address e) (labels e)) e in
      Done (if gen e1 then add_lines [mkLine KLabel (address e1) 0 l []] e1 else e1)
  end.

(* the listing loop of EmitBytes: one record per started 16-byte chunk, every record carrying the
   length of the WHOLE block (blen) as coded today.  [i] index of the next byte, [cur] bytes spelled
   into the string builder since the last flush (non-empty <=> s.Len() > len("db ")), [caddr] =
   cl.address, [acc] = lines appended so far. *)
Fixpoint db_loop (a0 blen i : Z) (cur : list Z) (caddr : Z) (bs : list Z) (acc : list line) : list line :=
  match bs with
  | [] => match cur with [] => acc | _ => acc ++ [mkLine KDB caddr blen nolbl cur] end
  | v :: r =>
      if Z.land i 15 =? 15
      then db_loop a0 blen (i + 1) [] (w32 (a0 + i + 1)) r (acc ++ [mkLine KDB caddr blen nolbl (cur ++ [v])])
      else db_loop a0 blen (i + 1) (cur ++ [v]) caddr r acc
  end.
Definition db_lines (a0 : Z) (bs : list Z) : list line := db_loop a0 (zlen bs) 0 [] a0 bs [].

(* EmitBytes(b): listing lines appended BEFORE write *)
Definition EmitBytes (bs : list Z) (e : em) : outcome :=
  let e1 := if gen e then (let eb := emitBase e in add_lines (db_lines (address eb) bs) eb) else e in
  match write bs e1 with
  | None => Refused e1
  | Some e2 => Done (set_address (w32 (address e2 + zlen bs)) e2)
  end.

(* ------------------------------------------------------------------ operations and histories *)
Inductive track := TNone | TRep (c : Z) | TSep (c : Z).
(* width precondition of the immediate forms: GM8 = "panics if IsM16bit()" (.._imm8_b on A),
   GM16 = "panics if !IsM16bit()", GX8 / GX16 likewise for the index registers *)
Inductive guard := GNone | GM8 | GM16 | GX8 | GX16.
Definition guard_ok (g : guard) (e : em) : bool :=
  match g with
  | GNone => true
  | GM8 => negb (IsM16bit e) | GM16 => IsM16bit e
  | GX8 => negb (IsX16bit e) | GX16 => IsX16bit e
  end.
Definition apply_track (t : track) (e : em) : em :=
  match t with TNone => e | TRep c => AssumeREP c e | TSep c => AssumeSEP c e end.

Inductive op :=
  | OSetBase (a : Z)
  | OAssumeREP (c : Z)
  | OAssumeSEP (c : Z)
  | OIns (k : ikind) (bytes : list Z) (l : lbl) (t : track) (g : guard)
  | OEmitBytes (bs : list Z)
  | OComment (id : N)
  | OLabel (l : lbl).

(* REP(c) / SEP(c): tracker updated BEFORE emit2 *)
Definition OREP (c : Z) : op := OIns E2 [194; c] nolbl (TRep c) GNone.
Definition OSEP (c : Z) : op := OIns E2 [226; c] nolbl (TSep c) GNone.

Definition exec (o : op) (e : em) : outcome :=
  match o with
  | OSetBase a => Done (SetBase a e)
  | OAssumeREP c => Done (AssumeREP c e)
  | OAssumeSEP c => Done (AssumeSEP c e)
  | OIns k d l t g => if guard_ok g e then emitK k d l (apply_track t e) else Refused e
  | OEmitBytes bs => EmitBytes bs e
  | OComment id => Done (Comment id e)
  | OLabel l => Label l e
  end.

(* shape the Go signatures guarantee: [k]byte arguments, byte-valued data, uint8 flags, uint32 base *)
Definition op_wf (o : op) : Prop :=
  match o with
  | OIns k d _ _ _ => zlen d = ins_len k
  | _ => True
  end.

Definition state_of (r : outcome) : em := match r with Done e => e | Refused e => e end.
Definition is_refused (r : outcome) : bool := match r with Done _ => false | Refused _ => true end.

(* run a history; a refused call is recovered from and the history continues on the state it left *)
Fixpoint run (ops : list op) (e : em) : em * list bool :=
  match ops with
  | [] => (e, [])
  | o :: r =>
      let res := exec o e in
      let '(ef, rl) := run r (state_of res) in
      (ef, is_refused res :: rl)
  end.

(* ------------------------------------------------------------------ Finalize *)
Inductive fres :=
  | FOk                                  (* nil *)
  | FUnresolved (l : lbl)                (* "could not resolve label '%s'" *)
  | FTooFar (from to : Z)                (* "branch from %#06x to %#06x too far ..." *)
  | FPanic.                              (* index / slice bounds out of range *)

(* inner loop over the rel8 references of one label *)
Fixpoint patch8 (addr : Z) (refs : list Z) (e : em) : em * fres :=
  match refs with
  | [] => (e, FOk)
  | r :: rs =>
      let diff := addr - w32 (r + 1) in
      if (127 <? diff) || (diff <? -128) then (e, FTooFar (w32 (r + 1)) addr)
      else
        let i := w32 (r - base e) in
        if i <? zlen (code e)
        then patch8 addr rs (set_buf (Some (upd (code e) i (diff mod 256))) e)
        else (e, FPanic)
  end.

(* inner loop over the abs16 references of one label: PutUint16(a.code[x:x+2], uint16(addr)) *)
Fixpoint patch16 (addr : Z) (refs : list Z) (e : em) : em * fres :=
  match refs with
  | [] => (e, FOk)
  | r :: rs =>
      let x := w32 (r - base e) in
      let hi := w32 (x + 2) in
      if (x <=? hi) && (hi <=? zlen (code e))
      then patch16 addr rs (set_buf (Some (splice (code e) x [addr mod 256; (addr / 256) mod 256])) e)
      else (e, FPanic)
  end.

(* first loop: labels of danglingS8 in the visiting order [ord] (labels not in the map are skipped) *)
Fixpoint fin8 (ord : list lbl) (e : em) : em * fres :=
  match ord with
  | [] => (e, FOk)
  | l :: rest =>
      match lookup l (d8 e) with
      | None => fin8 rest e
      | Some refs =>
          match lookup l (labels e) with
          | None => (e, FUnresolved l)
          | Some addr =>
              let '(e1, res) := patch8 addr refs e in
              match res with
              | FOk => fin8 rest (set_d8 (remove l (d8 e1)) e1)
              | _ => (e1, res)
              end
          end
      end
  end.

Fixpoint fin16 (ord : list lbl) (e : em) : em * fres :=
  match ord with
  | [] => (e, FOk)
  | l :: rest =>
      match lookup l (d16 e) with
      | None => fin16 rest e
      | Some refs =>
          match lookup l (labels e) with
          | None => (e, FUnresolved l)
          | Some addr =>
              let '(e1, res) := patch16 addr refs e in
              match res with
              | FOk => fin16 rest (set_d16 (remove l (d16 e1)) e1)
              | _ => (e1, res)
              end
          end
      end
  end.

(* Finalize(): the visiting orders of the two maps are parameters; early return on the first error.
   Go visits every key exactly once: the orders that describe an execution are the permutations of
   [keys (d8 e)] / [keys (d16 e)]. *)
Definition Finalize (ord8 ord16 : list lbl) (e : em) : em * fres :=
  let '(e1, res) := fin8 ord8 e in
  match res with
  | FOk => fin16 ord16 e1
  | _ => (e1, res)
  end.

(* ------------------------------------------------------------------ Clone / Append *)
(* Clone(target) *)
Definition Clone (target : option (list Z)) (a : em) : em :=
  mkEm (flags a) (gen a) target 0 [] (base a) (baseSet a) (address a) (labels a) (d8 a) (d16 a).

(* Append(e).  [copies_base = false] is the code as it stands today (address, baseSet and flags are
   copied, base is not); [copies_base = true] is the code with `a.base = e.base` added.  Which of the
   two the tree under test implements is decided by the tie. *)
Definition Append (copies_base : bool) (a e : em) : outcome :=
  if zlen (code a) <? n a + n e then Refused a
  else Done (mkEm (flags e) (gen a)
                  (match buf a with
                   | None => None
                   | Some b => Some (splice b (n a) (ztake (n e) (code e)))
                   end)
                  (n a + n e)
                  (lines a ++ lines e)
                  (if copies_base then base e else base a) (baseSet e) (address e)
                  (merge (labels a) (labels e))
                  (merge (d8 a) (d8 e))
                  (merge (d16 a) (d16 e))).

(* ------------------------------------------------------------------ listings *)
(* what one record of a listing shows: kind, address shown (0 when the form shows none), bytes shown,
   label / comment id, "undefined label" warning *)
Record rline := mkR { rk : kind; raddr : Z; rbytes : list Z; rlabel : lbl; rwarn : bool }.

(* a.code[offs : offs+cnt] with offs = line.address - a.base in uint32; None = slice bounds panic *)
Definition code_slice (e : em) (la cnt : Z) : option (list Z) :=
  let offs := w32 (la - base e) in
  let hi := w32 (offs + cnt) in
  if (offs <=? hi) && (hi <=? zlen (code e)) then Some (slice (code e) offs hi) else None.

Definition x06 (a : Z) : Z := a mod 16777216.      (* xbuf.X06 prints the low 24 bits *)

(* one iteration of the loop of WriteTextTo *)
Definition text_line (e : em) (ln : line) : option rline :=
  match lk ln with
  | KBase => Some (mkR KBase (x06 (laddr ln)) [] nolbl false)
  | KComment => Some (mkR KComment 0 [] (llabel ln) false)
  | KLabel => Some (mkR KLabel 0 [] (llabel ln) false)
  | KDB => Some (mkR KDB (x06 (laddr ln)) (ldata ln) nolbl false)
  | KIns1 => option_map (fun d => mkR KIns1 (x06 (laddr ln)) d nolbl false) (code_slice e (laddr ln) 1)
  | KIns2 => option_map (fun d => mkR KIns2 (x06 (laddr ln)) d nolbl false) (code_slice e (laddr ln) 2)
  | KIns2L => option_map (fun d => mkR KIns2L (x06 (laddr ln)) d (llabel ln) (has (llabel ln) (d8 e)))
                         (code_slice e (laddr ln) 2)
  | KIns3 => option_map (fun d => mkR KIns3 (x06 (laddr ln)) d nolbl false) (code_slice e (laddr ln) 3)
  | KIns3L => option_map (fun d => mkR KIns3L (x06 (laddr ln)) d (llabel ln) (has (llabel ln) (d16 e)))
                         (code_slice e (laddr ln) 3)
  | KIns4 => option_map (fun d => mkR KIns4 (x06 (laddr ln)) d nolbl false) (code_slice e (laddr ln) 4)
  end.

(* one iteration of the loop of WriteHexTo: instruction and data lines show bytes only *)
Definition hex_line (e : em) (ln : line) : option rline :=
  match lk ln with
  | KBase => Some (mkR KBase (x06 (laddr ln)) [] nolbl false)
  | KComment => Some (mkR KComment 0 [] (llabel ln) false)
  | KLabel => Some (mkR KLabel 0 [] (llabel ln) false)
  | KDB => option_map (fun d => mkR KDB 0 d nolbl false) (code_slice e (laddr ln) (w32 (lcount ln)))
  | KIns1 => option_map (fun d => mkR KIns1 0 d nolbl false) (code_slice e (laddr ln) 1)
  | KIns2 => option_map (fun d => mkR KIns2 0 d nolbl false) (code_slice e (laddr ln) 2)
  | KIns2L => option_map (fun d => mkR KIns2L 0 d (llabel ln) false) (code_slice e (laddr ln) 2)
  | KIns3 => option_map (fun d => mkR KIns3 0 d nolbl false) (code_slice e (laddr ln) 3)
  | KIns3L => option_map (fun d => mkR KIns3L 0 d (llabel ln) false) (code_slice e (laddr ln) 3)
  | KIns4 => option_map (fun d => mkR KIns4 0 d nolbl false) (code_slice e (laddr ln) 4)
  end.

(* the rendering loop: records written before a panic stay written; the bool says "panicked" *)
Fixpoint render_loop (f : line -> option rline) (ls : list line) : list rline * bool :=
  match ls with
  | [] => ([], false)
  | ln :: r =>
      match f ln with
      | None => ([], true)
      | Some x => let '(xs, p) := render_loop f r in (x :: xs, p)
      end
  end.
Definition WriteTextTo (e : em) : list rline * bool := render_loop (text_line e) (lines e).
Definition WriteHexTo (e : em) : list rline * bool := render_loop (hex_line e) (lines e).
