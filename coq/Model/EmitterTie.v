(* Model/EmitterTie.v -- vocabulary of the correspondence cases for Model/Emitter.v (no proofs).
   A case is a script run by harness/emittool.go on the REAL emitter: flat operations on the emitter
   on top of a stack, Clone (push), Append (pop into the one below), Finalize; after every step the
   harness observed Bytes/Len/Cap/PC/Flags/GetBase/IsM16bit/IsX16bit/GetLabel of every name of the top
   emitter and of the one below, and at the end both listings, Finalize, the bytes and both listings
   again.  [check_case] replays the script on the model and returns the list of disagreements. *)
From Coq Require Import ZArith NArith List Bool Uint63.
From Lib Require Import ZList.
From Model Require Import Emitter.
Import ListNotations.
Local Open Scope Z_scope.

(* the target the harness allocates: cap bytes, byte i = (fill + 7 i) mod 256 *)
Definition tgt (cap fill : Z) : option (list Z) :=
  Some (map (fun i => (fill + 7 * i) mod 256) (ziota 0 cap)).

Record obs := mkObs {
  o_bytes : list Z; o_len : Z; o_cap : Z; o_pc : Z; o_flags : Z; o_base : Z;
  o_m16 : bool; o_x16 : bool; o_labels : list (option Z) }.

Inductive sobs := SNone | SSame | SFull (o : obs).
Inductive step := SOp (o : op) | SClone (t : option (list Z)) | SAppend | SFinalize.
Record srec := mkS { s_step : step; s_panic : bool; s_top : obs; s_second : sobs }.
Record final := mkF {
  f_hex1 : list rline * bool; f_text1 : list rline * bool;
  f_res : fres; f_bytes : list Z;
  f_hex2 : list rline * bool; f_text2 : list rline * bool }.
Record case := mkC {
  c_id : Z; c_gen : bool; c_target : option (list Z); c_nl : N; c_steps : list srec; c_final : final }.

(* label ids 0 .. nl-1 *)
Definition label_ids (nl : N) : list lbl := map N.of_nat (seq 0 (N.to_nat nl)).

Definition obs_of (nl : N) (e : em) : obs :=
  mkObs (Bytes e) (Len e) (Cap e) (PC e) (Flags e) (GetBase e) (IsM16bit e) (IsX16bit e)
        (map (fun l => GetLabel l e) (label_ids nl)).

Definition optz_eqb (a b : option Z) : bool :=
  match a, b with Some x, Some y => x =? y | None, None => true | _, _ => false end.
Fixpoint list_eqb_by {A} (f : A -> A -> bool) (a b : list A) : bool :=
  match a, b with
  | [], [] => true
  | x :: a', y :: b' => f x y && list_eqb_by f a' b'
  | _, _ => false
  end.

(* field codes of a disagreement *)
Definition obs_diff (m r : obs) : list Z :=
  (if list_eqb (o_bytes m) (o_bytes r) then [] else [2]) ++
  (if o_len m =? o_len r then [] else [3]) ++
  (if o_cap m =? o_cap r then [] else [4]) ++
  (if o_pc m =? o_pc r then [] else [5]) ++
  (if o_flags m =? o_flags r then [] else [6]) ++
  (if o_base m =? o_base r then [] else [7]) ++
  (if Bool.eqb (o_m16 m) (o_m16 r) then [] else [8]) ++
  (if Bool.eqb (o_x16 m) (o_x16 r) then [] else [9]) ++
  (if list_eqb_by optz_eqb (o_labels m) (o_labels r) then [] else [10]).

Definition kind_code (k : kind) : Z :=
  match k with KIns1 => 0 | KIns2 => 1 | KIns2L => 2 | KIns3 => 3 | KIns3L => 4 | KIns4 => 5
             | KBase => 6 | KDB => 7 | KComment => 8 | KLabel => 9 end.
Definition rline_eqb (a b : rline) : bool :=
  (kind_code (rk a) =? kind_code (rk b)) && (raddr a =? raddr b) && list_eqb (rbytes a) (rbytes b) &&
  N.eqb (rlabel a) (rlabel b) && Bool.eqb (rwarn a) (rwarn b).
Definition render_eqb (a b : list rline * bool) : bool :=
  list_eqb_by rline_eqb (fst a) (fst b) && Bool.eqb (snd a) (snd b).
Definition fres_eqb (a b : fres) : bool :=
  match a, b with
  | FOk, FOk => true
  | FUnresolved x, FUnresolved y => N.eqb x y
  | FTooFar f t, FTooFar f' t' => (f =? f') && (t =? t')
  | FPanic, FPanic => true
  | _, _ => false
  end.

(* the machine: stack of emitters (top first); [prev2] = model's observation of the second emitter
   after the previous step *)
Definition mstep (cb : bool) (s : step) (st : list em) : list em * bool :=
  match s, st with
  | SOp o, e :: r => let res := exec o e in (state_of res :: r, is_refused res)
  | SClone t, e :: r => (Clone t e :: e :: r, false)
  | SAppend, e :: a :: r => let res := Append cb a e in (state_of res :: r, is_refused res)
  | SFinalize, e :: r =>
      let '(e1, res) := Finalize (keys (d8 e)) (keys (d16 e)) e in
      (e1 :: r, negb (fres_eqb res FOk))
  | _, _ => (st, true)
  end.

Fixpoint check_steps (cb : bool) (nl : N) (i : Z) (st : list em) (prev2 : option obs) (rs : list srec)
  : list em * list (Z * Z) :=
  match rs with
  | [] => (st, [])
  | r :: rest =>
      let '(st1, refused) := mstep cb (s_step r) st in
      let top := match st1 with e :: _ => obs_of nl e | [] => obs_of nl (new_em None false) end in
      let sec := match st1 with _ :: a :: _ => Some (obs_of nl a) | _ => None end in
      let d1 := if Bool.eqb refused (s_panic r) then [] else [1] in
      let d2 := obs_diff top (s_top r) in
      let d3 := match s_second r, sec with
                | SNone, None => []
                | SFull o, Some m => match obs_diff m o with [] => [] | _ => [11] end
                | SSame, Some m => match prev2 with
                                   | Some p => match obs_diff m p with [] => [] | _ => [12] end
                                   | None => [13]
                                   end
                | _, _ => [14]
                end in
      let '(stf, ds) := check_steps cb nl (i + 1) st1 sec rest in
      (stf, map (fun c => (i, c)) (d1 ++ d2 ++ d3) ++ ds)
  end.

(* permutations (visiting orders of a Go map) *)
Fixpoint ins_all {A} (x : A) (l : list A) : list (list A) :=
  match l with
  | [] => [[x]]
  | y :: r => (x :: l) :: map (cons y) (ins_all x r)
  end.
Fixpoint perms {A} (l : list A) : list (list A) :=
  match l with
  | [] => [[]]
  | x :: r => flat_map (ins_all x) (perms r)
  end.
Fixpoint exists_sc {A} (f : A -> bool) (l : list A) : bool :=
  match l with [] => false | x :: r => if f x then true else exists_sc f r end.

Definition final_ok (f : final) (e : em) (o8 o16 : list lbl) : bool :=
  let '(e1, res) := Finalize o8 o16 e in
  if fres_eqb res (f_res f) then
    list_eqb (Bytes e1) (f_bytes f) && render_eqb (WriteHexTo e1) (f_hex2 f) && render_eqb (WriteTextTo e1) (f_text2 f)
  else false.

(* Finalize iterates Go maps: the case agrees when SOME pair of visiting orders reproduces the observed
   result, bytes and listings (sorted order first; all permutations when there are at most 5 labels in
   each map, i.e. at most 120 x 120 orders, evaluated lazily) *)
Definition check_final (f : final) (e : em) : list (Z * Z) :=
  (if render_eqb (WriteHexTo e) (f_hex1 f) then [] else [(-1, 20)]) ++
  (if render_eqb (WriteTextTo e) (f_text1 f) then [] else [(-1, 21)]) ++
  (let k8 := keys (d8 e) in let k16 := keys (d16 e) in
   if final_ok f e k8 k16 then []
   else if (Nat.leb (length k8) 5 && Nat.leb (length k16) 5)%bool
        then (if exists_sc (fun o8 => exists_sc (fun o16 => final_ok f e o8 o16) (perms k16)) (perms k8)
              then [] else [(-1, 22)])
        else [(-1, 23)]).

Definition check_case (cb : bool) (c : case) : list (Z * Z) :=
  let '(st, ds) := check_steps cb (c_nl c) 0 [new_em (c_target c) (c_gen c)] None (c_steps c) in
  ds ++ match st with e :: _ => check_final (c_final c) e | [] => [(-1, 30)] end.

Definition bad_cases (cb : bool) (cs : list case) : list (Z * list (Z * Z)) :=
  filter (fun x => match snd x with [] => false | _ => true end)
         (map (fun c => (c_id c, check_case cb c)) cs).
(* ------------------------------------------------------------------ wire format
   Elaborating cases written as Gallina terms costs ~30 us and several KB of memory per node; a case is
   therefore shipped as a flat list of primitive 63-bit integers (one token per scalar or byte) and
   rebuilt here by a deserialiser that runs inside vm_compute.  A token stream that does not parse
   counts as a disagreement (code 99).  checks/emitter.py holds the serialiser. *)
Definition P (A : Type) : Type := list Z -> option (A * list Z).
Definition pret {A} (a : A) : P A := fun s => Some (a, s).
Definition pfail {A} : P A := fun _ => None.
Definition pbind {A B} (p : P A) (f : A -> P B) : P B :=
  fun s => match p s with Some (a, s') => f a s' | None => None end.
Notation "x <- p ;; q" := (pbind p (fun x => q)) (at level 61, p at next level, right associativity).
Definition ptok : P Z := fun s => match s with t :: r => Some (t, r) | [] => None end.
Fixpoint pmany {A} (p : P A) (n : nat) : P (list A) :=
  match n with
  | O => pret []
  | S m => x <- p ;; xs <- pmany p m ;; pret (x :: xs)
  end.
Definition plist {A} (p : P A) : P (list A) := n <- ptok ;; pmany p (Z.to_nat n).
Definition pbool : P bool := t <- ptok ;; pret (negb (t =? 0)).
Definition pN : P N := t <- ptok ;; pret (Z.to_N t).
Definition popt : P (option Z) := t <- ptok ;; pret (if t =? 0 then None else Some (t - 1)).
Definition pbytes : P (list Z) := plist ptok.
Definition ptarget : P (option (list Z)) :=
  t <- ptok ;; if t =? 0 then pret None else (cap <- ptok ;; fill <- ptok ;; pret (tgt cap fill)).
Definition pikind : P ikind :=
  t <- ptok ;;
  if t =? 0 then pret E1 else if t =? 1 then pret E2 else if t =? 2 then pret E2L else
  if t =? 3 then pret E3 else if t =? 4 then pret E3L else if t =? 5 then pret E4 else pfail.
Definition pkind : P kind :=
  t <- ptok ;;
  if t =? 0 then pret KIns1 else if t =? 1 then pret KIns2 else if t =? 2 then pret KIns2L else
  if t =? 3 then pret KIns3 else if t =? 4 then pret KIns3L else if t =? 5 then pret KIns4 else
  if t =? 6 then pret KBase else if t =? 7 then pret KDB else if t =? 8 then pret KComment else
  if t =? 9 then pret KLabel else pfail.
Definition ptrack : P track :=
  t <- ptok ;;
  if t =? 0 then pret TNone else if t =? 1 then (c <- ptok ;; pret (TRep c))
  else if t =? 2 then (c <- ptok ;; pret (TSep c)) else pfail.
Definition pguard : P guard :=
  t <- ptok ;;
  if t =? 0 then pret GNone else if t =? 1 then pret GM8 else if t =? 2 then pret GM16 else
  if t =? 3 then pret GX8 else if t =? 4 then pret GX16 else pfail.
Definition pop : P op :=
  t <- ptok ;;
  if t =? 0 then (a <- ptok ;; pret (OSetBase a))
  else if t =? 1 then (c <- ptok ;; pret (OAssumeREP c))
  else if t =? 2 then (c <- ptok ;; pret (OAssumeSEP c))
  else if t =? 3 then (k <- pikind ;; d <- pbytes ;; l <- pN ;; tr <- ptrack ;; g <- pguard ;; pret (OIns k d l tr g))
  else if t =? 4 then (d <- pbytes ;; pret (OEmitBytes d))
  else if t =? 5 then (i <- pN ;; pret (OComment i))
  else if t =? 6 then (l <- pN ;; pret (OLabel l))
  else pfail.
Definition pstep : P step :=
  t <- ptok ;;
  if t =? 0 then (o <- pop ;; pret (SOp o))
  else if t =? 1 then (tg <- ptarget ;; pret (SClone tg))
  else if t =? 2 then pret SAppend
  else if t =? 3 then pret SFinalize
  else pfail.
Definition pobs : P obs :=
  b <- pbytes ;; ln <- ptok ;; cp <- ptok ;; pc <- ptok ;; fl <- ptok ;; ba <- ptok ;;
  m <- pbool ;; x <- pbool ;; ls <- plist popt ;; pret (mkObs b ln cp pc fl ba m x ls).
Definition psobs : P sobs :=
  t <- ptok ;;
  if t =? 0 then pret SNone else if t =? 1 then pret SSame
  else if t =? 2 then (o <- pobs ;; pret (SFull o)) else pfail.
Definition with_bytes (b : list Z) (o : obs) : obs :=
  mkObs b (o_len o) (o_cap o) (o_pc o) (o_flags o) (o_base o) (o_m16 o) (o_x16 o) (o_labels o).
(* the Bytes() of the top emitter are shipped as a difference to those of the previous record (the first
   [keep] bytes of those, then the bytes given) and re-assembled here *)
Fixpoint psrecs (n : nat) (prevb : list Z) : P (list srec) :=
  match n with
  | O => pret []
  | S m =>
      st <- pstep ;; pn <- pbool ;; kp <- ptok ;; o <- pobs ;; s2 <- psobs ;;
      let b := ztake kp prevb ++ o_bytes o in
      rest <- psrecs m b ;; pret (mkS st pn (with_bytes b o) s2 :: rest)
  end.
Definition prline : P rline :=
  k <- pkind ;; a <- ptok ;; b <- pbytes ;; l <- pN ;; w <- pbool ;; pret (mkR k a b l w).
Definition prender : P (list rline * bool) := ls <- plist prline ;; pn <- pbool ;; pret (ls, pn).
Definition pfres : P fres :=
  t <- ptok ;;
  if t =? 0 then pret FOk else if t =? 1 then (l <- pN ;; pret (FUnresolved l))
  else if t =? 2 then (f <- ptok ;; to <- ptok ;; pret (FTooFar f to))
  else if t =? 3 then pret FPanic else pfail.
Definition pfinal : P final :=
  h1 <- prender ;; t1 <- prender ;; r <- pfres ;; b <- pbytes ;; h2 <- prender ;; t2 <- prender ;;
  pret (mkF h1 t1 r b h2 t2).
Definition pcase : P case :=
  i <- ptok ;; g <- pbool ;; tg <- ptarget ;; nl <- pN ;; ns <- ptok ;; ss <- psrecs (Z.to_nat ns) [] ;; f <- pfinal ;;
  pret (mkC i g tg nl ss f).

Definition decode_case (ts : list int) : option case :=
  match pcase (map Uint63.to_Z ts) with
  | Some (c, []) => Some c
  | _ => None
  end.

Definition bad_encoded (cb : bool) (css : list (list int)) : list (Z * list (Z * Z)) :=
  filter (fun x => match snd x with [] => false | _ => true end)
         (map (fun ts => match decode_case ts with
                         | Some c => (c_id c, check_case cb c)
                         | None => (match ts with t :: _ => Uint63.to_Z t | [] => -1 end, [(-1, 99)])
                         end) css).
