(* Hand-written executable model of ROM.BusReader / ROM.BusWriter (rom.go), routine for routine.
   No proofs here; theorems are in Props/RomProps.v, the tie to the compiled code is re-checked on
   every run (build/work/Run/Cases_C10*.v).

   Go                                   model
   ----------------------------------   -------------------------------------------------------------
   ROM.Contents ([]byte, len = cap)     image = list Z (bytes)
   busAddr uint32                       Z, 0 <= addr < 2^32 (then none of the uint32 operations wraps)
   alwaysError                          RErr / WErr
   bytes.NewReader(Contents[s:e])       RWin s e i : a view of the *live* image (the slice aliases
                                        Contents), i = bytes.Reader's read index
   bytes.Reader.Read(p), len p = k      read: (0, EOF) iff i >= e - s (even for k = 0); otherwise
                                        n = copy(p, s[i:]) = min k (e-s-i), err = nil (so (0, nil) for
                                        k = 0 while bytes remain)
   busWriter{r,busAddr,start,end,o}     WWin s e o
   busWriter.Write                      write: the guard `len(p) > int(w.end-(w.start+w.o))` (the code
                                        as repaired for C10), then copy into Contents[o+start:end]
   slice expression out of range        Panic (Contents[s:e] needs 0 <= s <= e <= cap)
*)
From Coq Require Import ZArith List Bool.
From Lib Require Import ZList.
Import ListNotations.
Local Open Scope Z_scope.

Definition image := list Z.

Inductive err := ENil | EEOF | EUnexpectedEOF.

Definition err_eqb (a b : err) : bool :=
  match a, b with ENil, ENil | EEOF, EEOF | EUnexpectedEOF, EUnexpectedEOF => true | _, _ => false end.

Inductive res (A : Type) := Ok (a : A) | Panic.
Arguments Ok {A} a.
Arguments Panic {A}.

Definition u32 (x : Z) : Z := x mod 4294967296.

(* page := busAddr & 0xFFFF ; bank := busAddr >> 16 *)
Definition page (addr : Z) : Z := Z.land addr 65535.
Definition bank (addr : Z) : Z := Z.shiftr addr 16.
(* pcStart := (bank << 15) | (page - 0x8000) ; pcEnd := (bank << 15) | 0x7FFF *)
Definition pc_start (addr : Z) : Z := Z.lor (u32 (Z.shiftl (bank addr) 15)) (u32 (page addr - 32768)).
Definition pc_end (addr : Z) : Z := Z.lor (u32 (Z.shiftl (bank addr) 15)) 32767.

Inductive reader := RErr | RWin (s e i : Z).
Inductive writer := WErr | WWin (s e o : Z).

(* func (r *ROM) BusReader(busAddr uint32) io.Reader *)
Definition bus_reader (img : image) (addr : Z) : res reader :=
  if page addr <? 32768 then Ok RErr
  else
    let s := pc_start addr in
    let e := pc_end addr in
    if (s <=? e) && (e <=? zlen img) then Ok (RWin s e 0) else Panic.

(* io.Reader.Read(p) with len(p) = k: the bytes stored into p[:n], the error, the reader afterwards.
   The image is an argument: the reader's slice aliases ROM.Contents, so it sees later writes. *)
Definition read (img : image) (r : reader) (k : Z) : (list Z * err) * reader :=
  match r with
  | RErr => (([], EUnexpectedEOF), RErr)
  | RWin s e i =>
      if e - s <=? i then (([], EEOF), r)
      else
        let n := Z.min k (e - s - i) in
        ((slice img (s + i) (s + i + n), ENil), RWin s e (i + n))
  end.

(* func (r *ROM) BusWriter(busAddr uint32) io.Writer   (no slicing here: cannot panic) *)
Definition bus_writer (addr : Z) : writer :=
  if page addr <? 32768 then WErr else WWin (pc_start addr) (pc_end addr) 0.

(* func (w *busWriter) Write(p []byte) (n int, err error) *)
Definition write (img : image) (w : writer) (p : list Z) : res (((Z * err) * image) * writer) :=
  match w with
  | WErr => Ok (((0, EUnexpectedEOF), img), WErr)
  | WWin s e o =>
      let space := u32 (e - u32 (s + o)) in
      if space <? zlen p then Ok (((0, EUnexpectedEOF), img), w)
      else
        let a := u32 (o + s) in
        if (a <=? e) && (e <=? zlen img) then
          let n := Z.min (zlen p) (e - a) in                     (* n = copy(Contents[a:e], p) *)
          Ok (((n, ENil), splice img a (ztake n p)), WWin s e (u32 (o + n)))
        else Panic
  end.

(* ---- sequences of calls on one handle (what the theorems quantify over) ---- *)
Fixpoint reads (img : image) (r : reader) (ks : list Z) : list (list Z * err) :=
  match ks with
  | [] => []
  | k :: ks' => let '(o, r') := read img r k in o :: reads img r' ks'
  end.

Fixpoint reader_after (img : image) (r : reader) (ks : list Z) : reader :=
  match ks with
  | [] => r
  | k :: ks' => reader_after img (snd (read img r k)) ks'
  end.

(* all the writes of a history; Panic as soon as one call panics *)
Fixpoint writes (img : image) (w : writer) (ps : list (list Z)) : res ((list (Z * err) * image) * writer) :=
  match ps with
  | [] => Ok (([], img), w)
  | p :: ps' =>
      match write img w p with
      | Panic => Panic
      | Ok (((o, img'), w')) =>
          match writes img' w' ps' with
          | Panic => Panic
          | Ok ((os, img''), w'') => Ok ((o :: os, img''), w'')
          end
      end
  end.

(* ---- mixed histories over several live handles on one image (used by the correspondence) ---- *)
Inductive op :=
| OpNewR (addr : Z)
| OpNewW (addr : Z)
| OpRead (h : nat) (k : Z)
| OpWrite (h : nat) (p : list Z).

Inductive obs :=
| ObsNew
| ObsPanic
| ObsRead (bs : list Z) (e : err)
| ObsWrite (n : Z) (e : err).

Record state := mkState { st_img : image; st_rs : list reader; st_ws : list writer }.

Fixpoint set_nth {A} (n : nat) (x : A) (l : list A) : list A :=
  match n, l with
  | O, _ :: r => x :: r
  | S m, y :: r => y :: set_nth m x r
  | _, [] => []
  end.

(* a creation that panics registers an always-error handle, so that handle numbers stay aligned
   with the harness (which does the same after recover()) *)
Definition step (st : state) (o : op) : state * obs :=
  match o with
  | OpNewR addr =>
      match bus_reader (st_img st) addr with
      | Ok r => (mkState (st_img st) (st_rs st ++ [r]) (st_ws st), ObsNew)
      | Panic => (mkState (st_img st) (st_rs st ++ [RErr]) (st_ws st), ObsPanic)
      end
  | OpNewW addr => (mkState (st_img st) (st_rs st) (st_ws st ++ [bus_writer addr]), ObsNew)
  | OpRead h k =>
      let r := nth h (st_rs st) RErr in
      let '((bs, e), r') := read (st_img st) r k in
      (mkState (st_img st) (set_nth h r' (st_rs st)) (st_ws st), ObsRead bs e)
  | OpWrite h p =>
      let w := nth h (st_ws st) WErr in
      match write (st_img st) w p with
      | Panic => (st, ObsPanic)
      | Ok (((n, e), img'), w') => (mkState img' (st_rs st) (set_nth h w' (st_ws st)), ObsWrite n e)
      end
  end.

Fixpoint run (st : state) (ops : list op) : state * list obs :=
  match ops with
  | [] => (st, [])
  | o :: ops' =>
      let '(st', ob) := step st o in
      let '(st'', obs') := run st' ops' in
      (st'', ob :: obs')
  end.

Definition obs_eqb (a b : obs) : bool :=
  match a, b with
  | ObsNew, ObsNew => true
  | ObsPanic, ObsPanic => true
  | ObsRead x e, ObsRead y f => list_eqb x y && err_eqb e f
  | ObsWrite n e, ObsWrite m f => (n =? m) && err_eqb e f
  | _, _ => false
  end.

Fixpoint obs_list_eqb (a b : list obs) : bool :=
  match a, b with
  | [], [] => true
  | x :: a', y :: b' => obs_eqb x y && obs_list_eqb a' b'
  | _, _ => false
  end.

(* ---- specification side: a stream of bytes, written independently of images and offsets ---- *)
(* io.Reader over a fixed byte string w (what remains): EOF exactly when nothing remains *)
Fixpoint stream_reads (w : list Z) (ks : list Z) : list (list Z * err) :=
  match ks with
  | [] => []
  | k :: ks' =>
      match w with
      | [] => ([], EEOF) :: stream_reads [] ks'
      | _ => (ztake k w, ENil) :: stream_reads (zdrop k w) ks'
      end
  end.

(* io.Writer into a window with [cap] bytes of room: a payload is stored whole or refused whole *)
Fixpoint stream_writes (cap : Z) (ps : list (list Z)) : list (Z * err) * list Z :=
  match ps with
  | [] => ([], [])
  | p :: ps' =>
      if cap <? zlen p then
        let '(os, d) := stream_writes cap ps' in ((0, EUnexpectedEOF) :: os, d)
      else
        let '(os, d) := stream_writes (cap - zlen p) ps' in ((zlen p, ENil) :: os, p ++ d)
  end.

(* image used by the correspondence cases: byte i of the image generated from [seed] (same function
   in harness/romtool.go) *)
Definition fill (seed i : Z) : Z := Z.land (Z.lxor (Z.lxor i (Z.shiftr i 8)) (Z.shiftr i 13) + seed) 255.
Definition mkimg (seed a n : Z) : list Z := map (fill seed) (ziota a n).

(* the observed final image is shipped as the runs that differ from the initial one *)
Fixpoint apply_runs (img : image) (runs : list (Z * list Z)) : image :=
  match runs with
  | [] => img
  | (a, p) :: r => apply_runs (splice img a p) r
  end.
