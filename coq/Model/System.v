(* C11: the memory map of emulator.System, as CreateEmulator (emulator/system.go) builds it.

   Hand-written, structured loop nest for loop nest like the Go function; tied to the compiled code
   on every run by probing the REAL System at all 2^24 addresses (checks/system.py, Run/Dig_C11.v).
   Definitions only (executable, total); the lemmas are in Props/SystemProps.v.

   Go side being modelled:
     Bus.Attach(mem, name, start, end)   segment[x] = mem for start>>4 <= x <= end>>4 (16-byte segments,
                                         start and end+1 must be 16-aligned or Attach returns an error and
                                         CreateEmulator returns at once); later Attach calls overwrite.
     Bus.EaRead(a) / EaWrite(a, v)       segment[a>>4] == nil -> panic, else mem.Read(a) / mem.Write(a, v)
     memory.RAM{data, offset}.Read(a)    data[a - offset]      (uint32 subtraction; index out of range panics)
     memory.FakeHW                       private state, never one of the System arrays
   All numbers are primitive 63-bit integers holding Go uint32 values. *)
From Coq Require Import Uint63 List Bool.
From Lib Require Import U63Ops Digest.
Import ListNotations.
Local Open Scope uint63_scope.

(* ---- backing arrays of the System struct ---- *)
Inductive cls := ROM | SRAM | WRAM.

Definition cls_eqb (a b : cls) : bool :=
  match a, b with ROM, ROM | SRAM, SRAM | WRAM, WRAM => true | _, _ => false end.

(* ROM [0x1000000]byte, WRAM [0x20000]byte, SRAM [0x10000]byte *)
Definition arr_len (c : cls) : int :=
  match c with ROM => 0x1000000 | SRAM => 0x10000 | WRAM => 0x20000 end.

(* ---- devices and Attach records ---- *)
(* DevRam c lo len off  =  memory.NewRAM(s.<c>[lo : lo+len], off) ;  DevIO = the FakeHW instance *)
Inductive device :=
| DevRam (c : cls) (lo len off : int)
| DevIO.

Record attach := mkAttach { a_dev : device; a_start : int; a_end : int }.

(* what a bus access at an address reaches *)
Inductive cell :=
| CNone                         (* nothing usable: the access panics (nil segment / index out of range) *)
| CIO                           (* the FakeHW device: not part of ROM/SRAM/WRAM *)
| CCell (c : cls) (o : int).    (* byte o of array c *)

Definition covers (x : attach) (a : int) : bool := (a_start x <=? a) && (a <=? a_end x).

(* RAM.Read / RAM.Write index: data[address - offset] inside the slice [lo, lo+len) of the array *)
Definition dev_cell (d : device) (a : int) : cell :=
  match d with
  | DevIO => CIO
  | DevRam c lo len off =>
      let i := sub32 a off in
      if i <? len then CCell c (lo + i) else CNone
  end.

(* the Attach that owns an address after the whole list was attached in order: the last one covering it *)
Definition winner (l : list attach) (a : int) : option attach :=
  fold_left (fun acc x => if covers x a then Some x else acc) l None.

Definition cell_at (w : option attach) (a : int) : cell :=
  match w with None => CNone | Some x => dev_cell (a_dev x) a end.

Definition resolve_in (l : list attach) (a : int) : cell := cell_at (winner l a) a.

(* ---- CreateEmulator ---- *)
(* for b := uint32(lo); b < hi; b++   (lo, hi <= 256) *)
Definition loop (lo hi : int) : list int := filter (fun b => (lo <=? b) && (b <? hi)) (iota 256 0).

Definition ram (c : cls) (lo hi off start end_ : int) : attach :=
  mkAttach (DevRam c lo (hi - lo) off) start end_.

(* map in ROM to Bus *)
Definition rom_attaches : list attach :=
  flat_map (fun b =>
    let halfBank := b << 15 in
    let bank := b << 16 in
    [ ram ROM halfBank (halfBank + 0x8000) (bank lor 0x8000) (bank lor 0x8000) (bank lor 0xFFFF);
      (* mirror *)
      ram ROM halfBank (halfBank + 0x8000) ((bank + 0x800000) lor 0x8000)
          ((bank + 0x800000) lor 0x8000) ((bank + 0x800000) lor 0xFFFF) ])
    (loop 0 0x40).

(* SRAM: b < len(s.SRAM)>>15 *)
Definition sram_attaches : list attach :=
  flat_map (fun b =>
    let bank := b << 16 in
    let halfBank := b << 15 in
    [ ram SRAM halfBank (halfBank + 0x8000) (bank + 0x700000) (bank + 0x700000) (bank + 0x707FFF);
      (* mirror *)
      ram SRAM halfBank (halfBank + 0x8000) (bank + 0xF00000) (bank + 0xF00000) (bank + 0xF07FFF) ])
    (loop 0 (arr_len SRAM >> 15)).

(* WRAM, then its first $2000 bytes in banks $00-$3F and $80-$BF *)
Definition wram_attaches : list attach :=
  ram WRAM 0 0x20000 0x7E0000 0x7E0000 0x7FFFFF
  :: map (fun b => let bank := b << 16 in ram WRAM 0 0x2000 bank bank (bank lor 0x1FFF)) (loop 0 0x40)
  ++ map (fun b => let bank := b << 16 in ram WRAM 0 0x2000 bank bank (bank lor 0x1FFF)) (loop 0x80 0xC0).

(* memory-mapped I/O registers *)
Definition hwio_attaches : list attach :=
  flat_map (fun b =>
    let bank := b << 16 in
    let bank' := (b + 0x80) << 16 in
    [ mkAttach DevIO (bank lor 0x2000) (bank lor 0x7FFF);
      mkAttach DevIO (bank' lor 0x2000) (bank' lor 0x7FFF) ])
    (loop 0 0x70).

Definition attaches : list attach :=
  Eval vm_compute in rom_attaches ++ sram_attaches ++ wram_attaches ++ hwio_attaches.

(* the memory map of the System *)
Definition resolve (a : int) : cell := resolve_in attaches a.

(* ---- closed well-formedness facts about the list (checked by computation in SystemProps) ---- *)
(* Attach succeeds (16-byte alignment), stays inside the 2^20-entry segment table, and the slice
   expression s.<c>[lo:lo+len] is within the array (otherwise CreateEmulator itself would panic) *)
Definition attach_ok (x : attach) : bool :=
  ((a_start x) land 15 =? 0) && (((a_end x) + 1) land 15 =? 0) &&
  (a_start x <=? a_end x) && (a_end x <? 16777216) &&
  match a_dev x with
  | DevIO => true
  | DevRam c lo len off => (lo + len <=? arr_len c) && (lo <=? lo + len)
  end.

(* every range consists of whole 8 KiB pages *)
Definition page_aligned (x : attach) : bool :=
  ((a_start x) land 8191 =? 0) && (((a_end x) + 1) land 8191 =? 0) &&
  (a_start x <=? a_end x) && (a_end x <? 16777216).

(* ---- page table: one owner per 8 KiB page, in a balanced tree (lookup: 11 comparisons) ---- *)
Inductive tree (A : Type) := Leaf (x : A) | Node (l r : tree A).
Arguments Leaf {A} x.
Arguments Node {A} l r.

Fixpoint build {A : Type} (k : nat) (base sz : int) (f : int -> A) : tree A :=
  match k with
  | O => Leaf (f base)
  | S k' => let h := sz >> 1 in Node (build k' base h f) (build k' (base + h) h f)
  end.

Fixpoint lookup {A : Type} (k : nat) (base sz : int) (t : tree A) (i : int) (d : A) : A :=
  match k, t with
  | O, Leaf x => x
  | S k', Node l r =>
      let h := sz >> 1 in
      if i <? base + h then lookup k' base h l i d else lookup k' (base + h) h r i d
  | _, _ => d
  end.

Definition page_owner (l : list attach) (k : int) : option attach := winner l (k << 13).

Definition ptab : tree (option attach) := Eval vm_compute in build 11 0 2048 (page_owner attaches).

Definition resolve_fast (a : int) : cell := cell_at (lookup 11 0 2048 ptab (a >> 13) None) a.

(* ---- contents and accesses ---- *)
(* contents of the three arrays: class, index -> byte *)
Definition store := cls -> int -> int.

Definition upd (st : store) (c : cls) (o v : int) : store :=
  fun c' o' => if cls_eqb c c' && (o =? o') then v else st c' o'.

Inductive rd := RPanic | RIO | RByte (v : int).

(* Bus.EaRead on a System whose arrays hold st *)
Definition bus_read (st : store) (a : int) : rd :=
  match winner attaches a with
  | None => RPanic
  | Some x =>
      match a_dev x with
      | DevIO => RIO
      | DevRam c lo len off => let i := sub32 a off in if i <? len then RByte (st c (lo + i)) else RPanic
      end
  end.

(* Bus.EaWrite: the arrays afterwards (None: the call panics, nothing was written) *)
Definition bus_write (st : store) (a v : int) : option store :=
  match winner attaches a with
  | None => None
  | Some x =>
      match a_dev x with
      | DevIO => Some st
      | DevRam c lo len off => let i := sub32 a off in if i <? len then Some (upd st c (lo + i) v) else None
      end
  end.

(* ---- encoding of a cell for the per-bank digests of the tie (same numbers in harness/systool.go) ---- *)
Definition cls_code (c : cls) : int := match c with ROM => 1 | SRAM => 2 | WRAM => 3 end.
Definition enc_cell (x : cell) : int :=
  match x with CNone => 0 | CIO => 1 | CCell c o => (cls_code c << 28) + o end.
