(* Model/EmitterExt.v -- the two listing routines of asm/emitter.go that C15 is about, with the
   two known defects as boolean switches, and the correspondence vocabulary that goes with them
   (no proofs; theorems in Props/FinalizeProps.v and Props/ListingProps.v).

   Model/Emitter.v models the code as it stands on the pinned tree:
     - EmitBytes: every 16-byte chunk record carries the byteCount of the WHOLE block;
     - Label: the one line-producing call that does not flush the `base` latch (emitBase).
   Here both are parameters ([fixes]):
     chunk_own   = true : every chunk record carries its own length   (fixes/emit2-1.patch)
     label_flush = true : Label calls emitBase() when listing is on    (fixes/emit2-2.patch)
   [today] = both false is definitionally the model of Model/Emitter.v (Props: [execX_today]);
   which of the four variants the tree under test implements is decided on every run by the tie
   (checks/emitter2.py) on discriminating histories. *)
From Coq Require Import ZArith NArith List Bool.
From Lib Require Import ZList.
From Model Require Import Emitter EmitterTie.
Import ListNotations.
Local Open Scope Z_scope.

Record fixes := mkFix { chunk_own : bool; label_flush : bool }.
Definition today : fixes := mkFix false false.
Definition repaired : fixes := mkFix true true.

(* the listing loop of EmitBytes (cf. Emitter.db_loop); [own]: cl.byteCount counts the bytes spelled
   into the current record instead of being the length of the block *)
Fixpoint db_loopX (own : bool) (a0 blen i : Z) (cur : list Z) (caddr : Z) (bs : list Z) (acc : list line)
  : list line :=
  match bs with
  | [] => match cur with
          | [] => acc
          | _ => acc ++ [mkLine KDB caddr (if own then zlen cur else blen) nolbl cur]
          end
  | v :: r =>
      if Z.land i 15 =? 15
      then db_loopX own a0 blen (i + 1) [] (w32 (a0 + i + 1)) r
             (acc ++ [mkLine KDB caddr (if own then zlen (cur ++ [v]) else blen) nolbl (cur ++ [v])])
      else db_loopX own a0 blen (i + 1) (cur ++ [v]) caddr r acc
  end.
Definition db_linesX (own : bool) (a0 : Z) (bs : list Z) : list line :=
  db_loopX own a0 (zlen bs) 0 [] a0 bs [].

(* EmitBytes(b) *)
Definition EmitBytesX (fx : fixes) (bs : list Z) (e : em) : outcome :=
  let e1 := if gen e
            then (let eb := emitBase e in add_lines (db_linesX (chunk_own fx) (address eb) bs) eb)
            else e in
  match write bs e1 with
  | None => Refused e1
  | Some e2 => Done (set_address (w32 (address e2 + zlen bs)) e2)
  end.

(* Label(name) *)
Definition LabelX (fx : fixes) (l : lbl) (e : em) : outcome :=
  match lookup l (labels e) with
  | Some _ => Refused e
  | None =>
      let e1 := set_labels (insert l (address e) (labels e)) e in
      Done (if gen e1
            then (let eb := if label_flush fx then emitBase e1 else e1 in
                  add_lines [mkLine KLabel (address eb) 0 l []] eb)
            else e1)
  end.

Definition execX (fx : fixes) (o : op) (e : em) : outcome :=
  match o with
  | OEmitBytes bs => EmitBytesX fx bs e
  | OLabel l => LabelX fx l e
  | _ => exec o e
  end.

Fixpoint runX (fx : fixes) (ops : list op) (e : em) : em * list bool :=
  match ops with
  | [] => (e, [])
  | o :: r =>
      let res := execX fx o e in
      let '(ef, rl) := runX fx r (state_of res) in
      (ef, is_refused res :: rl)
  end.

(* the calls of a history that were accepted (not refused), in order *)
Fixpoint accepted (ops : list op) (refused : list bool) : list op :=
  match ops, refused with
  | o :: r, b :: rb => if b then accepted r rb else o :: accepted r rb
  | _, _ => []
  end.

(* ------------------------------------------------------------------ correspondence (cf. EmitterTie) *)
Definition mstepX (cb : bool) (fx : fixes) (s : step) (st : list em) : list em * bool :=
  match s, st with
  | SOp o, e :: r => let res := execX fx o e in (state_of res :: r, is_refused res)
  | _, _ => mstep cb s st
  end.

Fixpoint check_stepsX (cb : bool) (fx : fixes) (nl : N) (i : Z) (st : list em) (prev2 : option obs)
  (rs : list srec) : list em * list (Z * Z) :=
  match rs with
  | [] => (st, [])
  | r :: rest =>
      let '(st1, refused) := mstepX cb fx (s_step r) st in
      let top := match st1 with e :: _ => obs_of nl e | [] => obs_of nl (new_em None false) end in
      let sec := match st1 with _ :: a :: _ => Some (obs_of nl a) | _ => None end in
      let d1 := if Bool.eqb refused (s_panic r) then [] else [1] in
      let d2 := obs_diff top (s_top r) in
      let d3 := match s_second r, sec with
                | SNone, None => []
                | SFull o, Some m => match obs_diff m o with [] => [] | _ => [11] end
                | SSame, Some m => match prev2 with
                                   | Some p => match obs_diff m p with [] => [] | _ => [12] end
                                   | None => [13]
                                   end
                | _, _ => [14]
                end in
      let '(stf, ds) := check_stepsX cb fx nl (i + 1) st1 sec rest in
      (stf, map (fun c => (i, c)) (d1 ++ d2 ++ d3) ++ ds)
  end.

(* Finalize iterates Go maps.  Instead of trying every permutation (EmitterTie.check_final: at most 5 labels per
   map), the visiting orders that can explain an observation are read off the observed bytes: labels whose
   operands all show their resolved value were visited before the failing label (or might as well have been),
   then ONE of the labels that cannot be resolved, then the rest.  At most one candidate per unresolvable label. *)
(* observed byte at a buffer offset; -1 outside (never [Z.to_nat] of an offset that wrapped around 2^32) *)
Definition obs_at (obs : list Z) (i : Z) : Z := if (0 <=? i) && (i <? zlen obs) then znth obs i else -1.
Definition good8 (e : em) (l : lbl) : bool :=
  match lookup l (labels e), lookup l (d8 e) with
  | Some a, Some refs => forallb (fun r => let d := a - w32 (r + 1) in (-128 <=? d) && (d <=? 127)) refs
  | _, _ => false
  end.
Definition shown8 (e : em) (obs : list Z) (l : lbl) : bool :=
  good8 e l &&
  match lookup l (labels e), lookup l (d8 e) with
  | Some a, Some refs => forallb (fun r => obs_at obs (w32 (r - base e)) =? (a - w32 (r + 1)) mod 256) refs
  | _, _ => false
  end.
Definition good16 (e : em) (l : lbl) : bool :=
  match lookup l (labels e) with Some _ => true | None => false end.
Definition shown16 (e : em) (obs : list Z) (l : lbl) : bool :=
  match lookup l (labels e), lookup l (d16 e) with
  | Some a, Some refs =>
      forallb (fun r => (obs_at obs (w32 (r - base e)) =? a mod 256) &&
                        (obs_at obs (w32 (r - base e) + 1) =? (a / 256) mod 256)) refs
  | _, _ => false
  end.
(* [shown]: the label's operands show their resolved value in the observed bytes; [ambig]: they already did before
   Finalize (the resolved value equals the placeholder), so the bytes cannot tell whether the label was visited:
   both placements (all before / all after the failing label) are offered. *)
Definition guided (ks : list lbl) (good shown ambig : lbl -> bool) : list (list lbl) :=
  let A := filter (fun l => shown l && ambig l) ks in
  let P := filter (fun l => shown l && negb (ambig l)) ks in
  let O := filter (fun l => negb (shown l)) ks in
  let B := filter (fun l => negb (good l)) O in
  let G := filter good O in
  (* the first label visited after P: an unresolvable one (error), or a resolvable one whose patch is not visible
     (only when patching panics: nil target, operand outside the buffer) *)
  match O with
  | [] => [ks]
  | _ => flat_map (fun x => let rest := filter (fun l => negb (N.eqb l x)) (B ++ G) in
                            [P ++ A ++ [x] ++ rest; P ++ [x] ++ rest ++ A]) (B ++ G)
  end.

Definition check_finalX (f : final) (e : em) : list (Z * Z) :=
  (if render_eqb (WriteHexTo e) (f_hex1 f) then [] else [(-1, 20)]) ++
  (if render_eqb (WriteTextTo e) (f_text1 f) then [] else [(-1, 21)]) ++
  (let k8 := keys (d8 e) in let k16 := keys (d16 e) in
   if final_ok f e k8 k16 then []
   else if exists_sc (fun o8 => exists_sc (fun o16 => final_ok f e o8 o16)
                                          (guided k16 (good16 e) (shown16 e (f_bytes f)) (shown16 e (Bytes e))))
                     (guided k8 (good8 e) (shown8 e (f_bytes f)) (shown8 e (Bytes e)))
        then []
        else if (Nat.leb (length k8) 5 && Nat.leb (length k16) 5)%bool
             then (if exists_sc (fun o8 => exists_sc (fun o16 => final_ok f e o8 o16) (perms k16)) (perms k8)
                   then [] else [(-1, 22)])
             else [(-1, 23)]).

Definition check_caseX (cb : bool) (fx : fixes) (c : case) : list (Z * Z) :=
  let '(st, ds) := check_stepsX cb fx (c_nl c) 0 [new_em (c_target c) (c_gen c)] None (c_steps c) in
  ds ++ match st with e :: _ => check_finalX (c_final c) e | [] => [(-1, 30)] end.

Definition bad_casesX (cb : bool) (fx : fixes) (cs : list case) : list (Z * list (Z * Z)) :=
  filter (fun x => match snd x with [] => false | _ => true end)
         (map (fun c => (c_id c, check_caseX cb fx c)) cs).
