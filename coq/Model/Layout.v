(* Generic little-endian layout codec: the model of header.go's readBinaryStruct / writeBinaryStruct
   (reflection walk over the exported fields in declaration order, encoding/binary little-endian,
   nested structs and arrays expanded).  No proofs here; theorems are in Props/LayoutProps.v.

   Go                                              model
   ---------------------------------------------   ------------------------------------------------
   struct type walked by reflection                layout = list (path, byte size), declaration order
   []byte / bytes.Reader / bytes.Buffer            list Z (bytes)
   binary.Read(b, LittleEndian, &field)            one step of [decode]: take fsz bytes, [le_dec]
   io.EOF / io.ErrUnexpectedEOF (reader too short) None
   binary.Write(w, LittleEndian, &field)           one step of [encode]: [le_enc] of fsz bytes
   value of a uintN / byte / [n]byte element       Z in [0, 256^size)

   A size is read through [fsz] = Z.max 0, so the codec is total and the theorems need no
   well-formedness hypothesis on the layout ("for EVERY layout"). *)
From Coq Require Import ZArith String List Bool.
From Lib Require Import ZList.
Import ListNotations.
Local Open Scope Z_scope.

Definition field := (string * Z)%type.
Definition layout := list field.
Definition fname (f : field) : string := fst f.
Definition fsz (f : field) : Z := Z.max 0 (snd f).
Definition size (L : layout) : Z := zsum (map fsz L).

(* little-endian value of a byte string / the n low-order bytes of a value *)
Fixpoint le_dec (bs : list Z) : Z := match bs with [] => 0 | b :: r => b + 256 * le_dec r end.
Fixpoint le_enc (n : nat) (v : Z) : list Z :=
  match n with O => [] | S m => v mod 256 :: le_enc m (v / 256) end.

(* readBinaryStruct: field by field; None = the reader ran dry (binary.Read returned an error) *)
Fixpoint decode (L : layout) (bs : list Z) : option (list Z) :=
  match L with
  | [] => Some []
  | f :: L' =>
      if zlen bs <? fsz f then None
      else match decode L' (zdrop (fsz f) bs) with
           | Some vs => Some (le_dec (ztake (fsz f) bs) :: vs)
           | None => None
           end
  end.

(* writeBinaryStruct *)
Fixpoint encode (L : layout) (vs : list Z) : list Z :=
  match L, vs with
  | f :: L', v :: vs' => le_enc (Z.to_nat (fsz f)) v ++ encode L' vs'
  | _, _ => []
  end.

(* byte offset of field j; index of the field whose slice covers byte i (i >= 0) *)
Fixpoint offset (L : layout) (j : nat) : Z :=
  match j, L with S j', f :: L' => fsz f + offset L' j' | _, _ => 0 end.
Fixpoint field_of (L : layout) (i : Z) : option nat :=
  match L with
  | [] => None
  | f :: L' => if i <? fsz f then Some O else option_map S (field_of L' (i - fsz f))
  end.
Definition nth_size (L : layout) (j : nat) : Z := match nth_error L j with Some f => fsz f | None => 0 end.

(* every value fits its field (what Go's types guarantee for the fields of a struct) *)
Fixpoint in_range (L : layout) (vs : list Z) : bool :=
  match L, vs with
  | [], [] => true
  | f :: L', v :: vs' => (0 <=? v) && (v <? 256 ^ fsz f) && in_range L' vs'
  | _, _ => false
  end.

(* two value lists differ in position j and nowhere else *)
Definition diff_exactly (j : nat) (vs vs' : list Z) : Prop :=
  length vs = length vs' /\ (j < length vs)%nat /\ nth j vs 0 <> nth j vs' 0 /\
  forall j', j' <> j -> nth j' vs 0 = nth j' vs' 0.

(* layouts as emitted by the translator: (path, size, documented address if the field carries a rom:"FFxx" tag) *)
Definition tfield := (string * Z * option Z)%type.
Definition tlayout := list tfield.
Definition untag (T : tlayout) : layout := map (fun t => (fst (fst t), snd (fst t))) T.
