(* Model/EmitterTieX.v -- correspondence cases in the wire format of Model/EmitterTie.v (token lists,
   [decode_case]) checked against the model WITH the variant switches of Model/EmitterExt.v:
   [cb] = Append copies base, [fx] = {chunk_own; label_flush}.  No proofs. *)
From Coq Require Import ZArith NArith List Bool Uint63.
From Lib Require Import ZList.
From Model Require Import Emitter EmitterTie EmitterExt.
Import ListNotations.
Local Open Scope Z_scope.

Definition bad_encodedX (cb : bool) (fx : fixes) (css : list (list int)) : list (Z * list (Z * Z)) :=
  filter (fun x => match snd x with [] => false | _ => true end)
         (map (fun ts => match decode_case ts with
                         | Some c => (c_id c, check_caseX cb fx c)
                         | None => (match ts with t :: _ => Uint63.to_Z t | [] => -1 end, [(-1, 99)])
                         end) css).
