(* Model/EmitterTieX.v -- correspondence cases in the wire format of Model/EmitterTie.v (token lists,
   [decode_case]) checked against the model WITH the variant switches of Model/EmitterExt.v:
   [cb] = Append copies base, [fx] = {chunk_own; label_flush}.  No proofs. *)
From Coq Require Import ZArith NArith List Bool Uint63.
From Lib Require Import ZList.
From Model Require Import Emitter EmitterTie EmitterExt.
Import ListNotations.
Local Open Scope Z_scope.

(* Finalize order search, last resort.  EmitterExt.check_finalX gives up (code 23) when a map has more than 5
   labels and neither the sorted order nor the orders read off the observed bytes explain the observation.
   Here: up to 6 labels per map, first loop first -- an order of the first loop that already fails needs no
   order for the second. *)
Definition final_ok_at (f : final) (r : em * fres) : bool :=
  let '(e1, res) := r in
  if fres_eqb res (f_res f) then
    list_eqb (Bytes e1) (f_bytes f) && render_eqb (WriteHexTo e1) (f_hex2 f) && render_eqb (WriteTextTo e1) (f_text2 f)
  else false.
Definition staged_ok (f : final) (e : em) (k8 k16 : list lbl) : bool :=
  exists_sc (fun o8 =>
               let '(e1, r1) := fin8 o8 e in
               match r1 with
               | FOk => exists_sc (fun o16 => final_ok_at f (fin16 o16 e1)) (perms k16)
               | _ => final_ok_at f (e1, r1)
               end) (perms k8).
Definition check_finalX6 (f : final) (e : em) : list (Z * Z) :=
  match check_finalX f e with
  | [(-1, 23)] =>
      let k8 := keys (d8 e) in let k16 := keys (d16 e) in
      if (Nat.leb (length k8) 6 && Nat.leb (length k16) 6)%bool
      then (if staged_ok f e k8 k16 then [] else [(-1, 22)])
      else [(-1, 23)]
  | ds => ds
  end.
Definition check_caseX6 (cb : bool) (fx : fixes) (c : case) : list (Z * Z) :=
  let '(st, ds) := check_stepsX cb fx (c_nl c) 0 [new_em (c_target c) (c_gen c)] None (c_steps c) in
  ds ++ match st with e :: _ => check_finalX6 (c_final c) e | [] => [(-1, 30)] end.

Definition bad_encodedX (cb : bool) (fx : fixes) (css : list (list int)) : list (Z * list (Z * Z)) :=
  filter (fun x => match snd x with [] => false | _ => true end)
         (map (fun ts => match decode_case ts with
                         | Some c => (c_id c, check_caseX6 cb fx c)
                         | None => (match ts with t :: _ => Uint63.to_Z t | [] => -1 end, [(-1, 99)])
                         end) css).
