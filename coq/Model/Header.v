(* Hand-written executable model of Header.ReadHeader / Header.WriteHeader (header.go) and
   ROM.ReadHeader / ROM.WriteHeader / NewROM (rom.go), routine for routine, over ANY layout L (the
   per-run instance is the layout regenerated from header.go, Gen/GenHeader.v).  No proofs here;
   theorems are in Props/HeaderProps.v; the tie to the compiled code is re-checked on every run
   (build/work/Run/Cases_C09_*.v).

   Go                                              model
   ---------------------------------------------   ------------------------------------------------
   Header (exported fields, flattened)             list Z of field values, in layout order
   Header.version (unexported int)                 Z  (0 = never read)
   readBinaryStruct / writeBinaryStruct            Layout.decode / Layout.encode
   h.OldMakerCode, h.Title[20]                     [field_at]: the value of the field that covers header
                                                   offset $2A / $24 (layout_ok pins them to one byte each)
   h.MakerCode = 0; ... h.CoCPUType = 0            [zero_first L 16]: the fields that start below offset 16
   ROM.Contents (len = cap)                        image = list Z
   r.Contents[a:b]                                 Panic unless 0 <= a <= b <= len, else slice
   copy(dst, src)                                  [copy_at]: min(len dst, len src) bytes
   b.Bytes()[0x10:]                                Panic unless 16 <= len
   err != nil                                      None *)
From Coq Require Import ZArith String List Bool.
From Lib Require Import ZList.
From Spec Require Import HeaderSpec.
From Model Require Import Layout.
Import ListNotations.
Local Open Scope Z_scope.

Definition header := (Z * list Z)%type.          (* (version, exported field values) *)
Definition hver (h : header) : Z := fst h.
Definition hvals (h : header) : list Z := snd h.

Definition field_at (L : layout) (vs : list Z) (i : Z) : Z :=
  match field_of L i with Some j => nth j vs 0 | None => 0 end.

(* zero the values of the fields that start before byte c *)
Fixpoint zero_first (L : layout) (c : Z) (vs : list Z) : list Z :=
  match L, vs with
  | f :: L', v :: vs' => if 0 <? c then 0 :: zero_first L' (c - fsz f) vs' else v :: vs'
  | _, _ => vs
  end.

(* func (h *Header) ReadHeader(b *bytes.Reader) error *)
Definition read_header (L : layout) (bs : list Z) : option header :=
  match decode L bs with
  | None => None
  | Some vs =>
      if field_at L vs off_old_maker =? 51 then Some (3, vs)
      else if field_at L vs off_title_last =? 0 then Some (2, vs)
      else Some (1, zero_first L ext_size vs)
  end.

(* func (h *Header) WriteHeader(b *bytes.Buffer) error  -- the bytes appended to the buffer *)
Definition write_header (L : layout) (h : header) : list Z := encode L (hvals h).

Inductive hres (A : Type) := HOk (a : A) | HPanic.
Arguments HOk {A} a.
Arguments HPanic {A}.

Definition window_ok (img : list Z) (a e : Z) : bool := (0 <=? a) && (a <=? e) && (e <=? zlen img).
Definition copy_at (img : list Z) (a e : Z) (src : list Z) : list Z := splice img a (ztake (e - a) src).

(* func (r *ROM) ReadHeader() error ; off = r.HeaderOffset (0 <= off, off + 80 < 2^32) *)
Definition rom_read_header (L : layout) (img : list Z) (off : Z) : hres (option header) :=
  if window_ok img off (off + hdr_size) then HOk (read_header L (slice img off (off + hdr_size))) else HPanic.

(* func (r *ROM) WriteHeader() error ; the resulting Contents *)
Definition rom_write_header (L : layout) (img : list Z) (off : Z) (h : header) : hres (list Z) :=
  let b := write_header L h in
  if hver h <=? 1 then
    if window_ok img (off + ext_size) (off + hdr_size) && (ext_size <=? zlen b)
    then HOk (copy_at img (off + ext_size) (off + hdr_size) (zdrop ext_size b)) else HPanic
  else
    if window_ok img off (off + hdr_size) then HOk (copy_at img off (off + hdr_size) b) else HPanic.

(* func NewROM(name string, contents []byte) ( *ROM, error ): None = "not big enough", else ReadHeader at $7FB0 *)
Definition rom_header_offset : Z := 32688.       (* $007FB0 *)
Definition new_rom (L : layout) (img : list Z) : option (hres (option header)) :=
  if zlen img <? 32768 then None else Some (rom_read_header L img rom_header_offset).

(* ---- what a layout must satisfy for the header theorems (checked by vm_compute on every run
        against the layout regenerated from header.go) ---- *)
Fixpoint tags_ok (T : tlayout) (a : Z) : bool :=
  match T with
  | [] => true
  | (_, k, t) :: T' => (match t with Some x => x =? a | None => true end) && tags_ok T' (a + Z.max 0 k)
  end.
Fixpoint find_field (L : layout) (name : string) (o : Z) : option (Z * Z) :=
  match L with
  | [] => None
  | f :: L' => if String.eqb (fname f) name then Some (o, fsz f) else find_field L' name (o + fsz f)
  end.
Definition spec_ok (L : layout) : bool :=
  forallb (fun d => match d with (name, addr, k) =>
             match find_field L name 0 with
             | None => true
             | Some (o, k') => (hdr_base + o =? addr) && (k' =? k)
             end end) documented.
(* some prefix of the layout is exactly c bytes long *)
Fixpoint aligned (L : layout) (c : Z) : bool :=
  match L with
  | [] => c =? 0
  | f :: L' => if c <=? 0 then c =? 0 else aligned L' (c - fsz f)
  end.
Definition byte_field_at (L : layout) (i : Z) : bool :=
  match field_of L i with Some j => (offset L j =? i) && (nth_size L j =? 1) | None => false end.
Definition sizes_pos (L : layout) : bool := forallb (fun f => 0 <? snd f) L.

Definition layout_ok (T : tlayout) : bool :=
  let L := untag T in
  sizes_pos L && (size L =? hdr_size) && tags_ok T hdr_base && spec_ok L && aligned L ext_size
  && byte_field_at L off_title_last && byte_field_at L off_old_maker.
