(* Executable comparison of one observed case of the real code (printed by harness/hdrtool.go, command
   hdrcases) with the header model; used by the per-run files build/work/Run/Cases_C09_*.v:
     Definition bad := Eval vm_compute in filter (fun c => negb (agrees GenHeader-layout c)) cases.
     Lemma tie : bad = [].
   No proofs here. *)
From Coq Require Import ZArith String List Bool.
From Lib Require Import ZList.
From Spec Require Import HeaderSpec.
From Model Require Import Layout Header.
Import ListNotations.
Local Open Scope Z_scope.

(* hdrImage: byte j = (a*j + c + j>>8) mod 256, with the overlay copied at ovoff when it fits *)
Definition build_image (n a c ovoff : Z) (ov : list Z) : list Z :=
  let base := map (fun j => (a * j + c + j / 256) mod 256) (ziota 0 n) in
  if (0 <=? ovoff) && (ovoff + zlen ov <=? n) then splice base ovoff ov else base.

Inductive tcase :=
| CH (bs : list Z) (err : bool) (ver : Z) (fields ser : list Z)          (* Header.ReadHeader, then WriteHeader *)
| CW (bs : list Z) (nv ser : list Z)                                     (* parse, set every field, WriteHeader *)
| CR (n a c ovoff : Z) (ov : list Z) (off woff : Z)                      (* NewROM [+ ReadHeader at off], [set fields], WriteHeader at woff *)
     (rd : Z) (ver : Z) (fields : list Z) (nv : option (list Z))         (* rd/wr: 0 = NewROM size error, 1 = panic, 2 = error, 3 = ok *)
     (wr : Z) (win : list Z) (outside : Z).

Definition agrees (L : layout) (c : tcase) : bool :=
  match c with
  | CH bs err ver fields ser =>
      match read_header L bs with
      | None => err
      | Some h => negb err && (hver h =? ver) && list_eqb (hvals h) fields && list_eqb (write_header L h) ser
      end
  | CW bs nv ser =>
      match read_header L bs with
      | None => false
      | Some h => list_eqb (write_header L (hver h, nv)) ser
      end
  | CR n a c ovoff ov off woff rd ver fields nv wr win outside =>
      let img := build_image n a c ovoff ov in
      match new_rom L img with
      | None => rd =? 0
      | Some first =>
          let r := if off =? rom_header_offset then first else rom_read_header L img off in
          match r with
          | HPanic => rd =? 1
          | HOk None => rd =? 2
          | HOk (Some h) =>
              (rd =? 3) && (hver h =? ver) && list_eqb (hvals h) fields &&
              let h' := (hver h, match nv with Some x => x | None => hvals h end) in
              match rom_write_header L img woff h' with
              | HPanic => wr =? 1
              | HOk img' => (wr =? 3) && (outside =? 0) && (zlen img' =? zlen img) &&
                            list_eqb (slice img' woff (woff + hdr_size)) win
              end
          end
      end
  end.
