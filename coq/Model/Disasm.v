(* Hand model of the two trace disassemblers
     emulator/cpu65c816/cpu_disassembler.go   DisassembleCurrentPC / DisassembleTo / formatInstructionModeTo
     emulator/cpualt/cpu_disassembler.go      DisassembleCurrentPC / DisassembleTo / formatInstructionModeTo,
                                              Disassemble / formatInstructionMode
   as a function from the machine state (Lib/Machine.st, fields addressed through the generated field
   numbers) and the generated opcode table to the PROJECTION [TraceSpec.line] of the trace line.
   The Go routines are not translated by /verif/gen; the bus read they call (nRead) is, and is a
   parameter here (instantiated per run with GenCpu65.nRead / GenCpuAlt.nRead).

   The code is modelled as it is: length = table size minus the M / X adjustment in byte arithmetic;
   the 5-way switch on it; bytes re-read through the bus at myPC+i in uint16 arithmetic (wrap inside
   the bank); operands rendered per Go mode constant from w1..w3 (zero when not read); relative
   destinations computed from c.PC (not myPC).  The one place of the text known to be wrong -- the sign
   test of the rel8 destination reads w2 (always 0 for a 2-byte instruction) instead of w1 -- is the
   parameter [rel8_fixed]: false = the code as found, true = the repaired code.  (The other known
   defect, BRK's size 1, is data of the generated table, not of this model.)

   The three Go copies of the rendering (primary, alt/Fprintf, alt/Sprintf) print the same projection;
   they differ in padding, ", S" vs ", Sn", flag letter case, and alt also prints S and StepInfo. *)
From Coq Require Import ZArith NArith List Bool String.
From Lib Require Import ZOps Machine.
From Spec Require Import ISA TraceSpec.
Import ListNotations.
Local Open Scope Z_scope.

(* generated field numbers used by the disassembler (GenFields.f_RK ...) *)
Record fields := mkfields {
  fRK : N; fPC : N; fM : N; fX : N;
  fRA : N; fRAl : N; fRX : N; fRXl : N; fRY : N; fRYl : N;
  fN : N; fV : N; fD : N; fI : N; fZ : N; fC : N
}.

Record dcfg := mkcfg {
  fl : fields;
  nread : Z -> Z -> st -> res Z;     (* c.nRead(bank, addr) / c.Bus.nRead(bank, addr) *)
  tbl : list go_row;                 (* instructions[...] : (opcode, name, mode, size, cycles, routine) *)
  rel8_fixed : bool
}.

Definition no_row : go_row := (0, EmptyString, 0, 0, 0, EmptyString).
(* instructions[opcode] *)
Definition row (c : dcfg) (opcode : Z) : go_row := nth (Z.to_nat opcode) (tbl c) no_row.

(* sizeAdjust: "crude and incosistent size adjust" *)
Definition size_adjust (mode m x : Z) : Z :=
  let a := if mode =? 6 then m else 0 in
  if mode =? 7 then x else a.

(* bytes := instructions[opcode].size - sizeAdjust   (byte arithmetic) *)
Definition nbytes (size mode m x : Z) : Z := sub8 size (size_adjust mode m x).

(* rel8: w216 := uint16(w1); if w2 < 0x80 { dest := c.PC + 2 + w216 } else { dest := c.PC + 2 + w216 - 0x100 } *)
Definition go_rel8_back (fixed : bool) (w1 w2 : Z) : bool :=
  negb (w_ltb (if fixed then w1 else w2) 128).
Definition go_rel8_dest (fixed : bool) (pc w1 w2 : Z) : Z :=
  if go_rel8_back fixed w1 w2 then sub16 (add16 (add16 pc 2) w1) 256 else add16 (add16 pc 2) w1.
(* rel16: arg16 := uint16(w2)<<8 | uint16(w1); addr := c.PC + 3 + arg16 *)
Definition go_rel16_dest (pc w1 w2 : Z) : Z := add16 (add16 pc 3) (w_or (shl16 w2 8) w1).

(* formatInstructionModeTo / formatInstructionMode: syntax, hex groups in printed order, destination, sign *)
Definition fmt (fixed : bool) (mode m x pc w0 w1 w2 w3 : Z) : syntax * list (list Z) * option Z * bool :=
  match mode with
  | 1 => (SyAbs, [[w2; w1]], None, false)
  | 2 => (SyAbsX, [[w2; w1]], None, false)
  | 3 => (SyAbsY, [[w2; w1]], None, false)
  | 4 => (SyAcc, [], None, false)
  | 5 => if w0 =? 244 then (SyImm, [[w2; w1]], None, false) else (SyImm, [[w1]], None, false)
  | 6 => if m =? 1 then (SyImm, [[w1]], None, false) else (SyImm, [[w2; w1]], None, false)
  | 7 => if x =? 1 then (SyImm, [[w1]], None, false) else (SyImm, [[w2; w1]], None, false)
  | 8 => (SyNone, [], None, false)
  | 9 => (SyDp, [[w1]], None, false)
  | 10 => (SyDpX, [[w1]], None, false)
  | 11 => (SyDpY, [[w1]], None, false)
  | 12 => (SyDpIndX, [[w1]], None, false)
  | 13 => (SyDpInd, [[w1]], None, false)
  | 14 => (SyDpIndL, [[w1]], None, false)
  | 15 => (SyDpIndY, [[w1]], None, false)
  | 16 => (SyDpIndLY, [[w1]], None, false)
  | 17 => (SyAbsIndX, [[w2; w1]], None, false)
  | 18 => (SyAbsInd, [[w2; w1]], None, false)
  | 19 => (SyAbsIndL, [[w2; w1]], None, false)
  | 20 => (SyLong, [[w3; w2; w1]], None, false)
  | 21 => (SyLongX, [[w3; w2; w1]], None, false)
  | 22 => (SyBlock, [[w2]; [w1]], None, false)
  | 23 => (SyRel8, [[w1]], Some (go_rel8_dest fixed pc w1 w2), go_rel8_back fixed w1 w2)
  | 24 => (SyRel16, [], Some (go_rel16_dest pc w1 w2), false)
  | 25 => (SySr, [[w1]], None, false)
  | 26 => (SySrIndY, [[w1]], None, false)
  | _ => (SyUnknown, [], None, false)
  end.

(* w_i := c.nRead(c.RK, myPC+i) for i = 0 .. n-1, in this order *)
Fixpoint read_list (c : dcfg) (bank mypc : Z) (idx : list Z) (s : st) : res (list Z) :=
  match idx with
  | [] => Ok [] s
  | i :: r =>
      bind (nread c bank (add16 mypc i) s) (fun w s =>
      bind (read_list c bank mypc r s) (fun ws s => Ok (w :: ws) s))
  end.

(* switch bytes { case 4, 3, 2, 1: read that many; default: none } *)
Definition read_count (nb : Z) : Z :=
  if (nb =? 4) || (nb =? 3) || (nb =? 2) || (nb =? 1) then nb else 0.

(* appendCPUFlags / printCPUFlags: flag > 0 *)
Definition flag_shown (v : Z) : bool := w_ltb 0 v.

(* everything after the reads: pure *)
Definition assemble (c : dcfg) (s : st) (mypc : Z) (r : go_row) (ws : list Z) : line :=
  let f := fl c in
  let '(_, name, mode, _, _, _) := r in
  let m := get (fM f) s in
  let x := get (fX f) s in
  let '(sy, groups, dest, back) :=
    fmt (rel8_fixed c) mode m x (get (fPC f) s) (nth 0 ws 0) (nth 1 ws 0) (nth 2 ws 0) (nth 3 ws 0) in
  mkline (get (fRK f) s) mypc ws name sy groups dest back
    (if m =? 0 then (true, get (fRA f) s) else (false, get (fRAl f) s))
    (if x =? 0 then (true, get (fRX f) s) else (false, get (fRXl f) s))
    (if x =? 0 then (true, get (fRY f) s) else (false, get (fRYl f) s))
    (map (fun g => flag_shown (get g s)) [fN f; fV f; fM f; fX f; fD f; fI f; fZ f; fC f]).

(* DisassembleTo(myPC, ...) *)
Definition disassemble_to (c : dcfg) (mypc : Z) (s : st) : res line :=
  let f := fl c in
  bind (nread c (get (fRK f) s) mypc s) (fun opcode s =>
  let r := row c opcode in
  let '(_, _, mode, size, _, _) := r in
  let nb := nbytes size mode (get (fM f) s) (get (fX f) s) in
  bind (read_list c (get (fRK f) s) mypc (zrange (read_count nb)) s) (fun ws s =>
  Ok (assemble c s mypc r ws) s)).

(* DisassembleCurrentPC *)
Definition disassemble (c : dcfg) (s : st) : res line := disassemble_to c (get (fPC (fl c)) s) s.

(* ------------------------------------------------------------------ System.RunUntil
   for cycles := 0; cycles < maxCycles; { if Logger != nil { log }; if GetPC() == targetPC { break };
                                           nCycles, _ := Step(); cycles += uint64(nCycles) }
   return GetPC() == targetPC
   over an abstract step function and an abstract line producer; fuel-indexed because a step is not
   known here to consume at least one cycle. *)
Inductive outcome :=
| Done (reached : bool) (cycles : Z) (s : st) (lines : list line)
| Crash        (* a Go panic inside Step or inside the disassembler *)
| OutOfFuel.

Definition get_pc (f : fields) (s : st) : Z := w_or (shl32 (get (fRK f) s) 16) (get (fPC f) s).

Fixpoint run_until (f : fields) (step : st -> res (Z * bool)) (logger : option (st -> res line))
    (fuel : nat) (target maxc cycles : Z) (s : st) (acc : list line) : outcome :=
  match fuel with
  | O => OutOfFuel
  | S fuel' =>
      if w_ltb cycles maxc then
        let k := fun (s : st) (acc : list line) =>
          if w_eqb (get_pc f s) target then Done true cycles s acc
          else match step s with
               | Panic => Crash
               | Ok (n, _) s' => run_until f step logger fuel' target maxc (add64 cycles (conv64 n)) s' acc
               end in
        match logger with
        | None => k s acc
        | Some dis => match dis s with
                      | Panic => Crash
                      | Ok l s' => k s' (acc ++ [l])
                      end
        end
      else Done (w_eqb (get_pc f s) target) cycles s acc
  end.

(* ------------------------------------------------------------------ the text projection used by the tie

   What the Go harness can parse out of a real trace line: the shape of the operand text (syntax up
   to what the text distinguishes) and the hex groups in it; a rel16 destination is one more group. *)
Definition shape_code (sy : syntax) : Z :=
  match sy with
  | SyNone => 0 | SyAcc => 1 | SyImm => 2 | SyDp => 3 | SyDpX => 4 | SyDpY => 5 | SyDpInd => 6
  | SyDpIndX => 7 | SyDpIndY => 8 | SyDpIndL => 9 | SyDpIndLY => 10 | SySr => 11 | SySrIndY => 12
  | SyAbs => 13 | SyAbsX => 14 | SyAbsY => 15 | SyLong => 16 | SyLongX => 17 | SyAbsInd => 18
  | SyAbsIndX => 19 | SyAbsIndL => 20 | SyRel8 => 21
  | SyRel16 => 13              (* printed like an absolute address *)
  | SyBlock => 22 | SyUnknown => 23
  end.

Definition word_bytes (d : Z) : list Z := [Z.shiftr d 8 mod 256; d mod 256].

Definition text_groups (l : line) : list (list Z) :=
  l_groups l ++ match l_dest l with Some d => [word_bytes d] | None => [] end.

(* an observed, parsed trace line *)
Record obs := mkobs {
  o_pbr : Z; o_pc : Z; o_bytes : list Z; o_name : string; o_shape : Z; o_groups : list (list Z);
  o_back : bool;
  o_hasregs : bool;            (* alt's Disassemble() string has no register part *)
  o_a : shown; o_x : shown; o_y : shown; o_flags : list bool;
  o_pure : bool                (* every integer / bool field of the CPU struct had the same value after the call as before *)
}.

Definition zlist_eqb (a b : list Z) : bool :=
  (Nat.eqb (List.length a) (List.length b)) && forallb (fun p => Z.eqb (fst p) (snd p)) (combine a b).
Definition zll_eqb (a b : list (list Z)) : bool :=
  (Nat.eqb (List.length a) (List.length b)) && forallb (fun p => zlist_eqb (fst p) (snd p)) (combine a b).
Definition shown_eqb (a b : shown) : bool := Bool.eqb (fst a) (fst b) && Z.eqb (snd a) (snd b).
Definition blist_eqb (a b : list bool) : bool :=
  (Nat.eqb (List.length a) (List.length b)) && forallb (fun p => Bool.eqb (fst p) (snd p)) (combine a b).

Definition line_obs_eqb (l : line) (o : obs) : bool :=
  Z.eqb (l_pbr l) (o_pbr o) && Z.eqb (l_pc l) (o_pc o) && zlist_eqb (l_bytes l) (o_bytes o) &&
  String.eqb (l_name l) (o_name o) && Z.eqb (shape_code (l_syn l)) (o_shape o) &&
  zll_eqb (text_groups l) (o_groups o) && Bool.eqb (l_back l) (o_back o) &&
  o_pure o &&                  (* the model leaves every register unchanged (DisasmProps.disassemble_to_same) *)
  (negb (o_hasregs o) ||
   (shown_eqb (l_a l) (o_a o) && shown_eqb (l_x l) (o_x o) && shown_eqb (l_y l) (o_y o) &&
    blist_eqb (l_flags l) (o_flags o))).

(* a tie case: field values, memory overlay (everything else reads 0), myPC, the parsed real line *)
Record dcase := mkcase {
  c_id : Z;
  c_mypc : Z;
  c_regs : list (N * Z);
  c_mem : list (Z * Z);
  c_obs : option obs           (* None: the real call panicked *)
}.

Fixpoint nassoc (k : N) (l : list (N * Z)) : Z :=
  match l with [] => 0 | (k', v) :: r => if N.eqb k k' then v else nassoc k r end.
Fixpoint zassoc (k : Z) (l : list (Z * Z)) : Z :=
  match l with [] => 0 | (k', v) :: r => if Z.eqb k k' then v else zassoc k r end.

Definition case_state (c : dcase) : st :=
  mkst (fun f => nassoc f (c_regs c)) (fun a => zassoc a (c_mem c)) [] (fun _ => false) false.

Definition agrees (cfg : dcfg) (c : dcase) : bool :=
  match disassemble_to cfg (c_mypc c) (case_state c), c_obs c with
  | Ok l _, Some o => line_obs_eqb l o
  | Panic, None => true
  | _, _ => false
  end.
