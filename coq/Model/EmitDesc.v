(* EmitDesc: the descriptor of an instruction-emitting method of *asm.Emitter, as produced by the
   translator unit gen/emitter.go (symbolic evaluation of the method body), and its executable meaning:
   the bytes the method appends, when it panics, how Len/PC and the tracked flags move.
   Model only -- theorems are in Props/EncProps.v. *)
From Coq Require Import ZArith List String Bool Uint63.
Import ListNotations.
From Spec Require Import EmitSpec.
Local Open Scope string_scope.
Local Open Scope Z_scope.

(* one emitted byte as an expression over the parameters:
     BConst v   the constant v
     BPar i k   byte(p_i >> k), i.e. floor(p_i / 2^k) mod 256  (Go: byte(x), byte(x>>8), byte(x>>16), x itself) *)
Inductive bexp := BConst (v : Z) | BPar (i : nat) (k : Z).

(* the width guard at the head of a method: `if a.IsM16bit() { panic }` = GPanicIfM16, `if !a.IsM16bit()` = GPanicIfM8, ... *)
Inductive guard := GNone | GPanicIfM16 | GPanicIfM8 | GPanicIfX16 | GPanicIfX8.

(* effect on the flags tracker: a.AssumeREP(p_i) / a.AssumeSEP(p_i) *)
Inductive effect := ENone | ERep (i : nat) | ESep (i : nat).

(* what the translator found in emitN: length of the array parameter, number of bytes handed to write(),
   the constant added to a.address, which dangling-reference list the label goes to (0 none, 1 = S8, 2 = U16) *)
Record ekind := { k_name : string; k_arr : Z; k_written : Z; k_adv : Z; k_label : Z }.

(* what the translator found in flags.go: IsM16bit = (flags & tk_m == 0), IsX16bit = (flags & tk_x == 0),
   AssumeREP = and-not, AssumeSEP = or (the unit fails if they have another shape) *)
Record tracker := { tk_m : Z; tk_x : Z }.

Record desc := {
  d_name : string;             (* Go method name *)
  d_pnames : list string;      (* Go parameter names *)
  d_ptys : list pty;           (* Go parameter types *)
  d_bytes : list bexp;         (* the array handed to emitN, element by element (element 0 is the opcode) *)
  d_guard : guard;
  d_effect : effect;
  d_kind : string;             (* emit1 | emit2 | emit2Label | emit3 | emit3Label | emit4 *)
  d_ins : string;              (* listing mnemonic, e.g. "lda.b"  (used by C15) *)
  d_fmt : string               (* argsFormat                      (used by C15) *)
}.

Definition arg (args : list Z) (i : nat) : Z := nth i args 0.

Definition eval_b (args : list Z) (b : bexp) : Z :=
  match b with
  | BConst v => v
  | BPar i k => (arg args i / 2 ^ k) mod 256
  end.

(* the bytes the method appends *)
Definition emit_bytes (d : desc) (args : list Z) : list Z := map (eval_b args) (d_bytes d).

Definition is16 (mask fl : Z) : bool := Z.land fl mask =? 0.

Definition panics_b (g : guard) (m16 x16 : bool) : bool :=
  match g with
  | GNone => false
  | GPanicIfM16 => m16
  | GPanicIfM8 => negb m16
  | GPanicIfX16 => x16
  | GPanicIfX8 => negb x16
  end.

Definition panics (tk : tracker) (d : desc) (fl : Z) : bool :=
  panics_b (d_guard d) (is16 (tk_m tk) fl) (is16 (tk_x tk) fl).

Definition guard_holds (tk : tracker) (d : desc) (fl : Z) : bool := negb (panics tk d fl).

Definition flags_after (d : desc) (args : list Z) (fl : Z) : Z :=
  match d_effect d with
  | ENone => fl
  | ERep i => Z.land fl (Z.lxor (arg args i mod 256) 255)
  | ESep i => Z.lor fl (arg args i mod 256)
  end.

Fixpoint find_kind (ks : list ekind) (name : string) : option ekind :=
  match ks with
  | [] => None
  | k :: r => if String.eqb (k_name k) name then Some k else find_kind r name
  end.

Definition ilen_d (d : desc) : Z := zlength (d_bytes d).

(* result of one call on an emitter with room left *)
Inductive outcome :=
| OPanic                                              (* refused; nothing appended *)
| OOk (bytes : list Z) (dlen dpc : Z) (fl' : Z)        (* appended bytes, Len() delta, PC() delta, flags after *)
| OBad.                                               (* descriptor refers to an unknown emit kind *)

Definition run (tk : tracker) (ks : list ekind) (d : desc) (args : list Z) (fl : Z) : outcome :=
  if panics tk d fl then OPanic
  else match find_kind ks (d_kind d) with
       | None => OBad
       | Some k => OOk (emit_bytes d args) (k_written k) (k_adv k) (flags_after d args fl)
       end.

(* ------------------------------------------------------------------ operand enumeration (tie) *)
(* A call is numbered by n in [0, 2^B), B = total bits of the parameters; parameter j is the j-th digit. *)
Definition pty_bits (t : pty) : Z :=
  match t with TU8 | TI8 | TFlags => 8 | TU16 => 16 | TU32 => 32 | TLabel => 0 end.

Fixpoint total_bits (ps : list pty) : Z :=
  match ps with [] => 0 | t :: r => pty_bits t + total_bits r end.

Definition signed8 (t : pty) (v : Z) : Z :=
  match t with TI8 => if 128 <=? v then v - 256 else v | _ => v end.

Fixpoint args_of (ps : list pty) (n : Z) : list Z :=
  match ps with
  | [] => []
  | t :: r => let sz := 2 ^ pty_bits t in signed8 t (n mod sz) :: args_of r (n / sz)
  end.

(* The same functions with shifts and masks instead of div and mod (Z division is two orders of
   magnitude slower in the VM); EncProps.run_f_run / args_of_f_eq prove them equal to the reference
   definitions above, which are the ones the C03 theorems speak about. *)
Definition eval_b_f (args : list Z) (b : bexp) : Z :=
  match b with
  | BConst v => v
  | BPar i k => Z.land (Z.shiftr (arg args i) k) 255
  end.

(* per parameter: type, width in bits, mask -- computed once per method *)
Definition args_plan (ps : list pty) : list (pty * Z * Z) :=
  map (fun t => (t, pty_bits t, Z.ones (pty_bits t))) ps.

Fixpoint args_of_p (pl : list (pty * Z * Z)) (n : Z) : list Z :=
  match pl with
  | [] => []
  | (t, b, m) :: r =>
      let v := signed8 t (Z.land n m) in
      match r with
      | [] => [v]
      | _ => v :: args_of_p r (Z.shiftr n b)
      end
  end.

Definition args_of_f (ps : list pty) (n : Z) : list Z := args_of_p (args_plan ps) n.

Definition flags_after_e (e : effect) (args : list Z) (fl : Z) : Z :=
  match e with
  | ENone => fl
  | ERep i => Z.land fl (Z.lxor (arg args i mod 256) 255)
  | ESep i => Z.lor fl (arg args i mod 256)
  end.

(* [run] with everything that does not depend on the arguments taken out of the loop *)
Definition run_core (pan : bool) (kd : option ekind) (bs : list bexp) (e : effect) (args : list Z) (fl : Z) : outcome :=
  if pan then OPanic
  else match kd with
       | None => OBad
       | Some k => OOk (map (eval_b_f args) bs) (k_written k) (k_adv k) (flags_after_e e args fl)
       end.

Definition run_f (tk : tracker) (ks : list ekind) (d : desc) (args : list Z) (fl : Z) : outcome :=
  run_core (panics tk d fl) (find_kind ks (d_kind d)) (d_bytes d) (d_effect d) args fl.

(* every shift amount is non-negative (the translator only produces such descriptors) *)
Definition wf_desc (d : desc) : bool :=
  forallb (fun b => match b with BPar _ k => 0 <=? k | BConst _ => true end) (d_bytes d).

(* digests use primitive 63-bit integers; the model itself is evaluated over Z *)
Local Open Scope uint63_scope.
Definition mix (h v : int) : int := h * 1000003 + v + 1.
Local Close Scope uint63_scope.

Definition zi (z : Z) : int := Uint63.of_Z z.

Definition mix_outcome (fl : Z) (o : outcome) (h : int) : int :=
  match o with
  | OPanic => mix h (zi 1000001)
  | OBad => mix h (zi 1000002)
  | OOk bs dl dp fl' =>
      let h1 := fold_left (fun h b => mix h (zi b)) bs (mix h (zi (zlength bs))) in
      mix (mix (mix h1 (zi dl)) (zi dp)) (zi (Z.lxor fl' fl))
  end.

(* fold over the arithmetic progression base, base+step, ..., 2^k terms, by binary splitting *)
Fixpoint fold_prog (k : nat) (base step : Z) (f : Z -> int -> int) (h : int) : int :=
  match k with
  | O => f base h
  | S k' => fold_prog k' (base + Z.shiftl step (Z.of_nat k')) step f (fold_prog k' base step f h)
  end.

(* a progression: (start, step, k) = 2^k call numbers (start + j*step) mod 2^B *)
Definition prog := (Z * Z * nat)%type.

(* reference digest: by the div/mod model *)
Definition prog_digest (tk : tracker) (ks : list ekind) (d : desc) (fl : Z) (p : prog) : int :=
  let '(start, step, k) := p in
  let m := 2 ^ total_bits (d_ptys d) in
  fold_prog k start step (fun n h => mix_outcome fl (run tk ks d (args_of (d_ptys d) (n mod m)) fl) h) (zi 0).

(* the digest actually computed per run *)
Definition prog_digest_f (tk : tracker) (ks : list ekind) (d : desc) (fl : Z) (p : prog) : int :=
  let '(start, step, k) := p in
  let mask := Z.ones (total_bits (d_ptys d)) in
  let pl := args_plan (d_ptys d) in
  let pan := panics tk d fl in
  let kd := find_kind ks (d_kind d) in
  let bs := d_bytes d in
  let e := d_effect d in
  fold_prog k start step (fun n h => mix_outcome fl (run_core pan kd bs e (args_of_p pl (Z.land n mask)) fl) h) (zi 0).

(* a method whose outcome cannot depend on the tracked flags (proved: EncProps.state_indep_run) *)
Definition state_indep (d : desc) : bool :=
  match d_guard d, d_effect d with GNone, ENone => true | _, _ => false end.

(* digests per flag state (rows) and progression (columns); the four states are computed once when
   the descriptor is state independent.  EncProps.method_digests_spec: for a well-formed descriptor
   this is  map (fun fl => map (prog_digest tk ks d fl) ps) states. *)
Definition method_digests (tk : tracker) (ks : list ekind) (d : desc) (states : list Z) (ps : list prog)
  : list (list int) :=
  if state_indep d then
    let row := map (prog_digest_f tk ks d 0) ps in map (fun _ => row) states
  else map (fun fl => map (prog_digest_f tk ks d fl) ps) states.

Fixpoint find_desc (l : list desc) (name : string) : option desc :=
  match l with
  | [] => None
  | d :: r => if String.eqb (d_name d) name then Some d else find_desc r name
  end.

Fixpoint int_list_eqb (a b : list int) : bool :=
  match a, b with
  | [], [] => true
  | x :: a', y :: b' => Uint63.eqb x y && int_list_eqb a' b'
  | _, _ => false
  end.

Fixpoint rows_eqb (a b : list (list int)) : bool :=
  match a, b with
  | [], [] => true
  | x :: a', y :: b' => int_list_eqb x y && rows_eqb a' b'
  | _, _ => false
  end.

(* ------------------------------------------------------------------ coverage of the method set *)
Fixpoint mem_str (s : string) (l : list string) : bool :=
  match l with [] => false | x :: r => String.eqb s x || mem_str s r end.

Definition subset_str (a b : list string) : bool := forallb (fun s => mem_str s b) a.

(* reflected method set = instruction methods + the other exported methods, nothing else, no duplicates *)
Fixpoint nodup_str (l : list string) : bool :=
  match l with [] => true | x :: r => negb (mem_str x r) && nodup_str r end.

Definition covers (instr others reflected : list string) : bool :=
  subset_str reflected (instr ++ others) && subset_str (instr ++ others) reflected
  && nodup_str (instr ++ others).
