(* Hand-written executable model of emulator/bus/bus.go (Attach / EaRead / EaWrite / EaRead24_wrap / EaDump) and of the
   memories of emulator/memory/{ram,rom}.go, routine for routine.  No proofs here; the theorems are in
   Props/BusProps.v, the tie to the compiled code is re-checked on every run (build/work/Run/Cases_C13_*.v).

   Go                                      model
   -------------------------------------   ----------------------------------------------------------
   Bus.segment [1<<20]memory.Memory        routing = block index -> option memory-id (nil = None)
   uint32 start / end / a                  Z in [0, 2^32); `a++`, `end+1`, `address-offset` wrap (u32)
   Attach: two alignment checks, then      attach: AErr (routing unchanged) | AOk rt' | APanic rt'
     for x := start>>4; x <= end>>4; x++     [fill_loop] is the loop, literally; [fill_range] its closed
       segment[x] = mem                      form (Props: they agree on every block).  An index >= 2^20
                                             is Go's "index out of range": APanic, with the blocks the
                                             loop had stored before it died
   EaRead / EaWrite                        ea_read / ea_write: segment[a>>4] (Panic if a>>4 >= 2^20 or nil),
                                             then mem.Read(a) / mem.Write(a, v) with the unmodified address
   EaDump                                  ea_dump v: the segment-by-segment loop, inner counter n < 16.
                                             v = DumpCurrent : `for n := 0; ...`           (the code today)
                                             v = DumpRepaired: `for n := int(a & 0xf); ...` (fixes/bus13-1)
                                             -- the single difference is [dump_n0]
   memory.Memory values                    ids; [world] says what an id is:
     instrumented recorder                   KRec      Read(a) = rec_val id a, Write ignored
     memory.RAM{data, offset}                KRam off  data[address-offset], slice index out of range = Panic
     *memory.ROM{data, offset}               KRom off  Read as RAM, Write does nothing
   every Read/Write a memory receives      appended to one ordered log (id, 0|1, address, value) *before*
                                           the access is performed (so a panicking access is logged too)
   panic                                   Panic st : the state (log, stores) at the point of the panic
*)
From Coq Require Import ZArith List Bool.
From Lib Require Import ZList.
Import ListNotations.
Local Open Scope Z_scope.

Definition NSEG : Z := 1048576.
Definition u32 (x : Z) : Z := x mod 4294967296.

(* ------------------------------------------------------------------ memories *)
Inductive kind := KRec | KRam (offset : Z) | KRom (offset : Z).
Definition world := Z -> kind.

Fixpoint world_of (l : list (Z * kind)) : world :=
  match l with
  | [] => fun _ => KRec
  | (i, k) :: r => fun id => if id =? i then k else world_of r id
  end.

(* (memory id, 0 = Read | 1 = Write, address received, value received (0 for a Read)) *)
Definition event : Type := Z * Z * Z * Z.

(* log: newest first.  stores: contents of the RAM/ROM slices by memory id *)
Record state := mkState { log : list event; stores : list (Z * list Z) }.

Inductive res (A : Type) := Ok (a : A) (s : state) | Panic (s : state).
Arguments Ok {A} a s.
Arguments Panic {A} s.

Definition log_ev (st : state) (e : event) : state := mkState (e :: log st) (stores st).

Fixpoint get_assoc (l : list (Z * list Z)) (id : Z) : list Z :=
  match l with
  | [] => []
  | (i, d) :: r => if id =? i then d else get_assoc r id
  end.
Fixpoint set_assoc (l : list (Z * list Z)) (id : Z) (d : list Z) : list (Z * list Z) :=
  match l with
  | [] => [(id, d)]
  | (i, d0) :: r => if id =? i then (i, d) :: r else (i, d0) :: set_assoc r id d
  end.
Definition get_store (st : state) (id : Z) : list Z := get_assoc (stores st) id.
Definition set_store (st : state) (id : Z) (d : list Z) : state := mkState (log st) (set_assoc (stores st) id d).

(* what the instrumented recorder of the harness answers to Read(a) *)
Definition rec_val (id a : Z) : Z := (a + (a / 256) * 3 + id * 37) mod 256.

(* the byte a Read of memory [id] at [a] returns in state [st]; None = the slice index is out of range *)
Definition peek (W : world) (id a : Z) (st : state) : option Z :=
  match W id with
  | KRec => Some (rec_val id a)
  | KRam off | KRom off =>
      let d := get_store st id in
      let ix := u32 (a - off) in
      if ix <? zlen d then Some (znth d ix) else None
  end.

(* func (m RAM) Read(address uint32) byte { return m.data[address-m.offset] } *)
Definition mem_read (W : world) (id a : Z) (st : state) : res Z :=
  let st1 := log_ev st (id, 0, a, 0) in
  match peek W id a st with
  | Some v => Ok v st1
  | None => Panic st1
  end.

(* func (m RAM) Write(address uint32, value byte) { m.data[address-m.offset] = value } ; ROM: {} *)
Definition mem_write (W : world) (id a v : Z) (st : state) : res unit :=
  let st1 := log_ev st (id, 1, a, v) in
  match W id with
  | KRec => Ok tt st1
  | KRom _ => Ok tt st1
  | KRam off =>
      let d := get_store st id in
      let ix := u32 (a - off) in
      if ix <? zlen d then Ok tt (set_store st1 id (upd d ix v)) else Panic st1
  end.

(* ------------------------------------------------------------------ routing, Attach *)
Definition routing := Z -> option Z.
Definition empty_rt : routing := fun _ => None.

Definition set_block (rt : routing) (x m : Z) : routing := fun k => if k =? x then Some m else rt k.

(* for x := lo; x <= hi; x++ { b.segment[x] = mem }   -- result: table, and whether the index ran out of range *)
Fixpoint fill_loop (fuel : nat) (rt : routing) (m x hi : Z) : routing * bool :=
  match fuel with
  | O => (rt, false)
  | S f =>
      if x <=? hi then
        if x <? NSEG then fill_loop f (set_block rt x m) m (x + 1) hi
        else (rt, true)
      else (rt, false)
  end.

(* closed form of the same loop *)
Definition fill_range (rt : routing) (m lo hi : Z) : routing :=
  fun k => if (lo <=? k) && (k <=? hi) && (k <? NSEG) then Some m else rt k.
Definition fill_panics (lo hi : Z) : bool := (lo <=? hi) && (NSEG <=? hi).

Inductive attach_res := AOk (rt : routing) | AErr | APanic (rt : routing).

Definition start_aligned (start : Z) : bool := Z.land start 15 =? 0.
Definition end_aligned (end_ : Z) : bool := Z.land (u32 (end_ + 1)) 15 =? 0.

(* func (b *Bus) Attach(mem memory.Memory, name string, start uint32, end uint32) error *)
Definition attach (rt : routing) (m start end_ : Z) : attach_res :=
  if negb (start_aligned start) then AErr
  else if negb (end_aligned end_) then AErr
  else
    let lo := Z.shiftr start 4 in
    let hi := Z.shiftr end_ 4 in
    if fill_panics lo hi then APanic (fill_range rt m lo hi) else AOk (fill_range rt m lo hi).

(* the same with the loop run literally (fuel: the number of iterations the loop can make) *)
Definition attach_loop (rt : routing) (m start end_ : Z) : attach_res :=
  if negb (start_aligned start) then AErr
  else if negb (end_aligned end_) then AErr
  else
    let lo := Z.shiftr start 4 in
    let hi := Z.shiftr end_ 4 in
    let '(rt', p) := fill_loop (Z.to_nat (hi - lo + 1)) rt m lo hi in
    if p then APanic rt' else AOk rt'.

(* the table after the call, whatever its outcome (an error changes nothing) *)
Definition attach_rt (rt : routing) (m start end_ : Z) : routing :=
  match attach rt m start end_ with
  | AOk rt' => rt'
  | AErr => rt
  | APanic rt' => rt'
  end.

(* segment[a>>4] : Go panics with index out of range beyond the table *)
Definition seg_at (rt : routing) (a : Z) : option Z :=
  let k := Z.shiftr a 4 in if k <? NSEG then rt k else None.

(* func (b *Bus) EaRead(a uint32) byte *)
Definition ea_read (W : world) (rt : routing) (a : Z) (st : state) : res Z :=
  match seg_at rt a with
  | None => Panic st
  | Some m => mem_read W m a st
  end.

(* func (b *Bus) EaWrite(a uint32, value byte) *)
Definition ea_write (W : world) (rt : routing) (a v : Z) (st : state) : res unit :=
  match seg_at rt a with
  | None => Panic st
  | Some m => mem_write W m a v st
  end.

(* func (b *Bus) EaRead24_wrap(bank byte, addr uint16) uint32 : three byte reads whose offset wraps inside the
   bank (`addr+1`, `addr+2` in uint16); all three segments are looked up BEFORE the first Read, so an
   unattached one fails loudly without any memory having been touched.  [a] = bank<<16 | addr. *)
Definition r24_addr (a k : Z) : Z :=
  Z.lor (Z.shiftl (Z.land (Z.shiftr a 16) 255) 16) ((Z.land a 65535 + k) mod 65536).

Definition ea_read24_wrap (W : world) (rt : routing) (a : Z) (st : state) : res Z :=
  let a0 := r24_addr a 0 in
  let a1 := r24_addr a 1 in
  let a2 := r24_addr a 2 in
  match seg_at rt a0, seg_at rt a1, seg_at rt a2 with
  | Some m0, Some m1, Some m2 =>
      match mem_read W m0 a0 st with
      | Panic s0 => Panic s0
      | Ok ll s0 =>
          match mem_read W m1 a1 s0 with
          | Panic s1 => Panic s1
          | Ok mm s1 =>
              match mem_read W m2 a2 s1 with
              | Panic s2 => Panic s2
              | Ok hh s2 => Ok (Z.lor (Z.lor (Z.shiftl hh 16) (Z.shiftl mm 8)) ll) s2
              end
          end
      end
  | _, _, _ => Panic st
  end.

(* ------------------------------------------------------------------ EaDump *)
Inductive dump_variant := DumpCurrent | DumpRepaired.

(* where the per-segment counter starts *)
Definition dump_n0 (v : dump_variant) (a : Z) : Z :=
  match v with
  | DumpCurrent => 0
  | DumpRepaired => Z.land a 15
  end.

(* for n := n0; a <= end && n < 16; n++ { [data[i] = s.Read(a)]; a++; i++ }
   s = None is the nil-segment loop (skip), s = Some m the copy loop.  Go evaluates s.Read(a) and then
   performs the store data[i], whose index check panics when i is beyond len(data). *)
Fixpoint dump_inner (fuel : nat) (W : world) (s : option Z) (n a i end_ : Z) (data : list Z) (st : state)
  : res (Z * Z * list Z) :=
  match fuel with
  | O => Ok (a, i, data) st
  | S f =>
      if (a <=? end_) && (n <? 16) then
        match s with
        | None => dump_inner f W s (n + 1) (u32 (a + 1)) (i + 1) end_ data st
        | Some m =>
            match mem_read W m a st with
            | Panic st' => Panic st'
            | Ok b st' =>
                if i <? zlen data
                then dump_inner f W s (n + 1) (u32 (a + 1)) (i + 1) end_ (upd data i b) st'
                else Panic st'
            end
        end
      else Ok (a, i, data) st
  end.

(* for k := startK; k <= endK; k++ { s := b.segment[k]; ... } *)
Fixpoint dump_outer (fuel : nat) (v : dump_variant) (W : world) (rt : routing) (k endK a i end_ : Z)
  (data : list Z) (st : state) : res (Z * list Z) :=
  match fuel with
  | O => Ok (i, data) st
  | S f =>
      if k <=? endK then
        match dump_inner 16 W (rt k) (dump_n0 v a) a i end_ data st with
        | Panic st' => Panic st'
        | Ok (a', i', data') st' => dump_outer f v W rt (k + 1) endK a' i' end_ data' st'
        end
      else Ok (i, data) st
  end.

(* func (b *Bus) EaDump(start uint32, end uint32, data []byte) int *)
Definition ea_dump (v : dump_variant) (W : world) (rt : routing) (start end_ : Z) (data : list Z) (st : state)
  : res (Z * list Z) :=
  let startK := Z.shiftr (Z.land start 16777200) 4 in
  let endK := Z.shiftr (Z.land end_ 16777200) 4 in
  dump_outer (Z.to_nat (endK - startK + 1)) v W rt startK endK start 0 end_ data st.

(* ------------------------------------------------------------------ scripts of bus operations (tie) *)
(* 63-bit digest used to compare long observations (the bytes a dump left in data, the ordered log of what
   the memories received, the final contents of the slices) with the harness: h' = (h*1000003 + v + 1) & (2^63 - 1),
   the same fold as busMix in harness/bustool.go *)
Definition mixz (h v : Z) : Z := Z.land (h * 1000003 + v + 1) 9223372036854775807.
Definition dig_list (l : list Z) : Z := fold_left mixz l 0.
Definition dig_event (h : Z) (e : event) : Z :=
  let '(id, k, a, v) := e in mixz (mixz (mixz (mixz h id) k) a) v.
(* the log is kept newest first: fold from its old end *)
Definition dig_log (l : list event) : Z := fold_right (fun e h => dig_event h e) 0 l.

(* contents of a RAM/ROM slice at the start of a case: explicit bytes, or the harness' pattern busFill *)
Inductive init_data := Bytes (l : list Z) | Fill (seed n : Z).
Definition fill_byte (seed i : Z) : Z := (seed + i * 7 + (i / 16) * 3) mod 256.
Definition init_bytes (d : init_data) : list Z :=
  match d with
  | Bytes l => l
  | Fill seed n => map (fill_byte seed) (ziota 0 n)
  end.

(* one operation on a bus together with what the compiled code was observed to do *)
Inductive op :=
| OpAttach (m start end_ : Z) (obs : Z)                  (* obs: 0 = nil error, 1 = error, 2 = panic *)
| OpRead (a : Z) (obs : Z)                               (* obs: the byte, -1 = panic *)
| OpWrite (a v : Z) (obs : Z)                            (* obs: 0 = returned, -1 = panic *)
| OpRead24 (a : Z) (obs : Z)                             (* EaRead24_wrap(a>>16, a&$FFFF); obs: the value, -1 = panic *)
| OpDump (start end_ : Z) (sent len : Z) (obs_n : Z) (obs_data : Z).
  (* data = len bytes of sent; obs_n = -1: panic; obs_data = digest of data afterwards (0 after a panic) *)

Definition res_state {A} (r : res A) : state := match r with Ok _ s => s | Panic s => s end.

(* run one operation; false as soon as the model and the observation differ *)
Definition run_op (v : dump_variant) (W : world) (o : op) (rt : routing) (st : state) : bool * routing * state :=
  match o with
  | OpAttach m s e obs =>
      match attach rt m s e with
      | AOk rt' => (obs =? 0, rt', st)
      | AErr => (obs =? 1, rt, st)
      | APanic rt' => (obs =? 2, rt', st)
      end
  | OpRead a obs =>
      match ea_read W rt a st with
      | Ok b st' => (obs =? b, rt, st')
      | Panic st' => (obs =? -1, rt, st')
      end
  | OpWrite a b obs =>
      match ea_write W rt a b st with
      | Ok _ st' => (obs =? 0, rt, st')
      | Panic st' => (obs =? -1, rt, st')
      end
  | OpRead24 a obs =>
      match ea_read24_wrap W rt a st with
      | Ok b st' => (obs =? b, rt, st')
      | Panic st' => (obs =? -1, rt, st')
      end
  | OpDump s e sent len obs_n obs_data =>
      match ea_dump v W rt s e (repeat sent (Z.to_nat len)) st with
      | Ok (n, data') st' => ((obs_n =? n) && (dig_list data' =? obs_data), rt, st')
      | Panic st' => (obs_n =? -1, rt, st')
      end
  end.

Fixpoint run_ops (v : dump_variant) (W : world) (ops : list op) (rt : routing) (st : state) : bool * state :=
  match ops with
  | [] => (true, st)
  | o :: r =>
      let '(ok, rt', st') := run_op v W o rt st in
      if ok then run_ops v W r rt' st' else (false, st')
  end.

Fixpoint stores_agree (st : state) (obs : list (Z * Z)) : bool :=
  match obs with
  | [] => true
  | (id, d) :: r => (dig_list (get_store st id) =? d) && stores_agree st r
  end.

(* a case: the memories (kind and initial contents), the script with its observations, length and digest of
   the ordered log of everything the memories received, digests of the final contents of the slices *)
Record case := mkCase {
  c_world : list (Z * kind);
  c_init : list (Z * init_data);
  c_ops : list op;
  c_loglen : Z;
  c_log : Z;
  c_final : list (Z * Z)
}.

Definition agrees (v : dump_variant) (c : case) : bool :=
  let st0 := mkState [] (map (fun p => (fst p, init_bytes (snd p))) (c_init c)) in
  let '(ok, st) := run_ops v (world_of (c_world c)) (c_ops c) empty_rt st0 in
  ok && (zlen (log st) =? c_loglen c) && (dig_log (log st) =? c_log c) && stores_agree st (c_final c).

(* what the model does on a case, written out (used to explain a disagreement; not part of the tie) *)
Definition show_op (v : dump_variant) (W : world) (o : op) (rt : routing) (st : state) : Z * list Z :=
  match o with
  | OpAttach m s e _ => (match attach rt m s e with AOk _ => 0 | AErr => 1 | APanic _ => 2 end, [])
  | OpRead a _ => (match ea_read W rt a st with Ok b _ => b | Panic _ => -1 end, [])
  | OpWrite a b _ => (match ea_write W rt a b st with Ok _ _ => 0 | Panic _ => -1 end, [])
  | OpRead24 a _ => (match ea_read24_wrap W rt a st with Ok b _ => b | Panic _ => -1 end, [])
  | OpDump s e sent len _ _ =>
      match ea_dump v W rt s e (repeat sent (Z.to_nat len)) st with
      | Ok (n, d) _ => (n, d)
      | Panic _ => (-1, [])
      end
  end.
Fixpoint show_ops (v : dump_variant) (W : world) (ops : list op) (rt : routing) (st : state)
  : list (Z * list Z) * state :=
  match ops with
  | [] => ([], st)
  | o :: r =>
      let '(_, rt', st') := run_op v W o rt st in
      let '(rest, stf) := show_ops v W r rt' st' in
      (show_op v W o rt st :: rest, stf)
  end.
Definition show_case (v : dump_variant) (c : case) : list (Z * list Z) * list event :=
  let st0 := mkState [] (map (fun p => (fst p, init_bytes (snd p))) (c_init c)) in
  let '(outs, st) := show_ops v (world_of (c_world c)) (c_ops c) empty_rt st0 in
  (outs, rev (log st)).
