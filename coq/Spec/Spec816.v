(* Native-mode (E = 0) semantics of the W65C816S, written from the WDC data sheet / "Programming the
   65816" at the level of the programming model (instruction semantics, not bus cycles), over an
   ARCHITECTURAL state: no dual register copies, no decoded-operand scratch fields.  See DESIGN.md
   section 3 for the table of wrap rules this file encodes.

     state   A (16 bits: B:A, the hidden B included), X, Y, S, D : 16 bits; DBR, PBR : 8; PC : 16;
             P as its eight flags n v m x d i z c; E; stopped
     memory  Z -> Z, only [0, 2^24) is accessed; a byte is [m a mod 256]
     step    : arch -> mem -> arch * list (address * byte)     (writes in program order)

   Deliberately silent (see [decimal_arith], [bcd_defined]): ADC / SBC with d = 1 are specified for
   valid BCD operands only, and V after them is unconstrained (this file leaves V unchanged there and
   the comparison ignores it).  STP: PC advances by 1, the stop flag is set.  WAI with no interrupt
   source: 1-byte no-op.  Interrupt entry is not part of this file. *)
From Coq Require Import ZArith List Bool.
From Spec Require Import ISA.
Import ListNotations.
Local Open Scope Z_scope.

Definition mem := Z -> Z.

Record arch := mkArch {
  rA : Z; rX : Z; rY : Z; rS : Z; rD : Z; rDBR : Z; rPBR : Z; rPC : Z;
  fN : bool; fV : bool; fM : bool; fX : bool; fD : bool; fI : bool; fZ : bool; fC : bool;
  rE : bool; rStp : bool }.

Definition with_A v s := mkArch v (rX s) (rY s) (rS s) (rD s) (rDBR s) (rPBR s) (rPC s) (fN s) (fV s) (fM s) (fX s) (fD s) (fI s) (fZ s) (fC s) (rE s) (rStp s).
Definition with_X v s := mkArch (rA s) v (rY s) (rS s) (rD s) (rDBR s) (rPBR s) (rPC s) (fN s) (fV s) (fM s) (fX s) (fD s) (fI s) (fZ s) (fC s) (rE s) (rStp s).
Definition with_Y v s := mkArch (rA s) (rX s) v (rS s) (rD s) (rDBR s) (rPBR s) (rPC s) (fN s) (fV s) (fM s) (fX s) (fD s) (fI s) (fZ s) (fC s) (rE s) (rStp s).
Definition with_S v s := mkArch (rA s) (rX s) (rY s) v (rD s) (rDBR s) (rPBR s) (rPC s) (fN s) (fV s) (fM s) (fX s) (fD s) (fI s) (fZ s) (fC s) (rE s) (rStp s).
Definition with_D v s := mkArch (rA s) (rX s) (rY s) (rS s) v (rDBR s) (rPBR s) (rPC s) (fN s) (fV s) (fM s) (fX s) (fD s) (fI s) (fZ s) (fC s) (rE s) (rStp s).
Definition with_DBR v s := mkArch (rA s) (rX s) (rY s) (rS s) (rD s) v (rPBR s) (rPC s) (fN s) (fV s) (fM s) (fX s) (fD s) (fI s) (fZ s) (fC s) (rE s) (rStp s).
Definition with_PBR v s := mkArch (rA s) (rX s) (rY s) (rS s) (rD s) (rDBR s) v (rPC s) (fN s) (fV s) (fM s) (fX s) (fD s) (fI s) (fZ s) (fC s) (rE s) (rStp s).
Definition with_PC v s := mkArch (rA s) (rX s) (rY s) (rS s) (rD s) (rDBR s) (rPBR s) v (fN s) (fV s) (fM s) (fX s) (fD s) (fI s) (fZ s) (fC s) (rE s) (rStp s).
Definition with_N b s := mkArch (rA s) (rX s) (rY s) (rS s) (rD s) (rDBR s) (rPBR s) (rPC s) b (fV s) (fM s) (fX s) (fD s) (fI s) (fZ s) (fC s) (rE s) (rStp s).
Definition with_V b s := mkArch (rA s) (rX s) (rY s) (rS s) (rD s) (rDBR s) (rPBR s) (rPC s) (fN s) b (fM s) (fX s) (fD s) (fI s) (fZ s) (fC s) (rE s) (rStp s).
Definition with_M b s := mkArch (rA s) (rX s) (rY s) (rS s) (rD s) (rDBR s) (rPBR s) (rPC s) (fN s) (fV s) b (fX s) (fD s) (fI s) (fZ s) (fC s) (rE s) (rStp s).
Definition with_Xf b s := mkArch (rA s) (rX s) (rY s) (rS s) (rD s) (rDBR s) (rPBR s) (rPC s) (fN s) (fV s) (fM s) b (fD s) (fI s) (fZ s) (fC s) (rE s) (rStp s).
Definition with_Df b s := mkArch (rA s) (rX s) (rY s) (rS s) (rD s) (rDBR s) (rPBR s) (rPC s) (fN s) (fV s) (fM s) (fX s) b (fI s) (fZ s) (fC s) (rE s) (rStp s).
Definition with_I b s := mkArch (rA s) (rX s) (rY s) (rS s) (rD s) (rDBR s) (rPBR s) (rPC s) (fN s) (fV s) (fM s) (fX s) (fD s) b (fZ s) (fC s) (rE s) (rStp s).
Definition with_Z b s := mkArch (rA s) (rX s) (rY s) (rS s) (rD s) (rDBR s) (rPBR s) (rPC s) (fN s) (fV s) (fM s) (fX s) (fD s) (fI s) b (fC s) (rE s) (rStp s).
Definition with_C b s := mkArch (rA s) (rX s) (rY s) (rS s) (rD s) (rDBR s) (rPBR s) (rPC s) (fN s) (fV s) (fM s) (fX s) (fD s) (fI s) (fZ s) b (rE s) (rStp s).
Definition with_E b s := mkArch (rA s) (rX s) (rY s) (rS s) (rD s) (rDBR s) (rPBR s) (rPC s) (fN s) (fV s) (fM s) (fX s) (fD s) (fI s) (fZ s) (fC s) b (rStp s).
Definition with_Stp b s := mkArch (rA s) (rX s) (rY s) (rS s) (rD s) (rDBR s) (rPBR s) (rPC s) (fN s) (fV s) (fM s) (fX s) (fD s) (fI s) (fZ s) (fC s) (rE s) b.

(* ------------------------------------------------------------------ numbers, widths *)

Definition b2z (b : bool) : Z := if b then 1 else 0.
Definition w8 (v : Z) := v mod 256.
Definition w16 (v : Z) := v mod 65536.
Definition w24 (v : Z) := v mod 16777216.

Inductive width := W8 | W16.
Definition wmod (w : width) : Z := match w with W8 => 256 | W16 => 65536 end.
Definition wsgn (w : width) : Z := match w with W8 => 128 | W16 => 32768 end.
Definition wtrunc (w : width) (v : Z) := v mod wmod w.

Definition mw (s : arch) : width := if fM s then W8 else W16.   (* accumulator / memory width *)
Definition xw (s : arch) : width := if fX s then W8 else W16.   (* index width *)

(* the accumulator as an operand of width w; writing it back in width 8 keeps the hidden B *)
Definition acc (w : width) (s : arch) : Z := rA s mod wmod w.
Definition with_acc (w : width) (v : Z) (s : arch) : arch :=
  match w with
  | W8 => with_A ((rA s / 256) mod 256 * 256 + v mod 256) s
  | W16 => with_A (v mod 65536) s
  end.
(* index registers read as their 8-bit value when x = 1 *)
Definition xr (s : arch) : Z := rX s mod wmod (xw s).
Definition yr (s : arch) : Z := rY s mod wmod (xw s).

(* the status register *)
Definition P_of (s : arch) : Z :=
  b2z (fC s) + 2 * b2z (fZ s) + 4 * b2z (fI s) + 8 * b2z (fD s) + 16 * b2z (fX s) + 32 * b2z (fM s)
  + 64 * b2z (fV s) + 128 * b2z (fN s).
Definition bit (v k : Z) : bool := Z.odd (v / 2 ^ k).
(* whenever x is (or becomes) 1 the high bytes of X and Y are zero *)
Definition norm_x (s : arch) : arch :=
  if fX s then with_X (rX s mod 256) (with_Y (rY s mod 256) s) else s.
Definition with_P (v : Z) (s : arch) : arch :=
  norm_x (with_C (bit v 0) (with_Z (bit v 1) (with_I (bit v 2) (with_Df (bit v 3) (with_Xf (bit v 4)
         (with_M (bit v 5) (with_V (bit v 6) (with_N (bit v 7) s)))))))).

Definition set_nz (w : width) (v : Z) (s : arch) : arch := with_N (wsgn w <=? v) (with_Z (v =? 0) s).

(* ------------------------------------------------------------------ memory *)

Definition byte (m : mem) (a : Z) : Z := m a mod 256.
Definition ba (bank off : Z) : Z := bank * 65536 + off.

(* Where a datum lives, together with the rule for its 2nd / 3rd byte:
   LWrap b o : at b:o, following bytes at b:(o+1 mod 2^16), ...   (direct page, stack, pointers,
               operands: they wrap inside their bank)
   LLin ea   : at ea, following bytes at ea+1 mod 2^24             (data reached through abs, long
               and the indirect modes: they cross banks)
   LAcc      : the accumulator *)
Inductive loc := LAcc | LWrap (bank off : Z) | LLin (ea : Z).

Definition loc_byte (l : loc) (k : Z) : Z :=
  match l with
  | LWrap b o => ba b (w16 (o + k))
  | LLin ea => w24 (ea + k)
  | LAcc => 0
  end.

Definition rd8 (m : mem) (l : loc) : Z := byte m (loc_byte l 0).
Definition rd16 (m : mem) (l : loc) : Z := byte m (loc_byte l 0) + 256 * byte m (loc_byte l 1).
Definition rd24 (m : mem) (l : loc) : Z :=
  byte m (loc_byte l 0) + 256 * byte m (loc_byte l 1) + 65536 * byte m (loc_byte l 2).
Definition rdw (w : width) (m : mem) (l : loc) : Z := match w with W8 => rd8 m l | W16 => rd16 m l end.

Definition writes := list (Z * Z).
Definition wrw (w : width) (l : loc) (v : Z) : writes :=
  match w with
  | W8 => [(loc_byte l 0, v mod 256)]
  | W16 => [(loc_byte l 0, v mod 256); (loc_byte l 1, (v / 256) mod 256)]
  end.

(* memory after a list of writes (performed left to right) *)
Fixpoint apply_writes (ws : writes) (m : mem) : mem :=
  match ws with
  | [] => m
  | (a, v) :: r => apply_writes r (fun b => if b =? a then v else m b)
  end.

(* the stack: always bank 0, S wraps on 16 bits *)
Definition push8 (v : Z) (sw : arch * writes) : arch * writes :=
  let (s, ws) := sw in (with_S (w16 (rS s - 1)) s, ws ++ [(rS s, v mod 256)]).
Definition push16 (v : Z) (sw : arch * writes) : arch * writes :=
  push8 (v mod 256) (push8 ((v / 256) mod 256) sw).
Definition pushw (w : width) (v : Z) (sw : arch * writes) : arch * writes :=
  match w with W8 => push8 v sw | W16 => push16 v sw end.
Definition pull8 (m : mem) (s : arch) : Z * arch :=
  let a := w16 (rS s + 1) in (byte m a, with_S a s).
Definition pull16 (m : mem) (s : arch) : Z * arch :=
  let (lo, s1) := pull8 m s in let (hi, s2) := pull8 m s1 in (lo + 256 * hi, s2).
Definition pullw (w : width) (m : mem) (s : arch) : Z * arch :=
  match w with W8 => pull8 m s | W16 => pull16 m s end.

(* ------------------------------------------------------------------ operand location per mode

   o1 o2 o3 are the operand bytes (fetched at PBR:PC+1.. with wrap inside PBR). *)
Definition oploc (md : mode) (s : arch) (m : mem) (o1 o2 o3 : Z) : loc :=
  let o16 := o1 + 256 * o2 in
  let o24 := o1 + 256 * o2 + 65536 * o3 in
  match md with
  | ImmM | ImmX | Imm8 | Imm16 => LWrap (rPBR s) (w16 (rPC s + 1))
  | Dp => LWrap 0 (w16 (rD s + o1))
  | DpX => LWrap 0 (w16 (rD s + o1 + xr s))
  | DpY => LWrap 0 (w16 (rD s + o1 + yr s))
  | Sr => LWrap 0 (w16 (rS s + o1))
  | DpInd => LLin (ba (rDBR s) (rd16 m (LWrap 0 (w16 (rD s + o1)))))
  | DpIndX => LLin (ba (rDBR s) (rd16 m (LWrap 0 (w16 (rD s + o1 + xr s)))))
  | DpIndY => LLin (w24 (ba (rDBR s) (rd16 m (LWrap 0 (w16 (rD s + o1)))) + yr s))
  | DpIndL => LLin (rd24 m (LWrap 0 (w16 (rD s + o1))))
  | DpIndLY => LLin (w24 (rd24 m (LWrap 0 (w16 (rD s + o1))) + yr s))
  | SrIndY => LLin (w24 (ba (rDBR s) (rd16 m (LWrap 0 (w16 (rS s + o1)))) + yr s))
  | Abs => LLin (ba (rDBR s) o16)
  | AbsX => LLin (w24 (ba (rDBR s) o16 + xr s))
  | AbsY => LLin (w24 (ba (rDBR s) o16 + yr s))
  | Long => LLin o24
  | LongX => LLin (w24 (o24 + xr s))
  | Acc | Imp | AbsInd | AbsIndX | AbsIndL | Rel8 | Rel16 | BlockMove => LAcc
  end.

(* ------------------------------------------------------------------ arithmetic cores *)

Definition signed (w : width) (v : Z) : Z := if v <? wsgn w then v else v - wmod w.
Definition oflow (w : width) (t : Z) : bool := (t <? - wsgn w) || (wsgn w <=? t).

(* packed BCD, 2 or 4 digits *)
Definition nib (v k : Z) : Z := (v / 16 ^ k) mod 16.
Definition bcd_valid (w : width) (v : Z) : bool :=
  (nib v 0 <=? 9) && (nib v 1 <=? 9) &&
  match w with W8 => true | W16 => (nib v 2 <=? 9) && (nib v 3 <=? 9) end.
Definition of_bcd (v : Z) : Z := nib v 0 + 10 * nib v 1 + 100 * nib v 2 + 1000 * nib v 3.
Definition to_bcd (n : Z) : Z :=
  n mod 10 + 16 * ((n / 10) mod 10) + 256 * ((n / 100) mod 10) + 4096 * ((n / 1000) mod 10).
Definition bcd_lim (w : width) : Z := match w with W8 => 100 | W16 => 10000 end.

Definition do_adc (w : width) (b : Z) (s : arch) : arch :=
  let a := acc w s in
  let c := b2z (fC s) in
  if fD s then
    let t := of_bcd a + of_bcd b + c in
    let r := to_bcd (t mod bcd_lim w) in
    with_C (bcd_lim w <=? t) (set_nz w r (with_acc w r s))
  else
    let t := a + b + c in
    let r := t mod wmod w in
    with_C (wmod w <=? t) (with_V (oflow w (signed w a + signed w b + c)) (set_nz w r (with_acc w r s))).

Definition do_sbc (w : width) (b : Z) (s : arch) : arch :=
  let a := acc w s in
  let c := b2z (fC s) in
  if fD s then
    let t := of_bcd a - of_bcd b - (1 - c) in
    let r := to_bcd (t mod bcd_lim w) in
    with_C (0 <=? t) (set_nz w r (with_acc w r s))
  else
    let t := a - b - (1 - c) in
    let r := t mod wmod w in
    with_C (0 <=? t) (with_V (oflow w (signed w a - signed w b - (1 - c))) (set_nz w r (with_acc w r s))).

Definition do_cmp (w : width) (a b : Z) (s : arch) : arch :=
  with_C (b <=? a) (set_nz w ((a - b) mod wmod w) s).

Definition do_logic (f : Z -> Z -> Z) (w : width) (b : Z) (s : arch) : arch :=
  let r := f (acc w s) b in set_nz w r (with_acc w r s).

(* read-modify-write on memory or on the accumulator; f : value -> state -> new value * state *)
Definition rmw (w : width) (l : loc) (m : mem) (f : Z -> arch -> Z * arch) (s : arch) : arch * writes :=
  match l with
  | LAcc => let (r, s1) := f (acc w s) s in (with_acc w r s1, [])
  | _ => let (r, s1) := f (rdw w m l) s in (s1, wrw w l r)
  end.

Definition f_asl w (v : Z) (s : arch) := let r := (2 * v) mod wmod w in (r, with_C (wsgn w <=? v) (set_nz w r s)).
Definition f_lsr w (v : Z) (s : arch) := let r := v / 2 in (r, with_C (Z.odd v) (set_nz w r s)).
Definition f_rol w (v : Z) (s : arch) := let r := (2 * v + b2z (fC s)) mod wmod w in (r, with_C (wsgn w <=? v) (set_nz w r s)).
Definition f_ror w (v : Z) (s : arch) := let r := v / 2 + b2z (fC s) * wsgn w in (r, with_C (Z.odd v) (set_nz w r s)).
Definition f_inc w (v : Z) (s : arch) := let r := (v + 1) mod wmod w in (r, set_nz w r s).
Definition f_dec w (v : Z) (s : arch) := let r := (v - 1) mod wmod w in (r, set_nz w r s).
Definition f_tsb w (v : Z) (s : arch) := (Z.lor v (acc w s), with_Z (Z.land v (acc w s) =? 0) s).
Definition f_trb w (v : Z) (s : arch) := (v - Z.land v (acc w s), with_Z (Z.land v (acc w s) =? 0) s).

Definition sext8 (o : Z) : Z := if o <? 128 then o else o - 256.

(* ------------------------------------------------------------------ one instruction

   s0 is the state at the fetch, s the same state with PC already advanced past the instruction
   (inside PBR); o1 o2 o3 the operand bytes. *)
Definition exec (mn : mnem) (md : mode) (s0 : arch) (m : mem) (o1 o2 o3 : Z) (len : Z) : arch * writes :=
  let s := with_PC (w16 (rPC s0 + len)) s0 in
  let l := oploc md s0 m o1 o2 o3 in
  let o16 := o1 + 256 * o2 in
  let mW := mw s0 in
  let xW := xw s0 in
  let branch (c : bool) := ((if c then with_PC (w16 (rPC s + sext8 o1)) s else s), []) in
  match mn with
  (* loads, stores *)
  | LDA => let v := rdw mW m l in (set_nz mW v (with_acc mW v s), [])
  | LDX => let v := rdw xW m l in (set_nz xW v (with_X v s), [])
  | LDY => let v := rdw xW m l in (set_nz xW v (with_Y v s), [])
  | STA => (s, wrw mW l (acc mW s))
  | STX => (s, wrw xW l (xr s))
  | STY => (s, wrw xW l (yr s))
  | STZ => (s, wrw mW l 0)
  (* arithmetic, logic *)
  | ADC => (do_adc mW (rdw mW m l) s, [])
  | SBC => (do_sbc mW (rdw mW m l) s, [])
  | CMP => (do_cmp mW (acc mW s) (rdw mW m l) s, [])
  | CPX => (do_cmp xW (xr s) (rdw xW m l) s, [])
  | CPY => (do_cmp xW (yr s) (rdw xW m l) s, [])
  | AND => (do_logic Z.land mW (rdw mW m l) s, [])
  | ORA => (do_logic Z.lor mW (rdw mW m l) s, [])
  | EOR => (do_logic Z.lxor mW (rdw mW m l) s, [])
  | BIT =>
      let v := rdw mW m l in
      let s1 := with_Z (Z.land (acc mW s) v =? 0) s in
      (match md with
       | ImmM => s1                                   (* BIT # changes Z only *)
       | _ => with_N (wsgn mW <=? v) (with_V (Z.odd (v / (wsgn mW / 2))) s1)
       end, [])
  | ASL => rmw mW l m (f_asl mW) s
  | LSR => rmw mW l m (f_lsr mW) s
  | ROL => rmw mW l m (f_rol mW) s
  | ROR => rmw mW l m (f_ror mW) s
  | INC => rmw mW l m (f_inc mW) s
  | DEC => rmw mW l m (f_dec mW) s
  | TSB => rmw mW l m (f_tsb mW) s
  | TRB => rmw mW l m (f_trb mW) s
  | INX => let r := (xr s + 1) mod wmod xW in (set_nz xW r (with_X r s), [])
  | INY => let r := (yr s + 1) mod wmod xW in (set_nz xW r (with_Y r s), [])
  | DEX => let r := (xr s - 1) mod wmod xW in (set_nz xW r (with_X r s), [])
  | DEY => let r := (yr s - 1) mod wmod xW in (set_nz xW r (with_Y r s), [])
  (* flags *)
  | CLC => (with_C false s, []) | SEC => (with_C true s, [])
  | CLD => (with_Df false s, []) | SED => (with_Df true s, [])
  | CLI => (with_I false s, []) | SEI => (with_I true s, [])
  | CLV => (with_V false s, [])
  | REP => (with_P (Z.land (P_of s) (255 - o1)) s, [])
  | SEP => (with_P (Z.lor (P_of s) o1) s, [])
  | XCE =>
      (* exchange carry and emulation; this file is used with E = 0 at the fetch *)
      let e' := fC s in
      let s1 := with_C (rE s) (with_E e' s) in
      (if e' then norm_x (with_M true (with_Xf true (with_S (256 + rS s mod 256) s1))) else s1, [])
  (* transfers *)
  | TAX => let v := rA s mod wmod xW in (set_nz xW v (with_X v s), [])
  | TAY => let v := rA s mod wmod xW in (set_nz xW v (with_Y v s), [])
  | TXA => let v := xr s mod wmod mW in (set_nz mW v (with_acc mW v s), [])
  | TYA => let v := yr s mod wmod mW in (set_nz mW v (with_acc mW v s), [])
  | TXY => let v := xr s in (set_nz xW v (with_Y v s), [])
  | TYX => let v := yr s in (set_nz xW v (with_X v s), [])
  | TSX => let v := rS s mod wmod xW in (set_nz xW v (with_X v s), [])
  | TXS => (with_S (xr s) s, [])
  | TCS => (with_S (rA s) s, [])
  | TSC => (set_nz W16 (rS s) (with_A (rS s) s), [])
  | TCD => (set_nz W16 (rA s) (with_D (rA s) s), [])
  | TDC => (set_nz W16 (rD s) (with_A (rD s) s), [])
  | XBA => let r := (rA s mod 256) * 256 + (rA s / 256) mod 256 in (set_nz W8 (r mod 256) (with_A r s), [])
  (* stack *)
  | PHA => pushw mW (acc mW s) (s, [])
  | PHX => pushw xW (xr s) (s, [])
  | PHY => pushw xW (yr s) (s, [])
  | PHP => push8 (P_of s) (s, [])
  | PHB => push8 (rDBR s) (s, [])
  | PHK => push8 (rPBR s) (s, [])
  | PHD => push16 (rD s) (s, [])
  | PEA => push16 o16 (s, [])
  | PEI => push16 (rd16 m (LWrap 0 (w16 (rD s + o1)))) (s, [])
  | PER => push16 (w16 (rPC s + o16)) (s, [])
  | PLA => let (v, s1) := pullw mW m s in (set_nz mW v (with_acc mW v s1), [])
  | PLX => let (v, s1) := pullw xW m s in (set_nz xW v (with_X v s1), [])
  | PLY => let (v, s1) := pullw xW m s in (set_nz xW v (with_Y v s1), [])
  | PLP => let (v, s1) := pull8 m s in (with_P v s1, [])
  | PLB => let (v, s1) := pull8 m s in (set_nz W8 v (with_DBR v s1), [])
  | PLD => let (v, s1) := pull16 m s in (set_nz W16 v (with_D v s1), [])
  (* flow *)
  | BRA => branch true
  | BCC => branch (negb (fC s)) | BCS => branch (fC s)
  | BNE => branch (negb (fZ s)) | BEQ => branch (fZ s)
  | BPL => branch (negb (fN s)) | BMI => branch (fN s)
  | BVC => branch (negb (fV s)) | BVS => branch (fV s)
  | BRL => (with_PC (w16 (rPC s + o16)) s, [])
  | JMP =>
      (match md with
       | AbsInd => with_PC (rd16 m (LWrap 0 o16)) s
       | AbsIndX => with_PC (rd16 m (LWrap (rPBR s) (w16 (o16 + xr s)))) s
       | _ => with_PC o16 s
       end, [])
  | JML =>
      (match md with
       | AbsIndL => let p := rd24 m (LWrap 0 o16) in with_PBR (p / 65536) (with_PC (p mod 65536) s)
       | _ => with_PBR o3 (with_PC o16 s)
       end, [])
  | JSR =>
      let (s1, ws) := push16 (w16 (rPC s - 1)) (s, []) in
      (match md with
       | AbsIndX => with_PC (rd16 (apply_writes ws m) (LWrap (rPBR s) (w16 (o16 + xr s)))) s1
       | _ => with_PC o16 s1
       end, ws)
  | JSL =>
      let (s1, ws) := push16 (w16 (rPC s - 1)) (push8 (rPBR s) (s, [])) in
      (with_PBR o3 (with_PC o16 s1), ws)
  | RTS => let (v, s1) := pull16 m s in (with_PC (w16 (v + 1)) s1, [])
  | RTL => let (v, s1) := pull16 m s in let (k, s2) := pull8 m s1 in (with_PBR k (with_PC (w16 (v + 1)) s2), [])
  | RTI =>
      let (p, s1) := pull8 m s in let (v, s2) := pull16 m s1 in let (k, s3) := pull8 m s2 in
      (with_P p (with_PBR k (with_PC v s3)), [])
  | BRK | COP =>
      let (s1, ws) := push8 (P_of s) (push16 (rPC s) (push8 (rPBR s) (s, []))) in
      let vec := match mn with BRK => 65510 | _ => 65508 end in          (* 00:FFE6 / 00:FFE4 *)
      (with_PC (rd16 (apply_writes ws m) (LWrap 0 vec)) (with_PBR 0 (with_Df false (with_I true s1))), ws)
  (* block moves: one byte per execution, repeated until C = $FFFF.  operand: dst bank, src bank *)
  | MVN | MVP =>
      let d := match mn with MVN => 1 | _ => -1 end in
      let v := byte m (ba o2 (xr s)) in
      let c := w16 (rA s - 1) in
      let s1 := with_DBR o1 (with_A c (with_Y ((yr s + d) mod wmod xW) (with_X ((xr s + d) mod wmod xW) s))) in
      ((if c =? 65535 then s1 else with_PC (rPC s0) s1), [(ba o1 (yr s), v)])
  (* misc *)
  | NOP | WDM | WAI => (s, [])
  | STP => (with_Stp true s, [])
  end.

Definition fetch (s : arch) (m : mem) (k : Z) : Z := byte m (ba (rPBR s) (w16 (rPC s + k))).

Definition step (s : arch) (m : mem) : arch * writes :=
  let op := fetch s m 0 in
  let (mn, md) := decode op in
  exec mn md s m (fetch s m 1) (fetch s m 2) (fetch s m 3) (ISA.length md (fM s) (fX s)).

Definition step_state (s : arch) (m : mem) : arch := fst (step s m).
Definition step_mem (s : arch) (m : mem) : mem := apply_writes (snd (step s m)) m.

(* where the specification is silent *)
Definition decimal_arith (s : arch) (m : mem) : bool :=
  fD s && match mnem_of (fetch s m 0) with ADC | SBC => true | _ => false end.
Definition bcd_defined (s : arch) (m : mem) : bool :=
  negb (decimal_arith s m) ||
  let md := mode_of (fetch s m 0) in
  bcd_valid (mw s) (acc (mw s) s) &&
  bcd_valid (mw s) (rdw (mw s) m (oploc md s m (fetch s m 1) (fetch s m 2) (fetch s m 3))).

(* architectural well-formedness *)
Definition in_range (v lim : Z) : bool := (0 <=? v) && (v <? lim).
Definition arch_wf (s : arch) : bool :=
  in_range (rA s) 65536 && in_range (rX s) 65536 && in_range (rY s) 65536 && in_range (rS s) 65536 &&
  in_range (rD s) 65536 && in_range (rDBR s) 256 && in_range (rPBR s) 256 && in_range (rPC s) 65536 &&
  (negb (fX s) || (in_range (rX s) 256 && in_range (rY s) 256)).

(* n instructions *)
Fixpoint run (n : nat) (s : arch) (m : mem) : arch * mem :=
  match n with
  | O => (s, m)
  | S k => let (s1, ws) := step s m in run k s1 (apply_writes ws m)
  end.
