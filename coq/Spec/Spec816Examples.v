(* Sanity examples for Spec816 from the WDC manual's descriptions, checked by computation, so that the
   specification is exercised before anything is proved against it or compared with it. *)
From Coq Require Import ZArith List Bool.
From Spec Require Import ISA Spec816.
Import ListNotations.
Local Open Scope Z_scope.

Fixpoint lookup (l : list (Z * Z)) (a : Z) : Z :=
  match l with [] => 0 | (b, v) :: r => if a =? b then v else lookup r a end.
Definition mk (l : list (Z * Z)) : mem := lookup l.
(* code bytes at consecutive addresses *)
Fixpoint at_ (a : Z) (bs : list Z) : list (Z * Z) :=
  match bs with [] => [] | b :: r => (a, b) :: at_ (a + 1) r end.

(* reset-like native state: m = x = 1, PC = $8000 in bank 0, S = $01FF *)
Definition s8 : arch := mkArch 0 0 0 511 0 0 0 32768 false false true true false false false false false false.
Definition s16 : arch := with_M false (with_Xf false s8).

(* --- decimal arithmetic (valid BCD) *)
Example bcd_09_plus_09 :   (* SED; CLC; LDA #$09; ADC #$09  ->  $18, carry clear *)
  let s := with_Df true (with_A 9 s8) in
  let s' := step_state s (mk (at_ 32768 [105; 9])) in
  (rA s', fC s', fZ s', fN s', rPC s') = (24, false, false, false, 32770).
Proof. vm_compute. reflexivity. Qed.
Example bcd_99_plus_01 :   (* $99 + $01 = $00, carry set *)
  let s := with_Df true (with_A 153 s8) in
  let s' := step_state s (mk (at_ 32768 [105; 1])) in (rA s', fC s', fZ s') = (0, true, true).
Proof. vm_compute. reflexivity. Qed.
Example bcd_58_plus_46_plus_c : (* $58 + $46 + 1 = $05 carry set (105) *)
  let s := with_C true (with_Df true (with_A 88 s8)) in
  let s' := step_state s (mk (at_ 32768 [105; 70])) in (rA s', fC s') = (5, true).
Proof. vm_compute. reflexivity. Qed.
Example bcd16_1999_plus_0001 : (* 16 bit: $1999 + $0001 = $2000 *)
  let s := with_Df true (with_A 6553 s16) in
  let s' := step_state s (mk (at_ 32768 [105; 1; 0])) in (rA s', fC s', rPC s') = (8192, false, 32771).
Proof. vm_compute. reflexivity. Qed.
Example bcd_sbc_10_minus_01 : (* SEC; $10 - $01 = $09, carry set (no borrow) *)
  let s := with_C true (with_Df true (with_A 16 s8)) in
  let s' := step_state s (mk (at_ 32768 [233; 1])) in (rA s', fC s') = (9, true).
Proof. vm_compute. reflexivity. Qed.
Example bcd_sbc_00_minus_01 : (* SEC; $00 - $01 = $99, carry clear (borrow) *)
  let s := with_C true (with_Df true s8) in
  let s' := step_state s (mk (at_ 32768 [233; 1])) in (rA s', fC s', fN s') = (153, false, true).
Proof. vm_compute. reflexivity. Qed.
Example bcd_defined_only_for_valid_operands :
  bcd_defined (with_Df true (with_A 10 s8)) (mk (at_ 32768 [105; 1])) = false /\
  bcd_defined (with_Df true (with_A 9 s8)) (mk (at_ 32768 [105; 1])) = true /\
  bcd_defined (with_A 10 s8) (mk (at_ 32768 [105; 1])) = true.
Proof. vm_compute. repeat split. Qed.

(* --- binary arithmetic *)
Example adc_overflow : (* $7F + $01 = $80: N, V set, C clear *)
  let s' := step_state (with_A 127 s8) (mk (at_ 32768 [105; 1])) in (rA s', fN s', fV s', fC s') = (128, true, true, false).
Proof. vm_compute. reflexivity. Qed.
Example adc_keeps_B : (* 8-bit ADC leaves the hidden B alone *)
  let s' := step_state (with_A 4863 s8) (mk (at_ 32768 [105; 1])) in (rA s', fC s', fZ s') = (4608, true, true).
Proof. vm_compute. reflexivity. Qed.
Example sbc_borrow : (* SEC; $00 - $01 = $FF, C clear *)
  let s' := step_state (with_C true s8) (mk (at_ 32768 [233; 1])) in (rA s', fC s', fN s', fV s') = (255, false, true, false).
Proof. vm_compute. reflexivity. Qed.
Example cmp_16 : (* CMP #$1234 with A = $1234: Z, C *)
  let s' := step_state (with_A 4660 s16) (mk (at_ 32768 [201; 52; 18])) in (fZ s', fC s', fN s', rA s') = (true, true, false, 4660).
Proof. vm_compute. reflexivity. Qed.

(* --- XBA: flags from the new low byte *)
Example xba_flags_1 : (* A = $0080 -> $8000; new low byte 0: Z set, N clear *)
  let s' := step_state (with_A 128 s16) (mk (at_ 32768 [235])) in (rA s', fZ s', fN s') = (32768, true, false).
Proof. vm_compute. reflexivity. Qed.
Example xba_flags_2 : (* A = $8000 -> $0080: N set although the 16-bit value is positive *)
  let s' := step_state (with_A 32768 s16) (mk (at_ 32768 [235])) in (rA s', fZ s', fN s') = (128, false, true).
Proof. vm_compute. reflexivity. Qed.

(* --- MVN of three bytes: LDA #2 / LDX #$1000 / LDY #$2000 / MVN $7F,$7E  (54 dst src) *)
Example mvn_three_bytes :
  let m := mk (at_ 32768 [84; 127; 126] ++ at_ (126 * 65536 + 4096) [17; 34; 51; 68]) in
  let s := with_A 2 (with_X 4096 (with_Y 8192 s16)) in
  let '(s', m') := run 3 s m in
  (rA s', rX s', rY s', rDBR s', rPC s') = (65535, 4099, 8195, 127, 32771) /\
  (m' (127 * 65536 + 8192), m' (127 * 65536 + 8193), m' (127 * 65536 + 8194), m' (127 * 65536 + 8195)) = (17, 34, 51, 0) /\
  rPC (fst (run 2 s m)) = 32768.
Proof. vm_compute. repeat split. Qed.
Example mvp_one_byte_8bit_index : (* x = 1: X, Y wrap in 8 bits; C counts in all 16 bits even when m = 1 *)
  let m := mk (at_ 32768 [68; 2; 1] ++ [(65536, 171)]) in
  let s := with_A 256 (with_X 0 (with_Y 0 s8)) in
  let '(s', ws) := step s m in
  (rA s', rX s', rY s', rDBR s', rPC s', ws) = (255, 255, 255, 2, 32768, [(131072, 171)]).
Proof. vm_compute. reflexivity. Qed.

(* --- REP / SEP: setting x clears XH / YH for good *)
Example sep_rep_clears_high_index : (* LDX #$1234 ; SEP #$10 ; REP #$10  ->  X = $0034 *)
  let m := mk (at_ 32768 [162; 52; 18; 226; 16; 194; 16]) in
  let '(s1, _) := run 1 s16 m in let '(s2, _) := run 2 s16 m in let '(s3, _) := run 3 s16 m in
  (rX s1, rX s2, fX s2, rX s3, fX s3, rPC s3) = (4660, 52, true, 52, false, 32775).
Proof. vm_compute. reflexivity. Qed.
Example sep_m_keeps_B : (* SEP #$20 does not change the hidden B; LDA #$FF 8-bit keeps it; REP #$20 shows it *)
  let m := mk (at_ 32768 [226; 32; 169; 255; 194; 32]) in
  let '(s3, _) := run 3 (with_A 4660 s16) m in (rA s3, fM s3) = (4863, false).
Proof. vm_compute. reflexivity. Qed.
Example plp_sets_x_clears_high : (* PLP pulling $10 with X = $1234 *)
  let m := mk (at_ 32768 [40] ++ [(512, 16)]) in
  let s' := step_state (with_X 4660 (with_Y 65535 s16)) m in (rX s', rY s', fX s', fM s', rS s') = (52, 255, true, false, 512).
Proof. vm_compute. reflexivity. Qed.
Example xce_to_emulation : (* SEC ; XCE from native 16-bit: E = 1, m = x = 1, SH = 1, XH = YH = 0, C = old E = 0 *)
  let m := mk (at_ 32768 [56; 251]) in
  let '(s', _) := run 2 (with_S 4660 (with_X 4660 (with_Y 65535 s16))) m in
  (rE s', fM s', fX s', rS s', rX s', rY s', fC s') = (true, true, true, 308, 52, 255, false).
Proof. vm_compute. reflexivity. Qed.

(* --- JSL / RTL round trip *)
Example jsl_rtl_round_trip : (* 00:8000 JSL $123456 ; 12:3456 RTL *)
  let m := mk (at_ 32768 [34; 86; 52; 18] ++ [(18 * 65536 + 13398, 107)]) in
  let '(s1, m1) := run 1 s16 m in let '(s2, _) := run 2 s16 m in
  (rPBR s1, rPC s1, rS s1, m1 511, m1 510, m1 509) = (18, 13398, 508, 0, 128, 3) /\
  (rPBR s2, rPC s2, rS s2) = (0, 32772, 511).
Proof. vm_compute. repeat split. Qed.
Example jsr_rts_round_trip :
  let m := mk (at_ 32768 [32; 0; 144] ++ [(36864, 96)]) in
  let '(s1, m1) := run 1 s16 m in let '(s2, _) := run 2 s16 m in
  (rPC s1, rS s1, m1 511, m1 510) = (36864, 509, 128, 2) /\ (rPC s2, rS s2) = (32771, 511).
Proof. vm_compute. repeat split. Qed.

(* --- wrap rules *)
Example dp_ind_y_crosses_bank : (* LDA ($10),Y with DBR = $12, pointer $FFFF, Y = 2: EA = $13:0001 *)
  let m := mk (at_ 32768 [177; 16] ++ [(16, 255); (17, 255); (19 * 65536 + 1, 119); (18 * 65536 + 1, 102)]) in
  let s' := step_state (with_DBR 18 (with_Y 2 s8)) m in rA s' = 119.
Proof. vm_compute. reflexivity. Qed.
Example abs_x_wraps_at_top : (* LDA $FFFF,X with DBR = $FF, X = 1 reads $00:0000 *)
  let m := mk (at_ 32768 [189; 255; 255] ++ [(0, 85)]) in
  let s' := step_state (with_DBR 255 (with_X 1 s8)) m in rA s' = 85.
Proof. vm_compute. reflexivity. Qed.
Example abs_16bit_data_wraps_at_top : (* 16-bit LDA $FFFF with DBR = $FF: low at $FFFFFF, high at $000000 *)
  let m := mk (at_ 32768 [173; 255; 255] ++ [(16777215, 52); (0, 18)]) in
  let s' := step_state (with_DBR 255 s16) m in rA s' = 4660.
Proof. vm_compute. reflexivity. Qed.
Example abs_16bit_data_crosses_bank : (* 16-bit STA $FFFF with DBR = $12 writes $12FFFF and $130000 *)
  let m := mk (at_ 32768 [141; 255; 255]) in
  snd (step (with_A 4660 (with_DBR 18 s16)) m) = [(18 * 65536 + 65535, 52); (19 * 65536, 18)].
Proof. vm_compute. reflexivity. Qed.
Example direct_page_wraps_in_bank0 : (* D = $FF00, 16-bit LDA $FF: low at $00FFFF, high at $000000 *)
  let m := mk (at_ 32768 [165; 255] ++ [(65535, 52); (0, 18); (65536, 153)]) in
  let s' := step_state (with_D 65280 s16) m in rA s' = 4660.
Proof. vm_compute. reflexivity. Qed.
Example dp_x_wraps_in_bank0_no_page_wrap : (* native mode: D = $0000, LDA $FF,X with X = 2 reads $0101 (no page wrap) *)
  let m := mk (at_ 32768 [181; 255] ++ [(257, 66); (1, 33)]) in
  let s' := step_state (with_X 2 s8) m in rA s' = 66.
Proof. vm_compute. reflexivity. Qed.
Example dp_pointer_wraps_in_bank0 : (* LDA ($FF) with D = $FF00: pointer bytes at $00FFFF and $000000 *)
  let m := mk (at_ 32768 [178; 255] ++ [(65535, 0); (0, 144); (36864, 77)]) in
  let s' := step_state (with_D 65280 s8) m in rA s' = 77.
Proof. vm_compute. reflexivity. Qed.
Example stack_wraps_in_bank0 : (* S = $0000, 16-bit PHA: high byte at $000000, low byte at $00FFFF, S = $FFFE *)
  let m := mk (at_ 32768 [72]) in
  let '(s', ws) := step (with_A 4660 (with_S 0 s16)) m in (rS s', ws) = (65534, [(0, 18); (65535, 52)]).
Proof. vm_compute. reflexivity. Qed.
Example pull_wraps_in_bank0 : (* S = $FFFF, 16-bit PLA reads $000000 then $000001 *)
  let m := mk (at_ 32768 [104] ++ [(0, 52); (1, 18)]) in
  let s' := step_state (with_S 65535 s16) m in (rA s', rS s') = (4660, 1).
Proof. vm_compute. reflexivity. Qed.
Example operand_fetch_wraps_in_pbr : (* LDA #$1234 at PC = $FFFF in bank 1: operand at $01:0000, $01:0001; PC wraps to $0002 *)
  let m := mk ([(131071, 169); (65536, 52); (65537, 18); (131072, 255)]) in
  let s' := step_state (with_PBR 1 (with_PC 65535 s16)) m in (rA s', rPC s', rPBR s') = (4660, 2, 1).
Proof. vm_compute. reflexivity. Qed.
Example jmp_abs_x_ind_wraps_in_pbr : (* JMP ($FFFF,X) X = 0 in bank 1: pointer at $01FFFF and $010000 *)
  let m := mk (at_ (65536 + 32768) [124; 255; 255] ++ [(131071, 52); (65536, 18); (131072, 153)]) in
  let s' := step_state (with_PBR 1 s16) m in (rPC s', rPBR s') = (4660, 1).
Proof. vm_compute. reflexivity. Qed.
Example long_x_wraps_24 : (* LDA $FFFFFF,X with X = 2 reads $000001 *)
  let m := mk (at_ 32768 [191; 255; 255; 255] ++ [(1, 99)]) in
  let s' := step_state (with_X 2 s8) m in (rA s', rPC s') = (99, 32772).
Proof. vm_compute. reflexivity. Qed.
Example brk_native : (* BRK: push PBR, PC+2, P; I set, D clear, PBR = 0, PC from 00:FFE6 *)
  let m := mk (at_ (65536 + 32768) [0; 0] ++ [(65510, 52); (65511, 18)]) in
  let '(s', ws) := step (with_Df true (with_C true (with_PBR 1 s8))) m in
  (rPBR s', rPC s', fI s', fD s', rS s', ws) = (0, 4660, true, false, 507, [(511, 1); (510, 128); (509, 2); (508, 57)]).
Proof. vm_compute. reflexivity. Qed.
Example taX_16_from_8bit_acc : (* TAX with m = 1, x = 0 copies all 16 bits of C *)
  let s' := step_state (with_M true (with_A 4660 s16)) (mk (at_ 32768 [170])) in (rX s', fN s', fZ s') = (4660, false, false).
Proof. vm_compute. reflexivity. Qed.
Example txa_8bit_index_16bit_acc : (* TXA with m = 0, x = 1 zero-extends *)
  let s' := step_state (with_Xf true (with_X 255 (with_A 4660 s16))) (mk (at_ 32768 [138])) in (rA s', fN s') = (255, false).
Proof. vm_compute. reflexivity. Qed.
Example bit_imm_only_z : (* BIT #$80 with A = 0: Z set; N, V unchanged *)
  let s' := step_state s8 (mk (at_ 32768 [137; 192])) in (fZ s', fN s', fV s') = (true, false, false).
Proof. vm_compute. reflexivity. Qed.
Example bit_dp_nv : (* BIT $10 with memory $C0: N, V from memory *)
  let s' := step_state s8 (mk (at_ 32768 [36; 16] ++ [(16, 192)])) in (fZ s', fN s', fV s') = (true, true, true).
Proof. vm_compute. reflexivity. Qed.
