(* The documented cartridge header map of the SNES ($00:FFB0-$00:FFFF), as the property refers to it:
   (flattened Go field path, cartridge address, byte size).  Written from the SNES development manual's
   "ROM registration data" table and the 65C816 vector table; the paths are those of header.go.  The
   table is consulted per run for every path that exists in the regenerated layout (a path that does not
   exist is not an error: a renamed field is still pinned by its rom:"FFxx" tag). *)
From Coq Require Import ZArith String List.
Import ListNotations.
Local Open Scope Z_scope.
Local Open Scope string_scope.

Definition hdr_base : Z := 65456.        (* $FFB0 *)
Definition hdr_size : Z := 80.           (* $FFB0..$FFFF *)
Definition ext_size : Z := 16.           (* $FFB0..$FFBF: the version 2/3 extension *)
Definition off_title_last : Z := 36.     (* $FFD4 *)
Definition off_old_maker : Z := 42.      (* $FFDA *)

Definition documented : list (string * Z * Z) := [
  ("MakerCode", 65456, 2);                     (* $FFB0 *)
  ("GameCode", 65458, 4);                      (* $FFB2 *)
  ("Fixed1[0]", 65462, 1);                     (* $FFB6..$FFBB reserved *)
  ("Fixed1[5]", 65467, 1);
  ("FlashSize", 65468, 1);                     (* $FFBC *)
  ("ExpansionRAMSize", 65469, 1);              (* $FFBD *)
  ("SpecialVersion", 65470, 1);                (* $FFBE *)
  ("CoCPUType", 65471, 1);                     (* $FFBF *)
  ("Title[0]", 65472, 1);                      (* $FFC0 *)
  ("Title[20]", 65492, 1);                     (* $FFD4 *)
  ("MapMode", 65493, 1);                       (* $FFD5 *)
  ("CartridgeType", 65494, 1);                 (* $FFD6 *)
  ("ROMSize", 65495, 1);                       (* $FFD7 *)
  ("RAMSize", 65496, 1);                       (* $FFD8 *)
  ("DestinationCode", 65497, 1);               (* $FFD9 *)
  ("OldMakerCode", 65498, 1);                  (* $FFDA *)
  ("MaskROMVersion", 65499, 1);                (* $FFDB *)
  ("ComplementCheckSum", 65500, 2);            (* $FFDC *)
  ("CheckSum", 65502, 2);                      (* $FFDE *)
  ("NativeVectors.COP", 65508, 2);             (* $FFE4 *)
  ("NativeVectors.BRK", 65510, 2);             (* $FFE6 *)
  ("NativeVectors.ABORT", 65512, 2);           (* $FFE8 *)
  ("NativeVectors.NMI", 65514, 2);             (* $FFEA *)
  ("NativeVectors.IRQ", 65518, 2);             (* $FFEE *)
  ("EmulatedVectors.COP", 65524, 2);           (* $FFF4 *)
  ("EmulatedVectors.ABORT", 65528, 2);         (* $FFF8 *)
  ("EmulatedVectors.NMI", 65530, 2);           (* $FFFA *)
  ("EmulatedVectors.RESET", 65532, 2);         (* $FFFC *)
  ("EmulatedVectors.IRQBRK", 65534, 2)         (* $FFFE *)
].
