(* The W65C816S opcode matrix, written from the WDC data sheet (table 5-4 "Opcode matrix", table 5-7
   "addressing mode summary"), independently of the Go tables of /repo.  For each of the 256 opcodes:
   the mnemonic and the addressing mode; the instruction length is a function of the mode and of the
   M / X flags.  The comparison with the regenerated Go tables is in [table_agrees] at the end of the
   file (it takes the Go table as an argument: nothing in this file depends on /repo). *)
From Coq Require Import ZArith List Bool String.
Import ListNotations.
Local Open Scope Z_scope.

Inductive mnem :=
| ADC | AND | ASL | BCC | BCS | BEQ | BIT | BMI | BNE | BPL | BRA | BRK | BRL | BVC | BVS
| CLC | CLD | CLI | CLV | CMP | COP | CPX | CPY | DEC | DEX | DEY | EOR | INC | INX | INY
| JML | JMP | JSL | JSR | LDA | LDX | LDY | LSR | MVN | MVP | NOP | ORA | PEA | PEI | PER
| PHA | PHB | PHD | PHK | PHP | PHX | PHY | PLA | PLB | PLD | PLP | PLX | PLY | REP | ROL
| ROR | RTI | RTL | RTS | SBC | SEC | SED | SEI | SEP | STA | STP | STX | STY | STZ | TAX
| TAY | TCD | TCS | TDC | TRB | TSB | TSC | TSX | TXA | TXS | TXY | TYA | TYX | WAI | WDM
| XBA | XCE.

(* Addressing modes, in WDC's notation. *)
Inductive mode :=
| Imp        (* i     implied (also the stack instructions "s" without operand bytes) *)
| Acc        (* A     accumulator *)
| ImmM       (* #     immediate, 1 or 2 bytes by the m flag *)
| ImmX       (* #     immediate, 1 or 2 bytes by the x flag *)
| Imm8       (* #     immediate, always 1 byte: REP, SEP; signature byte of BRK, COP, WDM *)
| Imm16      (* #     immediate, always 2 bytes: PEA *)
| Dp         (* d     *)
| DpX        (* d,x   *)
| DpY        (* d,y   *)
| DpInd      (* (d)   *)
| DpIndX     (* (d,x) *)
| DpIndY     (* (d),y *)
| DpIndL     (* [d]   *)
| DpIndLY    (* [d],y *)
| Sr         (* d,s   *)
| SrIndY     (* (d,s),y *)
| Abs        (* a     *)
| AbsX       (* a,x   *)
| AbsY       (* a,y   *)
| Long       (* al    *)
| LongX      (* al,x  *)
| AbsInd     (* (a)   JMP *)
| AbsIndX    (* (a,x) JMP, JSR *)
| AbsIndL    (* [a]   JML *)
| Rel8       (* r     *)
| Rel16      (* rl    BRL, PER *)
| BlockMove. (* xyc   MVN, MVP *)

(* Instruction length in bytes, opcode included.  [m8] / [x8] are the m and x flags (true = 8 bit). *)
Definition length (md : mode) (m8 x8 : bool) : Z :=
  match md with
  | Imp | Acc => 1
  | ImmM => if m8 then 2 else 3
  | ImmX => if x8 then 2 else 3
  | Imm8 => 2
  | Imm16 => 3
  | Dp | DpX | DpY | DpInd | DpIndX | DpIndY | DpIndL | DpIndLY | Sr | SrIndY => 2
  | Abs | AbsX | AbsY | AbsInd | AbsIndX | AbsIndL => 3
  | Long | LongX => 4
  | Rel8 => 2
  | Rel16 => 3
  | BlockMove => 3
  end.

(* The matrix, row by row (high nibble), sixteen opcodes per row. *)
Definition matrix : list (mnem * mode) := [
 (* 00 *) (BRK,Imm8);  (ORA,DpIndX); (COP,Imm8);   (ORA,Sr);     (TSB,Dp);    (ORA,Dp);   (ASL,Dp);   (ORA,DpIndL);
 (* 08 *) (PHP,Imp);   (ORA,ImmM);   (ASL,Acc);    (PHD,Imp);    (TSB,Abs);   (ORA,Abs);  (ASL,Abs);  (ORA,Long);
 (* 10 *) (BPL,Rel8);  (ORA,DpIndY); (ORA,DpInd);  (ORA,SrIndY); (TRB,Dp);    (ORA,DpX);  (ASL,DpX);  (ORA,DpIndLY);
 (* 18 *) (CLC,Imp);   (ORA,AbsY);   (INC,Acc);    (TCS,Imp);    (TRB,Abs);   (ORA,AbsX); (ASL,AbsX); (ORA,LongX);
 (* 20 *) (JSR,Abs);   (AND,DpIndX); (JSL,Long);   (AND,Sr);     (BIT,Dp);    (AND,Dp);   (ROL,Dp);   (AND,DpIndL);
 (* 28 *) (PLP,Imp);   (AND,ImmM);   (ROL,Acc);    (PLD,Imp);    (BIT,Abs);   (AND,Abs);  (ROL,Abs);  (AND,Long);
 (* 30 *) (BMI,Rel8);  (AND,DpIndY); (AND,DpInd);  (AND,SrIndY); (BIT,DpX);   (AND,DpX);  (ROL,DpX);  (AND,DpIndLY);
 (* 38 *) (SEC,Imp);   (AND,AbsY);   (DEC,Acc);    (TSC,Imp);    (BIT,AbsX);  (AND,AbsX); (ROL,AbsX); (AND,LongX);
 (* 40 *) (RTI,Imp);   (EOR,DpIndX); (WDM,Imm8);   (EOR,Sr);     (MVP,BlockMove); (EOR,Dp); (LSR,Dp); (EOR,DpIndL);
 (* 48 *) (PHA,Imp);   (EOR,ImmM);   (LSR,Acc);    (PHK,Imp);    (JMP,Abs);   (EOR,Abs);  (LSR,Abs);  (EOR,Long);
 (* 50 *) (BVC,Rel8);  (EOR,DpIndY); (EOR,DpInd);  (EOR,SrIndY); (MVN,BlockMove); (EOR,DpX); (LSR,DpX); (EOR,DpIndLY);
 (* 58 *) (CLI,Imp);   (EOR,AbsY);   (PHY,Imp);    (TCD,Imp);    (JML,Long);  (EOR,AbsX); (LSR,AbsX); (EOR,LongX);
 (* 60 *) (RTS,Imp);   (ADC,DpIndX); (PER,Rel16);  (ADC,Sr);     (STZ,Dp);    (ADC,Dp);   (ROR,Dp);   (ADC,DpIndL);
 (* 68 *) (PLA,Imp);   (ADC,ImmM);   (ROR,Acc);    (RTL,Imp);    (JMP,AbsInd); (ADC,Abs); (ROR,Abs);  (ADC,Long);
 (* 70 *) (BVS,Rel8);  (ADC,DpIndY); (ADC,DpInd);  (ADC,SrIndY); (STZ,DpX);   (ADC,DpX);  (ROR,DpX);  (ADC,DpIndLY);
 (* 78 *) (SEI,Imp);   (ADC,AbsY);   (PLY,Imp);    (TDC,Imp);    (JMP,AbsIndX); (ADC,AbsX); (ROR,AbsX); (ADC,LongX);
 (* 80 *) (BRA,Rel8);  (STA,DpIndX); (BRL,Rel16);  (STA,Sr);     (STY,Dp);    (STA,Dp);   (STX,Dp);   (STA,DpIndL);
 (* 88 *) (DEY,Imp);   (BIT,ImmM);   (TXA,Imp);    (PHB,Imp);    (STY,Abs);   (STA,Abs);  (STX,Abs);  (STA,Long);
 (* 90 *) (BCC,Rel8);  (STA,DpIndY); (STA,DpInd);  (STA,SrIndY); (STY,DpX);   (STA,DpX);  (STX,DpY);  (STA,DpIndLY);
 (* 98 *) (TYA,Imp);   (STA,AbsY);   (TXS,Imp);    (TXY,Imp);    (STZ,Abs);   (STA,AbsX); (STZ,AbsX); (STA,LongX);
 (* A0 *) (LDY,ImmX);  (LDA,DpIndX); (LDX,ImmX);   (LDA,Sr);     (LDY,Dp);    (LDA,Dp);   (LDX,Dp);   (LDA,DpIndL);
 (* A8 *) (TAY,Imp);   (LDA,ImmM);   (TAX,Imp);    (PLB,Imp);    (LDY,Abs);   (LDA,Abs);  (LDX,Abs);  (LDA,Long);
 (* B0 *) (BCS,Rel8);  (LDA,DpIndY); (LDA,DpInd);  (LDA,SrIndY); (LDY,DpX);   (LDA,DpX);  (LDX,DpY);  (LDA,DpIndLY);
 (* B8 *) (CLV,Imp);   (LDA,AbsY);   (TSX,Imp);    (TYX,Imp);    (LDY,AbsX);  (LDA,AbsX); (LDX,AbsY); (LDA,LongX);
 (* C0 *) (CPY,ImmX);  (CMP,DpIndX); (REP,Imm8);   (CMP,Sr);     (CPY,Dp);    (CMP,Dp);   (DEC,Dp);   (CMP,DpIndL);
 (* C8 *) (INY,Imp);   (CMP,ImmM);   (DEX,Imp);    (WAI,Imp);    (CPY,Abs);   (CMP,Abs);  (DEC,Abs);  (CMP,Long);
 (* D0 *) (BNE,Rel8);  (CMP,DpIndY); (CMP,DpInd);  (CMP,SrIndY); (PEI,DpInd); (CMP,DpX);  (DEC,DpX);  (CMP,DpIndLY);
 (* D8 *) (CLD,Imp);   (CMP,AbsY);   (PHX,Imp);    (STP,Imp);    (JML,AbsIndL); (CMP,AbsX); (DEC,AbsX); (CMP,LongX);
 (* E0 *) (CPX,ImmX);  (SBC,DpIndX); (SEP,Imm8);   (SBC,Sr);     (CPX,Dp);    (SBC,Dp);   (INC,Dp);   (SBC,DpIndL);
 (* E8 *) (INX,Imp);   (SBC,ImmM);   (NOP,Imp);    (XBA,Imp);    (CPX,Abs);   (SBC,Abs);  (INC,Abs);  (SBC,Long);
 (* F0 *) (BEQ,Rel8);  (SBC,DpIndY); (SBC,DpInd);  (SBC,SrIndY); (PEA,Imm16); (SBC,DpX);  (INC,DpX);  (SBC,DpIndLY);
 (* F8 *) (SED,Imp);   (SBC,AbsY);   (PLX,Imp);    (XCE,Imp);    (JSR,AbsIndX); (SBC,AbsX); (INC,AbsX); (SBC,LongX)
].

Definition decode (op : Z) : mnem * mode := nth (Z.to_nat op) matrix (NOP, Imp).

Definition mnem_of (op : Z) : mnem := fst (decode op).
Definition mode_of (op : Z) : mode := snd (decode op).

(* length of the instruction with opcode [op] under flags m, x *)
Definition op_length (op : Z) (m8 x8 : bool) : Z := length (mode_of op) m8 x8.

(* number of operand bytes *)
Definition operand_bytes (op : Z) (m8 x8 : bool) : Z := op_length op m8 x8 - 1.

Example matrix_has_256 : List.length matrix = 256%nat. Proof. reflexivity. Qed.

(* ------------------------------------------------------------------ names *)

Local Open Scope string_scope.
Definition mnem_name (mn : mnem) : string :=
  match mn with
  | ADC => "ADC" | AND => "AND" | ASL => "ASL" | BCC => "BCC" | BCS => "BCS" | BEQ => "BEQ" | BIT => "BIT"
  | BMI => "BMI" | BNE => "BNE" | BPL => "BPL" | BRA => "BRA" | BRK => "BRK" | BRL => "BRL" | BVC => "BVC"
  | BVS => "BVS" | CLC => "CLC" | CLD => "CLD" | CLI => "CLI" | CLV => "CLV" | CMP => "CMP" | COP => "COP"
  | CPX => "CPX" | CPY => "CPY" | DEC => "DEC" | DEX => "DEX" | DEY => "DEY" | EOR => "EOR" | INC => "INC"
  | INX => "INX" | INY => "INY" | JML => "JML" | JMP => "JMP" | JSL => "JSL" | JSR => "JSR" | LDA => "LDA"
  | LDX => "LDX" | LDY => "LDY" | LSR => "LSR" | MVN => "MVN" | MVP => "MVP" | NOP => "NOP" | ORA => "ORA"
  | PEA => "PEA" | PEI => "PEI" | PER => "PER" | PHA => "PHA" | PHB => "PHB" | PHD => "PHD" | PHK => "PHK"
  | PHP => "PHP" | PHX => "PHX" | PHY => "PHY" | PLA => "PLA" | PLB => "PLB" | PLD => "PLD" | PLP => "PLP"
  | PLX => "PLX" | PLY => "PLY" | REP => "REP" | ROL => "ROL" | ROR => "ROR" | RTI => "RTI" | RTL => "RTL"
  | RTS => "RTS" | SBC => "SBC" | SEC => "SEC" | SED => "SED" | SEI => "SEI" | SEP => "SEP" | STA => "STA"
  | STP => "STP" | STX => "STX" | STY => "STY" | STZ => "STZ" | TAX => "TAX" | TAY => "TAY" | TCD => "TCD"
  | TCS => "TCS" | TDC => "TDC" | TRB => "TRB" | TSB => "TSB" | TSC => "TSC" | TSX => "TSX" | TXA => "TXA"
  | TXS => "TXS" | TXY => "TXY" | TYA => "TYA" | TYX => "TYX" | WAI => "WAI" | WDM => "WDM" | XBA => "XBA"
  | XCE => "XCE"
  end.
Local Close Scope string_scope.

(* ------------------------------------------------------------------ comparison with the Go tables

   The Go tables (emulator/cpu65c816/cpu.go `instructions`, emulator/cpualt/cpu.go createTable) are
   regenerated on every run as   instr_table : list (opcode, name, mode, size, cycles, routine)
   with the Go mode constants 1..26 (m_Absolute = 1 ... m_Stack_Relative_Indirect_Y = 26).

   Adjudicated differences of presentation (data sheet consulted; none is a defect):
   * $5C / $DC are called "jmp" in Go; WDC lists JMP al / JMP [a] with the alias JML.  Both accepted.
   * PEA / PEI / PER use m_Immediate / m_DP / m_PC_Relative_Long in Go (said so in the Go source);
     WDC files them under "stack" addressing with the operand syntax #imm16-or-abs / (dp) / rl.  The
     operand bytes and what the routine does with them are the same; [go_mode] maps them accordingly.
   * BRK: Go says m_Implied, size 1.  WDC: BRK is a 2-byte instruction (opcode + signature), the
     pushed return address is PC+2.  Execution never reads the signature and op_brk pushes PC+2 and
     loads PC itself, so the *execution* part accepts m_Implied for BRK; the *size* is used only by
     the disassembler and is reported by [disasm_disagreements] (finding: size 1 instead of 2). *)

Definition go_mode (mn : mnem) (md : mode) : Z :=
  match mn, md with
  | BRK, _ => 8
  | PEI, _ => 9
  | _, Abs => 1 | _, AbsX => 2 | _, AbsY => 3 | _, Acc => 4 | _, Imm8 => 5 | _, Imm16 => 5
  | _, ImmM => 6 | _, ImmX => 7 | _, Imp => 8 | _, Dp => 9 | _, DpX => 10 | _, DpY => 11
  | _, DpIndX => 12 | _, DpInd => 13 | _, DpIndL => 14 | _, DpIndY => 15 | _, DpIndLY => 16
  | _, AbsIndX => 17 | _, AbsInd => 18 | _, AbsIndL => 19 | _, Long => 20 | _, LongX => 21
  | _, BlockMove => 22 | _, Rel8 => 23 | _, Rel16 => 24 | _, Sr => 25 | _, SrIndY => 26
  end.

(* instructions whose routine loads PC itself (Go: stepPC = 0): for them the table's size does not
   take part in execution *)
Definition loads_pc (mn : mnem) : bool :=
  match mn with BRK | COP | JMP | JML | JSR | JSL | RTI | RTS | RTL => true | _ => false end.

(* the length Go's Step uses to advance PC: size, minus M for m_Immediate_flagM, minus X for
   m_Immediate_flagX *)
Definition go_length (gmode gsize : Z) (m8 x8 : bool) : Z :=
  gsize - (if (gmode =? 6) && m8 then 1 else 0) - (if (gmode =? 7) && x8 then 1 else 0).

Definition go_row := (Z * string * Z * Z * Z * string)%type.

Definition row_exec_ok (r : go_row) : bool :=
  let '(op, nm, gmode, gsize, cyc, pr) := r in
  let '(mn, md) := decode op in
  (gmode =? go_mode mn md) &&
  (loads_pc mn ||
   forallb (fun mx : bool * bool => go_length gmode gsize (fst mx) (snd mx) =? length md (fst mx) (snd mx))
           [(false,false); (false,true); (true,false); (true,true)]).

Fixpoint lower (s : string) : string :=
  match s with
  | EmptyString => EmptyString
  | String c r =>
      let n := Ascii.nat_of_ascii c in
      String (if (Nat.leb 65 n && Nat.leb n 90)%bool then Ascii.ascii_of_nat (n + 32) else c) (lower r)
  end.

Definition name_ok (mn : mnem) (goname : string) : bool :=
  String.eqb (lower goname) (lower (mnem_name mn)) ||
  match mn with JML => String.eqb (lower goname) "jmp" | _ => false end.

Definition row_disasm_ok (r : go_row) : bool :=
  let '(op, nm, gmode, gsize, cyc, pr) := r in
  let '(mn, md) := decode op in
  name_ok mn nm && (gsize =? length md false false).

Definition rows_complete (t : list go_row) : bool :=
  (Z.of_nat (List.length t) =? 256) &&
  forallb (fun p : Z * go_row => let '(i, (op, _, _, _, _, _)) := p in op =? i)
          (combine (map Z.of_nat (seq 0 256)) t).

(* opcodes whose execution-driving entries (mode, operand length) disagree with the data sheet *)
Definition exec_disagreements (t : list go_row) : list Z :=
  map (fun r : go_row => let '(op, _, _, _, _, _) := r in op) (filter (fun r => negb (row_exec_ok r)) t).
(* opcodes whose disassembler-only entries (name, nominal size) disagree *)
Definition disasm_disagreements (t : list go_row) : list Z :=
  map (fun r : go_row => let '(op, _, _, _, _, _) := r in op) (filter (fun r => negb (row_disasm_ok r)) t).

Definition table_agrees_exec (t : list go_row) : bool :=
  rows_complete t && match exec_disagreements t with [] => true | _ => false end.
Definition table_agrees_disasm (t : list go_row) : bool :=
  rows_complete t && match disasm_disagreements t with [] => true | _ => false end.
Definition table_agrees (t : list go_row) : bool := table_agrees_exec t && table_agrees_disasm t.
