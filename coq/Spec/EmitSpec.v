(* EmitSpec: what "the canonical 65816 encoding of the instruction a method is named after" means.

   Written from the WDC W65C816S data sheet (opcode matrix, table 5-4 / 7-1) and "Programming the
   65816", NOT from the Go sources:
     (a) [isa]: for each of the 256 opcodes the mnemonic and the addressing mode; the operand size of a
         mode as a function of the M and X widths; [opcode_of] = canonical opcode of (mnemonic, mode);
     (b) the meaning of the emitter's method-name convention MNEMONIC[_suffix]: [meaning_of];
     (c) an independent decoder [decode] with the architectural length rule;
     (d) the canonical encoding [encode]: opcode byte, operand little-endian.
   This file is specification only (definitions); theorems about it live in Props/EncProps.v. *)
From Coq Require Import ZArith List String Ascii Bool.
Import ListNotations.
Local Open Scope string_scope.
Local Open Scope Z_scope.

(* ------------------------------------------------------------------ addressing modes *)
Inductive amode :=
| Implied | Acc
| ImmM | ImmX | Imm8 | Imm16            (* #imm sized by M, by X, always 8 (REP SEP COP WDM BRK), always 16 (PEA) *)
| Dp | DpX | DpY | DpIndX | DpInd | DpIndLong | DpIndY | DpIndLongY
| Abs | AbsX | AbsY | AbsIndX | AbsInd | AbsIndLong
| Long | LongX
| BlockMove | Rel8 | Rel16 | StackRel | StackRelIndY.

Definition amode_eqb (a b : amode) : bool :=
  match a, b with
  | Implied, Implied | Acc, Acc | ImmM, ImmM | ImmX, ImmX | Imm8, Imm8 | Imm16, Imm16
  | Dp, Dp | DpX, DpX | DpY, DpY | DpIndX, DpIndX | DpInd, DpInd | DpIndLong, DpIndLong
  | DpIndY, DpIndY | DpIndLongY, DpIndLongY
  | Abs, Abs | AbsX, AbsX | AbsY, AbsY | AbsIndX, AbsIndX | AbsInd, AbsInd | AbsIndLong, AbsIndLong
  | Long, Long | LongX, LongX | BlockMove, BlockMove | Rel8, Rel8 | Rel16, Rel16
  | StackRel, StackRel | StackRelIndY, StackRelIndY => true
  | _, _ => false
  end.

(* number of operand bytes; m16 / x16 = accumulator / index registers are 16 bits wide *)
Definition opsize (m : amode) (m16 x16 : bool) : Z :=
  match m with
  | Implied | Acc => 0
  | ImmM => if m16 then 2 else 1
  | ImmX => if x16 then 2 else 1
  | Imm8 => 1
  | Imm16 => 2
  | Dp | DpX | DpY | DpIndX | DpInd | DpIndLong | DpIndY | DpIndLongY => 1
  | Abs | AbsX | AbsY | AbsIndX | AbsInd | AbsIndLong => 2
  | Long | LongX => 3
  | BlockMove => 2
  | Rel8 => 1
  | Rel16 => 2
  | StackRel | StackRelIndY => 1
  end.

Definition ilen (m : amode) (m16 x16 : bool) : Z := 1 + opsize m m16 x16.

(* ------------------------------------------------------------------ the opcode matrix (WDC) *)
Definition isa : list (string * amode) := [
 (* 00 *) ("BRK",Imm8); ("ORA",DpIndX); ("COP",Imm8); ("ORA",StackRel); ("TSB",Dp); ("ORA",Dp); ("ASL",Dp); ("ORA",DpIndLong);
 (* 08 *) ("PHP",Implied); ("ORA",ImmM); ("ASL",Acc); ("PHD",Implied); ("TSB",Abs); ("ORA",Abs); ("ASL",Abs); ("ORA",Long);
 (* 10 *) ("BPL",Rel8); ("ORA",DpIndY); ("ORA",DpInd); ("ORA",StackRelIndY); ("TRB",Dp); ("ORA",DpX); ("ASL",DpX); ("ORA",DpIndLongY);
 (* 18 *) ("CLC",Implied); ("ORA",AbsY); ("INC",Acc); ("TCS",Implied); ("TRB",Abs); ("ORA",AbsX); ("ASL",AbsX); ("ORA",LongX);
 (* 20 *) ("JSR",Abs); ("AND",DpIndX); ("JSL",Long); ("AND",StackRel); ("BIT",Dp); ("AND",Dp); ("ROL",Dp); ("AND",DpIndLong);
 (* 28 *) ("PLP",Implied); ("AND",ImmM); ("ROL",Acc); ("PLD",Implied); ("BIT",Abs); ("AND",Abs); ("ROL",Abs); ("AND",Long);
 (* 30 *) ("BMI",Rel8); ("AND",DpIndY); ("AND",DpInd); ("AND",StackRelIndY); ("BIT",DpX); ("AND",DpX); ("ROL",DpX); ("AND",DpIndLongY);
 (* 38 *) ("SEC",Implied); ("AND",AbsY); ("DEC",Acc); ("TSC",Implied); ("BIT",AbsX); ("AND",AbsX); ("ROL",AbsX); ("AND",LongX);
 (* 40 *) ("RTI",Implied); ("EOR",DpIndX); ("WDM",Imm8); ("EOR",StackRel); ("MVP",BlockMove); ("EOR",Dp); ("LSR",Dp); ("EOR",DpIndLong);
 (* 48 *) ("PHA",Implied); ("EOR",ImmM); ("LSR",Acc); ("PHK",Implied); ("JMP",Abs); ("EOR",Abs); ("LSR",Abs); ("EOR",Long);
 (* 50 *) ("BVC",Rel8); ("EOR",DpIndY); ("EOR",DpInd); ("EOR",StackRelIndY); ("MVN",BlockMove); ("EOR",DpX); ("LSR",DpX); ("EOR",DpIndLongY);
 (* 58 *) ("CLI",Implied); ("EOR",AbsY); ("PHY",Implied); ("TCD",Implied); ("JML",Long); ("EOR",AbsX); ("LSR",AbsX); ("EOR",LongX);
 (* 60 *) ("RTS",Implied); ("ADC",DpIndX); ("PER",Rel16); ("ADC",StackRel); ("STZ",Dp); ("ADC",Dp); ("ROR",Dp); ("ADC",DpIndLong);
 (* 68 *) ("PLA",Implied); ("ADC",ImmM); ("ROR",Acc); ("RTL",Implied); ("JMP",AbsInd); ("ADC",Abs); ("ROR",Abs); ("ADC",Long);
 (* 70 *) ("BVS",Rel8); ("ADC",DpIndY); ("ADC",DpInd); ("ADC",StackRelIndY); ("STZ",DpX); ("ADC",DpX); ("ROR",DpX); ("ADC",DpIndLongY);
 (* 78 *) ("SEI",Implied); ("ADC",AbsY); ("PLY",Implied); ("TDC",Implied); ("JMP",AbsIndX); ("ADC",AbsX); ("ROR",AbsX); ("ADC",LongX);
 (* 80 *) ("BRA",Rel8); ("STA",DpIndX); ("BRL",Rel16); ("STA",StackRel); ("STY",Dp); ("STA",Dp); ("STX",Dp); ("STA",DpIndLong);
 (* 88 *) ("DEY",Implied); ("BIT",ImmM); ("TXA",Implied); ("PHB",Implied); ("STY",Abs); ("STA",Abs); ("STX",Abs); ("STA",Long);
 (* 90 *) ("BCC",Rel8); ("STA",DpIndY); ("STA",DpInd); ("STA",StackRelIndY); ("STY",DpX); ("STA",DpX); ("STX",DpY); ("STA",DpIndLongY);
 (* 98 *) ("TYA",Implied); ("STA",AbsY); ("TXS",Implied); ("TXY",Implied); ("STZ",Abs); ("STA",AbsX); ("STZ",AbsX); ("STA",LongX);
 (* A0 *) ("LDY",ImmX); ("LDA",DpIndX); ("LDX",ImmX); ("LDA",StackRel); ("LDY",Dp); ("LDA",Dp); ("LDX",Dp); ("LDA",DpIndLong);
 (* A8 *) ("TAY",Implied); ("LDA",ImmM); ("TAX",Implied); ("PLB",Implied); ("LDY",Abs); ("LDA",Abs); ("LDX",Abs); ("LDA",Long);
 (* B0 *) ("BCS",Rel8); ("LDA",DpIndY); ("LDA",DpInd); ("LDA",StackRelIndY); ("LDY",DpX); ("LDA",DpX); ("LDX",DpY); ("LDA",DpIndLongY);
 (* B8 *) ("CLV",Implied); ("LDA",AbsY); ("TSX",Implied); ("TYX",Implied); ("LDY",AbsX); ("LDA",AbsX); ("LDX",AbsY); ("LDA",LongX);
 (* C0 *) ("CPY",ImmX); ("CMP",DpIndX); ("REP",Imm8); ("CMP",StackRel); ("CPY",Dp); ("CMP",Dp); ("DEC",Dp); ("CMP",DpIndLong);
 (* C8 *) ("INY",Implied); ("CMP",ImmM); ("DEX",Implied); ("WAI",Implied); ("CPY",Abs); ("CMP",Abs); ("DEC",Abs); ("CMP",Long);
 (* D0 *) ("BNE",Rel8); ("CMP",DpIndY); ("CMP",DpInd); ("CMP",StackRelIndY); ("PEI",DpInd); ("CMP",DpX); ("DEC",DpX); ("CMP",DpIndLongY);
 (* D8 *) ("CLD",Implied); ("CMP",AbsY); ("PHX",Implied); ("STP",Implied); ("JML",AbsIndLong); ("CMP",AbsX); ("DEC",AbsX); ("CMP",LongX);
 (* E0 *) ("CPX",ImmX); ("SBC",DpIndX); ("SEP",Imm8); ("SBC",StackRel); ("CPX",Dp); ("SBC",Dp); ("INC",Dp); ("SBC",DpIndLong);
 (* E8 *) ("INX",Implied); ("SBC",ImmM); ("NOP",Implied); ("XBA",Implied); ("CPX",Abs); ("SBC",Abs); ("INC",Abs); ("SBC",Long);
 (* F0 *) ("BEQ",Rel8); ("SBC",DpIndY); ("SBC",DpInd); ("SBC",StackRelIndY); ("PEA",Imm16); ("SBC",DpX); ("INC",DpX); ("SBC",DpIndLongY);
 (* F8 *) ("SED",Implied); ("SBC",AbsY); ("PLX",Implied); ("XCE",Implied); ("JSR",AbsIndX); ("SBC",AbsX); ("INC",AbsX); ("SBC",LongX)
].

Definition isa_entry (op : Z) : option (string * amode) :=
  if (op <? 0) || (255 <? op) then None else nth_error isa (Z.to_nat op).

(* WDC lists JML as an alias of JMP (long forms) and JSL as an alias of JSR long *)
Definition mn_eqb (a b : string) : bool :=
  String.eqb a b
  || (String.eqb a "JMP" && String.eqb b "JML") || (String.eqb a "JML" && String.eqb b "JMP")
  || (String.eqb a "JSR" && String.eqb b "JSL") || (String.eqb a "JSL" && String.eqb b "JSR").

Fixpoint find_op (l : list (string * amode)) (op : Z) (mn : string) (m : amode) : option Z :=
  match l with
  | [] => None
  | (mn', m') :: r => if mn_eqb mn mn' && amode_eqb m m' then Some op else find_op r (op + 1) mn m
  end.

(* the canonical opcode of a (mnemonic, addressing mode) pair *)
Definition opcode_of (mn : string) (m : amode) : option Z := find_op isa 0 mn m.

Fixpoint has_mode (l : list (string * amode)) (mn : string) (m : amode) : bool :=
  match l with
  | [] => false
  | (mn', m') :: r => (String.eqb mn mn' && amode_eqb m m') || has_mode r mn m
  end.

(* ------------------------------------------------------------------ little-endian operands *)
Fixpoint le_bytes (n : nat) (v : Z) : list Z :=
  match n with O => [] | S k => (v mod 256) :: le_bytes k (v / 256) end.

Fixpoint le_value (bs : list Z) : Z :=
  match bs with [] => 0 | b :: r => b + 256 * le_value r end.

(* canonical encoding: the opcode byte, then the operand, low byte first *)
Definition encode (opc : Z) (nbytes : Z) (operand : Z) : list Z :=
  opc :: le_bytes (Z.to_nat nbytes) operand.

(* ------------------------------------------------------------------ independent decoder *)
Definition zlength {A} (l : list A) : Z := Z.of_nat (List.length l).

(* decode m16 x16 bytes = (mnemonic, mode, operand value, instruction length) of the first instruction *)
Definition decode (m16 x16 : bool) (bs : list Z) : option (string * amode * Z * Z) :=
  match bs with
  | [] => None
  | op :: rest =>
      match isa_entry op with
      | None => None
      | Some (mn, m) =>
          let n := opsize m m16 x16 in
          if zlength rest <? n then None
          else Some (mn, m, le_value (firstn (Z.to_nat n) rest), 1 + n)
      end
  end.

(* ------------------------------------------------------------------ tracked register widths *)
(* the processor status bits the assembler tracks: m = $20, x = $10; a clear bit = 16-bit registers *)
Definition flag_m : Z := 32.
Definition flag_x : Z := 16.
Definition is_m16 (fl : Z) : bool := Z.land fl flag_m =? 0.
Definition is_x16 (fl : Z) : bool := Z.land fl flag_x =? 0.

(* REP #c clears the bits of c in P, SEP #c sets them (8-bit status register) *)
Definition rep_flags (fl c : Z) : Z := Z.land fl (Z.lxor (c mod 256) 255).
Definition sep_flags (fl c : Z) : Z := Z.lor fl (c mod 256).

(* width requirement of an immediate method *)
Inductive wreq := WAny | WM8 | WM16 | WX8 | WX16.

(* "refused exactly under the wrong tracked width" *)
Definition wrong_width_b (w : wreq) (m16 x16 : bool) : bool :=
  match w with
  | WAny => false
  | WM8 => m16
  | WM16 => negb m16
  | WX8 => x16
  | WX16 => negb x16
  end.
Definition wrong_width (w : wreq) (fl : Z) : bool := wrong_width_b w (is_m16 fl) (is_x16 fl).

(* the tracked flags after the instruction has been assembled: REP / SEP with operand v *)
Definition spec_flags_after (mn : string) (v fl : Z) : Z :=
  if String.eqb mn "REP" then rep_flags fl v
  else if String.eqb mn "SEP" then sep_flags fl v
  else fl.

(* ------------------------------------------------------------------ the method-name convention *)
(* Go parameter types an instruction method may have *)
Inductive pty := TU8 | TI8 | TU16 | TU32 | TFlags | TLabel.

Definition pty_eqb (a b : pty) : bool :=
  match a, b with
  | TU8, TU8 | TI8, TI8 | TU16, TU16 | TU32, TU32 | TFlags, TFlags | TLabel, TLabel => true
  | _, _ => false
  end.

(* value range of a parameter (a label carries no value) *)
Definition pty_lo (t : pty) : Z := match t with TI8 => -128 | _ => 0 end.
Definition pty_hi (t : pty) : Z :=
  match t with TU8 | TFlags => 256 | TI8 => 128 | TU16 => 65536 | TU32 => 4294967296 | TLabel => 1 end.

(* how the operand is supplied by the parameters *)
Inductive layout :=
| LNone                       (* no operand *)
| LVal (n : nat)              (* one parameter; operand = its low n bytes *)
| LSplit (n : nat)            (* n byte parameters, least significant first (lo, hi[, bank]) *)
| LBlock (di si : nat)        (* block move: parameter di = destination bank, si = source bank *)
| LLabel (n : nat).           (* a label; n placeholder bytes, resolved by Finalize (property C06) *)

Record meaning := { mg_mn : string; mg_mode : amode; mg_lay : layout; mg_w : wreq }.

(* name = MNEMONIC or MNEMONIC_suffix: split at the first underscore *)
Fixpoint split_name (s : string) : string * string :=
  match s with
  | EmptyString => (EmptyString, EmptyString)
  | String c r =>
      if Ascii.eqb c "_"%char then (EmptyString, r)
      else let (a, b) := split_name r in (String c a, b)
  end.

Definition is_branch (mn : string) : bool := has_mode isa mn Rel8.

(* a bare name: accumulator for the shifts/INC/DEC, the instruction's only mode otherwise
   (relative for branches, long for JSL/JML, block move, #imm8 for REP/SEP/COP/WDM, implied) *)
Definition bare_mode (mn : string) : option amode :=
  if has_mode isa mn Acc then Some Acc
  else if has_mode isa mn Rel8 then Some Rel8
  else if String.eqb mn "JSL" || String.eqb mn "JML" then Some Long
  else if has_mode isa mn BlockMove then Some BlockMove
  else if String.eqb mn "BRK" then None
  else if has_mode isa mn Imm8 then Some Imm8
  else if has_mode isa mn Implied then Some Implied
  else None.

Definition imm_mode (mn : string) : option amode :=
  if has_mode isa mn ImmM then Some ImmM else if has_mode isa mn ImmX then Some ImmX else None.

Definition first_lower (s : string) : ascii :=
  match s with
  | EmptyString => " "%char
  | String c _ => let n := N_of_ascii c in
                  if ((65 <=? n) && (n <=? 90))%N then ascii_of_N (n + 32) else c
  end.

(* block move parameters: the one whose name starts with d is the destination, with s the source;
   positional (destination first) when the names do not tell *)
Definition block_layout (pnames : list string) : layout :=
  match pnames with
  | [a; b] =>
      if Ascii.eqb (first_lower a) "s"%char && Ascii.eqb (first_lower b) "d"%char then LBlock 1 0
      else LBlock 0 1
  | _ => LBlock 0 1
  end.

Definition all_u8 (ps : list pty) : bool := forallb (fun t => pty_eqb t TU8) ps.

(* operand layout for a mode with n operand bytes, given the Go parameter list *)
Definition lay_for (n : nat) (ps : list pty) : option layout :=
  match n, ps with
  | O, [] => Some LNone
  | S _, [TLabel] => Some (LLabel n)
  | 1%nat, [TU8] | 1%nat, [TI8] | 1%nat, [TFlags] => Some (LVal 1)
  | 2%nat, [TU16] => Some (LVal 2)
  | 3%nat, [TU32] => Some (LVal 3)
  | _, _ => None
  end.

Definition mk (mn : string) (m : amode) (w : wreq) (ol : option layout) : option meaning :=
  match ol, opcode_of mn m with
  | Some l, Some _ => Some {| mg_mn := mn; mg_mode := m; mg_lay := l; mg_w := w |}
  | _, _ => None
  end.

Definition plain (mn : string) (m : amode) (ps : list pty) : option meaning :=
  mk mn m WAny (lay_for (Z.to_nat (opsize m true true)) ps).

(* the convention.  [None] = the suffix is not part of the convention (the method then gets the weaker
   check: mnemonic, length, decode round trip). *)
Definition meaning_of (name : string) (pnames : list string) (ps : list pty) : option meaning :=
  let (mn, suf) := split_name name in
  if String.eqb suf "" then
    match bare_mode mn with
    | Some BlockMove => match ps with
                        | [TU8; TU8] => mk mn BlockMove WAny (Some (block_layout pnames))
                        | _ => None end
    | Some m => plain mn m ps
    | None => None
    end
  else if String.eqb suf "imm8_b" then
    match imm_mode mn, ps with
    | Some ImmM, [TU8] => mk mn ImmM WM8 (Some (LVal 1))
    | Some ImmX, [TU8] => mk mn ImmX WX8 (Some (LVal 1))
    | _, _ => None end
  else if String.eqb suf "imm16_w" then
    match imm_mode mn, ps with
    | Some ImmM, [TU16] => mk mn ImmM WM16 (Some (LVal 2))
    | Some ImmX, [TU16] => mk mn ImmX WX16 (Some (LVal 2))
    | _, _ => None end
  else if String.eqb suf "imm16_lh" then
    match imm_mode mn, ps with
    | Some ImmM, [TU8; TU8] => mk mn ImmM WM16 (Some (LSplit 2))
    | Some ImmX, [TU8; TU8] => mk mn ImmX WX16 (Some (LSplit 2))
    | _, _ => None end
  else if String.eqb suf "imm8" then
    if is_branch mn then plain mn Rel8 ps
    else if has_mode isa mn Imm8 then plain mn Imm8 ps else None
  else if String.eqb suf "abs" then plain mn Abs ps
  else if String.eqb suf "abs_x" then plain mn AbsX ps
  else if String.eqb suf "abs_y" then plain mn AbsY ps
  else if String.eqb suf "dp" then plain mn Dp ps
  else if String.eqb suf "dp_x" then plain mn DpX ps
  else if String.eqb suf "dp_y" then plain mn DpY ps
  else if String.eqb suf "long" then plain mn Long ps
  else if String.eqb suf "long_x" then plain mn LongX ps
  else if String.eqb suf "lhb" then
    (if all_u8 ps && (List.length ps =? 3)%nat then mk mn Long WAny (Some (LSplit 3)) else None)
  else if String.eqb suf "indirect" then
    (if has_mode isa mn AbsInd then plain mn AbsInd ps else plain mn DpInd ps)
  else if String.eqb suf "indirect_x" then
    (if has_mode isa mn AbsIndX then plain mn AbsIndX ps else plain mn DpIndX ps)
  else if String.eqb suf "indirect_y" then plain mn DpIndY ps
  else if String.eqb suf "indirect_long" then
    (if has_mode isa mn AbsIndLong || String.eqb mn "JMP" then plain mn AbsIndLong ps else plain mn DpIndLong ps)
  else if String.eqb suf "indirect_long_y" then plain mn DpIndLongY ps
  else if String.eqb suf "sr" then plain mn StackRel ps
  else if String.eqb suf "sr_y" then plain mn StackRelIndY ps
  else None.

(* the mnemonic a method is named after, for the weaker check of unconventional names *)
Definition mnemonic_of (name : string) : string := fst (split_name name).

(* ------------------------------------------------------------------ the library's own CPU tables *)
(* names of the addressing-mode constants of emulator/cpu65c816 and emulator/cpualt *)
Definition go_mode_compat (gm : string) (m : amode) : bool :=
  match m with
  | Implied => String.eqb gm "m_Implied"
  | Acc => String.eqb gm "m_Accumulator"
  | ImmM => String.eqb gm "m_Immediate_flagM"
  | ImmX => String.eqb gm "m_Immediate_flagX"
  | Imm8 | Imm16 => String.eqb gm "m_Immediate"
  | Dp => String.eqb gm "m_DP"
  | DpX => String.eqb gm "m_DP_X"
  | DpY => String.eqb gm "m_DP_Y"
  | DpIndX => String.eqb gm "m_DP_X_Indirect"
  | DpInd => String.eqb gm "m_DP_Indirect" || String.eqb gm "m_DP"     (* PEI *)
  | DpIndLong => String.eqb gm "m_DP_Indirect_Long"
  | DpIndY => String.eqb gm "m_DP_Indirect_Y"
  | DpIndLongY => String.eqb gm "m_DP_Indirect_Long_Y"
  | Abs => String.eqb gm "m_Absolute"
  | AbsX => String.eqb gm "m_Absolute_X"
  | AbsY => String.eqb gm "m_Absolute_Y"
  | AbsIndX => String.eqb gm "m_Absolute_X_Indirect"
  | AbsInd => String.eqb gm "m_Absolute_Indirect"
  | AbsIndLong => String.eqb gm "m_Absolute_Indirect_Long"
  | Long => String.eqb gm "m_Absolute_Long"
  | LongX => String.eqb gm "m_Absolute_Long_X"
  | BlockMove => String.eqb gm "m_BlockMove"
  | Rel8 => String.eqb gm "m_PC_Relative"
  | Rel16 => String.eqb gm "m_PC_Relative_Long"
  | StackRel => String.eqb gm "m_Stack_Relative"
  | StackRelIndY => String.eqb gm "m_Stack_Relative_Indirect_Y"
  end.

Definition upper_ascii (c : ascii) : ascii :=
  let n := N_of_ascii c in if ((97 <=? n) && (n <=? 122))%N then ascii_of_N (n - 32) else c.
Fixpoint upper (s : string) : string :=
  match s with EmptyString => EmptyString | String c r => String (upper_ascii c) (upper r) end.
