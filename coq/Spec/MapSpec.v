(* Spec/MapSpec.v -- the DOCUMENTED region table of each cartridge mapper's BusAddressToPak, as data,
   and a small generic interpreter [lookup].  Clause (v) of C05: "the class and linear position of
   every address are those of the mapper's documented region table".

   What "documented" means here (DESIGN.md, C05, note for (v)): the tables are transcribed from
     - the COMMENTS inside /repo/mapping/<mapper>/mapping.go  ("ROM access: $80:8000-$EF:FFFF",
       "SRAM access: $A0:6000-$BF:7FFF", "Lower 8KiB of WRAM", "BW-RAM image dynamically selects a
       single $2000 sized block", "BW-RAM area: linearly mapped", "program area 2", the sa1rom
       package comment "CX, DX, EX, FX are linearly mapped to banks $00..3F of linear ROM" ...), which
       give the bank ranges, the offset ranges and the class of every region, and
     - the rows of the PASSING table tests /repo/mapping/<mapper>/mapping_test.go
       (TestBusAddressToPak), which pin the linear base of each region and the packing
       (e.g. lorom $70:8000 -> $180000, hirom $A0:8000 -> $100000 and $00:8000 -> $000000 through
       BankToLinear, exhirom $3E:8000 -> $5F0000, sa1rom $80:8000 -> $200000, $44:2000 -> $E00000).
   They are NOT taken from a hardware manual (a real HiROM board decodes $00:8000 as ROM $008000) and
   NOT from the code's if-chains: a row says "these banks x these offsets belong to this class and are
   laid out like this", nothing about evaluation order; rows are pairwise disjoint
   (Props/MapSpecProps.v, [table_*_disjoint]), so [lookup] does not depend on their order.
   Every test row of TestBusAddressToPak is re-proved against the tables below ([tests_*_ok] in
   Props/MapSpecProps.v), so a transcription slip on a tested point cannot go unnoticed.

   Static; over primitive 63-bit integers like the generated mappers, so that the per-run sweep
   [forall n < 2^24, <mapper>_BusAddressToPak n = lookup table_<mapper> n] stays fast.
   Definitions only -- no proofs in this file. *)
From Coq Require Import Uint63 List Bool.
From Lib Require Import U63Ops.
Import ListNotations.
Local Open Scope uint63_scope.

(* ---- memory classes of the FX Pak Pro address space and their windows ---- *)
Inductive mclass := ROM | SRAM | WRAM.

Definition class_origin (c : mclass) : int :=
  match c with ROM => 0x000000 | SRAM => 0xE00000 | WRAM => 0xF50000 end.
Definition class_size (c : mclass) : int :=
  match c with ROM => 0xE00000 | SRAM => 0x100000 | WRAM => 0x020000 end.
Definition mclass_eqb (a b : mclass) : bool :=
  match a, b with ROM, ROM | SRAM, SRAM | WRAM, WRAM => true | _, _ => false end.

(* the class whose window contains pak address p (None: unassigned $F00000-$F4FFFF, mirrors >= $F70000) *)
Definition class_of_pak (p : int) : option mclass :=
  if p <? 0xE00000 then Some ROM
  else if p <? 0xF00000 then Some SRAM
  else if (0xF50000 <=? p) && (p <? 0xF70000) then Some WRAM
  else None.

(* ---- how the linear position inside the class is formed from (bank, offset) ---- *)
Inductive layout :=
| Half32K    (* 32 KiB half-banks packed one after another:  ((bank-b0) << 15) + (offs & $7FFF)
                (this is util.BankToLinear) *)
| Full64K    (* whole 64 KiB banks, linear:                  ((bank-b0) << 16) + offs *)
| Page8K     (* one 8 KiB window per bank, packed:           ((bank-b0) << 13) + (offs & $1FFF) *)
| Image8K.   (* every bank and every 8 KiB page of the region shows the SAME 8 KiB block:
                                                             offs & $1FFF *)

(* one row of a region table; b0 above is [r_bank_lo] *)
Record region := R {
  r_bank_lo : int; r_bank_hi : int;    (* inclusive bank range  *)
  r_off_lo  : int; r_off_hi  : int;    (* inclusive offset range *)
  r_class   : mclass;
  r_lin     : int;                     (* linear position, inside the class, of the region's first byte *)
  r_layout  : layout }.

Definition table := list region.

Definition covers (r : region) (bank offs : int) : bool :=
  (r_bank_lo r <=? bank) && (bank <=? r_bank_hi r) && (r_off_lo r <=? offs) && (offs <=? r_off_hi r).

(* linear position inside the class *)
Definition linear (r : region) (bank offs : int) : int :=
  let k := bank - r_bank_lo r in
  r_lin r +
  match r_layout r with
  | Half32K => (k << 15) + (offs land 0x7FFF)
  | Full64K => (k << 16) + offs
  | Page8K  => (k << 13) + (offs land 0x1FFF)
  | Image8K => offs land 0x1FFF
  end.

(* FX Pak Pro address *)
Definition place (r : region) (bank offs : int) : int := class_origin (r_class r) + linear r bank offs.

Fixpoint find_region (t : table) (bank offs : int) : option region :=
  match t with
  | [] => None
  | r :: t' => if covers r bank offs then Some r else find_region t' bank offs
  end.

(* the documented translation of a 24-bit bus address: pak address, or (0, ErrUnmappedAddress) *)
Definition lookup (t : table) (n : int) : int * gerr :=
  let bank := n >> 16 in
  let offs := n land 0xFFFF in
  match find_region t bank offs with
  | Some r => (place r bank offs, ENil)
  | None => (0, EUnmapped)
  end.

(* documented class and linear position of a bus address (None = unmapped) *)
Definition lookup_class (t : table) (n : int) : option (mclass * int) :=
  let bank := n >> 16 in
  let offs := n land 0xFFFF in
  match find_region t bank offs with
  | Some r => Some (r_class r, linear r bank offs)
  | None => None
  end.

(* two rows claim a common (bank, offset) *)
Definition overlap (a b : region) : bool :=
  (r_bank_lo a <=? r_bank_hi b) && (r_bank_lo b <=? r_bank_hi a) &&
  (r_off_lo a <=? r_off_hi b) && (r_off_lo b <=? r_off_hi a).
Fixpoint disjointb (t : table) : bool :=
  match t with
  | [] => true
  | r :: t' => forallb (fun r' => negb (overlap r r')) t' && disjointb t'
  end.
(* a row is a non-empty rectangle of the 24-bit space *)
Definition row_ok (r : region) : bool :=
  (r_bank_lo r <=? r_bank_hi r) && (r_bank_hi r <=? 0xFF) && (r_off_lo r <=? r_off_hi r) && (r_off_hi r <=? 0xFFFF).

(* ---- documented mirrors: [f (n + m_delta) = f n] for every n in the rectangle ---- *)
Record mirror := M {
  m_bank_lo : int; m_bank_hi : int; m_off_lo : int; m_off_hi : int;
  m_delta : int }.
Definition mcovers (m : mirror) (n : int) : bool :=
  let bank := n >> 16 in
  let offs := n land 0xFFFF in
  (m_bank_lo m <=? bank) && (bank <=? m_bank_hi m) && (m_off_lo m <=? offs) && (offs <=? m_off_hi m).

(* ======================================================================================== *)
(* lorom.  mapping/lorom/mapping.go:
     "ROM access: $00:8000-$6F:FFFF", "$70:8000-$7D:FFFF", "$80:8000-$EF:FFFF", "$F0:8000-$F0:FFFF"
        all BankToLinear(busAddr & $3F7FFF): the bank is taken modulo $40, i.e. 2 MiB of packed
        half-banks repeated every $40 banks; tests: "ROM header shadows" $00/$40/$80/$C0:FFC0 -> $007FC0,
        $70:8000 -> $180000, $7D:FFFF -> $1EFFFF, $F0:8000 -> $180000, $FF:FFFF -> $1FFFFF
     "SRAM access: $70:0000-$7D:7FFF", "$F0:0000-$FF:7FFF": packed half-banks from $E00000;
        tests $70:0000 -> $E00000, $71:0000 -> $E08000, $7D:7FFF -> $E6FFFF, $FE:0000 -> $E70000, $FF:0000 -> $E78000
     "Lower 8KiB of WRAM: $00:0000-$6F:1FFF", "$80:0000-$EF:1FFF"
     "WRAM access" banks $7E-$7F; tests $7E:0000 -> $F50000, $7F:FFFF -> $F6FFFF *)
Definition table_lorom : table := [
  R 0x00 0x3F  0x8000 0xFFFF  ROM  0x000000 Half32K;
  R 0x40 0x7D  0x8000 0xFFFF  ROM  0x000000 Half32K;
  R 0x80 0xBF  0x8000 0xFFFF  ROM  0x000000 Half32K;
  R 0xC0 0xFF  0x8000 0xFFFF  ROM  0x000000 Half32K;
  R 0x70 0x7D  0x0000 0x7FFF  SRAM 0x000000 Half32K;
  R 0xF0 0xFF  0x0000 0x7FFF  SRAM 0x000000 Half32K;
  R 0x00 0x6F  0x0000 0x1FFF  WRAM 0x000000 Image8K;
  R 0x80 0xEF  0x0000 0x1FFF  WRAM 0x000000 Image8K;
  R 0x7E 0x7F  0x0000 0xFFFF  WRAM 0x000000 Full64K ].

(* documented mirrors of lorom: the "ROM header shadows" rows of the test (banks $40, $80, $C0 show
   the ROM half of bank $00), PakAddressToBus' comment "banks $70-$7D mirror these [$F0-$FD]", and the
   pairwise identical comments of the $00-$7D and $80-$FD halves of BusAddressToPak *)
Definition mirrors_lorom : list mirror := [
  M 0x00 0x3D  0x8000 0xFFFF  0x400000;     (* ROM half of $40-$7D = ROM half of $00-$3D *)
  M 0x00 0x3F  0x8000 0xFFFF  0xC00000;     (* ROM half of $C0-$FF = ROM half of $00-$3F *)
  M 0x00 0x7D  0x0000 0xFFFF  0x800000 ].   (* banks $80-$FD = banks $00-$7D, whole banks *)

(* ======================================================================================== *)
(* hirom.  mapping/hirom/mapping.go:
     "ROM access: $C0:0000-$FD:FFFF", "$FE:0000-$FF:FFFF", "$40:0000-$7D:FFFF": busAddr & $3FFFFF,
        full banks, linear; tests $C0:0000 -> $000000, $FF:FFFF -> $3FFFFF, $40:FFC0 -> $00FFC0, $7D:FFFF -> $3DFFFF
     "ROM access: $00:8000-$1F:FFFF", "$20:8000-$3F:FFFF", "$80:8000-$9F:FFFF", "$A0:8000-$BF:FFFF":
        BankToLinear, packed half-banks; tests $00:8000 -> $000000, $1F:FFFF -> $0FFFFF, $20:8000 -> $100000,
        $21:8000 -> $108000, $80:8000 -> $000000, $A0:8000 -> $100000
     "SRAM access: $20:6000-$3F:7FFF", "$A0:6000-$BF:7FFF": one 8 KiB window per bank;
        tests $20:6000 -> $E00000, $21:6000 -> $E02000, $3F:7FFF -> $E3FFFF (same for $A0/$A1/$BF)
     "Lower 8KiB of WRAM" in $00-$3F and $80-$BF; "WRAM access" $7E-$7F *)
Definition table_hirom : table := [
  R 0xC0 0xFF  0x0000 0xFFFF  ROM  0x000000 Full64K;
  R 0x40 0x7D  0x0000 0xFFFF  ROM  0x000000 Full64K;
  R 0x00 0x3F  0x8000 0xFFFF  ROM  0x000000 Half32K;
  R 0x80 0xBF  0x8000 0xFFFF  ROM  0x000000 Half32K;
  R 0x20 0x3F  0x6000 0x7FFF  SRAM 0x000000 Page8K;
  R 0xA0 0xBF  0x6000 0x7FFF  SRAM 0x000000 Page8K;
  R 0x00 0x3F  0x0000 0x1FFF  WRAM 0x000000 Image8K;
  R 0x80 0xBF  0x0000 0x1FFF  WRAM 0x000000 Image8K;
  R 0x7E 0x7F  0x0000 0xFFFF  WRAM 0x000000 Full64K ].

(* documented mirrors of hirom: the test's sections "banks $80-FF" and "banks 00-7D" list the same
   targets ($80:8000 and $00:8000 -> $000000, $A0:6000 and $20:6000 -> $E00000, $C0:0000 and
   $40:0000 -> $000000 ...), and the code comments of the two halves are pairwise identical *)
Definition mirrors_hirom : list mirror := [
  M 0x00 0x3F  0x0000 0xFFFF  0x800000;     (* banks $80-$BF = banks $00-$3F *)
  M 0x40 0x7D  0x0000 0xFFFF  0x800000 ].   (* banks $C0-$FD = banks $40-$7D *)

(* ======================================================================================== *)
(* exhirom.  mapping/exhirom/mapping.go:
     "program area 1, ROM access: $C0:0000-$FF:FFFF": busAddr & $3FFFFF; tests $C0:0000 -> $000000, $FF:FFFF -> $3FFFFF
     "program area 1, ROM access: $80:8000-$9F:FFFF", "$A0:8000-$BF:FFFF": BankToLinear + 0;
        tests $80:8000 -> $000000, $81:8000 -> $008000, $A0:8000 -> $100000
     "SRAM access: $A0:6000-$BF:7FFF"; tests $A0:6000 -> $E00000, $A1:6000 -> $E02000, $BF:7FFF -> $E3FFFF
        (no SRAM region is documented, or tested, for banks $20-$3F of this mapper: unmapped)
     "program area 2, ROM access: $40:0000-$7D:FFFF": (busAddr & $3FFFFF) + $400000; tests $40:0000 -> $400000, $7D:FFFF -> $7DFFFF
     "program area 2, ROM access: $00:8000-$1F:FFFF", "$20:8000-$3D:FFFF": BankToLinear + $400000;
        tests $00:8000 -> $400000, $1F:FFFF -> $4FFFFF, $20:8000 -> $500000, $21:8000 -> $508000
     "program area 3 $3E-3F, ROM access: $3E:8000-$3F:FFFF": tests $3E:8000 -> $5F0000, $3F:8000 -> $5F8000
     "Lower 8KiB of WRAM" in $00-$3F and $80-$BF; "WRAM access" $7E-$7F *)
Definition table_exhirom : table := [
  R 0xC0 0xFF  0x0000 0xFFFF  ROM  0x000000 Full64K;
  R 0x80 0xBF  0x8000 0xFFFF  ROM  0x000000 Half32K;
  R 0x40 0x7D  0x0000 0xFFFF  ROM  0x400000 Full64K;
  R 0x00 0x3D  0x8000 0xFFFF  ROM  0x400000 Half32K;
  R 0x3E 0x3F  0x8000 0xFFFF  ROM  0x5F0000 Half32K;
  R 0xA0 0xBF  0x6000 0x7FFF  SRAM 0x000000 Page8K;
  R 0x00 0x3F  0x0000 0x1FFF  WRAM 0x000000 Image8K;
  R 0x80 0xBF  0x0000 0x1FFF  WRAM 0x000000 Image8K;
  R 0x7E 0x7F  0x0000 0xFFFF  WRAM 0x000000 Full64K ].

(* exhirom documents no ROM or SRAM mirror between the two halves of the map (program area 1 vs 2);
   only the low-WRAM image is common *)
Definition mirrors_exhirom : list mirror := [
  M 0x00 0x3F  0x0000 0x1FFF  0x800000 ].

(* ======================================================================================== *)
(* sa1rom.  mapping/sa1rom/mapping.go, package comment: "assume CX, DX, EX, FX are linearly mapped to
   banks $00..3F of linear ROM.  CX : banks $00..1F, DX : $20..3F, EX : $80..9F, FX : $A0..BF"
     "C0..FF  ROM area CX, DX, EX, FX": (bank-$C0) << 16 | offs, full banks, linear from 0
     "00..3F  ROM for CX, DX": bank << 15 | offs & $7FFF; tests $00:8000 -> $000000, $3F:FFFF -> $1FFFFF
     "80..BF  ROM" (EX, FX): (bank-$80+$40) << 15; tests $80:8000 -> $200000, $BF:FFFF -> $3FFFFF
     "BW-RAM image dynamically selects a single $2000 sized block": $6000-$7FFF of banks $00-$3F and
        $80-$BF, and every 8 KiB page of banks $44-$4F; the SAME single block everywhere (the first
        8 KiB of BW-RAM): tests $44:0000 -> $E00000, $44:2000 -> $E00000, $4F:FFFF -> $E01FFF
     "40..43  BW-RAM area: linearly mapped"; tests $40:0000 -> $E00000, $43:FFFF -> $E3FFFF
     "WRAM" $0000-$1FFF of $00-$3F and $80-$BF; "7E..7F WRAM access"
     "SA-1 I-RAM or registers" ($2000-$5FFF) and "50..7D inaccessible?": unmapped *)
Definition table_sa1rom : table := [
  R 0xC0 0xFF  0x0000 0xFFFF  ROM  0x000000 Full64K;
  R 0x00 0x3F  0x8000 0xFFFF  ROM  0x000000 Half32K;
  R 0x80 0xBF  0x8000 0xFFFF  ROM  0x200000 Half32K;
  R 0x40 0x43  0x0000 0xFFFF  SRAM 0x000000 Full64K;
  R 0x44 0x4F  0x0000 0xFFFF  SRAM 0x000000 Image8K;
  R 0x00 0x3F  0x6000 0x7FFF  SRAM 0x000000 Image8K;
  R 0x80 0xBF  0x6000 0x7FFF  SRAM 0x000000 Image8K;
  R 0x00 0x3F  0x0000 0x1FFF  WRAM 0x000000 Image8K;
  R 0x80 0xBF  0x0000 0x1FFF  WRAM 0x000000 Image8K;
  R 0x7E 0x7F  0x0000 0xFFFF  WRAM 0x000000 Full64K ].

(* documented mirrors of sa1rom: there is ONE BW-RAM image block ("a single $2000 sized block"), seen
   at $6000-$7FFF of every system bank and on every page of banks $44-$4F *)
Definition mirrors_sa1rom : list mirror := [
  M 0x00 0x3F  0x6000 0x7FFF  0x800000;     (* image in $80-$BF = image in $00-$3F *)
  M 0x00 0x3F  0x0000 0x1FFF  0x800000;     (* low WRAM likewise *)
  M 0x00 0x0B  0x6000 0x7FFF  0x43A000;     (* $44-$4F:0000-1FFF = the image at $00-$0B:6000-7FFF *)
  M 0x44 0x4F  0x0000 0xDFFF  0x002000;     (* every page of $44-$4F = the next page *)
  M 0x44 0x4E  0x0000 0xFFFF  0x010000 ].   (* every bank of $44-$4E = the next bank *)

(* ======================================================================================== *)
(* The rows (bus address, expected pak address) of TestBusAddressToPak in
   /repo/mapping/<mapper>/mapping_test.go, all of which pass on the pinned tree; transcribed
   mechanically.  Props/MapSpecProps.v proves that every table above reproduces every row. *)
(* lorom: 34 rows *)
Definition tests_lorom : list (int * int) := [
  (0x00FFC0, 0x007FC0);  (0x40FFC0, 0x007FC0);  (0x80FFC0, 0x007FC0);  (0xC0FFC0, 0x007FC0);
  (0x7E0000, 0xF50000);  (0x7E1000, 0xF51000);  (0x7E2000, 0xF52000);  (0x7EFFFF, 0xF5FFFF);
  (0x7F0000, 0xF60000);  (0x7FFFFF, 0xF6FFFF);  (0xF08000, 0x180000);  (0xF0FFFF, 0x187FFF);
  (0xFF8000, 0x1F8000);  (0xFFFFFF, 0x1FFFFF);  (0xF00000, 0xE00000);  (0xF07FFF, 0xE07FFF);
  (0xF10000, 0xE08000);  (0xFD0000, 0xE68000);  (0xFD7FFF, 0xE6FFFF);  (0xFE0000, 0xE70000);
  (0xFF0000, 0xE78000);  (0x800000, 0xF50000);  (0x801000, 0xF51000);  (0x708000, 0x180000);
  (0x70FFFF, 0x187FFF);  (0x7D8000, 0x1E8000);  (0x7DFFFF, 0x1EFFFF);  (0x700000, 0xE00000);
  (0x707FFF, 0xE07FFF);  (0x710000, 0xE08000);  (0x7D0000, 0xE68000);  (0x7D7FFF, 0xE6FFFF);
  (0x000000, 0xF50000);  (0x001000, 0xF51000)].
(* hirom: 57 rows *)
Definition tests_hirom : list (int * int) := [
  (0xFE0000, 0x3E0000);  (0xFEFFFF, 0x3EFFFF);  (0xFF0000, 0x3F0000);  (0xFFFFFF, 0x3FFFFF);
  (0xC00000, 0x000000);  (0xC0FFFF, 0x00FFFF);  (0xFD0000, 0x3D0000);  (0xFDFFFF, 0x3DFFFF);
  (0xA08000, 0x100000);  (0xA18000, 0x108000);  (0xA06000, 0xE00000);  (0xA16000, 0xE02000);
  (0xBF6000, 0xE3E000);  (0xBF7FFF, 0xE3FFFF);  (0x808000, 0x000000);  (0x80FFFF, 0x007FFF);
  (0x9F8000, 0x0F8000);  (0x9FFFFF, 0x0FFFFF);  (0x800000, 0xF50000);  (0x801FFF, 0xF51FFF);
  (0x9F0000, 0xF50000);  (0x9F1FFF, 0xF51FFF);  (0xA00000, 0xF50000);  (0xA01FFF, 0xF51FFF);
  (0xBF0000, 0xF50000);  (0xBF1FFF, 0xF51FFF);  (0x7E0000, 0xF50000);  (0x7E1FFF, 0xF51FFF);
  (0x7E2000, 0xF52000);  (0x7E3FFF, 0xF53FFF);  (0x7EFFFF, 0xF5FFFF);  (0x7F0000, 0xF60000);
  (0x7FFFFF, 0xF6FFFF);  (0x40FFC0, 0x00FFC0);  (0x400000, 0x000000);  (0x40FFFF, 0x00FFFF);
  (0x7D0000, 0x3D0000);  (0x7DFFFF, 0x3DFFFF);  (0x208000, 0x100000);  (0x218000, 0x108000);
  (0x206000, 0xE00000);  (0x216000, 0xE02000);  (0x3F6000, 0xE3E000);  (0x3F7FFF, 0xE3FFFF);
  (0x00FFC0, 0x007FC0);  (0x008000, 0x000000);  (0x00FFFF, 0x007FFF);  (0x1F8000, 0x0F8000);
  (0x1FFFFF, 0x0FFFFF);  (0x000000, 0xF50000);  (0x001FFF, 0xF51FFF);  (0x1F0000, 0xF50000);
  (0x1F1FFF, 0xF51FFF);  (0x200000, 0xF50000);  (0x201FFF, 0xF51FFF);  (0x3F0000, 0xF50000);
  (0x3F1FFF, 0xF51FFF)].
(* exhirom: 52 rows *)
Definition tests_exhirom : list (int * int) := [
  (0xFE0000, 0x3E0000);  (0xFEFFFF, 0x3EFFFF);  (0xFF0000, 0x3F0000);  (0xFFFFFF, 0x3FFFFF);
  (0xC00000, 0x000000);  (0xC0FFFF, 0x00FFFF);  (0xFD0000, 0x3D0000);  (0xFDFFFF, 0x3DFFFF);
  (0xA08000, 0x100000);  (0xA18000, 0x108000);  (0xA06000, 0xE00000);  (0xA16000, 0xE02000);
  (0xBF6000, 0xE3E000);  (0xBF7FFF, 0xE3FFFF);  (0x808000, 0x000000);  (0x818000, 0x008000);
  (0x800000, 0xF50000);  (0x801FFF, 0xF51FFF);  (0x9F0000, 0xF50000);  (0x9F1FFF, 0xF51FFF);
  (0xA00000, 0xF50000);  (0xA01FFF, 0xF51FFF);  (0xBF0000, 0xF50000);  (0xBF1FFF, 0xF51FFF);
  (0x7E0000, 0xF50000);  (0x7E1FFF, 0xF51FFF);  (0x7E2000, 0xF52000);  (0x7E3FFF, 0xF53FFF);
  (0x7EFFFF, 0xF5FFFF);  (0x7F0000, 0xF60000);  (0x7FFFFF, 0xF6FFFF);  (0x400000, 0x400000);
  (0x40FFFF, 0x40FFFF);  (0x7D0000, 0x7D0000);  (0x7DFFFF, 0x7DFFFF);  (0x3E8000, 0x5F0000);
  (0x3F8000, 0x5F8000);  (0x208000, 0x500000);  (0x218000, 0x508000);  (0x00FFC0, 0x407FC0);
  (0x008000, 0x400000);  (0x00FFFF, 0x407FFF);  (0x1F8000, 0x4F8000);  (0x1FFFFF, 0x4FFFFF);
  (0x000000, 0xF50000);  (0x001FFF, 0xF51FFF);  (0x1F0000, 0xF50000);  (0x1F1FFF, 0xF51FFF);
  (0x200000, 0xF50000);  (0x201FFF, 0xF51FFF);  (0x3F0000, 0xF50000);  (0x3F1FFF, 0xF51FFF)].
(* sa1rom: 55 rows *)
Definition tests_sa1rom : list (int * int) := [
  (0x000000, 0xF50000);  (0x001FFF, 0xF51FFF);  (0x1F0000, 0xF50000);  (0x1F1FFF, 0xF51FFF);
  (0x200000, 0xF50000);  (0x201FFF, 0xF51FFF);  (0x3F0000, 0xF50000);  (0x3F1FFF, 0xF51FFF);
  (0x008000, 0x000000);  (0x00FFFF, 0x007FFF);  (0x018000, 0x008000);  (0x01FFFF, 0x00FFFF);
  (0x3E8000, 0x1F0000);  (0x3EFFFF, 0x1F7FFF);  (0x3F8000, 0x1F8000);  (0x3FFFFF, 0x1FFFFF);
  (0x7E0000, 0xF50000);  (0x7E1FFF, 0xF51FFF);  (0x7E2000, 0xF52000);  (0x7E3FFF, 0xF53FFF);
  (0x7EFFFF, 0xF5FFFF);  (0x7F0000, 0xF60000);  (0x7FFFFF, 0xF6FFFF);  (0x800000, 0xF50000);
  (0x801FFF, 0xF51FFF);  (0x9F0000, 0xF50000);  (0x9F1FFF, 0xF51FFF);  (0xA00000, 0xF50000);
  (0xA01FFF, 0xF51FFF);  (0xBF0000, 0xF50000);  (0xBF1FFF, 0xF51FFF);  (0x808000, 0x200000);
  (0x80FFFF, 0x207FFF);  (0x818000, 0x208000);  (0x81FFFF, 0x20FFFF);  (0xBE8000, 0x3F0000);
  (0xBEFFFF, 0x3F7FFF);  (0xBF8000, 0x3F8000);  (0xBFFFFF, 0x3FFFFF);  (0x400000, 0xE00000);
  (0x407FFF, 0xE07FFF);  (0x408000, 0xE08000);  (0x40FFFF, 0xE0FFFF);  (0x430000, 0xE30000);
  (0x437FFF, 0xE37FFF);  (0x438000, 0xE38000);  (0x43FFFF, 0xE3FFFF);  (0x440000, 0xE00000);
  (0x441FFF, 0xE01FFF);  (0x442000, 0xE00000);  (0x447FFF, 0xE01FFF);  (0x450000, 0xE00000);
  (0x457FFF, 0xE01FFF);  (0x4F0000, 0xE00000);  (0x4FFFFF, 0xE01FFF)].
