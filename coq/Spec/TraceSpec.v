(* What a truthful trace line is (property C14), written against the independent opcode matrix
   Spec/ISA.v and an *architectural* view of the machine -- not against the Go disassembler.

   A trace line is compared through its PROJECTION [line]: bank and address, the instruction bytes
   shown, the mnemonic, the operand syntax of the addressing mode, the operand as printed (hex groups,
   each a list of bytes in the order they are printed, i.e. most significant first), the branch
   destination for relative modes, A / X / Y as rendered (16 bit, or "--" and the low byte), the
   eight flag letters.  Column padding, punctuation details (", S" vs ", Sn") and the leading cycle
   count are outside the projection (interpretation decision of C14). *)
From Coq Require Import ZArith List Bool String.
From Spec Require Import ISA.
Import ListNotations.
Local Open Scope Z_scope.

(* operand syntax as it can be told from the text of the operand column *)
Inductive syntax :=
| SyNone      (*               implied / stack *)
| SyAcc       (* A             *)
| SyImm       (* #$12 | #$1234 *)
| SyDp        (* $12           *)
| SyDpX       (* $12, X        *)
| SyDpY       (* $12, Y        *)
| SyDpInd     (* ($12)         *)
| SyDpIndX    (* ($12, X)      *)
| SyDpIndY    (* ($12), Y      *)
| SyDpIndL    (* [$12]         *)
| SyDpIndLY   (* [$12], Y      *)
| SySr        (* $12, S        *)
| SySrIndY    (* ($12, S), Y   *)
| SyAbs       (* $1234         *)
| SyAbsX      (* $1234, X      *)
| SyAbsY      (* $1234, Y      *)
| SyLong      (* $123456       *)
| SyLongX     (* $123456, X    *)
| SyAbsInd    (* ($1234)       *)
| SyAbsIndX   (* ($1234, X)    *)
| SyAbsIndL   (* [$1234]       *)
| SyRel8      (* $12 ($1234 +) offset byte, destination, direction sign *)
| SyRel16     (* $1234         the destination, printed like an absolute address *)
| SyBlock     (* #$12,#$34     source bank, destination bank *)
| SyUnknown.  (* "! unknown !" *)

(* a register as rendered: (shown with 16 bits?, value shown) *)
Definition shown := (bool * Z)%type.

Record line := mkline {
  l_pbr : Z;
  l_pc : Z;
  l_bytes : list Z;          (* the instruction bytes column *)
  l_name : string;           (* mnemonic as printed *)
  l_syn : syntax;
  l_groups : list (list Z);  (* operand hex groups, bytes in printed order *)
  l_dest : option Z;         (* destination shown for rel8 / rel16 *)
  l_back : bool;             (* rel8: direction sign shown is '-' *)
  l_a : shown;
  l_x : shown;
  l_y : shown;
  l_flags : list bool        (* N V M X D I Z C, letter shown? *)
}.

(* ------------------------------------------------------------------ the architectural view *)

Record view := mkview {
  v_pbr : Z;                 (* program bank *)
  v_pc : Z;                  (* program counter *)
  v_m8 : bool;               (* m flag set: 8-bit accumulator / memory *)
  v_x8 : bool;               (* x flag set: 8-bit index registers *)
  v_a16 : Z; v_a8 : Z;       (* the accumulator an instruction sees with m = 0 / with m = 1 *)
  v_x16 : Z; v_x8v : Z;      (* X with x = 0 / x = 1 *)
  v_y16 : Z; v_y8v : Z;
  v_flags : list bool;       (* N V M X D I Z C *)
  v_mem : Z -> Z             (* 24-bit address -> byte *)
}.

(* byte i of the instruction: instruction fetch wraps inside the program bank *)
Definition fetch (v : view) (i : Z) : Z := v_mem v (v_pbr v * 65536 + (v_pc v + i) mod 65536) mod 256.

Definition zrange (n : Z) : list Z := map Z.of_nat (seq 0 (Z.to_nat n)).

Definition sext8 (b : Z) : Z := if b <? 128 then b else b - 256.

Definition spec_rel8_dest (pc off : Z) : Z := (pc + 2 + sext8 off) mod 65536.
(* the 16-bit displacement is added modulo 2^16, so its sign does not matter *)
Definition spec_rel16_dest (pc lo hi : Z) : Z := (pc + 3 + (lo + 256 * hi)) mod 65536.

(* Syntax of the operand column.  Two adjudicated presentation aliases (see ISA.go_mode): BRK is
   written without its signature byte (WDC's assembler syntax accepts a bare BRK; the byte must
   still appear in the bytes column), PEI's operand is written as a plain direct-page address. *)
Definition spec_syntax (mn : mnem) (md : mode) : syntax :=
  match mn, md with
  | BRK, _ => SyNone
  | PEI, _ => SyDp
  | _, Imp => SyNone | _, Acc => SyAcc
  | _, ImmM => SyImm | _, ImmX => SyImm | _, Imm8 => SyImm | _, Imm16 => SyImm
  | _, Dp => SyDp | _, DpX => SyDpX | _, DpY => SyDpY | _, DpInd => SyDpInd | _, DpIndX => SyDpIndX
  | _, DpIndY => SyDpIndY | _, DpIndL => SyDpIndL | _, DpIndLY => SyDpIndLY | _, Sr => SySr
  | _, SrIndY => SySrIndY | _, Abs => SyAbs | _, AbsX => SyAbsX | _, AbsY => SyAbsY | _, Long => SyLong
  | _, LongX => SyLongX | _, AbsInd => SyAbsInd | _, AbsIndX => SyAbsIndX | _, AbsIndL => SyAbsIndL
  | _, Rel8 => SyRel8 | _, Rel16 => SyRel16 | _, BlockMove => SyBlock
  end.

(* The operand as printed.  [ops] are the operand bytes in memory order (little endian); a value is
   printed most significant byte first, so the printed group is [rev ops]: its value read as a hex
   number is the little-endian operand ([be_val_rev] below). *)
Definition spec_groups (mn : mnem) (md : mode) (ops : list Z) : list (list Z) :=
  match mn, md with
  | BRK, _ => []
  | _, Imp => [] | _, Acc => []
  | _, Rel16 => []                                   (* only the destination is shown *)
  | _, BlockMove => [[nth 1 ops 0]; [nth 0 ops 0]]   (* source bank (3rd byte), destination bank (2nd byte) *)
  | _, _ => [rev ops]
  end.

Definition spec_dest (md : mode) (pc : Z) (ops : list Z) : option Z :=
  match md with
  | Rel8 => Some (spec_rel8_dest pc (nth 0 ops 0))
  | Rel16 => Some (spec_rel16_dest pc (nth 0 ops 0) (nth 1 ops 0))
  | _ => None
  end.

Definition spec_back (md : mode) (ops : list Z) : bool :=
  match md with Rel8 => 128 <=? nth 0 ops 0 | _ => false end.

(* the line describes the instruction about to execute *)
Definition truthful (v : view) (l : line) : Prop :=
  let op := fetch v 0 in
  let mn := mnem_of op in
  let md := mode_of op in
  let n := op_length op (v_m8 v) (v_x8 v) in
  let ops := map (fetch v) (map (Z.add 1) (zrange (n - 1))) in
  l_pbr l = v_pbr v /\
  l_pc l = v_pc v /\
  l_bytes l = map (fetch v) (zrange n) /\               (* exactly the bytes the instruction occupies *)
  name_ok mn (l_name l) = true /\                       (* mnemonic of the opcode (case-insensitive; JMP for JML accepted) *)
  l_syn l = spec_syntax mn md /\
  l_groups l = spec_groups mn md ops /\
  l_dest l = spec_dest md (v_pc v) ops /\
  l_back l = spec_back md ops /\
  l_a l = (if v_m8 v then (false, v_a8 v) else (true, v_a16 v)) /\
  l_x l = (if v_x8 v then (false, v_x8v v) else (true, v_x16 v)) /\
  l_y l = (if v_x8 v then (false, v_y8v v) else (true, v_y16 v)) /\
  l_flags l = v_flags v.

(* value of a printed group (most significant byte first) / of bytes in memory order *)
Definition be_val (g : list Z) : Z := fold_left (fun acc b => acc * 256 + b) g 0.
Fixpoint le_val (bs : list Z) : Z := match bs with [] => 0 | b :: r => b + 256 * le_val r end.
