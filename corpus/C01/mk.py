#!/usr/bin/env python3
"""Writes corpus/C01/cases.txt: minimised failing inputs of the C01 defect classes found on the pinned tree
(each reproduced on the real code before the fix), in the case format of harness/cputool.go with a field header."""
F = "AllCycles,B,C,Cycles,D,E,I,Interrupt,M,N,PC,PPC,PRK,RA,RAh,RAl,RD,RDBR,RK,RX,RXl,RY,RYl,SP,StepInfo_Addr,StepInfo_EA,StepInfo_Mode,Stopped,V,WDM,X,Z,stepPC".split(",")


def case(cid, steps, regs, mem, comment):
    r = {n: 0 for n in F}
    r.update({"Interrupt": 1, "SP": 0x01FF, "I": 1})
    r.update(regs)
    return "# %s\nC %d %d 0 0 R %s M %s P" % (comment, cid, steps, " ".join(str(r[n]) for n in F),
                                                " ".join("%d=%d" % (a, v) for a, v in sorted(mem.items())))


def code(base, bs):
    return {base + i: b for i, b in enumerate(bs)}


out = ["F " + ",".join(F)]
m = code(0x8000, [0xB1, 0x10]); m.update({0x10: 0xFF, 0x11: 0xFF, 0x130001: 0x77, 0x120001: 0x66})
out.append(case(1, 1, dict(PC=0x8000, M=1, X=1, RY=2, RYl=2, RDBR=0x12), m,
                "LDA ($10),Y  DBR=$12 pointer=$FFFF Y=2: WDC reads $13:0001 (A=$77); unfixed code reads $12:0001 (A=$66)"))
m = code(0x018000, [0x7C, 0xFF, 0xFF]); m.update({0x01FFFF: 0x34, 0x010000: 0x12, 0x020000: 0x99})
out.append(case(2, 1, dict(PC=0x8000, RK=1, M=1, X=1), m,
                "JMP ($FFFF,X) X=0 in bank 1: pointer bytes at $01:FFFF and $01:0000 (PC=$1234); unfixed code takes the high byte from $02:0000 (PC=$9934)"))
m = code(0x8000, [0xA2, 0x34, 0x12, 0xE2, 0x10, 0xC2, 0x10])
out.append(case(3, 3, dict(PC=0x8000), m,
                "LDX #$1234 ; SEP #$10 ; REP #$10: WDC X=$0034; unfixed code X=$1234"))
m = code(0x8000, [0x54, 0x7F, 0x7E]); m.update({0x7E0000: 0xAB})
out.append(case(4, 1, dict(PC=0x8000, M=1, X=1, RA=5, RAh=0, RAl=0), m,
                "MVN $7F,$7E with m=1, B:A=$0000 (one byte), stale RA copy = 5: WDC C=$FFFF and PC=$8003; unfixed code counts in RA (C=$0004, PC stays)"))
m = code(0x8000, [0x69, 0x09])
out.append(case(5, 1, dict(PC=0x8000, M=1, X=1, D=1, RA=9, RAl=9), m,
                "SED ; CLC ; LDA #$09 ; ADC #$09: WDC A=$18; unfixed code A=$12"))
m = code(0x8000, [0xE9, 0x01])
out.append(case(6, 1, dict(PC=0x8000, M=1, X=1, D=1, C=1, RA=0x10, RAl=0x10), m,
                "SED ; SEC ; LDA #$10 ; SBC #$01: WDC A=$09 carry set; unfixed code A=$0F"))
open(__file__.rsplit("/", 1)[0] + "/cases.txt", "w").write("\n".join(out) + "\n")
