"""C18 (partial by nature): separate instances never interfere across goroutines.

What is proved (Coq, static, Props/Sched.v): for EVERY schedule of any number of threads whose atomic
actions read only own+read-only locations and write only own locations, each thread's state, outputs
and owned heap equal its solo run and unowned/read-only locations keep their values.
What is checked per run about the code: tools/globals (go/ssa may-write analysis, regenerated from the
tree under test) emits Gen/GenGlobals.v; `Lemma no_global_writers : GenGlobals.writers = []` and
`no_unsafe_features` by reflexivity; the theorem is instantiated with that list
(C18_library_instances).  The link "the Go code of a goroutine respects the generated writer list"
is the soundness of that analysis: an argument, not a Coq proof -- hence `partial`.
Runtime tie / falsifier: harness `race`, built plainly and with -race: goroutines owning distinct
instances, every observable compared with the same work done sequentially; a mismatch, a race-detector
report or a runtime crash is a counterexample with the job mix as replay.
"""
import os
import re
import vlib

TOOL_DIR = os.path.join(vlib.ROOT, "tools", "globals")
TOOL_BIN = os.path.join(vlib.BUILD, "globals")
RACE_BIN = os.path.join(vlib.BUILD, "harness_race.bin")

PARTIAL = (
    "partial: (1) the Coq theorem is about an interleaving (sequentially consistent) model of atomic reads/writes; "
    "Go memory-model data races themselves, the scheduler, channels and the runtime are not modelled; "
    "(2) that each goroutine's code respects the generated writer list is established by an unverified conservative "
    "static analysis (go/ssa taint + per-parameter may-write summaries) which cannot see writes through reflection on "
    "values it did not see escape, package unsafe, cgo, assembly or go:linkname (their absence in the analysed packages "
    "is checked: unsafe_features = []); (3) standard-library process-wide state reached through log.Println/log.Fatalf in "
    "unreachable arms is listed (stdlib_shared_state_calls) but outside the claim; (4) that callers hand distinct objects "
    "to distinct goroutines is the property's hypothesis; (5) the runtime tie explores only the schedules the Go scheduler "
    "produced in this run (race detector + result comparison), not all schedules.")

SCHED_V = """(* C18: per-run restatement of the scheduling theorems (static proofs in Props/Sched.v) *)
From Coq Require Import List Arith.
Import ListNotations.
From Props Require Import Sched.

(* for every schedule: thread t's state, outputs and owned heap = t running alone for as many steps *)
Theorem C18_schedule_independence :
  forall (loc val out st : Type) (loc_eq_dec : forall a b : loc, {a = b} + {a <> b})
         (next : tid -> st -> action loc val out st)
         (own : tid -> loc -> Prop) (RO : loc -> Prop),
    (forall t u l, own t l -> own u l -> t = u) ->
    (forall t l, own t l -> ~ RO l) ->
    (forall t s, confined_action own RO t (next t s)) ->
    forall (sched : list tid) (c : cfg loc val out st) (t : tid),
      let y := solo loc_eq_dec next t (times t sched) (view c t) in
      sts (run loc_eq_dec next sched c) t = l_st y /\\
      outs (run loc_eq_dec next sched c) t = l_out y /\\
      (forall l, own t l -> hp (run loc_eq_dec next sched c) l = l_hp y l).
Proof. exact schedule_independence. Qed.

(* locations owned by nobody -- in particular the read-only ones -- are never modified *)
Theorem C18_RO_unchanged :
  forall (loc val out st : Type) (loc_eq_dec : forall a b : loc, {a = b} + {a <> b})
         (next : tid -> st -> action loc val out st)
         (own : tid -> loc -> Prop) (RO : loc -> Prop),
    (forall t l, own t l -> ~ RO l) ->
    (forall t s, confined_action own RO t (next t s)) ->
    forall (sched : list tid) (c : cfg loc val out st) (l : loc),
      RO l -> hp (run loc_eq_dec next sched c) l = hp c l.
Proof. exact RO_unchanged. Qed.

(* the premise is needed: a system with a shared written location admits no own/RO partition, and its
   results do depend on the schedule *)
Theorem C18_premise_is_needed :
  forall (own : tid -> nat -> Prop) (RO : nat -> Prop),
    (forall t u l, own t l -> own u l -> t = u) ->
    (forall t l, own t l -> ~ RO l) ->
    ~ (forall t s, confined_action own RO t (ExampleRacy.next t s)).
Proof. exact ExampleRacy.premise_is_needed. Qed.

Print Assumptions C18_schedule_independence.
Print Assumptions C18_RO_unchanged.
Print Assumptions C18_premise_is_needed.
"""

PREMISE_V = """(* C18: the premise about the code, from the analysis regenerated on this run *)
From Coq Require Import List String Arith.
Import ListNotations.
From Props Require Import Sched.
From Gen Require Import GenGlobals.

Lemma no_global_writers : GenGlobals.writers = [].
Proof. reflexivity. Qed.

Lemma no_unsafe_features : GenGlobals.unsafe_features = [].
Proof. reflexivity. Qed.

(* evidence: the package-level variables and packages the analysis covered *)
Lemma globals_listed : List.length GenGlobals.globals = %(nglobals)d /\\ List.length GenGlobals.packages = %(npkgs)d.
Proof. split; reflexivity. Qed.

(* the scheduling theorem instantiated with the generated writer list: locations are package-level
   variables (by name) or cells of objects owned by one thread; a thread that touches only its own
   objects and writes a package-level variable only if the analysis lists a writer for it -- there is
   none -- behaves under every schedule as it does alone, and no package-level variable changes. *)
Theorem C18_library_instances :
  forall (O val out st : Type) (O_eq_dec : forall a b : O, {a = b} + {a <> b})
         (next : tid -> st -> action (gloc string O) val out st),
    (forall t s, respects GenGlobals.written_globals t (next t s)) ->
    forall (sched : list tid) (c : cfg (gloc string O) val out st) (t : tid),
      let dec := gloc_eq_dec string_dec O_eq_dec in
      let y := solo dec next t (times t sched) (view c t) in
      sts (run dec next sched c) t = l_st y /\\
      outs (run dec next sched c) t = l_out y /\\
      (forall o, hp (run dec next sched c) (LObj t o) = l_hp y (LObj t o)) /\\
      (forall g, hp (run dec next sched c) (LGlobal g) = hp c (LGlobal g)).
Proof.
  intros O val out st O_eq_dec next.
  exact (@no_listed_writers_independent _ string O val out st string_dec O_eq_dec GenGlobals.writers (fun w => fst (fst (fst w))) next no_global_writers).
Qed.
Print Assumptions C18_library_instances.
"""

# which job kinds exercise which package (used to aim the soak at statically flagged variables)
KINDS_FOR_PKG = [
    ("emulator/cpu65c816", ["cpu65", "syslog", "cpu65", "sys"]),
    ("emulator/cpualt", ["cpualt"]),
    ("emulator/bus", ["bus", "cpu65"]),
    ("emulator/memory", ["bus", "sys"]),
    ("emulator", ["syslog", "sys"]),
    ("asm", ["emitter", "emitter", "syslog"]),
    ("mapping", ["stateless"]),
    ("color15", ["stateless"]),
    ("xbuf", ["stateless", "cpu65", "syslog"]),
    ("", ["rom", "stateless"]),
]


def build_tool():
    with vlib.Lock("globalstool"):
        srcs = ["main.go", "go.mod", "go.sum"]
        key = vlib.sha(*[vlib.file_sha(os.path.join(TOOL_DIR, n)) for n in srcs])
        stamp = TOOL_BIN + ".stamp"
        if os.path.exists(TOOL_BIN) and os.path.exists(stamp) and open(stamp).read() == key:
            return ""
        rc, o, _ = vlib.sh(["go", "build", "-o", TOOL_BIN, "."], cwd=TOOL_DIR, timeout=600)
        if rc != 0:
            return o
        open(stamp, "w").write(key)
        return ""


def build_harnesses():
    """plain + -race build of the harness against the tree under test"""
    with vlib.Lock("harness"):
        plain, err = vlib._build_harness()
        if plain is None:
            return None, None, err
        rc, o, _ = vlib.sh(["go", "build", "-race", "-o", RACE_BIN, "."], cwd=os.path.join(vlib.BUILD, "harness"), timeout=900)
        if rc != 0:
            return plain, None, o
        return plain, RACE_BIN, ""


def run_analysis(repo, outdir):
    """returns (ok, stdout, writers[list of dict], summary dict)"""
    os.makedirs(outdir, exist_ok=True)
    for n in ("GenGlobals.v", "GenGlobals.err"):
        try:
            os.remove(os.path.join(outdir, n))
        except OSError:
            pass
    rc, out, _ = vlib.sh([TOOL_BIN, "-repo", repo, "-out", outdir], timeout=300)
    writers = []
    for line in out.splitlines():
        m = re.match(r"WRITER (\S+) in (.+?) at (\S+): (.*)", line)
        if m:
            writers.append({"global": m.group(1), "function": m.group(2), "at": m.group(3), "how": m.group(4)})
    summ = {}
    m = re.search(r"globals: (\d+) packages, (\d+) globals, (\d+) functions, (\d+) writers, (\d+) unsafe features", out)
    if m:
        summ = dict(zip(("packages", "globals", "functions", "writers", "unsafe"), map(int, m.groups())))
    ok = rc == 0 and os.path.exists(os.path.join(outdir, "GenGlobals.v")) and bool(summ)
    return ok, out, writers, summ


def analyser_selftest():
    """seeded writer/reader patterns in tools/globals/testdata/mod: every W_* reported, no R_*"""
    td = os.path.join(TOOL_DIR, "testdata", "mod")
    out = os.path.join(vlib.WORK, "globals_selftest")
    ok, text, writers, summ = run_analysis(td, out)
    if not ok:
        return False, "analysis of the self-test module failed: " + text[-800:], 0, 0
    src = open(os.path.join(td, "p", "p.go")).read()
    ws = sorted(set(re.findall(r"^func (W_\w+)\(", src, re.M)))
    rs = sorted(set(re.findall(r"^func (R_\w+)\(", src, re.M)))
    flagged = set()
    for w in writers:
        m = re.search(r"\.([WR]_\w+?)(\$\d+)?$", w["function"])
        if m:
            flagged.add(m.group(1))
    missed = [w for w in ws if w not in flagged]
    false = [r for r in rs if r in flagged]
    extra = [w for w in writers if not re.search(r"\.[WR]_\w+", w["function"])]
    detail = "missed=%s false_alarms=%s other=%s" % (missed, false, extra[:3])
    return (not missed and not false and not extra and len(ws) >= 30 and len(rs) >= 15), detail, len(ws), len(rs)


def parse_race_output(out):
    """-> (fails, dataraces, summary dict, kinds dict, mix, jobs shown)"""
    fails, races, kinds, summ, mix, shown = [], [], {}, {}, "", []
    lines = out.splitlines()
    for i, line in enumerate(lines):
        m = re.match(r"FAIL race job=(\S+):(\d+) goroutine=(-?\d+) round=(\d+) concurrent=(\S+) sequential=(\S+)", line)
        if m:
            det = [line]
            for l in lines[i + 1:i + 4]:
                if l.startswith("  "):
                    det.append(l)
            fails.append({"kind": m.group(1), "seed": int(m.group(2)), "detail": "\n".join(det)})
        if line.startswith("kinds "):
            for it in line.split()[1:]:
                k, v = it.split("=")
                kinds[k] = int(v)
        if line.startswith("mix "):
            mix = line[4:].strip()
        m = re.match(r"race: jobs=(\d+) goroutines=(\d+) rounds=(\d+) runs=(\d+) mismatches=(\d+) sequential_s=([\d.]+)", line)
        if m:
            summ = {"jobs": int(m.group(1)), "goroutines": int(m.group(2)), "rounds": int(m.group(3)), "runs": int(m.group(4)),
                    "mismatches": int(m.group(5))}
        if line.startswith("JOB "):
            shown.append("\n".join(lines[i:i + 3])[:600])
    blocks = out.split("==================")
    for b in blocks:
        if "WARNING: DATA RACE" not in b:
            continue
        bl = [l for l in b.strip().splitlines()]
        fn, where = "?", "?"
        for j, l in enumerate(bl):
            if re.match(r"^(Write|Read|Previous|Atomic)", l.strip()) and j + 2 < len(bl):
                # first frame outside the Go runtime
                k = j + 1
                while k + 1 < len(bl) and bl[k].strip():
                    fn = bl[k].strip()
                    where = bl[k + 1].strip().split(" ")[0]
                    if not fn.startswith("runtime."):
                        break
                    k += 2
                break
        races.append({"function": fn, "at": where, "detail": "\n".join(bl[:26])})
    return fails, races, summ, kinds, mix, shown


def soak(ck, binary, label, seed, goroutines, jobs, secs, mix=None, only=None, once=False, show=False, timeout=900, order="before"):
    cmd = [binary, "race", "-seed", str(seed), "-goroutines", str(goroutines), "-jobs", str(jobs), "-secs", str(secs), "-order", order]
    if mix:
        cmd += ["-mix", ",".join(mix)]
    if only:
        cmd += ["-only", only]
    if once:
        cmd.append("-once")
    if show:
        cmd.append("-show")
    env = dict(vlib.GOENV, GORACE="halt_on_error=0 exitcode=66")
    rc, out, dt = vlib.sh(cmd, timeout=timeout, env=env)
    fails, races, summ, kinds, jobmix, shown = parse_race_output(out)
    crash = None
    if rc not in (0, 1, 66) or (rc != 0 and not fails and not races):
        m = re.search(r"(fatal error: [^\n]*|panic: [^\n]*|NONDET [^\n]*|\[timeout[^\n]*)", out)
        crash = (m.group(1) if m else "exit status %d" % rc) + "\n" + out[-1500:]
    return {"label": label, "rc": rc, "out": out, "fails": fails, "races": races, "summ": summ, "kinds": kinds, "mix": jobmix,
            "crash": crash, "secs": dt, "goroutines": goroutines, "soak_secs": secs, "shown": shown, "order": order}


_SEEN = set()


def report_runtime(ck, res):
    """turn runtime findings into counterexamples; returns number reported"""
    n = 0
    binary = "race" if res["label"].startswith("race") else "plain"
    rp = {"binary": binary, "only": res["mix"], "goroutines": res["goroutines"], "secs": res["soak_secs"], "order": res["order"]}
    seen = _SEEN
    for f in res["fails"]:
        key = "mismatch:" + f["kind"]
        if key in seen:
            continue
        seen.add(key)
        ck.violation(key, "counterexample", "a goroutine's results differ from the same work done alone (%s build)\n%s" % (binary, f["detail"]),
                     dict(rp, job="%s:%d" % (f["kind"], f["seed"])))
        n += 1
    for r in res["races"]:
        key = "datarace:" + r["function"]
        if key in seen:
            continue
        seen.add(key)
        if len(seen) > 6:
            break
        ck.violation(key, "counterexample", "Go race detector: goroutines driving distinct instances race in %s at %s\n%s" % (r["function"], r["at"], r["detail"]), rp)
        n += 1
    ckey = "crash:" + res["crash"].splitlines()[0][:60] if res["crash"] else ""
    if res["crash"] and not res["out"].count("NONDET") and ckey not in seen:
        seen.add(ckey)
        ck.violation(ckey, "counterexample",
                     "the concurrent run crashed (%s build): %s" % (binary, res["crash"]), rp)
        n += 1
    return n


def run_c18(ck):
    quick = ck.tier != "thorough"
    ck.trusted = [
        "Coq 8.16.1 kernel; Props/Sched.v uses the standard library only and is closed under the global context (no axioms)",
        "the interleaving model itself (atomic single-location reads/writes, sequential consistency): see 'partial'",
        "tools/globals: the go/ssa-based may-write analysis (conservative, unverified; self-tested on every run against 34 seeded writer and 22 reader patterns); go/ssa's construction of SSA; golang.org/x/tools v0.29.0",
        "allow-list of read-only standard-library callees in tools/globals/main.go (readOnlyExternal); uses are listed in GenGlobals.assumed_readonly_uses",
        "the Go runtime, scheduler and race detector; harness/racetool.go (job generators, digests)",
    ]
    ck.cov["partial"] = PARTIAL
    os.makedirs(vlib.RUN, exist_ok=True)
    os.makedirs(vlib.GEN, exist_ok=True)

    # ---- static theorems
    pv = os.path.join(vlib.RUN, "C18_sched.v")
    vlib.write_if_changed(pv, SCHED_V)
    fresh = vlib.static_vo_fresh(pv)
    ck.oblige("static library Props/Sched.vo is compiled and newer than its source", fresh, "run ./check --setup")
    rc, out, dt, _ = vlib.coqc(pv, timeout=600)
    for t in ("C18_schedule_independence (forall schedule, forall thread: state, outputs, owned heap = solo run)",
              "C18_RO_unchanged (forall schedule: read-only / unowned locations keep their value)",
              "C18_premise_is_needed (shared written location: no own/RO partition exists; results depend on the schedule)"):
        ck.oblige("Theorem " + t, rc == 0, out)
    if rc == 0:
        ck.assumptions += vlib.parse_assumptions(out)
    ck.sample({"theorem": "C18_schedule_independence", "statement": SCHED_V.split("Theorem C18_schedule_independence :")[1].split("Proof.")[0].strip()})

    # ---- premise about the code, regenerated
    terr = build_tool()
    static_ok = False
    writers, summ, atext = [], {}, ""
    if terr:
        ck.oblige("build tools/globals (go/ssa, offline)", False, terr)
    else:
        ok, detail, nw, nr = analyser_selftest()
        ck.oblige("analysis self-test: %d seeded writer patterns all reported, %d reader patterns none reported" % (nw, nr), ok, detail)
        tmp = os.path.join(vlib.WORK, "globals_tmp")
        aok, atext, writers, summ = run_analysis(vlib.REPO, tmp)
        ck.oblige("analysis: every non-test library package of the tree under test loaded and analysed (go/ssa)", aok, atext[-1500:])
        if aok:
            gv = os.path.join(vlib.GEN, "GenGlobals.v")
            vlib.write_if_changed(gv, open(os.path.join(tmp, "GenGlobals.v")).read())
            rc, out, dt, _ = vlib.coqc(gv)
            ck.oblige("coqc Gen/GenGlobals.v (regenerated facts type-check)", rc == 0, out)
            if rc == 0:
                pm = os.path.join(vlib.RUN, "C18_premise.v")
                vlib.write_if_changed(pm, PREMISE_V % {"nglobals": summ["globals"], "npkgs": summ["packages"]})
                rc, out, dt, _ = vlib.coqc(pm, timeout=600)
                wdetail = "\n".join("%(global)s written in %(function)s at %(at)s: %(how)s" % w for w in writers[:12]) or out
                ck.oblige("Lemma no_global_writers : GenGlobals.writers = [] (reflexivity; %d package-level variables, %d functions analysed)"
                          % (summ["globals"], summ["functions"]), rc == 0 and not writers, wdetail)
                ck.oblige("Lemma no_unsafe_features : GenGlobals.unsafe_features = [] (no unsafe / cgo / assembly / linkname in the analysed packages)",
                          rc == 0 or (summ.get("unsafe", 1) == 0), atext[-600:] if summ.get("unsafe") else "")
                ck.oblige("Theorem C18_library_instances (scheduling theorem instantiated with the generated writer list)", rc == 0, out)
                static_ok = rc == 0 and not writers
                if rc == 0:
                    ck.assumptions += vlib.parse_assumptions(out)
            gl = re.findall(r'^  \("([^"]+)", "([^"]+)", "([^"]+)", "([^"]+)"\)', open(os.path.join(tmp, "GenGlobals.v")).read(), re.M)
            ck.cov["package_level_variables"] = ["%s.%s : %s" % (g[0], g[1], g[3]) for g in gl]
            ck.cov["analysis"] = summ
            for key in ("assumed_readonly_uses", "stdlib_shared_state_calls", "reflect_users"):
                m = re.search(r"Definition %s : list string := \[(.*?)\]\." % key, open(os.path.join(tmp, "GenGlobals.v")).read(), re.S)
                ck.cov[key] = re.findall(r'"([^"]*)"', m.group(1)) if m else []
    bad = vlib.foreign_assumptions(ck.assumptions)
    ck.oblige("Print Assumptions: closed under the global context", not bad and len(ck.assumptions) >= 3, "unexpected: %s" % bad)

    # ---- runtime tie / falsifier
    plain, raceb, herr = build_harnesses()
    if plain is None:
        ck.oblige("build Go harness against the tree under test", False, herr)
    if raceb is None:
        ck.oblige("build Go harness with -race against the tree under test", False, herr)
    runs = []
    # "before": sequential reference first, then the concurrent rounds (as the property is phrased);
    # "after": the process's very first use of the library is concurrent (cold caches / lazy initialisation),
    # the reference is taken afterwards.
    if plain:
        g, j, s = (16, 24, 4) if quick else (32, 64, 60)
        runs.append(soak(ck, plain, "plain", ck.seed, g, j, s, show=True))
        for k in range(1 if quick else 6):
            runs.append(soak(ck, plain, "plain-cold%d" % k, ck.seed + 10 + k, g, j, 1 if quick else 5, order="after"))
    if raceb:
        g, j, s = (8, 16, 3) if quick else (16, 32, 120)
        runs.append(soak(ck, raceb, "race-cold", ck.seed + 1, g, j, s, once=True, timeout=1800, order="after"))
        if not quick:
            runs.append(soak(ck, raceb, "race", ck.seed + 2, g, j, 60, once=True, timeout=1800))
    # statically flagged variables: aim a second soak at the job kinds that reach them
    if writers and raceb and not any(r["fails"] or r["races"] or r["crash"] for r in runs):
        mix = []
        for w in writers:
            pkg = w["global"].rsplit(".", 1)[0]
            rel = pkg.split("github.com/alttpo/snes")[-1].strip("/")
            for prefix, kinds in KINDS_FOR_PKG:
                if rel == prefix or (prefix and rel.startswith(prefix)):
                    mix += [k for k in kinds if k not in mix]
                    break
        if mix:
            runs.append(soak(ck, raceb, "race-aimed", ck.seed + 3, 8, 16, 10 if quick else 60, mix=mix, once=True, timeout=1800, order="after"))
            if plain:
                runs.append(soak(ck, plain, "plain-aimed", ck.seed + 4, 16, 32, 6 if quick else 60, mix=mix, order="after"))
    found = 0
    total_runs, kinds_all, jobs_all = 0, {}, set()
    for r in runs:
        found += report_runtime(ck, r)
        clean = not r["fails"] and not r["races"] and not r["crash"] and r["rc"] == 0
        nd = "NONDET" in r["out"]
        name = ("tie (%s build): %d concurrent job runs on distinct instances (%d goroutines, %d rounds) equal their sequential results"
                % (r["label"], r["summ"].get("runs", 0), r["summ"].get("goroutines", 0), r["summ"].get("rounds", 0)))
        if r["label"].startswith("race"):
            name += "; race detector silent"
        ck.oblige(name, clean, ("harness job not deterministic on its own (machinery): " if nd else "") + r["out"][-1500:])
        total_runs += r["summ"].get("runs", 0)
        jobs_all.update(x for x in r["mix"].split(",") if x)
        for k, v in r["kinds"].items():
            kinds_all[k] = kinds_all.get(k, 0) + v
    if runs and runs[0]["shown"]:
        ck.sample({"job": runs[0]["shown"][0]})
        ck.sample({"job": runs[0]["shown"][min(2, len(runs[0]["shown"]) - 1)]})
    broken = [o["name"] for o in ck.obligations if not o["discharged"]]
    if broken and not found:
        if writers:
            ck.violation("writers:" + ",".join(sorted(set(w["global"].split("/")[-1] for w in writers)))[:120], "broken-theorem",
                         "premise of C18 no longer checks: instructions outside the initialisers may write package-level variables "
                         "(the concurrent soak under the race detector found no failing schedule):\n" +
                         "\n".join("%(global)s in %(function)s at %(at)s: %(how)s" % w for w in writers[:12]),
                         {"writers": writers[:20], "broken_obligations": broken})
        else:
            ck.violation("obligation", "broken-theorem", "broken: " + "; ".join(broken), {"broken_obligations": broken})
    if found and static_ok:
        ck.cov["note"] = "runtime counterexample although the static premise checked: the may-write analysis (or its allow-list) missed a writer"
    ck.cov.update({
        "evaluations": total_runs + summ.get("functions", 0),
        "distinct_nontrivial": len(jobs_all),
        "rule": "evaluations = concurrent job executions compared with their sequential result (both builds) + functions analysed statically; "
                "distinct_nontrivial = distinct (kind, seed) jobs of this run, each creating its own instances and producing >= 4 observations "
                "(System with/without Logger: assembled program, RunUntil, registers, WRAM, listing, trace; cpu65/cpualt: 1500 disassembled steps of seeded byte soup "
                "with IRQs; bus: Attach/EaRead/EaWrite/EaRead24_wrap/EaDump; emitter: random histories, Clone/Append/Finalize/WriteTextTo/WriteHexTo; rom: NewROM/ReadHeader/"
                "WriteHeader/BusReader/BusWriter incl. the alwaysError paths; stateless: 8 mappers x 20000 addresses, color15, xbuf, RegionNames)",
        "traces_validated_against_impl": total_runs,
        "job_kind_distribution": kinds_all,
        "soaks": [{k: r[k] for k in ("label", "order", "rc", "summ", "goroutines", "soak_secs", "secs")} for r in runs],
        "checker_cmd": "coqc build/work/Run/C18_sched.v build/work/Run/C18_premise.v (over Props/Sched.vo and the regenerated build/work/Gen/GenGlobals.v); "
                       "build/globals -repo $VERIF_REPO; build/harness.bin race ...; GORACE=... build/harness_race.bin race ...",
        "modelled": "scheduling: Props/Sched.v; code facts: Gen/GenGlobals.v regenerated from source on this run",
        "exhaustive": False,
    })


def replay(pid, rp):
    r = rp.get("replay", rp)
    if "only" in r:
        plain, raceb, herr = build_harnesses()
        binary = raceb if r.get("binary") == "race" else plain
        if binary is None:
            print(herr)
            return 1
        cmd = [binary, "race", "-goroutines", str(r.get("goroutines", 8)), "-secs", str(r.get("secs", 10)), "-only", r["only"], "-once",
               "-order", r.get("order", "before")]
        rc, out, _ = vlib.sh(cmd, timeout=1800, env=dict(vlib.GOENV, GORACE="halt_on_error=0 exitcode=66"))
        print(out[-6000:])
        return 1 if (rc != 0 or "FAIL race" in out or "DATA RACE" in out) else 0
    err = build_tool()
    if err:
        print(err)
        return 1
    ok, text, writers, summ = run_analysis(vlib.REPO, os.path.join(vlib.WORK, "globals_replay"))
    print(text)
    return 1 if (writers or not ok) else 0
