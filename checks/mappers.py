"""C04 / C05: cartridge mappers.  Model regenerated from source (gen, u63 back end); the property is
proved by an exhaustive sweep of all 2^24 addresses inside the Coq kernel; the translator is
validated by per-bank digests over the whole domain; the Go falsifier states the clauses directly
against the compiled functions to turn a broken proof into a concrete input."""
import os
import re
import vlib

MAPPERS = ["lorom", "hirom", "exhirom", "sa1rom"]

PROP_V = """(* per-run instantiation: {prop} for the {m} mapper, against the regenerated functions *)
From Coq Require Import Uint63.
From Lib Require Import U63Ops Sweep.
From Props Require Import MapProps.
From Gen Require Import GenMap_{m}.
Local Open Scope uint63_scope.
Lemma sweep : all24 ({chk}_check {m}_BusAddressToPak {m}_PakAddressToBus) = true.
Proof. vm_cast_no_check (eq_refl true). Qed.
Theorem {prop}_{m} : forall n : int, (n <? 16777216) = true ->
  {chk}_prop {m}_BusAddressToPak {m}_PakAddressToBus n.
Proof. exact ({chk}_all _ _ sweep). Qed.
Print Assumptions {prop}_{m}.
"""

# C05 clause (v): BusAddressToPak = the documented region table (Spec/MapSpec.v), its own sweep and file so that
# it is an obligation of its own and runs beside the sweep of clauses (i)-(iv)
REGION_V = """(* per-run instantiation: C05 clause (v) for the {m} mapper -- the regenerated BusAddressToPak equals the
   documented region table of Spec/MapSpec.v on every 24-bit address; consequences: documented class and
   linear position, documented mirrors *)
From Coq Require Import Uint63.
From Lib Require Import U63Ops Sweep.
From Spec Require Import MapSpec.
From Props Require Import MapSpecProps.
From Gen Require Import GenMap_{m}.
Local Open Scope uint63_scope.
Lemma sweep : all24 (region_check {m}_BusAddressToPak table_{m}) = true.
Proof. vm_cast_no_check (eq_refl true). Qed.
Theorem C05_region_{m} : forall n : int, (n <? 16777216) = true ->
  {m}_BusAddressToPak n = lookup table_{m} n.
Proof. exact (region_all _ _ sweep). Qed.
Theorem C05_class_pos_{m} : forall n : int, (n <? 16777216) = true ->
  class_pos_prop {m}_BusAddressToPak table_{m} n.
Proof. exact (class_pos_all _ _ _ C05_region_{m} table_{m}_spec). Qed.
Theorem C05_mirrors_{m} : forall n : int, (n <? 16777216) = true ->
  mirror_prop {m}_BusAddressToPak mirrors_{m} n.
Proof. exact (mirrors_all _ _ _ C05_region_{m} table_{m}_spec). Qed.
Print Assumptions C05_region_{m}.
Print Assumptions C05_class_pos_{m}.
Print Assumptions C05_mirrors_{m}.
"""

# diagnostic only (compiled when the sweep above is rejected): Coq's own first address off the table
REGION_BAD_V = """From Coq Require Import Uint63.
From Lib Require Import U63Ops Sweep.
From Spec Require Import MapSpec.
From Props Require Import MapSpecProps.
From Gen Require Import GenMap_{m}.
Definition first_bad := Eval vm_compute in
  match region_first_bad {m}_BusAddressToPak table_{m} with
  | Some n => Some (n, {m}_BusAddressToPak n, lookup table_{m} n)
  | None => None
  end.
Print first_bad.
"""

DIG_V = """(* translator validation for the {m} mapper: digests of the regenerated functions, computed by
   vm_compute, against the digests the Go harness computed from the compiled functions *)
From Coq Require Import Uint63 List.
From Lib Require Import U63Ops Digest.
From Gen Require Import GenMap_{m}.
Import ListNotations.
Local Open Scope uint63_scope.
Set Printing Depth 2000.
Definition go_b2p : list int := [{g1}].
Definition go_p2b : list int := [{g2}].
Definition bad_b2p := Eval vm_compute in diff_idx (bank_digests (fun n => enc ({m}_BusAddressToPak n))) go_b2p.
Definition bad_p2b := Eval vm_compute in diff_idx (bank_digests (fun n => enc ({m}_PakAddressToBus n))) go_p2b.
Print bad_b2p.
Print bad_p2b.
Lemma tie_{m} : bad_b2p = [] /\\ bad_p2b = [].
Proof. split; reflexivity. Qed.
"""


def region_sweep(m):
    """C05 clause (v) for one mapper: static table facts fresh + the per-run sweep against the regenerated function."""
    o = {"obl": [], "assumptions": [], "secs": 0.0}
    rv = os.path.join(vlib.RUN, "C05_region_%s.v" % m)
    vlib.write_if_changed(rv, REGION_V.format(m=m))
    fresh = vlib.static_vo_fresh(rv)
    o["obl"].append(("static: Spec/MapSpec.v, Props/MapSpecProps.v compiled and fresh (table_%s_spec: documented positions inside "
                     "their class window + documented mirrors, swept over 2^24; table_%s_rows: rows disjoint; tests_%s_ok: every "
                     "row of TestBusAddressToPak reproduced)" % (m, m, m), fresh, "" if fresh else "stale or missing .vo: run ./check --setup"))
    rc, out, dt, cached = vlib.coqc(rv, timeout=1200)
    detail = out
    if rc != 0:
        bv = os.path.join(vlib.RUN, "C05_region_bad_%s.v" % m)
        vlib.write_if_changed(bv, REGION_BAD_V.format(m=m))
        rc2, out2, _, _ = vlib.coqc(bv, timeout=1200)
        mm = re.search(r"first_bad\s*=\s*(.*?)\s*:\s*option", out2, re.S)
        detail = "Coq (find24): first address off the table, (n, generated b2p n, lookup table n) = %s\n%s" % (
            " ".join(mm.group(1).split()) if mm else "?", out[-1500:])
    o["obl"].append(("Theorem C05_region_%s : forall n < 2^24, %s_BusAddressToPak n = MapSpec.lookup table_%s n  (clause (v): class "
                     "and linear position of the documented region table; + C05_class_pos_%s, C05_mirrors_%s; kernel sweep of 2^24 points, %.0fs%s)"
                     % (m, m, m, m, m, dt, ", cached" if cached else ""), rc == 0, detail))
    o["assumptions"] = vlib.parse_assumptions(out)
    o["secs"] = dt
    return o


def per_mapper(prop, m, harness, gen_errs):
    r = {"m": m, "obl": [], "fails": [], "assumptions": []}
    chk = prop.lower()
    if "GenMap_" + m in gen_errs:
        r["obl"].append(("translate %s mapper from source" % m, False, gen_errs["GenMap_" + m]))
        r["translated"] = False
    else:
        r["translated"] = True
        rc, out, dt, cached = vlib.coqc(os.path.join(vlib.GEN, "GenMap_%s.v" % m))
        r["obl"].append(("coqc Gen/GenMap_%s.v (regenerated model type-checks)" % m, rc == 0, out))
        if rc == 0:
            pv = os.path.join(vlib.RUN, "%s_%s.v" % (prop, m))
            vlib.write_if_changed(pv, PROP_V.format(prop=prop, m=m, chk=chk))
            jobs = [lambda: vlib.coqc(pv, timeout=1200)]
            if prop == "C05":
                jobs.append(lambda: region_sweep(m))
            res = vlib.parallel(jobs)
            rc, out, dt, cached = res[0]
            r["obl"].append(("Theorem %s_%s : forall n < 2^24, %s_prop n  (kernel sweep of 2^24 points, %.0fs%s)"
                             % (prop, m, chk, dt, ", cached" if cached else ""), rc == 0, out))
            r["assumptions"] = vlib.parse_assumptions(out)
            r["sweep_secs"] = dt
            if prop == "C05":
                r["obl"] += res[1]["obl"]
                r["assumptions"] += res[1]["assumptions"]
                r["region_secs"] = res[1]["secs"]
            # translator validation: digests over the whole domain
            tie, detail = False, "harness unavailable"
            if harness:
                g_rc, g_out, _ = vlib.sh([harness, "mapdigest", m], timeout=300)
                gl = g_out.splitlines()
                if g_rc == 0 and len(gl) >= 2:
                    g1 = "; ".join(gl[0].split()[1:])
                    g2 = "; ".join(gl[1].split()[1:])
                    dv = os.path.join(vlib.RUN, "Dig_%s.v" % m)
                    vlib.write_if_changed(dv, DIG_V.format(m=m, g1=g1, g2=g2))
                    rc2, out2, dt2, _ = vlib.coqc(dv, timeout=900)
                    tie = rc2 == 0
                    detail = "512 bank digests equal (Lemma tie_%s accepted)" % m if tie else out2
                else:
                    detail = "mapdigest failed: " + g_out[-500:]
            r["obl"].append(("tie: generated %s functions = compiled Go on all 2 x 2^24 inputs (per-bank digests, Lemma tie_%s)" % (m, m), tie, detail))
    # implementation-level falsifier (also run when everything holds: it must agree)
    if harness:
        rc, out, _ = vlib.sh([harness, "mapcheck", m], timeout=600)
        for line in out.splitlines():
            if line.startswith("FAIL " + prop + "."):
                mm = re.match(r"FAIL (\S+) (\S+) input=(\S+) (.*)", line)
                r["fails"].append({"clause": mm.group(1), "mapper": m, "input": mm.group(3), "detail": mm.group(4)})
        r["falsifier_out"] = out
    return r


def run(ck, prop):
    ck.trusted = [
        "Coq 8.16.1 kernel incl. its bytecode VM (vm_compute / VM casts) and primitive 63-bit integers; no native_compute",
        "axioms: only those the standard library declares for Uint63 primitives (add_spec, lsr_spec, ltb_spec, eqb_correct, of_to_Z ...), as printed under print_assumptions",
        "translator /verif/gen (Go AST -> Gallina), validated on this run by 2 x 256 bank digests per mapper over the whole 2^24 domain (trust reduced to a 63-bit rolling-hash collision)",
        "go/types and go/parser; Go compiler for the harness",
        "the statement of the clauses in coq/Props/MapProps.v (class windows, console-owned areas)",
    ]
    if prop == "C05":
        ck.trusted.append(
            "the region tables of coq/Spec/MapSpec.v as the meaning of 'documented region table': transcribed from the comments of "
            "mapping/*/mapping.go and the rows of the passing TestBusAddressToPak tables (not from a hardware manual); checked statically: "
            "rows disjoint, positions inside their class window, all 198 test rows reproduced; a second, independently encoded "
            "transcription lives in harness/maptool.go (falsifier clause C05.region_table)")
    errs = vlib.run_gen("mappers")
    vlib.fallback_obligations(ck, ["GenMap_" + m for m in MAPPERS])
    harness, herr = vlib.build_harness()
    if harness is None:
        ck.oblige("build Go harness against the tree under test", False, herr)
    os.makedirs(vlib.RUN, exist_ok=True)
    results = vlib.parallel([(lambda m=m: per_mapper(prop, m, harness, errs)) for m in MAPPERS])
    npoints = 0
    region_ok = True
    for r in results:
        m = r["m"]
        all_ok = True
        for (name, ok, detail) in r["obl"]:
            ck.oblige(name, ok, "" if ok else detail)
            all_ok = all_ok and ok
        ck.assumptions += r["assumptions"]
        if r["fails"]:
            for f in r["fails"]:
                ck.violation("%s.%s.%s" % (m, f["clause"].split(".")[1], f["input"]), "counterexample",
                             "%s %s: %s" % (f["clause"], m, f["detail"]),
                             {"mapper": m, "clause": f["clause"], "input_hex": f["input"], "observed": f["detail"],
                              "how": "harness mapeval %s b2p|p2b %s" % (m, f["input"])})
        elif not all_ok:
            broken = [n for (n, ok, _) in r["obl"] if not ok]
            kind = "broken-correspondence" if any(n.startswith("tie") or n.startswith("translate") for n in broken) else "broken-theorem"
            ck.violation("%s.obligation" % m, kind,
                         "no failing input found by the Go falsifier over all 2^24 addresses; broken: " + "; ".join(broken),
                         {"mapper": m, "broken_obligations": broken})
        else:
            npoints += 1 << 24
        smp = {"mapper": m, "theorem": "%s_%s" % (prop, m), "sweep_secs": r.get("sweep_secs"),
               "falsifier": (r.get("falsifier_out") or "").splitlines()[:8]}
        if prop == "C05":
            smp["region_theorem"] = ("C05_region_%s : forall n, (n <? 16777216) = true -> %s_BusAddressToPak n = lookup table_%s n"
                                     % (m, m, m))
            smp["region_sweep_secs"] = r.get("region_secs")
            region_ok = region_ok and any(n.startswith("Theorem C05_region_") and ok for (n, ok, _) in r["obl"])
        ck.sample(smp)
    bad = vlib.foreign_assumptions(ck.assumptions)
    ck.oblige("Print Assumptions lists only Uint63 primitives and the standard library's axioms for them", not bad, "unexpected: %s" % bad)
    ck.cov.update({
        "exhaustive": True,
        "evaluations": npoints,
        "distinct_nontrivial": npoints,
        "rule": "every 24-bit address, per mapper, enumerated inside the Coq kernel (all_pow / all24_sound); a point is counted when its mapper's theorem was accepted; all points are distinct",
        "checker_cmd": "coqc -Q coq/Lib Lib -Q coq/Props Props -Q build/work/Gen Gen build/work/Run/%s_<mapper>.v" % prop,
        "traces_validated_against_impl": 8 * (1 << 24) if all(r.get("translated") for r in results) else 0,
        "modelled": "mapping/{lorom,hirom,exhirom,sa1rom}/mapping.go and mapping/util/mapping.go, regenerated from source on this run",
    })
    if prop == "C05":
        ck.cov.update({
            "clauses": ["(i) image/class windows", "(ii) rejected pak window", "(iii) console-owned areas", "(iv) 8 KiB page structure",
                        "(v) class and linear position = documented region table (Spec/MapSpec.v), with the documented mirrors"],
            "region_table_clause_discharged": region_ok,
            "rule": "every 24-bit address, per mapper, enumerated inside the Coq kernel twice: once for clauses (i)-(iv) (c05_check) and once "
                    "for clause (v) (region_check: generated BusAddressToPak = MapSpec.lookup); a point is counted when BOTH theorems of its "
                    "mapper were accepted; all points are distinct",
            "checker_cmd": "coqc -Q coq/Lib Lib -Q coq/Props Props -Q coq/Spec Spec -Q build/work/Gen Gen build/work/Run/C05_<mapper>.v ; "
                           "... build/work/Run/C05_region_<mapper>.v",
        })


def run_c04(ck):
    run(ck, "C04")


def run_c05(ck):
    run(ck, "C05")


def replay(pid, rp):
    r = rp.get("replay", {})
    harness, herr = vlib.build_harness()
    if "input_hex" in r and harness:
        for d in ("b2p", "p2b"):
            rc, out, _ = vlib.sh([harness, "mapeval", r["mapper"], d, r["input_hex"]])
            print(out.strip())
        rc, out, _ = vlib.sh([harness, "mapcheck", r["mapper"]])
        hit = [l for l in out.splitlines() if l.startswith("FAIL " + r.get("clause", pid))]
        print("\n".join(hit) if hit else "clause holds on the current tree")
        return 1 if hit else 0
    print(rp.get("detail"))
    return 1
