"""Generation of the per-run Coq file proving, routine by routine over a regenerated interpreter model, that a run from
two states agreeing on registers / memory / callbacks (not necessarily on the recorded trace) gives equal results and
agreeing states (engine: coq/Props/RelLib.v).  Discharges the hypothesis `step_same` of Props/DisasmProps.v (C14)."""
from checks import cpusafe


def generate(path, mod):
    M = cpusafe.Model(path, mod)
    out = ["""(* GENERATED per run by checks/cpurel.py: the regenerated model %s never looks at the recorded trace *)
From Coq Require Import ZArith List Bool NArith.
From Lib Require Import ZOps Machine.
From Gen Require Import GenFields %s.
From Props Require Import RelLib.
Import ListNotations.
Local Open Scope Z_scope.

Create HintDb relprocs.
""" % (mod, mod)]
    lemmas = []
    emitted_tbl = False

    def call(f):
        alts = []
        for c in M.callees(f):
            alts.append("| |- rsame (%s%s) _ => eapply rel_%s" % (c, " _" * (len(M.byname[c]["params"]) + 1), c))
        if "tbl_proc" in cpusafe.idents(f["body"]):
            alts.append("| |- rsame (tbl_proc _ _) _ => eapply rel_tbl_proc")
        return "fun _ => lazymatch goal with %s end" % " ".join(alts) if alts else "fun _ => fail"

    for f in M.funcs:
        if not f["monadic"]:
            continue
        name = f["name"]
        if "tbl_proc" in cpusafe.idents(f["body"]) and not emitted_tbl:
            out.append("""Lemma rel_tbl_proc : forall op s1 s2, same s1 s2 -> rsame (tbl_proc op s1) (tbl_proc op s2).
Proof.
  intros op s1 s2 Hs. unfold tbl_proc.
  destruct op as [|p|p]; [ | | exact I ];
  repeat (match goal with
          | |- rsame (match ?q with _ => _ end _) _ => is_var q; destruct q as [q|q|]
          end);
  first [ exact I | solve [ eauto with relprocs ] ].
Qed.
""")
            lemmas.append("rel_tbl_proc")
            emitted_tbl = True
        ps = " ".join(n for n, _ in f["params"])
        callstr1 = " ".join([name] + [n for n, _ in f["params"]] + ["s1"])
        callstr2 = " ".join([name] + [n for n, _ in f["params"]] + ["s2"])
        out.append("Lemma rel_%s : forall %s s1 s2, same s1 s2 -> rsame (%s) (%s).\nProof. intros %s s1 s2 Hs; cbv beta delta [%s]; to_right s1 s2 Hs; rel_run ltac:(%s). Qed.\n"
                   % (name, ps, callstr1, callstr2, ps, name, call(f)))
        if name in M.procs:
            out.append("#[local] Hint Resolve rel_%s : relprocs.\n" % name)
        lemmas.append("rel_" + name)
    out.append("""(* the regenerated Step never looks at the recorded bus trace *)
Theorem step_same_%s : forall s1 s2, same s1 s2 -> rsame (Step s1) (Step s2).
Proof. exact rel_Step. Qed.
Print Assumptions step_same_%s.
""" % (mod, mod))
    return "\n".join(out), {"lemmas": lemmas}
