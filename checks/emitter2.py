"""Emitter properties C06 (Finalize resolves every label reference or reports an error) and C15 (listings reproduce
exactly the emitted bytes).

Model: coq/Model/Emitter.v (emit1) + coq/Model/EmitterExt.v (the two listing routines C15 is about, with the two known
defects as boolean switches: chunk_own / label_flush).  Theorems: coq/Props/FinalizeProps.v, coq/Props/ListingProps.v
(static, compiled by ./check --setup; restated by `exact` and `Print Assumptions`-ed in a per-run file).
Tie: harness `emit2cases` drives the REAL *asm.Emitter with corpus + structured (boundary distances, every Finalize
failure class, data lengths 0 1 15 16 17 32 33 40, Label/Comment right after SetBase) + random histories and prints what
it observed after every call, both listings before and after Finalize; the cases are written as Gallina data and Coq
checks `bad_casesX <append variant> <listing variant> cases = []` by vm_compute, sharded.  WHICH variant of the listing
routines (and of Append) describes the tree under test is decided on discriminating built-in histories: the C15 theorems
are about the repaired variant, `C15_refuted_*` refute the same statements for the variant of the pinned tree.
Falsifiers: harness `emit2check c06|c15` state the properties directly on the real code (reference two-pass assembler vs
Finalize; expected listing from the script vs WriteHexTo / WriteTextTo / Bytes()) and shrink a failing history."""
import hashlib
import json
import os
import re
import vlib
from checks import emitter as E

CORPUS = E.CORPUS

HDR2 = """From Coq Require Import ZArith NArith List Bool.
From Lib Require Import ZList.
From Model Require Import Emitter EmitterTie EmitterExt.
Import ListNotations.
Local Open Scope Z_scope.
"""

bl = E.bl


def fx_term(own, flush):
    return "(mkFix %s %s)" % (bl(own), bl(flush))


def shard_text2(cases, cb, own, flush):
    # (emit1, at the merge) cases travel in the token wire format of Model/EmitterTie.v (decode_case) and are checked
    # by Model/EmitterTieX.bad_encodedX = check_caseX on the decoded case: ~15x less coqc time and memory than
    # elaborating the cases as Gallina terms
    return E.shard_text([E.e_case(c) for c in cases], (cb, own, flush))


def sizes(tier):
    if tier == "thorough":
        return {"cases": 12000, "shard": 400, "falsify": 20000}
    return {"cases": 1300, "shard": 90, "falsify": 2500}


STATIC_FILES = ["Model/Emitter.v", "Model/EmitterTie.v", "Model/EmitterExt.v", "Props/FinalizeProps.v", "Props/ListingProps.v"]
FORBIDDEN = re.compile(r"\b(Axiom|Parameter|Conjecture|Admitted|admit|Variable|Variables|Hypothesis)\b|Unset\s+Guard|Guard\s+Checking|type-in-type|Unset\s+Universe")


def hygiene(ck):
    bad = []
    for f in STATIC_FILES:
        p = os.path.join(vlib.COQ, f)
        try:
            src = re.sub(r"\(\*.*?\*\)", "", open(p).read(), flags=re.S)
        except OSError:
            bad.append(f + ": missing")
            continue
        for m in FORBIDDEN.finditer(src):
            bad.append("%s: %s" % (f, m.group(0)))
        vo = p[:-2] + ".vo"
        if not os.path.exists(vo) or os.path.getmtime(vo) < os.path.getmtime(p):
            bad.append(f + ": compiled .vo missing or older than the source (run ./check --setup)")
    ck.oblige("hygiene: no Axiom/Parameter/Admitted/admit/Variable, no guard or universe switch in %s; static .vo fresh" % ", ".join(STATIC_FILES),
              not bad, "; ".join(bad))


def run_tie2(ck, harness):
    """Correspondence of Model/Emitter.v + EmitterExt.v with the compiled code.  Returns a dict (ok, variant, ...)."""
    sz = sizes(ck.tier)
    res = {"ok": False, "variant": None, "n": 0, "feat": {}, "tags": {}, "fin": {}, "detail": "", "census": {}}
    rc, out, dt = vlib.sh([harness, "emit2cases", str(ck.seed), str(sz["cases"]), ck.tier, CORPUS], timeout=1200)
    cases = []
    for line in out.splitlines():
        if line.startswith("CENSUS "):
            res["census"] = json.loads(line[7:])
        elif line.startswith("{"):
            cases.append(json.loads(line))
        elif line.startswith("ERROR"):
            res["detail"] = line
            return res
    if rc != 0 or not cases:
        res["detail"] = "emit2cases failed rc=%s: %s" % (rc, out[-600:])
        return res
    errs = [c for c in cases if c.get("err")]
    if errs:
        res["detail"] = "harness could not describe case %d (%s): %s" % (errs[0]["id"], errs[0]["tag"], errs[0]["err"])
        res["mismatch_cases"] = errs[:1]
        return res
    res["n"], res["cases"] = len(cases), cases
    distinct = set()
    for c in cases:
        for f in c.get("feat") or []:
            res["feat"][f] = res["feat"].get(f, 0) + 1
        t = c["tag"]
        if t.startswith("corpus"):
            t = "corpus"
        res["tags"][t] = res["tags"].get(t, 0) + 1
        fc = c["final"]["fin"]["cls"]
        res["fin"][fc] = res["fin"].get(fc, 0) + 1
        distinct.add(hashlib.sha1(json.dumps([c["gen"], c["nil"], c["cap"], [r["step"] for r in c["steps"]]], sort_keys=True).encode()).hexdigest())
    res["distinct"] = len(distinct)
    os.makedirs(vlib.RUN, exist_ok=True)

    # ---- which Append / EmitBytes / Label does the tree implement?  decided on discriminating histories
    def pick(pred):
        return [c for c in cases if pred(c["tag"])]
    probes = {
        "append": pick(lambda t: t.startswith("builtin:append-base")),
        "chunks": pick(lambda t: t.startswith("builtin:db-chunks")),
        "label": pick(lambda t: t.startswith("builtin:label-before-base")),
    }
    for k, v in probes.items():
        if not v:
            res["detail"] = "harness produced no probe history for '%s'" % k
            return res
    jobs, names = [], []
    for which in ("append", "chunks", "label"):
        for val in (False, True):
            cb, own, flush = (val if which == "append" else False, val if which == "chunks" else False, val if which == "label" else False)
            p = os.path.join(vlib.RUN, "E2Probe_%s_%s.v" % (which, bl(val)))
            vlib.write_if_changed(p, shard_text2(probes[which], cb, own, flush))
            jobs.append(lambda p=p: vlib.coqc(p, timeout=300))
            names.append((which, val))
    rs = vlib.parallel(jobs)
    decided = {}
    for (which, val), r in zip(names, rs):
        decided.setdefault(which, {})[val] = (r[0] == 0, r[1])
    variant = {}
    for which in ("append", "chunks", "label"):
        okf, okt = decided[which][False][0], decided[which][True][0]
        if okf == okt:
            res["detail"] = ("probe '%s': the model agrees with the code under %s variants:\n[false] %s\n[true] %s"
                             % (which, "both" if okf else "neither", decided[which][False][1][-500:], decided[which][True][1][-500:]))
            res["mismatch_cases"] = probes[which][:2]
            res["probe_failed"] = which
            return res
        variant[which] = okt
    cb, own, flush = variant["append"], variant["chunks"], variant["label"]
    res["variant"] = {"append_copies_base": cb, "chunk_own": own, "label_flush": flush}

    shards = [cases[i:i + sz["shard"]] for i in range(0, len(cases), sz["shard"])]
    for n in os.listdir(vlib.RUN):
        m = re.match(r"Cases_E2_(\d+)\.", n)
        if m and int(m.group(1)) >= len(shards):
            os.remove(os.path.join(vlib.RUN, n))

    def job(i):
        p = os.path.join(vlib.RUN, "Cases_E2_%d.v" % i)
        vlib.write_if_changed(p, shard_text2(shards[i], cb, own, flush))
        return vlib.coqc(p, timeout=1800)
    rs = vlib.parallel([(lambda i=i: job(i)) for i in range(len(shards))])
    res["secs"] = round(sum(r[2] for r in rs), 1)
    res["cached"] = sum(1 for r in rs if r[3])
    res["shards"] = len(shards)
    bad = [(i, r) for i, r in enumerate(rs) if r[0] != 0]
    if bad:
        i, r = bad[0]
        ids = [int(x) for x in re.findall(r"\((\d+)(?:%Z)?,\s*\[", r[1])]
        res["detail"] = "shard %d: %s" % (i, r[1][-1200:])
        res["mismatch_cases"] = [c for c in shards[i] if c["id"] in ids][:3]
        return res
    res["ok"] = True
    return res


TRUSTED = [
    "Coq 8.16.1 kernel incl. its bytecode VM (vm_compute); no axioms (Print Assumptions: closed under the global context)",
    "hand-written model coq/Model/Emitter.v + coq/Model/EmitterExt.v, tied to the compiled code on this run by differential execution (traces_validated_against_impl, input distribution in coverage.tie); the tie is testing, the theorems are about the model",
    "harness/emittool.go + harness/emit2tool.go: generators, per-call classification of instruction methods by probing separate instances of the real emitter, listing-record parsers (cosmetic text is not compared)",
    "modelled, not verified: Go semantics of slices (targets have cap = len), copy, maps (lookup/insert/delete; iteration order = the two order parameters of Finalize, every covering order is quantified over), uint32 wrap-around, encoding/binary.PutUint16, fmt/xbuf rendering",
    "rendering leaves the emitter unchanged: in the model WriteHexTo/WriteTextTo are functions of the state (true by typing); on the real code this is checked by the falsifier (state and both listings observed before and after rendering)",
]


def falsify(ck, harness, which):
    sz = sizes(ck.tier)
    rc, out, dt = vlib.sh([harness, "emit2check", which, str(ck.seed), str(sz["falsify"]), ck.tier, CORPUS], timeout=1500)
    fails, done = [], ""
    for line in out.splitlines():
        if line.startswith("FAIL "):
            fails.append(json.loads(line[5:]))
        elif line.startswith("DONE"):
            done = line
    ck.oblige("falsifier `emit2check %s` ran to completion on the real code" % which, bool(done), out[-800:])
    m = re.search(r"histories=(\d+) evaluations=(\d+)", done)
    stats = (int(m.group(1)), int(m.group(2))) if m else (0, 0)
    ck.cov["falsifier"] = {"cmd": "harness emit2check %s %d %d %s" % (which, ck.seed, sz["falsify"], ck.tier), "result": done, "secs": round(dt, 1)}
    return fails, stats


def report_fails(ck, which, fails):
    for f in fails:
        ck.violation("%s:%s" % (which, f["key"]), "counterexample", "%s: %s" % (f["clause"], f["detail"][:3000]),
                     {"which": which, "script": f["script"], "clause": f["clause"], "key": f["key"], "k": f.get("k", 0)})


def tie_obligation(ck, t, what):
    name = ("tie: Model/Emitter.v + EmitterExt.v = compiled *asm.Emitter on %d scripts (%s; Lemma tie : bad = [] in every shard)"
            % (t["n"], what))
    ck.oblige(name, t["ok"], t["detail"])
    ck.cov["traces_validated_against_impl"] = t["n"] if t["ok"] else 0
    ck.cov["tie"] = {k: t.get(k) for k in ("n", "distinct", "shards", "secs", "cached", "variant", "feat", "tags", "fin")}
    ck.cov["methods_found_by_reflection"] = len((t.get("census") or {}).get("methods") or [])


def prop_file(ck, name, text):
    p = os.path.join(vlib.RUN, name)
    vlib.write_if_changed(p, text)
    fresh = vlib.static_vo_fresh(p)
    rc, out, dt, cached = vlib.coqc(p, timeout=600)
    if rc == 0:
        ck.assumptions += vlib.parse_assumptions(out)
    return rc == 0 and fresh, (out if rc != 0 else ("" if fresh else "static .vo older than its source: run ./check --setup")), out


def after_obligations(ck, fails, t):
    """obligation broken and nothing concrete found -> name what broke"""
    broken = [o["name"] for o in ck.obligations if not o["discharged"]]
    if broken and not fails:
        kind = "broken-correspondence" if any(n.startswith("tie") for n in broken) else "broken-theorem"
        rp = {"broken_obligations": broken}
        if t.get("mismatch_cases"):
            c = t["mismatch_cases"][0]
            rp["script"] = {"tag": c["tag"], "gen": c["gen"], "nil": c["nil"], "cap": c["cap"], "fill": c["fill"],
                            "steps": [r["step"] for r in c["steps"]]}
            rp["which"] = "case"
        ck.violation("obligation", kind, "the falsifier found no failing input; broken: " + "; ".join(broken) + "\n" + t.get("detail", "")[-1500:], rp)
    bad = vlib.foreign_assumptions(ck.assumptions)
    ck.oblige("Print Assumptions of every restated theorem: closed under the global context", not bad, "unexpected: %s" % bad)


# ---------------------------------------------------------------------------------------------- C06
C06_V = HDR2 + """From Props Require Import FinalizeProps.
(* per-run instantiation of C06; the listing routines are the variant the tie selected for this tree *)
Definition fx : fixes := {fx}.

(* history invariant: the state reached by ANY history is the abstract first-pass state of the accepted calls *)
Theorem C06_history_invariant : forall ops target g ef rl,
  hist_ok ops -> runX fx ops (new_em target g) = (ef, rl) -> in_one_bank (assemble (accepted ops rl)) ->
  Rel (assemble (accepted ops rl)) ef /\\ AInv (assemble (accepted ops rl)).
Proof. exact (C06_history fx). Qed.

Theorem C06_history_in_words : forall ops b g ef rl,
  hist_ok ops -> runX fx ops (new_em (Some b) g) = (ef, rl) -> in_one_bank (assemble (accepted ops rl)) ->
  let s := assemble (accepted ops rl) in
  address ef = base ef + n ef /\\ Bytes ef = a_img s /\\ n ef <= Cap ef /\\ NoDup (keys (labels ef)) /\\
  (forall l r, is_ref8 ef l r <->
     exists pre d t g' post, accepted ops rl = pre ++ OIns E2L d l t g' :: post /\\ r = a_pc (assemble pre) + 1) /\\
  (forall l r, is_ref16 ef l r <->
     exists pre d t g' post, accepted ops rl = pre ++ OIns E3L d l t g' :: post /\\ r = a_pc (assemble pre) + 1) /\\
  (forall l r, is_ref8 ef l r -> base ef < r /\\ r < base ef + n ef) /\\
  (forall l r, is_ref16 ef l r -> base ef < r /\\ r + 1 < base ef + n ef).
Proof. exact (C06_history_facts fx). Qed.

Theorem C06_reachable_states_wellformed : forall ops b g ef rl,
  hist_ok ops -> runX fx ops (new_em (Some b) g) = (ef, rl) -> in_one_bank (assemble (accepted ops rl)) -> WF ef.
Proof. exact (C06_reachable_WF fx). Qed.

(* Finalize, for every history and EVERY pair of visiting orders covering the keys of the two maps *)
Theorem C06_finalize_every_order : forall ops b g ef rl o8 o16 e' res,
  hist_ok ops -> runX fx ops (new_em (Some b) g) = (ef, rl) -> in_one_bank (assemble (accepted ops rl)) ->
  covers o8 (d8 ef) -> covers o16 (d16 ef) -> Finalize o8 o16 ef = (e', res) ->
  (res = FOk <-> program_resolvable (assemble (accepted ops rl))) /\\ finalize_post ef e' res.
Proof. exact (C06_finalize fx). Qed.

Theorem C06_go_orders_are_covered : forall (m : list (lbl * list Z)) ord, Permutation.Permutation (keys m) ord -> covers ord m.
Proof. exact covers_perm. Qed.

Theorem C06_finalize_on_wellformed_states : forall o8 o16 e e' res,
  WF e -> covers o8 (d8 e) -> covers o16 (d16 e) -> Finalize o8 o16 e = (e', res) ->
  finalize_post e e' res /\\ (res = FOk <-> resolvable e).
Proof. intros o8 o16 e e' res W C8 C16 H. split; [exact (finalize_spec o8 o16 e e' res W C8 C16 H)|exact (finalize_iff o8 o16 e e' res W C8 C16 H)]. Qed.

Theorem C06_label_twice : forall l e a, GetLabel l e = Some a -> execX fx (OLabel l) e = Refused e.
Proof. exact (C06_label_redefinition fx). Qed.

Theorem C06_label_once : forall l e, GetLabel l e = None ->
  exists e', execX fx (OLabel l) e = Done e' /\\ GetLabel l e' = Some (PC e) /\\
             (forall l', l' <> l -> GetLabel l' e' = GetLabel l' e) /\\ Bytes e' = Bytes e /\\ PC e' = PC e.
Proof. exact (C06_label_fresh fx). Qed.

Theorem C06_today_is_Emitter_run : forall ops e, runX today ops e = run ops e.
Proof. exact runX_today. Qed.

Example C06_nonvacuous : hist_ok ex_ok /\\ in_one_bank (assemble ex_ok) /\\
  snd (run ex_ok (new_em target64k false)) = repeat false 11.
Proof. exact ex_ok_premises. Qed.
Example C06_boundaries : snd (fin_of ex_ok) = FOk /\\ znth (fst (fin_of ex_ok)) 1 = 127 /\\ znth (fst (fin_of ex_ok)) 127 = 128 /\\
  slice (fst (fin_of ex_ok)) 130 132 = [0; 128] /\\ znth (fst (fin_of ex_ok)) 133 = 251 /\\ slice (fst (fin_of ex_ok)) 135 137 = [137; 128].
Proof. exact ex_ok_result. Qed.

Print Assumptions C06_history_invariant.
Print Assumptions C06_history_in_words.
Print Assumptions C06_reachable_states_wellformed.
Print Assumptions C06_finalize_every_order.
Print Assumptions C06_go_orders_are_covered.
Print Assumptions C06_finalize_on_wellformed_states.
Print Assumptions C06_label_twice.
Print Assumptions C06_label_once.
Print Assumptions C06_today_is_Emitter_run.
Print Assumptions C06_boundaries.
"""

C06_THEOREMS = [
    "C06_history_invariant (forall op lists, targets, listing modes: Rel (assemble accepted) ef /\\ AInv)",
    "C06_history_in_words (address = base + n, Bytes = image, unique label keys, recorded refs = operand addresses of earlier label instructions, inside [base, base+n))",
    "C06_reachable_states_wellformed (operand ranges of distinct references disjoint)",
    "C06_finalize_every_order (forall histories and all covering visiting orders: FOk <-> program_resolvable; finalize_post: operand bytes, frame, error names a reference)",
    "C06_go_orders_are_covered (every permutation of the keys is a covering order)",
    "C06_finalize_on_wellformed_states",
    "C06_label_twice / C06_label_once (Label of an existing name refused, state unchanged)",
    "C06_today_is_Emitter_run (runX today = Emitter.run)",
    "Examples C06_nonvacuous / C06_boundaries (+127, -128, jmp, two references, base $C08000)",
]


def run_c06(ck):
    ck.trusted = list(TRUSTED)
    harness, herr = vlib.build_harness()
    if harness is None:
        ck.oblige("build Go harness against the tree under test", False, herr)
        return
    hygiene(ck)
    t = run_tie2(ck, harness)
    tie_obligation(ck, t, "Finalize outcomes ok/unresolved/toofar/panic, branch distances -130..+129, jumps, multiple / missing references, mid-history Finalize")
    v = t.get("variant") or {"chunk_own": False, "label_flush": False}
    ok, detail, out = prop_file(ck, "C06_props.v", C06_V.replace("{fx}", fx_term(v["chunk_own"], v["label_flush"])))
    for th in C06_THEOREMS:
        ck.oblige("Theorem " + th, ok, detail)
    fails, stats = falsify(ck, harness, "c06")
    report_fails(ck, "c06", fails)
    after_obligations(ck, fails, t)
    cases = t.get("cases") or []
    nontriv = set()
    for c in cases:
        f = c.get("feat") or []
        if "E2L" in f or "E3L" in f:
            nontriv.add(hashlib.sha1(json.dumps([c["gen"], c["nil"], c["cap"], [r["step"] for r in c["steps"]]], sort_keys=True).encode()).hexdigest())
    ck.cov.update({
        "evaluations": t["n"] + stats[1],
        "distinct_nontrivial": len(nontriv),
        "rule": "tie cases: corpus + 133 structured scripts (distances solved exactly, every failure class) + random histories from one PRNG (VERIF_SEED); "
                "a case is non-trivial when it contains at least one label reference (branch or jump), distinct by (gen, nil, cap, steps); "
                "falsifier evaluations (reference two-pass assembler vs real Finalize, 5 checks per history) are counted in evaluations only",
        "checker_cmd": "coqc build/work/Run/C06_props.v; coqc build/work/Run/Cases_E2_<k>.v (Lemma tie); harness emit2check c06",
        "modelled": "asm/emitter.go: NewEmitter write SetBase emitBase emit1..emit4 emit2Label emit3Label addDangling* Label GetLabel Comment EmitBytes Finalize Clone Append WriteTextTo WriteHexTo; asm/flags.go",
        "exhaustive": False,
        "falsifier_histories": stats[0],
    })
    ck.sample({"theorem C06_finalize_every_order": "forall ops b g ef rl o8 o16 e' res, hist_ok ops -> runX fx ops (new_em (Some b) g) = (ef, rl) -> in_one_bank (assemble (accepted ops rl)) -> covers o8 (d8 ef) -> covers o16 (d16 ef) -> Finalize o8 o16 ef = (e', res) -> (res = FOk <-> program_resolvable (assemble (accepted ops rl))) /\\ finalize_post ef e' res"})
    ck.sample({"finalize_post e e' res": "frame_eq e e' /\\ bufok e' /\\ zlen (code e') = zlen (code e) /\\ (forall p, ~ operand_pos e p -> znth (code e') p = znth (code e) p) /\\ match res with FOk => resolvable e /\\ d8, d16 emptied /\\ (is_ref8 e l r -> label l = a -> code'[r-base] = (a-(r+1)) mod 256) /\\ (is_ref16 e l r -> code'[r-base], code'[r+1-base] = lo16 a, hi16 a) | FUnresolved l => (referenced8 e l \\/ referenced16 e l) /\\ label l undefined | FTooFar f t => exists l r, is_ref8 e l r /\\ label l = t /\\ f = r+1 /\\ ~ -128 <= t-(r+1) <= 127 | FPanic => False end"})
    for c in cases[:400]:
        if c["tag"].startswith("c06:") and len(ck.cov["samples"]) < 6:
            ck.sample({"tag": c["tag"], "gen": c["gen"], "cap": c["cap"], "steps": [r["step"] for r in c["steps"]][:12], "finalize": c["final"]["fin"]})


# ---------------------------------------------------------------------------------------------- C15
C15_V = HDR2 + """From Props Require Import FinalizeProps ListingProps.
(* per-run instantiation of C15.  The theorems are about the repaired listing routines; the tie of this run says
   whether the tree under test implements them. *)

Theorem C15_before_finalize : forall ops b ef rl, listing_premises repaired ops b ef rl ->
  lines ef ++ pending ef = spec_lines 0 (accepted ops rl) /\\ RenderOK ef /\\ LInv ef /\\ DBC ef.
Proof. exact (fun ops b ef rl => C15_listing repaired ops b ef rl eq_refl eq_refl). Qed.

Theorem C15_after_finalize_every_order : forall ops b ef rl o8 o16 e' res, listing_premises repaired ops b ef rl ->
  covers o8 (d8 ef) -> covers o16 (d16 ef) -> Finalize o8 o16 ef = (e', res) ->
  lines e' ++ pending e' = spec_lines 0 (accepted ops rl) /\\ RenderOK e'.
Proof. exact (fun ops b ef rl o8 o16 e' res => C15_after_finalize repaired ops b ef rl o8 o16 e' res eq_refl eq_refl). Qed.

Theorem C15_records_tile : forall ops b ef rl, listing_premises repaired ops b ef rl ->
  code_tile (base ef) (filter (fun ln => is_code (lk ln)) (spec_lines 0 (accepted ops rl))) = Some (base ef + Len ef).
Proof. exact (fun ops b ef rl => C15_addresses repaired ops b ef rl eq_refl eq_refl). Qed.

(* what RenderOK says, unfolded *)
Theorem C15_render_ok_means : forall e, RenderOK e <->
  WriteHexTo e = (map (hex_expected e) (lines e), false) /\\
  WriteTextTo e = (map (text_expected e) (lines e), false) /\\
  concat (map (line_bytes e) (codelines e)) = Bytes e /\\
  code_tile (base e) (codelines e) = Some (base e + n e).
Proof. intros e. unfold RenderOK. tauto. Qed.

(* each variant theorem holds whenever the corresponding switch is on: nothing else of `repaired` is used *)
Theorem C15_any_repaired_variant : forall fx ops b ef rl,
  chunk_own fx = true -> label_flush fx = true -> listing_premises fx ops b ef rl ->
  lines ef ++ pending ef = spec_lines 0 (accepted ops rl) /\\ RenderOK ef /\\ LInv ef /\\ DBC ef.
Proof. exact C15_listing. Qed.

(* refutations of the same statements for the routines of the pinned tree (model: today = Emitter.run) *)
Theorem C15_refuted_chunks_panic :
  exists ef rl, listing_premises today w_data20 (zeros 20) ef rl /\\ snd (WriteHexTo ef) = true.
Proof. exact C15_refuted_chunks. Qed.
Theorem C15_refuted_chunks_repeated :
  exists ef rl, listing_premises today w_data20_nop (zeros 64) ef rl /\\
    snd (WriteHexTo ef) = false /\\
    concat (map rbytes (filter (fun r => is_code (rk r)) (fst (WriteHexTo ef)))) <> Bytes ef /\\
    zlen (concat (map rbytes (filter (fun r => is_code (rk r)) (fst (WriteHexTo ef))))) = 41 /\\ Len ef = 21.
Proof. exact C15_refuted_chunks_repeat. Qed.
Theorem C15_refuted_label_before_base :
  exists ef rl, listing_premises today w_label (zeros 8) ef rl /\\
    lines ef ++ pending ef <> spec_lines 0 (accepted w_label rl) /\\
    map lk (lines ef) = [KLabel; KBase; KIns1] /\\ map lk (spec_lines 0 (accepted w_label rl)) = [KBase; KLabel; KIns1].
Proof. exact C15_refuted_label_base. Qed.

Example C15_nonvacuous : listing_premises repaired ex_listing (zeros 80) ex_ef ex_rl.
Proof. exact ex_listing_premises. Qed.

Print Assumptions C15_before_finalize.
Print Assumptions C15_after_finalize_every_order.
Print Assumptions C15_records_tile.
Print Assumptions C15_render_ok_means.
Print Assumptions C15_any_repaired_variant.
Print Assumptions C15_refuted_chunks_panic.
Print Assumptions C15_refuted_chunks_repeated.
Print Assumptions C15_refuted_label_before_base.
Print Assumptions C15_nonvacuous.
"""

C15_THEOREMS = [
    "C15_before_finalize (records + latched base record = abstract listing of the accepted calls; RenderOK: both renderings total, each record its address and bytes, hex bytes concatenate to Bytes())",
    "C15_after_finalize_every_order (same after Finalize, every covering order, every outcome)",
    "C15_records_tile (every instruction / data record starts where the previous one ended, from base to base + Len)",
    "C15_render_ok_means / C15_any_repaired_variant",
    "C15_refuted_chunks_panic / C15_refuted_chunks_repeated / C15_refuted_label_before_base (witnesses by vm_compute on the model of the pinned tree)",
    "Example C15_nonvacuous",
]


def run_c15(ck):
    ck.trusted = list(TRUSTED)
    harness, herr = vlib.build_harness()
    if harness is None:
        ck.oblige("build Go harness against the tree under test", False, herr)
        return
    hygiene(ck)
    t = run_tie2(ck, harness)
    tie_obligation(ck, t, "both listings before and after Finalize parsed into (kind, address, bytes, label); EmitBytes lengths 0 1 15 16 17 32 33 40; Label / Comment right after SetBase")
    ok, detail, out = prop_file(ck, "C15_props.v", C15_V)
    for th in C15_THEOREMS:
        ck.oblige("Theorem " + th, ok, detail)
    v = t.get("variant")
    if v is not None:
        ck.oblige("the tree under test implements the listing routines the C15 theorems are about: every EmitBytes chunk record carries its own length (tie selects chunk_own = true)",
                  v["chunk_own"], "the tie selects chunk_own = false: the code matches the model refuted by C15_refuted_chunks_panic / C15_refuted_chunks_repeated (each 16-byte chunk record carries the whole block's byteCount)")
        ck.oblige("the tree under test implements the listing routines the C15 theorems are about: Label flushes the base line (tie selects label_flush = true)",
                  v["label_flush"], "the tie selects label_flush = false: the code matches the model refuted by C15_refuted_label_before_base (a Label right after SetBase is listed before the base line)")
    fails, stats = falsify(ck, harness, "c15")
    report_fails(ck, "c15", fails)
    after_obligations(ck, fails, t)
    cases = t.get("cases") or []
    nontriv = set()
    for c in cases:
        f = c.get("feat") or []
        if c["gen"] and not c["nil"] and ("bytes" in f or "label" in f or "comment" in f):
            nontriv.add(hashlib.sha1(json.dumps([c["cap"], [r["step"] for r in c["steps"]]], sort_keys=True).encode()).hexdigest())
    ck.cov.update({
        "evaluations": t["n"] + stats[1],
        "distinct_nontrivial": len(nontriv),
        "rule": "tie cases: corpus (the two historical witnesses first) + structured scripts (data lengths 0 1 15 16 17 32 33 40 alone / before / after an instruction / twice, "
                "Label and Comment right after SetBase, base last, refused data block) + random histories from one PRNG (VERIF_SEED); non-trivial = listing on, real target and at least one data block, label or comment; "
                "distinct by (cap, steps); falsifier evaluations (expected listing from the script vs both real listings and Bytes(), before and after Finalize) are counted in evaluations only",
        "checker_cmd": "coqc build/work/Run/C15_props.v; coqc build/work/Run/Cases_E2_<k>.v (Lemma tie); harness emit2check c15",
        "modelled": "asm/emitter.go: emitBase emit1..emit4 emit2Label emit3Label Comment Label EmitBytes WriteTextTo WriteHexTo Finalize (+ the rest of the emitter, see C06)",
        "exhaustive": False,
        "falsifier_histories": stats[0],
    })
    ck.sample({"theorem C15_before_finalize": "forall ops b ef rl, listing_premises repaired ops b ef rl -> lines ef ++ pending ef = spec_lines 0 (accepted ops rl) /\\ RenderOK ef /\\ LInv ef /\\ DBC ef"})
    ck.sample({"listing_premises fx ops b ef rl": "hist_ok ops /\\ Forall op_ok24 ops /\\ runX fx ops (new_em (Some b) true) = (ef, rl) /\\ data_fit ops rl = true /\\ in_one_bank (assemble (accepted ops rl))"})
    ck.sample({"RenderOK e": "WriteHexTo e = (map (hex_expected e) (lines e), false) /\\ WriteTextTo e = (map (text_expected e) (lines e), false) /\\ concat (map (line_bytes e) (codelines e)) = Bytes e /\\ code_tile (base e) (codelines e) = Some (base e + n e)"})
    for c in cases[:400]:
        if c["tag"].startswith(("c15:", "corpus:C15")) and len(ck.cov["samples"]) < 7:
            ck.sample({"tag": c["tag"], "cap": c["cap"], "steps": [r["step"] for r in c["steps"]][:8], "hex_before_finalize": c["final"]["hex1"]})


# ---------------------------------------------------------------------------------------------- replay
def replay(pid, rp):
    harness, herr = vlib.build_harness()
    if harness is None:
        print(herr)
        return 1
    r = rp.get("replay", {})
    if "script" not in r:
        print(rp.get("detail"))
        print("no concrete input recorded (kind %s)" % rp.get("kind"))
        return 1
    os.makedirs(vlib.BUILD, exist_ok=True)
    p = os.path.join(vlib.BUILD, "replay_%s.json" % pid)
    json.dump({"script": r["script"], "k": r.get("k", 0)}, open(p, "w"))
    which = r.get("which") or pid.lower()
    if which == "case":
        which = pid.lower()
    rc, out, _ = vlib.sh([harness, "emit2replay", which, p], timeout=120)
    print(out.strip()[:6000])
    # the same input inside Coq: which variant of the model agrees with the code on it
    rc2, out2, _ = vlib.sh([harness, "emitreplay", "case", p], timeout=120)
    try:
        case = json.loads(out2.strip().splitlines()[-1])
        os.makedirs(vlib.RUN, exist_ok=True)
        verdicts = []
        jobs = []
        combos = [(cb, own, fl) for cb in (False, True) for own in (False, True) for fl in (False, True)]
        for (cb, own, fl) in combos:
            q = os.path.join(vlib.RUN, "Replay_%s_%s%s%s.v" % (pid, bl(cb)[0], bl(own)[0], bl(fl)[0]))
            vlib.write_if_changed(q, shard_text2([case], cb, own, fl))
            jobs.append(lambda q=q: vlib.coqc(q, timeout=300))
        for (cb, own, fl), rr in zip(combos, vlib.parallel(jobs)):
            if rr[0] == 0:
                verdicts.append("append_copies_base=%s chunk_own=%s label_flush=%s" % (cb, own, fl))
        print("model (vm_compute inside Coq) agrees with the code on this input under: " + ("; ".join(verdicts) if verdicts else "no variant"))
    except Exception as ex:  # the Go verdict stands
        print("model-side replay unavailable: %s" % ex)
    return 1 if rc != 0 else 0
