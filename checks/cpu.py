"""C02 / C08 / C12: the two 65C816 interpreters.

Model: both interpreters (emulator/cpu65c816 + emulator/bus, emulator/cpualt) are REGENERATED from the Go source on
every run by /verif/gen (-only cpu) into Gen/GenCpu65.v and Gen/GenCpuAlt.v over Lib/Machine.v.
Tie: the regenerated models are extracted to OCaml (ExtrOcamlBasic only) and run in lockstep with the compiled Go
interpreters on structured + random cases (all exported fields, (cycles, stopped), ordered bus trace, callbacks,
panics compared textually).
Theorems: per-run files in build/work/Run (C02_eq.v, C08_safe.v, C12_cyc.v) over the regenerated models.
Falsifiers: harness cpucases prints FAIL C02 / C08 / C12 lines for concrete cases on the real code."""
import os
import re
import shutil
import vlib
from checks import cpueq, cpusafe, cpucb

EXTRACT_V = """Require Extraction.
Require Import ExtrOcamlBasic.
From Coq Require Import ZArith.
From Lib Require Import ZOps Machine.
From Gen Require Import GenFields {mod}.
Definition step_fn := {mod}.Step.
Definition reset_fn := {mod}.Reset.
Definition irq_fn := {mod}.TriggerIRQ.
Extraction "model.ml" step_fn reset_fn irq_fn Z.add Z.mul Z.div Z.modulo Z.opp.
"""

TRUST = [
    "Coq 8.16.1 kernel (vm_compute used for closed boolean facts); no native_compute",
    "translator /verif/gen (Go AST + go/types -> Gallina, 'z' back end) and the hand-written machine it targets, coq/Lib/Machine.v "
    "(flat 16 MiB memory behind every bus segment, Panic = Go index-out-of-range / explicit panic) and coq/Lib/ZOps.v (fixed-width "
    "arithmetic as Z with explicit mod 2^N): validated on every run by lockstep execution of the extracted models against the compiled interpreters",
    "extraction: Require Extraction + ExtrOcamlBasic only (bool, option, unit, list, prod, sumbool, sumor to native OCaml types; Z/N/positive stay "
    "extracted inductives; no Extract Constant), OCaml 4.13.1 compiler, /verif/ocaml/driver.ml",
    "Go harness /verif/harness/cputool.go (case generator, instrumented flat Memory, reflection over the CPU struct fields)",
]


def field_names():
    p = os.path.join(vlib.GEN, "GenFields.v")
    if not os.path.exists(p):      # the translator refused the source: the committed snapshot names the fields for the Go-side falsifiers
        p = os.path.join(vlib.COQ, "Snapshot", "GenFields.v")
    s = open(p).read()
    return re.findall(r'\(\d+%N, "([^"]+)"%string', s)


def prepare_models(ck):
    """regenerate + compile both models; returns True when both are available"""
    errs = vlib.run_gen("cpu")
    ok = True
    for unit in ("GenCpu", "GenCpu65", "GenCpuAlt", "gen"):
        if unit in errs:
            ck.oblige("translate %s from the Go source" % unit, False, errs[unit])
            ok = False
    if not ok:
        return False
    for n in ("GenFields", "GenCpu65", "GenCpuAlt"):
        rc, out, dt, _ = vlib.coqc(os.path.join(vlib.GEN, n + ".v"), timeout=600)
        ok = ck.oblige("coqc Gen/%s.v (regenerated interpreter model type-checks)" % n, rc == 0, out) and ok
    return ok


def build_driver(mod):
    """extract model `mod` and build the OCaml driver; cached on the generated file's hash. -> (path|None, log)"""
    d = os.path.join(vlib.WORK, "ml_" + mod)
    os.makedirs(d, exist_ok=True)
    key = vlib.sha(vlib.dep_hash(os.path.join(vlib.GEN, mod + ".v")), vlib.file_sha(os.path.join(vlib.ROOT, "ocaml", "driver.ml")), EXTRACT_V)
    stamp = os.path.join(d, "stamp")
    exe = os.path.join(d, "driver")
    if os.path.exists(exe) and os.path.exists(stamp) and open(stamp).read() == key:
        return exe, "cached"
    vlib.write_if_changed(os.path.join(d, "Extract.v"), EXTRACT_V.format(mod=mod))
    rc, out, _ = vlib.sh(["coqc"] + vlib.COQ_ARGS + ["Extract.v"], cwd=d, timeout=600, env=dict(os.environ))
    if rc != 0:
        return None, out
    shutil.copy(os.path.join(vlib.ROOT, "ocaml", "driver.ml"), os.path.join(d, "driver.ml"))
    rc, out, _ = vlib.sh(["ocamlfind", "ocamlopt", "-O3", "-w", "-a", "model.mli", "model.ml", "driver.ml", "-o", "driver"], cwd=d, timeout=600, env=dict(os.environ))
    if rc != 0:
        return None, out
    open(stamp, "w").write(key)
    return exe, "built"


def first_diff(pa, pb):
    with open(pa) as fa, open(pb) as fb:
        n = 0
        while True:
            la, lb = fa.readline(), fb.readline()
            n += 1
            if la != lb:
                return n, la.strip(), lb.strip()
            if not la:
                return None


def run_shard(harness, drivers, names, seed, variants, multi, idx):
    d = os.path.join(vlib.WORK, "cpucases_%d" % idx)
    shutil.rmtree(d, ignore_errors=True)
    os.makedirs(d)
    rc, out, _ = vlib.sh([harness, "cpucases", "-seed", str(seed), "-variants", str(variants), "-multi", str(multi),
                          "-fields", ",".join(names), "-out", d], timeout=1200)
    r = {"seed": seed, "rc": rc, "out": out, "stats": {}, "fails": [], "mismatch": {}}
    for line in out.splitlines():
        m = re.match(r"STAT (\S+) (\d+)", line)
        if m:
            r["stats"][m.group(1)] = int(m.group(2))
    blocks = re.split(r"\n(?=FAIL )", "\n" + out)
    for b in blocks:
        m = re.match(r"FAIL (C\d\d) case=(\d+) step=(\d+)(.*)", b.strip(), re.S)
        if m:
            r["fails"].append({"prop": m.group(1), "case": int(m.group(2)), "step": int(m.group(3)), "text": b.strip()[:1500]})
    for mod, gofile in (("GenCpu65", "go65.txt"), ("GenCpuAlt", "goalt.txt")):
        exe = drivers.get(mod)
        if not exe:
            continue
        mlout = os.path.join(d, "ml_%s.txt" % mod)
        with open(mlout, "w") as f:
            import subprocess
            try:
                p = subprocess.run([exe, os.path.join(d, "cases.txt")], stdout=f, stderr=subprocess.PIPE, timeout=1200)
                if p.returncode != 0:
                    r["mismatch"][mod] = "driver failed: " + p.stderr.decode("utf-8", "replace")[-500:]
                    continue
            except subprocess.TimeoutExpired:
                r["mismatch"][mod] = "driver timeout"
                continue
        fd = first_diff(mlout, os.path.join(d, gofile))
        if fd:
            # recover the case line for the replay
            cid = (fd[1] or fd[2]).split(" ")[0]
            case_line = ""
            with open(os.path.join(d, "cases.txt")) as f:
                for l in f:
                    if l.startswith("C %s " % cid):
                        case_line = l.strip()
                        break
            r["mismatch"][mod] = {"line": fd[0], "model": fd[1][:1200], "impl": fd[2][:1200], "case": case_line[:3000]}
    # sample lines for the evidence
    try:
        with open(os.path.join(d, "cases.txt")) as f:
            r["sample_case"] = f.readline().strip()[:600]
        with open(os.path.join(d, "go65.txt")) as f:
            r["sample_obs"] = f.readline().strip()[:600]
    except OSError:
        pass
    shutil.rmtree(d, ignore_errors=True)
    return r


def correspondence(ck, pid, have_models=True):
    """tie + falsifiers. Returns dict(results, ok)"""
    harness, herr = vlib.build_harness()
    if harness is None:
        ck.oblige("build Go harness against the tree under test", False, herr)
        return None
    drivers = {}
    for mod in (("GenCpu65", "GenCpuAlt") if have_models else ()):
        exe, log = build_driver(mod)
        ck.oblige("extract %s to OCaml and build the lockstep driver" % mod, exe is not None, log)
        if exe:
            drivers[mod] = exe
    names = field_names()
    nshard = 16
    if ck.tier == "thorough":
        variants, multi = 600, 6000
    else:
        variants, multi = 40, 300
    seeds = [ck.seed * 1000 + i for i in range(nshard)]
    results = vlib.parallel([(lambda i=i, s=s: run_shard(harness, drivers, names, s, variants, multi, i)) for i, s in enumerate(seeds)])
    return {"results": results, "drivers": drivers, "names": names, "variants": variants, "multi": multi}


def report_tie(ck, pid, corr):
    """obligations for the model/implementation tie; returns (ok, stats)"""
    stats = {}
    ok_all = True
    for mod, label in (("GenCpu65", "cpu65c816 + bus"), ("GenCpuAlt", "cpualt")):
        bad = [r for r in corr["results"] if mod in r["mismatch"]]
        ok = (mod in corr["drivers"]) and not bad and all(r["rc"] == 0 for r in corr["results"])
        detail = ""
        if bad:
            detail = str(bad[0]["mismatch"][mod])[:1400]
        ok_all = ck.oblige("tie: extracted %s = compiled %s on every generated case (fields, cycles, stop flag, ordered bus trace, callbacks, panics)" % (mod, label), ok, detail) and ok_all
    for r in corr["results"]:
        for k, v in r["stats"].items():
            stats[k] = stats.get(k, 0) + v
    return ok_all, stats


def common(ck, pid):
    ck.trusted = list(TRUST)
    os.makedirs(vlib.RUN, exist_ok=True)
    models = prepare_models(ck)
    # without models (the translator refused the source) the Go-side falsifiers of the case generator still run: a
    # refusal must not silence them
    corr = correspondence(ck, pid, have_models=bool(models))
    tie_ok, stats = (False, {})
    if corr:
        tie_ok, stats = report_tie(ck, pid, corr)
        fails = [f for r in corr["results"] for f in r["fails"] if f["prop"] == pid]
        seen = set()
        for r in corr["results"]:
            for f in r["fails"]:
                if f["prop"] != pid:
                    continue
                m = re.search(r"opcode=([0-9a-f]+)", f["text"])
                key = "%s.opcode_%s" % (pid, m.group(1) if m else "x")
                if key in seen:
                    continue
                seen.add(key)
                ck.violation(key, "counterexample", f["text"],
                             {"seed": r["seed"], "case": f["case"], "step": f["step"], "variants": corr["variants"], "multi": corr["multi"],
                              "how": "harness cpucases -seed %d -variants %d -multi %d ... ; FAIL line for case %d" % (r["seed"], corr["variants"], corr["multi"], f["case"])})
        # a broken tie with no property-level counterexample: report the first differing case
        if not tie_ok and not fails:
            for r in corr["results"]:
                for mod, mm in r["mismatch"].items():
                    ck.violation("%s.tie.%s" % (pid, mod), "broken-correspondence",
                                 "regenerated model %s and the compiled interpreter disagree (first differing line shown)" % mod,
                                 {"seed": r["seed"], "mismatch": mm})
                    break
                else:
                    continue
                break
        ck.cov.update({
            "evaluations": stats.get("steps", 0) * 2,
            "traces_validated_against_impl": stats.get("steps", 0) * 2 if tie_ok else 0,
            "distribution": stats,
            "modelled": "emulator/cpu65c816/cpu.go, emulator/cpu65c816/cpu_tables.go, emulator/bus/bus.go (EaRead/EaWrite/EaRead24_wrap), "
                        "emulator/cpualt/cpu.go, cpu_tables.go, bus.go: every function reachable from Step/Reset/TriggerIRQ/triggerNMI, regenerated "
                        "from source on this run; NOT modelled: disassembler, Bus.Attach/EaDump, memory backends other than a flat RAM",
        })
        for r in corr["results"][:2]:
            ck.sample({"case": r.get("sample_case"), "observed": r.get("sample_obs")})
    return models, corr, tie_ok, stats


def run_c02(ck):
    models, corr, tie_ok, stats = common(ck, "C02")
    ck.trusted.append("axiom: Coq.Logic.FunctionalExtensionality.functional_extensionality_dep (standard library), used to state the equality of "
                      "the bus-helper routines as equality of functions")
    if models:
        from checks import cpulink
        lk = cpulink.step_equality()
        rc, out, dt, info = (0 if lk["ok"] else 1), lk["out"], lk["secs"], lk["info"]
        failing = "" if lk["ok"] else cpulink.first_failing(out)
        if lk["route"] == "pivot":
            how = ("through the committed snapshots: %d per-function equalities Gen.f = Snapshot.f over the two regenerated models "
                   "(closed by conversion) + the static routine-by-routine equality of the snapshots Props/C02Snap.v; %.0fs" % (lk["lemmas"], dt))
        else:
            why = "; ".join("%s: %s" % (m, cpulink.first_failing(r[1]) if r[1] else "differs") for m, r in lk["snap"].items() if not r[0])
            how = ("%d routine-by-routine equality lemmas over the regenerated models, %d with identical text (direct route: %s no longer "
                   "equal to its snapshot); %.0fs" % (lk["lemmas"], info["syntactically_identical"], why or "snapshot", dt))
        ck.cov["equality_route"] = lk["route"]
        ck.oblige("Theorem C02_step_eq : GenCpu65.Step = GenCpuAlt.Step  (%s)" % how, rc == 0,
                  "first lemma that no longer checks: " + failing)
        ck.oblige("Theorem C02_run_eq : forall n s, run GenCpu65.Step n s = run GenCpuAlt.Step n s  (every number of steps, every state incl. E=1, D=1, pending interrupts; results, final registers, memory, trace, panic status)", rc == 0, failing)
        ck.oblige("Theorems C02_reset_eq / C02_irq_eq / C02_nmi_eq (Reset, TriggerIRQ, triggerNMI agree)", rc == 0, failing)
        if rc == 0:
            ck.assumptions += vlib.parse_assumptions(out)
            allowed = {"functional_extensionality_dep"}
            bad = [a for a in vlib.foreign_assumptions(ck.assumptions) if a.split(".")[-1] not in allowed]
            ck.oblige("Print Assumptions: only functional_extensionality_dep (standard library)", not bad, "unexpected: %s" % bad)
        elif not ck.violations:
            ck.violation("C02.theorem." + (failing.split()[0] if failing else "x"), "broken-theorem",
                         "equality lemma %s of the two regenerated interpreter models no longer checks; the lockstep falsifier found no diverging case" % failing,
                         {"lemma": failing, "file": "build/work/Run/%s.v" % lk["module"]})
        if info is None:
            info = {"lemmas": list(range(lk["lemmas"])), "unpaired65": [], "unpairedalt": []}
        ck.cov["lemmas"] = len(info["lemmas"])
        ck.cov["routines_only_in_one_package"] = {"cpu65c816": info["unpaired65"], "cpualt": info["unpairedalt"]}
        ck.sample({"theorem": "C02_step_eq : GenCpu65.Step = GenCpuAlt.Step", "theorem2": "C02_run_eq : forall n s, run GenCpu65.Step n s = run GenCpuAlt.Step n s"})
    ck.cov.update({
        "distinct_nontrivial": stats.get("cases", 0),
        "rule": "cases from one PRNG per shard (VERIF_SEED*1000+shard): per opcode x variants single-step cases with flags/widths/E/D, stale register copies, "
                "boundary-directed operands and pointers (bank ends, $FFFFFF, page ends, direct-page and stack wrap), pending interrupts, callbacks; plus multi-step "
                "random programs; every case runs on both compiled interpreters and both extracted models; distinct = number of generated cases (each has its own PRNG draw)",
        "checker_cmd": "coqc build/work/Run/C02_eq.v ; build/work/ml_GenCpu65/driver, build/work/ml_GenCpuAlt/driver vs harness cpucases",
    })


def run_c08(ck):
    models, corr, tie_ok, stats = common(ck, "C08")
    if models:
        def one(mod):
            txt, info = cpusafe.generate(os.path.join(vlib.GEN, mod + ".v"), mod)
            pv = os.path.join(vlib.RUN, "C08_%s.v" % mod)
            vlib.write_if_changed(pv, txt)
            rc, out, dt, cached = vlib.coqc(pv, timeout=1800)
            return mod, info, rc, out, dt, cached
        for (mod, info, rc, out, dt, cached) in vlib.parallel([lambda m=m: one(m) for m in ("GenCpu65", "GenCpuAlt")]):
            failing = ""
            m = re.search(r"\(in proof (\w+)\)", out)
            if m:
                failing = m.group(1)
            elif rc != 0:
                failing = out[-700:]
            label = "cpu65c816+bus" if mod == "GenCpu65" else "cpualt"
            ck.oblige("Theorem C08_step_%s : forall s, Inv (Bty fwidth) s -> safe (fun _ s' => Inv (Bty fwidth) s') (Step s)  [%s: from ANY state with fields in their Go "
                      "types - every E, D, width, pending interrupt, stale copies - one Step does not panic, keeps every field in range and issues only bus accesses < 2^24; "
                      "%d routine lemmas over the regenerated model, %.0fs%s]" % (mod, label, len(info["lemmas"]), dt, ", cached" if cached else ""), rc == 0,
                      "first lemma that no longer checks: " + failing)
            ck.oblige("Theorem C08_run_%s / C08_trace_%s : forall n s, ... run Step n s does not panic and Forall ev_ok (trace s')  (every program, induction on n)" % (mod, mod), rc == 0, failing)
            if rc == 0:
                ck.assumptions += vlib.parse_assumptions(out)
            elif not ck.violations:
                ck.violation("C08.theorem.%s.%s" % (mod, failing.split()[0] if failing else "x"), "broken-theorem",
                             "range/no-panic lemma %s over the regenerated model %s no longer checks; the Go falsifier (boundary-directed cases with recover()) found no crashing input" % (failing, mod),
                             {"lemma": failing, "file": "build/work/Run/C08_%s.v" % mod})
            ck.cov["lemmas_" + mod] = len(info["lemmas"])
        bad = vlib.foreign_assumptions(ck.assumptions)
        ck.oblige("Print Assumptions: closed under the global context", not bad, "unexpected: %s" % bad)
        ck.sample({"theorem": "C08_step_GenCpu65 : forall s, Inv (Bty fwidth) s -> safe (fun _ s' => Inv (Bty fwidth) s') (Step s)",
                   "where": "Inv B s := (forall f, B f (get f s)) /\\ Forall ev_ok (trace s); ev_ok (EvR a _ | EvW a _) := 0 <= a < 2^24; safe Q Panic := False"})
    ck.cov.update({
        "distinct_nontrivial": stats.get("cases", 0),
        "rule": "theorem: all states (unbounded). Tie/falsifier cases: one PRNG per shard; per opcode x variants single-step cases incl. DBR=$FF, long operands near $FFFFFF, every index "
                "class, E=1, D=1, stale copies, pending interrupts; multi-step programs; each case runs on both compiled interpreters with recover() and on both extracted models",
        "checker_cmd": "coqc build/work/Run/C08_GenCpu65.v build/work/Run/C08_GenCpuAlt.v (engine coq/Props/SafeLib.v)",
    })


RUN_V = """(* GENERATED per run: RunUntil over the regenerated interpreters (C12 iii) *)
From Coq Require Import ZArith List NArith.
From Lib Require Import ZOps Machine.
From Gen Require Import GenFields.
From Gen Require GenCpu65 GenCpuAlt.
From Model Require Import Disasm.
From Coq Require Import Bool.
From Props Require Import SafeLib RunProps StopProps.
Import ListNotations.
From Run Require C12_GenCpu65 C12_GenCpuAlt.
Local Open Scope Z_scope.
Definition flds : fields := mkfields f_RK f_PC f_M f_X f_RA f_RAl f_RX f_RXl f_RY f_RYl f_N f_V f_D f_I f_Z f_C.

(* System.RunUntil over cpu65c816 (the interpreter the System embeds): for every start state with fields in their Go
   types, every target and every budget below 2^64 - 255, and ANY fuel above the budget: it returns (never OutOfFuel,
   never Crash), says true exactly when PBR:PC equals the target on exit, executes nothing when already there, and
   gives up only when the budget is used up *)
Theorem C12_run_until_65 : forall fuel target maxc s acc,
  Inv (Bty fwidth) s -> 0 <= maxc -> maxc + 255 < 2 ^ 64 -> (Z.to_nat maxc < fuel)%nat ->
  exists b c s',
    run_until flds GenCpu65.Step None fuel target maxc 0 s acc = Done b c s' acc /\\
    (b = true <-> get_pc flds s' = target) /\\ (get_pc flds s = target -> s' = s) /\\
    (b = false -> maxc <= c) /\\ c < maxc + 255 /\\ Inv (Bty fwidth) s'.
Proof. exact (C12_run_until flds GenCpu65.Step (Inv (Bty fwidth)) C12_GenCpu65.step_contract_GenCpu65). Qed.

Theorem C12_run_until_alt : forall fuel target maxc s acc,
  Inv (Bty fwidth) s -> 0 <= maxc -> maxc + 255 < 2 ^ 64 -> (Z.to_nat maxc < fuel)%nat ->
  exists b c s',
    run_until flds GenCpuAlt.Step None fuel target maxc 0 s acc = Done b c s' acc /\\
    (b = true <-> get_pc flds s' = target) /\\ (get_pc flds s = target -> s' = s) /\\
    (b = false -> maxc <= c) /\\ c < maxc + 255 /\\ Inv (Bty fwidth) s'.
Proof. exact (C12_run_until flds GenCpuAlt.Step (Inv (Bty fwidth)) C12_GenCpuAlt.step_contract_GenCpuAlt). Qed.

(* every executed Step started under the budget and away from the target *)
Theorem C12_run_steps_65 : forall fuel target maxc s,
  Inv (Bty fwidth) s -> 0 <= maxc -> maxc + 255 < 2 ^ 64 -> (Z.to_nat maxc < fuel)%nat ->
  exists l r, run_tr flds GenCpu65.Step fuel target maxc 0 s = Some (l, r) /\\
              Forall (step_pre flds (Inv (Bty fwidth)) target maxc) l.
Proof.
  intros fuel target maxc s H Hm0 Hm Hf.
  destruct (run_tr_total flds GenCpu65.Step (Inv (Bty fwidth)) C12_GenCpu65.step_contract_GenCpu65 fuel target maxc 0 s H
              ltac:(apply Z.le_refl) Hm ltac:(apply Z.lt_le_trans with (m := 1); [reflexivity|]; apply Z.le_trans with (m := 0 + 255); [discriminate | apply Z.add_le_mono_r; exact Hm0])
              ltac:(rewrite Z.sub_0_r; exact Hf)) as (l & b & c & s' & Hr & Hl & _).
  exists l, (b, c, s'). split; assumption.
Qed.
Print Assumptions C12_run_until_65.
Print Assumptions C12_run_until_alt.
Print Assumptions C12_run_steps_65.

(* ---- C12 (ii) over HISTORIES of calls (Step / Reset / TriggerIRQ / triggerNMI), static Props/StopProps.v instantiated
   with this run's one-call theorems: every history runs without a panic, a Step reports the stop condition exactly
   when the Stopped field is set after it, the condition lasts from the Step that raised it until the next Reset, Reset
   clears it, and TriggerIRQ / triggerNMI never raise it *)
Definition ostep (f : st -> res (Z * bool)) (s : st) : option (bool * st) :=
  match f s with Ok (_, b) s' => Some (b, s') | Panic => None end.
Definition ocall (f : st -> res unit) (s : st) : option st :=
  match f s with Ok _ s' => Some s' | Panic => None end.
Definition stoppedb (s : st) : bool := z2b (get f_Stopped s).

Section Contracts.
  Variables (Step : st -> res (Z * bool)) (Reset TriggerIRQ triggerNMI : st -> res unit).
  Hypothesis Hstep : forall s, Inv (Bty fwidth) s ->
    safe (fun r s' => (exists c, r = (c, z2b (get f_Stopped s')) /\\ 1 <= c <= 255 /\\
                       get f_AllCycles s' = add64 (get f_AllCycles s) c /\\
                       (get f_Stopped s' = get f_Stopped s \\/ get f_Stopped s' = 1)) /\\ Inv (Bty fwidth) s') (Step s).
  Hypothesis Hreset : forall s, Inv (Bty fwidth) s -> safe (fun _ s' => get f_Stopped s' = 0 /\\ Inv (Bty fwidth) s') (Reset s).
  Hypothesis Hirq : forall s, Inv (Bty fwidth) s -> safe (fun _ s' => get f_Stopped s' = get f_Stopped s /\\ Inv (Bty fwidth) s') (TriggerIRQ s).
  Hypothesis Hnmi : forall s, Inv (Bty fwidth) s -> safe (fun _ s' => get f_Stopped s' = get f_Stopped s /\\ Inv (Bty fwidth) s') (triggerNMI s).

  Lemma c_step : forall s, Inv (Bty fwidth) s ->
    exists b s', ostep Step s = Some (b, s') /\\ Inv (Bty fwidth) s' /\\ b = stoppedb s' /\\ (stoppedb s' = stoppedb s \\/ stoppedb s' = true).
  Proof.
    intros s H. pose proof (Hstep s H) as HS. unfold ostep. destruct (Step s) as [[n b] s'|]; simpl in HS; [|contradiction].
    destruct HS as [(c & Hr & _ & _ & Hs) Hi]. inversion Hr; subst. exists (z2b (get f_Stopped s')), s'.
    split; [reflexivity|]. split; [exact Hi|]. split; [reflexivity|]. unfold stoppedb.
    destruct Hs as [Hs|Hs]; rewrite Hs; [left | right]; reflexivity.
  Qed.
  Lemma c_reset : forall s, Inv (Bty fwidth) s -> exists s', ocall Reset s = Some s' /\\ Inv (Bty fwidth) s' /\\ stoppedb s' = false.
  Proof.
    intros s H. pose proof (Hreset s H) as HS. unfold ocall. destruct (Reset s) as [u s'|]; simpl in HS; [|contradiction].
    destruct HS as [Hs Hi]. exists s'. split; [reflexivity|]. split; [exact Hi|]. unfold stoppedb. rewrite Hs. reflexivity.
  Qed.
  Lemma c_keep (f : st -> res unit) : (forall s, Inv (Bty fwidth) s -> safe (fun _ s' => get f_Stopped s' = get f_Stopped s /\\ Inv (Bty fwidth) s') (f s)) ->
    forall s, Inv (Bty fwidth) s -> exists s', ocall f s = Some s' /\\ Inv (Bty fwidth) s' /\\ stoppedb s' = stoppedb s.
  Proof.
    intros Hf s H. pose proof (Hf s H) as HS. unfold ocall. destruct (f s) as [u s'|]; simpl in HS; [|contradiction].
    destruct HS as [Hs Hi]. exists s'. split; [reflexivity|]. split; [exact Hi|]. unfold stoppedb. rewrite Hs. reflexivity.
  Qed.

  Theorem stop_history : forall h s, Inv (Bty fwidth) s ->
    exists os sf, hrun st (ostep Step) (ocall Reset) (ocall TriggerIRQ) (ocall triggerNMI) h s = Some (os, sf) /\\ Inv (Bty fwidth) sf /\\
                  stoppedb sf = latch (stoppedb s) os /\\ ok_from (stoppedb s) os.
  Proof. exact (stop_latched st _ _ _ _ stoppedb (Inv (Bty fwidth)) c_step c_reset (c_keep _ Hirq) (c_keep _ Hnmi)). Qed.

  Theorem stop_until_reset_inst : forall h1 h2 s o1 s1 b s2, Inv (Bty fwidth) s ->
    hrun st (ostep Step) (ocall Reset) (ocall TriggerIRQ) (ocall triggerNMI) h1 s = Some (o1, s1) -> ostep Step s1 = Some (b, s2) -> b = true -> no_reset h2 ->
    exists o2 s3 b' s4, hrun st (ostep Step) (ocall Reset) (ocall TriggerIRQ) (ocall triggerNMI) h2 s2 = Some (o2, s3) /\\ ostep Step s3 = Some (b', s4) /\\ b' = true /\\
                        Forall (fun o => match o with OStep b => b = true | _ => True end) o2.
  Proof. exact (stop_until_reset st _ _ _ _ stoppedb (Inv (Bty fwidth)) c_step c_reset (c_keep _ Hirq) (c_keep _ Hnmi)). Qed.
End Contracts.

Theorem C12_stop_history_65 : forall h s, Inv (Bty fwidth) s ->
  exists os sf, hrun st (ostep GenCpu65.Step) (ocall GenCpu65.Reset) (ocall GenCpu65.TriggerIRQ) (ocall GenCpu65.triggerNMI) h s = Some (os, sf) /\\ Inv (Bty fwidth) sf /\\
                stoppedb sf = latch (stoppedb s) os /\\ ok_from (stoppedb s) os.
Proof. exact (stop_history _ _ _ _ C12_GenCpu65.C12_step_GenCpu65 C12_GenCpu65.C12_reset_GenCpu65 C12_GenCpu65.C12_irq_GenCpu65 C12_GenCpu65.C12_nmi_GenCpu65). Qed.
Theorem C12_stop_history_alt : forall h s, Inv (Bty fwidth) s ->
  exists os sf, hrun st (ostep GenCpuAlt.Step) (ocall GenCpuAlt.Reset) (ocall GenCpuAlt.TriggerIRQ) (ocall GenCpuAlt.triggerNMI) h s = Some (os, sf) /\\ Inv (Bty fwidth) sf /\\
                stoppedb sf = latch (stoppedb s) os /\\ ok_from (stoppedb s) os.
Proof. exact (stop_history _ _ _ _ C12_GenCpuAlt.C12_step_GenCpuAlt C12_GenCpuAlt.C12_reset_GenCpuAlt C12_GenCpuAlt.C12_irq_GenCpuAlt C12_GenCpuAlt.C12_nmi_GenCpuAlt). Qed.
Definition C12_stop_until_reset_65 := stop_until_reset_inst _ _ _ _ C12_GenCpu65.C12_step_GenCpu65 C12_GenCpu65.C12_reset_GenCpu65 C12_GenCpu65.C12_irq_GenCpu65 C12_GenCpu65.C12_nmi_GenCpu65.
Definition C12_stop_until_reset_alt := stop_until_reset_inst _ _ _ _ C12_GenCpuAlt.C12_step_GenCpuAlt C12_GenCpuAlt.C12_reset_GenCpuAlt C12_GenCpuAlt.C12_irq_GenCpuAlt C12_GenCpuAlt.C12_nmi_GenCpuAlt.
Print Assumptions C12_stop_history_65.
Print Assumptions C12_stop_history_alt.
Print Assumptions C12_stop_until_reset_65.
"""

TIE_V = """From Coq Require Import ZArith List Bool.
From Props Require Import RunTie.
Import ListNotations.
Local Open Scope Z_scope.
Definition cases : list (Z * Z * bool * Z * list (Z * Z)) := [
%s
].
Definition bad := Eval vm_compute in bad_cases cases.
Print bad.
Lemma tie : bad = []. Proof. reflexivity. Qed.
"""


def run_c12(ck):
    models, corr, tie_ok, stats = common(ck, "C12")
    harness, _ = vlib.build_harness()
    cb_ok, cb_broken = True, []
    ck.trusted.append("Go harness /verif/harness/cbtool.go (falsifier: the callbacks clause stated on both compiled interpreters; not part of the proof) and "
                      "the three callback primitives of coq/Lib/Machine.v (cb_pc, cb_absent_OnWDM, cb_call_OnWDM: events EvPC / EvWDM), validated by the lockstep tie")
    if models:
        def one(mod):
            # C08 (ranges) in parallel with the quiet-routine and Step lemmas of the callbacks clause; then C12 (cycles) in
            # parallel with the callbacks theorems (which need C08 for the ranges of PPC / PRK)
            def c08():
                txt8, _ = cpusafe.generate(os.path.join(vlib.GEN, mod + ".v"), mod)
                p8 = os.path.join(vlib.RUN, "C08_%s.v" % mod)
                vlib.write_if_changed(p8, txt8)
                return vlib.coqc(p8, timeout=1800)

            def cbq():
                files, cbinfo = cpucb.generate(os.path.join(vlib.GEN, mod + ".v"), mod)
                for n, txt in files.items():
                    vlib.write_if_changed(os.path.join(vlib.RUN, n + ".v"), txt)
                dt = 0.0
                for n in ("C12_cbq_" + mod, "C12_cbs_" + mod):
                    rc, out, d, _ = vlib.coqc(os.path.join(vlib.RUN, n + ".v"), timeout=1800)
                    dt += d
                    if rc != 0:
                        return cbinfo, rc, out, dt, n
                return cbinfo, 0, "", dt, ""
            (rc8, out8, dt8, _), (cbinfo, rcq, outq, dtq, nq) = vlib.parallel([c08, cbq])
            txt, info = cpusafe.generate_c12(os.path.join(vlib.GEN, mod + ".v"), mod)
            pv = os.path.join(vlib.RUN, "C12_%s.v" % mod)
            vlib.write_if_changed(pv, txt)
            if rc8 != 0:
                # the callbacks / stop lemmas of C12_cbq / C12_cbs do not need C08: report their own failure if they have one
                cb_res[mod] = (cbinfo, rcq, outq, dtq, nq) if rcq != 0 else (cbinfo, rc8, out8, dtq, "C08_" + mod)
                return mod, info, rc8, out8, dt8, False

            def cbt():
                if rcq != 0:
                    return cbinfo, rcq, outq, dtq, nq
                rc, out, d, _ = vlib.coqc(os.path.join(vlib.RUN, "C12_cb_%s.v" % mod), timeout=900)
                return cbinfo, rc, out, dtq + d, "C12_cb_" + mod
            (rc, out, dt, cached), cb_res[mod] = vlib.parallel([lambda: vlib.coqc(pv, timeout=1800), cbt])
            return mod, info, rc, out, dt8 + dt, cached
        cb_res = {}
        all_ok = True
        for (mod, info, rc, out, dt, cached) in vlib.parallel([lambda m=m: one(m) for m in ("GenCpu65", "GenCpuAlt")]):
            m = re.search(r"\(in proof (\w+)\)", out)
            failing = m.group(1) if m else (out[-700:] if rc != 0 else "")
            all_ok = all_ok and rc == 0
            ck.oblige("Theorem C12_step_%s : forall s, Inv (Bty fwidth) s -> Step s reports 1 <= cycles <= 255, AllCycles' = add64 AllCycles cycles, flag = (Stopped' <> 0), "
                      "Stopped' = Stopped or 1  [every opcode x M x X x E x D.l x page crossing x branch outcome; interval lemmas for the %d routines that adjust the counter, "
                      "per-opcode table fact cyc_room_all by vm_compute; STP opcode(s) %s; %.0fs%s]" % (mod, len(info.get("setters", [])), info.get("stp_opcodes"), dt, ", cached" if cached else ""),
                      rc == 0, "first lemma that no longer checks: " + failing)
            if rc == 0:
                ck.assumptions += vlib.parse_assumptions(out)
            elif not ck.violations:
                ck.violation("C12.theorem.%s.%s" % (mod, failing.split()[0] if failing else "x"), "broken-theorem",
                             "cycle-accounting lemma %s over the regenerated model %s no longer checks; the Go falsifiers (cycles >= 1 on every case, RunUntil contract) found no failing input" % (failing, mod),
                             {"lemma": failing, "file": "build/work/Run/C12_%s.v" % mod})
        for mod in ("GenCpu65", "GenCpuAlt"):
            cbinfo, rc, out, dt, fname = cb_res.get(mod, ({}, 1, "not run", 0.0, ""))
            failing = ""
            if rc != 0:
                failing = cpucb.failing_lemma(os.path.join(vlib.RUN, fname + ".v"), out) or "x"
                failing += " " + " ".join(out[-500:].split())
            cb_ok = cb_ok and rc == 0
            ck.oblige("Theorem C12_callbacks_%s : forall s, Inv (Bty fwidth) s -> forall r s', Step s = Ok r s' -> callbacks_clause f_PPC f_PRK f_WDM s s'  "
                      "[registrations unchanged; with a = PRK'*65536+PPC': cbs (trace s') = wdm ++ pc ++ cbs (trace s), pc = [EvPC a] iff onpc s a, wdm = [EvWDM v] iff onwdm s and opcode = $42; "
                      "trace s' = tC ++ pc ++ tA ++ trace s with cbs tA = [] (interrupt entry), tC = tC' ++ [EvR a opcode] (the fetch follows the callback), cbs tC = wdm; "
                      "opcode = $42 -> tC = wdm ++ [EvR a1 v; EvR a $42] and WDM' = v, a1 = PRK'*65536+(PPC'+1) mod 65536; %d routine lemmas (every routine reachable from Step but Step / op_wdm is quiet: "
                      "no callback, PPC / PRK never assigned, Stopped assigned only by the routine of $DB), "
                      "WDM opcode(s) %s; %.0fs]" % (mod, len(cbinfo.get("lemmas", [])), cbinfo.get("wdm_opcodes"), dt), rc == 0,
                      "file %s, first lemma that no longer checks: %s" % (fname, failing))
            ck.oblige("Theorem C12_callbacks_run_%s : along n steps from a state with fields in their Go types, for every address a the number of EvPC a events grows by the number of steps "
                      "fetched at a if OnPC is registered at a, by 0 otherwise (static Props/CbLib.run_count instantiated); non-vacuity ex_step: pending IRQ, OnPC at the vector target only" % mod, rc == 0, failing)
            if rc == 0:
                ck.assumptions += vlib.parse_assumptions(out)
            else:
                cb_broken.append((mod, fname, failing))
        if all_ok:
            pv = os.path.join(vlib.RUN, "C12_run.v")
            vlib.write_if_changed(pv, RUN_V)
            ps = os.path.join(vlib.RUN, "C12_stop.v")
            vlib.write_if_changed(ps, cpucb.STOP_V)
            # C12_stop.v ("never before", tied to the fetched opcode) needs the cycles files and the callbacks files, not C12_run.v
            (rc, out, dt, cached), stop_res = vlib.parallel([lambda: vlib.coqc(pv, timeout=900), lambda: (vlib.coqc(ps, timeout=900) if cb_ok else None)])
            ck.oblige("Theorems C12_run_until_65 / C12_run_until_alt / C12_run_steps_65 : RunUntil returns for every start state, target, budget < 2^64-255 and any fuel > budget; "
                      "truthful answer; nothing executed at the target; every executed Step started under the budget (static Props/RunProps.v instantiated with this run's Step contract); "
                      "C12_stop_history_65 / _alt, C12_stop_until_reset_65 / _alt : over EVERY history of Step / Reset / TriggerIRQ / triggerNMI calls from a state with fields in their Go types "
                      "(static Props/StopProps.v instantiated with C12_step, C12_reset, C12_irq, C12_nmi of this run): no panic, each Step reports the stop condition iff the Stopped field is set after it, "
                      "the condition lasts from the Step that raised it until the next Reset, Reset clears it, TriggerIRQ / triggerNMI never change it", rc == 0, out[-800:])
            if rc == 0:
                ck.assumptions += vlib.parse_assumptions(out)
            if stop_res is not None:
                rcs, outs, dts, _ = stop_res
                fails = "" if rcs == 0 else (cpucb.failing_lemma(ps, outs) or "x") + " " + " ".join(outs[-500:].split())
                stop_file = "C12_stop"
            else:
                rcs, dts, stop_file = 1, 0.0, (cb_broken[0][1] if cb_broken else "C12_cb")
                fails = (cb_broken[0][2] if cb_broken else "the callbacks files do not compile")
            for mod in ("GenCpu65", "GenCpuAlt"):
                ck.oblige("Theorem C12_stop_only_stp_%s : forall s, Inv (Bty fwidth) s -> forall r s', Step s = Ok r s' -> with a = PRK'*65536+PPC', pc = [EvPC a] iff onpc s a: "
                          "exists tA tC opcode, trace s' = tC ++ pc ++ tA ++ trace s /\\ cbs tA = [] /\\ (exists tC', tC = tC' ++ [EvR a opcode]) /\\ (Stopped' <> Stopped -> opcode = 219 /\\ Stopped' = 1)  "
                          "[the opcode is the byte of the fetch event of the callbacks clause (same witness: C12_step_clause_%s); every routine reachable from Step except the one dispatched from $DB (%s) "
                          "is proved to leave Stopped alone, nmi / irq included; %.0fs]" % (mod, mod, cb_res.get(mod, ({},))[0].get("stp_routines"), dts), rcs == 0,
                          "file %s, first lemma that no longer checks: %s" % (stop_file, fails))
            ck.oblige("Theorems C12_stop_never_before_<model>, C12_stop_never_before_since_reset_<model> (both models; static Props/StopProps.stop_never_before instantiated with this run's one-call "
                      "theorems and C12_stop_fetch): in every history of Step / Reset / TriggerIRQ / triggerNMI calls from a state that is not stopped - or after a Reset, whatever happened before - "
                      "as long as no Step of the history fetches opcode $DB every Step reports false and the Stopped field stays clear; non-vacuity ex_stp (pending IRQ, $DB at the vector target)",
                      rcs == 0, fails)
            if rcs == 0:
                ck.assumptions += vlib.parse_assumptions(outs)
            elif not cb_broken:
                cb_broken.append(("both", stop_file, fails))
    # RunUntil on the real System: falsifier + tie of the loop model on the recorded trajectories
    if harness:
        ncase = 3000 if ck.tier == "thorough" else 400
        shards = vlib.parallel([(lambda i=i: vlib.sh([harness, "rununtil", "-seed", str(ck.seed * 100 + i), "-n", str(ncase)], timeout=1200)) for i in range(8)])
        rows, nfail, fl = [], 0, []
        for (rc, out, _) in shards:
            for line in out.splitlines():
                if line.startswith("CASE "):
                    head, tr = line.split(" T", 1)
                    _, cid, target, maxc, ret, steps = head.split()
                    pairs = "; ".join("(%s, %s)" % tuple(t.split(":")) for t in tr.split())
                    rows.append("  (%s, %s, %s, %s, [%s])" % (target, maxc, "true" if ret == "1" else "false", steps, pairs))
                elif line.startswith("FAIL C12"):
                    fl.append(line)
        for l in fl[:5]:
            mm = re.search(r"pseed=(\d+) target=(\w+) maxc=(\d+)", l)
            ck.violation("C12.rununtil." + (mm.group(1) if mm else "x"), "counterexample", l, {"line": l, "how": "harness rununtil"})
        tie = False
        detail = ""
        if rows:
            files = []
            per = 400
            for k in range(0, len(rows), per):
                pv = os.path.join(vlib.RUN, "Cases_C12_%d.v" % (k // per))
                vlib.write_if_changed(pv, TIE_V % ";\n".join(rows[k:k + per]))
                files.append(pv)
            res = vlib.parallel([(lambda f=f: vlib.coqc(f, timeout=900)) for f in files])
            tie = all(r[0] == 0 for r in res)
            detail = next((r[1][-800:] for r in res if r[0] != 0), "")
        ck.oblige("tie: Model.Disasm.run_until replayed on the recorded trajectory of the real CPU gives the observed (result, executed steps) of System.RunUntil on every case (Lemma tie, %d cases)" % len(rows), tie, detail)
        if not tie and not fl:
            ck.violation("C12.tie.rununtil", "broken-correspondence", "the RunUntil loop model and the compiled System.RunUntil disagree: " + detail[-400:], {"file": "build/work/Run/Cases_C12_*.v"})
        ck.cov["rununtil_cases"] = len(rows)
        ck.cov["traces_validated_against_impl"] = ck.cov.get("traces_validated_against_impl", 0) + len(rows)
        if rows:
            ck.sample({"rununtil_case(target,maxc,result,steps,trajectory)": rows[0][:300]})
    # the callbacks clause stated directly on the two real interpreters (harness/cbtool.go)
    if harness:     # also when the translator refused the source: the falsifier needs the real CPUs only
        ncb = 20000 if ck.tier == "thorough" else 2500
        names = field_names()
        shards = vlib.parallel([(lambda i=i: vlib.sh([harness, "cbclause", "-seed", str(ck.seed * 100 + i), "-n", str(ncb), "-fields", ",".join(names)], timeout=1200)) for i in range(4)])
        cbstats, cbfails = {}, []
        for i, (rc, out, _) in enumerate(shards):
            for b in re.split(r"\n(?=FAIL |STAT )", "\n" + out):
                b = b.strip()
                mm = re.match(r"STAT (\S+) (\d+)", b)
                if mm:
                    cbstats[mm.group(1)] = cbstats.get(mm.group(1), 0) + int(mm.group(2))
                elif b.startswith("FAIL C12 cb"):
                    cbfails.append((ck.seed * 100 + i, b))
        seen = set()
        for sd, b in cbfails:
            mm = re.search(r"case=(\d+) step=(\d+) interp=(\w+)", b)
            key = "C12.callbacks." + (mm.group(3) if mm else "x")
            if key in seen:
                continue
            seen.add(key)
            ck.violation(key, "counterexample", b[:1500], {"cb_seed": sd, "case": int(mm.group(1)) if mm else -1, "n": ncb,
                                                            "how": "harness cbclause -seed %d -n %d -case %s -fields ..." % (sd, ncb, mm.group(1) if mm else "?")})
        ck.cov["callbacks_falsifier"] = cbstats
        ck.cov["traces_validated_against_impl"] = ck.cov.get("traces_validated_against_impl", 0) + cbstats.get("cb_steps", 0)
    if models:
        srcs = [os.path.join(vlib.COQ, "Props", "CbLib.v"), os.path.join(vlib.COQ, "Props", "StopProps.v"), os.path.join(vlib.RUN, "C12_stop.v")] + [os.path.join(vlib.RUN, "C12_%s_%s.v" % (k, m)) for k in ("cbq", "cbs", "cb") for m in ("GenCpu65", "GenCpuAlt")]
        hyg = []
        for f in srcs:
            try:
                txt = re.sub(r"\(\*.*?\*\)", "", open(f).read(), flags=re.S)
            except OSError:
                hyg.append(f + ": missing")
                continue
            hyg += ["%s: %s" % (os.path.basename(f), w) for w in re.findall(r"\b(Axiom|Parameter|Conjecture|Admitted|admit|Unset Guard Checking|Unset Universe Checking)\b", txt)]
        fresh = vlib.static_vo_fresh(os.path.join(vlib.RUN, "C12_cb_GenCpu65.v")) and (not os.path.exists(os.path.join(vlib.RUN, "C12_stop.v")) or vlib.static_vo_fresh(os.path.join(vlib.RUN, "C12_stop.v")))
        ck.oblige("callbacks / stop clauses: static Props/CbLib.vo, StopProps.vo are fresh; no Axiom/Parameter/Conjecture/Admitted/admit/guard switches in Props/CbLib.v, Props/StopProps.v and the generated C12_cb*.v, C12_stop.v", not hyg and fresh,
                  "; ".join(hyg) or "stale static library: run ./check --setup")
    if cb_broken and not ck.violations:
        mod, fname, failing = cb_broken[0]
        ck.violation("C12.theorem.callbacks.%s.%s" % (mod, failing.split()[0] if failing else "x"), "broken-theorem",
                     "callbacks / stop-flag lemma %s over the regenerated model %s no longer checks (file build/work/Run/%s.v); the Go falsifiers (callbacks clause on both real interpreters with pending "
                     "interrupts and registrations at the vector targets, stop flag rising in a Step that fetched no $DB, lockstep trace comparison, RunUntil callback counts) found no failing input" % (failing, mod, fname),
                     {"lemma": failing, "file": "build/work/Run/%s.v" % fname})
    bad = vlib.foreign_assumptions(ck.assumptions)
    ck.oblige("Print Assumptions: closed under the global context", not bad, "unexpected: %s" % bad)
    ck.sample({"theorem": "C12_callbacks_GenCpu65_explicit",
               "statement": "forall s, Inv (Bty fwidth) s -> forall r s', Step s = Ok r s' -> onpc s' = onpc s /\\ onwdm s' = onwdm s /\\ let a := get f_PRK s' * 65536 + get f_PPC s' in "
                            "let a1 := get f_PRK s' * 65536 + (get f_PPC s' + 1) mod 65536 in let pc := if onpc s a then [EvPC a] else [] in exists tA tC opcode v, "
                            "let wdm := if onwdm s && (opcode =? 66) then [EvWDM v] else [] in cbs (trace s') = wdm ++ pc ++ cbs (trace s) /\\ trace s' = tC ++ pc ++ tA ++ trace s /\\ cbs tA = [] /\\ "
                            "(exists tC', tC = tC' ++ [EvR a opcode]) /\\ cbs tC = wdm /\\ (opcode = 66 -> tC = wdm ++ [EvR a1 v; EvR a opcode] /\\ get f_WDM s' = v)"})
    ck.sample({"theorem": "C12_step_GenCpu65", "statement": "forall s, Inv (Bty fwidth) s -> safe (fun r s' => (exists c, r = (c, z2b (get f_Stopped s')) /\\ 1 <= c <= 255 /\\ get f_AllCycles s' = add64 (get f_AllCycles s) c /\\ (get f_Stopped s' = get f_Stopped s \\/ get f_Stopped s' = 1)) /\\ Inv (Bty fwidth) s') (Step s)"})
    ck.cov.update({
        "distinct_nontrivial": stats.get("cases", 0) + ck.cov.get("rununtil_cases", 0),
        "rule": "theorems: all states / targets / budgets / call histories (unbounded). Tie/falsifier: CPU cases as for C02/C08 (cycles and callback events are part of the compared trace; FAIL C12 if a Step reports < 1 cycle, "
                "if the stop flag falls in a Step or rises in a Step that fetched no $DB, if Reset leaves the flag set or TriggerIRQ changes it; a third of the multi-step cases are histories with Reset / TriggerIRQ calls, half of them starting with STP) "
                "plus RunUntil cases: random programs on the real System, targets on/off the trajectory, budgets 0, 1, exact, +-1, random, with counting Logger and OnPC callbacks on every fetched address and on the target",
        "checker_cmd": "coqc build/work/Run/C08_*.v C12_*.v C12_run.v Cases_C12_*.v",
        "callbacks": "OnPC / OnWDM: Theorems C12_callbacks_<model> (one Step: exactly once, after interrupt entry and immediately before the opcode fetch from the registered address; OnWDM receives "
                     "the operand byte) and C12_callbacks_run_<model> (n steps: count of EvPC a = number of steps fetched at a) over both regenerated models; tie: P:/D: events compared one by one in "
                     "the lockstep run of the extracted models; falsifiers: harness cbclause (the clause on both real CPUs, pending interrupts, registrations at the vector targets) and the RunUntil callback counts",
        "checker_cmd_callbacks": "coqc build/work/Run/C12_cbq_<model>.v C12_cbs_<model>.v C12_cb_<model>.v C12_stop.v (engine coq/Props/CbLib.v, static Props/StopProps.v)",
        "stop_never_before": "Theorems C12_stop_only_stp_<model> (one Step: the Stopped field changes only when the opcode fetched - the byte of the fetch event of the callbacks clause - is $DB, and then to 1) and "
                             "C12_stop_never_before_<model> / _since_reset_<model> (histories) over both regenerated models; falsifier: cpucases reports a stop flag that rises in a Step that fetched no $DB",
    })


def replay(pid, rp):
    r = rp.get("replay", {})
    harness, herr = vlib.build_harness()
    if harness is None:
        print(herr)
        return 1
    if "cb_seed" in r:
        vlib.run_gen("cpu")
        rc, out, _ = vlib.sh([harness, "cbclause", "-seed", str(r["cb_seed"]), "-n", str(r.get("n", 2500)), "-case", str(r["case"]), "-fields", ",".join(field_names())], timeout=1200)
        hit = [b for b in re.split(r"\n(?=FAIL |STAT |PASS )", "\n" + out) if b.strip().startswith("FAIL C12 cb")]
        if hit:
            print(hit[0].strip())
            return 1
        print("case no longer fails on the current tree")
        return 0
    if "seed" in r and "case" in r:
        vlib.run_gen("cpu")
        names = field_names()
        d = os.path.join(vlib.WORK, "cpureplay")
        shutil.rmtree(d, ignore_errors=True)
        os.makedirs(d)
        rc, out, _ = vlib.sh([harness, "cpucases", "-seed", str(r["seed"]), "-variants", str(r.get("variants", 40)), "-multi", str(r.get("multi", 300)),
                              "-fields", ",".join(names), "-out", d], timeout=1200)
        hit = [b for b in re.split(r"\n(?=FAIL )", "\n" + out) if re.match(r"FAIL %s case=%d " % (pid, r["case"]), b.strip())]
        shutil.rmtree(d, ignore_errors=True)
        if hit:
            print(hit[0].strip())
            return 1
        anyfail = [b for b in re.split(r"\n(?=FAIL )", "\n" + out) if b.strip().startswith("FAIL " + pid)]
        if anyfail:
            print(anyfail[0].strip())
            return 1
        print("case no longer fails on the current tree")
        return 0
    print(rp.get("detail"))
    return 1
