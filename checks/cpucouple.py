"""Generation of the per-run Coq file that proves, over one regenerated interpreter model, the per-opcode
contract of property C07: in native mode with no interrupt pending, one Step over a straight-line opcode
advances PC by the architectural length (a function of M / X for the flag-dependent immediates), keeps the
program bank, E and the interrupt latch, changes M / X only for REP / SEP (by the operand byte), and changes
memory only where it logs a write; and one Step over a conditional branch whose condition is false (status
flags known by value) advances PC by 2 and keeps the bank, M, X, E, the latch and the whole memory.
Engines: Props/SafeLib.v (routine frame lemmas), Props/CoupleLib.v."""
import os
import re
from checks import cpusafe

# mnemonics that are not straight-line (control transfers, software interrupts, flag restores from the stack,
# E/C exchange, halts, block moves) -- mirrored by Props/CoupleProps.straight_mn, compared in Coq on every run
NOT_STRAIGHT = {"BCC", "BCS", "BEQ", "BMI", "BNE", "BPL", "BRA", "BRL", "BVC", "BVS", "JML", "JMP", "JSL", "JSR",
                "RTI", "RTL", "RTS", "BRK", "COP", "PLP", "XCE", "STP", "WAI", "MVN", "MVP"}
EQ_TRACKED = ["f_PC", "f_stepPC", "f_RK", "f_M", "f_X", "f_E", "f_Interrupt"]
# conditional branches: opcode -> (flag variable of the lemma, value under which the branch falls through)
# (own statement from the WDC instruction set; compared with Props/CoupleProps.br_taken in Coq on every run)
COND = {0x10: ("fn", 1), 0x30: ("fn", 0), 0x50: ("fv", 1), 0x70: ("fv", 0),
        0x90: ("fc", 1), 0xB0: ("fc", 0), 0xD0: ("fz", 1), 0xF0: ("fz", 0)}
SPECIAL = {"op_rep", "op_sep", "SetFlags"}


def isa_mnemonics(isa_path):
    s = open(isa_path).read()
    m = re.search(r"Definition matrix : list \(mnem \* mode\) := \[(.*?)\n\]\.", s, re.S)
    body = re.sub(r"\(\*.*?\*\)", "", m.group(1))
    ents = re.findall(r"\((\w+),\s*(\w+)\)", body)
    assert len(ents) == 256, len(ents)
    return [e[0] for e in ents]


def parse_tbl(path, name):
    s = open(path).read()
    m = re.search(r"Definition %s \(op : Z\)[^\n]*:=\n  match op with\n(.*?)\n  \| _ =>" % name, s, re.S)
    out = {}
    for line in m.group(1).splitlines():
        mm = re.match(r"\s*\| (\d+) => (\S+)", line)
        if mm:
            out[int(mm.group(1))] = mm.group(2)
    return out


HEADER = """(* GENERATED per run by checks/cpucouple.py: the per-opcode contract of C07 over the regenerated model %(mod)s *)
From Coq Require Import ZArith List Bool NArith Lia.
From Lib Require Import ZOps Machine.
From Gen Require Import GenFields %(mod)s.
From Props Require Import SafeLib CpuEqLib CoupleLib.
From Spec Require Import ISA.
Import ListNotations.
Local Open Scope Z_scope.

Notation TT := (fun _ : Z => True).
(* invariant: program counter / pending step length by predicate; program bank, M, X by value; native mode; no
   interrupt pending; every status flag is 0 or 1; the effective address by predicate; every field within its Go type *)
Notation BT Ppc Psp rk m x Pea :=
  (ovr f_PC Ppc (ovr f_stepPC Psp (ovr f_RK (eq rk) (ovr f_M (eq m) (ovr f_X (eq x) (ovr f_E (eq 0) (ovr f_Interrupt (eq 1)
  (ovr f_C bitp (ovr f_Z bitp (ovr f_I bitp (ovr f_D bitp (ovr f_V bitp (ovr f_N bitp
  (ovr f_StepInfo_EA Pea (Bty fwidth))))))))))))))).
(* the same with predicates on the four flags a conditional branch tests (by value: [eq c]) *)
Notation BTF Ppc Psp rk m x Pc Pz Pv Pn Pea :=
  (ovr f_PC Ppc (ovr f_stepPC Psp (ovr f_RK (eq rk) (ovr f_M (eq m) (ovr f_X (eq x) (ovr f_E (eq 0) (ovr f_Interrupt (eq 1)
  (ovr f_C Pc (ovr f_Z Pz (ovr f_I bitp (ovr f_D bitp (ovr f_V Pv (ovr f_N Pn
  (ovr f_StepInfo_EA Pea (Bty fwidth))))))))))))))).

Ltac relax_user H2 := first [ exact I | exact H2 ].
Ltac relax_tac :=
  let f := fresh "f" in let u := fresh "u" in let H := fresh "H" in
  intros f u H;
  repeat lazymatch goal with
         | |- ovr ?h ?P ?B f u =>
             let H1 := fresh "H" in let H2 := fresh "H" in
             destruct H as [H1 H2]; split;
             [ | first [ exact H2 | revert H2; case (N.eqb f h); [ cbv beta; intro H2; relax_user H2 | intros _; exact I ] ] ];
             rename H1 into H
         | |- _ => exact H
         end.

(* replacing the predicate of layers by [eq (current value)] / anything the current value satisfies *)
Lemma inv_relayer_self (B B' : N -> Z -> Prop) s :
  Inv B s -> (forall f, B f (get f s) -> B' f (get f s)) -> Inv B' s.
Proof. intros [H Ht] Himp. split; [|exact Ht]. intro f. apply Himp. apply H. Qed.
Ltac self_tac :=
  let f := fresh "f" in let H := fresh "H" in
  intros f H;
  repeat lazymatch goal with
         | |- ovr ?h ?P ?B f ?u =>
             let H1 := fresh "H" in let H2 := fresh "H" in
             destruct H as [H1 H2]; split;
             [ | first [ exact H2
                       | destruct (N.eqb_spec f h) as [E|E]; [ subst f; cbv beta; first [ reflexivity | exact I ] | exact I ] ] ];
             rename H1 into H
         | |- _ => exact H
         end.

Lemma safe_and_fr {A} (Q : A -> st -> Prop) s (r : res A) : safe Q r -> fr_ok s r -> safe (fun a s' => Q a s' /\\ Frame s s') r.
Proof. destruct r; simpl; auto. Qed.

"""


def generate(path, mod, isa_path, ea_field="f_StepInfo_EA"):
    funcs, procs, tabs = cpusafe.parse(path)
    names = [f["name"] for f in funcs]
    byname = {f["name"]: f for f in funcs}
    mn = isa_mnemonics(isa_path)
    tbl_mode = parse_tbl(path, "tbl_mode")
    straight = [op for op in range(256) if mn[op] not in NOT_STRAIGHT]
    # transitive: uses the EA field; assigns an eq-tracked field; callees
    uses, assigns, callees = {}, {}, {}
    for f in funcs:
        ids = cpusafe.idents(f["body"])
        u = ea_field in ids or "tbl_proc" in ids
        a = set(re.findall(r"set (f_\w+) ", f["body"]))
        cs = [c for c in names if c in ids and c != f["name"]]
        for c in cs:
            if uses.get(c):
                u = True
            a |= assigns.get(c, set())
        uses[f["name"]], assigns[f["name"]], callees[f["name"]] = u, a, cs
    # routines needed: those of the straight-line opcodes, what Step calls on the native no-interrupt path, closed under callees
    needed = set()

    def need(n):
        if n in needed or n not in byname:
            return
        needed.add(n)
        for c in callees[n]:
            need(c)
    op_proc = {op: procs[op] for op in range(256)}
    for op in straight:
        need(op_proc[op])
    for n in callees["Step"]:
        if n not in ("nmi", "irq"):
            need(n)
    out = [HEADER % {"mod": mod}]
    # ---- tables: ranges (as in C08)
    for t in tabs:
        out.append("Lemma rng_%s : forall W i, 8 <= W -> rng W (%s i).\nProof. intros W i HW. apply (rng_weaken 8); [|exact HW]. unfold %s. apply rng_nth; [vm_compute; reflexivity | discriminate]. Qed.\n" % (t, t, t))
    for fld in ("mode", "size", "cycles", "opcode"):
        out.append("Lemma rngb_tbl_%s : forallb (fun op => in_rngb 8 (tbl_%s op)) (upto 256) = true.\nProof. vm_compute. reflexivity. Qed.\n"
                   "Lemma rng_tbl_%s : forall W op, 8 <= W -> rng 8 op -> rng W (tbl_%s op).\nProof. intros W op HW Hop. apply (rng_weaken 8); [|exact HW]. apply in_rngb_ok. apply (all_bytes_b _ rngb_tbl_%s op Hop). Qed.\n"
                   % (fld, fld, fld, fld, fld))
    hook = ["Ltac rng_hook ::=\n  lazymatch goal with"]
    for t in tabs:
        hook.append("  | |- rng ?W (%s _) => apply rng_%s; side_le" % (t, t))
    for fld in ("mode", "size", "cycles", "opcode"):
        hook.append("  | |- rng ?W (tbl_%s _) => apply rng_tbl_%s; [side_le | solve_rng]" % (fld, fld))
    hook.append("  end.\n")
    out.append("\n".join(hook))
    lemmas, skipped = [], []

    def stmt(f, kind):
        ps = f["params"]
        ea = "(rng 24)" if uses[f["name"]] else "ea"
        quant = "forall (Ppc Psp : Z -> Prop) rk m x " + ("" if uses[f["name"]] else "(ea : Z -> Prop) ") + " ".join(n for n, _ in ps) + " s"
        prem = []
        for n, t in ps:
            if t == "zw32":
                prem.append("rng 24 %s" % n)
            elif t in cpusafe.WIDTH:
                prem.append("rng %d %s" % (cpusafe.WIDTH[t], n))
        rt = ("rng 24 r" if f["ret"] == "zw32" else "rng %d r" % cpusafe.WIDTH[f["ret"]]) if f["ret"] in cpusafe.WIDTH else "True"
        call = " ".join([f["name"]] + [n for n, _ in ps] + ["s"])
        return "%s, %sInv (BT Ppc Psp rk m x %s) s -> safe (fun r s' => %s /\\ Inv (BT Ppc Psp rk m x %s) s') (%s)" % (
            quant, "".join(p + " -> " for p in prem), ea, rt, ea, call)

    def calls_of(name, prefix):
        ids = cpusafe.idents(byname[name]["body"])
        cs = [c for c in names if c in ids and c != name and byname[c]["monadic"]]
        return ["| |- %s _ (%s%s) => eapply %s_%s" % ("safe" if prefix == "fr" else "fr_ok", c, " _" * (len(byname[c]["params"]) + 1), prefix, c) for c in cs]

    # ---- 1. routine frame lemmas (SafeLib engine): the routine keeps PC, stepPC, RK, M, X, E, Interrupt, flags stay 0/1
    for f in funcs:
        name = f["name"]
        if not f["monadic"] or name == "Step" or name not in needed:
            continue
        bad = assigns[name] & set(EQ_TRACKED)
        if name in SPECIAL:
            continue
        if bad:
            skipped.append((name, sorted(bad)))
            continue
        if any((c in [s_[0] for s_ in skipped] or c in SPECIAL) for c in callees[name] if byname[c]["monadic"]):
            skipped.append((name, ["calls a routine that assigns a tracked field"]))
            continue
        alts = calls_of(name, "fr")
        call = "fun _ => lazymatch goal with %s end" % " ".join(alts) if alts else "fun _ => fail"
        out.append("Lemma fr_%s : %s.\nProof. intros; cbv beta delta [%s]; safe_run ltac:(%s). Qed.\n" % (name, stmt(f, "fr"), name, call))
        lemmas.append("fr_" + name)
    have_fr = set(l[3:] for l in lemmas)
    # ---- 2. memory frame of every routine (value-free)
    mf_tbl = False
    for f in funcs:
        name = f["name"]
        if not f["monadic"]:
            continue
        ids = cpusafe.idents(f["body"])
        if "tbl_proc" in ids and not mf_tbl:
            lines = ["Lemma mf_tbl_proc : forall op s, fr_ok s (tbl_proc op s).", "Proof.",
                     "  intros op s. destruct (Z_lt_le_dec op 256) as [Hl|Hl]; [destruct (Z_lt_le_dec op 0) as [Hn|Hn]|].",
                     "  - destruct op; try lia. exact I.",
                     "  - revert s. pattern op. apply all_bytes; [|unfold rng; change (2 ^ 8) with 256; lia].",
                     "    cbv [upto app Z.of_nat Pos.of_succ_nat Pos.succ]."]
            for k, pname in enumerate(procs):
                lines.append("    apply Forall_cons; [ intros s0; change (tbl_proc %d s0) with (%s s0); apply mf_%s | ]." % (k, pname, pname))
            lines.append("    apply Forall_nil.")
            lines.append("  - destruct op as [|p|p]; try lia.")
            lines.append("    do 8 (destruct p as [p|p|]; [ | | exfalso; lia ]).")
            lines.append("    all: exact I.")
            lines.append("Qed.\n")
            out.append("\n".join(lines))
            lemmas.append("mf_tbl_proc")
            mf_tbl = True
        alts = calls_of(name, "mf")
        if "tbl_proc" in ids:
            alts.append("| |- fr_ok _ (tbl_proc _ _) => eapply mf_tbl_proc")
        call = "fun _ => lazymatch goal with %s end" % " ".join(alts) if alts else "fun _ => fail"
        out.append("Lemma mf_%s : forall %s s, fr_ok s (%s).\nProof. intros; cbv beta delta [%s]; fr_run ltac:(%s). Qed.\n" % (
            name, " ".join(n for n, _ in f["params"]), " ".join([name] + [n for n, _ in f["params"]] + ["s"]), name, call))
        lemmas.append("mf_" + name)
    # ---- 3. value lemmas, REP / SEP
    rd = [c for c in ("nRead", "EaRead") if c in byname]
    unf = sorted(set(rd) | set(c for r in rd for c in callees[r]))
    out.append(SPECIALS % {"unf": " ".join(unf)})
    lemmas += ["val_nRead", "val_EaRead", "val_Flags", "sp_SetFlags", "sp_op_rep", "sp_op_sep"]
    # ---- 4. Step, one lemma per addressing mode (one file each: they are compiled in parallel)
    step_calls = [c for c in callees["Step"] if byname[c]["monadic"] and c in have_fr]
    alts = ["| |- safe _ (%s%s) => eapply fr_%s" % (c, " _" * (len(byname[c]["params"]) + 1), c) for c in step_calls]
    alts.append("| |- safe _ (tbl_proc _ _) => eapply Hproc")
    call = "lazymatch goal with %s end" % " ".join(alts)
    modes = sorted(set(int(v) for v in tbl_mode.values()))
    out.append(STEP_COMMON % {"call": call})
    files = {"C07_%s_base" % mod: "\n".join(out)}
    shard_hdr = SHARD_HDR % {"mod": mod}
    for k in modes:
        ln = "(sub16 (tbl_size op) m)" if k == 6 else "(sub16 (tbl_size op) x)" if k == 7 else "(tbl_size op)"
        files["C07_%s_m%d" % (mod, k)] = shard_hdr + STEP_MODE % {"k": k, "len": ln}
        lemmas.append("step_mode_%d" % k)
    files["C07_%s_rep" % mod] = shard_hdr + STEP_REPSEP % {"kind": "rep"}
    files["C07_%s_sep" % mod] = shard_hdr + STEP_REPSEP % {"kind": "sep"}
    lemmas += ["step_rep", "step_sep"]
    # ---- 4b. conditional branches that fall through
    br_rows, br_ops, br_unproved = [], [], []
    for op in sorted(COND):
        var, val = COND[op]
        p = op_proc[op]
        if mn[op] not in ("BPL", "BMI", "BVC", "BVS", "BCC", "BCS", "BNE", "BEQ") or p not in byname or int(tbl_mode.get(op, -1)) != 23:
            br_unproved.append((op, p))
            continue
        args = " ".join(str(val) if v == var else v for v in ("fc", "fz", "fv", "fn"))
        quant = " ".join(v for v in ("fc", "fz", "fv", "fn") if v != var)
        hb = {"fc": "Hbc", "fz": "Hbz", "fv": "Hbv", "fn": "Hbn"}[var]
        br_rows.append(BR_ROW % {"op": op, "proc": p, "args": args, "quant": quant, "var": var, "val": val, "hb": hb,
                                 "bits": " | ".join("apply bitp_%d" % val if v == var else "assumption" for v in ("fc", "fz", "fv", "fn"))})
        br_ops.append(op)
        lemmas += ["nt_%d" % op, "cbr_%d" % op]
    lines = [BR_COMMON] + br_rows
    lines.append("Definition br_ops : list Z := [%s].\n" % "; ".join(str(o) for o in br_ops))
    lines.append("Theorem C07_br_%s : forall op, In op br_ops -> contract_br_at op.\nProof.\n  intros op Hin. unfold br_ops in Hin. cbn [In] in Hin.\n"
                 "  repeat (destruct Hin as [Hin|Hin]; [subst op|]); try contradiction.\n%s\nQed.\n" % (mod, "\n".join("  - exact cbr_%d." % o for o in br_ops)))
    lines.append("Print Assumptions C07_br_%s.\n" % mod)
    files["C07_%s_br" % mod] = shard_hdr + "From Props Require Import CoupleProps.\n\n" + "\n".join(lines)
    lemmas += ["step_br"]
    # ---- 4c. block moves: PC stays on the instruction or advances by the table size
    mv_rows, mv_ops, mv_unproved, mv_done = [], [], [], set()
    for op in (0x44, 0x54):
        p = op_proc[op]
        if mn[op] not in ("MVP", "MVN") or p not in byname or int(tbl_mode.get(op, -1)) != 22 or byname[p]["params"]:
            mv_unproved.append((op, p))
            continue
        if p not in mv_done:
            mv_done.add(p)
            alts = calls_of(p, "fr")
            callt = "fun _ => lazymatch goal with %s end" % " ".join(alts) if alts else "fun _ => fail"
            ea = "(rng 24)" if uses[p] else "ea"
            mv_rows.append(MV_ROUTINE % {"proc": p, "eaq": "" if uses[p] else "(ea : Z -> Prop) ", "ea": ea, "call": callt})
            lemmas.append("mvr_" + p)
        mv_rows.append(MV_ROW % {"op": op, "proc": p})
        mv_ops.append(op)
        lemmas += ["rmv_%d" % op, "cmv_%d" % op]
    lines = [MV_COMMON] + [r for r in mv_rows if r.startswith("Lemma mvr_")] + [MV_STEP] + [r for r in mv_rows if not r.startswith("Lemma mvr_")]
    lines.append("Definition mv_ops : list Z := [%s].\n" % "; ".join(str(o) for o in mv_ops))
    lines.append("Theorem C07_mv_%s : forall op, In op mv_ops -> contract_mv_at op.\nProof.\n  intros op Hin. unfold mv_ops in Hin. cbn [In] in Hin.\n"
                 "  repeat (destruct Hin as [Hin|Hin]; [subst op|]); try contradiction.\n%s\nQed.\n" % (mod, "\n".join("  - exact cmv_%d." % o for o in mv_ops)))
    lines.append("Print Assumptions C07_mv_%s.\n" % mod)
    files["C07_%s_mv" % mod] = shard_hdr + "\n".join(lines)
    lemmas += ["step_mv"]
    # ---- 5. per opcode
    out = [shard_hdr, "From Run Require Import %s.\nFrom Model Require Import Emitter.\nFrom Props Require Import CoupleProps.\n" % " ".join(sorted(n for n in files if not n.endswith("_base")))]
    rows = []
    proved, unproved = [], []
    for op in straight:
        p = op_proc[op]
        k = int(tbl_mode[op])
        if p == "op_rep" or p == "op_sep":
            kind = p[3:]
            rows.append("Lemma c_%d : contract_at %d.\nProof. apply contract_%s; [rng_const | reflexivity | intros; reflexivity | reflexivity]. Qed.\n" % (op, op, kind))
            proved.append(op)
        elif p in have_fr:
            rows.append("Lemma c_%d : contract_at %d.\nProof. apply (contract_plain %d %d); [rng_const | reflexivity | reflexivity | reflexivity | exact (step_mode_%d %d) | "
                        "intros pc sp rk m x s1 H1; change (tbl_proc %d s1) with (%s s1); eapply fr_%s; exact H1]. Qed.\n" % (op, op, op, k, k, op, op, p, p))
            proved.append(op)
        else:
            unproved.append((op, p))
    out.append(CONTRACT % {"mod": mod})
    out += rows
    out.append("Definition straight_ops : list Z := [%s].\n" % "; ".join(str(o) for o in straight))
    out.append("Definition proved_ops : list Z := [%s].\n" % "; ".join(str(o) for o in proved))
    lines = ["Theorem C07_contract_%s : forall op, In op proved_ops -> contract_at op.\nProof.\n  intros op Hin. unfold proved_ops in Hin. cbn [In] in Hin." % mod]
    lines.append("  repeat (destruct Hin as [Hin|Hin]; [subst op|]); try contradiction.")
    for op in proved:
        lines.append("  - exact c_%d." % op)
    lines.append("Qed.\n")
    out.append("\n".join(lines))
    out.append(LEN_AGREES % {"mod": mod})
    out.append(INSTANCE % {"mod": mod})
    out.append("Print Assumptions C07_contract_%s.\nPrint Assumptions C07_len_%s.\nPrint Assumptions c_br_contract.\nPrint Assumptions C07_moves_%s.\nPrint Assumptions C07_moves_dedup_%s.\nPrint Assumptions C07_partial_%s.\nPrint Assumptions C07_partial_patched_%s.\n" % (mod, mod, mod, mod, mod, mod))
    files["C07_%s" % mod] = "\n".join(out)
    return files, {"lemmas": lemmas, "straight": straight, "proved": proved, "unproved": unproved, "skipped": skipped,
                   "needed": sorted(needed), "modes": modes, "br_ops": br_ops, "br_unproved": br_unproved,
                   "mv_ops": mv_ops, "mv_unproved": mv_unproved}


SHARD_HDR = """(* GENERATED per run by checks/cpucouple.py (property C07, model %(mod)s) *)
From Coq Require Import ZArith List Bool NArith Lia.
From Lib Require Import ZOps Machine.
From Gen Require Import GenFields %(mod)s.
From Props Require Import SafeLib CpuEqLib CoupleLib.
From Spec Require Import ISA.
From Run Require Import C07_%(mod)s_base.
Import ListNotations.
Local Open Scope Z_scope.

"""

SPECIALS = """(* ---- reads return the byte in memory and leave memory alone *)
Ltac val_read_tac :=
  intros; subst; cbv beta zeta delta [%(unf)s seg_nil];
  repeat (first [ rewrite seg_ok_rng by solve_rng | rewrite addr_ok_rng by solve_rng
                | progress cbv beta iota zeta delta [bind seg_get bus_read mem_read] ]);
  cbv beta iota delta [safe]; split; [ reflexivity | split; [ apply inv_log; [ apply rng24_ok; solve_rng | assumption ] | reflexivity ] ].

Lemma val_nRead : forall (B : N -> Z -> Prop) bank addr m0 s, rng 8 bank -> rng 16 addr -> Inv B s -> mem s = m0 ->
  safe (fun r s' => r = m0 (w_or (shl32 bank 16) addr) mod 256 /\\ Inv B s' /\\ mem s' = m0) (nRead bank addr s).
Proof. val_read_tac. Qed.

Lemma val_EaRead : forall (B : N -> Z -> Prop) a m0 s, rng 24 a -> Inv B s -> mem s = m0 ->
  safe (fun r s' => r = m0 a mod 256 /\\ Inv B s' /\\ mem s' = m0) (EaRead a s).
Proof. val_read_tac. Qed.

(* the predicate a layer puts on the current value of a field *)
Ltac layer_pf H f s :=
  lazymatch type of H with
  | Inv (ovr ?g ?P ?B') s =>
      let b := eval cbv in (N.eqb f g) in
      lazymatch b with
      | true => constr:(inv_ovr_get B' g P s H)
      | false => layer_pf constr:(inv_ovr_base B' g P s H) f s
      end
  end.

(* the status byte: bits 5 and 4 are M and X (every flag being 0 or 1) *)
Lemma val_Flags : forall (Ppc Psp Pea : Z -> Prop) rk m x m0 s, bitp m -> bitp x ->
  Inv (BT Ppc Psp rk m x Pea) s -> mem s = m0 ->
  safe (fun r s' => (rng 8 r /\\ bitof r 5 = m /\\ bitof r 4 = x) /\\ Inv (BT Ppc Psp rk m x Pea) s' /\\ mem s' = m0) (Flags s).
Proof.
  intros Ppc Psp Pea rk m x m0 s Hbm Hbx Hi Hm.
  cbv beta zeta delta [Flags]. rw_known.
  let p := layer_pf Hi f_C s in pose proof p as HC.
  let p := layer_pf Hi f_Z s in pose proof p as HZ.
  let p := layer_pf Hi f_I s in pose proof p as HI.
  let p := layer_pf Hi f_D s in pose proof p as HD.
  let p := layer_pf Hi f_V s in pose proof p as HV.
  let p := layer_pf Hi f_N s in pose proof p as HN.
  cbv beta iota delta [safe]. split; [|split; assumption].
  destruct HC as [HC|HC]; rewrite HC; destruct HZ as [HZ|HZ]; rewrite HZ; destruct HI as [HI|HI]; rewrite HI;
  destruct HD as [HD|HD]; rewrite HD; destruct HV as [HV|HV]; rewrite HV; destruct HN as [HN|HN]; rewrite HN;
  destruct Hbm as [Hbm|Hbm]; rewrite Hbm; destruct Hbx as [Hbx|Hbx]; rewrite Hbx;
  (split; [rng_const | split; vm_compute; reflexivity]).
Qed.

Ltac fr_calls :=
  lazymatch goal with
  | |- safe _ (ChangeRegisterSizes_M _) => eapply fr_ChangeRegisterSizes_M
  | |- safe _ (ChangeRegisterSizes_X _) => eapply fr_ChangeRegisterSizes_X
  end.

(* SetFlags in native mode: M and X become bits 5 and 4 of the argument *)
Lemma sp_SetFlags : forall (Ppc Psp Pea : Z -> Prop) rk m x fl s, rng 8 fl ->
  Inv (BT Ppc Psp rk m x Pea) s ->
  safe (fun r s' => True /\\ Inv (BT Ppc Psp rk (bitof fl 5) (bitof fl 4) Pea) s') (SetFlags fl s).
Proof.
  intros; cbv beta delta [SetFlags]; crun no_call ltac:(fun _ => fr_calls) no_sethook no_hook.
Qed.

Ltac m_calls :=
  lazymatch goal with
  | |- safe _ (EaRead _ _) => eapply val_EaRead; [ solve_rng | eassumption | eassumption ]
  | |- safe _ (nRead _ _ _) => eapply val_nRead; [ solve_rng | solve_rng | eassumption | eassumption ]
  | |- safe _ (Flags _) => eapply val_Flags; [ | | eassumption | eassumption ]; assumption
  | |- safe _ (cb_pc _ _) => eapply safe_cb_pc_m; eassumption
  end.
Ltac split_hook :=
  repeat match goal with H : _ /\\ _ |- _ => destruct H end.

(* REP #o: M, X := M and not bit 5 of o, X and not bit 4 of o;  SEP #o: or *)
Lemma sp_op_rep : forall (Ppc Psp : Z -> Prop) rk m x ea o m0 s, bitp m -> bitp x -> rng 24 ea ->
  Inv (BT Ppc Psp rk m x (eq ea)) s -> mem s = m0 -> m0 ea mod 256 = o ->
  safe (fun _ s' => True /\\ Inv (BT Ppc Psp rk (rep_val m o 5) (rep_val x o 4) (eq ea)) s') (op_rep s).
Proof.
  intros Ppc Psp rk m x ea o m0 s Hbm Hbx Hea Hi Hm Ho.
  assert (Ho8 : rng 8 o) by (subst o; unfold rng; change (2 ^ 8) with 256; apply Z.mod_pos_bound; lia).
  cbv beta delta [op_rep].
  crun ltac:(fun _ => m_calls) ltac:(fun _ => lazymatch goal with |- safe _ (SetFlags _ _) => eapply sp_SetFlags end) no_sethook
       ltac:(fun _ => split_hook; try (match goal with Hr : ?r = m0 ea mod 256 |- _ => rewrite Ho in Hr; subst r end)).
  cbv beta. split; [exact I|]. eapply inv_relax; [eassumption|].
  match goal with H5 : bitof ?F 5 = m, H4 : bitof ?F 4 = x |- _ =>
    assert (E5 : bitof (w_and F (not8 o)) 5 = rep_val m o 5) by (rewrite rep_bit by (try lia; exact Ho8); unfold rep_val; rewrite H5; reflexivity);
    assert (E4 : bitof (w_and F (not8 o)) 4 = rep_val x o 4) by (rewrite rep_bit by (try lia; exact Ho8); unfold rep_val; rewrite H4; reflexivity)
  end.
  repeat match goal with v := _ : Z |- _ => subst v end.
  rewrite E5, E4. relax_tac.
Qed.

Lemma sp_op_sep : forall (Ppc Psp : Z -> Prop) rk m x ea o m0 s, bitp m -> bitp x -> rng 24 ea ->
  Inv (BT Ppc Psp rk m x (eq ea)) s -> mem s = m0 -> m0 ea mod 256 = o ->
  safe (fun _ s' => True /\\ Inv (BT Ppc Psp rk (sep_val m o 5) (sep_val x o 4) (eq ea)) s') (op_sep s).
Proof.
  intros Ppc Psp rk m x ea o m0 s Hbm Hbx Hea Hi Hm Ho.
  assert (Ho8 : rng 8 o) by (subst o; unfold rng; change (2 ^ 8) with 256; apply Z.mod_pos_bound; lia).
  cbv beta delta [op_sep].
  crun ltac:(fun _ => m_calls) ltac:(fun _ => lazymatch goal with |- safe _ (SetFlags _ _) => eapply sp_SetFlags end) no_sethook
       ltac:(fun _ => split_hook; try (match goal with Hr : ?r = m0 ea mod 256 |- _ => rewrite Ho in Hr; subst r end)).
  cbv beta. split; [exact I|]. eapply inv_relax; [eassumption|].
  match goal with H5 : bitof ?F 5 = m, H4 : bitof ?F 4 = x |- _ =>
    assert (E5 : bitof (w_or F o) 5 = sep_val m o 5) by (rewrite sep_bit by lia; unfold sep_val; rewrite H5; reflexivity);
    assert (E4 : bitof (w_or F o) 4 = sep_val x o 4) by (rewrite sep_bit by lia; unfold sep_val; rewrite H4; reflexivity)
  end.
  repeat match goal with v := _ : Z |- _ => subst v end.
  rewrite E5, E4. relax_tac.
Qed.
"""

STEP_COMMON = """(* ---- Step.  What the routine of an opcode has to satisfy (shown per opcode from the routine frame lemmas) *)
Definition routine_ok (op : Z) : Prop := forall pc sp rk m x s1,
  Inv (BT (eq pc) (eq sp) rk m x (rng 24)) s1 ->
  safe (fun _ s' => True /\\ Inv (BT (eq pc) (eq sp) rk m x (rng 24)) s') (tbl_proc op s1).

Ltac step_calls Hproc := %(call)s.
Ltac ea_sethook Hn B f v s0 H :=
  lazymatch f with
  | f_StepInfo_EA =>
      let B' := relayer B f (rng 24) in
      assert (Hn : Inv B' (set f v s0)) by (eapply inv_set_relayer; [exact H | relayer_tac | prove_B])
  end.
Ltac ea_sethook_eq Hn B f v s0 H :=
  lazymatch f with
  | f_StepInfo_EA =>
      let B' := relayer B f (eq v) in
      assert (Hn : Inv B' (set f v s0)) by (eapply inv_set_relayer; [exact H | relayer_tac | prove_B])
  end.
Ltac step_hook Hmode Hfetch :=
  try rewrite Hmode;
  try (match goal with Hr : ?r = _ mod 256 |- _ => is_var r; rewrite Hfetch in Hr; subst r end).
Ltac step_start :=
  lazymatch goal with
  | Hi : Inv (BT (eq ?pc) TT ?rk ?m ?x TT) ?s |- _ =>
      let Hi' := fresh "Hi" in
      assert (Hi' : Inv (BT (eq pc) (eq (get f_stepPC s)) rk m x (eq (get f_StepInfo_EA s))) s)
        by (eapply inv_relayer_self; [exact Hi | self_tac]);
      clear Hi;
      assert (Hpc : rng 16 pc) by (rewrite (inv_ovr_get _ f_PC (eq pc) s Hi'); solve_rng);
      assert (Hrk : rng 8 rk) by (let p := layer_pf Hi' f_RK s in rewrite p; solve_rng);
      assert (Hm8 : rng 8 m) by (apply bitp_rng; [lia | assumption]);
      assert (Hx8 : rng 8 x) by (apply bitp_rng; [lia | assumption]);
      generalize (get f_stepPC s) (get f_StepInfo_EA s) Hi'; clear Hi'; intros sp0 ea0 Hi
  end.
"""

STEP_MODE = """Lemma step_mode_%(k)d : forall op pc rk m x s, rng 8 op -> tbl_mode op = %(k)d -> routine_ok op -> bitp m -> bitp x ->
  Inv (BT (eq pc) TT rk m x TT) s -> mem s (w_or (shl32 rk 16) pc) mod 256 = op ->
  safe (fun _ s' => True /\\ Inv (BT (eq (add16 pc %(len)s)) TT rk m x TT) s') (Step s).
Proof.
  intros op pc rk m x s Hop Hmode Hproc Hbm Hbx Hi Hfetch. step_start.
  assert (Hm : mem s = mem s) by reflexivity. revert Hm Hfetch. generalize (mem s) at 2 3. intros m0 Hm Hfetch.
  cbv beta delta [Step].
  crun ltac:(fun _ => m_calls) ltac:(fun _ => step_calls Hproc) ea_sethook ltac:(fun _ => step_hook Hmode Hfetch).
  all: cbv beta; (split; [ first [ exact I | res_goal ] | eapply inv_relax; [eassumption | relax_tac] ]).
Qed.
"""

STEP_REPSEP = """Lemma step_%(kind)s : forall op pc rk m x s, rng 8 op -> tbl_mode op = 5 -> (forall s1, tbl_proc op s1 = op_%(kind)s s1) -> bitp m -> bitp x ->
  Inv (BT (eq pc) TT rk m x TT) s -> mem s (w_or (shl32 rk 16) pc) mod 256 = op ->
  safe (fun _ s' => True /\\ Inv (BT (eq (add16 pc (tbl_size op))) TT rk
          (%(kind)s_val m (mem s (w_or (shl32 rk 16) (add16 pc 1)) mod 256) 5) (%(kind)s_val x (mem s (w_or (shl32 rk 16) (add16 pc 1)) mod 256) 4) TT) s') (Step s).
Proof.
  intros op pc rk m x s Hop Hmode Hproc Hbm Hbx Hi Hfetch. step_start.
  assert (Hm : mem s = mem s) by reflexivity. revert Hm Hfetch. generalize (mem s) at 2 3 4 5. intros m0 Hm Hfetch.
  cbv beta delta [Step].
  crun ltac:(fun _ => first [ m_calls
                            | lazymatch goal with |- safe _ (tbl_proc _ _) => rewrite Hproc; eapply sp_op_%(kind)s; [ | | | eassumption | eassumption | reflexivity ]; [ assumption | assumption | solve_rng ] end ])
       ltac:(fun _ => step_calls Hproc) ea_sethook_eq ltac:(fun _ => step_hook Hmode Hfetch).
  all: cbv beta; (split; [ first [ exact I | res_goal ] | eapply inv_relax; [eassumption | relax_tac] ]).
Qed.
"""

BR_COMMON = """(* ---- conditional branches whose condition is false.  The four flags a branch can test are carried by value. *)
(* what the routine of such an opcode has to satisfy under these flag values: it changes nothing *)
Definition routine_nt (op fc fz fv fn : Z) : Prop := forall pc sp rk m x m0 s1,
  Inv (BTF (eq pc) (eq sp) rk m x (eq fc) (eq fz) (eq fv) (eq fn) (rng 24)) s1 -> mem s1 = m0 ->
  safe (fun _ s' => True /\\ Inv (BTF (eq pc) (eq sp) rk m x (eq fc) (eq fz) (eq fv) (eq fn) (rng 24)) s' /\\ mem s' = m0) (tbl_proc op s1).

Ltac step_start_f :=
  lazymatch goal with
  | Hi : Inv (BTF (eq ?pc) TT ?rk ?m ?x (eq ?fc) (eq ?fz) (eq ?fv) (eq ?fn) TT) ?s |- _ =>
      let Hi' := fresh "Hi" in
      assert (Hi' : Inv (BTF (eq pc) (eq (get f_stepPC s)) rk m x (eq fc) (eq fz) (eq fv) (eq fn) (eq (get f_StepInfo_EA s))) s)
        by (eapply inv_relayer_self; [exact Hi | self_tac]);
      clear Hi;
      assert (Hpc : rng 16 pc) by (rewrite (inv_ovr_get _ f_PC (eq pc) s Hi'); solve_rng);
      assert (Hrk : rng 8 rk) by (let p := layer_pf Hi' f_RK s in rewrite p; solve_rng);
      assert (Hm8 : rng 8 m) by (apply bitp_rng; [lia | assumption]);
      assert (Hx8 : rng 8 x) by (apply bitp_rng; [lia | assumption]);
      generalize (get f_stepPC s) (get f_StepInfo_EA s) Hi'; clear Hi'; intros sp0 ea0 Hi
  end.
(* Step over an opcode of the PC-relative mode whose routine falls through: PC advances by the table size, the flags,
   M, X, the bank, E, the latch and the WHOLE memory are kept (the memory hypothesis is carried through the routine) *)
Lemma step_br : forall op pc rk m x fc fz fv fn s, rng 8 op -> tbl_mode op = 23 -> routine_nt op fc fz fv fn -> bitp m -> bitp x ->
  bitp fc -> bitp fz -> bitp fv -> bitp fn ->
  Inv (BTF (eq pc) TT rk m x (eq fc) (eq fz) (eq fv) (eq fn) TT) s -> mem s (w_or (shl32 rk 16) pc) mod 256 = op ->
  safe (fun _ s' => True /\\ Inv (BTF (eq (add16 pc (tbl_size op))) TT rk m x (eq fc) (eq fz) (eq fv) (eq fn) TT) s' /\\ mem s' = mem s) (Step s).
Proof.
  intros op pc rk m x fc fz fv fn s Hop Hmode Hproc Hbm Hbx Hbc Hbz Hbv Hbn Hi Hfetch. step_start_f.
  assert (Hm : mem s = mem s) by reflexivity. revert Hm Hfetch. generalize (mem s) at 2 3 4. intros m0 Hm Hfetch.
  cbv beta delta [Step].
  crun ltac:(fun _ => first [ m_calls | lazymatch goal with |- safe _ (tbl_proc _ _) => eapply Hproc; eassumption end ])
       ltac:(fun _ => step_calls Hproc) ea_sethook ltac:(fun _ => step_hook Hmode Hfetch).
  all: cbv beta; (split; [ exact I | split; [ eapply inv_relax; [eassumption | relax_tac] | assumption ] ]).
Qed.

(* the contract of one conditional-branch opcode: flags by value, condition false (CoupleProps.br_taken) *)
Definition contract_br_at (op : Z) : Prop := forall pc rk m x fc fz fv fn s, bitp m -> bitp x -> bitp fc -> bitp fz -> bitp fv -> bitp fn ->
  Inv (BTF (eq pc) TT rk m x (eq fc) (eq fz) (eq fv) (eq fn) TT) s -> mem s (w_or (shl32 rk 16) pc) mod 256 = op ->
  br_taken op fn fv fc fz = false ->
  safe (fun _ s' => Inv (BT (eq (add16 pc (tbl_size op))) TT rk m x TT) s' /\\ mem s' = mem s) (Step s).

(* from [eq c] with c a bit to [bitp] *)
Ltac relax_user H2 ::= first [ exact I | exact H2 | (rewrite <- H2; assumption) ].
"""

BR_ROW = """(* $%(op)02X: falls through when %(var)s = %(val)d *)
Lemma nt_%(op)d : forall %(quant)s, routine_nt %(op)d %(args)s.
Proof.
  intros %(quant)s pc sp rk m x m0 s1 Hi Hm. change (tbl_proc %(op)d s1) with (%(proc)s s1). cbv beta delta [%(proc)s].
  crun no_call no_call no_sethook no_hook.
  all: cbv beta; first [ solve [ split; [ exact I | split; [ first [ assumption | eapply inv_relax; [eassumption | relax_tac] ] | assumption ] ] ]
                       | fail 2 "%(proc)s (opcode %(op)d) does not fall through leaving PC, stepPC, PBR, M, X, E, the flags and memory alone when %(var)s = %(val)d" ].
Qed.
Lemma cbr_%(op)d : contract_br_at %(op)d.
Proof.
  intros pc rk m x fc fz fv fn s Hbm Hbx Hbc Hbz Hbv Hbn Hi Hf Hnt.
  assert (E : %(var)s = %(val)d) by (destruct %(hb)s as [E|E]; rewrite E in Hnt; first [ exact E | (exfalso; vm_compute in Hnt; discriminate Hnt) ]).
  subst %(var)s.
  eapply safe_weaken; [ eapply (step_br %(op)d pc rk m x %(args)s s); [ rng_const | reflexivity | apply nt_%(op)d | assumption | assumption | %(bits)s | exact Hi | exact Hf ] | ].
  intros r s' [_ [H1 H2]]. split; [ eapply inv_relax; [exact H1 | relax_tac] | exact H2 ].
Qed.
"""

MV_COMMON = """(* ---- block moves MVP / MVN.  Their routine assigns stepPC (0 = "execute me again"), so it has no frame lemma of the
   general shape; it keeps the invariant with the pending step length either as it was or 0 *)
Definition mvsp (sp v : Z) : Prop := v = 0 \\/ v = sp.
Ltac ovr_hook ::= first [ solve_bitp | reflexivity | exact I | (left; reflexivity) ].
Ltac relax_user H2 ::= first [ exact I | exact H2 | (right; symmetry; exact H2) | (left; symmetry; exact H2) ].

Definition routine_mv (op : Z) : Prop := forall pc sp rk m x s1,
  Inv (BT (eq pc) (eq sp) rk m x (rng 24)) s1 ->
  safe (fun _ s' => True /\\ Inv (BT (eq pc) (mvsp sp) rk m x (rng 24)) s') (tbl_proc op s1).
"""

MV_ROUTINE = """Lemma mvr_%(proc)s : forall (Ppc : Z -> Prop) sp rk m x %(eaq)ss, Inv (BT Ppc (mvsp sp) rk m x %(ea)s) s ->
  safe (fun r s' => True /\\ Inv (BT Ppc (mvsp sp) rk m x %(ea)s) s') (%(proc)s s).
Proof. intros; cbv beta delta [%(proc)s]; safe_run ltac:(%(call)s). Qed.
"""

MV_STEP = """(* Step over an opcode of the block-move mode: PC stays (written add16 pc 0) or advances by the table size; bank, M, X,
   E, the latch kept *)
Lemma step_mv : forall op pc rk m x s, rng 8 op -> tbl_mode op = 22 -> routine_mv op -> bitp m -> bitp x ->
  Inv (BT (eq pc) TT rk m x TT) s -> mem s (w_or (shl32 rk 16) pc) mod 256 = op ->
  safe (fun _ s' => True /\\ Inv (BT (fun v => v = add16 pc 0 \\/ v = add16 pc (tbl_size op)) TT rk m x TT) s') (Step s).
Proof.
  intros op pc rk m x s Hop Hmode Hproc Hbm Hbx Hi Hfetch. step_start.
  assert (Hm : mem s = mem s) by reflexivity. revert Hm Hfetch. generalize (mem s) at 2 3. intros m0 Hm Hfetch.
  cbv beta delta [Step].
  crun ltac:(fun _ => m_calls) ltac:(fun _ => step_calls Hproc) ea_sethook ltac:(fun _ => step_hook Hmode Hfetch).
  all: cbv beta; (split; [exact I|]);
    match goal with
    | Hs : Inv _ ?sa, H : Inv (ovr f_PC (eq (add16 _ (get f_stepPC ?sa))) _) _ |- _ =>
        let p := layer_pf Hs f_stepPC sa in pose proof p as Hsp; cbv beta in Hsp; destruct Hsp as [Hsp|Hsp]; rewrite Hsp in H;
        (eapply inv_relax; [exact H | relax_tac])
    end.
Qed.

Definition contract_mv_at (op : Z) : Prop := forall pc rk m x s, bitp m -> bitp x ->
  Inv (BT (eq pc) TT rk m x TT) s -> mem s (w_or (shl32 rk 16) pc) mod 256 = op ->
  safe (fun _ s' => Inv (BT (fun v => v = add16 pc 0 \\/ v = add16 pc (tbl_size op)) TT rk m x TT) s' /\\ Frame s s') (Step s).
"""

MV_ROW = """Lemma rmv_%(op)d : routine_mv %(op)d.
Proof.
  intros pc sp rk m x s1 Hi. change (tbl_proc %(op)d s1) with (%(proc)s s1).
  eapply mvr_%(proc)s. eapply inv_relax; [exact Hi | relax_tac].
Qed.
Lemma cmv_%(op)d : contract_mv_at %(op)d.
Proof.
  intros pc rk m x s Hbm Hbx Hi Hf. apply safe_and_fr; [|apply mf_Step].
  eapply safe_weaken; [ eapply (step_mv %(op)d pc rk m x s); [ rng_const | reflexivity | exact rmv_%(op)d | assumption | assumption | exact Hi | exact Hf ] | ].
  intros r s' [_ H']. exact H'.
Qed.
"""

CONTRACT = """(* ---- the contract of one opcode *)
(* length by which this model's Step advances PC *)
Definition cpu_len (op m x : Z) : Z :=
  if tbl_mode op =? 6 then sub16 (tbl_size op) m else if tbl_mode op =? 7 then sub16 (tbl_size op) x else tbl_size op.
(* M / X after the instruction (o = the byte after the opcode): CoupleProps.new_m / new_x *)

Definition contract_at (op : Z) : Prop := forall pc rk m x s, bitp m -> bitp x ->
  Inv (BT (eq pc) TT rk m x TT) s -> mem s (w_or (shl32 rk 16) pc) mod 256 = op ->
  safe (fun _ s' =>
          Inv (BT (eq (add16 pc (cpu_len op m x))) TT rk
                  (new_m op m (mem s (w_or (shl32 rk 16) (add16 pc 1)) mod 256))
                  (new_x op x (mem s (w_or (shl32 rk 16) (add16 pc 1)) mod 256)) TT) s' /\\ Frame s s') (Step s).

Lemma contract_plain : forall op k, rng 8 op -> tbl_mode op = k -> (op =? 194) = false -> (op =? 226) = false ->
  (forall pc rk m x s, rng 8 op -> tbl_mode op = k -> routine_ok op -> bitp m -> bitp x ->
     Inv (BT (eq pc) TT rk m x TT) s -> mem s (w_or (shl32 rk 16) pc) mod 256 = op ->
     safe (fun _ s' => True /\\ Inv (BT (eq (add16 pc (cpu_len op m x))) TT rk m x TT) s') (Step s)) ->
  routine_ok op -> contract_at op.
Proof.
  intros op k Hop Hk H194 H226 Hstep Hr pc rk m x s Hbm Hbx Hi Hf.
  apply safe_and_fr; [|apply mf_Step]. unfold new_m, new_x. rewrite H194, H226.
  eapply safe_weaken; [eapply (Hstep pc rk m x s); assumption|]. intros r s' [_ H']. exact H'.
Qed.

Lemma contract_rep : forall op, rng 8 op -> tbl_mode op = 5 -> (forall s1, tbl_proc op s1 = op_rep s1) -> (op =? 194) = true -> contract_at op.
Proof.
  intros op Hop Hk Hp H194 pc rk m x s Hbm Hbx Hi Hf.
  apply safe_and_fr; [|apply mf_Step]. unfold new_m, new_x, cpu_len. rewrite H194, Hk. cbv beta iota delta [Z.eqb Pos.eqb].
  eapply safe_weaken; [eapply (step_rep op pc rk m x s); assumption|]. intros r s' [_ H']. exact H'.
Qed.

Lemma contract_sep : forall op, rng 8 op -> tbl_mode op = 5 -> (forall s1, tbl_proc op s1 = op_sep s1) -> (op =? 226) = true -> contract_at op.
Proof.
  intros op Hop Hk Hp H226 pc rk m x s Hbm Hbx Hi Hf.
  assert (H194 : (op =? 194) = false) by (apply Z.eqb_eq in H226; subst op; reflexivity).
  apply safe_and_fr; [|apply mf_Step]. unfold new_m, new_x, cpu_len. rewrite H194, H226, Hk. cbv beta iota delta [Z.eqb Pos.eqb].
  eapply safe_weaken; [eapply (step_sep op pc rk m x s); assumption|]. intros r s' [_ H']. exact H'.
Qed.
"""

LEN_AGREES = """(* the length by which the model advances PC is the architectural length of Spec/ISA.v, for every width combination *)
Lemma C07_len_%(mod)s : forallb (fun op => forallb (fun mx : Z * Z => cpu_len op (fst mx) (snd mx) =? ISA.op_length op (fst mx =? 1) (snd mx =? 1))
                                 [(0,0); (0,1); (1,0); (1,1)]) proved_ops = true.
Proof. vm_compute. reflexivity. Qed.
"""

INSTANCE = """(* ---- every straight-line opcode of Spec/ISA.v is covered *)
Definition memZ (v : Z) (l : list Z) : bool := existsb (Z.eqb v) l.
Lemma straight_covered_b : forallb (fun op => implb (straight op) (memZ op proved_ops)) (upto 256) = true.
Proof. vm_compute. reflexivity. Qed.
Lemma straight_covered : forall op, straight op = true -> In op proved_ops.
Proof.
  intros op H. assert (Hr : rng 8 op).
  { unfold straight in H. apply andb_true_iff in H. destruct H as [H _]. apply andb_true_iff in H. destruct H as [H1 H2].
    apply Z.leb_le in H1. apply Z.ltb_lt in H2. unfold rng. change (2 ^ 8) with 256. lia. }
  pose proof (all_bytes_b _ straight_covered_b op Hr) as Hc. cbv beta in Hc. rewrite H in Hc. cbn [implb] in Hc.
  unfold memZ in Hc. apply existsb_exists in Hc. destruct Hc as [y [Hin Hy]]. apply Z.eqb_eq in Hy. subst y. exact Hin.
Qed.

(* ---- this model as an instance of the abstract CPU of Props/CoupleProps.v *)
Definition c_step (s : st) : option st := match Step s with Ok _ s' => Some s' | Panic => None end.
(* native mode, no interrupt pending, every status flag 0 or 1, every field within its Go type *)
Definition c_ok (s : st) : Prop := exists pc rk m x, bitp m /\\ bitp x /\\ Inv (BT (eq pc) TT rk m x TT) s.
Definition c_pc (s : st) : Z := get f_PC s.
Definition c_rk (s : st) : Z := get f_RK s.
Definition c_m (s : st) : Z := get f_M s.
Definition c_x (s : st) : Z := get f_X s.

Lemma c_ok_vals : forall s pc rk m x, Inv (BT (eq pc) TT rk m x TT) s ->
  pc = c_pc s /\\ rk = c_rk s /\\ m = c_m s /\\ x = c_x s /\\ rng 16 (c_pc s) /\\ rng 8 (c_rk s).
Proof.
  intros s pc rk m x Hi. unfold c_pc, c_rk, c_m, c_x.
  let p := layer_pf Hi f_PC s in pose proof p as H1.
  let p := layer_pf Hi f_RK s in pose proof p as H2.
  let p := layer_pf Hi f_M s in pose proof p as H3.
  let p := layer_pf Hi f_X s in pose proof p as H4.
  cbv beta in *. split; [exact H1|]. split; [exact H2|]. split; [exact H3|]. split; [exact H4|]. split; solve_rng.
Qed.

Lemma c_ranges : ok_ranges st c_ok c_pc c_rk c_m c_x.
Proof.
  intros s [pc [rk [m [x [Hbm [Hbx Hi]]]]]]. destruct (c_ok_vals s pc rk m x Hi) as [E1 [E2 [E3 [E4 [R1 R2]]]]].
  unfold rng in R1, R2. change (2 ^ 16) with 65536 in R1. change (2 ^ 8) with 256 in R2.
  rewrite <- E3, <- E4. repeat split; try lia; assumption.
Qed.

Lemma c_len_eq : forall op m x, In op proved_ops -> bitp m -> bitp x -> cpu_len op m x = ISA.op_length op (m =? 1) (x =? 1).
Proof.
  intros op m x Hin Hm Hx. pose proof C07_len_%(mod)s as H. rewrite forallb_forall in H. specialize (H op Hin).
  rewrite forallb_forall in H.
  assert (Hmx : In (m, x) [(0,0); (0,1); (1,0); (1,1)]).
  { destruct Hm as [-> | ->]; destruct Hx as [-> | ->]; cbn; auto. }
  specialize (H (m, x) Hmx). cbn [fst snd] in H. apply Z.eqb_eq in H. exact H.
Qed.

Theorem c_contract : len_contract st c_step c_ok c_pc c_rk c_m c_x mem wrote.
Proof.
  intros s op [pc [rk [m [x [Hbm [Hbx Hi]]]]]] Hstr Hfetch.
  destruct (c_ok_vals s pc rk m x Hi) as [E1 [E2 [E3 [E4 [R1 R2]]]]].
  pose proof (straight_covered op Hstr) as Hin.
  assert (R1' : 0 <= c_pc s < 65536) by (unfold rng in R1; change (2 ^ 16) with 65536 in R1; exact R1).
  assert (R2' : 0 <= c_rk s < 256) by (unfold rng in R2; change (2 ^ 8) with 256 in R2; exact R2).
  assert (Hf : mem s (w_or (shl32 rk 16) pc) mod 256 = op).
  { rewrite E1, E2. rewrite lor_shl16 by assumption. exact Hfetch. }
  pose proof (C07_contract_%(mod)s op Hin pc rk m x s Hbm Hbx Hi Hf) as Hc.
  unfold c_step. destruct (Step s) as [r s'|]; cbn [safe] in Hc; [|contradiction].
  destruct Hc as [Hi' Hfr]. exists s'. split; [reflexivity|].
  assert (Eo : mem s (w_or (shl32 rk 16) (add16 pc 1)) mod 256 = operand st c_pc c_rk mem s).
  { unfold operand, addr24, add16. rewrite E1, E2. rewrite lor_shl16; [reflexivity | assumption | apply Z.mod_pos_bound; lia]. }
  rewrite Eo in Hi'.
  destruct (c_ok_vals s' _ _ _ _ Hi') as [F1 [F2 [F3 [F4 _]]]].
  split.
  { eexists _, _, _, _. split; [|split; [|exact Hi']].
    - unfold new_m. destruct (op =? 194); [apply bitp_rep_val; exact Hbm|]. destruct (op =? 226); [apply bitp_sep_val; exact Hbm | exact Hbm].
    - unfold new_x. destruct (op =? 194); [apply bitp_rep_val; exact Hbx|]. destruct (op =? 226); [apply bitp_sep_val; exact Hbx | exact Hbx]. }
  split; [rewrite <- F2, <- E2; reflexivity|].
  split; [rewrite <- F1, <- E1, <- E3, <- E4; unfold add16; rewrite (c_len_eq op m x Hin Hbm Hbx); reflexivity|].
  split; [rewrite <- F3, <- E3; reflexivity|].
  split; [rewrite <- F4, <- E4; reflexivity|].
  intro a. apply Frame_mem. exact Hfr.
Qed.

(* ---- the clause for the conditional branches *)
Definition c_fn (s : st) : Z := get f_N s.
Definition c_fv (s : st) : Z := get f_V s.
Definition c_fc (s : st) : Z := get f_C s.
Definition c_fz (s : st) : Z := get f_Z s.

Lemma br_len_b : forallb (fun op => (tbl_size op =? 2) && (tbl_mode op =? 23)) br_ops = true.
Proof. vm_compute. reflexivity. Qed.
Lemma br_covered_b : forallb (fun op => memZ op br_ops) cond_ops = true.
Proof. vm_compute. reflexivity. Qed.
Lemma br_covered : forall op, cond_branch op = true -> In op br_ops.
Proof.
  intros op H. apply cond_branch_in in H. pose proof br_covered_b as Hc. rewrite forallb_forall in Hc. specialize (Hc op H).
  unfold memZ in Hc. apply existsb_exists in Hc. destruct Hc as [y [Hin Hy]]. apply Z.eqb_eq in Hy. subst y. exact Hin.
Qed.

Lemma c_ok_flags : forall s pc rk m x, Inv (BT (eq pc) TT rk m x TT) s ->
  bitp (c_fc s) /\\ bitp (c_fz s) /\\ bitp (c_fv s) /\\ bitp (c_fn s) /\\
  Inv (BTF (eq pc) TT rk m x (eq (c_fc s)) (eq (c_fz s)) (eq (c_fv s)) (eq (c_fn s)) TT) s.
Proof.
  intros s pc rk m x Hi. unfold c_fc, c_fz, c_fv, c_fn.
  let p := layer_pf Hi f_C s in pose proof p as H1.
  let p := layer_pf Hi f_Z s in pose proof p as H2.
  let p := layer_pf Hi f_V s in pose proof p as H3.
  let p := layer_pf Hi f_N s in pose proof p as H4.
  cbv beta in *. split; [exact H1|]. split; [exact H2|]. split; [exact H3|]. split; [exact H4|].
  eapply inv_relayer_self; [exact Hi | self_tac].
Qed.

Theorem c_br_contract : forall brs, br_contract st c_step c_ok c_pc c_rk c_m c_x mem c_fn c_fv c_fc c_fz brs.
Proof.
  intros brs s op [pc [rk [m [x [Hbm [Hbx Hi]]]]]] _ Hcb Hfetch Hnt.
  destruct (c_ok_vals s pc rk m x Hi) as [E1 [E2 [E3 [E4 [R1 R2]]]]].
  destruct (c_ok_flags s pc rk m x Hi) as [Bc [Bz [Bv [Bn Hif]]]].
  pose proof (br_covered op Hcb) as Hin.
  assert (R1' : 0 <= c_pc s < 65536) by (unfold rng in R1; change (2 ^ 16) with 65536 in R1; exact R1).
  assert (R2' : 0 <= c_rk s < 256) by (unfold rng in R2; change (2 ^ 8) with 256 in R2; exact R2).
  assert (Hf : mem s (w_or (shl32 rk 16) pc) mod 256 = op).
  { rewrite E1, E2. rewrite lor_shl16 by assumption. exact Hfetch. }
  pose proof (C07_br_%(mod)s op Hin pc rk m x _ _ _ _ s Hbm Hbx Bc Bz Bv Bn Hif Hf Hnt) as Hc.
  assert (Hsz : tbl_size op = 2).
  { pose proof br_len_b as Hl. rewrite forallb_forall in Hl. specialize (Hl op Hin). apply andb_true_iff in Hl. destruct Hl as [Hl _].
    apply Z.eqb_eq in Hl. exact Hl. }
  unfold c_step. destruct (Step s) as [r s'|]; cbn [safe] in Hc; [|contradiction].
  destruct Hc as [Hi' Hmem]. exists s'. split; [reflexivity|].
  destruct (c_ok_vals s' _ _ _ _ Hi') as [F1 [F2 [F3 [F4 _]]]].
  split; [eexists _, _, _, _; split; [exact Hbm | split; [exact Hbx | exact Hi']]|].
  split; [rewrite <- F2, <- E2; reflexivity|].
  split; [rewrite <- F1, <- E1, Hsz; reflexivity|].
  split; [rewrite <- F3, <- E3; reflexivity|].
  split; [rewrite <- F4, <- E4; reflexivity|].
  intro a. rewrite Hmem. reflexivity.
Qed.

(* ---- non-vacuity: a concrete state satisfying the hypotheses of the contract (LDA #imm with M = 1, X = 0 at $00:8000);
   the contract then yields a successor state at $00:8002 with the widths unchanged *)
Definition ex_regs (f : N) : Z :=
  if N.eqb f f_PC then 32768 else if N.eqb f f_Interrupt then 1 else if N.eqb f f_M then 1 else 0.
Definition ex_state : st := mkst ex_regs (fun a => if a =? 32768 then 169 else 7) [] (fun _ => false) false.

Lemma fwidth_nonneg : forall f, 0 <= fwidth f.
Proof.
  intro f. unfold fwidth. destruct f as [|p]; [lia|].
  do 7 (try (destruct p as [p|p|]; try lia)).
Qed.

Example ex_c_ok : c_ok ex_state.
Proof.
  exists 32768, 0, 1, 0. split; [right; reflexivity|]. split; [left; reflexivity|]. split; [|constructor].
  intro f. unfold get, ex_state, regs.
  repeat lazymatch goal with |- ovr ?h _ _ _ _ => split; [| destruct (N.eqb_spec f h) as [E|E]; [subst f; vm_compute; auto | exact I]] end.
  unfold Bty. destruct (fwidth f =? 0) eqn:E0; [exact I|].
  unfold ex_regs.
  destruct (N.eqb_spec f f_PC) as [->|_]; [vm_compute; split; [discriminate | reflexivity]|].
  destruct (N.eqb_spec f f_Interrupt) as [->|_]; [vm_compute; split; [discriminate | reflexivity]|].
  destruct (N.eqb_spec f f_M) as [->|_]; [vm_compute; split; [discriminate | reflexivity]|].
  unfold rng. split; [lia|]. apply pow2_pos. apply fwidth_nonneg.
Qed.

Example ex_step : exists s', c_step ex_state = Some s' /\\ c_pc s' = 32770 /\\ c_m s' = 1 /\\ c_x s' = 0.
Proof.
  destruct (c_contract ex_state 169 ex_c_ok eq_refl eq_refl) as [s' [H1 [_ [_ [H2 [H3 [H4 _]]]]]]].
  exists s'. split; [exact H1|]. split; [exact H2|]. split; [exact H3 | exact H4].
Qed.

(* ... and of the branch clause: BNE with Z = 1 at $00:8000 falls through to $00:8002 *)
Definition ex_regs_br (f : N) : Z :=
  if N.eqb f f_PC then 32768 else if N.eqb f f_Interrupt then 1 else if N.eqb f f_M then 1 else if N.eqb f f_Z then 1 else 0.
Definition ex_state_br : st := mkst ex_regs_br (fun a => if a =? 32768 then 208 else 255) [] (fun _ => false) false.

Example ex_c_ok_br : c_ok ex_state_br.
Proof.
  exists 32768, 0, 1, 0. split; [right; reflexivity|]. split; [left; reflexivity|]. split; [|constructor].
  intro f. unfold get, ex_state_br, regs.
  repeat lazymatch goal with |- ovr ?h _ _ _ _ => split; [| destruct (N.eqb_spec f h) as [E|E]; [subst f; vm_compute; auto | exact I]] end.
  unfold Bty. destruct (fwidth f =? 0) eqn:E0; [exact I|].
  unfold ex_regs_br.
  destruct (N.eqb_spec f f_PC) as [->|_]; [vm_compute; split; [discriminate | reflexivity]|].
  destruct (N.eqb_spec f f_Interrupt) as [->|_]; [vm_compute; split; [discriminate | reflexivity]|].
  destruct (N.eqb_spec f f_M) as [->|_]; [vm_compute; split; [discriminate | reflexivity]|].
  destruct (N.eqb_spec f f_Z) as [->|_]; [vm_compute; split; [discriminate | reflexivity]|].
  unfold rng. split; [lia|]. apply pow2_pos. apply fwidth_nonneg.
Qed.

Example ex_step_br : exists s', c_step ex_state_br = Some s' /\\ c_pc s' = 32770 /\\ c_m s' = 1 /\\ c_x s' = 0 /\\ mem s' 32769 = 255.
Proof.
  destruct (c_br_contract cond_branch ex_state_br 208 ex_c_ok_br eq_refl eq_refl eq_refl eq_refl) as [s' [H1 [_ [_ [H2 [H3 [H4 H5]]]]]]].
  exists s'. split; [exact H1|]. split; [exact H2|]. split; [exact H3|]. split; [exact H4|]. rewrite H5. reflexivity.
Qed.

(* C07 for this interpreter: Props/CoupleProps.C07_couple with the abstract CPU instantiated; the program may contain
   the 227 straight-line opcodes and the eight conditional branches, the latter under the run hypothesis [nottaken]
   (whenever Step starts on a conditional branch, its condition is false in that state).
   _partial: relative to the property's wording the block moves MVN / MVP (which repeat their own start), WAI / STP and
   XCE are still outside; so is everything that always transfers control or restores M / X from the stack. *)
Theorem C07_partial_%(mod)s : forall ops e0 b s0,
  straightline cond_branch ops e0 -> buf e0 = Some b -> 0 <= n e0 <= ZList.zlen b ->
  let ef := fst (run ops e0) in
  let bank := address e0 / 65536 in
  0 <= address e0 < 16777216 ->
  address e0 + (n ef - n e0) <= (bank + 1) * 65536 ->
  (forall i, 0 <= i < n ef - n e0 -> mem s0 (address e0 + i) = ZList.znth (Bytes ef) (n e0 + i)) ->
  c_ok s0 -> addr24 (c_rk s0) (c_pc s0) = address e0 -> c_m s0 = mbit e0 -> c_x s0 = xbit e0 ->
  nowrite st c_step wrote (List.length (starts ops e0)) s0 (address e0) (address e0 + (n ef - n e0)) ->
  nottaken st c_step c_pc c_rk mem c_fn c_fv c_fc c_fz cond_branch (List.length (starts ops e0)) s0 ->
  exists sf, fetches st c_step c_pc c_rk (List.length (starts ops e0)) s0 = Some (starts ops e0, sf) /\\
             c_m sf = mbit ef /\\ c_x sf = xbit ef /\\ c_pc sf = address ef mod 65536 /\\ c_rk sf = bank.
Proof. exact (C07_couple st c_step c_ok c_pc c_rk c_m c_x mem wrote c_fn c_fv c_fc c_fz cond_branch c_ranges c_contract (c_br_contract cond_branch) (fun op H => proj2 (move_not_straight op H))). Qed.

(* the same with ANY byte in memory at the position of a label operand (placeholder before / displacement after Finalize) *)
Theorem C07_partial_patched_%(mod)s : forall ops e0 b s0,
  straightline cond_branch ops e0 -> buf e0 = Some b -> 0 <= n e0 <= ZList.zlen b ->
  let ef := fst (run ops e0) in
  let bank := address e0 / 65536 in
  0 <= address e0 < 16777216 ->
  address e0 + (n ef - n e0) <= (bank + 1) * 65536 ->
  (forall i, 0 <= i < n ef - n e0 -> hole ops e0 (n e0 + i) = false -> mem s0 (address e0 + i) = ZList.znth (Bytes ef) (n e0 + i)) ->
  c_ok s0 -> addr24 (c_rk s0) (c_pc s0) = address e0 -> c_m s0 = mbit e0 -> c_x s0 = xbit e0 ->
  nowrite st c_step wrote (List.length (starts ops e0)) s0 (address e0) (address e0 + (n ef - n e0)) ->
  nottaken st c_step c_pc c_rk mem c_fn c_fv c_fc c_fz cond_branch (List.length (starts ops e0)) s0 ->
  exists sf, fetches st c_step c_pc c_rk (List.length (starts ops e0)) s0 = Some (starts ops e0, sf) /\\
             c_m sf = mbit ef /\\ c_x sf = xbit ef /\\ c_pc sf = address ef mod 65536 /\\ c_rk sf = bank.
Proof. exact (C07_couple_patched st c_step c_ok c_pc c_rk c_m c_x mem wrote c_fn c_fv c_fc c_fz cond_branch c_ranges c_contract (c_br_contract cond_branch) (fun op H => proj2 (move_not_straight op H))). Qed.

(* ---- block moves.  The clause: one Step over MVP / MVN keeps the bank and the widths and leaves PC on the instruction
   or advances it by 3; memory changes only where a write is logged *)
Lemma mv_len_b : forallb (fun op => (tbl_size op =? 3) && (tbl_mode op =? 22)) mv_ops = true.
Proof. vm_compute. reflexivity. Qed.
Lemma mv_covered : forall op, move_op op = true -> In op mv_ops.
Proof. intros op H. destruct (move_cases op H) as [->| ->]; vm_compute; auto. Qed.
Definition c_adm (op : Z) : bool := cond_branch op || move_op op.

Theorem c_mv_contract : forall brs, mv_contract st c_step c_ok c_pc c_rk c_m c_x mem wrote brs.
Proof.
  intros brs s op [pc [rk [m [x [Hbm [Hbx Hi]]]]]] _ Hmo Hfetch.
  destruct (c_ok_vals s pc rk m x Hi) as [E1 [E2 [E3 [E4 [R1 R2]]]]].
  pose proof (mv_covered op Hmo) as Hin.
  assert (R1' : 0 <= c_pc s < 65536) by (unfold rng in R1; change (2 ^ 16) with 65536 in R1; exact R1).
  assert (R2' : 0 <= c_rk s < 256) by (unfold rng in R2; change (2 ^ 8) with 256 in R2; exact R2).
  assert (Hf : mem s (w_or (shl32 rk 16) pc) mod 256 = op).
  { rewrite E1, E2. rewrite lor_shl16 by assumption. exact Hfetch. }
  pose proof (C07_mv_%(mod)s op Hin pc rk m x s Hbm Hbx Hi Hf) as Hc.
  assert (Hsz : tbl_size op = 3).
  { pose proof mv_len_b as Hl. rewrite forallb_forall in Hl. specialize (Hl op Hin). apply andb_true_iff in Hl. destruct Hl as [Hl _].
    apply Z.eqb_eq in Hl. exact Hl. }
  unfold c_step. destruct (Step s) as [r s'|]; cbn [safe] in Hc; [|contradiction].
  destruct Hc as [Hi' Hfr]. exists s'. split; [reflexivity|].
  let p := layer_pf Hi' f_PC s' in pose proof p as Hd. cbv beta in Hd.
  assert (Hi2 : Inv (BT (eq (get f_PC s')) TT rk m x TT) s') by (eapply inv_relayer_self; [exact Hi' | self_tac]).
  destruct (c_ok_vals s' _ _ _ _ Hi2) as [_ [F2 [F3 [F4 _]]]].
  split; [eexists _, _, _, _; split; [exact Hbm | split; [exact Hbx | exact Hi2]]|].
  split; [rewrite <- F2, <- E2; reflexivity|].
  split; [rewrite <- F3, <- E3; reflexivity|].
  split; [rewrite <- F4, <- E4; reflexivity|].
  split.
  { unfold c_pc at 1 3. rewrite Hsz in Hd. unfold add16 in Hd. rewrite <- E1.
    destruct Hd as [Hd|Hd]; [left | right]; rewrite Hd; [|reflexivity].
    rewrite Z.add_0_r. apply Z.mod_small. rewrite E1. exact R1'. }
  intro a. apply Frame_mem. exact Hfr.
Qed.

(* non-vacuity, computed on the model: MVN #$00,#$00 at $00:8000 with C = 2 (M = X = 0), NOPs behind it: four Steps fetch at
   $8000 $8000 $8000 $8003 -- the walk [expand [$8000; $8003] [3; 1]] of C07_couple_moves *)
Definition ex_regs_mv (f : N) : Z :=
  if N.eqb f f_PC then 32768 else if N.eqb f f_Interrupt then 1 else if N.eqb f f_RA then 2 else if N.eqb f f_RAl then 2 else 0.
Definition ex_state_mv : st := mkst ex_regs_mv (fun a => if a =? 32768 then 84 else if (a =? 32769) || (a =? 32770) then 0 else 234) [] (fun _ => false) false.
Example ex_fetch_mv : option_map fst (fetches st c_step c_pc c_rk 4 ex_state_mv) = Some [32768; 32768; 32768; 32771].
Proof. vm_compute. reflexivity. Qed.

(* C07 with block moves for this interpreter: Props/CoupleProps.C07_couple_moves instantiated (programs of straight-line
   instructions, conditional branches not taken in the run, MVN / MVP): for every N, the first k <= N steps fetch exactly
   at the instruction starts, in order, a block move as often as it repeats itself; then the program is finished with
   the tracked widths, or the N steps are used up. *)
Theorem C07_moves_%(mod)s : forall ops e0 b s0 N,
  straightline c_adm ops e0 -> buf e0 = Some b -> 0 <= n e0 <= ZList.zlen b ->
  let ef := fst (run ops e0) in
  let bank := address e0 / 65536 in
  0 <= address e0 < 16777216 ->
  address e0 + (n ef - n e0) <= (bank + 1) * 65536 ->
  (forall i, 0 <= i < n ef - n e0 -> hole ops e0 (n e0 + i) = false -> mem s0 (address e0 + i) = ZList.znth (Bytes ef) (n e0 + i)) ->
  c_ok s0 -> addr24 (c_rk s0) (c_pc s0) = address e0 -> c_m s0 = mbit e0 -> c_x s0 = xbit e0 ->
  nowrite st c_step wrote N s0 (address e0) (address e0 + (n ef - n e0)) ->
  nottaken st c_step c_pc c_rk mem c_fn c_fv c_fc c_fz c_adm N s0 ->
  walk st c_step c_ok c_pc c_rk c_m c_x ops e0 ef bank N s0.
Proof. exact (C07_couple_moves st c_step c_ok c_pc c_rk c_m c_x mem wrote c_fn c_fv c_fc c_fz c_adm c_ranges c_contract (c_br_contract c_adm) (c_mv_contract c_adm)). Qed.

(* ... in the form: the fetch addresses with consecutive duplicates removed are the instruction starts *)
Theorem C07_moves_dedup_%(mod)s : forall ops e0 b s0 N,
  straightline c_adm ops e0 -> buf e0 = Some b -> 0 <= n e0 <= ZList.zlen b ->
  let ef := fst (run ops e0) in
  let bank := address e0 / 65536 in
  0 <= address e0 < 16777216 ->
  address e0 + (n ef - n e0) <= (bank + 1) * 65536 ->
  (forall i, 0 <= i < n ef - n e0 -> hole ops e0 (n e0 + i) = false -> mem s0 (address e0 + i) = ZList.znth (Bytes ef) (n e0 + i)) ->
  c_ok s0 -> addr24 (c_rk s0) (c_pc s0) = address e0 -> c_m s0 = mbit e0 -> c_x s0 = xbit e0 ->
  nowrite st c_step wrote N s0 (address e0) (address e0 + (n ef - n e0)) ->
  nottaken st c_step c_pc c_rk mem c_fn c_fv c_fc c_fz c_adm N s0 ->
  exists k j l sf, (k <= N)%%nat /\\ fetches st c_step c_pc c_rk k s0 = Some (l, sf) /\\ dedup l = firstn j (starts ops e0) /\\
    ((dedup l = starts ops e0 /\\ c_m sf = mbit ef /\\ c_x sf = xbit ef /\\ c_pc sf = address ef mod 65536 /\\ c_rk sf = bank) \\/ k = N).
Proof. exact (C07_couple_moves_dedup st c_step c_ok c_pc c_rk c_m c_x mem wrote c_fn c_fv c_fc c_fz c_adm c_ranges c_contract (c_br_contract c_adm) (c_mv_contract c_adm)). Qed.
"""
