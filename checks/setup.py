"""setup_cmd: build everything static, offline: translator, static Coq library (full .vo build)."""
import os
import sys
import vlib


def hygiene_static():
    """Every file of the static library: no Axiom / Parameter / Conjecture / Admitted / admit / Admit Obligations / guard,
    positivity or universe switches; Variable / Hypothesis / Context only inside a Section (discharged at End).  Comments
    (nested) and string literals are stripped first.  -> list of findings"""
    import re
    pat = re.compile(r"^\s*(Axiom|Axioms|Parameter|Parameters|Conjecture|Admitted|Admit Obligations|"
                     r"Unset Guard Checking|Unset Positivity Checking|Unset Universe Checking)\b|\badmit\b|bypass_check")
    ctx = re.compile(r"^\s*(Variable|Variables|Hypothesis|Hypotheses|Context)\b")
    bad = []
    for line in open(os.path.join(vlib.COQ, "_CoqProject")):
        line = line.strip()
        if not line.endswith(".v"):
            continue
        src = open(os.path.join(vlib.COQ, line)).read()
        out, d, i = [], 0, 0
        while i < len(src):
            if src.startswith("(*", i):
                d += 1
                i += 2
                continue
            if src.startswith("*)", i) and d > 0:
                d -= 1
                i += 2
                continue
            if d == 0 or src[i] == "\n":
                out.append(src[i])
            i += 1
        src = re.sub(r'"[^"\n]*"', '""', "".join(out))
        depth = 0
        for k, l in enumerate(src.splitlines()):
            if re.match(r"^\s*(Section|Module Type)\s+\w+", l):
                depth += 1
            elif re.match(r"^\s*End\s+\w+\s*\.", l) and depth > 0:
                depth -= 1
            if pat.search(l) or (depth == 0 and ctx.search(l)):
                bad.append("%s:%d: %s" % (line, k + 1, l.strip()[:120]))
    return bad


def run():
    os.makedirs(vlib.BUILD, exist_ok=True)
    bad = hygiene_static()
    if bad:
        print("static library hygiene: forbidden declarations\n" + "\n".join(bad[:40]))
        return 1
    with vlib.Lock("setup"):
        vlib.build_gen_tool()
        rc, out, dt = vlib.sh(["coq_makefile", "-f", "_CoqProject", "-o", "Makefile"], cwd=vlib.COQ, env=dict(os.environ))
        if rc != 0:
            print(out)
            return 1
        rc, out, dt = vlib.sh(["make", "-j16"], cwd=vlib.COQ, timeout=3 * 3600, env=dict(os.environ))
        print(out[-3000:])
        if rc != 0:
            return 1
        h, err = vlib.build_harness()
        if h is None:
            print(err)
            return 1
        print("setup ok (static Coq library %.0fs)" % dt)
    return 0


# files whose theorems are 2^24-point sweeps / large computations by the VM: coqchk has no VM and would re-run them with
# its lazy machine (out of budget); they are accepted by coqc only (said in DESIGN.md section 7) and passed to coqchk
# as -admit (trusted, not re-checked) when something that is re-checked depends on them
SKIP_COQCHK = {"Props/MapSpecProps.v", "Props/DisasmCore.v"}


def _coqchk_plan():
    import re
    mods = []
    for line in open(os.path.join(vlib.COQ, "_CoqProject")):
        line = line.strip()
        if line.endswith(".v"):
            mods.append(line)
    deps = {}
    for m in mods:
        src = open(os.path.join(vlib.COQ, m)).read()
        d = set()
        for mm in re.finditer(r"From\s+(Lib|Props|Spec|Model|Snapshot)\s+Require\s+(?:Import\s+|Export\s+)?([^.]*)\.", src):
            for name in mm.group(2).split():
                d.add("%s/%s.v" % (mm.group(1), name))
        for mm in re.finditer(r"Require\s+(?:Import\s+)?((?:(?:Lib|Props|Spec|Model|Snapshot)\.\w+\s*)+)\.", src):
            for name in mm.group(1).split():
                d.add(name.replace(".", "/") + ".v")
        deps[m] = d
    required = set()
    for d in deps.values():
        required |= d
    roots = [m for m in mods if m not in required and m not in SKIP_COQCHK]
    return mods, roots


def coqchk():
    """Re-check the compiled static library with the independent checker coqchk and list the axioms it relies on.
    One process per ROOT module (a module no other module imports): coqchk re-checks the root together with everything it
    depends on, so the roots cover the whole library; writes /verif/coqchk_report.txt."""
    mods, roots = _coqchk_plan()
    args = ["-Q", "Lib", "Lib", "-Q", "Props", "Props", "-Q", "Spec", "Spec", "-Q", "Model", "Model", "-Q", "Snapshot", "Snapshot"]
    admit = []
    for m in sorted(SKIP_COQCHK):
        admit += ["-admit", m[:-2].replace("/", ".")]

    def one(m):
        logical = m[:-2].replace("/", ".")
        rc, out, dt = vlib.sh(["coqchk", "-silent", "-o"] + admit + args + [logical], cwd=vlib.COQ, timeout=4 * 3600, env=dict(os.environ))
        return m, rc, dt, out
    res = vlib.parallel([lambda m=m: one(m) for m in roots], workers=14)
    lines = ["coqchk -silent -o over the static library of /verif/coq: %d modules, re-checked through %d root modules (each run re-checks" % (len(mods), len(roots)),
             "the root and everything it depends on, the standard library included)", ""]
    bad = 0
    for m, rc, dt, out in res:
        ax = [l.rstrip() for l in out.splitlines() if l.strip()]
        lines.append("%s: %s (%.0fs)" % (m, "OK" if rc == 0 else ("TIMEOUT" if rc == 124 else "FAILED rc=%d" % rc), dt))
        lines += ["    " + l for l in ax[-25:]]
        if rc not in (0,):
            bad += 1
    lines.append("")
    lines.append("admitted, not re-checked (VM-sized computations, accepted by coqc only): " + ", ".join(sorted(SKIP_COQCHK)))
    open(os.path.join(vlib.ROOT, "coqchk_report.txt"), "w").write("\n".join(lines) + "\n")
    print("\n".join(l for l in lines if not l.startswith("    ")))
    return 1 if bad else 0
