"""setup_cmd: build everything static, offline: translator, static Coq library (full .vo build)."""
import os
import sys
import vlib


def run():
    os.makedirs(vlib.BUILD, exist_ok=True)
    with vlib.Lock("setup"):
        vlib.build_gen_tool()
        rc, out, dt = vlib.sh(["coq_makefile", "-f", "_CoqProject", "-o", "Makefile"], cwd=vlib.COQ, env=dict(os.environ))
        if rc != 0:
            print(out)
            return 1
        rc, out, dt = vlib.sh(["make", "-j16"], cwd=vlib.COQ, timeout=3 * 3600, env=dict(os.environ))
        print(out[-3000:])
        if rc != 0:
            return 1
        h, err = vlib.build_harness()
        if h is None:
            print(err)
            return 1
        print("setup ok (static Coq library %.0fs)" % dt)
    return 0


# files whose theorems are 2^24-point sweeps / large computations by the VM: coqchk has no VM and would re-run them with
# its lazy machine (out of budget); they are accepted by coqc only (said in DESIGN.md section 7)
SKIP_COQCHK = {"Props/MapSpecProps.v", "Props/DisasmCore.v"}


def coqchk():
    """Re-check the compiled static library with the independent checker coqchk and list the axioms it relies on.
    One module per process (16 in parallel), each under a time limit; writes /verif/coqchk_report.txt."""
    mods = []
    for line in open(os.path.join(vlib.COQ, "_CoqProject")):
        line = line.strip()
        if line.endswith(".v") and line not in SKIP_COQCHK:
            mods.append(line)
    args = ["-Q", "Lib", "Lib", "-Q", "Props", "Props", "-Q", "Spec", "Spec", "-Q", "Model", "Model", "-Q", "Snapshot", "Snapshot"]

    def one(m):
        logical = m[:-2].replace("/", ".")
        rc, out, dt = vlib.sh(["coqchk", "-silent", "-o"] + args + [logical], cwd=vlib.COQ, timeout=3600, env=dict(os.environ))
        return m, rc, dt, out
    res = vlib.parallel([lambda m=m: one(m) for m in mods], workers=12)
    lines = ["coqchk -silent -o over the static library of /verif/coq (one module per run, dependencies re-checked with it)", ""]
    bad = 0
    for m, rc, dt, out in res:
        ax = [l.strip() for l in out.splitlines() if l.strip()]
        lines.append("%s: %s (%.0fs)" % (m, "OK" if rc == 0 else ("TIMEOUT" if rc == 124 else "FAILED rc=%d" % rc), dt))
        lines += ["    " + l for l in ax[-25:]]
        if rc not in (0,):
            bad += 1
    lines.append("")
    lines.append("not re-checked (VM-sized computations, accepted by coqc only): " + ", ".join(sorted(SKIP_COQCHK)))
    open(os.path.join(vlib.ROOT, "coqchk_report.txt"), "w").write("\n".join(lines) + "\n")
    print("\n".join(l for l in lines if not l.startswith("    ")))
    return 1 if bad else 0
