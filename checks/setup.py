"""setup_cmd: build everything static, offline: translator, static Coq library (full .vo build)."""
import os
import sys
import vlib


def run():
    os.makedirs(vlib.BUILD, exist_ok=True)
    with vlib.Lock("setup"):
        vlib.build_gen_tool()
        rc, out, dt = vlib.sh(["coq_makefile", "-f", "_CoqProject", "-o", "Makefile"], cwd=vlib.COQ, env=dict(os.environ))
        if rc != 0:
            print(out)
            return 1
        rc, out, dt = vlib.sh(["make", "-j16"], cwd=vlib.COQ, timeout=3 * 3600, env=dict(os.environ))
        print(out[-3000:])
        if rc != 0:
            return 1
        h, err = vlib.build_harness()
        if h is None:
            print(err)
            return 1
        print("setup ok (static Coq library %.0fs)" % dt)
    return 0
