"""Generation of the per-run Coq file that proves the callbacks clause of C12 over one regenerated interpreter model
(engine: coq/Props/CbLib.v):

  * one `quiet_<f>` lemma per translated routine except Step and op_wdm: the routine records only bus events (no callback),
    keeps the registrations and never assigns PPC / PRK;
  * `quiet_tbl_proc`: the same for the routine of every opcode other than $42 (and $42 is the only opcode that dispatches
    to op_wdm: no other routine can reach a callback);
  * exact effects of the opcode fetch (`ex_nRead`, both bus layers), of the operand read of an immediate-mode routine
    (`ex_cmdRead_imm`) and of op_wdm (`ex_op_wdm`);
  * `step_cb_<model>` about Step, `C12_callbacks_<model>` (readable form, uses C08's theorem for the ranges of PPC / PRK),
    `C12_callbacks_run_<model>` (counting along n steps) and a non-vacuity example with a pending IRQ and an OnPC
    registration at the vector target (the case repaired by 47c4f1a)."""
from checks import cpusafe

WDM_OPCODE = 66
STP_OPCODE = 219


def failing_lemma(vfile, out):
    """name of the lemma a coqc error belongs to: '(in proof X)' if Coq says so, else the last Lemma/Theorem/Example
    that starts at or before the reported line"""
    import re
    m = re.search(r"\(in proof (\w+)\)", out)
    if m:
        return m.group(1)
    m = re.search(r'line (\d+), characters', out)
    if not m:
        return ""
    line = int(m.group(1))
    name = ""
    try:
        for i, l in enumerate(open(vfile), 1):
            if i > line:
                break
            mm = re.match(r"(?:Lemma|Theorem|Example|Corollary|Definition) (\w+)", l)
            if mm:
                name = mm.group(1)
    except OSError:
        pass
    return name


def generate(path, mod):
    M = cpusafe.Model(path, mod)
    out = [HEADER % {"mod": mod}]
    lemmas = []
    emitted_tbl = False
    pending_tbl = False
    skip = ("Step", "op_wdm")
    wdm_ops = [k for k, p in enumerate(M.procs) if p == "op_wdm"]
    # the routine(s) dispatched from opcode $DB: the only ones allowed to assign the Stopped field (their lemma is stated
    # with b = false: "Stopped may change"); any OTHER routine that assigns it has no proof (the lemma is generic in b)
    stp_procs = set([M.procs[STP_OPCODE]]) if len(M.procs) > STP_OPCODE else set()

    # routines Step can reach (directly, through the dispatch table, transitively): only these need a lemma; the other
    # entry points (Reset, TriggerIRQ, triggerNMI) have their own theorems in C12_<model>.v
    reach, todo = set(), ["Step"]
    while todo:
        n = todo.pop()
        if n in reach or n not in M.byname:
            continue
        reach.add(n)
        todo += M.callees(M.byname[n])
        if "tbl_proc" in cpusafe.idents(M.byname[n]["body"]):
            todo += list(M.procs)

    def call(f, extra=""):
        alts = []
        for c in M.callees(f):
            if c in skip:
                continue
            alts.append("| |- pres _ (%s%s) => eapply quiet_%s" % (c, " _" * (len(M.byname[c]["params"]) + 1), c))
        if extra:
            alts.append(extra)
        return "fun _ => lazymatch goal with %s end" % " ".join(alts) if alts else "fun _ => fail"

    for f in M.funcs:
        if not f["monadic"]:
            continue
        name = f["name"]
        if "tbl_proc" in cpusafe.idents(f["body"]) and not emitted_tbl:
            pending_tbl = True
            emitted_tbl = True
        if pending_tbl:
            out.append(tbl_lemma(M))
            lemmas.append("quiet_tbl_proc")
            pending_tbl = False
        if name in skip or name not in reach:
            continue
        ps = " ".join(n for n, _ in f["params"])
        callstr = " ".join([name] + [n for n, _ in f["params"]] + ["s"])
        if name in stp_procs:
            out.append("(* dispatched from opcode $DB: may assign Stopped *)\n"
                       "Lemma quiet_%s : forall %s s0 s, fext (Wst false) s0 s -> pres (fun _ s' => fext (Wst false) s0 s') (%s).\n"
                       "Proof. intros %s s0 s Hq; cbv beta delta [%s]; cb_run ltac:(%s). Qed.\n"
                       % (name, ps, callstr, ps, name, call(f)))
        else:
            out.append("Lemma quiet_%s : forall b %s s0 s, fext (Wst b) s0 s -> pres (fun _ s' => fext (Wst b) s0 s') (%s).\n"
                       "Proof. intros b %s s0 s Hq; cbv beta delta [%s]; cb_run ltac:(%s). Qed.\n"
                       % (name, ps, callstr, ps, name, call(f)))
        lemmas.append("quiet_" + name)
    rd = [c for c in ("nRead",) if c in M.byname]
    unf = set(rd)
    for r in rd:
        unf |= set(M.callees(M.byname[r]))
        for c in M.callees(M.byname[r]):
            unf |= set(M.callees(M.byname[c]))
    step = M.byname["Step"]
    step_call = call(step, "| |- pres _ (tbl_proc _ _) => eapply quiet_tbl_proc; [ eassumption | eassumption | ]")
    out.append(EXACT % {"unf": " ".join(sorted(unf)), "mod": mod, "wdm": WDM_OPCODE, "stp": STP_OPCODE})
    lemmas += ["ex_nRead", "ex_cmdRead_imm", "ex_op_wdm", "step_cb_" + mod, "C12_callbacks_" + mod, "C12_callbacks_wdm_" + mod, "C12_callbacks_run_" + mod,
               "C12_step_clause_" + mod, "C12_stop_fetch_" + mod]
    files = {"C12_cbq_%s" % mod: "\n".join(out),
             "C12_cbs_%s" % mod: STEP_HEADER % {"mod": mod} + STEP % {"mod": mod, "call": step_call, "wdm": WDM_OPCODE, "stp": STP_OPCODE},
             "C12_cb_%s" % mod: THM_HEADER % {"mod": mod} + THEOREMS % {"mod": mod, "wdm": WDM_OPCODE, "stp": STP_OPCODE}}
    return files, {"lemmas": lemmas, "wdm_opcodes": wdm_ops, "stp_routines": sorted(stp_procs), "functions": len(M.funcs)}


def tbl_lemma(M):
    lines = ["(* the routine of every opcode other than $42 is quiet; $42 is the only opcode dispatched to op_wdm, the only routine",
             "   that is not (there is no quiet_op_wdm: any other opcode dispatching to it fails here).  With b = true (\"Stopped is",
             "   preserved\") the opcode must not be $DB: the routine of $DB is the only one whose lemma is stated for b = false *)",
             "Lemma quiet_tbl_proc : forall b op s0 s, op <> %d -> (b = true -> op <> %d) -> fext (Wst b) s0 s -> pres (fun _ s' => fext (Wst b) s0 s') (tbl_proc op s)." % (WDM_OPCODE, STP_OPCODE),
             "Proof.",
             "  intros b op s0 s Hne Hb Hq. destruct (Z_lt_le_dec op 256) as [Hl|Hl]; [destruct (Z_lt_le_dec op 0) as [Hn|Hn]|].",
             "  - destruct op; try lia. exact I.",
             "  - revert s Hq Hne Hb. pattern op. apply all_bytes; [|unfold rng; change (2 ^ 8) with 256; lia].",
             "    cbv [upto app Z.of_nat Pos.of_succ_nat Pos.succ]."]
    for k, pname in enumerate(M.procs):
        if pname == "op_wdm":
            lines.append("    apply Forall_cons; [ intros s Hq Hne Hb; exfalso; apply Hne; reflexivity | ].")
        elif k == STP_OPCODE:
            lines.append("    apply Forall_cons; [ intros s Hq Hne Hb; destruct b; [ exfalso; apply (Hb eq_refl); reflexivity | change (tbl_proc %d s) with (%s s); apply quiet_%s; exact Hq ] | ]." % (k, pname, pname))
        else:
            lines.append("    apply Forall_cons; [ intros s Hq Hne Hb; change (tbl_proc %d s) with (%s s); apply quiet_%s; exact Hq | ]." % (k, pname, pname))
    lines += ["    apply Forall_nil.",
              "  - destruct op as [|p|p]; try lia.",
              "    do 8 (destruct p as [p|p|]; [ | | exfalso; lia ]).",
              "    all: exact I.",
              "Qed.\n"]
    return "\n".join(lines)


HEADER = """(* GENERATED per run by checks/cpucb.py: the callbacks clause of C12 over the regenerated model %(mod)s *)
From Coq Require Import ZArith List Bool NArith Lia.
From Lib Require Import ZOps Machine.
From Gen Require Import GenFields %(mod)s.
From Props Require Import SafeLib CpuEqLib CbLib.
Import ListNotations.
Local Open Scope Z_scope.

(* fields a quiet routine may assign: all but the record of where the current opcode was fetched from and - when b = true -
   the Stopped field.  Every routine lemma is generic in b, except the routine of opcode $DB (b = false) *)
Definition Wst (b : bool) (f : N) : bool := negb (N.eqb f f_PPC || N.eqb f f_PRK || (N.eqb f f_Stopped && b)).
"""

STEP_HEADER = """(* GENERATED per run by checks/cpucb.py: the callbacks clause of C12 over the regenerated model %(mod)s: Step *)
From Coq Require Import ZArith List Bool NArith Lia.
From Lib Require Import ZOps Machine.
From Gen Require Import GenFields %(mod)s.
From Props Require Import SafeLib CpuEqLib CbLib.
From Run Require Import C12_cbq_%(mod)s.
Import ListNotations.
Local Open Scope Z_scope.

"""

THM_HEADER = """(* GENERATED per run by checks/cpucb.py: the callbacks clause of C12 over the regenerated model %(mod)s: theorems *)
From Coq Require Import ZArith List Bool NArith Lia.
From Lib Require Import ZOps Machine.
From Gen Require Import GenFields %(mod)s.
From Props Require Import SafeLib CpuEqLib CbLib.
From Run Require Import C12_cbq_%(mod)s C12_cbs_%(mod)s.
From Run Require C08_%(mod)s.
Import ListNotations.
Local Open Scope Z_scope.

"""

EXACT = """(* ---- exact effects ---- *)
(* the bus read behind the opcode fetch: a panic (C08: never), or exactly one read event at bank:addr *)
Lemma ex_nRead : forall bank addr s, exact_read (w_or (shl32 bank 16) addr) s (nRead bank addr s).
Proof.
  intros bank addr s. cbv beta iota zeta delta [%(unf)s bind seg_get seg_nil bus_read mem_read].
  repeat (match goal with |- context [if ?c then _ else _] => destruct c end; cbv beta iota zeta delta [bind]);
  first [ exact I | reflexivity ].
Qed.

Lemma wdm_routine : forall s, tbl_proc %(wdm)d s = op_wdm s.
Proof. reflexivity. Qed.
Lemma wdm_mode : tbl_mode %(wdm)d = 5.
Proof. reflexivity. Qed.

Ltac closed_ifs :=
  repeat match goal with
         | |- context [w_eqb ?a ?b] =>
             let v := eval vm_compute in (w_eqb a b) in
             lazymatch v with true => idtac | false => idtac end;
             change (w_eqb a b) with v
         end;
  cbv beta iota delta [orb].

(* the operand read of a routine in immediate mode (StepInfo.Mode = 5): one read at RK : StepInfo.Addr *)
Lemma ex_cmdRead_imm : forall s, get f_StepInfo_Mode s = 5 ->
  exact_read (w_or (shl32 (get f_RK s) 16) (get f_StepInfo_Addr s)) s (cmdRead s).
Proof.
  intros s Hm. cbv beta zeta delta [cmdRead]. rewrite Hm. closed_ifs.
  pose proof (ex_nRead (get f_RK s) (get f_StepInfo_Addr s) s) as Hx.
  destruct (nRead (get f_RK s) (get f_StepInfo_Addr s) s) as [v s1|]; [|exact I].
  exact Hx.
Qed.

(* WDM: reads its operand, stores it in the WDM field, and calls OnWDM - iff one is registered - with that byte *)
Definition wdm_post (a : Z) (s s' : st) : Prop :=
  exists v, trace s' = (if onwdm s then [EvWDM v] else []) ++ EvR a v :: trace s /\\ get f_WDM s' = v /\\
            onpc s' = onpc s /\\ onwdm s' = onwdm s /\\ get f_PPC s' = get f_PPC s /\\ get f_PRK s' = get f_PRK s /\\
            get f_Stopped s' = get f_Stopped s.

Lemma ex_op_wdm : forall s, get f_StepInfo_Mode s = 5 ->
  pres (fun _ s' => wdm_post (w_or (shl32 (get f_RK s) 16) (get f_StepInfo_Addr s)) s s') (op_wdm s).
Proof.
  intros s Hm. cbv beta delta [op_wdm].
  pose proof (ex_cmdRead_imm s Hm) as Hx.
  destruct (cmdRead s) as [v s1|]; [|exact I]. cbv beta iota delta [exact_read] in Hx. subst s1.
  cbv beta iota zeta delta [bind cb_absent_OnWDM cb_call_OnWDM].
  change (onwdm (set f_WDM v (log (EvR (w_or (shl32 (get f_RK s) 16) (get f_StepInfo_Addr s)) v) s))) with (onwdm s).
  unfold wdm_post. destruct (onwdm s) eqn:Ew; cbv beta iota delta [negb pres]; exists v; gs;
  (split; [reflexivity|]); (split; [reflexivity|]); (split; [reflexivity|]); (split; [simpl; congruence|]); (split; [reflexivity|]); split; reflexivity.
Qed.
"""

STEP = """(* ---- Step ---- *)
Ltac step_call := %(call)s.

(* concrete execution of the rest of Step once the opcode is known to be $42: values are substituted, local join
   points are unfolded where they are applied, conditions that compute are decided, the others split *)
Ltac wdm_run :=
  repeat lazymatch goal with
         | |- pres ?Q (let x := ?e in @?b x) =>
             lazymatch type of e with
             | forall _, _ => let k := fresh "k" in pose (k := e); change (pres Q (b k)); cbv beta
             | _ => change (pres Q (b e)); cbv beta
             end
         | |- pres ?Q (if ?c then ?A else ?B) =>
             let c' := eval vm_compute in c in
             lazymatch c' with
             | true => apply pres_if_true; [ vm_compute; reflexivity | ]
             | false => apply pres_if_false; [ vm_compute; reflexivity | ]
             | _ => case c
             end
         | |- pres _ (bind _ _) => fail
         | |- pres _ (Ok _ _) => fail
         | |- pres _ ?t =>
             let h := cb_head t in is_var h; cbv beta delta [h]
         end.

(* from the OnPC lookup to the end of Step; s0 = the state Step started from, s1 = after the interrupt switch *)
Ltac step_fetch :=
  lazymatch goal with
  | Hq : fext (Wst true) ?s0 ?s1 |- pres (fun _ s' => step_cb _ _ _ _ ?s0 s') (bind (cb_pc ?A ?s1) ?K) =>
      let Q := lazymatch goal with |- pres ?Q _ => Q end in
      change (pres Q (K tt (if onpc s1 A then log (EvPC A) s1 else s1))); cbv beta;
      repeat lazymatch goal with
             | |- pres _ (let x := set ?f ?v ?S in @?b x) => change (pres Q (b (set f v S))); cbv beta
             end;
      lazymatch goal with
      | |- pres _ (bind (nRead ?rk ?pc ?S5) ?K2) =>
          let Hx := fresh "Hx" in let op := fresh "op" in let s6 := fresh "s" in
          pose proof (ex_nRead rk pc S5) as Hx;
          destruct (nRead rk pc S5) as [op s6|]; [ | exact I ];
          cbv beta iota delta [exact_read] in Hx;
          change (pres Q (K2 op s6)); cbv beta;
          let Hf := fresh "Hf" in let Hpc := fresh "Hpc" in let Hrk := fresh "Hrk" in
          assert (Hf : fetched f_PPC f_PRK f_Stopped s0 s6 op)
            by (subst s6; eapply (fetched_intro f_PPC f_PRK f_Stopped (Wst true) s0 s1 _ A); [ exact Hq | reflexivity | | | | | ];
                [ destruct (onpc s1 A); reflexivity | destruct (onpc s1 A); reflexivity
                | destruct (onpc s1 A); reflexivity | gs; reflexivity | unfold fetch_addr; gs; reflexivity ]);
          assert (Hpc : get f_PPC s6 = get f_PC s6) by (subst s6; gs; reflexivity);
          assert (Hrk : get f_PRK s6 = get f_RK s6) by (subst s6; gs; reflexivity);
          clear Hx Hq;
          let Hne := fresh "Hne" in
          destruct (Z.eq_dec op %(wdm)d) as [Hne|Hne];
          [ subst op; wdm_run;
            lazymatch goal with
            | |- pres _ (bind (tbl_proc %(wdm)d ?S) ?K3) =>
                let Hw := fresh "Hw" in let s7 := fresh "s" in let u := fresh "u" in
                change (tbl_proc %(wdm)d S) with (op_wdm S);
                pose proof (ex_op_wdm S eq_refl) as Hw;
                destruct (op_wdm S) as [u s7|]; [ | exact I ];
                change (pres Q (K3 u s7)); cbv beta; wdm_run;
                cbv beta iota delta [pres wdm_post] in Hw |- *;
                let v := fresh "v" in let Et := fresh "Et" in let Ev := fresh "Ev" in let Ep := fresh "Ep" in
                let Ed := fresh "Ed" in let E1 := fresh "E1" in let E2 := fresh "E2" in let E3 := fresh "E3" in
                destruct Hw as (v & Et & Ev & Ep & Ed & E1 & E2 & E3);
                eapply (step_cb_wdm f_PPC f_PRK f_WDM f_Stopped s0 s6 _ v Hf);
                [ unfold fetch_addr; gs; rewrite E1, E2; gs; reflexivity
                | exact Ep | exact Ed
                | unfold operand_addr; gs; rewrite E1, E2; gs; rewrite Hpc, Hrk; exact Et
                | gs; exact Ev
                | gs; rewrite E3; gs; reflexivity ]
            end
          | (* b: "this opcode must leave Stopped alone" = the opcode is not $DB *)
            let b := fresh "b" in let Hb1 := fresh "Hb" in let Hb2 := fresh "Hb" in
            pose (b := negb (op =? %(stp)d));
            assert (Hb1 : b = true -> op <> %(stp)d) by (unfold b; intros Hx Hy; rewrite Hy in Hx; discriminate Hx);
            assert (Hb2 : op <> %(stp)d -> Wst b f_Stopped = false)
              by (unfold b; intro Hx; apply Z.eqb_neq in Hx; rewrite Hx; reflexivity);
            clearbody b;
            eapply pres_weaken;
            [ pose proof (fext_refl (Wst b) s6) as Hq; cb_run ltac:(step_call)
            | let r := fresh "r" in let s' := fresh "s" in let Hs := fresh "Hs" in
              intros r s' Hs; exact (step_cb_quiet f_PPC f_PRK f_WDM f_Stopped (Wst b) s0 s6 op s' eq_refl eq_refl Hb2 Hf Hne Hs) ] ]
      end
  end.

Ltac cb_hook ::= step_fetch.

Lemma step_cb_%(mod)s : forall s, pres (fun _ s' => step_cb f_PPC f_PRK f_WDM f_Stopped s s') (Step s).
Proof. intro s; pose proof (fext_refl (Wst true) s) as Hq; cbv beta delta [Step]; cb_run ltac:(step_call). Qed.

Ltac cb_hook ::= fail.
"""

THEOREMS = """
(* the callbacks clause and, for the SAME fetched opcode, "the Stopped field changes only in a step that fetched $DB":
   step_clause (Props/CbLib.v) = callbacks_clause with, under the same witnesses tA tC opcode v, the conjunct
   (get f_Stopped s' <> get f_Stopped s -> opcode = 219) *)
Theorem C12_step_clause_%(mod)s : forall s, Inv (Bty fwidth) s -> forall r s', Step s = Ok r s' ->
  step_clause f_PPC f_PRK f_WDM f_Stopped s s'.
Proof.
  intros s Hi r s' HS.
  pose proof (step_cb_%(mod)s s) as Hc. pose proof (C08_%(mod)s.C08_step_%(mod)s s Hi) as H8.
  rewrite HS in Hc, H8. cbv beta iota delta [pres safe] in Hc, H8.
  apply step_clause_intro; [ | | exact Hc ].
  - pose proof (inv_bty_get fwidth f_PRK s' 8 H8 eq_refl ltac:(discriminate)) as Hr. exact Hr.
  - pose proof (inv_bty_get fwidth f_PPC s' 16 H8 eq_refl ltac:(discriminate)) as Hr. exact Hr.
Qed.

(* C12 (ii), "and never before", tied to the fetched opcode: a Step that changes the Stopped field fetched - after interrupt
   entry tA and the OnPC callback - the opcode $DB from a = PBR:PC *)
Theorem C12_stop_fetch_%(mod)s : forall s, Inv (Bty fwidth) s -> forall r s', Step s = Ok r s' ->
  let a := get f_PRK s' * 65536 + get f_PPC s' in
  let pc := if onpc s a then [EvPC a] else [] in
  exists tA tC opcode,
    trace s' = tC ++ pc ++ tA ++ trace s /\\ cbs tA = [] /\\ (exists tC', tC = tC' ++ [EvR a opcode]) /\\
    (get f_Stopped s' <> get f_Stopped s -> opcode = %(stp)d).
Proof. intros s Hi r s' HS. exact (step_clause_stop f_PPC f_PRK f_WDM f_Stopped s s' (C12_step_clause_%(mod)s s Hi r s' HS)). Qed.

(* C12, callbacks clause, one Step from ANY state with fields in their Go types (pending interrupts included).
   callbacks_clause (Props/CbLib.v) unfolded:
     onpc s' = onpc s /\\ onwdm s' = onwdm s /\\
     let a  := PRK s' * 65536 + PPC s' in                       (where the opcode of this step was fetched from)
     let a1 := PRK s' * 65536 + (PPC s' + 1) mod 65536 in       (its operand byte, in-bank wrap)
     let pc := if onpc s a then [EvPC a] else [] in
     exists tA tC opcode v, let wdm := if onwdm s && (opcode =? 66) then [EvWDM v] else [] in
       cbs (trace s') = wdm ++ pc ++ cbs (trace s) /\\          (exactly once, for the fetched address only)
       trace s' = tC ++ pc ++ tA ++ trace s /\\ cbs tA = [] /\\  (after interrupt entry, before the fetch)
       (exists tC', tC = tC' ++ [EvR a opcode]) /\\ cbs tC = wdm /\\
       (opcode = 66 -> tC = wdm ++ [EvR a1 v; EvR a opcode] /\\ WDM s' = v)   (OnWDM receives exactly the operand byte) *)
Theorem C12_callbacks_%(mod)s : forall s, Inv (Bty fwidth) s -> forall r s', Step s = Ok r s' ->
  callbacks_clause f_PPC f_PRK f_WDM s s'.
Proof. intros s Hi r s' HS. exact (step_clause_callbacks f_PPC f_PRK f_WDM f_Stopped s s' (C12_step_clause_%(mod)s s Hi r s' HS)). Qed.

(* the same with every definition unfolded: the statement one reads *)
Theorem C12_callbacks_%(mod)s_explicit : forall s, Inv (Bty fwidth) s -> forall r s', Step s = Ok r s' ->
  onpc s' = onpc s /\\ onwdm s' = onwdm s /\\
  let a := get f_PRK s' * 65536 + get f_PPC s' in
  let a1 := get f_PRK s' * 65536 + (get f_PPC s' + 1) mod 65536 in
  let pc := if onpc s a then [EvPC a] else [] in
  exists tA tC opcode v,
    let wdm := if onwdm s && (opcode =? 66) then [EvWDM v] else [] in
    cbs (trace s') = wdm ++ pc ++ cbs (trace s) /\\
    trace s' = tC ++ pc ++ tA ++ trace s /\\ cbs tA = [] /\\
    (exists tC', tC = tC' ++ [EvR a opcode]) /\\ cbs tC = wdm /\\
    (opcode = 66 -> tC = wdm ++ [EvR a1 v; EvR a opcode] /\\ get f_WDM s' = v).
Proof. exact C12_callbacks_%(mod)s. Qed.

(* together with C08: the step does not panic AND satisfies the clause *)
Corollary C12_callbacks_safe_%(mod)s : forall s, Inv (Bty fwidth) s ->
  safe (fun _ s' => callbacks_clause f_PPC f_PRK f_WDM s s' /\\ Inv (Bty fwidth) s') (Step s).
Proof.
  intros s Hi. pose proof (C08_%(mod)s.C08_step_%(mod)s s Hi) as H8. pose proof (C12_callbacks_%(mod)s s Hi) as Hc.
  destruct (Step s) as [r s'|]; [|exact H8]. split; [exact (Hc r s' eq_refl) | exact H8].
Qed.

(* the last sentence of the property as worded: whenever the WDM callback ran in a step (it is then the newest recorded
   event) it received exactly the byte just read from the operand address PBR:PC+1 (in-bank wrap); the WDM field holds it *)
Theorem C12_callbacks_wdm_%(mod)s : forall s, Inv (Bty fwidth) s -> forall r s', Step s = Ok r s' ->
  forall v, hd_error (trace s') = Some (EvWDM v) ->
  exists rest, trace s' = EvWDM v :: EvR (get f_PRK s' * 65536 + (get f_PPC s' + 1) mod 65536) v :: rest /\\ get f_WDM s' = v.
Proof. intros s Hi r s' HS. exact (callbacks_clause_wdm f_PPC f_PRK f_WDM s s' (C12_callbacks_%(mod)s s Hi r s' HS)). Qed.

(* the contract of Props/CbLib.v, section Runs *)
Lemma good_step_%(mod)s : forall s r s', Inv (Bty fwidth) s -> Step s = Ok r s' -> Inv (Bty fwidth) s'.
Proof. intros s r s' Hi HS. pose proof (C08_%(mod)s.C08_step_%(mod)s s Hi) as H8. rewrite HS in H8. exact H8. Qed.
Lemma cb_step_ok_%(mod)s : forall s r s', Inv (Bty fwidth) s -> Step s = Ok r s' -> step_cb f_PPC f_PRK f_WDM f_Stopped s s'.
Proof. intros s r s' _ HS. pose proof (step_cb_%(mod)s s) as Hc. rewrite HS in Hc. exact Hc. Qed.

(* along n steps (l = the states after each step): registrations unchanged, and for every address a the number of
   OnPC callbacks recorded for a grew by the number of steps whose opcode was fetched at a if a callback is registered
   there, and by nothing otherwise *)
Theorem C12_callbacks_run_%(mod)s : forall n s l, Inv (Bty fwidth) s -> states Step n s = Some l ->
  onpc (final s l) = onpc s /\\ onwdm (final s l) = onwdm s /\\ Inv (Bty fwidth) (final s l) /\\
  forall a, count_pc a (trace (final s l)) = count_pc a (trace s) + (if onpc s a then fetched_at f_PPC f_PRK a l else 0).
Proof. exact (run_count Step (Inv (Bty fwidth)) f_PPC f_PRK f_WDM f_Stopped good_step_%(mod)s cb_step_ok_%(mod)s). Qed.

(* [states] agrees with the run function of C08_run / C02_run_eq: it succeeds exactly when [run] does *)
Lemma states_run_%(mod)s : forall n s, (exists l, states Step n s = Some l) <-> (exists rs s', run Step n s = Ok rs s').
Proof.
  induction n as [|n IH]; intro s; simpl.
  - split; intros _; [exists [], s | exists []]; reflexivity.
  - destruct (Step s) as [r s1|]; [|split; intros [? H]; [discriminate H | destruct H as [? H]; discriminate H]].
    specialize (IH s1). destruct (states Step n s1) as [l|]; destruct (run Step n s1) as [rs s2|].
    + split; intros _; [exists (r :: rs), s2 | exists (s1 :: l)]; reflexivity.
    + exfalso. destruct IH as [IH _]. destruct (IH (ex_intro _ l eq_refl)) as (? & ? & H). discriminate H.
    + exfalso. destruct IH as [_ IH]. destruct (IH (ex_intro _ rs (ex_intro _ s2 eq_refl))) as (? & H). discriminate H.
    + split; intros [? H]; [discriminate H | destruct H as [? H]; discriminate H].
Qed.

(* ---- non-vacuity: native mode, an IRQ is pending (Interrupt = 3) at $00:8000, the IRQ vector $00FFEE holds $1234 and an
   OnPC callback is registered at $001234 (and only there).  The step enters the interrupt, THEN consults OnPC at the
   vector target and fetches from there: the theorem's pc is [EvPC $1234] (the case 47c4f1a repaired). *)
Definition ex_regs (f : N) : Z :=
  if N.eqb f f_PC then 32768 else if N.eqb f f_Interrupt then 3 else if N.eqb f f_SP then 511 else if N.eqb f f_M then 1 else 0.
Definition ex_mem (a : Z) : Z := if a =? 65518 then 52 else if a =? 65519 then 18 else if a =? 4660 then %(wdm)d else 7.
Definition ex_state : st := mkst ex_regs ex_mem [] (fun a => a =? 4660) true.

Lemma fwidth_nonneg : forall f, 0 <= fwidth f.
Proof.
  intro f. unfold fwidth. destruct f as [|p]; [lia|].
  do 7 (try (destruct p as [p|p|]; try lia)).
Qed.

Example ex_good : Inv (Bty fwidth) ex_state.
Proof.
  split; [|constructor]. intro f. unfold get, ex_state, regs, Bty. destruct (fwidth f =? 0) eqn:E0; [exact I|].
  unfold ex_regs.
  destruct (N.eqb_spec f f_PC) as [->|_]; [vm_compute; split; [discriminate | reflexivity]|].
  destruct (N.eqb_spec f f_Interrupt) as [->|_]; [vm_compute; split; [discriminate | reflexivity]|].
  destruct (N.eqb_spec f f_SP) as [->|_]; [vm_compute; split; [discriminate | reflexivity]|].
  destruct (N.eqb_spec f f_M) as [->|_]; [vm_compute; split; [discriminate | reflexivity]|].
  unfold rng. split; [lia|]. apply pow2_pos. apply fwidth_nonneg.
Qed.

Definition ex_obs : option (Z * Z * list ev) :=
  match Step ex_state with
  | Ok _ s' => Some (get f_PRK s' * 65536 + get f_PPC s', get f_WDM s', trace s')
  | Panic => None
  end.
(* newest first: OnWDM(7), operand read at $1235, opcode fetch at $1234, OnPC($1234), vector read, three pushes *)
Example ex_step : exists pushes, ex_obs =
  Some (4660, 7, EvWDM 7 :: EvR 4661 7 :: EvR 4660 %(wdm)d :: EvPC 4660 :: EvR 65519 18 :: EvR 65518 52 :: pushes)
  /\\ cbs pushes = [] /\\ onpc ex_state 4660 = true /\\ onpc ex_state 32768 = false.
Proof. eexists. split; [vm_compute; reflexivity|]. split; [reflexivity|]. split; reflexivity. Qed.

Definition C12_callbacks_all_%(mod)s := (C12_step_clause_%(mod)s, C12_stop_fetch_%(mod)s, C12_callbacks_%(mod)s, C12_callbacks_%(mod)s_explicit, C12_callbacks_safe_%(mod)s, C12_callbacks_wdm_%(mod)s, C12_callbacks_run_%(mod)s, ex_good, ex_step).
Print Assumptions C12_callbacks_all_%(mod)s.
"""


# per-run file C12_stop.v: "never before" tied to the fetched opcode (one Step) and over histories, both models
STOP_V = """(* GENERATED per run by checks/cpucb.py: C12 (ii) "and never before", tied to the FETCHED OPCODE, over both regenerated models *)
From Coq Require Import ZArith List Bool NArith.
From Lib Require Import ZOps Machine.
From Gen Require Import GenFields.
From Gen Require GenCpu65 GenCpuAlt.
From Props Require Import SafeLib CbLib StopProps.
From Run Require C12_GenCpu65 C12_GenCpuAlt C12_cb_GenCpu65 C12_cb_GenCpuAlt.
Import ListNotations.
Local Open Scope Z_scope.

(* the interpreters' entry points as the partial functions of Props/StopProps.v (same definitions as in C12_run.v, repeated
   here so that the two files compile in parallel) *)
Definition ostep (f : st -> res (Z * bool)) (s : st) : option (bool * st) :=
  match f s with Ok (_, b) s' => Some (b, s') | Panic => None end.
Definition ocall (f : st -> res unit) (s : st) : option st :=
  match f s with Ok _ s' => Some s' | Panic => None end.
Definition stoppedb (s : st) : bool := z2b (get f_Stopped s).

(* "the Step issued at s fetches opcode $DB": it does not panic and its trace is  tC' ++ [EvR a 219] ++ pc ++ tA ++ trace s
   with a = PBR:PC of the fetch, pc the OnPC callback iff registered at a, tA the interrupt entry (no callback) *)
Definition fetches_stp (Step : st -> res (Z * bool)) (s : st) : Prop :=
  match Step s with
  | Ok _ s' =>
      let a := get f_PRK s' * 65536 + get f_PPC s' in
      exists tA tC', trace s' = (tC' ++ [EvR a %(stp)d]) ++ (if onpc s a then [EvPC a] else []) ++ tA ++ trace s /\\ cbs tA = []
  | Panic => False
  end.

Section OneModel.
  Variables (Step : st -> res (Z * bool)) (Reset TriggerIRQ triggerNMI : st -> res unit).
  Hypothesis Hstep : forall s, Inv (Bty fwidth) s ->
    safe (fun r s' => (exists c, r = (c, z2b (get f_Stopped s')) /\\ 1 <= c <= 255 /\\
                       get f_AllCycles s' = add64 (get f_AllCycles s) c /\\
                       (get f_Stopped s' = get f_Stopped s \\/ get f_Stopped s' = 1)) /\\ Inv (Bty fwidth) s') (Step s).
  Hypothesis Hreset : forall s, Inv (Bty fwidth) s -> safe (fun _ s' => get f_Stopped s' = 0 /\\ Inv (Bty fwidth) s') (Reset s).
  Hypothesis Hirq : forall s, Inv (Bty fwidth) s -> safe (fun _ s' => get f_Stopped s' = get f_Stopped s /\\ Inv (Bty fwidth) s') (TriggerIRQ s).
  Hypothesis Hnmi : forall s, Inv (Bty fwidth) s -> safe (fun _ s' => get f_Stopped s' = get f_Stopped s /\\ Inv (Bty fwidth) s') (triggerNMI s).
  Hypothesis Hfetch : forall s, Inv (Bty fwidth) s -> forall r s', Step s = Ok r s' ->
    let a := get f_PRK s' * 65536 + get f_PPC s' in
    let pc := if onpc s a then [EvPC a] else [] in
    exists tA tC opcode,
      trace s' = tC ++ pc ++ tA ++ trace s /\\ cbs tA = [] /\\ (exists tC', tC = tC' ++ [EvR a opcode]) /\\
      (get f_Stopped s' <> get f_Stopped s -> opcode = %(stp)d).

  Lemma c_step : forall s, Inv (Bty fwidth) s ->
    exists b s', ostep Step s = Some (b, s') /\\ Inv (Bty fwidth) s' /\\ b = stoppedb s' /\\ (stoppedb s' = stoppedb s \\/ stoppedb s' = true).
  Proof.
    intros s H. pose proof (Hstep s H) as HS. unfold ostep. destruct (Step s) as [[n b] s'|]; simpl in HS; [|contradiction].
    destruct HS as [(c & Hr & _ & _ & Hs) Hi]. inversion Hr; subst. exists (z2b (get f_Stopped s')), s'.
    split; [reflexivity|]. split; [exact Hi|]. split; [reflexivity|]. unfold stoppedb.
    destruct Hs as [Hs|Hs]; rewrite Hs; [left | right]; reflexivity.
  Qed.
  Lemma c_reset : forall s, Inv (Bty fwidth) s -> exists s', ocall Reset s = Some s' /\\ Inv (Bty fwidth) s' /\\ stoppedb s' = false.
  Proof.
    intros s H. pose proof (Hreset s H) as HS. unfold ocall. destruct (Reset s) as [u s'|]; simpl in HS; [|contradiction].
    destruct HS as [Hs Hi]. exists s'. split; [reflexivity|]. split; [exact Hi|]. unfold stoppedb. rewrite Hs. reflexivity.
  Qed.
  Lemma c_keep (f : st -> res unit) : (forall s, Inv (Bty fwidth) s -> safe (fun _ s' => get f_Stopped s' = get f_Stopped s /\\ Inv (Bty fwidth) s') (f s)) ->
    forall s, Inv (Bty fwidth) s -> exists s', ocall f s = Some s' /\\ Inv (Bty fwidth) s' /\\ stoppedb s' = stoppedb s.
  Proof.
    intros Hf s H. pose proof (Hf s H) as HS. unfold ocall. destruct (f s) as [u s'|]; simpl in HS; [|contradiction].
    destruct HS as [Hs Hi]. exists s'. split; [reflexivity|]. split; [exact Hi|]. unfold stoppedb. rewrite Hs. reflexivity.
  Qed.

  (* one Step: the Stopped field changes only when the fetched opcode is $DB, and then to 1 *)
  Theorem stop_only_stp : forall s, Inv (Bty fwidth) s -> forall r s', Step s = Ok r s' ->
    let a := get f_PRK s' * 65536 + get f_PPC s' in
    let pc := if onpc s a then [EvPC a] else [] in
    exists tA tC opcode,
      trace s' = tC ++ pc ++ tA ++ trace s /\\ cbs tA = [] /\\ (exists tC', tC = tC' ++ [EvR a opcode]) /\\
      (get f_Stopped s' <> get f_Stopped s -> opcode = %(stp)d /\\ get f_Stopped s' = 1).
  Proof.
    intros s Hi r s' HS. destruct (Hfetch s Hi r s' HS) as (tA & tC & o & E & CA & EC & H).
    exists tA, tC, o. split; [exact E|]. split; [exact CA|]. split; [exact EC|].
    intro Hne. split; [exact (H Hne)|].
    pose proof (Hstep s Hi) as H12. rewrite HS in H12. cbv beta iota delta [safe] in H12.
    destruct H12 as [(c & _ & _ & _ & [Hs|Hs]) _]; [contradiction | exact Hs].
  Qed.

  (* the contract clause of Props/StopProps.v *)
  Lemma c_stp : forall s b s', Inv (Bty fwidth) s -> ostep Step s = Some (b, s') -> stoppedb s' <> stoppedb s -> fetches_stp Step s.
  Proof.
    intros s b s' Hi E Hne. unfold ostep in E. unfold fetches_stp.
    destruct (Step s) as [[n b0] s1|] eqn:HS; [|discriminate E]. inversion E; subst b0 s1.
    destruct (Hfetch s Hi (n, b) s' HS) as (tA & tC & o & Et & CA & [tC' EC] & H).
    assert (Ho : o = %(stp)d) by (apply H; intro Hx; apply Hne; unfold stoppedb; rewrite Hx; reflexivity).
    subst o. exists tA, tC'. rewrite <- EC. split; [exact Et | exact CA].
  Qed.

  Notation HRUN := (hrun st (ostep Step) (ocall Reset) (ocall TriggerIRQ) (ocall triggerNMI)).
  Notation NOSTP := (no_stp st (ostep Step) (ocall Reset) (ocall TriggerIRQ) (ocall triggerNMI) (fetches_stp Step)).

  (* histories: from a state that is not stopped, as long as no Step of the history fetches $DB every Step reports false *)
  Theorem stop_never_before_inst : forall h s, Inv (Bty fwidth) s -> stoppedb s = false -> NOSTP h s ->
    exists os sf, HRUN h s = Some (os, sf) /\\ Inv (Bty fwidth) sf /\\ stoppedb sf = false /\\ all_false os.
  Proof.
    exact (stop_never_before st _ _ _ _ stoppedb (Inv (Bty fwidth)) c_step c_reset
             (c_keep TriggerIRQ Hirq) (c_keep triggerNMI Hnmi) (fetches_stp Step) c_stp).
  Qed.

  (* ... and, whatever happened before, after a Reset *)
  Theorem stop_never_before_since_reset_inst : forall h1 h2 s, Inv (Bty fwidth) s ->
    exists o1 s1, HRUN (h1 ++ [CReset]) s = Some (o1, s1) /\\ Inv (Bty fwidth) s1 /\\
      (NOSTP h2 s1 -> exists o2 sf, HRUN h2 s1 = Some (o2, sf) /\\ Inv (Bty fwidth) sf /\\ stoppedb sf = false /\\ all_false o2).
  Proof.
    exact (stop_never_before_since_reset st _ _ _ _ stoppedb (Inv (Bty fwidth)) c_step c_reset
             (c_keep TriggerIRQ Hirq) (c_keep triggerNMI Hnmi) (fetches_stp Step) c_stp).
  Qed.
End OneModel.

Theorem C12_stop_only_stp_GenCpu65 : forall s, Inv (Bty fwidth) s -> forall r s', GenCpu65.Step s = Ok r s' ->
  let a := get f_PRK s' * 65536 + get f_PPC s' in
  let pc := if onpc s a then [EvPC a] else [] in
  exists tA tC opcode,
    trace s' = tC ++ pc ++ tA ++ trace s /\\ cbs tA = [] /\\ (exists tC', tC = tC' ++ [EvR a opcode]) /\\
    (get f_Stopped s' <> get f_Stopped s -> opcode = %(stp)d /\\ get f_Stopped s' = 1).
Proof. exact (stop_only_stp GenCpu65.Step C12_GenCpu65.C12_step_GenCpu65 C12_cb_GenCpu65.C12_stop_fetch_GenCpu65). Qed.

Theorem C12_stop_only_stp_GenCpuAlt : forall s, Inv (Bty fwidth) s -> forall r s', GenCpuAlt.Step s = Ok r s' ->
  let a := get f_PRK s' * 65536 + get f_PPC s' in
  let pc := if onpc s a then [EvPC a] else [] in
  exists tA tC opcode,
    trace s' = tC ++ pc ++ tA ++ trace s /\\ cbs tA = [] /\\ (exists tC', tC = tC' ++ [EvR a opcode]) /\\
    (get f_Stopped s' <> get f_Stopped s -> opcode = %(stp)d /\\ get f_Stopped s' = 1).
Proof. exact (stop_only_stp GenCpuAlt.Step C12_GenCpuAlt.C12_step_GenCpuAlt C12_cb_GenCpuAlt.C12_stop_fetch_GenCpuAlt). Qed.

Theorem C12_stop_never_before_GenCpu65 : forall h s, Inv (Bty fwidth) s -> stoppedb s = false ->
  no_stp st (ostep GenCpu65.Step) (ocall GenCpu65.Reset) (ocall GenCpu65.TriggerIRQ) (ocall GenCpu65.triggerNMI) (fetches_stp GenCpu65.Step) h s ->
  exists os sf, hrun st (ostep GenCpu65.Step) (ocall GenCpu65.Reset) (ocall GenCpu65.TriggerIRQ) (ocall GenCpu65.triggerNMI) h s = Some (os, sf) /\\
                Inv (Bty fwidth) sf /\\ stoppedb sf = false /\\ all_false os.
Proof.
  exact (stop_never_before_inst _ _ _ _ C12_GenCpu65.C12_step_GenCpu65 C12_GenCpu65.C12_reset_GenCpu65 C12_GenCpu65.C12_irq_GenCpu65
           C12_GenCpu65.C12_nmi_GenCpu65 C12_cb_GenCpu65.C12_stop_fetch_GenCpu65).
Qed.
Theorem C12_stop_never_before_GenCpuAlt : forall h s, Inv (Bty fwidth) s -> stoppedb s = false ->
  no_stp st (ostep GenCpuAlt.Step) (ocall GenCpuAlt.Reset) (ocall GenCpuAlt.TriggerIRQ) (ocall GenCpuAlt.triggerNMI) (fetches_stp GenCpuAlt.Step) h s ->
  exists os sf, hrun st (ostep GenCpuAlt.Step) (ocall GenCpuAlt.Reset) (ocall GenCpuAlt.TriggerIRQ) (ocall GenCpuAlt.triggerNMI) h s = Some (os, sf) /\\
                Inv (Bty fwidth) sf /\\ stoppedb sf = false /\\ all_false os.
Proof.
  exact (stop_never_before_inst _ _ _ _ C12_GenCpuAlt.C12_step_GenCpuAlt C12_GenCpuAlt.C12_reset_GenCpuAlt C12_GenCpuAlt.C12_irq_GenCpuAlt
           C12_GenCpuAlt.C12_nmi_GenCpuAlt C12_cb_GenCpuAlt.C12_stop_fetch_GenCpuAlt).
Qed.
Definition C12_stop_never_before_since_reset_GenCpu65 := stop_never_before_since_reset_inst _ _ _ _ C12_GenCpu65.C12_step_GenCpu65 C12_GenCpu65.C12_reset_GenCpu65
  C12_GenCpu65.C12_irq_GenCpu65 C12_GenCpu65.C12_nmi_GenCpu65 C12_cb_GenCpu65.C12_stop_fetch_GenCpu65.
Definition C12_stop_never_before_since_reset_GenCpuAlt := stop_never_before_since_reset_inst _ _ _ _ C12_GenCpuAlt.C12_step_GenCpuAlt C12_GenCpuAlt.C12_reset_GenCpuAlt
  C12_GenCpuAlt.C12_irq_GenCpuAlt C12_GenCpuAlt.C12_nmi_GenCpuAlt C12_cb_GenCpuAlt.C12_stop_fetch_GenCpuAlt.

(* non-vacuity: the state of C12_cb's example with the opcode at the IRQ target replaced by $DB: the Step enters the
   interrupt, fetches $DB at $001234, sets Stopped; a state whose next opcode is not $DB satisfies no_stp for [CStep] *)
Definition ex_stp_state : st :=
  mkst C12_cb_GenCpu65.ex_regs (fun a => if a =? 4660 then %(stp)d else C12_cb_GenCpu65.ex_mem a) [] (fun a => a =? 4660) true.
Definition ex_stp_obs : option (bool * Z * Z * list ev) :=
  match GenCpu65.Step ex_stp_state with
  | Ok (_, b) s' => Some (b, get f_Stopped ex_stp_state, get f_Stopped s', firstn 2 (trace s'))
  | Panic => None
  end.
(* reported flag, Stopped before, Stopped after, the two newest events: the fetch of $DB at $001234 after OnPC($001234) *)
Example ex_stp : ex_stp_obs = Some (true, 0, 1, [EvR 4660 %(stp)d; EvPC 4660]).
Proof. vm_compute. reflexivity. Qed.

Definition C12_stop_all := (C12_stop_only_stp_GenCpu65, C12_stop_only_stp_GenCpuAlt, C12_stop_never_before_GenCpu65, C12_stop_never_before_GenCpuAlt,
                            C12_stop_never_before_since_reset_GenCpu65, C12_stop_never_before_since_reset_GenCpuAlt, ex_stp).
Print Assumptions C12_stop_all.
""" % {"stp": STP_OPCODE}
