"""C09: ROM header parse/write round trip, fields at documented offsets, version detection, locality.

Obligations per run
  1. translate header.go's `Header` into Gen/GenHeader.v (flattened layout: path, size, rom tag)
  2. Lemma gen_layout_ok : layout_ok GenHeader.layout = true   (vm_compute: sizes, total 80, every rom tag =
     $FFB0 + cumulative offset, documented SNES map, cut at 16, one-byte fields at $FFD4/$FFDA)
  3. the C09 theorems (static, Props/HeaderProps.v + Props/LayoutProps.v) instantiated by `exact` on
     GenHeader.layout, Print Assumptions each
  4. tie: layout seen by Go reflection = GenHeader.layout; the real ReadHeader/WriteHeader/NewROM/ROM.WriteHeader
     agree with Model/Header.v on every generated case (Coq-checked: Lemma tie : bad = [])
  5. falsifier: the property stated on the real code (harness hdrcheck), every run
"""
import os
import re
import vlib

# NOTE: vlib.dep_hash only follows `From X Require Import Y.` lines, so GenHeader must be *imported* for the
# per-run cache to see a regenerated layout; it is imported BEFORE Model.Layout so that the unqualified name
# `layout` stays the type Layout.layout -- the generated data is always written GenHeader.layout.
IMPORTS = """From Coq Require Import ZArith String List Bool.
From Gen Require Import GenHeader.
From Lib Require Import ZList.
From Spec Require Import HeaderSpec.
From Model Require Import Layout Header.
"""

LAYOUT_V = IMPORTS + """Import ListNotations.
Local Open Scope Z_scope.
Set Printing Depth 1000.
Set Printing Width 200.

Definition L : layout := untag GenHeader.layout.
(* (sizes positive, total size, rom tags = $FFB0 + offset, documented map, cut at 16, byte field at $24, byte field at $2A) *)
Definition diag := Eval vm_compute in
  (sizes_pos L, size L, tags_ok GenHeader.layout hdr_base, spec_ok L, aligned L ext_size,
   byte_field_at L off_title_last, byte_field_at L off_old_maker).
Print diag.
(* documented entries whose field sits elsewhere / has another size: (path, documented address, size, actual address, actual size) *)
Definition spec_mismatch := Eval vm_compute in
  flat_map (fun d => match d with (name, addr, k) =>
     match find_field L name 0 with
     | Some (o, k') => if (hdr_base + o =? addr) && (k' =? k) then [] else [(name, addr, k, hdr_base + o, k')]
     | None => [] end end) documented.
Print spec_mismatch.
(* tagged fields whose rom tag is not $FFB0 + cumulative offset: (path, tag, actual address) *)
Definition tag_mismatch := Eval vm_compute in
  flat_map (fun j => match nth_error GenHeader.layout j with
     | Some (name, _, Some t) => if t =? hdr_base + offset L j then [] else [(name, t, hdr_base + offset L j)]
     | _ => [] end) (seq 0 (length L)).
Print tag_mismatch.
Definition addresses := Eval vm_compute in
  map (fun j => (fst (nth j L (EmptyString, 0)), hdr_base + offset L j, nth_size L j)) (seq 0 (length L)).
Print addresses.
Lemma gen_layout_ok : layout_ok GenHeader.layout = true.
Proof. vm_compute. reflexivity. Qed.
"""

THEOREMS = [
    ("C09_parse_total",
     "forall bs, bytes_ok bs -> zlen bs = 80 ->\n  exists h, read_header L bs = Some h /\\ length (hvals h) = length L /\\ in_range L (hvals h) = true /\\\n"
     "            (hver h = 1 \\/ hver h = 2 \\/ hver h = 3)",
     "parse_total GenHeader.layout gen_layout_ok"),
    ("C09_version",
     "forall bs h, zlen bs = 80 -> read_header L bs = Some h ->\n  (hver h = 3 <-> znth bs 42 = 51) /\\\n  (hver h = 2 <-> znth bs 42 <> 51 /\\ znth bs 36 = 0) /\\\n"
     "  (hver h = 1 <-> znth bs 42 <> 51 /\\ znth bs 36 <> 0) /\\\n  (hver h = 1 -> forall j, offset L j < 16 -> nth j (hvals h) 0 = 0)",
     "version_spec GenHeader.layout gen_layout_ok"),
    ("C09_fields_at_offsets",
     "forall bs h j, zlen bs = 80 -> read_header L bs = Some h -> (j < length L)%nat ->\n  2 <= hver h \\/ 16 <= offset L j ->\n"
     "  nth j (hvals h) 0 = le_dec (slice bs (offset L j) (offset L j + nth_size L j))",
     "fields_at_offsets GenHeader.layout gen_layout_ok"),
    ("C09_tag_is_address",
     "forall j n k a, nth_error GenHeader.layout j = Some (n, k, Some a) ->\n  a = hdr_base + offset L j /\\ nth_size L j = k /\\ 0 < k",
     "tagged_field_address GenHeader.layout gen_layout_ok"),
    ("C09_tagged_field_value",
     "forall bs h j n k a, zlen bs = 80 -> read_header L bs = Some h ->\n  nth_error GenHeader.layout j = Some (n, k, Some a) -> 2 <= hver h \\/ hdr_base + 16 <= a ->\n"
     "  nth j (hvals h) 0 = le_dec (slice bs (a - hdr_base) (a - hdr_base + k))",
     "tagged_field_value GenHeader.layout gen_layout_ok"),
    ("C09_documented_address",
     "forall name addr k o k', In (name, addr, k) documented -> find_field L name 0 = Some (o, k') ->\n"
     "  exists j f, nth_error L j = Some f /\\ fname f = name /\\ addr = hdr_base + offset L j /\\ nth_size L j = k",
     "documented_field_address GenHeader.layout gen_layout_ok"),
    ("C09_serialise_parse",
     "forall bs h, bytes_ok bs -> zlen bs = 80 -> read_header L bs = Some h ->\n"
     "  zlen (write_header L h) = 80 /\\ bytes_ok (write_header L h) /\\ read_header L (write_header L h) = Some h /\\\n"
     "  (2 <= hver h -> write_header L h = bs) /\\ (hver h = 1 -> write_header L h = repeat 0 16 ++ zdrop 16 bs)",
     "serialise_parse GenHeader.layout gen_layout_ok"),
    ("C09_rom_roundtrip",
     "forall img off, bytes_ok img -> 0 <= off -> off + 80 <= zlen img ->\n"
     "  exists h, rom_read_header L img off = HOk (Some h) /\\ rom_write_header L img off h = HOk img",
     "rom_roundtrip GenHeader.layout gen_layout_ok"),
    ("C09_new_rom_roundtrip",
     "forall img, bytes_ok img -> 32768 <= zlen img ->\n"
     "  exists h, new_rom L img = Some (HOk (Some h)) /\\ rom_write_header L img rom_header_offset h = HOk img",
     "new_rom_roundtrip GenHeader.layout gen_layout_ok"),
    ("C09_write_read",
     "forall img off h, 0 <= off -> off + 80 <= zlen img -> 2 <= hver h -> in_range L (hvals h) = true ->\n"
     "  exists img', rom_write_header L img off h = HOk img' /\\ rom_read_header L img' off = HOk (read_header L (write_header L h))",
     "write_read GenHeader.layout gen_layout_ok"),
    ("C09_locality_reported",
     "forall bs i b h h', zlen bs = 80 -> 0 <= i < 80 -> b <> znth bs i ->\n  read_header L bs = Some h -> read_header L (upd bs i b) = Some h' ->\n"
     "  exists j, field_of L i = Some j /\\\n    (i <> 36 -> i <> 42 -> hver h' = hver h) /\\\n"
     "    (2 <= hver h -> 2 <= hver h' -> diff_exactly j (hvals h) (hvals h')) /\\\n"
     "    (hver h = 1 -> hver h' = 1 -> if i <? 16 then hvals h = hvals h' else diff_exactly j (hvals h) (hvals h')) /\\\n"
     "    (hver h <> hver h' -> (hver h = 1 \\/ hver h' = 1) ->\n"
     "       nth j (hvals h) 0 <> nth j (hvals h') 0 /\\\n"
     "       forall j', j' <> j -> 16 <= offset L j' -> nth j' (hvals h) 0 = nth j' (hvals h') 0)",
     "header_locality GenHeader.layout gen_layout_ok"),
]

GENERIC = [  # proved for EVERY layout (Props/LayoutProps.v, write_frame); K is universally quantified, L = untag GenHeader.layout
    ("C09_write_frame",
     "forall img off h img', rom_write_header L img off h = HOk img' ->\n  zlen img' = zlen img /\\ (forall k, k < off \\/ off + 80 <= k -> znth img' k = znth img k) /\\\n"
     "  (hver h <= 1 -> forall k, k < off + 16 -> znth img' k = znth img k)",
     "write_frame L"),
    ("C09_locality_raw",
     "forall bs i b vs vs', 0 <= i < zlen bs -> b <> znth bs i ->\n  decode L bs = Some vs -> decode L (upd bs i b) = Some vs' ->\n"
     "  match field_of L i with Some j => diff_exactly j vs vs' | None => vs = vs' end",
     "decode_locality_upd L"),
    ("C09_codec_encode_decode",
     "forall (K : layout) bs vs, bytes_ok bs -> zlen bs = size K -> decode K bs = Some vs -> encode K vs = bs",
     "encode_decode"),
    ("C09_codec_decode_encode",
     "forall (K : layout) vs, in_range K vs = true -> decode K (encode K vs) = Some vs",
     "decode_encode"),
    ("C09_codec_total",
     "forall (K : layout) bs, decode K bs = None <-> zlen bs < size K",
     "decode_total"),
    ("C09_codec_locality",
     "forall (K : layout) pre x y post vs vs', x <> y ->\n  decode K (pre ++ x :: post) = Some vs -> decode K (pre ++ y :: post) = Some vs' ->\n"
     "  match field_of K (zlen pre) with Some j => diff_exactly j vs vs' | None => vs = vs' end",
     "decode_locality"),
]


def generic_v():
    s = IMPORTS + "From Props Require Import LayoutProps HeaderProps.\nImport ListNotations.\nLocal Open Scope Z_scope.\n\n"
    s += "(* the part of C09 that holds for EVERY layout (no hypothesis on header.go's struct at all) *)\n"
    s += "Definition L : layout := untag GenHeader.layout.\n"
    for (name, stmt, proof) in GENERIC:
        s += "Theorem %s :\n  %s.\nProof. exact (%s). Qed.\n" % (name, stmt, proof)
    for (name, _, _) in GENERIC:
        s += "Print Assumptions %s.\n" % name
    return s


def props_v():
    s = IMPORTS + "From Props Require Import LayoutProps HeaderProps.\nFrom Run Require Import C09_layout.\n"
    s += "Import ListNotations.\nLocal Open Scope Z_scope.\n\n"
    s += "(* C09 on the layout regenerated from header.go on this run; L = untag GenHeader.layout *)\n"
    for (name, stmt, proof) in THEOREMS:
        s += "Theorem %s :\n  %s.\nProof. exact (%s). Qed.\n" % (name, stmt, proof)
    s += "\n(* non-vacuity on the regenerated layout: a version-1 header with non-zero extension bytes *)\n"
    s += ("Example C09_nonvacuous : match read_header L (ziota 1 80) with Some h => hver h = 1 /\\ nth 0 (hvals h) 0 = 0 | None => False end.\n"
          "Proof. vm_compute. split; reflexivity. Qed.\n"
          "Example C09_nonvacuous_v3 : match read_header L (upd (ziota 1 80) 42 51) with Some h => hver h = 3 /\\ nth 0 (hvals h) 0 <> 0 | None => False end.\n"
          "Proof. vm_compute. split; [reflexivity|discriminate]. Qed.\n")
    for (name, _, _) in THEOREMS:
        s += "Print Assumptions %s.\n" % name
    return s


def zlist(xs):
    return "[" + "; ".join(str(x) for x in xs) + "]"


def hexl(h):
    if h == "-":
        return []
    return list(bytes.fromhex(h))


def numl(s):
    if s == "-":
        return []
    return [int(x) for x in s.split(",")]


RD = {"S": 0, "P": 1, "E": 2, "K": 3, "-": 9}


def case_term(line):
    """One harness line -> (feature, input key, Gallina term)."""
    p = line.split()
    kind, feat = p[0], p[1]
    if kind == "H":
        bs, err, ver, fields, ser = p[2], p[3], p[4], p[5], p[6]
        return feat, "H" + bs, "CH %s %s %s %s %s" % (zlist(hexl(bs)), "true" if err == "1" else "false", ver, zlist(numl(fields)), zlist(hexl(ser)))
    if kind == "W":
        bs, nv, ser = p[2], p[3], p[4]
        return feat, "W" + bs + nv, "CW %s %s %s" % (zlist(hexl(bs)), zlist(numl(nv)), zlist(hexl(ser)))
    if kind == "R":
        n, a, c, ovoff, ov, off, woff, rd, ver, fields, nv, wr, win, outside = p[2:16]
        nvt = "None" if nv == "-" else "(Some %s)" % zlist(numl(nv))
        return feat, "R" + " ".join(p[2:9]) + nv, "CR %s %s %s %s %s %s %s %d %s %s %s %d %s %s" % (
            n, a, c, ovoff, zlist(hexl(ov)), off, woff, RD[rd], ver, zlist(numl(fields)), nvt, RD[wr], zlist(hexl(win)), outside)
    raise ValueError("unknown case line: " + line[:80])


CASES_V = IMPORTS + """From Model Require Import HeaderTie.
Import ListNotations.
Local Open Scope Z_scope.
Set Printing Depth 100000.
Definition cases : list (Z * tcase) := [
%s
].
Definition bad := Eval vm_compute in filter (fun c => negb (agrees (untag GenHeader.layout) (snd c))) cases.
Definition bad_ids := Eval vm_compute in map fst bad.
Print bad_ids.
Lemma tie : bad = [].
Proof. reflexivity. Qed.
"""

LAYOUT_TIE_V = """From Coq Require Import ZArith String List.
From Gen Require Import GenHeader.
From Spec Require Import HeaderSpec.
Import ListNotations.
Local Open Scope Z_scope.
(* the flattened layout as Go's reflect package presents it to readBinaryStruct in the compiled program *)
Definition go_layout : list (string * Z * option Z) := [
%s
].
Lemma layout_tie : go_layout = GenHeader.layout.
Proof. reflexivity. Qed.
(* the documented map the Go falsifier uses is the one of Spec/HeaderSpec.v *)
Definition go_documented : list (string * Z * Z) := [
%s
].
Lemma documented_tie : go_documented = documented.
Proof. reflexivity. Qed.
"""


def corpus_env():
    env = dict(vlib.GOENV)
    env["VERIF_CORPUS"] = os.path.join(vlib.ROOT, "corpus", "C09")
    return env


def run_falsifier(harness, seed, n):
    rc, out, dt = vlib.sh([harness, "hdrcheck", str(seed), str(n)], timeout=1200, env=corpus_env())
    fails, oks = [], {}
    for line in out.splitlines():
        m = re.match(r"FAIL (C09\.\S+) input=(\S+) (.*)", line)
        if m:
            fails.append((m.group(1), m.group(2), m.group(3)))
        m = re.match(r"OK (C09\.\S+) (\d+)", line)
        if m:
            oks[m.group(1)] = int(m.group(2))
    if rc not in (0, 1) or (not fails and not oks):
        fails.append(("C09.harness", "-", "hdrcheck did not run: " + out[-400:]))
    return fails, oks, out, dt


def run_c09(ck):
    thorough = ck.tier == "thorough"
    n_h, n_r, n_f = (40000, 1320, 60000) if thorough else (1760, 77, 6000)
    shard = 440
    ck.trusted = [
        "Coq 8.16.1 kernel incl. its bytecode VM (vm_compute); no axioms (Print Assumptions: closed under the global context)",
        "translator /verif/gen unit `header` (go/types view of type Header: exported top-level fields, arrays/structs expanded, rom tags); cross-checked on every run against the layout Go's reflect package presents in the compiled harness (Lemma layout_tie)",
        "Spec/HeaderSpec.v: the documented SNES header map and the constants $FFB0, 80, 16, $24, $2A",
        "hand model Model/Header.v of ReadHeader/WriteHeader/NewROM/ROM.ReadHeader/ROM.WriteHeader: tied to the compiled code by differential cases only (harness/hdrtool.go generators, reflection flattening, Contents with len = cap, HeaderOffset + 80 < 2^32)",
        "modelled, not verified: encoding/binary little-endian Read/Write of unsigned integers and arrays, bytes.Reader/Buffer, copy, slice bounds panics",
    ]
    os.makedirs(vlib.RUN, exist_ok=True)
    errs = vlib.run_gen("header")
    harness, herr = vlib.build_harness()
    if harness is None:
        ck.oblige("build Go harness against the tree under test", False, herr)
    ok_all = True
    layout_ok = False
    diag = ""
    translated = False
    if "GenHeader" in errs or "gen" in errs:
        ok_all = ck.oblige("translate type Header of header.go into Gen/GenHeader.v", False, errs.get("GenHeader") or errs.get("gen")) and ok_all
    else:
        rc, out, dt, _ = vlib.coqc(os.path.join(vlib.GEN, "GenHeader.v"))
        translated = ck.oblige("coqc Gen/GenHeader.v (regenerated layout type-checks)", rc == 0, out)
        ok_all = translated and ok_all
    if translated:
        lv = os.path.join(vlib.RUN, "C09_layout.v")
        vlib.write_if_changed(lv, LAYOUT_V)
        rc, out, dt, _ = vlib.coqc(lv, timeout=300)
        m = re.search(r"diag\s*=\s*\((.*?)\)\s*:", out, re.S)
        diag = " ".join(m.group(1).split()) if m else ""
        layout_ok = rc == 0
        ok_all = ck.oblige("Lemma gen_layout_ok : layout_ok GenHeader.layout = true  (vm_compute: sizes > 0, total 80, every rom tag = $FFB0 + cumulative offset, documented map, cut at 16, byte fields at $FFD4/$FFDA)",
                           layout_ok, "diag (sizes_pos, size, tags_ok, spec_ok, aligned16, byte@$24, byte@$2A) = (%s)\n%s" % (diag, out[-800:])) and ok_all
        ck.cov["layout_diag"] = diag
        def mism(name):
            mm = re.search(name + r"\s*=\s*(\[.*?\])\s*:", out, re.S)
            return " ".join(mm.group(1).split()) if mm else ""
        ck.cov["layout_spec_mismatch"] = mism("spec_mismatch")
        ck.cov["layout_tag_mismatch"] = mism("tag_mismatch")
        if not layout_ok:
            diag += "; documented-map mismatches (path, documented address, size, actual address, actual size) = %s; rom-tag mismatches (path, tag, actual address) = %s" % (
                ck.cov["layout_spec_mismatch"], ck.cov["layout_tag_mismatch"])
        gv = os.path.join(vlib.RUN, "C09_generic.v")
        vlib.write_if_changed(gv, generic_v())
        pv = os.path.join(vlib.RUN, "C09_props.v")
        vlib.write_if_changed(pv, props_v())
        fresh = vlib.static_vo_fresh(pv)
        ok_all = ck.oblige("static library Props/LayoutProps.vo, Props/HeaderProps.vo, Model/*.vo compiled and newer than their sources", fresh,
                           "run ./check --setup") and ok_all
        grc, gout, dt, _ = vlib.coqc(gv, timeout=600)
        for (name, stmt, _) in GENERIC:
            ok_all = ck.oblige("Theorem %s : %s" % (name, " ".join(stmt.split())), grc == 0, gout[-1200:]) and ok_all
        pout = ""
        prc = 1
        if layout_ok:
            prc, pout, dt, _ = vlib.coqc(pv, timeout=600)
        for (name, stmt, _) in THEOREMS:
            good = layout_ok and prc == 0
            detail = ""
            if not good:
                detail = ("not instantiable: its hypothesis layout_ok GenHeader.layout = true is false on this tree; diag=(%s)" % diag) if not layout_ok else pout[-1200:]
            ok_all = ck.oblige("Theorem %s : %s" % (name, " ".join(stmt.split())), good, detail) and ok_all
        if prc == 0 and grc == 0:
            ck.assumptions += vlib.parse_assumptions(gout) + vlib.parse_assumptions(pout)
            bad = vlib.foreign_assumptions(ck.assumptions)
            closed = all(b.startswith("Closed under the global context") for b in ck.assumptions) and len(ck.assumptions) == len(THEOREMS + GENERIC)
            ok_all = ck.oblige("Print Assumptions of every C09 theorem: Closed under the global context", closed and not bad,
                               "unexpected: %s / %d blocks" % (bad, len(ck.assumptions))) and ok_all
    # ---- tie
    ncases, feats, inputs, nontrivial = 0, {}, set(), set()
    tie_ok = False
    lines = []
    if harness and translated:
        rc, out, dt = vlib.sh([harness, "hdrlayout"], timeout=120)
        rows = []
        for l in out.splitlines():
            p = l.split()
            if len(p) == 3:
                rows.append('  ("%s"%%string, %s, %s)' % (p[0], p[1], "None" if p[2] == "-1" else "Some " + p[2]))
        rcd, outd, _ = vlib.sh([harness, "hdrdocumented"], timeout=120)
        drows = ['  ("%s"%%string, %s, %s)' % tuple(l.split()) for l in outd.splitlines() if len(l.split()) == 3]
        ltv = os.path.join(vlib.RUN, "Tie_C09_layout.v")
        vlib.write_if_changed(ltv, LAYOUT_TIE_V % (";\n".join(rows), ";\n".join(drows)))
        rc2, out2, _, _ = vlib.coqc(ltv, timeout=120)
        ok_all = ck.oblige("tie: flattened layout seen by Go reflection in the compiled code = GenHeader.layout (Lemma layout_tie); falsifier's documented map = Spec/HeaderSpec.documented (Lemma documented_tie)",
                           rc == 0 and rc2 == 0, (out if rc else out2)[-800:]) and ok_all
        rc, out, dt = vlib.sh([harness, "hdrcases", str(ck.seed), str(n_h), str(n_r)], timeout=1200, env=corpus_env())
        lines = [l for l in out.splitlines() if l[:2] in ("H ", "W ", "R ")]
        if rc != 0 or not lines:
            ok_all = ck.oblige("tie: harness hdrcases ran", False, out[-800:]) and ok_all
        else:
            terms = []
            for i, l in enumerate(lines):
                feat, key, term = case_term(l)
                terms.append("  (%d, %s)" % (i, term))
                feats[feat] = feats.get(feat, 0) + 1
                inputs.add(key)
                base = feat.split("/")
                if not (len(base) >= 2 and base[0] == "zero" and base[1] == "asis"):
                    nontrivial.add(key)
            # H/W cases are cheap (80 bytes); R cases build a whole image: spread them over the shards
            hw = [t for t, l in zip(terms, lines) if l[0] != "R"]
            rr = [t for t, l in zip(terms, lines) if l[0] == "R"]
            nsh = max(1, (len(hw) + shard - 1) // shard)
            nsh = max(nsh, min(16, (len(rr) + 5) // 6))
            files = []
            for k in range(nsh):
                part = hw[k::nsh] + rr[k::nsh]
                f = os.path.join(vlib.RUN, "Cases_C09_%d.v" % k)
                vlib.write_if_changed(f, CASES_V % ";\n".join(part))
                files.append(f)
            # drop stale shards of an earlier, larger run
            k = nsh
            while os.path.exists(os.path.join(vlib.RUN, "Cases_C09_%d.v" % k)):
                for ext in (".v", ".vo", ".v.stamp", ".v.log", ".glob", ".vok", ".vos"):
                    try:
                        os.remove(os.path.join(vlib.RUN, "Cases_C09_%d%s" % (k, ext)))
                    except OSError:
                        pass
                k += 1
            res = vlib.parallel([(lambda f=f: vlib.coqc(f, timeout=1500)) for f in files])
            bad_lines = []
            tie_ok = True
            detail = ""
            for (rc3, out3, dt3, _), f in zip(res, files):
                if rc3 != 0:
                    tie_ok = False
                    m = re.search(r"bad_ids\s*=\s*\[(.*?)\]", out3, re.S)
                    if m and m.group(1).strip():
                        bad_lines += [lines[int(x)] for x in m.group(1).replace("\n", " ").split(";") if x.strip()]
                    else:
                        detail += out3[-400:]
            ncases = len(lines)
            ck.cov["tie_shards"] = nsh
            ck.cov["tie_secs"] = round(max(r[2] for r in res), 1)
            ok_all = ck.oblige("tie: Lemma tie : bad = [] in %d shard(s) Cases_C09_k.v -- Model/Header.v on GenHeader.layout = compiled ReadHeader/WriteHeader/NewROM/ROM.ReadHeader/ROM.WriteHeader on %d cases"
                               % (nsh, ncases), tie_ok, ("first disagreeing cases:\n" + "\n".join(b[:400] for b in bad_lines[:3]) + detail)) and ok_all
            ck.cov["tie_disagreements"] = [b[:600] for b in bad_lines[:5]]
    elif harness is None:
        pass
    # ---- falsifier on the real code, every run
    fails, oks, fout, fdt = ([], {}, "", 0.0)
    if harness:
        fails, oks, fout, fdt = run_falsifier(harness, ck.seed, n_f)
    for (clause, inp, detail) in fails:
        ck.violation(clause, "counterexample", "%s fails on the real code: %s   [input %s]" % (clause, detail, inp),
                     {"clause": clause.split(".", 1)[1], "input": inp, "observed": detail,
                      "how": "harness hdrreplay %s '%s'" % (clause.split(".", 1)[1], inp)})
    if not ok_all and not fails:
        broken = [o["name"] for o in ck.obligations if not o["discharged"]]
        kind = "broken-correspondence" if all(n.startswith("tie") or n.startswith("translate") for n in broken) else "broken-theorem"
        ck.violation("obligation", kind,
                     "the Go falsifier found no failing input (%s); broken: %s" % (", ".join("%s x%d" % kv for kv in sorted(oks.items())), "; ".join(b[:160] for b in broken)),
                     {"broken_obligations": broken, "layout_diag": diag, "tie_disagreements": ck.cov.get("tie_disagreements", [])})
    # ---- evidence
    ck.cov.update({
        "exhaustive": False,
        "evaluations": ncases + sum(oks.values()),
        "distinct_nontrivial": len(nontrivial) if tie_ok else 0,
        "rule": "theorems quantify over all 2^640 header contents and all images (proof, not enumeration). Counted here: tie cases = structured headers "
                "(8 content classes x 11 version classes x extension bytes zero/non-zero, one-hot walks all 80 byte positions, wrong lengths, arbitrary field values written back) "
                "and ROM images (sizes around $8000/$10000, HeaderOffset $7FB0/$FFB0/at the image end/straddling, header modified before WriteHeader, write window moved); "
                "distinct_nontrivial = distinct case inputs other than the all-zero default header, counted only when Coq accepted Lemma tie for every shard; "
                "evaluations additionally counts the falsifier's clause evaluations on the real code",
        "traces_validated_against_impl": ncases if tie_ok else 0,
        "input_distribution": dict(sorted(feats.items(), key=lambda kv: -kv[1])[:60]),
        "feature_classes": len(feats),
        "distinct_inputs": len(inputs),
        "falsifier": fout.splitlines()[:12],
        "falsifier_secs": round(fdt, 1),
        "checker_cmd": "coqc -Q coq/Lib Lib -Q coq/Props Props -Q coq/Spec Spec -Q coq/Model Model -Q build/work/Gen Gen -Q build/work/Run Run build/work/Run/{C09_layout,C09_props,Tie_C09_layout,Cases_C09_k}.v",
        "modelled": "header.go (Header layout regenerated per run; ReadHeader/WriteHeader/readBinaryStruct/writeBinaryStruct hand-modelled) and rom.go NewROM/ROM.ReadHeader/ROM.WriteHeader",
        "not_covered": "Header.Score/ROMSizeBytes/RAMSizeBytes; Contents with cap > len; HeaderOffset + 80 >= 2^32",
    })
    for (name, stmt, _) in [t for t in THEOREMS if t[0] in ("C09_version", "C09_serialise_parse", "C09_new_rom_roundtrip", "C09_locality_reported")] + GENERIC[2:3]:
        ck.sample({"theorem": name, "statement": " ".join(stmt.split())})
    for l in lines[:2] + [x for x in lines if x.startswith("R ")][:2]:
        ck.sample({"tie_case": l[:700]})


REPLAY_V = IMPORTS + """Import ListNotations.
Local Open Scope Z_scope.
Set Printing Depth 100000.
Definition bs : list Z := %s.
Definition model_parse := Eval vm_compute in read_header (untag GenHeader.layout) bs.
Print model_parse.
Definition model_serialise := Eval vm_compute in option_map (write_header (untag GenHeader.layout)) model_parse.
Print model_serialise.
"""


def replay(pid, rp):
    r = rp.get("replay", {})
    harness, herr = vlib.build_harness()
    if harness and "clause" in r and "input" in r:
        rc, out, _ = vlib.sh([harness, "hdrreplay", r["clause"], r["input"]], timeout=120)
        print(out.strip())
        m = re.search(r"h=([0-9a-f]+)", r["input"])
        if m and not vlib.run_gen("header"):
            os.makedirs(vlib.RUN, exist_ok=True)
            vlib.coqc(os.path.join(vlib.GEN, "GenHeader.v"))
            f = os.path.join(vlib.RUN, "Replay_C09.v")
            vlib.write_if_changed(f, REPLAY_V % zlist(hexl(m.group(1))))
            rc2, out2, _, _ = vlib.coqc(f, timeout=120)
            print("model (Coq, vm_compute):")
            print(out2.strip()[:3000])
        return 1 if rc != 0 else 0
    print(rp.get("detail"))
    for o in r.get("broken_obligations", []):
        print("broken obligation:", o)
    return 1
