"""C01: both 65C816 interpreters execute native-mode code per the WDC model.

Specification side of the property: Spec/ISA.v (opcode matrix from the data sheet) and Spec/Spec816.v
(native-mode semantics over an architectural state).  Per run:
  obligations  table_agrees_exec on the REGENERATED opcode tables of both interpreters (vm_compute),
               the Spec816 sanity examples, the refinement theorems of Props/C01Props.v (static; proved
               against a committed snapshot of the generated primary model, compared textually with the
               regenerated file on every run, function by function);
  falsifier    the extracted Spec816.step (OCaml, ExtrOcamlBasic only) against what each REAL interpreter
               did on structured cases (harness cpucases + speccases), compared through abs: registers,
               flags, PC, E, stop flag and the memory effect.  Every disagreement class is reported with a
               minimal concrete case, replayable with ./check C01 --replay.
"""
import json
import os
import re
import shutil
import vlib

SPECDIR = os.path.join(vlib.BUILD, "spec816")
SNAPDIR = os.path.join(vlib.COQ, "Snapshot")
if "Snapshot" not in vlib.COQ_ARGS:
    vlib.COQ_ARGS += ["-Q", SNAPDIR, "Snapshot"]


def _proof_files():
    """The C01 proof files, in the order of coq/_CoqProject (a dependency order)."""
    out = []
    for line in open(os.path.join(vlib.COQ, "_CoqProject")):
        m = re.match(r"Props/(C01[A-Za-z0-9_]*)\.v\s*$", line.strip())
        if m:
            out.append(m.group(1))
    return out


PROOF_FILES = _proof_files()


def _proof_deps(n):
    src = open(os.path.join(vlib.COQ, "Props", n + ".v")).read()
    deps = []
    for m in re.finditer(r"From Props Require Import ([^.]*)\.", src):
        deps += [x for x in m.group(1).split() if x in PROOF_FILES]
    return deps

CORPUS = os.path.join(vlib.ROOT, "corpus", "C01", "cases.txt")
SNAPSHOT = os.path.join(vlib.COQ, "Snapshot", "GenCpu65.v")

EXTRACT_V = """Require Extraction.
Require Import ExtrOcamlBasic.
From Spec Require Import ISA Spec816.
Extraction "spec816.ml" Spec816.step Spec816.bcd_defined Spec816.decimal_arith Spec816.oploc ISA.decode ISA.mnem_name ISA.op_length.
"""

TABLES_V = """(* per-run: the regenerated opcode tables of both interpreters against the data-sheet matrix *)
From Coq Require Import ZArith List.
From Spec Require Import ISA.
From Gen Require Import GenCpu65 GenCpuAlt.
Lemma tables65_exec : table_agrees_exec GenCpu65.instr_table = true. Proof. vm_compute. reflexivity. Qed.
Lemma tablesAlt_exec : table_agrees_exec GenCpuAlt.instr_table = true. Proof. vm_compute. reflexivity. Qed.
Definition disasm65 := Eval vm_compute in disasm_disagreements GenCpu65.instr_table.
Definition disasmAlt := Eval vm_compute in disasm_disagreements GenCpuAlt.instr_table.
Print disasm65.
Print disasmAlt.
"""

TABLES_DIAG_V = """From Coq Require Import ZArith List.
From Spec Require Import ISA.
From Gen Require Import GenCpu65 GenCpuAlt.
Definition exec65 := Eval vm_compute in (rows_complete GenCpu65.instr_table, exec_disagreements GenCpu65.instr_table).
Definition execAlt := Eval vm_compute in (rows_complete GenCpuAlt.instr_table, exec_disagreements GenCpuAlt.instr_table).
Print exec65.
Print execAlt.
"""

EXAMPLES_V = """(* per-run: the specification's sanity examples are part of the static build; restate two of them *)
From Coq Require Import ZArith List.
From Spec Require Import ISA Spec816 Spec816Examples.
Check bcd_09_plus_09.
Check xba_flags_1.
Check mvn_three_bytes.
Check sep_rep_clears_high_index.
Check jsl_rtl_round_trip.
Check dp_ind_y_crosses_bank.
Check abs_x_wraps_at_top.
Check direct_page_wraps_in_bank0.
Check stack_wraps_in_bank0.
Print Assumptions mvn_three_bytes.
"""

KNOWN_CLASSES = {
    "dp-ind-y-stays-in-dbr": "(dp),Y adds Y in 16 bits and stays in DBR instead of carrying into the next bank",
    "abs-x-ind-pointer-crosses-bank": "JMP/JSR (abs,X) fetch the pointer's high byte across the end of the program bank",
    "index-high-byte-survives-x-flag": "X/Y high bytes reappear when the x flag is cleared (REP/PLP/RTI) although x = 1 forces them to zero",
    "block-move-counts-in-stale-RA": "MVN/MVP count in the stale 16-bit RA copy when m = 1",
    "decimal-adc-sbc": "decimal-mode ADC/SBC give a wrong result for valid BCD operands",
}


def field_names():
    src = open(os.path.join(vlib.GEN, "GenFields.v")).read()
    body = src[src.index("Definition all_fields"):]
    return [m.group(1) for m in re.finditer(r'\(\d+%N, "([A-Za-z_0-9]+)"%string, \d+\)', body)]


def build_spec_driver():
    """Extract Spec816 to OCaml and build the differential driver (cached on the sources)."""
    with vlib.Lock("spec816_driver"):
        os.makedirs(SPECDIR, exist_ok=True)
        srcs = [os.path.join(vlib.COQ, "Spec", "ISA.v"), os.path.join(vlib.COQ, "Spec", "Spec816.v"),
                os.path.join(vlib.ROOT, "ocaml", "specdriver.ml")]
        key = vlib.sha(EXTRACT_V, *[open(p).read() for p in srcs])
        exe = os.path.join(SPECDIR, "specdriver")
        stamp = exe + ".stamp"
        if os.path.exists(exe) and os.path.exists(stamp) and open(stamp).read() == key:
            return exe, ""
        for n in ("ISA", "Spec816"):
            v = os.path.join(vlib.COQ, "Spec", n + ".v")
            vo = v[:-2] + ".vo"
            if not os.path.exists(vo) or os.path.getmtime(vo) < os.path.getmtime(v):
                return None, "static library not built: %s (run ./check --setup)" % vo
        open(os.path.join(SPECDIR, "Extract.v"), "w").write(EXTRACT_V)
        rc, out, _ = vlib.sh(["coqc"] + vlib.COQ_ARGS + ["Extract.v"], cwd=SPECDIR, timeout=600, env=dict(os.environ))
        if rc != 0:
            return None, "extraction failed:\n" + out
        shutil.copy(os.path.join(vlib.ROOT, "ocaml", "specdriver.ml"), os.path.join(SPECDIR, "specdriver.ml"))
        rc, out, _ = vlib.sh(["ocamlfind", "ocamlopt", "-O3", "-w", "-a", "spec816.mli", "spec816.ml", "specdriver.ml",
                              "-o", "specdriver"], cwd=SPECDIR, timeout=600, env=dict(os.environ))
        if rc != 0:
            return None, "ocamlopt failed:\n" + out
        open(stamp, "w").write(key)
        return exe, ""


DIFF_RE = re.compile(r"DIFF (\S+) case=(\d+) step=(\d+) op=(\w+) (\w+) (\S+) comps=(\S+)(?: bytes=(\S+))? pre=\[(.*?)\]")


def classify(line):
    m = DIFF_RE.match(line)
    if not m:
        return "other:unparsed", None
    interp, cid, step, op, mn, md, comps, _, pre = m.groups()
    fl = re.search(r"nvmxdizc=(\d+)", pre).group(1)
    cs = set(comps.split(","))
    info = {"interp": interp, "case": int(cid), "step": int(step), "opcode": op, "mnemonic": mn, "mode": md, "comps": comps}
    if comps == "PANIC":
        return "panic:%s:%s" % (mn, md), info
    if mn in ("ADC", "SBC") and fl[4] == "1":
        return "decimal-adc-sbc", info
    if md == "(dp),y":
        return "dp-ind-y-stays-in-dbr", info
    if mn in ("JMP", "JSR") and md == "(abs,x)" and cs <= {"PC"}:
        return "abs-x-ind-pointer-crosses-bank", info
    if mn in ("REP", "PLP", "RTI", "SEP", "XCE") and cs <= {"X", "Y"}:
        return "index-high-byte-survives-x-flag", info
    if mn in ("MVN", "MVP") and fl[2] == "1" and cs <= {"A", "PC"}:
        return "block-move-counts-in-stale-RA", info
    return "other:%s:%s:%s" % (mn, md, comps), info


def run_driver(driver, d, fields, label, gofile):
    rc, out, dt = vlib.sh([driver, os.path.join(d, "cases.txt"), os.path.join(d, gofile), ",".join(fields), label],
                          timeout=3600, env=dict(os.environ))
    return rc, out


def differential(ck, harness, driver, fields, tier, seed):
    """Run the generators + both interpreters + the extracted spec.  Returns (diffs, stats, case_lines)."""
    sizes = {"quick": dict(variants=160, multi=800, svariants=120, progs=1500, bcd=4000),
             "thorough": dict(variants=1500, multi=6000, svariants=500, progs=8000, bcd=-6000)}[tier if tier in ("quick", "thorough") else "quick"]
    work = os.path.join(SPECDIR, "run")
    shutil.rmtree(work, ignore_errors=True)
    streams = []
    # corpus first
    if os.path.exists(CORPUS):
        d = os.path.join(work, "corpus")
        os.makedirs(d)
        rc, out, _ = vlib.sh([harness, "specreplay", "-in", CORPUS, "-out", d], timeout=600)
        fl = [l[7:] for l in out.splitlines() if l.startswith("FIELDS ")]
        if rc == 0 and fl:
            streams.append(("corpus", d, fl[0].split(","), out))
        else:
            ck.oblige("corpus cases run on the real interpreters", False, out[-800:])
    d = os.path.join(work, "structured")
    os.makedirs(d)
    rc, out, _ = vlib.sh([harness, "cpucases", "-seed", str(seed), "-variants", str(sizes["variants"]), "-multi", str(sizes["multi"]),
                          "-hist=false", "-fields", ",".join(fields), "-out", d], timeout=3600)
    if rc != 0:
        ck.oblige("harness cpucases", False, out[-800:])
    else:
        streams.append(("structured", d, fields, out))
    d = os.path.join(work, "directed")
    os.makedirs(d)
    rc, out, _ = vlib.sh([harness, "speccases", "-seed", str(seed), "-variants", str(sizes["svariants"]), "-progs", str(sizes["progs"]),
                          "-bcd", str(sizes["bcd"]), "-fields", ",".join(fields), "-out", d], timeout=3600)
    if rc != 0:
        ck.oblige("harness speccases", False, out[-800:])
    else:
        streams.append(("directed", d, fields, out))
    diffs, stats, gen_stats = [], {}, {}
    jobs = []
    for (name, d, fl, gout) in streams:
        gen_stats[name] = {l.split()[1]: int(l.split()[2]) for l in gout.splitlines() if l.startswith("STAT ") and len(l.split()) == 3}
        for (label, gofile) in (("primary", "go65.txt"), ("alt", "goalt.txt")):
            jobs.append((name, d, fl, label, gofile))
    outs = vlib.parallel([(lambda j=j: run_driver(driver, j[1], j[2], j[3], j[4])) for j in jobs], workers=6)
    for j, (rc, out) in zip(jobs, outs):
        name, d, fl, label, gofile = j
        if rc != 0:
            ck.oblige("spec driver on stream %s/%s" % (name, label), False, out[-800:])
            continue
        cases = None
        for line in out.splitlines():
            if line.startswith("DIFF "):
                key, info = classify(line)
                if info is None:
                    continue
                info.update({"stream": name, "dir": d, "fields": fl, "line": line})
                diffs.append((key, info))
            elif line.startswith("STAT "):
                _, lab, k, v = line.split()
                stats.setdefault(lab, {})
                stats[lab][k] = stats[lab].get(k, 0) + int(v)
    return diffs, stats, gen_stats


def case_line(d, cid):
    with open(os.path.join(d, "cases.txt")) as f:
        for line in f:
            if line.startswith("C %d " % cid):
                return line.strip()
    return None


def gen_and_compile(ck):
    """Regenerate the CPU models from the tree under test and compile them (shared lock with other CPU checks)."""
    with vlib.Lock("gencpu"):
        errs = vlib.run_gen("cpu")
        ok = True
        for unit in ("GenFields", "GenCpu65", "GenCpuAlt"):
            if unit in errs or "gen" in errs:
                ok = ck.oblige("translate %s from source" % unit, False, errs.get(unit, errs.get("gen", ""))) and ok
                continue
            rc, out, dt, cached = vlib.coqc(os.path.join(vlib.GEN, unit + ".v"), timeout=1200)
            ok = ck.oblige("coqc Gen/%s.v (regenerated model type-checks)" % unit, rc == 0, out) and ok
        return ok


def split_defs(src):
    """Gallina text -> {name: definition text} for top-level Definition/Fixpoint blocks."""
    out = {}
    cur, name = [], None
    for line in src.splitlines():
        if re.match(r"\(\* \S+\.go:\d+\s+func .*\*\)\s*$", line):
            continue  # source position comments move with every edit of the Go file
        m = re.match(r"(Definition|Fixpoint)\s+([A-Za-z_0-9']+)", line)
        if m:
            if name:
                out[name] = "\n".join(cur).strip()
            name, cur = m.group(2), [line]
        elif name:
            cur.append(line)
    if name:
        out[name] = "\n".join(cur).strip()
    return out


def snapshot_delta():
    """Functions of the regenerated primary model whose text differs from the committed snapshot."""
    if not os.path.exists(SNAPSHOT):
        return None
    a = split_defs(open(SNAPSHOT).read())
    b = split_defs(open(os.path.join(vlib.GEN, "GenCpu65.v")).read())
    return sorted(n for n in set(a) | set(b) if a.get(n) != b.get(n))


def hygiene():
    """No Axiom/Parameter/Admitted/... in the files of this package; Variable / Hypothesis only inside a Section
    (where they are discharged at End and declare nothing)."""
    bad = []
    pat = re.compile(r"^\s*(Axiom|Axioms|Parameter|Parameters|Conjecture|Admitted|Admit Obligations|"
                     r"Unset Guard Checking|Unset Positivity Checking|Unset Universe Checking)\b|\badmit\b")
    ctx = re.compile(r"^\s*(Variable|Variables|Hypothesis|Hypotheses|Context)\b")
    files = [os.path.join(vlib.COQ, "Spec", n) for n in ("ISA.v", "Spec816.v", "Spec816Examples.v")]
    files += [os.path.join(vlib.COQ, "Props", n + ".v") for n in PROOF_FILES]
    for f in files:
        if not os.path.exists(f):
            continue
        src = re.sub(r"\(\*.*?\*\)", "", open(f).read(), flags=re.S)
        depth = 0
        for k, line in enumerate(src.splitlines()):
            if re.match(r"^\s*Section\s+\w+\s*\.", line):
                depth += 1
            elif re.match(r"^\s*End\s+\w+\s*\.", line) and depth > 0:
                depth -= 1
            if pat.search(line) or (depth == 0 and ctx.search(line)):
                bad.append("%s:%d: %s" % (os.path.basename(f), k + 1, line.strip()))
    return bad


def live_replay(ck):
    """Compile the proof files of Props/ against the REGENERATED model (From Gen instead of From Snapshot), in
    dependency waves (every file whose imports are done is compiled in parallel)."""
    names = {}
    for n in PROOF_FILES:
        src = open(os.path.join(vlib.COQ, "Props", n + ".v")).read()
        src = src.replace("From Snapshot Require Import", "From Gen Require Import")
        src = re.sub(r"From Props Require Import ([^.]*)\.",
                     lambda m: "From Run Require Import " + " ".join("C01L_" + x for x in m.group(1).split()) + ".", src)
        path = os.path.join(vlib.RUN, "C01L_%s.v" % n)
        vlib.write_if_changed(path, src)
        names[n] = path
    t0 = __import__("time").time()
    deps = {n: set(_proof_deps(n)) for n in PROOF_FILES}
    done = set()
    while len(done) < len(PROOF_FILES):
        wave = [n for n in PROOF_FILES if n not in done and deps[n] <= done]
        if not wave:
            return False, "cyclic imports among the C01 proof files", 0
        res = vlib.parallel([(lambda n=n: vlib.coqc(names[n], timeout=3000)) for n in wave], workers=12)
        for n, (rc, out, _, _) in zip(wave, res):
            if rc != 0:
                return False, "%s against the regenerated model:\n%s" % (n, out[-1500:]), 0
        done |= set(wave)
    return True, "", __import__("time").time() - t0


STEP_STMT = ("forall s, wf s -> get f_E s = 0%%Z -> no_int s -> Spec816.bcd_defined (abs s) (Machine.mem s) = true -> "
             "refines_step_d s (%s s)")

TRANSPORT_V = """(* per-run: the static refinement theorem transported to the REGENERATED model of the primary interpreter *)
From Coq Require Import ZArith List.
From Lib Require Import Machine.
From Spec Require Import Spec816.
From Snapshot Require Import GenFields.
From Snapshot Require GenCpu65.
From Gen Require GenCpu65.
From Props Require Import C01Base C01AdcRef C01Props.
From Run Require C01_snapeq.
Theorem C01_step_primary : %(prim)s.
Proof. rewrite <- C01_snapeq.seq_Step. exact C01_step. Qed.
Print Assumptions C01_step_primary.
"""

TRANSPORT_LIVE_V = """(* per-run: the replayed refinement theorem (proofs re-checked against the regenerated primary model) *)
From Coq Require Import ZArith List.
From Lib Require Import Machine.
From Spec Require Import Spec816.
From Gen Require Import GenFields.
From Gen Require GenCpu65.
From Run Require Import C01L_C01Base C01L_C01AdcRef C01L_C01Props.
Theorem C01_step_primary : %(prim)s.
Proof. exact C01_step. Qed.
Print Assumptions C01_step_primary.
"""

TRANSPORT_ALT_SNAP_V = """(* per-run: C01_step for the regenerated model of the alternative interpreter THROUGH THE SNAPSHOTS only:
   static C01_step (about Snapshot.GenCpu65.Step), static Snapshot.GenCpu65.Step = Snapshot.GenCpuAlt.Step (Props/C02Snap.v),
   per-run Snapshot.GenCpuAlt.Step = Gen.GenCpuAlt.Step.  Independent of the regenerated model of the PRIMARY interpreter: the
   route taken when that model was restructured one-sidedly (so that C02's equality of the two regenerated models is open). *)
From Coq Require Import ZArith List.
From Lib Require Import Machine.
From Spec Require Import Spec816.
From Snapshot Require Import GenFields.
From Snapshot Require GenCpu65 GenCpuAlt.
From Gen Require GenCpuAlt.
From Props Require Import C01Base C01AdcRef C01Props.
From Props Require C02Snap.
From Run Require C02_snapalt.
Theorem C01_step_alternative : %(alt)s.
Proof. rewrite <- C02_snapalt.seq_Step. rewrite <- C02Snap.C02_step_eq. exact C01_step. Qed.
Print Assumptions C01_step_alternative.
"""

TRANSPORT_ALT_V = """(* per-run: C01_step for the regenerated model of the alternative interpreter, through C02's equality *)
From Coq Require Import ZArith List.
From Lib Require Import Machine.
From Spec Require Import Spec816.
%(imports)s
From Gen Require GenCpu65 GenCpuAlt.
From Run Require C01_transport %(eqmod)s.
Theorem C01_step_alternative : %(alt)s.
Proof. rewrite <- %(eqmod)s.C02_step_eq. exact C01_transport.C01_step_primary. Qed.
Print Assumptions C01_step_alternative.
"""


def _first_failing(out):
    m = re.search(r"\(in proof (\w+)\)", out)
    if m:
        return m.group(1)
    m = re.search(r'File "[^"]*", line (\d+)', out)
    return ("line " + m.group(1)) if m else out[-300:]


def props_obligations(ck):
    """Static refinement theorem (Props/C01Props.v), restated per run, and its transport to the regenerated models:
    Snapshot.GenCpu65.f = Gen.GenCpu65.f function by function (kernel-checked, checks/snapeq.py), then
    Gen.GenCpu65.Step = Gen.GenCpuAlt.Step (C02's theorem).  When a function differs from the snapshot (or in the
    thorough tier) the proof files themselves are replayed against the regenerated model."""
    from checks import snapeq, cpueq
    pv = os.path.join(vlib.COQ, "Props", "C01Props.v")
    src = open(pv).read()
    full = "\nTheorem C01_step :" in src
    runv = os.path.join(vlib.RUN, "C01_props.v")
    snap_sha = vlib.sha(vlib.file_sha(SNAPSHOT), vlib.file_sha(os.path.join(SNAPDIR, "GenFields.v")))
    vlib.write_if_changed(runv, """(* per-run restatement of the static refinement theorems; snapshot %s *)
From Coq Require Import ZArith List.
From Lib Require Import Machine.
From Spec Require Import Spec816.
From Snapshot Require Import GenFields GenCpu65.
From Props Require Import C01Base C01AdcRef C01Props.
Set Printing Depth 2000.
Definition n_proved := Eval vm_compute in List.length proved_opcodes.
Print n_proved.
Definition the_proved := Eval vm_compute in proved_opcodes.
Print the_proved.
Theorem C01_step_partial_run :
  forall op, In op proved_opcodes ->
  forall s, wf s -> get f_E s = 0%%Z -> no_int s -> opcode_at s = op ->
            Spec816.bcd_defined (abs s) (Machine.mem s) = true -> refines_step_d s (Step s).
Proof. exact C01_step_partial. Qed.
Print Assumptions C01_step_partial_run.
%s
Print Assumptions C01_hypotheses_satisfiable.
""" % (snap_sha[:16], ("""Theorem C01_step_run : %s.
Proof. exact C01_step. Qed.
Theorem C01_run_run : forall n s, wf s -> native_run n s ->
  exists s', run_model n s = Some s' /\\ wf s' /\\ spec_trace n (abs s) (Machine.mem s) (abs s') (Machine.mem s').
Proof. exact C01_run. Qed.
Example decimal_premises_hold := C01_decimal_premises.
Print Assumptions C01_step_run.
Print Assumptions C01_run_run.""" % (STEP_STMT % "Step")) if full else ""))
    fresh = vlib.static_vo_fresh(runv)
    rc, out, dt, cached = vlib.coqc(runv, timeout=900)
    ok = rc == 0 and fresh
    m = re.search(r"n_proved = (\d+)", out)
    n = int(m.group(1)) if m else 0
    m2 = re.search(r"the_proved =\s*(.*?)\s*: list", out, re.S)
    plist = [int(x) for x in re.findall(r"\d+", m2.group(1))] if m2 else []
    why = out if rc != 0 else ("static library stale: run ./check --setup" if not fresh else "")
    ck.oblige("Theorem C01_step_partial: for the %d opcodes of proved_opcodes, forall s, wf s -> E = 0 -> no pending interrupt -> "
              "bcd_defined -> the generated model's Step does not panic and refines Spec816.step through abs (registers incl. the hidden "
              "B, flags (V free after decimal ADC/SBC), PC, every memory byte, wf of the result)" % n, ok, why)
    if full:
        ck.oblige("Theorem C01_step: the same for EVERY state (all 256 opcodes: proved_opcodes = 0..255, Lemma opcode_in)", ok and n == 256, why)
        ck.oblige("Theorem C01_run: along n steps (any n) of the model from any wf state whose visited states have E = 0, no pending "
                  "interrupt and defined BCD operands, no step panics, wf is preserved and every step is one the specification allows "
                  "from the model's own previous state (spec_trace)", ok, why)
    if rc == 0:
        ck.assumptions += vlib.parse_assumptions(out)
    ck.cov["proved_opcodes"] = n
    ck.cov["proved_opcode_list"] = ["%02x" % x for x in plist]
    ck.cov["proved_fraction"] = "%d/256" % n
    ck.cov["proved_note"] = ("all 256 opcodes are proved; the differential run is the tie / falsifier" if n == 256 else
                             "opcodes outside proved_opcodes (%d of 256) are covered by the differential run only" % (256 - n))
    used = set()
    for pf in PROOF_FILES:
        fsrc = open(os.path.join(vlib.COQ, "Props", pf + ".v")).read()
        for dline in re.findall(r"snapshot_dep:\s*([A-Za-z_0-9 ,\n]+?)(?:\*\)|\n\s*\n)", fsrc):
            used |= {x.strip() for x in dline.replace("\n", " ").split(",") if re.fullmatch(r"[A-Za-z_0-9]+", x.strip())}
    delta = snapshot_delta()
    if delta is None:
        ck.oblige("snapshot of the generated primary model present (coq/Snapshot/GenCpu65.v)", False, "missing")
        return
    ck.cov["snapshot_functions_changed"] = delta
    # --- kernel-checked equality snapshot = regenerated model, function by function; and the equality of the two
    #     regenerated models (pivot through the snapshots, or direct: checks/cpulink.py, the same files the C02 check produces)
    from checks import cpulink
    lk = cpulink.step_equality()
    snap_ok, outs, info, _ = lk["snap"]["GenCpu65"]
    ck.cov["snapshot_equalities"] = len(info["lemmas"])
    ck.cov["equality_route"] = lk["route"]
    rce, oute, eqmod = (0 if lk["ok"] else 1), lk["out"], lk["module"]
    stm = {"prim": STEP_STMT % "Gen.GenCpu65.Step", "alt": STEP_STMT % "Gen.GenCpuAlt.Step", "eqmod": eqmod}
    need_live = (not snap_ok) or ck.tier == "thorough"
    if snap_ok:
        ck.oblige("proof target = regenerated model: Snapshot.GenCpu65.f = Gen.GenCpu65.f for all %d functions and tables of the model "
                  "regenerated from the Go sources on this run (one kernel-checked lemma per function, Run/C01_snapeq.v)" % len(info["lemmas"]), True)
    okl = None
    if need_live:
        okl, detail, secs = live_replay(ck)
        ck.cov["live_replay_s"] = round(secs, 1)
        if not snap_ok:
            ck.oblige("proof target = regenerated model: %s differs from the snapshot; the proof files were replayed against the "
                      "regenerated model instead" % cpulink.first_failing(outs), okl,
                      "the refinement theorem does not apply to the changed functions: " + detail)
        else:
            ck.oblige("proof files replay against the regenerated model (From Gen)", okl, detail)
    if not full:
        return
    tv = os.path.join(vlib.RUN, "C01_transport.v")
    if snap_ok:
        vlib.write_if_changed(tv, TRANSPORT_V % stm)
        stm["imports"] = "From Snapshot Require Import GenFields.\nFrom Props Require Import C01Base C01AdcRef."
    elif okl:
        vlib.write_if_changed(tv, TRANSPORT_LIVE_V % stm)
        stm["imports"] = "From Gen Require Import GenFields.\nFrom Run Require Import C01L_C01Base C01L_C01AdcRef."
    else:
        return
    rct, outt, dtt, _ = vlib.coqc(tv, timeout=900)
    ck.oblige("Theorem C01_step_primary: C01_step for the REGENERATED model of emulator/cpu65c816 (Gen.GenCpu65.Step)", rct == 0, outt)
    if rct == 0:
        ck.assumptions += vlib.parse_assumptions(outt)
    ta = os.path.join(vlib.RUN, "C01_transport_alt.v")
    vlib.write_if_changed(ta, TRANSPORT_ALT_V % stm)
    rca, outa = 1, ""
    alt_route = "C02_step_eq : GenCpu65.Step = GenCpuAlt.Step"
    if rct == 0 and rce == 0:
        rca, outa, _, _ = vlib.coqc(ta, timeout=900)
    alt_snapshot_route = False
    if rca != 0 and lk["snap"]["GenCpuAlt"][0] and os.path.exists(os.path.join(vlib.COQ, "Props", "C02Snap.vo")):
        # the primary model was restructured one-sidedly (or its transport failed): the alternative interpreter is still equal to
        # ITS snapshot, and the static theorems about the snapshots give C01_step for it without the regenerated primary model
        vlib.write_if_changed(ta, TRANSPORT_ALT_SNAP_V % stm)
        rca, outa, _, _ = vlib.coqc(ta, timeout=900)
        alt_snapshot_route = rca == 0
        alt_route = "the snapshots only (static C01_step + static C02Snap.C02_step_eq + per-run Snapshot.GenCpuAlt.f = Gen.GenCpuAlt.f)"
        ck.cov["alt_route"] = "snapshots"
    ck.oblige("Theorem C01_step_alternative: C01_step for the REGENERATED model of emulator/cpualt (Gen.GenCpuAlt.Step), through " + alt_route, rca == 0,
              outa if rce == 0 else "C02's equality of the two regenerated models no longer checks (%s): the alternative interpreter is "
              "covered by the differential run only" % cpulink.first_failing(oute))
    if rca == 0:
        ck.assumptions += vlib.parse_assumptions(outa)
    ck.sample({"theorem": "C01_step_alternative : " + stm["alt"]})
    # --- the interrupt latch: after every Step it reads 1, so C01_run needs "no interrupt pending" at the first state only
    from checks import cpulatch
    alt_ok = rca == 0 and not (alt_snapshot_route and "C01L_" in stm["imports"])   # mixed live/snapshot definitions: primary run theorem only

    lfiles = {}
    for mod in ("GenCpu65", "GenCpuAlt"):      # generation is sequential (it switches a module-level setting of cpusafe)
        txt, linfo = cpulatch.generate(os.path.join(vlib.GEN, mod + ".v"), mod)
        lv = os.path.join(vlib.RUN, "C01_latch_%s.v" % mod)
        vlib.write_if_changed(lv, txt)
        lfiles[mod] = (lv, len(linfo["lemmas"]))

    def one_latch(mod):
        rc, out, dt, _ = vlib.coqc(lfiles[mod][0], timeout=1800)
        return mod, rc, out, lfiles[mod][1]
    lres = vlib.parallel([lambda m=m: one_latch(m) for m in ("GenCpu65", "GenCpuAlt")])
    lok = {m: rc == 0 for (m, rc, _, _) in lres}
    for (m, rc, out, nl) in lres:
        ck.oblige("Theorem latch_%s: from ANY state with fields in their Go types, Step does not panic, keeps the fields in range and leaves the "
                  "interrupt latch at 1 (%d routine lemmas over the regenerated model, SafeLib engine)" % (m, nl), rc == 0,
                  "first lemma that no longer checks: " + cpulink.first_failing(out))
    if rct == 0 and lok.get("GenCpu65"):
        use_alt = alt_ok and lok.get("GenCpuAlt")
        rv = os.path.join(vlib.RUN, "C01_runlatched.v")
        vlib.write_if_changed(rv, cpulatch.RUN_V % {
            "imports": (stm["imports"].replace("C01L_C01AdcRef.", "C01L_C01AdcRef C01L_C01Props.") if "C01L_" in stm["imports"]
                        else stm["imports"].replace("C01AdcRef.", "C01AdcRef C01Props.")),
            "altreq": " C01_transport_alt C01_latch_GenCpuAlt" if use_alt else "",
            "alt": cpulatch.ALT_PART if use_alt else ""})
        rcr, outr, _, _ = vlib.coqc(rv, timeout=900)
        ck.oblige("Theorem C01_run_latched_primary%s: along n steps of the REGENERATED model from any wf state with fields in their Go types and "
                  "no interrupt pending AT THE START, whose visited states have E = 0 and defined BCD operands: no step panics and every step is "
                  "one the specification allows (spec_trace) - the latch lemma supplies `no interrupt pending` for every later state"
                  % (" / _alternative" if use_alt else ""), rcr == 0, outr)
        if rcr == 0:
            ck.assumptions += vlib.parse_assumptions(outr)
            ck.sample({"theorem": "C01_run_latched_primary : forall n s, wf s -> Inv (Bty fwidth) s -> no_int s -> native_of Gen.GenCpu65.Step n s -> "
                                  "exists s', run_of Gen.GenCpu65.Step n s = Some s' /\\ wf s' /\\ spec_trace n (abs s) (mem s) (abs s') (mem s')"})



def run_c01(ck):
    ck.trusted = [
        "Coq 8.16.1 kernel incl. its bytecode VM (vm_compute); no native_compute; standard library only",
        "axiom: Coq.Logic.FunctionalExtensionality.functional_extensionality_dep (standard library), only in C01_step_alternative, "
        "inherited from C02_step_eq (equality of the bus-helper routines stated as equality of functions)",
        "Spec/ISA.v and Spec/Spec816.v: written from the WDC data sheet from memory (no reference emulator offline); exercised by "
        "the examples of Spec/Spec816Examples.v and cross-examined against two implementations on every run",
        "extraction (ExtrOcamlBasic only, Z/N/positive/string stay extracted inductives, no Extract Constant), ocamlopt, ocaml/specdriver.ml "
        "(abs mapping, comparison of registers / flags / memory effect)",
        "harness generators (harness/cputool.go cpucases, harness/spectool.go speccases), the instrumented flat memory, reflection-based field access",
        "translator /verif/gen for the opcode tables (instr_table) and for the model the refinement theorem is about (tie to the compiled code: integrator's C02/C08 correspondence)",
        "differential testing is the weaker half: opcodes outside proved_opcodes are covered by it alone",
    ]
    os.makedirs(vlib.RUN, exist_ok=True)
    harness, herr = vlib.build_harness()
    if harness is None:
        ck.oblige("build Go harness against the tree under test", False, herr)
    gen_ok = gen_and_compile(ck)
    # ---- obligation: opcode tables
    disasm = {}
    if gen_ok:
        tv = os.path.join(vlib.RUN, "C01_tables.v")
        vlib.write_if_changed(tv, TABLES_V)
        fresh = vlib.static_vo_fresh(tv)
        rc, out, dt, cached = vlib.coqc(tv, timeout=600)
        detail = out
        if rc != 0:
            dv = os.path.join(vlib.RUN, "C01_tables_diag.v")
            vlib.write_if_changed(dv, TABLES_DIAG_V)
            rc2, out2, _, _ = vlib.coqc(dv, timeout=600)
            detail = out + "\n" + out2
            ck.cov["table_exec_disagreements"] = re.findall(r"(exec\w+) =\s*(.*?)\s*:", out2, re.S)
        ck.oblige("Lemma tables65_exec / tablesAlt_exec: table_agrees_exec (mode, operand length of all 256 opcodes) on the regenerated "
                  "tables of both interpreters = Spec.ISA", rc == 0 and fresh, detail)
        for name in ("disasm65", "disasmAlt"):
            m = re.search(name + r" =\s*(.*?)\s*: list", out, re.S)
            disasm[name] = [int(x) for x in re.findall(r"\d+", m.group(1))] if m else None
        ck.cov["disassembler_only_table_disagreements"] = disasm
        ck.cov["disassembler_only_note"] = ("opcodes whose name / nominal size differ from the data sheet; they do not drive execution "
                                            "(BRK = opcode 0: size 1 instead of 2) and are reported under C14, not as a C01 violation")
    # ---- obligation: examples
    ev = os.path.join(vlib.RUN, "C01_examples.v")
    vlib.write_if_changed(ev, EXAMPLES_V)
    fresh = vlib.static_vo_fresh(ev)
    rc, out, dt, cached = vlib.coqc(ev, timeout=600)
    ck.oblige("Spec816 sanity examples (WDC manual: BCD, XBA, MVN, REP/SEP, JSL/RTL, bank/page/stack wraps) hold by vm_compute",
              rc == 0 and fresh, out if rc != 0 else ("static library stale: run ./check --setup" if not fresh else ""))
    if rc == 0:
        ck.assumptions += vlib.parse_assumptions(out)
    # ---- obligation: refinement theorems
    if gen_ok:
        props_obligations(ck)
    # ---- falsifier: differential run
    driver, derr = build_spec_driver()
    if driver is None:
        ck.oblige("extract Spec816 and build the differential driver", False, derr)
    diffs, stats, gen_stats = [], {}, {}
    if harness and driver and gen_ok:
        fields = field_names()
        diffs, stats, gen_stats = differential(ck, harness, driver, fields, ck.tier, ck.seed)
        compared = sum(s.get("compared", 0) for s in stats.values())
        ck.oblige("differential run executed (extracted Spec816.step vs both real interpreters)", compared > 0, "no case compared")
        # one violation per disagreement class, with the smallest case
        byclass = {}
        for key, info in diffs:
            byclass.setdefault(key, []).append(info)
        for key in sorted(byclass):
            infos = byclass[key]
            best = None
            for info in infos[:400]:
                cl = case_line(info["dir"], info["case"])
                if cl is None:
                    continue
                score = (info["stream"] != "corpus", int(cl.split()[2]), info["step"], len(cl))
                if best is None or score < best[0]:
                    best = (score, info, cl)
            if best is None:
                continue
            _, info, cl = best
            text = "%s: %d disagreeing steps (%s).  Smallest: %s" % (
                KNOWN_CLASSES.get(key, "Spec816 and the interpreter disagree"), len(infos),
                ", ".join(sorted({i["interp"] for i in infos})), info["line"])
            ck.violation(key, "counterexample", text,
                         {"fields": info["fields"], "case": cl, "class": key, "interp": info["interp"], "step": info["step"],
                          "diff": info["line"]})
        opcounts = {}
        for s in stats.values():
            for k, v in s.items():
                if k.startswith("op_"):
                    opcounts[k[3:]] = opcounts.get(k[3:], 0) + v
        classes = {}
        for s in stats.values():
            for k, v in s.items():
                if k.startswith("class_") or k.startswith("skipped_"):
                    classes[k] = classes.get(k, 0) + v
        ck.cov.update({
            "evaluations": compared,
            "distinct_nontrivial": stats.get("primary", {}).get("distinct_feature_vectors", 0),
            "nontrivial_steps": sum(s.get("nontrivial", 0) for s in stats.values()),
            "traces_validated_against_impl": compared,
            "rule": "evaluations = steps of a real interpreter (primary + alternative) whose pre-state is in the domain of C01 (E=0, no "
                    "pending interrupt, flags in {0,1}, valid BCD for decimal ADC/SBC) and that were compared with Spec816.step; "
                    "distinct_nontrivial = distinct (opcode, m, x, set of boundary classes) vectors among the primary interpreter's compared steps, "
                    "measured by the driver and summed over the generator streams (corpus, structured, directed)",
            "opcodes_covered": len(opcounts),
            "per_opcode_min": min(opcounts.values()) if opcounts else 0,
            "per_opcode_max": max(opcounts.values()) if opcounts else 0,
            "per_opcode": opcounts,
            "boundary_class_distribution": classes,
            "generator_streams": gen_stats,
            "disagreeing_steps": len(diffs),
            "disagreement_classes": {k: len(v) for k, v in byclass.items()},
            "exhaustive": False,
            "modelled": "specification: coq/Spec/ISA.v + coq/Spec/Spec816.v (hand-written, independent of the Go sources); "
                        "opcode tables regenerated from emulator/cpu65c816/cpu.go and emulator/cpualt/cpu.go on this run",
            "checker_cmd": "coqc build/work/Run/C01_tables.v C01_examples.v C01_props.v; build/spec816/specdriver cases.txt go65.txt|goalt.txt",
        })
        for key in sorted(byclass)[:6]:
            ck.sample({"disagreement_class": key, "steps": len(byclass[key]), "example": byclass[key][0]["line"][:600]})
    ck.sample({"theorem (full statement, goal of the build)":
               "C01_step: forall s m, wf s -> E s = 0 -> no_pending_interrupt s -> mem_ok m -> bcd_defined (abs s) m -> "
               "match Step s with Panic => False | Ok _ s' => abs s' =[V if decimal] Spec816.step_state (abs s) m /\\ "
               "forall a, mem s' a = Spec816.step_mem (abs s) m a end",
               "proved": "C01_step (all 256 opcodes when proved_fraction = 256/256), C01_run, and their transport to the regenerated "
                         "models of both interpreters (C01_step_primary, C01_step_alternative)"})
    broken = [o["name"] for o in ck.obligations if not o["discharged"]]
    if broken and not ck.violations:
        ck.violation("obligation", "broken-theorem", "differential run found no failing input; broken: " + "; ".join(broken),
                     {"broken_obligations": broken})
    bad = [a for a in vlib.foreign_assumptions(ck.assumptions) if a.split(".")[-1] != "functional_extensionality_dep"]
    ck.oblige("Print Assumptions: C01_step / C01_run / C01_step_primary closed under the global context; C01_step_alternative depends on "
              "functional_extensionality_dep only (standard library; through C02_step_eq)", not bad, "unexpected: %s" % bad)
    hy = hygiene()
    ck.oblige("no Axiom/Parameter/Admitted/admit/guard switches in Spec/ISA.v, Spec816*.v, Props/C01*.v", not hy, "; ".join(hy))


def replay(pid, rp):
    r = rp.get("replay", rp)
    if "case" not in r:
        print("replay file names a broken obligation, no concrete input:", json.dumps(r)[:600])
        return 1
    harness, herr = vlib.build_harness()
    driver, derr = build_spec_driver()
    if harness is None or driver is None:
        print(herr or derr)
        return 2
    d = os.path.join(SPECDIR, "replay")
    shutil.rmtree(d, ignore_errors=True)
    os.makedirs(d)
    open(os.path.join(d, "in.txt"), "w").write("F " + ",".join(r["fields"]) + "\n" + r["case"] + "\n")
    rc, out, _ = vlib.sh([harness, "specreplay", "-in", os.path.join(d, "in.txt"), "-out", d], timeout=600)
    if rc != 0:
        print(out)
        return 2
    bad = 0
    for (label, gofile) in (("primary", "go65.txt"), ("alt", "goalt.txt")):
        rc, out = run_driver(driver, d, r["fields"], label, gofile)
        for line in out.splitlines():
            if line.startswith("DIFF "):
                print(line)
                bad += 1
    print("replay: %d disagreeing step(s) between Spec816 and the interpreters on the current tree" % bad)
    return 1 if bad else 0
