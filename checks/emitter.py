"""Emitter properties C19 (all-or-nothing at capacity, dry-run emitters) and C16 (Clone + Append).

Model: coq/Model/Emitter.v (hand-written, routine for routine).  Theorems: coq/Props/EmitterProps.v
(static, compiled by ./check --setup; re-stated and `Print Assumptions`-ed per run).  Tie: the Go harness
(harness/emittool.go) drives the REAL *asm.Emitter with generated call histories and prints what it
observed after every call; this module writes the cases as Gallina data and Coq checks
`bad_cases <variant> cases = []` by vm_compute (Model/EmitterTie.v), sharded and compiled in parallel.
The model has one switch, `Append copies base`; which value describes the tree under test is decided by the
tie on a built-in discriminating history.  Falsifiers: `harness emitcheck c19|c16` state the properties
directly on the real code (no model) and shrink a failing history."""
import json
import os
import re
import vlib

CORPUS = os.path.join(vlib.ROOT, "corpus")

HDR = """From Coq Require Import ZArith NArith List Bool.
From Lib Require Import ZList.
From Model Require Import Emitter EmitterTie.
Import ListNotations.
Local Open Scope Z_scope.
"""

KIND = {"ins1": "KIns1", "ins2": "KIns2", "ins2l": "KIns2L", "ins3": "KIns3", "ins3l": "KIns3L", "ins4": "KIns4",
        "base": "KBase", "db": "KDB", "comment": "KComment", "label": "KLabel"}
GUARD = {"none": "GNone", "m8": "GM8", "m16": "GM16", "x8": "GX8", "x16": "GX16"}


def z(v):
    return str(v) if v >= 0 else "(%d)" % v


def zl(vs):
    return "[" + "; ".join(z(v) for v in vs) + "]"


def bl(b):
    return "true" if b else "false"


def g_target(nil, cap, fill):
    return "None" if nil else "(tgt %d %d)" % (cap, fill)


def g_op(rec):
    st = rec["step"]
    k = st["k"]
    if k == "call":
        o = rec["op"]
        tr = {"none": "TNone", "rep": "(TRep %d)" % o["c"], "sep": "(TSep %d)" % o["c"]}[o["track"]]
        return "(SOp (OIns %s %s %d%%N %s %s))" % (o["kind"], zl(o["bytes"]), o["label"], tr, GUARD[o["guard"]])
    if k == "setbase":
        return "(SOp (OSetBase %s))" % z(st.get("v", 0))
    if k == "label":
        return "(SOp (OLabel %d%%N))" % st.get("v", 0)
    if k == "bytes":
        return "(SOp (OEmitBytes %s))" % zl(st.get("d") or [])
    if k == "comment":
        return "(SOp (OComment %d%%N))" % st.get("v", 0)
    if k == "arep":
        return "(SOp (OAssumeREP %s))" % z(st.get("v", 0))
    if k == "asep":
        return "(SOp (OAssumeSEP %s))" % z(st.get("v", 0))
    if k == "clone":
        return "(SClone %s)" % g_target(st.get("nil", False), st.get("cap", 0), st.get("fill", 0))
    if k == "append":
        return "SAppend"
    if k == "finalize":
        return "SFinalize"
    raise ValueError("step kind " + k)


def g_obs(o):
    labels = "[" + "; ".join("None" if v < 0 else "Some %d" % v for v in o["labels"]) + "]"
    return "(mkObs %s %d %d %d %d %d %s %s %s)" % (zl(o["bytes"]), o["len"], o["cap"], o["pc"], o["flags"], o["base"],
                                                    bl(o["m16"]), bl(o["x16"]), labels)


def g_render(r):
    ls = "; ".join("mkR %s %d %s %d%%N %s" % (KIND[x["k"]], x["addr"], zl(x["bytes"]), x["l"], bl(x["warn"])) for x in r["lines"])
    return "([%s], %s)" % (ls, bl(r["panic"]))


def g_fin(f):
    c = f["cls"]
    if c == "ok":
        return "FOk"
    if c == "unresolved":
        return "(FUnresolved %d%%N)" % f["l"]
    if c == "toofar":
        return "(FTooFar %d %d)" % (f["from"], f["to"])
    if c == "panic":
        return "FPanic"
    raise ValueError("finalize class " + c)


def g_case(c):
    steps = []
    for r in c["steps"]:
        if r.get("same"):
            sec = "SSame"
        elif r.get("second") is not None:
            sec = "(SFull %s)" % g_obs(r["second"])
        else:
            sec = "SNone"
        steps.append("mkS %s %s %s %s" % (g_op(r), bl(r["panic"]), g_obs(r["top"]), sec))
    f = c["final"]
    fin = "(mkF %s %s %s %s %s %s)" % (g_render(f["hex1"]), g_render(f["text1"]), g_fin(f["fin"]), zl(f["bytes"]),
                                       g_render(f["hex2"]), g_render(f["text2"]))
    return "(mkC %d %s %s %d%%N\n  [%s]\n  %s)" % (c["id"], bl(c["gen"]), g_target(c["nil"], c["cap"], c["fill"]), c["nl"],
                                                 ";\n   ".join(steps), fin)


def shard_text(cases, variant):
    return (HDR + "Definition cases : list case := [\n" + ";\n".join(g_case(c) for c in cases) + "].\n"
            + "Definition bad := Eval vm_compute in bad_cases %s cases.\nPrint bad.\n" % bl(variant)
            + "Lemma tie : bad = [].\nProof. reflexivity. Qed.\n")


def sizes(tier):
    if tier == "thorough":
        return {"cases": 24000, "shard": 500, "falsify": 1500}
    return {"cases": 3200, "shard": 200, "falsify": 250}


def run_tie(ck, harness):
    """Runs the correspondence.  Returns dict(ok, variant, n, feat, census, detail, mismatches)."""
    sz = sizes(ck.tier)
    res = {"ok": False, "variant": None, "n": 0, "feat": {}, "census": {}, "detail": "", "tags": {}}
    rc, out, dt = vlib.sh([harness, "emitcases", str(ck.seed), str(sz["cases"]), ck.tier, CORPUS], timeout=900)
    cases, census = [], {}
    for line in out.splitlines():
        if line.startswith("CENSUS "):
            census = json.loads(line[7:])
        elif line.startswith("{"):
            cases.append(json.loads(line))
        elif line.startswith("ERROR"):
            res["detail"] = line
            return res
    if rc != 0 or not cases:
        res["detail"] = "emitcases failed rc=%s: %s" % (rc, out[-600:])
        return res
    errs = [c for c in cases if c.get("err")]
    if errs:
        res["detail"] = "harness could not describe case %d (%s): %s" % (errs[0]["id"], errs[0]["tag"], errs[0]["err"])
        res["bad_case"] = errs[0]
        return res
    res["n"], res["census"] = len(cases), census
    for c in cases:
        for f in c.get("feat") or []:
            res["feat"][f] = res["feat"].get(f, 0) + 1
        t = c["tag"].split(":")[0] if c["tag"].startswith(("corpus", "builtin")) else c["tag"]
        res["tags"][t] = res["tags"].get(t, 0) + 1
    res["cases"] = cases
    os.makedirs(vlib.RUN, exist_ok=True)
    # which Append does the tree implement?  decided on the built-in discriminating history
    probe = [c for c in cases if c["tag"].startswith("builtin:append-base")]
    if not probe:
        res["detail"] = "harness produced no builtin:append-base case"
        return res

    def variant_job(v):
        p = os.path.join(vlib.RUN, "EmitVariant_%s.v" % bl(v))
        vlib.write_if_changed(p, shard_text(probe, v))
        return vlib.coqc(p, timeout=300)
    rv = vlib.parallel([lambda: variant_job(False), lambda: variant_job(True)])
    okf, okt = rv[0][0] == 0, rv[1][0] == 0
    if okf == okt:
        res["detail"] = ("model agrees with the code on the Append/base probe under %s variants of Append:\n%s\n%s"
                         % ("both" if okf else "neither", rv[0][1][-700:], rv[1][1][-700:]))
        res["mismatch_cases"] = probe
        return res
    variant = okt
    res["variant"] = variant
    shards = [cases[i:i + sz["shard"]] for i in range(0, len(cases), sz["shard"])]
    for n in os.listdir(vlib.RUN):
        m = re.match(r"Cases_EM_(\d+)\.", n)
        if m and int(m.group(1)) >= len(shards):
            os.remove(os.path.join(vlib.RUN, n))

    def job(i):
        p = os.path.join(vlib.RUN, "Cases_EM_%d.v" % i)
        vlib.write_if_changed(p, shard_text(shards[i], variant))
        return vlib.coqc(p, timeout=1200)
    rs = vlib.parallel([(lambda i=i: job(i)) for i in range(len(shards))])
    bad = [(i, r) for i, r in enumerate(rs) if r[0] != 0]
    res["secs"] = round(sum(r[2] for r in rs), 1)
    res["cached"] = sum(1 for r in rs if r[3])
    res["shards"] = len(shards)
    if bad:
        i, r = bad[0]
        ids = [int(x) for x in re.findall(r"\((\d+),\s*\[", r[1])]
        res["detail"] = "shard %d: %s" % (i, r[1][-1200:])
        res["mismatch_cases"] = [c for c in shards[i] if c["id"] in ids][:3]
        return res
    res["ok"] = True
    return res


TRUSTED = [
    "Coq 8.16.1 kernel incl. its bytecode VM (vm_compute); no axioms (Print Assumptions: closed under the global context)",
    "hand-written model coq/Model/Emitter.v, tied to the compiled code on this run by differential execution (see traces_validated_against_impl and the input distribution); the tie is testing, the theorems are about the model",
    "harness/emittool.go: generator, per-call classification of instruction methods by probing separate instances of the real emitter, listing-record parsers",
    "modelled, not verified: Go semantics of slices (targets have cap = len), copy, maps (lookup/insert/delete; iteration order a parameter), uint32 wrap-around, fmt/xbuf rendering (cosmetic text not compared)",
    "absence of aliasing between an emitter and its clone is a fact about the Go heap that the functional model cannot express: it rests on the tie (the emitter below the top of the stack is observed after every call) and on the falsifier",
]


def tie_obligations(ck, harness):
    t = run_tie(ck, harness)
    name = "tie: Model/Emitter.v = compiled *asm.Emitter on %d generated scripts (Lemma tie : bad = [] in every shard)" % t["n"]
    ck.oblige(name, t["ok"], t["detail"])
    ck.cov["traces_validated_against_impl"] = t["n"] if t["ok"] else 0
    ck.cov["tie"] = {k: t.get(k) for k in ("n", "shards", "secs", "cached", "variant", "feat", "tags", "census")}
    return t


def falsify(ck, harness, which):
    sz = sizes(ck.tier)
    rc, out, dt = vlib.sh([harness, "emitcheck", which, str(ck.seed), str(sz["falsify"]), ck.tier, CORPUS], timeout=1500)
    fails, done = [], ""
    for line in out.splitlines():
        if line.startswith("FAIL "):
            fails.append(json.loads(line[5:]))
        elif line.startswith("DONE"):
            done = line
    if not done:
        ck.oblige("falsifier emitcheck %s ran to completion" % which, False, out[-800:])
    ck.cov["falsifier"] = done
    m = re.search(r"histories=(\d+) evaluations=(\d+)", done)
    stats = (int(m.group(1)), int(m.group(2))) if m else (0, 0)
    return fails, stats


def run_c19(ck):
    ck.trusted = list(TRUSTED)
    raise NotImplementedError


def run_c16(ck):
    ck.trusted = list(TRUSTED)
    raise NotImplementedError


def replay(pid, rp):
    harness, herr = vlib.build_harness()
    if harness is None:
        print(herr)
        return 1
    r = rp.get("replay", {})
    if "script" not in r:
        print(rp.get("detail"))
        return 1
    p = os.path.join(vlib.BUILD, "replay_%s.json" % pid)
    json.dump(r, open(p, "w"))
    rc, out, _ = vlib.sh([harness, "emitreplay", pid.lower(), p], timeout=120)
    print(out.strip())
    return 1 if rc != 0 else 0
