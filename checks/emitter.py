"""Emitter properties C19 (all-or-nothing at capacity, dry-run emitters) and C16 (Clone + Append).

Model: coq/Model/Emitter.v (hand-written, routine for routine).  Theorems: coq/Props/EmitterProps.v
(static, compiled by ./check --setup; re-stated and `Print Assumptions`-ed per run).  Tie: the Go harness
(harness/emittool.go) drives the REAL *asm.Emitter with generated call histories and prints what it
observed after every call; this module writes the cases as Gallina data and Coq checks
`bad_cases <variant> cases = []` by vm_compute (Model/EmitterTie.v), sharded and compiled in parallel.
The model has one switch, `Append copies base`; which value describes the tree under test is decided by the
tie on a built-in discriminating history.  Falsifiers: `harness emitcheck c19|c16` state the properties
directly on the real code (no model) and shrink a failing history."""
import json
import os
import re
import vlib

CORPUS = os.path.join(vlib.ROOT, "corpus")

HDR = """From Coq Require Import ZArith NArith List Bool.
From Lib Require Import ZList.
From Model Require Import Emitter EmitterTie.
Import ListNotations.
Local Open Scope Z_scope.
"""

KIND = {"ins1": "KIns1", "ins2": "KIns2", "ins2l": "KIns2L", "ins3": "KIns3", "ins3l": "KIns3L", "ins4": "KIns4",
        "base": "KBase", "db": "KDB", "comment": "KComment", "label": "KLabel"}
GUARD = {"none": "GNone", "m8": "GM8", "m16": "GM16", "x8": "GX8", "x16": "GX16"}


def z(v):
    return str(v) if v >= 0 else "(%d)" % v


def zl(vs):
    return "[" + "; ".join(z(v) for v in vs) + "]"


def hx(vs):
    """a byte list as one hexadecimal literal (decoded by EmitterTie.hx)"""
    if not vs:
        return "[]"
    if any(v < 0 or v > 255 for v in vs):
        return zl(vs)
    return "(hx 0x1" + "".join("%02x" % v for v in vs) + ")"


def bl(b):
    return "true" if b else "false"


def g_target(nil, cap, fill):
    return "None" if nil else "(tgt %d %d)" % (cap, fill)


def g_op(rec):
    st = rec["step"]
    k = st["k"]
    if k == "call":
        o = rec["op"]
        tr = {"none": "TNone", "rep": "(TRep %d)" % o["c"], "sep": "(TSep %d)" % o["c"]}[o["track"]]
        return "(SOp (OIns %s %s %d%%N %s %s))" % (o["kind"], hx(o["bytes"]), o["label"], tr, GUARD[o["guard"]])
    if k == "setbase":
        return "(SOp (OSetBase %s))" % z(st.get("v", 0))
    if k == "label":
        return "(SOp (OLabel %d%%N))" % st.get("v", 0)
    if k == "bytes":
        return "(SOp (OEmitBytes %s))" % hx(st.get("d") or [])
    if k == "comment":
        return "(SOp (OComment %d%%N))" % st.get("v", 0)
    if k == "arep":
        return "(SOp (OAssumeREP %s))" % z(st.get("v", 0))
    if k == "asep":
        return "(SOp (OAssumeSEP %s))" % z(st.get("v", 0))
    if k == "clone":
        return "(SClone %s)" % g_target(st.get("nil", False), st.get("cap", 0), st.get("fill", 0))
    if k == "append":
        return "SAppend"
    if k == "finalize":
        return "SFinalize"
    raise ValueError("step kind " + k)


def g_obs(o, bytes_=None):
    labels = "[" + "; ".join("None" if v < 0 else "Some %d" % v for v in o["labels"]) + "]"
    return "(mkObs %s %d %d %d %d %d %s %s %s)" % (hx(o["bytes"] if bytes_ is None else bytes_), o["len"], o["cap"], o["pc"], o["flags"], o["base"],
                                                    bl(o["m16"]), bl(o["x16"]), labels)


def g_render(r):
    ls = "; ".join("mkR %s %d %s %d%%N %s" % (KIND[x["k"]], x["addr"], hx(x["bytes"]), x["l"], bl(x["warn"])) for x in r["lines"])
    return "([%s], %s)" % (ls, bl(r["panic"]))


def g_fin(f):
    c = f["cls"]
    if c == "ok":
        return "FOk"
    if c == "unresolved":
        return "(FUnresolved %d%%N)" % f["l"]
    if c == "toofar":
        return "(FTooFar %d %d)" % (f["from"], f["to"])
    if c == "panic":
        return "FPanic"
    raise ValueError("finalize class " + c)


def g_case(c):
    steps = []
    prev = []
    for r in c["steps"]:
        if r.get("same"):
            sec = "SSame"
        elif r.get("second") is not None:
            sec = "(SFull %s)" % g_obs(r["second"])
        else:
            sec = "SNone"
        cur = r["top"]["bytes"]
        keep = 0
        while keep < len(prev) and keep < len(cur) and prev[keep] == cur[keep]:
            keep += 1
        steps.append("mkS %s %s %d %s %s" % (g_op(r), bl(r["panic"]), keep, g_obs(r["top"], cur[keep:]), sec))
        prev = cur
    f = c["final"]
    fin = "(mkF %s %s %s %s %s %s)" % (g_render(f["hex1"]), g_render(f["text1"]), g_fin(f["fin"]), hx(f["bytes"]),
                                       g_render(f["hex2"]), g_render(f["text2"]))
    return "(mkC %d %s %s %d%%N\n  [%s]\n  %s)" % (c["id"], bl(c["gen"]), g_target(c["nil"], c["cap"], c["fill"]), c["nl"],
                                                 ";\n   ".join(steps), fin)


def shard_text(cases, variant):
    return (HDR + "Definition cases : list case := [\n" + ";\n".join(g_case(c) for c in cases) + "].\n"
            + "Definition bad := Eval vm_compute in bad_cases %s cases.\nPrint bad.\n" % bl(variant)
            + "Lemma tie : bad = [].\nProof. reflexivity. Qed.\n")


def sizes(tier):
    if tier == "thorough":
        return {"cases": 24000, "shard": 500, "falsify": 1500}
    return {"cases": 3200, "shard": 200, "falsify": 250}


def run_tie(ck, harness):
    """Runs the correspondence.  Returns dict(ok, variant, n, feat, census, detail, mismatches)."""
    sz = sizes(ck.tier)
    res = {"ok": False, "variant": None, "n": 0, "feat": {}, "census": {}, "detail": "", "tags": {}}
    rc, out, dt = vlib.sh([harness, "emitcases", str(ck.seed), str(sz["cases"]), ck.tier, CORPUS], timeout=900)
    cases, census = [], {}
    for line in out.splitlines():
        if line.startswith("CENSUS "):
            census = json.loads(line[7:])
        elif line.startswith("{"):
            cases.append(json.loads(line))
        elif line.startswith("ERROR"):
            res["detail"] = line
            return res
    if rc != 0 or not cases:
        res["detail"] = "emitcases failed rc=%s: %s" % (rc, out[-600:])
        return res
    errs = [c for c in cases if c.get("err")]
    if errs:
        res["detail"] = "harness could not describe case %d (%s): %s" % (errs[0]["id"], errs[0]["tag"], errs[0]["err"])
        res["bad_case"] = errs[0]
        return res
    res["n"], res["census"] = len(cases), census
    for c in cases:
        for f in c.get("feat") or []:
            res["feat"][f] = res["feat"].get(f, 0) + 1
        t = c["tag"].split(":")[0] if c["tag"].startswith(("corpus", "builtin")) else c["tag"]
        res["tags"][t] = res["tags"].get(t, 0) + 1
    res["cases"] = cases
    os.makedirs(vlib.RUN, exist_ok=True)
    # which Append does the tree implement?  decided on the built-in discriminating history
    probe = [c for c in cases if c["tag"].startswith("builtin:append-base")]
    if not probe:
        res["detail"] = "harness produced no builtin:append-base case"
        return res

    def variant_job(v):
        p = os.path.join(vlib.RUN, "EmitVariant_%s.v" % bl(v))
        vlib.write_if_changed(p, shard_text(probe, v))
        return vlib.coqc(p, timeout=300)
    rv = vlib.parallel([lambda: variant_job(False), lambda: variant_job(True)])
    okf, okt = rv[0][0] == 0, rv[1][0] == 0
    if okf == okt:
        res["detail"] = ("model agrees with the code on the Append/base probe under %s variants of Append:\n%s\n%s"
                         % ("both" if okf else "neither", rv[0][1][-700:], rv[1][1][-700:]))
        res["mismatch_cases"] = probe
        return res
    variant = okt
    res["variant"] = variant
    shards = [cases[i:i + sz["shard"]] for i in range(0, len(cases), sz["shard"])]
    for n in os.listdir(vlib.RUN):
        m = re.match(r"Cases_EM_(\d+)\.", n)
        if m and int(m.group(1)) >= len(shards):
            os.remove(os.path.join(vlib.RUN, n))

    def job(i):
        p = os.path.join(vlib.RUN, "Cases_EM_%d.v" % i)
        vlib.write_if_changed(p, shard_text(shards[i], variant))
        return vlib.coqc(p, timeout=1200)
    rs = vlib.parallel([(lambda i=i: job(i)) for i in range(len(shards))])
    bad = [(i, r) for i, r in enumerate(rs) if r[0] != 0]
    res["secs"] = round(sum(r[2] for r in rs), 1)
    res["cached"] = sum(1 for r in rs if r[3])
    res["shards"] = len(shards)
    if bad:
        i, r = bad[0]
        ids = [int(x) for x in re.findall(r"\((\d+),\s*\[", r[1])]
        res["detail"] = "shard %d: %s" % (i, r[1][-1200:])
        res["mismatch_cases"] = [c for c in shards[i] if c["id"] in ids][:3]
        return res
    res["ok"] = True
    return res


TRUSTED = [
    "Coq 8.16.1 kernel incl. its bytecode VM (vm_compute); no axioms (Print Assumptions: closed under the global context)",
    "hand-written model coq/Model/Emitter.v, tied to the compiled code on this run by differential execution (see traces_validated_against_impl and the input distribution); the tie is testing, the theorems are about the model",
    "harness/emittool.go: generator, per-call classification of instruction methods by probing separate instances of the real emitter, listing-record parsers",
    "modelled, not verified: Go semantics of slices (targets have cap = len), copy, maps (lookup/insert/delete; iteration order a parameter), uint32 wrap-around, fmt/xbuf rendering (cosmetic text not compared)",
    "absence of aliasing between an emitter and its clone is a fact about the Go heap that the functional model cannot express: it rests on the tie (the emitter below the top of the stack is observed after every call) and on the falsifier",
]


def tie_obligations(ck, harness):
    t = run_tie(ck, harness)
    name = "tie: Model/Emitter.v = compiled *asm.Emitter on %d generated scripts (Lemma tie : bad = [] in every shard)" % t["n"]
    ck.oblige(name, t["ok"], t["detail"])
    ck.cov["traces_validated_against_impl"] = t["n"] if t["ok"] else 0
    ck.cov["tie"] = {k: t.get(k) for k in ("n", "shards", "secs", "cached", "variant", "feat", "tags", "census")}
    return t


def falsify(ck, harness, which):
    sz = sizes(ck.tier)
    rc, out, dt = vlib.sh([harness, "emitcheck", which, str(ck.seed), str(sz["falsify"]), ck.tier, CORPUS], timeout=1500)
    fails, done = [], ""
    for line in out.splitlines():
        if line.startswith("FAIL "):
            fails.append(json.loads(line[5:]))
        elif line.startswith("DONE"):
            done = line
    if not done:
        ck.oblige("falsifier emitcheck %s ran to completion" % which, False, out[-800:])
    ck.cov["falsifier"] = done
    m = re.search(r"histories=(\d+) evaluations=(\d+)", done)
    stats = (int(m.group(1)), int(m.group(2))) if m else (0, 0)
    return fails, stats


PROP_HDR = """From Coq Require Import ZArith NArith List Bool.
From Lib Require Import ZList.
From Model Require Import Emitter.
From Props Require Import EmitterProps.
Import ListNotations.
Local Open Scope Z_scope.
"""

C19_V = PROP_HDR + """(* C19 against Model/Emitter.v; the model is tied to the tree under test by the Cases_EM_* files of this run *)
(* Len <= Cap in every state reachable through NewEmitter, any accepted or refused call, Clone, Append, Finalize *)
Theorem C19_len_le_cap : forall e, reachable e -> 0 <= Len e <= Cap e.
Proof. exact len_le_cap. Qed.
(* a refused call leaves bytes, Len, Cap, PC, every label and the base as they were.  Tracked flags and listing
   records are NOT in the list: REP/SEP update the tracker and EmitBytes appends its listing lines before the
   capacity check (Examples refused_rep_updates_tracker, refused_emitbytes_appends_listing) *)
Theorem C19_refused_call_leaves : forall o e e', exec o e = Refused e' ->
  Bytes e' = Bytes e /\\ Len e' = Len e /\\ Cap e' = Cap e /\\ PC e' = PC e /\\
  (forall l, GetLabel l e' = GetLabel l e) /\\ GetBase e' = GetBase e.
Proof. exact refused_leaves. Qed.
Theorem C19_refused_append_leaves : forall cb a e a', Append cb a e = Refused a' -> a' = a.
Proof. exact append_refused_leaves. Qed.
(* which calls are refused: a width guard or a duplicate label, or -- only with a non-nil target -- capacity *)
Theorem C19_refused_iff : forall o e, is_refused (exec o e) = pre_refused o e || cap_refused o e.
Proof. exact refused_iff. Qed.
(* nil target vs a target in which nothing is refused for capacity: same PC, labels, tracked flags and same refused
   calls after EVERY prefix of ANY history; the nil-target emitter counts nothing *)
Theorem C19_dry_run : forall ops b g k,
  no_cap_refusal ops (new_em (Some b) g) = true ->
  let dry := run (firstn k ops) (new_em None g) in
  let real := run (firstn k ops) (new_em (Some b) g) in
  PC (fst dry) = PC (fst real) /\\ (forall l, GetLabel l (fst dry) = GetLabel l (fst real)) /\\
  Flags (fst dry) = Flags (fst real) /\\ IsM16bit (fst dry) = IsM16bit (fst real) /\\
  IsX16bit (fst dry) = IsX16bit (fst real) /\\ snd dry = snd real /\\ Len (fst dry) = 0.
Proof. exact dry_run_agrees. Qed.
(* "big enough" is implied by: capacity >= sum of the sizes of all instructions and data blocks of the history *)
Theorem C19_room_suffices : forall ops e, inv e -> buf e <> None ->
  n e + total_demand ops <= zlen (code e) -> no_cap_refusal ops e = true.
Proof. exact room_suffices. Qed.
Print Assumptions C19_len_le_cap.
Print Assumptions C19_refused_call_leaves.
Print Assumptions C19_refused_append_leaves.
Print Assumptions C19_refused_iff.
Print Assumptions C19_dry_run.
Print Assumptions C19_room_suffices.
"""

C16_STMT = """forall ops k target0 g target,
  let e0 := new_em target0 g in
  let a := fst (run (firstn k ops) e0) in
  let c := fst (run (skipn k ops) (Clone target a)) in
  (target0 = None <-> target = None) ->
  no_cap_refusal (skipn k ops) a = true ->
  no_cap_refusal (skipn k ops) (Clone target a) = true ->
  is_refused (Append %s a c) = false /\\
  observe (state_of (Append %s a c)) = observe (fst (run ops e0))"""

C16_TRUE_V = PROP_HDR + """(* C16 for the Append the tree implements (decided by the tie of this run): base is copied *)
(* observe = Bytes, Len, Cap, PC, Flags, GetBase, every label, both listings, and for every pair of visiting
   orders the Finalize outcome, the finalized bytes and both listings after Finalize *)
Theorem C16_clone_append : """ + (C16_STMT % ("true", "true")) + """.
Proof. exact C16_holds_with_base_copy. Qed.
(* stronger, state level: the two emitters are EQUAL, and the same calls were refused *)
Theorem C16_clone_append_state : forall t a target,
  inv a -> maps_sorted a -> (buf a = None <-> target = None) ->
  no_cap_refusal t a = true -> no_cap_refusal t (Clone target a) = true ->
  Append true a (fst (run t (Clone target a))) = Done (fst (run t a)) /\\
  snd (run t (Clone target a)) = snd (run t a).
Proof. exact clone_append_state. Qed.
Theorem C16_room : forall ops k b g bc,
  let e0 := new_em (Some b) g in
  let a := fst (run (firstn k ops) e0) in
  let c := fst (run (skipn k ops) (Clone (Some bc) a)) in
  total_demand ops <= zlen b -> total_demand (skipn k ops) <= zlen bc ->
  observe (state_of (Append true a c)) = observe (fst (run ops e0)).
Proof. exact clone_append_room. Qed.
Theorem C16_refused_append_leaves : forall cb a e a', Append cb a e = Refused a' -> a' = a.
Proof. exact append_refused_leaves. Qed.
Theorem C16_append_refused_iff : forall cb a e, is_refused (Append cb a e) = (zlen (code a) <? n a + n e).
Proof. exact append_refused_iff. Qed.
Print Assumptions C16_clone_append.
Print Assumptions C16_clone_append_state.
Print Assumptions C16_room.
Print Assumptions C16_refused_append_leaves.
Print Assumptions C16_append_refused_iff.
"""

C16_FALSE_V = PROP_HDR + """(* the tree's Append does not copy base: for that emitter C16 is REFUTED (witness: SetBase in the cloned tail) *)
Theorem C16_refuted : ~ (""" + (C16_STMT % ("false", "false")) + """).
Proof. exact C16_fails_without_base_copy. Qed.
Print Assumptions C16_refuted.
"""


def prop_file(ck, name, text, thms):
    """Compile a per-run property file; one obligation per theorem."""
    pv = os.path.join(vlib.RUN, name)
    os.makedirs(vlib.RUN, exist_ok=True)
    vlib.write_if_changed(pv, text)
    fresh = vlib.static_vo_fresh(pv)
    ck.oblige("static library up to date (coq/Model/Emitter.vo, coq/Props/EmitterProps.vo newer than their sources)", fresh,
              "run ./check --setup")
    rc, out, dt, cached = vlib.coqc(pv, timeout=600)
    for t in thms:
        ck.oblige("Theorem " + t, rc == 0 and fresh, out)
    blocks = vlib.parse_assumptions(out)
    ck.assumptions += blocks
    bad = vlib.foreign_assumptions(blocks)
    ck.oblige("Print Assumptions: closed under the global context (%d theorems)" % len(blocks), rc == 0 and not bad and len(blocks) > 0,
              "unexpected: %s" % bad)
    return rc == 0 and fresh and not bad


def hygiene(ck):
    bad = []
    for rel in ("coq/Model/Emitter.v", "coq/Model/EmitterTie.v", "coq/Props/EmitterProps.v"):
        src = open(os.path.join(vlib.ROOT, rel)).read()
        for m in re.finditer(r"\b(Axiom|Parameter|Conjecture|Admitted|admit|Variable|Hypothesis|Unset Guard Checking|Unset Universe Checking)\b", src):
            bad.append("%s: %s" % (rel, m.group(1)))
    ck.oblige("no Axiom/Parameter/Admitted/admit/guard switches in the emitter model and proofs", not bad, "; ".join(bad))


def compact(c):
    """A case as a short readable history."""
    out = []
    for r in c["steps"]:
        st = r["step"]
        k = st["k"]
        if k == "call":
            t = "%s(%s)" % (st["m"], ",".join(str(x) for x in st.get("a") or []))
        elif k == "bytes":
            t = "EmitBytes[%d]" % len(st.get("d") or [])
        elif k == "clone":
            t = "Clone(nil)" if st.get("nil") else "Clone(cap %d)" % st.get("cap", 0)
        elif k in ("append", "finalize"):
            t = k.capitalize()
        else:
            t = "%s(%s)" % (k, st.get("v", 0))
        out.append(t + ("!" if r["panic"] else ""))
    return {"id": c["id"], "tag": c["tag"], "listing": c["gen"], "target": "nil" if c["nil"] else "cap %d" % c["cap"],
            "history ('!' = refused)": " ".join(out), "finalize": c["final"]["fin"]["cls"]}


def distinct(cases, pred):
    seen = set()
    for c in cases:
        if pred(c):
            seen.add(vlib.sha(json.dumps([c["gen"], c["nil"], c["cap"], [(r["step"], r["panic"]) for r in c["steps"]]], sort_keys=True)))
    return len(seen)


def common(ck, pid):
    ck.trusted = list(TRUSTED)
    harness, herr = vlib.build_harness()
    if harness is None:
        ck.oblige("build Go harness against the tree under test", False, herr)
        return None, None
    hygiene(ck)
    t = tie_obligations(ck, harness)
    return harness, t


def report_fails(ck, fails):
    for f in fails:
        ck.violation("%s:%s" % (f["clause"], f["key"]), "counterexample", "%s: %s" % (f["clause"], f["detail"]),
                     {"clause": f["clause"], "key": f["key"], "script": f["script"], "k": f.get("k", 0), "observed": f["detail"]})


def no_cex(ck, t, what):
    broken = [o["name"] for o in ck.obligations if not o["discharged"]]
    if not broken:
        return
    kind = "broken-correspondence" if any(n.startswith("tie") for n in broken) else "broken-theorem"
    rp = {"broken_obligations": broken}
    if t and t.get("mismatch_cases"):
        rp["mismatching_cases"] = [compact(c) for c in t["mismatch_cases"]]
        rp["script"] = {"tag": t["mismatch_cases"][0]["tag"], "gen": t["mismatch_cases"][0]["gen"], "nil": t["mismatch_cases"][0]["nil"],
                        "cap": t["mismatch_cases"][0]["cap"], "fill": t["mismatch_cases"][0]["fill"],
                        "steps": [r["step"] for r in t["mismatch_cases"][0]["steps"]]}
    ck.violation("obligation", kind, "the %s falsifier found no failing input on the real code; broken: %s" % (what, "; ".join(broken)), rp)


def run_c19(ck):
    harness, t = common(ck, "C19")
    if harness is None:
        return
    prop_file(ck, "C19_emitter.v", C19_V, [
        "C19_len_le_cap (forall e, reachable e -> 0 <= Len e <= Cap e)",
        "C19_refused_call_leaves (exec o e = Refused e' -> Bytes, Len, Cap, PC, every label, base unchanged)",
        "C19_refused_append_leaves (Append cb a e = Refused a' -> a' = a)",
        "C19_refused_iff (refused <-> width guard / duplicate label / capacity)",
        "C19_dry_run (nil target vs target without capacity refusal: PC, labels, flags, refusals equal after every prefix)",
        "C19_room_suffices (capacity >= total size implies no capacity refusal)"])
    fails, stats = falsify(ck, harness, "c19")
    report_fails(ck, fails)
    if not fails:
        no_cex(ck, t, "C19")
    cases = t.get("cases") or []
    nontriv = distinct(cases, lambda c: c["nil"] or any(r["panic"] for r in c["steps"]))
    ck.cov.update({
        "evaluations": len(cases) + stats[1],
        "distinct_nontrivial": nontriv,
        "rule": "tie: generated scripts run on the real emitter and on the model (checked by Coq); non-trivial for C19 = distinct scripts (by hash of target, listing flag, steps and refusals) with a nil target or at least one refused call. falsifier: every generated history x every capacity 0-3 bytes short of each item end (all capacities 0..size in the thorough tier) + nil-vs-real lockstep; its %d evaluations are in 'evaluations' only" % stats[1],
        "checker_cmd": "coqc build/work/Run/C19_emitter.v build/work/Run/Cases_EM_*.v (Lemma tie by vm_compute)",
        "modelled": "asm/emitter.go, asm/flags.go by hand: coq/Model/Emitter.v",
        "falsifier_histories": stats[0],
    })
    for c in [c for c in cases if any(r["panic"] for r in c["steps"])][:3] + [c for c in cases if c["nil"]][:2]:
        ck.sample(compact(c))
    ck.sample({"theorems": C19_V})


def run_c16(ck):
    harness, t = common(ck, "C16")
    if harness is None:
        return
    variant = t.get("variant")
    if variant is True:
        prop_file(ck, "C16_emitter_true.v", C16_TRUE_V, [
            "C16_clone_append (forall ops k targets: observe (append (run head) (run tail (clone))) = observe (run ops))",
            "C16_clone_append_state (the two emitter states are equal; same calls refused)",
            "C16_room (same with the static size premise)",
            "C16_refused_append_leaves", "C16_append_refused_iff"])
    elif variant is False:
        ok = prop_file(ck, "C16_emitter_false.v", C16_FALSE_V, ["C16_refuted (the model of the tree's Append, which does not copy base, violates C16)"])
        ck.oblige("Theorem C16_clone_append for the Append the tree implements (tie: Append does not copy `base`)", False,
                  "refuted: Theorem C16_refuted (Props.EmitterProps.C16_fails_without_base_copy, %s); witness: Clone before SetBase($8000); BRA L0; L0:; Append -> GetBase 0, Finalize panics"
                  % ("accepted by Coq on this run" if ok else "NOT accepted on this run"))
    else:
        ck.oblige("Theorem C16_clone_append for the Append the tree implements", False, "the tie could not decide which Append the tree implements: " + t.get("detail", ""))
    fails, stats = falsify(ck, harness, "c16")
    report_fails(ck, fails)
    if not fails:
        no_cex(ck, t, "C16")
    cases = t.get("cases") or []
    nontriv = distinct(cases, lambda c: any(r["step"]["k"] == "append" for r in c["steps"]))
    ck.cov.update({
        "evaluations": len(cases) + stats[1],
        "distinct_nontrivial": nontriv,
        "rule": "tie: generated scripts run on the real emitter and on the model (checked by Coq); non-trivial for C16 = distinct scripts containing Clone and Append. falsifier: every generated history x EVERY split point, clone/append vs direct on the real code, plus frame checks; its %d evaluations are in 'evaluations' only" % stats[1],
        "checker_cmd": "coqc build/work/Run/C16_emitter_<variant>.v build/work/Run/Cases_EM_*.v (Lemma tie by vm_compute)",
        "modelled": "asm/emitter.go, asm/flags.go by hand: coq/Model/Emitter.v; Append variant decided by the tie: copies_base = %s" % variant,
        "falsifier_histories": stats[0],
    })
    for c in [c for c in cases if any(r["step"]["k"] == "append" for r in c["steps"])][:4]:
        ck.sample(compact(c))
    ck.sample({"theorems": C16_TRUE_V if variant else C16_FALSE_V})


def replay(pid, rp):
    harness, herr = vlib.build_harness()
    if harness is None:
        print(herr)
        return 1
    r = rp.get("replay", {})
    if "script" not in r:
        print(rp.get("detail"))
        return 1
    p = os.path.join(vlib.BUILD, "replay_%s.json" % pid)
    json.dump(r, open(p, "w"))
    rc, out, _ = vlib.sh([harness, "emitreplay", pid.lower(), p], timeout=120)
    print(out.strip())
    return 1 if rc != 0 else 0
