"""Emitter properties C19 (all-or-nothing at capacity, dry-run emitters) and C16 (Clone + Append).

Model: coq/Model/Emitter.v (hand-written, routine for routine).  Theorems: coq/Props/EmitterProps.v
(static, compiled by ./check --setup; re-stated and `Print Assumptions`-ed per run).  Tie: the Go harness
(harness/emittool.go) drives the REAL *asm.Emitter with generated call histories and prints what it
observed after every call; this module writes the cases as Gallina data and Coq checks
`bad_cases <variant> cases = []` by vm_compute (Model/EmitterTie.v), sharded and compiled in parallel.
The model has one switch, `Append copies base`; which value describes the tree under test is decided by the
tie on a built-in discriminating history.  Falsifiers: `harness emitcheck c19|c16` state the properties
directly on the real code (no model) and shrink a failing history."""
import json
import os
import re
import vlib

CORPUS = os.path.join(vlib.ROOT, "corpus")

HDR = """From Coq Require Import ZArith NArith List Bool Uint63.
From Lib Require Import ZList.
From Model Require Import Emitter EmitterTie EmitterExt EmitterTieX.
Import ListNotations.
Local Open Scope uint63_scope.
"""

# ---- serialiser of the wire format decoded by Model/EmitterTie.v (pcase): one token per scalar / byte
KINDS = ["ins1", "ins2", "ins2l", "ins3", "ins3l", "ins4", "base", "db", "comment", "label"]
IKINDS = ["E1", "E2", "E2L", "E3", "E3L", "E4"]
GUARDS = ["none", "m8", "m16", "x8", "x16"]


def bl(b):
    return "true" if b else "false"


def e_bytes(vs):
    return [len(vs)] + list(vs)


def e_target(nil, cap, fill):
    return [0] if nil else [1, cap, fill]


def e_op(rec):
    st = rec["step"]
    k = st["k"]
    if k == "call":
        o = rec["op"]
        tr = {"none": [0], "rep": [1, o["c"]], "sep": [2, o["c"]]}[o["track"]]
        return [0, 3, IKINDS.index(o["kind"])] + e_bytes(o["bytes"]) + [o["label"]] + tr + [GUARDS.index(o["guard"])]
    if k == "setbase":
        return [0, 0, st.get("v", 0)]
    if k == "arep":
        return [0, 1, st.get("v", 0)]
    if k == "asep":
        return [0, 2, st.get("v", 0)]
    if k == "bytes":
        return [0, 4] + e_bytes(st.get("d") or [])
    if k == "comment":
        return [0, 5, st.get("v", 0)]
    if k == "label":
        return [0, 6, st.get("v", 0)]
    if k == "clone":
        return [1] + e_target(st.get("nil", False), st.get("cap", 0), st.get("fill", 0))
    if k == "append":
        return [2]
    if k == "finalize":
        return [3]
    raise ValueError("step kind " + k)


def e_obs(o, bytes_=None):
    b = o["bytes"] if bytes_ is None else bytes_
    if any(v < 0 for v in b):          # Bytes() itself panicked in the harness: never equal to the model
        b = [256]
    return (e_bytes(b) + [o["len"], o["cap"], o["pc"], o["flags"], o["base"], int(o["m16"]), int(o["x16"])]
            + [len(o["labels"])] + [0 if v < 0 else v + 1 for v in o["labels"]])


def e_render(r):
    out = [len(r["lines"])]
    for x in r["lines"]:
        out += [KINDS.index(x["k"]), x["addr"]] + e_bytes(x["bytes"]) + [x["l"], int(x["warn"])]
    return out + [int(r["panic"])]


def e_fin(f):
    c = f["cls"]
    if c == "ok":
        return [0]
    if c == "unresolved":
        return [1, f["l"]]
    if c == "toofar":
        return [2, f["from"], f["to"]]
    if c == "panic":
        return [3]
    raise ValueError("finalize class " + c)


def e_case(c):
    out = [c["id"], int(c["gen"])] + e_target(c["nil"], c["cap"], c["fill"]) + [c["nl"], len(c["steps"])]
    prev = []
    for r in c["steps"]:
        cur = r["top"]["bytes"]
        keep = 0
        while keep < len(prev) and keep < len(cur) and prev[keep] == cur[keep]:
            keep += 1
        if r.get("same"):
            sec = [1]
        elif r.get("second") is not None:
            sec = [2] + e_obs(r["second"])
        else:
            sec = [0]
        out += e_op(r) + [int(r["panic"]), keep] + e_obs(r["top"], cur[keep:]) + sec
        prev = cur
    f = c["final"]
    out += e_render(f["hex1"]) + e_render(f["text1"]) + e_fin(f["fin"]) + e_bytes(f["bytes"]) + e_render(f["hex2"]) + e_render(f["text2"])
    if any((not isinstance(t, int)) or t < 0 or t >= (1 << 62) for t in out):
        raise ValueError("token out of range in case %d" % c["id"])
    return out


def g_tokens(name, toks):
    chunks = ["[" + ";".join(str(t) for t in toks[i:i + 400]) + "]" for i in range(0, len(toks), 400)] or ["[]"]
    return "Definition %s : list int := %s.\n" % (name, "\n ++ ".join(chunks))


def shard_text(encoded, variant):
    """encoded: list of token lists; variant = (append copies base, chunk_own, label_flush)"""
    cb, own, flush = variant
    body = "".join(g_tokens("c%d" % i, t) for i, t in enumerate(encoded))
    return (HDR + body + "Definition cases : list (list int) := [%s].\n" % "; ".join("c%d" % i for i in range(len(encoded)))
            + "Definition bad := Eval vm_compute in bad_encodedX %s (mkFix %s %s) cases.\nPrint bad.\n" % (bl(cb), bl(own), bl(flush))
            + "Lemma tie : bad = [].\nProof. reflexivity. Qed.\n")


def sizes(tier):
    if tier == "thorough":
        return {"cases": 24000, "shard": 150, "falsify": 1500}
    return {"cases": 3200, "shard": 200, "falsify": 250}


def case_hash(c):
    return vlib.sha(json.dumps([c["gen"], c["nil"], c["cap"], [(r["step"], r["panic"]) for r in c["steps"]]], sort_keys=True))


def run_tie(ck, harness):
    """Runs the correspondence (streaming: a case is serialised as soon as it is read).
    Returns dict(ok, variant, n, feat, tags, census, detail, mismatch_cases, compact, nontrivial)."""
    sz = sizes(ck.tier)
    res = {"ok": False, "variant": None, "n": 0, "feat": {}, "census": {}, "detail": "", "tags": {},
           "samples": {"refused": [], "nil": [], "append": []}, "distinct": {"c19": set(), "c16": set()}}
    out_path = os.path.join(vlib.WORK, "emitcases_%s.jsonl" % ck.tier)
    os.makedirs(vlib.WORK, exist_ok=True)
    with open(out_path, "w") as fo:
        import subprocess
        try:
            p = subprocess.run([harness, "emitcases", str(ck.seed), str(sz["cases"]), ck.tier, CORPUS], stdout=fo,
                               stderr=subprocess.PIPE, timeout=1800, env=vlib.GOENV)
            rc, err = p.returncode, p.stderr.decode("utf-8", "replace")
        except subprocess.TimeoutExpired:
            rc, err = 124, "timeout"
    if rc != 0:
        res["detail"] = "emitcases failed rc=%s: %s" % (rc, err[-600:])
        return res
    os.makedirs(vlib.RUN, exist_ok=True)
    shards, cur, index = [], [], {}
    probes = {"append": [], "chunks": [], "label": []}
    probe_ids = {"append": [], "chunks": [], "label": []}
    for line in open(out_path):
        if line.startswith("CENSUS "):
            res["census"] = json.loads(line[7:])
            continue
        if line.startswith("ERROR"):
            res["detail"] = line.strip()
            return res
        if not line.startswith("{"):
            continue
        c = json.loads(line)
        if c.get("err"):
            res["detail"] = "harness could not describe case %d (%s): %s" % (c["id"], c["tag"], c["err"])
            res["mismatch_cases"] = [c]
            return res
        res["n"] += 1
        for f in c.get("feat") or []:
            res["feat"][f] = res["feat"].get(f, 0) + 1
        t = c["tag"].split(":")[0] if c["tag"].startswith(("corpus", "builtin")) else c["tag"]
        res["tags"][t] = res["tags"].get(t, 0) + 1
        refused = any(r["panic"] for r in c["steps"])
        app = any(r["step"]["k"] == "append" for r in c["steps"])
        if c["nil"] or refused:
            res["distinct"]["c19"].add(case_hash(c))
        if app:
            res["distinct"]["c16"].add(case_hash(c))
        for key, cond in (("refused", refused), ("nil", c["nil"]), ("append", app)):
            if cond and len(res["samples"][key]) < 3:
                res["samples"][key].append(compact(c))
        enc = e_case(c)
        for which, pref in (("append", "builtin:append-base"), ("chunks", "builtin:db-chunks"), ("label", "builtin:label-before-base")):
            if c["tag"].startswith(pref):
                probes[which].append(enc)
                probe_ids[which].append(c["id"])
        index[c["id"]] = (len(shards), c["tag"])
        cur.append(enc)
        if len(cur) >= sz["shard"]:
            shards.append(cur)
            cur = []
    if cur:
        shards.append(cur)
    if not res["n"]:
        res["detail"] = "emitcases produced no case: " + err[-300:]
        return res
    # which Append / EmitBytes / Label does the tree implement?  decided on the built-in discriminating histories
    jobs, names = [], []
    for which in ("append", "chunks", "label"):
        if not probes[which]:
            res["detail"] = "harness produced no built-in probe history for '%s'" % which
            return res
        for val in (False, True):
            v3 = (val if which == "append" else False, val if which == "chunks" else False, val if which == "label" else False)
            p = os.path.join(vlib.RUN, "EmitVariant_%s_%s.v" % (which, bl(val)))
            vlib.write_if_changed(p, shard_text(probes[which], v3))
            jobs.append(lambda p=p: vlib.coqc(p, timeout=300))
            names.append((which, val))
    rv = vlib.parallel(jobs)
    decided = {}
    for (which, val), r in zip(names, rv):
        decided.setdefault(which, {})[val] = r
    vd = {}
    for which in ("append", "chunks", "label"):
        okf, okt = decided[which][False][0] == 0, decided[which][True][0] == 0
        if okf == okt:
            res["detail"] = ("probe '%s': the model agrees with the code under %s values of the switch:\n%s\n%s"
                             % (which, "both" if okf else "neither", decided[which][False][1][-700:], decided[which][True][1][-700:]))
            res["mismatch_ids"] = probe_ids[which]
            res["mismatch_cases"] = find_cases(out_path, probe_ids[which][:2])
            return res
        vd[which] = okt
    variant = (vd["append"], vd["chunks"], vd["label"])
    res["variant"] = {"append_copies_base": vd["append"], "chunk_own": vd["chunks"], "label_flush": vd["label"]}
    for n in os.listdir(vlib.RUN):
        m = re.match(r"Cases_EM_(\d+)\.", n)
        if m and int(m.group(1)) >= len(shards):
            os.remove(os.path.join(vlib.RUN, n))

    def job(i):
        p = os.path.join(vlib.RUN, "Cases_EM_%d.v" % i)
        vlib.write_if_changed(p, shard_text(shards[i], variant))
        shards[i] = None
        return vlib.coqc(p, timeout=1800)
    rs = vlib.parallel([(lambda i=i: job(i)) for i in range(len(shards))], workers=12)
    bad = [(i, r) for i, r in enumerate(rs) if r[0] != 0]
    res["secs"] = round(sum(r[2] for r in rs), 1)
    res["cached"] = sum(1 for r in rs if r[3])
    res["shards"] = len(shards)
    if bad:
        i, r = bad[0]
        ids = [int(x) for x in re.findall(r"\((\d+)%Z,\s*\[", r[1])]
        res["detail"] = "shard %d: %s" % (i, r[1][-1200:])
        res["mismatch_ids"] = ids[:20]
        res["mismatch_cases"] = find_cases(out_path, ids[:3])
        return res
    res["ok"] = True
    return res


def find_cases(path, ids):
    out = []
    want = set(ids)
    for line in open(path):
        if line.startswith("{"):
            m = re.match(r'\{"id":(\d+),', line)
            if m and int(m.group(1)) in want:
                out.append(json.loads(line))
                if len(out) == len(want):
                    break
    return out


TRUSTED = [
    "Coq 8.16.1 kernel incl. its bytecode VM (vm_compute); no axioms (Print Assumptions: closed under the global context)",
    "hand-written model coq/Model/Emitter.v, tied to the compiled code on this run by differential execution (see traces_validated_against_impl and the input distribution); the tie is testing, the theorems are about the model",
    "harness/emittool.go: generator, per-call classification of instruction methods by probing separate instances of the real emitter, listing-record parsers",
    "modelled, not verified: Go semantics of slices (targets have cap = len), copy, maps (lookup/insert/delete; iteration order a parameter), uint32 wrap-around, fmt/xbuf rendering (cosmetic text not compared)",
    "absence of aliasing between an emitter and its clone is a fact about the Go heap that the functional model cannot express: it rests on the tie (the emitter below the top of the stack is observed after every call) and on the falsifier",
]


def tie_obligations(ck, harness):
    t = run_tie(ck, harness)
    name = "tie: Model/Emitter.v = compiled *asm.Emitter on %d generated scripts (Lemma tie : bad = [] in every shard)" % t["n"]
    ck.oblige(name, t["ok"], t["detail"])
    ck.cov["traces_validated_against_impl"] = t["n"] if t["ok"] else 0
    ck.cov["tie"] = {k: t.get(k) for k in ("n", "shards", "secs", "cached", "variant", "feat", "tags", "census")}
    if t.get("mismatch_ids"):
        ck.cov["tie"]["mismatch_ids"] = t["mismatch_ids"]
    return t


def falsify(ck, harness, which):
    sz = sizes(ck.tier)
    rc, out, dt = vlib.sh([harness, "emitcheck", which, str(ck.seed), str(sz["falsify"]), ck.tier, CORPUS], timeout=1500)
    fails, done = [], ""
    for line in out.splitlines():
        if line.startswith("FAIL "):
            fails.append(json.loads(line[5:]))
        elif line.startswith("DONE"):
            done = line
    if not done:
        ck.oblige("falsifier emitcheck %s ran to completion" % which, False, out[-800:])
    ck.cov["falsifier"] = done
    m = re.search(r"histories=(\d+) evaluations=(\d+)", done)
    stats = (int(m.group(1)), int(m.group(2))) if m else (0, 0)
    return fails, stats


PROP_HDR = """From Coq Require Import ZArith NArith List Bool.
From Lib Require Import ZList.
From Model Require Import Emitter EmitterTie EmitterExt.
From Props Require Import EmitterProps.
Import ListNotations.
Local Open Scope Z_scope.
"""

C19_V = PROP_HDR + """(* C19 against Model/Emitter.v + EmitterExt.v, for ALL variants fx of the two listing routines (the tree under
   test implements one of them: decided, like the Append variant, by the Cases_EM_* / EmitVariant_* files of this run) *)
(* Len <= Cap in every state reachable through NewEmitter, any accepted or refused call, Clone, Append, Finalize *)
Theorem C19_len_le_cap : forall fx e, reachable fx e -> 0 <= Len e <= Cap e.
Proof. exact len_le_cap. Qed.
(* a refused call leaves bytes, Len, Cap, PC, every label and the base as they were.  Tracked flags and listing
   records are NOT in the list: REP/SEP update the tracker and EmitBytes appends its listing lines before the
   capacity check (Examples refused_rep_updates_tracker, refused_emitbytes_appends_listing) *)
Theorem C19_refused_call_leaves : forall fx o e e', execX fx o e = Refused e' ->
  Bytes e' = Bytes e /\\ Len e' = Len e /\\ Cap e' = Cap e /\\ PC e' = PC e /\\
  (forall l, GetLabel l e' = GetLabel l e) /\\ GetBase e' = GetBase e.
Proof. exact refused_leaves. Qed.
Theorem C19_refused_append_leaves : forall cb a e a', Append cb a e = Refused a' -> a' = a.
Proof. exact append_refused_leaves. Qed.
(* which calls are refused: a width guard or a duplicate label, or -- only with a non-nil target -- capacity *)
Theorem C19_refused_iff : forall fx o e, is_refused (execX fx o e) = pre_refused o e || cap_refused fx o e.
Proof. exact refused_iff. Qed.
(* nil target vs a target in which nothing is refused for capacity: same PC, labels, tracked flags and same refused
   calls after EVERY prefix of ANY history; the nil-target emitter counts nothing *)
Theorem C19_dry_run : forall fx ops b g k,
  no_cap_refusal fx ops (new_em (Some b) g) = true ->
  let dry := runX fx (firstn k ops) (new_em None g) in
  let real := runX fx (firstn k ops) (new_em (Some b) g) in
  PC (fst dry) = PC (fst real) /\\ (forall l, GetLabel l (fst dry) = GetLabel l (fst real)) /\\
  Flags (fst dry) = Flags (fst real) /\\ IsM16bit (fst dry) = IsM16bit (fst real) /\\
  IsX16bit (fst dry) = IsX16bit (fst real) /\\ snd dry = snd real /\\ Len (fst dry) = 0.
Proof. exact dry_run_agrees. Qed.
(* "big enough" is implied by: capacity >= sum of the sizes of all instructions and data blocks of the history *)
Theorem C19_room_suffices : forall fx ops e, inv e -> buf e <> None ->
  n e + total_demand ops <= zlen (code e) -> no_cap_refusal fx ops e = true.
Proof. exact room_suffices. Qed.
(* the variant [today] is Model/Emitter.v itself *)
Theorem C19_today_is_run : forall ops e, runX today ops e = run ops e.
Proof. exact runX_today_run. Qed.
Print Assumptions C19_len_le_cap.
Print Assumptions C19_refused_call_leaves.
Print Assumptions C19_refused_append_leaves.
Print Assumptions C19_refused_iff.
Print Assumptions C19_dry_run.
Print Assumptions C19_room_suffices.
Print Assumptions C19_today_is_run.
"""

C16_STMT = """forall fx ops k target0 g target,
  let e0 := new_em target0 g in
  let a := fst (runX fx (firstn k ops) e0) in
  let c := fst (runX fx (skipn k ops) (Clone target a)) in
  (target0 = None <-> target = None) ->
  no_cap_refusal fx (skipn k ops) a = true ->
  no_cap_refusal fx (skipn k ops) (Clone target a) = true ->
  is_refused (Append %s a c) = false /\\
  observe (state_of (Append %s a c)) = observe (fst (runX fx ops e0))"""

C16_TRUE_V = PROP_HDR + """(* C16 for the Append the tree implements (decided by the tie of this run): base is copied; for ALL variants fx of
   the two listing routines *)
(* observe = Bytes, Len, Cap, PC, Flags, GetBase, every label, both listings, and for every pair of visiting
   orders the Finalize outcome, the finalized bytes and both listings after Finalize *)
Theorem C16_clone_append : """ + (C16_STMT % ("true", "true")) + """.
Proof. exact C16_holds_with_base_copy. Qed.
(* stronger, state level: the two emitters are EQUAL, and the same calls were refused *)
Theorem C16_clone_append_state : forall fx t a target,
  inv a -> maps_sorted a -> (buf a = None <-> target = None) ->
  no_cap_refusal fx t a = true -> no_cap_refusal fx t (Clone target a) = true ->
  Append true a (fst (runX fx t (Clone target a))) = Done (fst (runX fx t a)) /\\
  snd (runX fx t (Clone target a)) = snd (runX fx t a).
Proof. exact clone_append_state. Qed.
Theorem C16_room : forall fx ops k b g bc,
  let e0 := new_em (Some b) g in
  let a := fst (runX fx (firstn k ops) e0) in
  let c := fst (runX fx (skipn k ops) (Clone (Some bc) a)) in
  total_demand ops <= zlen b -> total_demand (skipn k ops) <= zlen bc ->
  observe (state_of (Append true a c)) = observe (fst (runX fx ops e0)).
Proof. exact clone_append_room. Qed.
Theorem C16_refused_append_leaves : forall cb a e a', Append cb a e = Refused a' -> a' = a.
Proof. exact append_refused_leaves. Qed.
Theorem C16_append_refused_iff : forall cb a e, is_refused (Append cb a e) = (zlen (code a) <? n a + n e).
Proof. exact append_refused_iff. Qed.
Print Assumptions C16_clone_append.
Print Assumptions C16_clone_append_state.
Print Assumptions C16_room.
Print Assumptions C16_refused_append_leaves.
Print Assumptions C16_append_refused_iff.
"""

C16_FALSE_V = PROP_HDR + """(* the tree's Append does not copy base: for that emitter C16 is REFUTED (witness: SetBase in the cloned tail),
   whichever variant of the listing routines *)
Theorem C16_refuted : forall fx0, ~ (""" + (C16_STMT % ("false", "false")).replace("forall fx ops", "forall ops").replace(" fx ", " fx0 ") + """).
Proof. exact C16_fails_without_base_copy. Qed.
Print Assumptions C16_refuted.
"""


def prop_file(ck, name, text, thms):
    """Compile a per-run property file; one obligation per theorem."""
    pv = os.path.join(vlib.RUN, name)
    os.makedirs(vlib.RUN, exist_ok=True)
    vlib.write_if_changed(pv, text)
    fresh = vlib.static_vo_fresh(pv)
    ck.oblige("static library up to date (coq/Model/Emitter.vo, coq/Props/EmitterProps.vo newer than their sources)", fresh,
              "run ./check --setup")
    rc, out, dt, cached = vlib.coqc(pv, timeout=600)
    for t in thms:
        ck.oblige("Theorem " + t, rc == 0 and fresh, out)
    blocks = vlib.parse_assumptions(out)
    ck.assumptions += blocks
    bad = vlib.foreign_assumptions(blocks)
    ck.oblige("Print Assumptions: closed under the global context (%d theorems)" % len(blocks), rc == 0 and not bad and len(blocks) > 0,
              "unexpected: %s" % bad)
    return rc == 0 and fresh and not bad


def hygiene(ck):
    bad = []
    for rel in ("coq/Model/Emitter.v", "coq/Model/EmitterTie.v", "coq/Model/EmitterExt.v", "coq/Model/EmitterTieX.v", "coq/Props/EmitterProps.v"):
        src = open(os.path.join(vlib.ROOT, rel)).read()
        for m in re.finditer(r"\b(Axiom|Parameter|Conjecture|Admitted|admit|Variable|Hypothesis|Unset Guard Checking|Unset Universe Checking)\b", src):
            bad.append("%s: %s" % (rel, m.group(1)))
    ck.oblige("no Axiom/Parameter/Admitted/admit/guard switches in the emitter model and proofs", not bad, "; ".join(bad))


def compact(c):
    """A case as a short readable history."""
    out = []
    for r in c["steps"]:
        st = r["step"]
        k = st["k"]
        if k == "call":
            t = "%s(%s)" % (st["m"], ",".join(str(x) for x in st.get("a") or []))
        elif k == "bytes":
            t = "EmitBytes[%d]" % len(st.get("d") or [])
        elif k == "clone":
            t = "Clone(nil)" if st.get("nil") else "Clone(cap %d)" % st.get("cap", 0)
        elif k in ("append", "finalize"):
            t = k.capitalize()
        else:
            t = "%s(%s)" % (k, st.get("v", 0))
        out.append(t + ("!" if r["panic"] else ""))
    return {"id": c["id"], "tag": c["tag"], "listing": c["gen"], "target": "nil" if c["nil"] else "cap %d" % c["cap"],
            "history ('!' = refused)": " ".join(out), "finalize": c["final"]["fin"]["cls"]}


def common(ck, pid):
    ck.trusted = list(TRUSTED)
    harness, herr = vlib.build_harness()
    if harness is None:
        ck.oblige("build Go harness against the tree under test", False, herr)
        return None, None
    hygiene(ck)
    t = tie_obligations(ck, harness)
    return harness, t


def report_fails(ck, fails):
    for f in fails:
        ck.violation("%s:%s" % (f["clause"], f["key"]), "counterexample", "%s: %s" % (f["clause"], f["detail"]),
                     {"clause": f["clause"], "key": f["key"], "script": f["script"], "k": f.get("k", 0), "observed": f["detail"]})


def no_cex(ck, t, what):
    broken = [o["name"] for o in ck.obligations if not o["discharged"]]
    if not broken:
        return
    kind = "broken-correspondence" if any(n.startswith("tie") for n in broken) else "broken-theorem"
    rp = {"broken_obligations": broken}
    if t and t.get("mismatch_cases"):
        rp["mismatching_cases"] = [compact(c) for c in t["mismatch_cases"]]
        rp["script"] = {"tag": t["mismatch_cases"][0]["tag"], "gen": t["mismatch_cases"][0]["gen"], "nil": t["mismatch_cases"][0]["nil"],
                        "cap": t["mismatch_cases"][0]["cap"], "fill": t["mismatch_cases"][0]["fill"],
                        "steps": [r["step"] for r in t["mismatch_cases"][0]["steps"]]}
    ck.violation("obligation", kind, "the %s falsifier found no failing input on the real code; broken: %s" % (what, "; ".join(broken)), rp)


def run_c19(ck):
    harness, t = common(ck, "C19")
    if harness is None:
        return
    prop_file(ck, "C19_emitter.v", C19_V, [
        "C19_len_le_cap (forall e, reachable e -> 0 <= Len e <= Cap e)",
        "C19_refused_call_leaves (exec o e = Refused e' -> Bytes, Len, Cap, PC, every label, base unchanged)",
        "C19_refused_append_leaves (Append cb a e = Refused a' -> a' = a)",
        "C19_refused_iff (refused <-> width guard / duplicate label / capacity)",
        "C19_dry_run (nil target vs target without capacity refusal: PC, labels, flags, refusals equal after every prefix)",
        "C19_room_suffices (capacity >= total size implies no capacity refusal)",
        "C19_today_is_run (the variant `today` is Model/Emitter.v)"])
    fails, stats = falsify(ck, harness, "c19")
    report_fails(ck, fails)
    if not fails:
        no_cex(ck, t, "C19")
    nontriv = len(t["distinct"]["c19"])
    ck.cov.update({
        "evaluations": t["n"] + stats[1],
        "distinct_nontrivial": nontriv,
        "rule": "tie: generated scripts run on the real emitter and on the model (checked by Coq); non-trivial for C19 = distinct scripts (by hash of target, listing flag, steps and refusals) with a nil target or at least one refused call. falsifier: every generated history x every capacity 0-3 bytes short of each item end (all capacities 0..size in the thorough tier) + nil-vs-real lockstep; its %d evaluations are in 'evaluations' only" % stats[1],
        "checker_cmd": "coqc build/work/Run/C19_emitter.v build/work/Run/Cases_EM_*.v (Lemma tie by vm_compute)",
        "modelled": "asm/emitter.go, asm/flags.go by hand: coq/Model/Emitter.v + EmitterExt.v; variant decided by the tie: %s" % t.get("variant"),
        "falsifier_histories": stats[0],
    })
    for c in t["samples"]["refused"] + t["samples"]["nil"][:2]:
        ck.sample(c)
    ck.sample({"theorems": C19_V})


def run_c16(ck):
    harness, t = common(ck, "C16")
    if harness is None:
        return
    variant = (t.get("variant") or {}).get("append_copies_base")
    if variant is True:
        prop_file(ck, "C16_emitter_true.v", C16_TRUE_V, [
            "C16_clone_append (forall ops k targets: observe (append (run head) (run tail (clone))) = observe (run ops))",
            "C16_clone_append_state (the two emitter states are equal; same calls refused)",
            "C16_room (same with the static size premise)",
            "C16_refused_append_leaves", "C16_append_refused_iff"])
    elif variant is False:
        ok = prop_file(ck, "C16_emitter_false.v", C16_FALSE_V, ["C16_refuted (the model of the tree's Append, which does not copy base, violates C16)"])
        ck.oblige("Theorem C16_clone_append for the Append the tree implements (tie: Append does not copy `base`)", False,
                  "refuted: Theorem C16_refuted (Props.EmitterProps.C16_fails_without_base_copy, %s); witness: Clone before SetBase($8000); BRA L0; L0:; Append -> GetBase 0, Finalize panics"
                  % ("accepted by Coq on this run" if ok else "NOT accepted on this run"))
    else:
        ck.oblige("Theorem C16_clone_append for the Append the tree implements", False, "the tie could not decide which Append the tree implements: " + t.get("detail", ""))
    fails, stats = falsify(ck, harness, "c16")
    report_fails(ck, fails)
    if not fails:
        no_cex(ck, t, "C16")
    nontriv = len(t["distinct"]["c16"])
    ck.cov.update({
        "evaluations": t["n"] + stats[1],
        "distinct_nontrivial": nontriv,
        "rule": "tie: generated scripts run on the real emitter and on the model (checked by Coq); non-trivial for C16 = distinct scripts containing Clone and Append. falsifier: every generated history x EVERY split point, clone/append vs direct on the real code, plus frame checks; its %d evaluations are in 'evaluations' only" % stats[1],
        "checker_cmd": "coqc build/work/Run/C16_emitter_<variant>.v build/work/Run/Cases_EM_*.v (Lemma tie by vm_compute)",
        "modelled": "asm/emitter.go, asm/flags.go by hand: coq/Model/Emitter.v + EmitterExt.v; variant decided by the tie: %s" % t.get("variant"),
        "falsifier_histories": stats[0],
    })
    for c in t["samples"]["append"]:
        ck.sample(c)
    ck.sample({"theorems": C16_TRUE_V if variant else C16_FALSE_V})


def replay(pid, rp):
    harness, herr = vlib.build_harness()
    if harness is None:
        print(herr)
        return 1
    r = rp.get("replay", {})
    if "script" not in r:
        print(rp.get("detail"))
        return 1
    p = os.path.join(vlib.BUILD, "replay_%s.json" % pid)
    json.dump(r, open(p, "w"))
    rc, out, _ = vlib.sh([harness, "emitreplay", pid.lower(), p], timeout=120)
    print(out.strip())
    return 1 if rc != 0 else 0
