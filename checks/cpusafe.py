"""Generation of the per-run Coq files over a regenerated interpreter model (engine: coq/Props/SafeLib.v).

C08_<model>.v : one lemma per translated routine: no panic, every value in the range of its Go type, every bus access
                below 2^24, under the per-field predicate map  BE ea cy ac  (constraints on StepInfo.EA, Cycles, AllCycles);
                a routine that never assigns a field keeps ANY constraint on it (universally quantified predicate).
C12_<model>.v : interval lemmas for the routines that adjust the cycle counter, the dispatch table, and the theorem
                about Step: 1 <= cycles <= 255, AllCycles' = AllCycles + cycles, stop flag = Stopped."""
import re

SIG_RE = re.compile(r"\(\* (\S+):(\d+)  func (\S+) \*\)\nDefinition (\S+) ((?:\([^)]*\) ?)*)\s*(?:\(s : st\) )?: (res )?(.+?) :=\n")
WIDTH = {"zw8": 8, "zw16": 16, "zw32": 32, "zw64": 64}
EA, CY, AC, SP = "f_StepInfo_EA", "f_Cycles", "f_AllCycles", "f_Stopped"
TRUE = "(fun _ => True)"


def parse(path):
    s = open(path).read()
    funcs = []
    for m in SIG_RE.finditer(s):
        name = m.group(4)
        params = [(n, t) for (n, t) in re.findall(r"\((\w+) : (\w+)\)", m.group(5)) if n != "s"]
        monadic = "(s : st)" in m.group(0)
        mb = re.search(r"\nDefinition %s [^\n]*:=\n(.*?)\.\n\n" % re.escape(name), s, re.S)
        funcs.append({"name": name, "params": params, "monadic": monadic, "ret": m.group(7).strip(), "body": mb.group(1) if mb else "",
                      "src": "%s:%s" % (m.group(1), m.group(2))})
    procs = []
    m = re.search(r"Definition tbl_proc \(op : Z\) : st -> res unit :=\n  match op with\n(.*?)\n  \| _ =>", s, re.S)
    if m:
        for line in m.group(1).splitlines():
            mm = re.match(r"\s*\| (\d+) => (\S+)", line)
            if mm:
                procs.append(mm.group(2))
    tabs = re.findall(r"\nDefinition (tab_\w+)_list ", s)
    return funcs, procs, tabs


def idents(body):
    return set(re.findall(r"[A-Za-z_][A-Za-z_0-9']*", body))


class Model:
    def __init__(self, path, mod):
        self.mod = mod
        self.funcs, self.procs, self.tabs = parse(path)
        self.names = [f["name"] for f in self.funcs]
        self.byname = {f["name"]: f for f in self.funcs}
        self.uses_ea, self.sets_cy, self.sets_ac, self.sets_sp, self.sp_val = {}, {}, {}, {}, {}
        self.dn, self.up = {}, {}
        for f in self.funcs:
            ids = idents(f["body"])
            body = f["body"]
            callees = [c for c in self.names if c in ids and c != f["name"]]
            tp = "tbl_proc" in ids
            self.uses_ea[f["name"]] = EA in ids or tp or any(self.uses_ea.get(c) for c in callees)
            self.sets_cy[f["name"]] = ("set " + CY) in body or tp or any(self.sets_cy.get(c) for c in callees)
            self.sets_ac[f["name"]] = ("set " + AC) in body or tp or any(self.sets_ac.get(c) for c in callees)
            self.sets_sp[f["name"]] = ("set " + SP) in body or tp or any(self.sets_sp.get(c) for c in callees)
            m = re.findall(r"set f_Stopped \((b2z (?:true|false))\)", body)
            if len(m) == 1 and body.count("set " + SP) == 1 and not tp and not any(self.sets_sp.get(c) for c in callees):
                self.sp_val[f["name"]] = m[0]      # the routine assigns the stop flag exactly once, with this constant
            # path-insensitive bounds of the net change of the cycle counter: sum over all syntactic occurrences
            up = sum(int(k) for k in re.findall(r"set f_Cycles \(add8 \(get f_Cycles s\) (\d+)\)", body))
            dn = sum(int(k) for k in re.findall(r"set f_Cycles \(sub8 \(get f_Cycles s\) (\d+)\)", body))
            for c in callees:
                n = len(re.findall(r"\b%s\b" % re.escape(c), body))
                up += n * self.up.get(c, 0)
                dn += n * self.dn.get(c, 0)
            self.up[f["name"]], self.dn[f["name"]] = up, dn

    def callees(self, f):
        ids = idents(f["body"])
        return [c for c in self.names if c in ids and c != f["name"] and self.byname[c]["monadic"]]


def header(mod, what, extra_import=""):
    return """(* GENERATED per run by checks/cpusafe.py: %s over the regenerated model %s *)
From Coq Require Import ZArith List Bool NArith Lia.
From Lib Require Import ZOps Machine.
From Gen Require Import GenFields %s.
From Props Require Import SafeLib CpuEqLib.
%sImport ListNotations.
Local Open Scope Z_scope.

Notation BE ea cy ac sp := (ovr %s ea (ovr %s cy (ovr %s ac (ovr %s sp (Bty fwidth))))).

""" % (what, mod, mod, extra_import, EA, CY, AC, SP)


def preds(M, name):
    """(quantifier text, ea, cy, ac) for routine name in the C08 family"""
    q = []
    ea = "(rng 24)" if M.uses_ea[name] else "ea"
    cy = TRUE if M.sets_cy[name] else "cy"
    ac = TRUE if M.sets_ac[name] else "ac"
    sp = TRUE if M.sets_sp[name] else "sp"
    for v, fixed in (("ea", M.uses_ea[name]), ("cy", M.sets_cy[name]), ("ac", M.sets_ac[name]), ("sp", M.sets_sp[name])):
        if not fixed:
            q.append("(%s : Z -> Prop)" % v)
    return " ".join(q), ea, cy, ac, sp


def premises(f):
    prem = []
    for n, t in f["params"]:
        if t == "zw32":
            prem.append("rng 24 %s" % n)      # every 32-bit parameter of the interpreters is a bus address
        elif t in WIDTH:
            prem.append("rng %d %s" % (WIDTH[t], n))
    return prem


def result_pred(f):
    # a 32-bit result of the bus helpers is a 24-bit address (nRead24_wrap / EaRead24_wrap)
    return ("rng 24 r" if f["ret"] == "zw32" else "rng %d r" % WIDTH[f["ret"]]) if f["ret"] in WIDTH else "True"


def call_thunk(M, f, extra=None, prefer=None):
    alts = []
    for c in M.callees(f):
        pat = "%s%s" % (c, " _" * (len(M.byname[c]["params"]) + 1))
        if prefer and c in prefer:
            alts.append("| |- safe _ (%s) => first [ eapply safeC_%s; solve_side | eapply safe_%s; solve_side ]" % (pat, c, c))
        else:
            alts.append("| |- safe _ (%s) => eapply safe_%s" % (pat, c))
    if "tbl_proc" in idents(f["body"]):
        alts.append("| |- safe _ (tbl_proc _ _) => eapply %s" % (extra or "safe_tbl_proc"))
    return "fun _ => lazymatch goal with %s end" % " ".join(alts) if alts else "fun _ => fail"


def table_lemmas(M):
    out = []
    for t in M.tabs:
        out.append("Lemma rng_%s : forall W i, 8 <= W -> rng W (%s i).\nProof. intros W i HW. apply (rng_weaken 8); [|exact HW]. unfold %s. apply rng_nth; [vm_compute; reflexivity | discriminate]. Qed.\n" % (t, t, t))
    for fld in ("mode", "size", "cycles", "opcode"):
        out.append("Lemma rngb_tbl_%s : forallb (fun op => in_rngb 8 (tbl_%s op)) (upto 256) = true.\nProof. vm_compute. reflexivity. Qed.\n"
                   "Lemma rng_tbl_%s : forall W op, 8 <= W -> rng 8 op -> rng W (tbl_%s op).\nProof. intros W op HW Hop. apply (rng_weaken 8); [|exact HW]. apply in_rngb_ok. apply (all_bytes_b _ rngb_tbl_%s op Hop). Qed.\n"
                   % (fld, fld, fld, fld, fld))
    return out


def hooks(M):
    hook = ["Ltac rng_hook ::=\n  lazymatch goal with"]
    for t in M.tabs:
        hook.append("  | |- rng ?W (%s _) => apply rng_%s; side_le" % (t, t))
    for fld in ("mode", "size", "cycles", "opcode"):
        hook.append("  | |- rng ?W (tbl_%s _) => apply rng_tbl_%s; [side_le | solve_rng]" % (fld, fld))
    hook.append("  end.\n")
    return "\n".join(hook)


def generate(path, mod):
    """C08 family"""
    M = Model(path, mod)
    out = [header(mod, "range / no-panic lemmas (C08)")]
    out += table_lemmas(M)
    out.append(hooks(M))
    out.append("Ltac set_hook Q f v s0 b H ::=\n  lazymatch f with\n  | %s => set_with_pred Q f v s0 b H (eq v)\n  | %s => set_with_pred Q f v s0 b H (rng 24)\n  end.\n" % (SP, EA))
    lemmas = []
    emitted_tbl = False

    def stmt(f):
        q, ea, cy, ac, sp = preds(M, f["name"])
        sp_post = sp
        if f["name"] in M.sp_val:          # e.g. op_stp: whatever held before, afterwards Stopped = the constant
            q, sp, sp_post = q + " (sp : Z -> Prop)", "sp", "(eq (%s))" % M.sp_val[f["name"]]
        ps = " ".join(n for n, _ in f["params"])
        call = " ".join([f["name"]] + [n for n, _ in f["params"]] + ["s"])
        return "forall %s %s s, %sInv (BE %s %s %s %s) s -> safe (fun r s' => %s /\\ Inv (BE %s %s %s %s) s') (%s)" % (
            q, ps, "".join(p + " -> " for p in premises(f)), ea, cy, ac, sp, result_pred(f), ea, cy, ac, sp_post, call)

    def tbl_lemma():
        lines = ["Lemma inv_sp_weaken (ea cy ac sp sp' : Z -> Prop) s : Inv (BE ea cy ac sp) s -> (forall v, sp v -> sp' v) -> Inv (BE ea cy ac sp') s.",
                 "Proof. intros H HW. revert H. do 3 apply inv_ovr_map. apply inv_ovr_weaken. exact HW. Qed.\n",
                 "Lemma safe_tbl_proc : forall op s, rng 8 op -> Inv (BE (rng 24) %s %s %s) s -> safe (fun r s' => True /\\ Inv (BE (rng 24) %s %s %s) s') (tbl_proc op s)." % (TRUE, TRUE, TRUE, TRUE, TRUE, TRUE),
                 "Proof.",
                 "  intros op s Hop. revert s. pattern op. apply all_bytes; [|exact Hop].",
                 "  cbv [upto app Z.of_nat Pos.of_succ_nat Pos.succ]."]
        for k, pname in enumerate(M.procs):
            if pname in M.sp_val:
                lines.append("  apply Forall_cons; [ intros s0 Hi0; change (tbl_proc %d s0) with (%s s0); eapply safe_weaken; [ eapply safe_%s; exact Hi0 | intros r1 s1 [Hr1 Hi1]; split; [exact I | eapply inv_sp_weaken; [exact Hi1 | intros; exact I]] ] | ]." % (k, pname, pname))
            else:
                lines.append("  apply Forall_cons; [ intros s0 Hi0; change (tbl_proc %d s0) with (%s s0); eapply safe_%s; exact Hi0 | ]." % (k, pname, pname))
        lines.append("  apply Forall_nil.")
        lines.append("Qed.\n")
        out.append("\n".join(lines))
        lemmas.append("safe_tbl_proc")

    for f in M.funcs:
        if not f["monadic"]:
            continue
        name = f["name"]
        if "tbl_proc" in idents(f["body"]) and not emitted_tbl:
            tbl_lemma()
            emitted_tbl = True
        call = call_thunk(M, f)
        if name == "Step":
            out.append("""Lemma safe_Step_ea : forall s, Inv (BE %s %s %s %s) s -> safe (fun r s' => True /\\ Inv (BE (rng 24) %s %s %s) s') (Step s).
Proof. intros; cbv beta delta [Step]; safe_run ltac:(%s). Qed.

(* C08, one instruction: from ANY state whose fields are within their Go types (every E, D, width, pending interrupt,
   stale register copies, arbitrary StepInfo) and any memory: no panic, fields stay in range, every bus access < 2^24 *)
Theorem C08_step_%s : forall s, Inv (Bty fwidth) s -> safe (fun r s' => Inv (Bty fwidth) s') (Step s).
Proof.
  intros s H. eapply safe_weaken; [apply safe_Step_ea; do 4 apply inv_ovr_true; exact H|].
  intros r s' [_ H']. cbv beta. do 4 (eapply inv_ovr_base in H'). exact H'.
Qed.

(* every program: n steps from such a state never panic, and all recorded bus accesses are inside the 24-bit space *)
Theorem C08_run_%s : forall n s, Inv (Bty fwidth) s -> safe (fun r s' => Inv (Bty fwidth) s') (run Step n s).
Proof.
  induction n as [|n IH]; intros s H; simpl; [exact H|].
  pose proof (C08_step_%s s H) as HS. destruct (Step s) as [r s1|]; simpl in HS; [|contradiction].
  pose proof (IH s1 HS) as HR. destruct (run Step n s1) as [rs s2|]; simpl in HR; [exact HR|contradiction].
Qed.

Corollary C08_trace_%s : forall n s, Inv (Bty fwidth) s ->
  match run Step n s with Ok _ s' => Forall ev_ok (trace s') | Panic => False end.
Proof. intros n s H. pose proof (C08_run_%s n s H) as HR. destruct (run Step n s); simpl in HR; [exact (proj2 HR)|exact HR]. Qed.
""" % (TRUE, TRUE, TRUE, TRUE, TRUE, TRUE, TRUE, call, mod, mod, mod, mod, mod))
            lemmas += ["safe_Step_ea", "C08_step_" + mod, "C08_run_" + mod, "C08_trace_" + mod]
            continue
        out.append("Lemma safe_%s : %s.\nProof. intros; cbv beta delta [%s]; safe_run ltac:(%s). Qed.\n" % (name, stmt(f), name, call))
        lemmas.append("safe_" + name)
    out.append("Print Assumptions C08_step_%s.\nPrint Assumptions C08_run_%s.\nPrint Assumptions C08_trace_%s.\n" % (mod, mod, mod))
    return "\n".join(out), {"lemmas": lemmas, "functions": len(M.funcs)}


def generate_c12(path, mod):
    """C12 family: imports the C08 file of the same model"""
    M = Model(path, mod)
    out = [header(mod, "cycle accounting and stop flag (C12)", "From Run Require Import C08_%s.\n" % mod)]
    out.append(hooks(M))
    stp_ops = [k for k, p in enumerate(M.procs) if p in M.sp_val]
    stp_cond = " \\/ ".join("op = %d" % k for k in stp_ops) if stp_ops else "False"
    out.append("""Lemma inv_cyc_weaken (ea ac sp : Z -> Prop) lo hi lo' hi' s :
  Inv (BE ea (cyc lo hi) ac sp) s -> lo' <= lo -> hi <= hi' -> Inv (BE ea (cyc lo' hi') ac sp) s.
Proof.
  intros H H1 H2. revert H. apply inv_ovr_map. apply inv_ovr_weaken. intros v Hv. eapply cyc_weaken; eassumption.
Qed.

(* the stop flag after one dispatched routine: unchanged, or 1 and the opcode is STP *)
Definition sp_after (st0 op : Z) (v : Z) : Prop := v = st0 \\/ ((%s) /\\ v = 1).

Ltac side_hook ::= lia.
Ltac cont_done x ::= idtac.
Ltac ok_hook ::= eapply inv_cyc_weaken; [ eassumption | lia | lia ].
Ltac pred_hook ::=
  lazymatch goal with
  | |- cyc _ _ (add8 (get ?g ?s0) ?e) =>
      match goal with H : Inv _ s0 |- _ => let pf := get_pred_pf H g in eapply (cyc_add8 _ _ _ e e e pf); lia end
  | |- cyc _ _ (sub8 (get ?g ?s0) ?e) =>
      match goal with H : Inv _ s0 |- _ => let pf := get_pred_pf H g in eapply (cyc_sub8 _ _ _ e e e pf); lia end
  | |- cyc _ _ _ => unfold cyc; lia
  end.
Ltac cyc_of H := lazymatch type of H with context [ovr %s ?P _] => P end.
Ltac set_hook Q f v s0 b H ::=
  lazymatch f with
  | %s => set_with_pred Q f v s0 b H (rng 24)
  | %s => set_with_pred Q f v s0 b H (eq v)
  | %s =>
      let P := cyc_of H in
      lazymatch P with
      | cyc ?lo ?hi =>
          lazymatch v with
          | add8 (get %s s0) ?e => set_with_pred Q f v s0 b H (cyc (lo + e) (hi + e))
          | sub8 (get %s s0) ?e => set_with_pred Q f v s0 b H (cyc (lo - e) (hi - e))
          end
      end
  end.
""" % (stp_cond, CY, EA, SP, CY, CY, CY))
    lemmas = []
    setters = [f for f in M.funcs if f["monadic"] and M.sets_cy[f["name"]] and f["name"] not in ("Step", "nmi") and "tbl_proc" not in idents(f["body"])]
    setter_names = set(f["name"] for f in setters)
    for f in setters:
        name = f["name"]
        ea = "(rng 24)" if M.uses_ea[name] else "ea"
        q = ("" if M.uses_ea[name] else "(ea : Z -> Prop) ") + "(ac sp : Z -> Prop) lo hi"
        ps = " ".join(n for n, _ in f["params"])
        call = " ".join([name] + [n for n, _ in f["params"]] + ["s"])
        dn, up = M.dn[name], M.up[name]
        out.append("Lemma safeC_%s : forall %s %s s, %sInv (BE %s (cyc lo hi) ac sp) s -> 0 <= lo - %d -> hi + %d <= 255 ->\n  safe (fun r s' => %s /\\ Inv (BE %s (cyc (lo - %d) (hi + %d)) ac sp) s') (%s).\nProof. intros; cbv beta delta [%s]; safe_run ltac:(%s). Qed.\n"
                   % (name, q, ps, "".join(p + " -> " for p in premises(f)), ea, dn, up, result_pred(f), ea, dn, up, call, name, call_thunk(M, f, prefer=setter_names)))
        lemmas.append("safeC_" + name)
    out.append("Definition pdn (op : Z) : Z :=\n  match op with\n" + "\n".join("  | %d => %d" % (k, M.dn[p]) for k, p in enumerate(M.procs) if M.dn[p]) + "\n  | _ => 0\n  end.\n")
    out.append("Definition pup (op : Z) : Z :=\n  match op with\n" + "\n".join("  | %d => %d" % (k, M.up[p]) for k, p in enumerate(M.procs) if M.up[p]) + "\n  | _ => 0\n  end.\n")
    lines = ["Lemma safeC_tbl_proc : forall (ac : Z -> Prop) st0 lo hi op s, rng 8 op -> Inv (BE (rng 24) (cyc lo hi) ac (eq st0)) s -> 0 <= lo - pdn op -> hi + pup op <= 255 ->",
             "  safe (fun r s' => True /\\ Inv (BE (rng 24) (cyc (lo - pdn op) (hi + pup op)) ac (sp_after st0 op)) s') (tbl_proc op s).",
             "Proof.",
             "  intros ac st0 lo hi op s Hop. revert s. pattern op. apply all_bytes; [|exact Hop].",
             "  cbv [upto app Z.of_nat Pos.of_succ_nat Pos.succ]."]
    pre = "intros s0 Hi0 H1 H2; cbv beta iota delta [pdn pup] in H1, H2 |- *; change (tbl_proc %d s0) with (%s s0)"
    keep = "eapply inv_sp_weaken; [ | intros v Hv; left; symmetry; exact Hv ]"
    for k, p in enumerate(M.procs):
        if p in setter_names:
            lines.append(("  apply Forall_cons; [ " + pre + "; eapply safe_weaken; [ eapply safeC_%s; [exact Hi0 | lia | lia] | intros r1 s1 [Hr1 Hi1]; split; [exact I | " + keep + "; exact Hi1 ] ] | ].") % (k, p, p))
        elif p in M.sp_val:
            lines.append(("  apply Forall_cons; [ " + pre + "; eapply safe_weaken; [ eapply safe_%s; exact Hi0 | intros r1 s1 [Hr1 Hi1]; split; [exact I | eapply inv_sp_weaken; [ eapply inv_cyc_weaken; [exact Hi1 | lia | lia] | intros v Hv; right; split; [ auto | symmetry; exact Hv ] ] ] ] | ].") % (k, p, p))
        else:
            lines.append(("  apply Forall_cons; [ " + pre + "; eapply safe_weaken; [ eapply safe_%s; exact Hi0 | intros r1 s1 [Hr1 Hi1]; split; [exact I | " + keep + "; eapply inv_cyc_weaken; [exact Hi1 | lia | lia] ] ] | ].") % (k, p, p))
    lines += ["  apply Forall_nil.", "Qed.\n"]
    out.append("\n".join(lines))
    lemmas.append("safeC_tbl_proc")
    decm, decx, pc, dl = "tab_decCycles_flagM", "tab_decCycles_flagX", "tab_incCycles_PageCross", "tab_incCycles_regDL_not00"
    out.append("""(* the tables leave room: per opcode, base - decM - decX - (the routine's decrement) >= 1 and nothing exceeds 255 *)
Definition cyc_room (op : Z) : bool :=
  (0 <=? %s op) && (0 <=? %s op) && (0 <=? %s op) && (0 <=? %s op) &&
  (1 + pdn op + %s op + %s op <=? tbl_cycles op) &&
  (tbl_cycles op + %s op + %s op + pup op <=? 255) && (0 <=? pdn op) && (0 <=? pup op).
Lemma cyc_room_all : forallb cyc_room (upto 256) = true.
Proof. vm_compute. reflexivity. Qed.
Lemma cyc_room_op : forall op, rng 8 op ->
  0 <= %s op /\\ 0 <= %s op /\\ 0 <= %s op /\\ 0 <= %s op /\\
  1 + pdn op + %s op + %s op <= tbl_cycles op /\\
  tbl_cycles op + %s op + %s op + pup op <= 255 /\\ 0 <= pdn op /\\ 0 <= pup op.
Proof.
  intros op Hop. pose proof (all_bytes_b _ cyc_room_all op Hop) as H. unfold cyc_room in H.
  repeat (apply andb_true_iff in H; destruct H as [H ?]).
  repeat match goal with Hb : (_ <=? _) = true |- _ => apply Z.leb_le in Hb end. lia.
Qed.
""" % (decm, decx, pc, dl, decm, decx, pc, dl, decm, decx, pc, dl, decm, decx, pc, dl))
    step = M.byname["Step"]
    call = call_thunk(M, step, extra="safeC_tbl_proc")
    out.append("""Definition StepPost (a0 st0 : Z) (r : zw0 * bool) (s' : st) : Prop :=
  exists c, r = (c, z2b (get f_Stopped s')) /\\ 1 <= c <= 255 /\\ get f_Cycles s' = c /\\ get f_AllCycles s' = add64 a0 c /\\
            (get f_Stopped s' = st0 \\/ get f_Stopped s' = 1).

Ltac gs := repeat (rewrite get_set_same || rewrite get_set_other by reflexivity).

(* the end of Step: AllCycles += Cycles; PC += stepPC; return (Cycles, Stopped) *)
Ltac step_tail a0 s0 H :=
  let Hc := fresh "Hc" in let Ha := fresh "Ha" in let Hs := fresh "Hs" in
  (let pf := get_pred_pf H %s in pose proof pf as Hc); (let pf := get_pred_pf H %s in pose proof pf as Ha);
  (let pf := get_pred_pf H %s in pose proof pf as Hs);
  cbv beta in Hc, Ha, Hs; unfold cyc in Hc; unfold sp_after in Hs;
  cbv zeta; gs;
  (* two spellings of the return: "if cpu.Stopped { return n, true }; return n, false" and "return n, cpu.Stopped" *)
  let fin := ltac:(fun pre =>
    (split;
     [ unfold StepPost; exists (get %s s0); gs; pre;
       split; [reflexivity|]; split; [lia|]; split; [reflexivity|]; split; [rewrite <- Ha; reflexivity|];
       destruct Hs as [Hs|[_ Hs]]; [left | right]; exact Hs
     | apply inv_set; [ apply inv_set; [ do 4 (eapply inv_ovr_base in H); exact H | prove_B ] | prove_B ] ])) in
  first [ match goal with |- safe _ (if ?c then _ else _) => let E := fresh "E" in destruct c eqn:E; cbv beta; fin ltac:(rewrite E) end
        | (cbv beta; fin ltac:(idtac)) ].

Ltac set_hook Q f v s0 b H ::=
  lazymatch f with
  | %s => set_with_pred Q f v s0 b H (rng 24)
  | %s =>
      lazymatch v with
      | tbl_cycles ?op =>
          (* from here on the counter is tracked as an interval; the tables leave room for every adjustment *)
          (let Hop := fresh "Hop" in assert (Hop : rng 8 op) by solve_rng; pose proof (cyc_room_op op Hop));
          set_with_pred Q f v s0 b H (cyc (tbl_cycles op) (tbl_cycles op))
      | _ =>
          let P := cyc_of H in
          lazymatch P with
          | cyc ?lo ?hi =>
              lazymatch v with
              | add8 (get %s s0) ?e => set_with_pred Q f v s0 b H (cyc (lo + e) (hi + e))
              | sub8 (get %s s0) ?e => set_with_pred Q f v s0 b H (cyc (lo - e) (hi - e))
              end
          end
      end
  | %s =>
      lazymatch Q with
      | (fun r s' => StepPost ?a0 _ r s' /\\ _) => step_tail a0 s0 H
      end
  end.

Lemma step_cycles : forall a0 st0 s, Inv (BE %s %s (eq a0) (eq st0)) s ->
  safe (fun r s' => StepPost a0 st0 r s' /\\ Inv (Bty fwidth) s') (Step s).
Proof. intros; cbv beta delta [Step]; safe_run ltac:(%s). Qed.

(* C12 (i)+(ii): every Step reports between 1 and 255 cycles, adds exactly that number to the running total
   (mod 2^64), reports the stop condition exactly when the Stopped field is set, and never clears that field: it
   keeps its value or becomes 1 (the dispatch lemma safeC_tbl_proc shows the latter only for opcode(s) %s);
   from ANY state with fields in their Go types *)
Theorem C12_step_%s : forall s, Inv (Bty fwidth) s ->
  safe (fun r s' => (exists c, r = (c, z2b (get f_Stopped s')) /\\ 1 <= c <= 255 /\\
                     get f_AllCycles s' = add64 (get f_AllCycles s) c /\\
                     (get f_Stopped s' = get f_Stopped s \\/ get f_Stopped s' = 1)) /\\ Inv (Bty fwidth) s') (Step s).
Proof.
  intros s H. eapply safe_weaken; [apply (step_cycles (get f_AllCycles s) (get f_Stopped s)) | ].
  - apply inv_ovr_true. apply inv_ovr_true. apply inv_ovr_intro; [apply inv_ovr_intro; [exact H | reflexivity] | reflexivity].
  - intros r s' [(c & Hr & Hc & _ & Ha & Hs) Hi]. split; [exists c; auto | exact Hi].
Qed.

(* the contract RunUntil needs (Props/RunProps.v): on good states Step does not panic, reports 1..255 cycles, stays good *)
Lemma step_contract_%s : forall s, Inv (Bty fwidth) s ->
  match Step s with Ok (n, _) s' => 1 <= n <= 255 /\\ Inv (Bty fwidth) s' | Panic => False end.
Proof.
  intros s H. pose proof (C12_step_%s s H) as HS. destruct (Step s) as [[n b] s'|]; simpl in HS; [|exact HS].
  destruct HS as [(c & Hr & Hc & _) Hi]. inversion Hr; subst. auto.
Qed.
Print Assumptions C12_step_%s.
""" % (CY, AC, SP, CY, EA, CY, CY, CY, AC, TRUE, TRUE, call, stp_ops, mod, mod, mod, mod))
    lemmas += ["step_cycles", "C12_step_" + mod, "step_contract_" + mod]
    # C12 (ii) "until the CPU is reset": the other entry points.  Stated unconditionally: if Reset stops assigning the
    # stop flag (or TriggerIRQ starts to) the C08 lemma of that routine has another shape and these proofs fail.
    out.append("""(* Reset clears the stop condition; TriggerIRQ / triggerNMI keep it; all three keep the fields in range, no panic *)
Ltac stop_post H' :=
  cbv beta; split;
  [ let pf := get_pred_pf H' %s in let Hs := fresh "Hs" in pose proof pf as Hs; cbv beta in Hs; symmetry; exact Hs
  | do 4 (eapply inv_ovr_base in H'); exact H' ].
Theorem C12_reset_%s : forall s, Inv (Bty fwidth) s ->
  safe (fun _ s' => get %s s' = 0 /\\ Inv (Bty fwidth) s') (Reset s).
Proof.
  intros s H. eapply safe_weaken; [ eapply safe_Reset; do 4 apply inv_ovr_true; exact H | ].
  intros r s' [_ H']. stop_post H'.
Qed.
Theorem C12_irq_%s : forall s, Inv (Bty fwidth) s ->
  safe (fun _ s' => get %s s' = get %s s /\\ Inv (Bty fwidth) s') (TriggerIRQ s).
Proof.
  intros s H. eapply safe_weaken;
    [ eapply safe_TriggerIRQ; do 3 apply inv_ovr_true; eapply (inv_ovr_intro _ _ (eq (get %s s))); [exact H | reflexivity] | ].
  intros r s' [_ H']. stop_post H'.
Qed.
Theorem C12_nmi_%s : forall s, Inv (Bty fwidth) s ->
  safe (fun _ s' => get %s s' = get %s s /\\ Inv (Bty fwidth) s') (triggerNMI s).
Proof.
  intros s H. eapply safe_weaken;
    [ eapply safe_triggerNMI; do 3 apply inv_ovr_true; eapply (inv_ovr_intro _ _ (eq (get %s s))); [exact H | reflexivity] | ].
  intros r s' [_ H']. stop_post H'.
Qed.
Print Assumptions C12_reset_%s.
""" % (SP, mod, SP, mod, SP, SP, SP, mod, SP, SP, SP, mod))
    lemmas += ["C12_reset_" + mod, "C12_irq_" + mod, "C12_nmi_" + mod]
    return "\n".join(out), {"lemmas": lemmas, "setters": sorted(setter_names), "stp_opcodes": stp_ops}
