"""Generation of the per-run Coq files that prove, routine by routine over a regenerated interpreter model, that no
execution panics, every value stays in the range of its Go type, and every bus access is below 2^24 (C08); the same
engine (Props/SafeLib.v) is instantiated with other per-field predicates for C12."""
import re

SIG_RE = re.compile(r"\(\* (\S+):(\d+)  func (\S+) \*\)\nDefinition (\S+) ((?:\([^)]*\) ?)*)\s*(?:\(s : st\) )?: (res )?(.+?) :=\n")


def parse(path):
    """-> list of dict(name, params [(n, ty)], monadic, ret, body) in definition order, and the proc table"""
    s = open(path).read()
    funcs = []
    for m in SIG_RE.finditer(s):
        name = m.group(4)
        params = re.findall(r"\((\w+) : (\w+)\)", m.group(5))
        monadic = "(s : st)" in m.group(0)
        params = [(n, t) for (n, t) in params if n != "s"]
        mb = re.search(r"\nDefinition %s [^\n]*:=\n(.*?)\.\n\n" % re.escape(name), s, re.S)
        funcs.append({"name": name, "params": params, "monadic": monadic, "ret": m.group(7).strip(), "body": mb.group(1) if mb else "",
                      "src": "%s:%s" % (m.group(1), m.group(2))})
    procs = []
    m = re.search(r"Definition tbl_proc \(op : Z\) : st -> res unit :=\n  match op with\n(.*?)\n  \| _ =>", s, re.S)
    if m:
        for line in m.group(1).splitlines():
            mm = re.match(r"\s*\| (\d+) => (\S+)", line)
            if mm:
                procs.append(mm.group(2))
    tabs = re.findall(r"\nDefinition (tab_\w+)_list ", s)
    return funcs, procs, tabs


def idents(body):
    return set(re.findall(r"[A-Za-z_][A-Za-z_0-9']*", body))


WIDTH = {"w8": 8, "w16": 16, "w32": 32, "w64": 64}


def generate(path, mod, ea_field="f_StepInfo_EA"):
    funcs, procs, tabs = parse(path)
    names = [f["name"] for f in funcs]
    byname = {f["name"]: f for f in funcs}
    # transitive use of the effective-address field / of tbl_proc
    uses = {}
    for f in funcs:
        ids = idents(f["body"])
        u = ea_field in ids or "tbl_proc" in ids
        for c in names:
            if c in ids and c != f["name"] and uses.get(c):
                u = True
        uses[f["name"]] = u
    out = ["""(* GENERATED per run by checks/cpusafe.py: range/no-panic lemmas over the regenerated model %s (C08) *)
From Coq Require Import ZArith List Bool NArith.
From Lib Require Import ZOps Machine.
From Gen Require Import GenFields %s.
From Props Require Import SafeLib CpuEqLib.
Import ListNotations.
Local Open Scope Z_scope.

Notation BE ea := (ovr %s ea (Bty fwidth)).

""" % (mod, mod, ea_field)]
    # tables: every entry is a byte
    for t in tabs:
        out.append("Lemma rng_%s : forall W i, 8 <= W -> rng W (%s i).\nProof. intros W i HW. apply (rng_weaken 8); [|exact HW]. unfold %s. apply rng_nth; [vm_compute; reflexivity | discriminate]. Qed.\n" % (t, t, t))
    for fld in ("mode", "size", "cycles", "opcode"):
        out.append("Lemma rngb_tbl_%s : forallb (fun op => in_rngb 8 (tbl_%s op)) (upto 256) = true.\nProof. vm_compute. reflexivity. Qed.\n"
                   "Lemma rng_tbl_%s : forall W op, 8 <= W -> rng 8 op -> rng W (tbl_%s op).\nProof. intros W op HW Hop. apply (rng_weaken 8); [|exact HW]. apply in_rngb_ok. apply (all_bytes_b _ rngb_tbl_%s op Hop). Qed.\n"
                   % (fld, fld, fld, fld, fld))
    hook = ["Ltac rng_hook ::=\n  lazymatch goal with"]
    for t in tabs:
        hook.append("  | |- rng ?W (%s _) => apply rng_%s; side_le" % (t, t))
    for fld in ("mode", "size", "cycles", "opcode"):
        hook.append("  | |- rng ?W (tbl_%s _) => apply rng_tbl_%s; [side_le | solve_rng]" % (fld, fld))
    hook.append("  end.\n")
    out.append("\n".join(hook))
    lemmas = []
    emitted_tbl = False

    def stmt(f):
        ps = f["params"]
        ea = "(rng 24)" if uses[f["name"]] else "ea"
        quant = ("forall " if uses[f["name"]] else "forall (ea : Z -> Prop) ") + " ".join(n for n, _ in ps) + " s"
        prem = []
        for n, t in ps:
            if t == "w32":
                prem.append("rng 24 %s" % n)      # every 32-bit parameter of the interpreters is a bus address
            elif t in WIDTH:
                prem.append("rng %d %s" % (WIDTH[t], n))
        # a 32-bit result of the interpreters' bus helpers is a 24-bit address (nRead24_wrap / EaRead24_wrap)
        rt = ("rng 24 r" if f["ret"] == "w32" else "rng %d r" % WIDTH[f["ret"]]) if f["ret"] in WIDTH else "True"
        call = " ".join([f["name"]] + [n for n, _ in ps] + ["s"])
        return "%s, %sInv (BE %s) s -> safe (fun r s' => %s /\\ Inv (BE %s) s') (%s)" % (
            quant, "".join(p + " -> " for p in prem), ea, rt, ea, call)

    def tbl_lemma():
        lines = ["Lemma safe_tbl_proc : forall op s, rng 8 op -> Inv (BE (rng 24)) s -> safe (fun r s' => True /\\ Inv (BE (rng 24)) s') (tbl_proc op s).",
                 "Proof.",
                 "  intros op s Hop. revert s. pattern op. apply all_bytes; [|exact Hop].",
                 "  cbv [upto app Z.of_nat Pos.of_succ_nat Pos.succ]."]
        for k, pname in enumerate(procs):
            lines.append("  apply Forall_cons; [ intros s0 Hi0; change (tbl_proc %d s0) with (%s s0); eapply safe_%s; exact Hi0 | ]." % (k, pname, pname))
        lines.append("  apply Forall_nil.")
        lines.append("Qed.\n")
        out.append("\n".join(lines))
        lemmas.append("safe_tbl_proc")

    for f in funcs:
        if not f["monadic"]:
            continue
        name = f["name"]
        ids = idents(f["body"])
        if "tbl_proc" in ids and not emitted_tbl:
            tbl_lemma()
            emitted_tbl = True
        cs = [c for c in names if c in ids and c != name and byname[c]["monadic"]]
        alts = ["| |- safe _ (%s%s) => eapply safe_%s" % (c, " _" * (len(byname[c]["params"]) + 1), c) for c in cs]
        if "tbl_proc" in ids:
            alts.append("| |- safe _ (tbl_proc _ _) => eapply safe_tbl_proc")
        call = "fun _ => lazymatch goal with %s end" % " ".join(alts) if alts else "fun _ => fail"
        if name == "Step":
            out.append("""Ltac set_hook Q f v s0 b H ::=
  lazymatch f with
  | %s =>
      let Hn := fresh "Hi" in
      assert (Hn : Inv (BE (rng 24)) (set f v s0)) by (eapply inv_reset_ovr; [exact H | prove_B | cbv beta; solve_rng]);
      change (safe Q (b (set f v s0))); cbv beta;
      let s1 := fresh "s" in generalize (set f v s0) Hn; clear Hn; intros s1 Hn
  end.

Lemma safe_Step_ea : forall s, Inv (BE (fun _ => True)) s -> safe (fun r s' => True /\\ Inv (BE (rng 24)) s') (Step s).
Proof. intros; cbv beta delta [Step]; safe_run ltac:(%s). Qed.

(* C08, one instruction: from ANY state whose fields are within their Go types (every E, D, width, pending interrupt,
   stale register copies, arbitrary StepInfo) and any memory: no panic, fields stay in range, every bus access < 2^24 *)
Theorem C08_step_%s : forall s, Inv (Bty fwidth) s -> safe (fun r s' => Inv (Bty fwidth) s') (Step s).
Proof.
  intros s H. eapply safe_weaken; [apply safe_Step_ea; apply inv_ovr_true; exact H|].
  intros r s' [_ H']. cbv beta. eapply inv_ovr_base; exact H'.
Qed.

(* every program: n steps from such a state never panic, and all recorded bus accesses are inside the 24-bit space *)
Theorem C08_run_%s : forall n s, Inv (Bty fwidth) s -> safe (fun r s' => Inv (Bty fwidth) s') (run Step n s).
Proof.
  induction n as [|n IH]; intros s H; simpl; [exact H|].
  pose proof (C08_step_%s s H) as HS. destruct (Step s) as [r s1|]; simpl in HS; [|contradiction].
  pose proof (IH s1 HS) as HR. destruct (run Step n s1) as [rs s2|]; simpl in HR; [exact HR|contradiction].
Qed.

Corollary C08_trace_%s : forall n s, Inv (Bty fwidth) s ->
  match run Step n s with Ok _ s' => Forall ev_ok (trace s') | Panic => False end.
Proof. intros n s H. pose proof (C08_run_%s n s H) as HR. destruct (run Step n s); simpl in HR; [exact (proj2 HR)|exact HR]. Qed.
""" % (ea_field, call, mod, mod, mod, mod, mod))
            lemmas += ["safe_Step_ea", "C08_step_" + mod, "C08_run_" + mod, "C08_trace_" + mod]
            continue
        out.append("Lemma safe_%s : %s.\nProof. intros; cbv beta delta [%s]; safe_run ltac:(%s). Qed.\n" % (name, stmt(f), name, call))
        lemmas.append("safe_" + name)
    out.append("Print Assumptions C08_step_%s.\nPrint Assumptions C08_run_%s.\nPrint Assumptions C08_trace_%s.\n" % (mod, mod, mod))
    return "\n".join(out), {"lemmas": lemmas, "functions": len(funcs)}
