"""Per-run proof that the two regenerated interpreter models are equal (C02_step_eq and friends), by one of two routes:

  pivot   Gen.GenCpu65.f = Snapshot.GenCpu65.f (checks/snapeq.py, per function, closed by conversion),
          Snapshot.GenCpu65.Step = Snapshot.GenCpuAlt.Step (STATIC: Props/C02Snap.v), Snapshot.GenCpuAlt.f = Gen.GenCpuAlt.f.
          Robust against a behaviour-preserving rewrite of ONE interpreter that conversion sees through (renaming, a
          hoisted sub-expression, an extracted pure helper), because each regenerated model is compared with its own
          earlier text and not with the other interpreter.
  direct  GenCpu65.f = GenCpuAlt.f routine by routine over the regenerated models (checks/cpueq.py): the route when a
          snapshot is out of date (both interpreters edited in the same way).

Both produce a module of build/work/Run with C02_step_eq, C02_run_eq, C02_reset_eq, C02_irq_eq, C02_nmi_eq."""
import os
import re
import vlib
from checks import cpueq, snapeq

SNAP = os.path.join(vlib.COQ, "Snapshot")
if "Snapshot" not in vlib.COQ_ARGS:
    vlib.COQ_ARGS += ["-Q", SNAP, "Snapshot"]

PIVOT_V = """(* per-run: the two regenerated interpreter models are equal, through the committed snapshots (static Props/C02Snap.v) *)
From Coq Require Import ZArith List.
From Lib Require Import ZOps Machine.
From Snapshot Require GenCpu65 GenCpuAlt.
From Gen Require GenCpu65 GenCpuAlt.
From Props Require Import CpuEqLib.
From Props Require C02Snap.
From Run Require C01_snapeq C02_snapalt.
Theorem C02_step_eq : Gen.GenCpu65.Step = Gen.GenCpuAlt.Step.
Proof. rewrite <- C01_snapeq.seq_Step, <- C02_snapalt.seq_Step. exact C02Snap.C02_step_eq. Qed.
Theorem C02_run_eq : forall n s, run Gen.GenCpu65.Step n s = run Gen.GenCpuAlt.Step n s.
Proof. intros n s. rewrite C02_step_eq. reflexivity. Qed.
Theorem C02_reset_eq : Gen.GenCpu65.Reset = Gen.GenCpuAlt.Reset.
Proof. rewrite <- C01_snapeq.seq_Reset, <- C02_snapalt.seq_Reset. exact C02Snap.C02_reset_eq. Qed.
Theorem C02_irq_eq : Gen.GenCpu65.TriggerIRQ = Gen.GenCpuAlt.TriggerIRQ.
Proof. rewrite <- C01_snapeq.seq_TriggerIRQ, <- C02_snapalt.seq_TriggerIRQ. exact C02Snap.C02_irq_eq. Qed.
Theorem C02_nmi_eq : Gen.GenCpu65.triggerNMI = Gen.GenCpuAlt.triggerNMI.
Proof. rewrite <- C01_snapeq.seq_triggerNMI, <- C02_snapalt.seq_triggerNMI. exact C02Snap.C02_nmi_eq. Qed.
Print Assumptions C02_step_eq.
Print Assumptions C02_run_eq.
"""


def first_failing(out):
    m = re.search(r"\(in proof (\w+)\)", out)
    if m:
        return m.group(1)
    m = re.search(r'File "[^"]*", line (\d+)', out)
    return ("line " + m.group(1)) if m else out[-300:]


def snapshot_equalities():
    """Compile Run/C01_snapeq.v and Run/C02_snapalt.v. -> {"GenCpu65": (ok, out, info, secs), "GenCpuAlt": ...}"""
    res = {}
    for mod, fname in (("GenCpu65", "C01_snapeq.v"), ("GenCpuAlt", "C02_snapalt.v")):
        snap = os.path.join(SNAP, mod + ".v")
        if not os.path.exists(snap):
            res[mod] = (False, "no snapshot", {"lemmas": [], "only_in_snapshot": [], "only_in_regenerated": []}, 0)
            continue
        txt, info = snapeq.generate(snap, os.path.join(vlib.GEN, mod + ".v"), mod)
        pv = os.path.join(vlib.RUN, fname)
        vlib.write_if_changed(pv, txt)
        rc, out, dt, _ = vlib.coqc(pv, timeout=1800)
        res[mod] = (rc == 0 and not info["only_in_snapshot"], out, info, dt)
    return res


def step_equality():
    """-> dict(route, module, ok, out, secs, info, snap) ; module = Run module that defines C02_step_eq etc."""
    snap = snapshot_equalities()
    static_ok = os.path.exists(os.path.join(vlib.COQ, "Props", "C02Snap.vo"))
    if snap["GenCpu65"][0] and snap["GenCpuAlt"][0] and static_ok:
        pv = os.path.join(vlib.RUN, "C02_pivot.v")
        vlib.write_if_changed(pv, PIVOT_V)
        rc, out, dt, _ = vlib.coqc(pv, timeout=900)
        if rc == 0:
            n = len(snap["GenCpu65"][2]["lemmas"]) + len(snap["GenCpuAlt"][2]["lemmas"])
            return {"route": "pivot", "module": "C02_pivot", "ok": True, "out": out, "secs": dt + snap["GenCpu65"][3] + snap["GenCpuAlt"][3],
                    "lemmas": n, "snap": snap, "info": None}
    txt, info = cpueq.generate(os.path.join(vlib.GEN, "GenCpu65.v"), os.path.join(vlib.GEN, "GenCpuAlt.v"))
    pv = os.path.join(vlib.RUN, "C02_eq.v")
    vlib.write_if_changed(pv, txt)
    rc, out, dt, _ = vlib.coqc(pv, timeout=3600)
    return {"route": "direct", "module": "C02_eq", "ok": rc == 0, "out": out, "secs": dt, "lemmas": len(info["lemmas"]), "snap": snap, "info": info}
