"""C11: the emulated System's memory map is the LoROM map of the mapper package.

Model: coq/Model/System.v (hand-written: the Attach list of CreateEmulator, folded into resolve : address -> cell).
Theorems: coq/Props/SystemProps.v (static, parameterised over a bus->pak function) instantiated on every run with the
lorom function regenerated from source and proved by an exhaustive kernel sweep over all 2^24 addresses.
Tie: the REAL emulator.System is probed at all 2^24 addresses (harness sysprobe); Coq computes the per-bank digests of
resolve and proves them equal to the observed ones (Run/Dig_C11.v, Lemma tie_system); the lorom side is tied by the
mappers' digest lemma (Run/Dig_lorom.v).  Falsifier: the clauses stated in Go against the observed System with
lorom.BusAddressToPak as the only oracle (reads: all 2^24 addresses; writes: 3 per 16-byte bus segment, all in thorough)."""
import os
import re
import vlib
from checks import mappers

STATIC = ["Model/System.v", "Props/SystemProps.v"]

PROP_V = """(* per-run instantiation of C11: the System model against the lorom mapper regenerated from source *)
From Coq Require Import Uint63.
From Lib Require Import U63Ops Sweep.
From Model Require Import System.
From Props Require Import SystemProps.
From Gen Require Import GenMap_lorom.
Local Open Scope uint63_scope.

Lemma sweep : all24 (c11_check lorom_BusAddressToPak) = true.
Proof. vm_cast_no_check (eq_refl true). Qed.
Lemma C11_all : forall n : int, (n <? 16777216) = true -> c11_prop lorom_BusAddressToPak n.
Proof. exact (c11_all _ sweep). Qed.

(* every bus address the emulator backs with a byte of ROM/SRAM/WRAM is translated by lorom.BusAddressToPak to the
   pak address of exactly that byte (so both call it the same class and the same offset), the byte exists in the
   array, a bus read returns it and a bus write changes it and nothing else *)
Theorem C11_map : forall n : int, (n <? 16777216) = true -> forall c o, resolve n = CCell c o ->
  (o <? arr_len c) = true /\\
  lorom_BusAddressToPak n = (cell_pak c o, ENil) /\\ pak_cell (cell_pak c o) = Some (c, o) /\\
  access_prop n c o.
Proof. exact (map_agrees _ C11_all). Qed.

(* in the orientation of the property text: whenever both sides assign storage, it is the same byte *)
Theorem C11_agree : forall n : int, (n <? 16777216) = true -> forall c o p, resolve n = CCell c o ->
  lorom_BusAddressToPak n = (p, ENil) -> pak_cell p = Some (c, o).
Proof. exact (agree_with_pak _ C11_all). Qed.

(* never a different class: a mapped address is that very byte in the emulator or has no backing at all (never
   I/O, never another array); an address the mapper leaves unmapped is never backed by ROM/SRAM/WRAM *)
Theorem C11_class : forall n : int, (n <? 16777216) = true ->
  (forall p c o, lorom_BusAddressToPak n = (p, ENil) -> pak_cell p = Some (c, o) ->
     resolve n = CCell c o \\/ resolve n = CNone) /\\
  (snd (lorom_BusAddressToPak n) <> ENil -> resolve n = CIO \\/ resolve n = CNone).
Proof. exact (never_other_class _ C11_all). Qed.

(* two backed addresses share storage exactly when the mapper sends them to the same pak address *)
Theorem C11_mirrors_general : forall n m : int, (n <? 16777216) = true -> (m <? 16777216) = true ->
  forall c o c' o', resolve n = CCell c o -> resolve m = CCell c' o' ->
  (fst (lorom_BusAddressToPak n) = fst (lorom_BusAddressToPak m) <-> (c = c' /\\ o = o')).
Proof. exact (mirrors_share_storage _ C11_all). Qed.

(* the declared mirror families are backed and share storage: banks $80-$BF versus $00-$3F (ROM halves and the
   low 8 KiB), the low 8 KiB of system banks versus $7E:0000-$1FFF, SRAM banks $F0+ versus $70+ *)
Theorem C11_mirrors : forall n : int, (n <? 16777216) = true -> mirror_prop n.
Proof. exact (declared_mirrors _ C11_all). Qed.

Print Assumptions C11_map.
Print Assumptions C11_agree.
Print Assumptions C11_class.
Print Assumptions C11_mirrors_general.
Print Assumptions C11_mirrors.
Print Assumptions resolve_fast_ok.
Print Assumptions access_cell.
"""

COUNT_V = """(* non-vacuity, measured inside the kernel: how many of the 2^24 addresses the emulator backs with ROM/SRAM/WRAM
   (= the addresses C11_map speaks about; each is also mapped by lorom, by C11_map) and how many lorom maps *)
From Coq Require Import Uint63 Bool.
From Lib Require Import U63Ops Sweep.
From Model Require Import System.
From Props Require Import SystemProps.
From Gen Require Import GenMap_lorom.
Local Open Scope uint63_scope.
Definition n_backed := Eval vm_compute in count24 (fun n => is_cell (resolve_fast n)).
Definition n_common := Eval vm_compute in count24 (fun n => andb (is_cell (resolve_fast n)) (gerr_is_nil (snd (lorom_BusAddressToPak n)))).
Definition n_io := Eval vm_compute in count24 (fun n => is_io (resolve_fast n)).
Definition n_mapped := Eval vm_compute in count24 (fun n => gerr_is_nil (snd (lorom_BusAddressToPak n))).
Print n_backed.
Print n_common.
Print n_io.
Print n_mapped.
Lemma backed_are_common : n_backed = n_common.
Proof. reflexivity. Qed.
"""

DIG_V = """(* tie of the hand-written System model to the compiled code: per-bank digests of the model's cell table,
   computed by vm_compute, against the digests of the table the Go harness OBSERVED on a real emulator.System
   (CreateEmulator, then reads through System.Bus with known array contents) at all 2^24 addresses *)
From Coq Require Import Uint63 List.
From Lib Require Import U63Ops Digest.
From Model Require Import System.
From Props Require Import SystemProps.
Import ListNotations.
Local Open Scope uint63_scope.
Set Printing Depth 2000.
Definition go_cells : list int := [{cells}].
Definition bad_cells := Eval vm_compute in diff_idx (bank_digests (fun n => enc_cell (resolve_fast n))) go_cells.
Print bad_cells.
Lemma tie_system : bad_cells = [].
Proof. reflexivity. Qed.
"""

DIFF_V = """From Coq Require Import Uint63 List.
From Lib Require Import U63Ops Digest.
From Model Require Import System.
Import ListNotations.
Local Open Scope uint63_scope.
Fixpoint first_diff (a : int) (l : list int) : option (int * int * int) :=
  match l with
  | [] => None
  | x :: r => let m := enc_cell (resolve_fast a) in if m =? x then first_diff (a + 1) r else Some (a, m, x)
  end.
{chunks}
Definition observed : list int := concat [{names}].
Definition d := Eval vm_compute in first_diff {base} observed.
Print d.
"""

FORBIDDEN = re.compile(r"\b(Axiom|Axioms|Parameter|Parameters|Conjecture|Admitted|admit|Unset\s+Guard|Guard\s+Checking|"
                       r"Universe\s+Checking|Positivity\s+Checking|type-in-type|native_compute)\b")


def enc_str(x):
    x = int(x)
    if x == 0:
        return "none(panics)"
    if x == 1:
        return "io"
    if x == 2:
        return "erratic"
    return "%s[%06x]" % (["?", "ROM", "SRAM", "WRAM"][(x >> 28) & 3], x & ((1 << 28) - 1))


def hygiene():
    bad = []
    for rel in STATIC:
        src = open(os.path.join(vlib.COQ, rel)).read()
        src = re.sub(r"\(\*.*?\*\)", "", src, flags=re.S)
        for m in FORBIDDEN.finditer(src):
            bad.append("%s: %s" % (rel, m.group(0)))
        # Variable/Hypothesis only inside sections
        depth = 0
        for line in src.splitlines():
            if re.match(r"\s*Section\s", line):
                depth += 1
            elif re.match(r"\s*End\s", line):
                depth -= 1
            elif depth == 0 and re.match(r"\s*(Variable|Variables|Hypothesis|Hypotheses|Context)\b", line):
                bad.append("%s: %s outside a section" % (rel, line.strip()))
    return bad


def job_theorems(gen_errs):
    r = {"obl": [], "assumptions": [], "secs": 0.0}
    if "GenMap_lorom" in gen_errs:
        r["obl"].append(("translate lorom mapper from source", False, gen_errs["GenMap_lorom"]))
        return r
    rc, out, dt, cached = vlib.coqc(os.path.join(vlib.GEN, "GenMap_lorom.v"))
    r["obl"].append(("coqc Gen/GenMap_lorom.v (regenerated lorom functions type-check)", rc == 0, out))
    if rc != 0:
        return r
    pv = os.path.join(vlib.RUN, "C11_lorom.v")
    vlib.write_if_changed(pv, PROP_V)
    fresh = vlib.static_vo_fresh(pv)
    r["obl"].append(("static library (Model/System.vo, Props/SystemProps.vo, Lib/*.vo) compiled and newer than its sources", fresh,
                     "run ./check --setup"))
    rc, out, dt, cached = vlib.coqc(pv, timeout=1500)
    tag = "%.0fs%s" % (dt, ", cached" if cached else "")
    r["secs"] = dt
    r["obl"].append(("Lemma sweep : all24 (c11_check lorom_BusAddressToPak) = true  (kernel sweep of 2^24 addresses, %s)" % tag, rc == 0, out))
    for t in ["C11_map (forall n < 2^24: backed by array byte (c,o) -> lorom n = pak of (c,o), o in bounds, read returns it, write changes exactly it)",
              "C11_agree (forall n < 2^24: resolve n = Cell c o -> lorom n = (p, nil) -> pak_cell p = (c, o))",
              "C11_class (forall n < 2^24: mapped -> that byte or no backing; unmapped -> I/O or no backing)",
              "C11_mirrors_general (forall n m < 2^24, both backed: same pak address <-> same byte)",
              "C11_mirrors (forall n < 2^24: $00-$3F/$80-$BF, low-8K/$7E, $70+/$F0+ families backed and shared)"]:
        r["obl"].append(("Theorem " + t, rc == 0, out))
    r["assumptions"] = vlib.parse_assumptions(out)
    return r


def job_lorom_tie(harness, gen_errs):
    """the mappers' translator validation, for lorom (same file as C04/C05 write: shared cache)"""
    name = "tie: generated lorom functions = compiled Go on all 2 x 2^24 inputs (per-bank digests, Lemma tie_lorom)"
    if "GenMap_lorom" in gen_errs or not harness:
        return [(name, False, "translator or harness unavailable")]
    rc, out, dt, _ = vlib.coqc(os.path.join(vlib.GEN, "GenMap_lorom.v"))
    if rc != 0:
        return [(name, False, out)]
    g_rc, g_out, _ = vlib.sh([harness, "mapdigest", "lorom"], timeout=300)
    gl = g_out.splitlines()
    if g_rc != 0 or len(gl) < 2:
        return [(name, False, "mapdigest failed: " + g_out[-500:])]
    dv = os.path.join(vlib.RUN, "Dig_lorom.v")
    vlib.write_if_changed(dv, mappers.DIG_V.format(m="lorom", g1="; ".join(gl[0].split()[1:]), g2="; ".join(gl[1].split()[1:])))
    rc2, out2, dt2, _ = vlib.coqc(dv, timeout=900)
    return [(name, rc2 == 0, out2)]


def first_difference(harness, bank):
    """model versus observation inside one bank: the first address where they differ (computed by Coq)"""
    rc, out, _ = vlib.sh([harness, "syscells", "%x" % bank], timeout=300)
    vals = [l for l in out.splitlines() if l.startswith("cellsof ")]
    if rc != 0 or not vals:
        return None
    dv = os.path.join(vlib.RUN, "Diff_C11.v")
    v = vals[0].split()[1:]
    chunks = ["Definition o%d : list int := [%s]." % (i, "; ".join(v[i * 512:(i + 1) * 512])) for i in range((len(v) + 511) // 512)]
    vlib.write_if_changed(dv, DIFF_V.format(chunks="\n".join(chunks), names="; ".join("o%d" % i for i in range(len(chunks))), base=bank << 16))
    rc, out, _, _ = vlib.coqc(dv, timeout=600)
    m = re.search(r"Some\s*\(\s*(\d+)\s*,\s*(\d+)\s*,\s*(\d+)\s*\)", out)
    if rc != 0 or not m:
        return None
    return int(m.group(1)), int(m.group(2)), int(m.group(3))


def job_probe(harness, tier):
    r = {"obl": [], "fails": [], "lines": [], "stats": {}, "writes": 0, "first_diff": None}
    tname = "tie: model resolve = cell observed on the real emulator.System at all 2^24 addresses (per-bank digests, Lemma tie_system)"
    wname = "tie: CreateEmulator returns nil and a bus write changes exactly the byte that reads come from (sampled writes on the real System)"
    if not harness:
        r["obl"] += [(tname, False, "harness unavailable"), (wname, False, "harness unavailable")]
        return r
    rc, out, dt = vlib.sh([harness, "sysprobe", tier], timeout=1500)
    r["lines"] = [l[:600] for l in out.splitlines()]
    r["probe_secs"] = dt
    d = {}
    for l in out.splitlines():
        k = l.split(" ", 1)
        d.setdefault(k[0], []).append(k[1] if len(k) > 1 else "")
        m = re.match(r"FAIL (C11\.\S+) input=(\S+) (.*)", l)
        if m:
            r["fails"].append({"clause": m.group(1), "input": m.group(2), "detail": m.group(3)})
    if rc != 0 or "cells" not in d:
        r["obl"] += [(tname, False, "sysprobe failed: " + out[-800:]), (wname, False, "sysprobe failed")]
        return r
    for kv in d.get("stats", [""])[0].split():
        k, v = kv.split("=")
        r["stats"][k] = int(v)
    r["writes"] = int(d.get("writes", ["0"])[0] or 0)
    cells = d["cells"][0].split()
    dv = os.path.join(vlib.RUN, "Dig_C11.v")
    vlib.write_if_changed(dv, DIG_V.format(cells="; ".join(cells)))
    rc2, out2, dt2, cached = vlib.coqc(dv, timeout=1200)
    detail = ""
    if rc2 != 0:
        detail = out2
        m = re.search(r"bad_cells\s*=\s*\[([^\]]*)\]", out2)
        if m and m.group(1).strip():
            banks = [int(x) for x in m.group(1).replace("\n", " ").split(";") if x.strip().isdigit()]
            detail = "banks whose digests differ: %s" % " ".join("$%02X" % b for b in banks[:40])
            if banks and banks[0] < 256:
                fd = first_difference(harness, banks[0])
                if fd:
                    r["first_diff"] = {"address": "%06x" % fd[0], "model": enc_str(fd[1]), "observed": enc_str(fd[2])}
                    detail += "; first differing address $%06X: model says %s, the real System shows %s" % (fd[0], enc_str(fd[1]), enc_str(fd[2]))
    r["dig_secs"] = dt2
    r["obl"].append((tname + " (%.0fs%s)" % (dt2, ", cached" if cached else ""), rc2 == 0, detail))
    create_ok = d.get("create", [""])[0].strip() == "err=<nil> panic=<nil>"
    wd = [l for l in out.splitlines() if l.startswith("FAIL WRITEDIFF")]
    wok = [l for l in out.splitlines() if l.startswith("OK WRITEDIFF")]
    r["obl"].append((wname, create_ok and not wd and bool(wok),
                     "create: %s; %s" % (d.get("create", ["?"])[0], wd[0] if wd else "")))
    return r


def job_count(gen_errs):
    if "GenMap_lorom" in gen_errs:
        return 1, "translator unavailable", {}, 0.0
    cv = os.path.join(vlib.RUN, "C11_count.v")
    vlib.write_if_changed(cv, COUNT_V)
    rc, out, dt, cached = vlib.coqc(cv, timeout=1200)
    nums = {k: int(v) for (k, v) in re.findall(r"(n_\w+)\s*=\s*(\d+)", out)}
    return rc, out, nums, dt


def run_c11(ck):
    ck.trusted = [
        "Coq 8.16.1 kernel incl. its bytecode VM (vm_compute / VM casts) and primitive 63-bit integers; no native_compute",
        "axioms: only those the standard library declares for Uint63 primitives, as printed under print_assumptions",
        "hand-written model coq/Model/System.v of CreateEmulator + Bus.Attach/EaRead/EaWrite + memory.RAM; bound to the compiled code on this run "
        "by observation of the real System at all 2^24 addresses (5 read rounds with known array contents) and Coq-checked per-bank digests "
        "(trust reduced to a 63-bit rolling-hash collision and to the Go probe in harness/systool.go); write side sampled (3 per 16-byte segment; all in thorough)",
        "translator /verif/gen for lorom.BusAddressToPak, validated on this run by 2 x 256 bank digests over the whole domain",
        "array contents are modelled as a function class -> index -> byte; Go slice aliasing semantics (s.ROM[a:b] shares storage with s.ROM) is assumed, and observed by the probe",
        "the statement in coq/Props/SystemProps.v: pak_cell (ROM p < $E00000 -> ROM[p]; $E00000+o -> SRAM[o]; $F50000+o, o < $20000 -> WRAM[o]) and the three mirror families",
    ]
    tier = ck.tier
    bad = hygiene()
    ck.oblige("proof hygiene: no Axiom/Parameter/Admitted/admit/guard switches in Model/System.v, Props/SystemProps.v", not bad, "; ".join(bad))
    errs = vlib.run_gen("mappers")
    vlib.fallback_obligations(ck, ["GenMap_lorom"])
    harness, herr = vlib.build_harness()
    if harness is None:
        ck.oblige("build Go harness against the tree under test", False, herr)
    os.makedirs(vlib.RUN, exist_ok=True)
    if "GenMap_lorom" not in errs:
        vlib.coqc(os.path.join(vlib.GEN, "GenMap_lorom.v"))    # once, before the parallel jobs that import it
    rt, rl, rp, rc_ = vlib.parallel([lambda: job_theorems(errs), lambda: job_lorom_tie(harness, errs), lambda: job_probe(harness, tier),
                                     lambda: job_count(errs)])
    all_ok = True
    for (name, ok, detail) in rt["obl"] + rl + rp["obl"]:
        ck.oblige(name, ok, "" if ok else detail)
        all_ok = all_ok and ok
    ck.assumptions += rt["assumptions"]
    st = rp["stats"]
    backed = st.get("rom", 0) + st.get("sram", 0) + st.get("wram", 0)
    # non-vacuity counted by the kernel, and compared with what the probe observed
    rc, out, nums, dtc = rc_
    same = rc == 0 and nums.get("n_backed") == backed and nums.get("n_common") == backed and nums.get("n_io") == st.get("io", -1)
    ok = ck.oblige("non-vacuity: the kernel counts %s model addresses backed by ROM/SRAM/WRAM, all of them mapped by lorom (Lemma backed_are_common), and %s I/O addresses; "
                   "the probe of the real System observed %d and %d" % (nums.get("n_backed"), nums.get("n_io"), backed, st.get("io", -1)), same,
                   out if rc != 0 else "kernel %s vs observed %s" % (nums, st))
    all_ok = all_ok and ok
    if tier == "thorough":
        # independent re-check of the static part by coqchk (the per-run sweep files need the VM and are not re-checked)
        rcq, outq, dtq = vlib.sh(["coqchk", "-silent", "-o", "-Q", "Lib", "Lib", "-Q", "Props", "Props", "-Q", "Model", "Model", "Props.SystemProps"],
                                 cwd=vlib.COQ, timeout=1800, env=dict(os.environ))
        clean = rcq == 0 and all(re.search(k + r":\s*<none>", outq) for k in
                                 ("relying on type-in-type", "relying on unsafe \\(co\\)fixpoints", "positivity is assumed"))
        ok = ck.oblige("coqchk -o accepts Lib.Sweep, Lib.Digest, Model.System, Props.SystemProps; no type-in-type, unsafe fixpoints or assumed positivity (%.0fs)" % dtq,
                       clean, outq[-1200:])
        all_ok = all_ok and ok
    foreign = vlib.foreign_assumptions(ck.assumptions)
    ck.oblige("Print Assumptions lists only Uint63 primitives and the standard library's axioms for them", not foreign, "unexpected: %s" % foreign)
    all_ok = all_ok and not foreign and not bad

    for f in rp["fails"]:
        ck.violation("%s.%s" % (f["clause"].split(".")[1], f["input"]), "counterexample",
                     "%s at bus $%s: %s" % (f["clause"], f["input"].upper(), f["detail"]),
                     {"clause": f["clause"], "input_hex": f["input"], "observed": f["detail"],
                      "how": "harness syseval %s" % f["input"]})
    if not all_ok and not rp["fails"]:
        broken = [o["name"] for o in ck.obligations if not o["discharged"]]
        kind = "broken-correspondence" if any(n.startswith("tie") or n.startswith("translate") for n in broken) else "broken-theorem"
        rep = {"broken_obligations": broken}
        if rp.get("first_diff"):
            rep["model_vs_code"] = rp["first_diff"]
            rep["input_hex"] = rp["first_diff"]["address"]
        ck.violation("obligation", kind,
                     "the Go falsifier (all 2^24 reads, %d writes, lorom.BusAddressToPak as oracle) found no address violating the property; broken: %s%s"
                     % (rp["writes"], "; ".join(broken),
                        ("; model and code differ first at $%s (model %s, code %s)" % (rp["first_diff"]["address"].upper(), rp["first_diff"]["model"], rp["first_diff"]["observed"]))
                        if rp.get("first_diff") else ""), rep)
    ck.cov.update({
        "exhaustive": True,
        "evaluations": (1 << 24) if all_ok else 0,
        "distinct_nontrivial": nums.get("n_common", 0) if all_ok else 0,
        "rule": "every 24-bit bus address is enumerated inside the Coq kernel (all24 / all24_sound); evaluations counts them when the sweep lemma was accepted; "
                "distinct_nontrivial = the addresses that BOTH the emulator model backs with ROM/SRAM/WRAM and lorom maps (the hypothesis of C11_map is true there), "
                "counted by the kernel in Run/C11_count.v (n_common) and equal to the number the Go probe observed on the real System",
        "kernel_counts": nums,
        "observed_on_real_system": st,
        "checker_cmd": "coqc -Q coq/Lib Lib -Q coq/Props Props -Q coq/Model Model -Q build/work/Gen Gen build/work/Run/C11_lorom.v ; .../Dig_C11.v ; .../Dig_lorom.v ; .../C11_count.v",
        "traces_validated_against_impl": ((1 << 24) + rp["writes"]) if any(n.startswith("tie: model resolve") and ok for (n, ok, _) in rp["obl"]) else 0,
        "input_distribution": {"read_probe": "all 2^24 addresses x 5 rounds (4 rounds decode (class, index), 1 round with seeded pseudo-random contents confirms)",
                               "write_probe": "%d writes: %s; after every bank all three arrays are compared with a reference copy"
                                              % (rp["writes"], "every address" if tier == "thorough" else "first, last and one seeded interior byte of each of the 2^20 16-byte bus segments")},
        "modelled": "emulator/system.go CreateEmulator, emulator/bus/bus.go Attach/EaRead/EaWrite, emulator/memory/ram.go, fakehw.go (as opaque I/O); mapping/lorom regenerated",
        "sram_decision": "System.SRAM is 64 KiB: the emulator attaches SRAM only at $70-$71/$F0-$F1:$0000-$7FFF. 'Both consider SRAM' = the emulator backs the address with an SRAM byte AND lorom returns a pak "
                         "address in $E00000-$EFFFFF; lorom's SRAM addresses in banks $72-$7D/$F2-$FF have no backing in the emulator (access panics) and are outside the claim (C11_class: 'or no backing').",
        "probe": rp["lines"][:1] + [l for l in rp["lines"] if l.startswith(("stats", "map", "writes", "OK", "FAIL"))],
    })
    ck.sample({"theorem": "C11_map", "statement": "forall n < 2^24, forall c o, resolve n = CCell c o -> o < arr_len c /\\ lorom_BusAddressToPak n = (cell_pak c o, ENil) /\\ pak_cell (cell_pak c o) = Some (c, o) /\\ access_prop n c o",
               "sweep_secs": rt.get("secs")})
    ck.sample({"theorem": "C11_class", "statement": "forall n < 2^24, (lorom n = (p, nil) -> pak_cell p = Some (c, o) -> resolve n = CCell c o \\/ resolve n = CNone) /\\ (lorom n unmapped -> resolve n = CIO \\/ resolve n = CNone)"})
    ck.sample({"observed_map_of_real_system": [l for l in rp["lines"] if l.startswith("map")][:1]})
    ck.sample({"falsifier": [l for l in rp["lines"] if l.startswith(("OK", "FAIL"))]})


def replay(pid, rp):
    """re-run the recorded case on the current tree: exit 1 if it still fails"""
    r = rp.get("replay", {})
    harness, herr = vlib.build_harness()
    if harness is None:
        print(herr)
        return 1
    still = False
    if "input_hex" in r:
        rc, out, _ = vlib.sh([harness, "syseval", r["input_hex"]], timeout=300)
        print(out.strip())
        mv = r.get("model_vs_code")
        if mv:
            m = re.search(r"reads from (\S+);", out)
            still = not (m and m.group(1) == mv["model"])
            print("model Model/System.v says %s at $%s: %s" % (mv["model"], mv["address"].upper(),
                  "the real System still differs" if still else "the real System agrees now"))
    if rp.get("kind") == "counterexample":
        rc, out, _ = vlib.sh([harness, "sysprobe", "quick"], timeout=900)
        hit = [l for l in out.splitlines() if l.startswith("FAIL " + r.get("clause", "C11"))]
        print("\n".join(hit) if hit else "clause %s holds on the current tree" % r.get("clause", "C11"))
        return 1 if hit else 0
    if "model_vs_code" in r and not still:
        return 0
    print(rp.get("detail"))
    return 1
