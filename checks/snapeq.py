"""Generation of the per-run Coq file that proves a committed snapshot of an interpreter model
(coq/Snapshot/GenCpu65.v, the target of the static C01 proofs; coq/Snapshot/GenCpuAlt.v) EQUAL to the model regenerated
from the Go sources on this run (Gen/<mod>.v), function by function:

    Lemma seq_f : Snapshot.<mod>.f = Gen.<mod>.f.
    Proof. cbv delta [both]; rewrite with the equalities of the callees; reflexivity. Qed.

so that the static theorems about the snapshots (C01's refinement theorem; the equality of the two snapshots,
Props/C02Snap.v) are transported to the regenerated models by the kernel instead of by a textual comparison.  The
closing [reflexivity] is conversion, so a rewrite of the Go code that only renames, hoists a sub-expression into a
local or extracts a pure helper function still goes through."""
from checks import cpueq


def generate(psnap, pgen, mod="GenCpu65"):
    os_, bs, prs, ts = cpueq.parse_model(psnap)
    og, bg, prg, tg = cpueq.parse_model(pgen)
    S, G = "Snapshot." + mod, "Gen." + mod
    import os, re
    fsrc = open(os.path.join(os.path.dirname(psnap), "GenFields.v")).read()
    fnames = re.findall(r"Definition (f_\w+) : N :=", fsrc)
    fields = " ".join(["Snapshot.GenFields." + n for n in fnames] + ["Gen.GenFields." + n for n in fnames])
    out = ["""(* GENERATED per run by checks/snapeq.py: snapshot of the model %s = regenerated model *)
From Coq Require Import ZArith List Bool FunctionalExtensionality.
From Lib Require Import ZOps Machine.
From Snapshot Require GenFields %s.
From Gen Require GenFields %s.
From Props Require Import CpuEqLib SeqCong.
Local Open Scope Z_scope.
(* closing step of every lemma: conversion; when the regenerated routine was restructured (a helper extracted, an `if`
   moved into an expression, another spelling of the return), structured congruence (Props/SeqCong.v: in parallel through
   both terms, local continuations proved equal once, case split on conditions only one side tests); last, pointwise
   case analysis down to the Machine primitives.  The last two use functional extensionality; all under a time limit *)
Ltac seq_close helpers :=
  first [ timeout 60 reflexivity
        | timeout 300 (repeat (apply functional_extensionality; intro);
                       cbv delta [%(fields)s];
                       sc ltac:(helpers; cbv delta [%(fields)s]))
        | timeout 120 (repeat (apply functional_extensionality; intro); helpers;
                       cbv delta [%s];
                       unfold bind; cbv beta iota zeta delta [get log upd regs mem trace onpc onwdm];
                       repeat (first [ match goal with |- context [if ?c then _ else _] => destruct c eqn:? end
                                     | match goal with |- context [match ?r with Ok _ _ => _ | Panic => _ end] => destruct r eqn:? end ];
                               cbv beta iota zeta);
                       try reflexivity; try congruence) ].
""".replace("%(fields)s", fields) % (mod, mod, mod, fields)]
    lemmas, skipped = [], []
    new_helpers = [n for n in og if n not in bs]
    helpers = ("repeat (progress unfold " + ", ".join("%s.%s" % (G, n) for n in new_helpers) + ")") if new_helpers else "idtac"
    for t in ts:
        if t in tg:
            base = t[:-5]
            out.append("Lemma seqt_%s : %s.%s = %s.%s.\nProof. reflexivity. Qed." % (base, S, base, G, base))
    for fld in ("opcode", "mode", "size", "cycles"):
        out.append("Lemma seqt_tbl_%s : %s.tbl_%s = %s.tbl_%s.\nProof. reflexivity. Qed." % (fld, S, fld, G, fld))
    table_rw = ", ".join(["?seqt_%s" % t[:-5] for t in ts if t in tg] + ["?seqt_tbl_%s" % f for f in ("opcode", "mode", "size", "cycles")])
    done = set()
    tbl_done = False

    def emit_tbl_proc():
        rw = ", ".join("?seq_%s" % n for n in sorted(set(prs)) if n in done)
        out.append("Lemma seq_tbl_proc : %s.tbl_proc = %s.tbl_proc.\nProof. cbv delta [%s.tbl_proc %s.tbl_proc]. rewrite %s. seq_close ltac:(%s). Qed."
                   % (S, G, S, G, rw, helpers))
        lemmas.append("seq_tbl_proc")

    for n in os_:
        if n not in bg:
            skipped.append(n)
            continue
        uses_tbl = "tbl_proc" in bs[n]
        if uses_tbl and not tbl_done:
            emit_tbl_proc()
            tbl_done = True
        cs = [c for c in cpueq.callees(bs[n], os_) if c in done and c != n]
        rw = ", ".join(["?seq_%s" % c for c in cs] + (["?seq_tbl_proc"] if uses_tbl else []) + [table_rw])
        out.append("Lemma seq_%s : %s.%s = %s.%s.\nProof. cbv delta [%s.%s %s.%s]. rewrite %s. seq_close ltac:(%s). Qed."
                   % (n, S, n, G, n, S, n, G, n, rw, helpers))
        done.add(n)
        lemmas.append("seq_" + n)
    if not tbl_done:
        emit_tbl_proc()
    return "\n".join(out) + "\n", {"lemmas": lemmas, "only_in_snapshot": skipped,
                                   "only_in_regenerated": [n for n in og if n not in bs]}
