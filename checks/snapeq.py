"""Generation of the per-run Coq file that proves the committed snapshot of the primary interpreter model
(coq/Snapshot/GenCpu65.v, the target of the static C01 proofs) EQUAL to the model regenerated from the Go sources on
this run (Gen/GenCpu65.v), function by function:

    Lemma seq_f : Snapshot.GenCpu65.f = Gen.GenCpu65.f.
    Proof. unfold both; rewrite with the equalities of the callees; reflexivity. Qed.

so that the static refinement theorem is transported to the regenerated model (and, through C02's equality, to the
regenerated model of the alternative interpreter) by the kernel instead of by a textual comparison."""
import re
from checks import cpueq


def generate(psnap, pgen, wanted=None):
    os_, bs, prs, ts = cpueq.parse_model(psnap)
    og, bg, prg, tg = cpueq.parse_model(pgen)
    out = ["""(* GENERATED per run by checks/snapeq.py: snapshot of the primary model = regenerated primary model *)
From Coq Require Import ZArith List Bool.
From Lib Require Import ZOps Machine.
Require Snapshot.GenFields Snapshot.GenCpu65 Gen.GenFields Gen.GenCpu65.
Local Open Scope Z_scope.
"""]
    lemmas, skipped = [], []
    for t in ts:
        if t in tg:
            base = t[:-5]
            out.append("Lemma seqt_%s : Snapshot.GenCpu65.%s = Gen.GenCpu65.%s.\nProof. reflexivity. Qed." % (base, base, base))
    for fld in ("opcode", "mode", "size", "cycles"):
        out.append("Lemma seqt_tbl_%s : Snapshot.GenCpu65.tbl_%s = Gen.GenCpu65.tbl_%s.\nProof. reflexivity. Qed." % (fld, fld, fld))
    table_rw = ", ".join(["?seqt_%s" % t[:-5] for t in ts if t in tg] + ["?seqt_tbl_%s" % f for f in ("opcode", "mode", "size", "cycles")])
    done = set()
    tbl_done = False

    def emit_tbl_proc():
        rw = ", ".join("?seq_%s" % n for n in sorted(set(prs)) if n in done)
        out.append("Lemma seq_tbl_proc : Snapshot.GenCpu65.tbl_proc = Gen.GenCpu65.tbl_proc.\nProof. cbv delta [Snapshot.GenCpu65.tbl_proc Gen.GenCpu65.tbl_proc]. rewrite %s. reflexivity. Qed." % rw)
        lemmas.append("seq_tbl_proc")

    for n in os_:
        if n not in bg:
            skipped.append(n)
            continue
        uses_tbl = "tbl_proc" in bs[n]
        if uses_tbl and not tbl_done:
            emit_tbl_proc()
            tbl_done = True
        cs = [c for c in cpueq.callees(bs[n], os_) if c in done and c != n]
        rw = ", ".join(["?seq_%s" % c for c in cs] + (["?seq_tbl_proc"] if uses_tbl else []) + [table_rw])
        out.append("Lemma seq_%s : Snapshot.GenCpu65.%s = Gen.GenCpu65.%s.\nProof. cbv delta [Snapshot.GenCpu65.%s Gen.GenCpu65.%s]. rewrite %s. reflexivity. Qed."
                   % (n, n, n, n, n, rw))
        done.add(n)
        lemmas.append("seq_" + n)
    if not tbl_done:
        emit_tbl_proc()
    return "\n".join(out) + "\n", {"lemmas": lemmas, "only_in_snapshot": skipped,
                                   "only_in_regenerated": [n for n in og if n not in bs]}
