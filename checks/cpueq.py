"""Generation of the per-run Coq file that proves the two regenerated interpreter models equal, function by
function (C02).  The models GenCpu65.v / GenCpuAlt.v are produced from the Go sources by /verif/gen; for every
function of one model this module pairs it with its counterpart in the other (same name, or the routine at the same
position of the 256-entry instruction table), and emits

    Lemma eq_f : GenCpu65.f = GenCpuAlt.f'.
    Proof. cpu_eq_syn (rewrite with the equalities of the callees; reflexivity)  ||  cpu_eq_bus (extensionality,
           unfolding of the bus helper layer down to the Machine primitives, case analysis).  Qed.

so that a change applied to one interpreter only breaks a named lemma."""
import re


def parse_model(path):
    """-> (order, bodies, table) : function names in definition order, name -> text, list of 256 proc names"""
    s = open(path).read()
    order, bodies = [], {}
    for m in re.finditer(r"\(\* (\S+):(\d+)  func (\S+) \*\)\nDefinition (\S+) ([^\n]*)\n", s):
        order.append(m.group(4))
    # bodies: text from "Definition name" to the terminating ".\n\n"
    for name in order:
        m = re.search(r"\nDefinition %s [^\n]*:=\n(.*?)\.\n\n" % re.escape(name), s, re.S)
        bodies[name] = m.group(1) if m else ""
    procs = []
    m = re.search(r"Definition tbl_proc \(op : Z\) : st -> res unit :=\n  match op with\n(.*?)\n  \| _ =>", s, re.S)
    if m:
        for line in m.group(1).splitlines():
            mm = re.match(r"\s*\| (\d+) => (\S+)", line)
            if mm:
                procs.append(mm.group(2))
    tabs = re.findall(r"\nDefinition (tab_\w+_list) ", s)
    return order, bodies, procs, tabs


def callees(body, names):
    toks = set(re.findall(r"[A-Za-z_][A-Za-z_0-9']*", body))
    return [n for n in names if n in toks]


PRELUDE = """(* GENERATED per run by checks/cpueq.py: equality of the two regenerated interpreter models (C02) *)
From Coq Require Import ZArith List Bool FunctionalExtensionality.
From Lib Require Import ZOps Machine.
From Gen Require Import GenFields.
From Gen Require GenCpu65 GenCpuAlt.
From Props Require Import CpuEqLib.
Local Open Scope Z_scope.

"""


def generate(p65, palt):
    o65, b65, pr65, t65 = parse_model(p65)
    oalt, balt, pralt, talt = parse_model(palt)
    pair = {}
    for n in o65:
        if n in balt:
            pair[n] = n
    for a, b in zip(pr65, pralt):
        if a not in pair:
            pair[a] = b
    out = [PRELUDE]
    lemmas = []
    unpaired65 = [n for n in o65 if n not in pair]
    paired_alt = set(pair.values())
    unpairedalt = [n for n in oalt if n not in paired_alt]
    # tables
    for t in t65:
        if t in talt:
            out.append("Lemma eqt_%s : GenCpu65.%s = GenCpuAlt.%s.\nProof. reflexivity. Qed.\n" % (t, t, t))
            base = t[:-5]
            out.append("Lemma eqt_%s : GenCpu65.%s = GenCpuAlt.%s.\nProof. reflexivity. Qed.\n" % (base, base, base))
    for fld in ("opcode", "mode", "size", "cycles"):
        out.append("Lemma eqt_tbl_%s : GenCpu65.tbl_%s = GenCpuAlt.tbl_%s.\nProof. reflexivity. Qed.\n" % (fld, fld, fld))
    table_rw = ", ".join(["?eqt_%s" % t[:-5] for t in t65 if t in talt] + ["?eqt_tbl_%s" % f for f in ("opcode", "mode", "size", "cycles")])
    done = {}
    tbl_proc_emitted = False

    def emit_tbl_proc():
        rw = ", ".join("?eq_%s" % n for n in sorted(set(pr65)) if n in done)
        out.append("Lemma eq_tbl_proc : GenCpu65.tbl_proc = GenCpuAlt.tbl_proc.\nProof. cbv delta [GenCpu65.tbl_proc GenCpuAlt.tbl_proc]. rewrite %s. reflexivity. Qed.\n" % rw)
        lemmas.append("eq_tbl_proc")

    helpers65 = " ".join("GenCpu65.%s" % n for n in unpaired65)
    helpersalt = " ".join("GenCpuAlt.%s" % n for n in unpairedalt)
    for n in o65:
        if n not in pair:
            continue
        m = pair[n]
        cs = [c for c in callees(b65[n], o65) if c in done and c != n]
        uses_tbl_proc = "tbl_proc" in b65[n]
        if uses_tbl_proc and not tbl_proc_emitted:
            emit_tbl_proc()
            tbl_proc_emitted = True
        rw = ", ".join(["?eq_%s" % c for c in cs] + (["?eq_tbl_proc"] if uses_tbl_proc else []) + [table_rw])
        # semantic fallback: callees whose text differs between the packages (the bus helper layer, and helpers
        # that exist on one side only) are unfolded, transitively, down to the Machine primitives
        unf = "GenCpu65.%s, GenCpuAlt.%s" % (n, m)
        def closure(start_body, names_order, bodies, differing_set):
            seen, todo = [], callees(start_body, names_order)
            while todo:
                c = todo.pop()
                if c in seen or c not in differing_set:
                    continue
                seen.append(c)
                todo += callees(bodies[c], names_order)
            return seen
        d65 = set(unpaired65) | set(x for x in pair if b65[x] != balt[pair[x]])
        dalt = set(unpairedalt) | set(pair[x] for x in pair if b65[x] != balt[pair[x]])
        ex = ["GenCpu65." + c for c in closure(b65[n], o65, b65, d65) if c != n] + \
             ["GenCpuAlt." + c for c in closure(balt[m], oalt, balt, dalt) if c != m]
        rw_sem = ", ".join(["?eq_%s" % c for c in cs if c not in d65] + (["?eq_tbl_proc"] if uses_tbl_proc else []) + [table_rw])
        # delta only in the syntactic case: [unfold] also zeta-expands the continuations of the generated code (minutes on Step)
        out.append("Lemma eq_%s : GenCpu65.%s = GenCpuAlt.%s.\nProof.\n  first [ (cbv delta [GenCpu65.%s GenCpuAlt.%s]; try rewrite %s; timeout 60 reflexivity)\n        | timeout 120 (cpu_eq_bus ltac:(unfold %s) ltac:(rewrite %s) ltac:(%s)) ].\nQed.\n"
                   % (n, n, m, n, m, rw, unf, rw_sem, ("repeat (progress unfold " + ", ".join(ex) + ")") if ex else "idtac"))
        done[n] = m
        lemmas.append("eq_" + n)
    if not tbl_proc_emitted:
        emit_tbl_proc()
    out.append("""
(* ---- the C02 statements ---- *)
Theorem C02_step_eq : GenCpu65.Step = GenCpuAlt.Step.
Proof. exact eq_Step. Qed.

Theorem C02_run_eq : forall n s, run GenCpu65.Step n s = run GenCpuAlt.Step n s.
Proof. intros n s. rewrite C02_step_eq. reflexivity. Qed.

Theorem C02_reset_eq : GenCpu65.Reset = GenCpuAlt.Reset.
Proof. exact eq_Reset. Qed.
Theorem C02_irq_eq : GenCpu65.TriggerIRQ = GenCpuAlt.TriggerIRQ.
Proof. exact eq_TriggerIRQ. Qed.
Theorem C02_nmi_eq : GenCpu65.triggerNMI = GenCpuAlt.triggerNMI.
Proof. exact eq_triggerNMI. Qed.

Print Assumptions C02_step_eq.
Print Assumptions C02_run_eq.
""")
    info = {"paired": len(pair), "unpaired65": unpaired65, "unpairedalt": unpairedalt, "lemmas": lemmas,
            "syntactically_identical": sum(1 for n in pair if b65[n] == balt.get(pair[n]))}
    return "\n".join(out), info
