"""Per-run proof that the interrupt latch is 1 after every Step of a regenerated interpreter model, by the SafeLib engine
of C08 with the fourth tracked field switched from the stop flag to f_Interrupt (no routine assigns it; Step sets it to 1
right after the dispatch).  With C08's invariant this removes the "no interrupt pending" premise from all but the first
state of C01_run: see RUN_V below (Theorem C01_run_latched_<model>)."""
from checks import cpusafe as cs

LATCH = "f_Interrupt"


def generate(path, mod):
    saved = cs.SP
    cs.SP = LATCH
    try:
        return _generate(path, mod)
    finally:
        cs.SP = saved


def _generate(path, mod):
    TRUE = cs.TRUE
    M = cs.Model(path, mod)
    out = [cs.header(mod, "the interrupt latch is 1 after every Step (supplement to C01_run)")]
    out += cs.table_lemmas(M)
    out.append(cs.hooks(M))
    out.append("Ltac set_hook Q f v s0 b H ::=\n  lazymatch f with\n  | %s => set_with_pred Q f v s0 b H (eq v)\n  | %s => set_with_pred Q f v s0 b H (rng 24)\n  end.\n" % (cs.SP, cs.EA))
    lemmas = []
    emitted_tbl = False

    def stmt(f):
        q, ea, cy, ac, sp = cs.preds(M, f["name"])
        ps = " ".join(n for n, _ in f["params"])
        call = " ".join([f["name"]] + [n for n, _ in f["params"]] + ["s"])
        return "forall %s %s s, %sInv (BE %s %s %s %s) s -> safe (fun r s' => %s /\\ Inv (BE %s %s %s %s) s') (%s)" % (
            q, ps, "".join(p + " -> " for p in cs.premises(f)), ea, cy, ac, sp, cs.result_pred(f), ea, cy, ac, sp, call)

    def tbl_lemma():
        lines = ["Lemma safe_tbl_proc : forall (sp : Z -> Prop) op s, rng 8 op -> Inv (BE (rng 24) %s %s sp) s -> "
                 "safe (fun r s' => True /\\ Inv (BE (rng 24) %s %s sp) s') (tbl_proc op s)." % (TRUE, TRUE, TRUE, TRUE),
                 "Proof.", "  intros sp op s Hop. revert s. pattern op. apply all_bytes; [|exact Hop].",
                 "  cbv [upto app Z.of_nat Pos.of_succ_nat Pos.succ]."]
        for k, pname in enumerate(M.procs):
            lines.append("  apply Forall_cons; [ intros s0 Hi0; change (tbl_proc %d s0) with (%s s0); eapply safe_%s; exact Hi0 | ]." % (k, pname, pname))
        lines += ["  apply Forall_nil.", "Qed.\n"]
        out.append("\n".join(lines))
        lemmas.append("safe_tbl_proc")

    for f in M.funcs:
        if not f["monadic"]:
            continue
        name = f["name"]
        if "tbl_proc" in cs.idents(f["body"]) and not emitted_tbl:
            tbl_lemma()
            emitted_tbl = True
        call = cs.call_thunk(M, f)
        if name == "Step":
            out.append("""Lemma safe_Step_latch : forall s, Inv (BE %s %s %s %s) s -> safe (fun r s' => True /\\ Inv (BE (rng 24) %s %s (eq 1)) s') (Step s).
Proof. intros; cbv beta delta [Step]; safe_run ltac:(%s). Qed.

(* from ANY state with fields in their Go types (pending interrupt or not): no panic, fields stay in range, and the latch reads 1 *)
Theorem latch_%s : forall s, Inv (Bty fwidth) s -> safe (fun r s' => get %s s' = 1 /\\ Inv (Bty fwidth) s') (Step s).
Proof.
  intros s H. eapply safe_weaken; [apply safe_Step_latch; do 4 apply inv_ovr_true; exact H|].
  intros r s' [_ H']. cbv beta. split.
  - do 3 (eapply inv_ovr_base in H'). symmetry. exact (inv_ovr_get _ _ _ _ H').
  - do 4 (eapply inv_ovr_base in H'). exact H'.
Qed.
Print Assumptions latch_%s.
""" % (TRUE, TRUE, TRUE, TRUE, TRUE, TRUE, call, mod, LATCH, mod))
            lemmas += ["safe_Step_latch", "latch_" + mod]
            continue
        if name in ("Reset", "TriggerIRQ", "triggerNMI"):   # they assign the latch; not reachable from Step
            continue
        out.append("Lemma safe_%s : %s.\nProof. intros; cbv beta delta [%s]; safe_run ltac:(%s). Qed.\n" % (name, stmt(f), name, call))
        lemmas.append("safe_" + name)
    return "\n".join(out), {"lemmas": lemmas}


RUN_V = """(* per-run: C01_run with the "no interrupt pending" premise at the first state only (regenerated models) *)
From Coq Require Import ZArith List.
From Lib Require Import ZOps Machine.
From Spec Require Import Spec816.
%(imports)s
From Gen Require GenFields GenCpu65 GenCpuAlt.
From Props Require Import SafeLib.
From Run Require C01_transport C01_latch_GenCpu65%(altreq)s.
Local Open Scope Z_scope.

Section Latched.
Variable step : st -> res (Z * bool).
Hypothesis Hstep : forall s, wf s -> get f_E s = 0 -> no_int s -> Spec816.bcd_defined (abs s) (Machine.mem s) = true -> refines_step_d s (step s).
Hypothesis Hlatch : forall s, Inv (Bty Gen.GenFields.fwidth) s ->
  safe (fun r s' => get f_Interrupt s' = 1 /\\ Inv (Bty Gen.GenFields.fwidth) s') (step s).
Fixpoint run_of (n : nat) (s : st) : option st :=
  match n with O => Some s | S k => match step s with Ok _ s' => run_of k s' | Panic => None end end.
(* E = 0 and defined BCD operands at every state the run visits; nothing about interrupts *)
Fixpoint native_of (n : nat) (s : st) : Prop :=
  match n with
  | O => True
  | S k => get f_E s = 0 /\\ Spec816.bcd_defined (abs s) (Machine.mem s) = true /\\
           match step s with Ok _ s' => native_of k s' | Panic => True end
  end.
Theorem run_latched : forall n s, wf s -> Inv (Bty Gen.GenFields.fwidth) s -> no_int s -> native_of n s ->
  exists s', run_of n s = Some s' /\\ wf s' /\\ spec_trace n (abs s) (Machine.mem s) (abs s') (Machine.mem s').
Proof.
  induction n as [| k IH]; intros s W HI Hni Hn.
  - exists s. split; [ reflexivity | split; [ exact W | constructor ] ].
  - cbn [native_of] in Hn. destruct Hn as (HE & Hb & Hk).
    pose proof (Hstep s W HE Hni Hb) as R. pose proof (Hlatch s HI) as L.
    cbn [run_of]. destruct (step s) as [r s1 |]; [| contradiction].
    cbv beta iota delta [safe] in L. destruct L as [L1 L2].
    cbv beta iota delta [refines_step_d] in R. destruct R as (Ra & Rm & Rw).
    assert (Hni1 : no_int s1) by (split; rewrite L1; discriminate).
    destruct (IH s1 Rw L2 Hni1 Hk) as (s' & Hr & Hw & Ht).
    exists s'. split; [ exact Hr | split; [ exact Hw | ] ].
    apply (st_S k _ _ (abs s1) (Machine.mem s1)); [ split; assumption | exact Ht ].
Qed.
End Latched.

Definition C01_run_latched_primary :=
  run_latched Gen.GenCpu65.Step C01_transport.C01_step_primary C01_latch_GenCpu65.latch_GenCpu65.
Print Assumptions C01_run_latched_primary.
%(alt)s
"""

ALT_PART = """Definition C01_run_latched_alternative :=
  run_latched Gen.GenCpuAlt.Step C01_transport_alt.C01_step_alternative C01_latch_GenCpuAlt.latch_GenCpuAlt.
Print Assumptions C01_run_latched_alternative.
"""
