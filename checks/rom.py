"""C10: ROM.BusReader / ROM.BusWriter (rom.go) stay inside the addressed bank and obey the io contracts.

obligations  static theorems of coq/Props/RomProps.v about the executable model coq/Model/Rom.v (induction over
             any sequence of read sizes / write payloads, any image, any 32-bit bus address), restated by `exact`
             and `Print Assumptions` in build/work/Run/C10_props.v on every run; source hygiene.
tie          harness `romcases` runs histories (corpus first, boundary classes solved for explicitly, then
             structured random ones) on the REAL code; the observations are written as Gallina data into
             build/work/Run/Cases_C10_<k>.v where the kernel checks `bad = []` (model = implementation on every
             case: per call (n, error class, bytes read), panics, and the final image as diff runs).
falsifier    harness `romcheck` states the io contract of the property directly against the real code (no model)
             and prints a minimised replayable history for every broken clause.
"""
import json
import os
import re
import vlib

STATIC = ["Lib/ZList.v", "Model/Rom.v", "Props/RomProps.v", "Props/RomTie.v"]

PROP_V = r"""(* per-run restatement of the C10 theorems (static proofs in Props/RomProps.v) *)
From Coq Require Import ZArith List Bool.
From Lib Require Import ZList.
From Model Require Import Rom.
From Props Require Import RomProps.
Import ListNotations.
Local Open Scope Z_scope.

(* (a) any sequence of reads on a reader of a ROM-half address whose window is inside the image returns what a
   plain byte stream over exactly the window bytes returns *)
Theorem C10_reads : forall img a ks,
  addr_ok a -> rom_half a -> window_inside img a -> sizes_ok ks ->
  exists r, bus_reader img a = Ok r /\
            reads img r ks = stream_reads (slice img (pc_start a) (pc_end a)) ks.
Proof. exact RomProps.C10_reads. Qed.

(* ... so the concatenation of the reads is the window, byte for byte, and from then on every read is EOF *)
Theorem C10_reads_total : forall img a ks1 ks2,
  addr_ok a -> rom_half a -> window_inside img a -> sizes_ok ks1 -> sizes_ok ks2 ->
  65535 - page a <= zsum ks1 ->
  exists r, bus_reader img a = Ok r /\
    concat (map fst (reads img r ks1)) = slice img (pc_start a) (pc_end a) /\
    reads img r (ks1 ++ ks2) = reads img r ks1 ++ map (fun _ => ([], EEOF)) ks2.
Proof. exact RomProps.C10_reads_total. Qed.

Theorem C10_reads_concat : forall ks w, sizes_ok ks ->
  concat (map fst (stream_reads w ks)) = ztake (zsum ks) w.
Proof. exact RomProps.stream_reads_concat. Qed.

(* (b) any sequence of writes: results = stream_writes over the room in the window (each payload stored whole or
   refused whole), image afterwards = accepted payloads, concatenated, stored at the window start *)
Theorem C10_writes : forall img a ps,
  addr_ok a -> rom_half a -> window_inside img a ->
  exists os d w',
    writes img (bus_writer a) ps = Ok ((os, splice img (pc_start a) d), w') /\
    stream_writes (pc_end a - pc_start a) ps = (os, d) /\
    pc_start a + zlen d <= pc_end a /\
    w' = WWin (pc_start a) (pc_end a) (zlen d).
Proof. exact RomProps.C10_writes. Qed.

Theorem C10_writes_frame : forall img a ps,
  addr_ok a -> rom_half a -> window_inside img a ->
  exists os d w',
    writes img (bus_writer a) ps = Ok ((os, splice img (pc_start a) d), w') /\
    Forall2 (fun p o => o = (zlen p, ENil) \/ o = (0, EUnexpectedEOF)) ps os /\
    d = accepted ps os /\
    pc_start a + zlen d <= pc_end a /\
    let img' := splice img (pc_start a) d in
    zlen img' = zlen img /\
    slice img' 0 (pc_start a) = slice img 0 (pc_start a) /\
    zdrop (pc_end a) img' = zdrop (pc_end a) img /\
    slice img' (pc_start a) (pc_end a) = d ++ slice img (pc_start a + zlen d) (pc_end a).
Proof. exact RomProps.C10_writes_frame. Qed.

(* never n < len p with a nil error *)
Theorem C10_no_silent_partial_write : forall ps cap os d, stream_writes cap ps = (os, d) ->
  Forall2 (fun p o => snd o = ENil -> fst o = zlen p) ps os.
Proof. exact RomProps.stream_writes_no_silent_partial. Qed.

(* (c) a reader at the same address after the writes returns the written bytes, then the old rest of the window *)
Theorem C10_read_after_write : forall img a ps ks,
  addr_ok a -> rom_half a -> window_inside img a -> sizes_ok ks ->
  exists os d w' r,
    writes img (bus_writer a) ps = Ok ((os, splice img (pc_start a) d), w') /\
    stream_writes (pc_end a - pc_start a) ps = (os, d) /\
    bus_reader (splice img (pc_start a) d) a = Ok r /\
    reads (splice img (pc_start a) d) r ks =
      stream_reads (d ++ slice img (pc_start a + zlen d) (pc_end a)) ks.
Proof. exact RomProps.C10_read_after_write. Qed.

(* (d) page < $8000: every call (0, ErrUnexpectedEOF), image unchanged -- any image, any address *)
Theorem C10_low_page : forall img a ks ps, page a < 32768 ->
  bus_reader img a = Ok RErr /\
  reads img RErr ks = map (fun _ => ([], EUnexpectedEOF)) ks /\
  bus_writer a = WErr /\
  writes img WErr ps = Ok ((map (fun _ => (0, EUnexpectedEOF)) ps, img), WErr).
Proof. exact RomProps.C10_low_page. Qed.

(* (e) no panic when the bank lies inside the image; also for any mixed history over any number of handles *)
Theorem C10_no_panic : forall img a ps, addr_ok a -> bank_inside img a ->
  bus_reader img a <> Panic /\ writes img (bus_writer a) ps <> Panic.
Proof. exact RomProps.C10_no_panic_bank. Qed.

Theorem C10_run_no_panic : forall ops st,
  Forall (writer_inv (zlen (st_img st))) (st_ws st) ->
  Forall (new_ok (zlen (st_img st))) ops ->
  ~ In ObsPanic (snd (run st ops)) /\ zlen (st_img (fst (run st ops))) = zlen (st_img st).
Proof. exact RomProps.C10_run_no_panic. Qed.

(* the window is [ $8000*bank + (page - $8000), $8000*bank + $7FFF ): the anchored one *)
Theorem C10_window : forall a, addr_ok a -> rom_half a ->
  0 <= pc_start a /\ pc_start a <= pc_end a /\ pc_end a < 4294967296 /\ pc_end a - pc_start a = 65535 - page a.
Proof. exact RomProps.window_facts. Qed.

Print Assumptions C10_reads.
Print Assumptions C10_reads_total.
Print Assumptions C10_reads_concat.
Print Assumptions C10_writes.
Print Assumptions C10_writes_frame.
Print Assumptions C10_no_silent_partial_write.
Print Assumptions C10_read_after_write.
Print Assumptions C10_low_page.
Print Assumptions C10_no_panic.
Print Assumptions C10_run_no_panic.
Print Assumptions C10_window.
"""

THEOREMS = [
    "C10_reads (forall image, 32-bit address in the ROM half with its window inside the image, any read sizes: reads = stream_reads over the window bytes)",
    "C10_reads_total (concatenation of the reads = the window; afterwards (no bytes, EOF) for ever)",
    "C10_reads_concat (stream_reads delivers exactly the first sum-of-sizes bytes of the stream)",
    "C10_writes (any payload sequence: results = stream_writes over the room in the window; image = accepted payloads stored contiguously at the window start)",
    "C10_writes_frame (each result (len p, nil) or (0, ErrUnexpectedEOF); length, bytes before the window and from its end on unchanged)",
    "C10_no_silent_partial_write (err = nil -> n = len p)",
    "C10_read_after_write (reader at the same address returns the written bytes, then the old rest of the window)",
    "C10_low_page (page < $8000: every read/write is (0, ErrUnexpectedEOF), image unchanged)",
    "C10_no_panic (bank inside the image: neither BusReader nor any sequence of Writes panics)",
    "C10_run_no_panic (any mixed history over any number of live handles: no panic, image length constant)",
    "C10_window (window = [$8000*bank + page - $8000, $8000*bank + $7FFF), no uint32 wrap)",
]

ERR = {"nil": "ENil", "eof": "EEOF", "ueof": "EUnexpectedEOF"}

CASES_HEAD = """(* correspondence cases of this run for C10: histories executed by the Go harness on the real code
   (seed {seed}, tier {tier}); the kernel checks that the model answers the same on every one *)
From Coq Require Import ZArith List Uint63.
From Lib Require Import ZList.
From Model Require Import Rom.
From Props Require Import RomTie.
Import ListNotations.
Local Open Scope Z_scope.
Set Printing Depth 100000.
"""


def zl(xs):
    return "[" + "; ".join(str(x) for x in xs) + "]"


def g_op(o):
    k = o["k"]
    if k == "NR":
        return "OpNewR %d" % o.get("a", 0)
    if k == "NW":
        return "OpNewW %d" % o.get("a", 0)
    if k == "R":
        return "OpRead %d%%nat %d" % (o.get("h", 0), o.get("n", 0))
    if o.get("g"):
        return "OpWrite %d%%nat (mkimg %d %d %d)" % (o.get("h", 0), o["g"][0], o["g"][1], o.get("n", 0))
    return "OpWrite %d%%nat %s" % (o.get("h", 0), zl(o.get("d") or []))


def g_data(n, d, dg):
    if dg:
        return "(Dig %d %d%%uint63)" % (n, dg)
    return "(Lit %s)" % zl(d or [])


def g_want(ob):
    k = ob["k"]
    if k == "new":
        return "WNew"
    if k == "panic":
        return "WPanic"
    e = ERR.get(ob.get("e", ""))
    if e is None:
        return "WOther"
    if k == "read":
        n = ob.get("n", 0)
        return "WRead %d %s %s" % (n, g_data(n, ob.get("d"), ob.get("dg")), e) if n >= 0 else "WOther"
    return "WWrite %d %s" % (ob.get("n", 0), e)


def g_case(num, c):
    ops = "[" + "; ".join(g_op(o) for o in c["ops"]) + "]"
    ws = "[" + "; ".join(g_want(o) for o in c["obs"]) + "]"
    runs = "[" + "; ".join("(%d, %s)" % (r["a"], g_data(r["n"], r.get("d"), r.get("dg"))) for r in c.get("runs") or []) + "]"
    return "  (%d, (%s,\n       %s,\n       %s))" % (num, ops, ws, runs)


def shard_text(cases, seed, tier):
    """cases: list of (number, case), all with the same image seed."""
    by_size = {}
    for (num, c) in cases:
        by_size.setdefault(c["size"], []).append((num, c))
    out = [CASES_HEAD.format(seed=seed, tier=tier)]
    terms = []
    for i, size in enumerate(sorted(by_size)):
        out.append("Definition g%d : list (Z * case) := [\n%s].\n" % (i, ";\n".join(g_case(n, c) for (n, c) in by_size[size])))
        terms.append("bad_in big %d g%d" % (size, i))
    img_seed = cases[0][1]["seed"]
    out.append("Definition bad := Eval vm_compute in\n  (let big := mkimg %d 0 %d in\n   %s).\n" % (img_seed, max(by_size), " ++ ".join(terms)))
    out.append("Print bad.\nLemma tie : bad = [].\nProof. reflexivity. Qed.\n")
    return "\n".join(out)


def make_shards(cases, tier, seed, per=110):
    """Group by image seed (a shard builds one image and cuts the smaller ones out of it); long cases apart."""
    groups = {}
    for num, c in enumerate(cases):
        key = ("long" if c.get("big") else "s", c["seed"])
        groups.setdefault(key, []).append((num, c))
    shards = []
    for key in sorted(groups):
        g = groups[key]
        step = 12 if key[0] == "long" else per
        for i in range(0, len(g), step):
            shards.append(g[i:i + step])
    files = []
    for k, sh in enumerate(shards):
        p = os.path.join(vlib.RUN, "Cases_C10_%s_%03d.v" % (tier, k))
        vlib.write_if_changed(p, shard_text(sh, seed, tier))
        files.append((p, sh))
    return files


def strip_comments(src):
    out, depth, i = [], 0, 0
    while i < len(src):
        if src.startswith("(*", i):
            depth += 1
            i += 2
        elif src.startswith("*)", i) and depth:
            depth -= 1
            i += 2
        else:
            if not depth:
                out.append(src[i])
            i += 1
    return "".join(out)


FORBIDDEN = re.compile(r"\b(Axiom|Axioms|Parameter|Parameters|Conjecture|Admitted|admit|Variable|Variables|Hypothesis|Hypotheses|Context|give_up)\b"
                       r"|Unset\s+Guard|Unset\s+Positivity|Unset\s+Universe|bypass_check|type-in-type|native_compute")


def hygiene():
    bad = []
    for f in STATIC:
        src = strip_comments(open(os.path.join(vlib.COQ, f)).read())
        for m in FORBIDDEN.finditer(src):
            bad.append("%s: %s" % (f, m.group(0)))
    model = strip_comments(open(os.path.join(vlib.COQ, "Model/Rom.v")).read())
    for m in re.finditer(r"\b(Lemma|Theorem|Corollary|Proof|Qed|Defined)\b", model):
        bad.append("Model/Rom.v contains proof text: " + m.group(0))
    return bad


def static_fresh():
    stale = []
    for f in STATIC:
        v = os.path.join(vlib.COQ, f)
        vo = v[:-2] + ".vo"
        if not os.path.exists(vo) or os.path.getmtime(vo) < os.path.getmtime(v):
            stale.append(f)
    return stale


def model_says(case, tag):
    """What the model answers on one history, computed inside Coq (explains a disagreement / used by --replay)."""
    p = os.path.join(vlib.RUN, "Diag_C10_%s.v" % tag)
    ops = "[" + "; ".join(g_op(o) for o in case["ops"]) + "]"
    vlib.write_if_changed(p, CASES_HEAD.format(seed=0, tier="diag") +
                          "Definition says := Eval vm_compute in model_says %d %d %s.\nPrint says.\n" % (case["seed"], case["size"], ops))
    rc, out, _, _ = vlib.coqc(p, timeout=300)
    if rc != 0:
        return ["model evaluation failed: " + out[-300:]]
    m = re.search(r"says\s*=\s*(\[.*?\])\s*:\s*list", out, re.S)
    if not m:
        return [out[-300:]]
    body = re.sub(r"\s+", " ", m.group(1))
    res = []
    for t in re.finditer(r"\((\d+), (-?\d+), (\d+), \[([^\]]*)\]\)", body):
        kind, n, e, d = int(t.group(1)), int(t.group(2)), int(t.group(3)), t.group(4)
        en = ["nil", "eof", "ueof"][e]
        res.append(["new", "panic", "read n=%d err=%s data=%s" % (n, en, d), "write n=%d err=%s" % (n, en)][kind])
    return res


def show_obs(ob):
    if ob["k"] == "read":
        return "read n=%d err=%s data=%s" % (ob.get("n", 0), ob.get("e"), "; ".join(str(x) for x in (ob.get("d") or [])[:24]))
    if ob["k"] == "write":
        return "write n=%d err=%s" % (ob.get("n", 0), ob.get("e"))
    return ob["k"]


def show_op(o):
    k = o["k"]
    if k in ("NR", "NW"):
        return "%s($%06X)" % ("BusReader" if k == "NR" else "BusWriter", o.get("a", 0))
    if k == "R":
        return "reader%d.Read(%d bytes)" % (o.get("h", 0), o.get("n", 0))
    return "writer%d.Write(%d bytes)" % (o.get("h", 0), o.get("n", 0) if o.get("g") else len(o.get("d") or []))


def explain(case, tag):
    says = model_says(case, tag)
    lines = []
    for i, o in enumerate(case["ops"]):
        got = show_obs(case["obs"][i]) if i < len(case.get("obs") or []) else "?"
        want = says[i] if i < len(says) else "?"
        mark = "" if got.strip() == want.strip() else "     <-- differs"
        lines.append("%-34s code: %-40s model: %s%s" % (show_op(o), got, want, mark))
    return lines


NONTRIVIAL_EXCEPT = {"image-changed", "read:full", "write:stored"}


def run_c10(ck):
    ck.trusted = [
        "Coq 8.16.1 kernel incl. its bytecode VM (vm_compute); no native_compute; theorems closed under the global context (Print Assumptions captured below)",
        "the tie lemmas use primitive 63-bit integers for the digests of data longer than 64 bytes (63-bit rolling hash collision trusted there only)",
        "hand-written model coq/Model/Rom.v of rom.go BusReader/BusWriter/busWriter.Write/alwaysError and of bytes.Reader.Read; tied to the compiled code by differential execution on this run's cases (harness generators, JSON -> Gallina printer in checks/rom.py)",
        "modelled, not verified: Go uint32 arithmetic, slice expressions (bounds against cap = len), copy, bytes.Reader",
        "statement of the theorems in coq/Props/RomProps.v; the spec-side stream_reads / stream_writes in coq/Model/Rom.v",
        "interpretation: the window ends one byte before the bank end, as anchored and pinned by TestROM_BusReader_Fail_Boundary",
    ]
    tier = "thorough" if ck.tier == "thorough" else "quick"
    os.makedirs(vlib.RUN, exist_ok=True)
    os.makedirs(vlib.GEN, exist_ok=True)
    corpus = os.path.join(vlib.ROOT, "corpus", "C10")
    harness, herr = vlib.build_harness()
    if harness is None:
        ck.oblige("build Go harness against the tree under test", False, herr)

    # ---- obligations: static theorems, restated on this run
    stale = static_fresh()
    ck.oblige("static library compiled and fresh (%s)" % ", ".join(STATIC), not stale, "stale or missing .vo for %s: run ./check --setup" % stale if stale else "")
    hy = hygiene()
    ck.oblige("source hygiene: no Axiom/Parameter/Admitted/admit/Variable/guard switches in %s; Model/Rom.v free of proofs" % ", ".join(STATIC), not hy, "; ".join(hy))
    pv = os.path.join(vlib.RUN, "C10_props.v")
    vlib.write_if_changed(pv, PROP_V)
    rc, out, dt, cached = (1, "static library stale", 0, False) if stale else vlib.coqc(pv, timeout=600)
    thm_ok = rc == 0
    for t in THEOREMS:
        ck.oblige("Theorem " + t, thm_ok, "" if thm_ok else out)
    if thm_ok:
        blocks = vlib.parse_assumptions(out)
        ck.assumptions += blocks
        closed = len(blocks) == len(THEOREMS) and all(b.startswith("Closed under the global context") for b in blocks)
        ck.oblige("Print Assumptions: every C10 theorem is closed under the global context (no axioms)", closed, "" if closed else "\n".join(blocks))

    # ---- tie
    cases, classes, tie_ok, bad_cases = [], {}, False, []
    tie_secs = 0.0
    if harness:
        rc, out, _ = vlib.sh([harness, "romcases", tier, str(ck.seed), corpus], timeout=1200)
        for line in out.splitlines():
            if line.startswith("{"):
                cases.append(json.loads(line))
            elif line.startswith("CLASSES "):
                classes = json.loads(line[8:])
        if rc != 0 or not cases:
            ck.oblige("harness romcases ran", False, out[-1500:])
        elif not stale:
            files = make_shards(cases, tier, ck.seed)
            results = vlib.parallel([(lambda p=p: vlib.coqc(p, timeout=1800)) for (p, _) in files], workers=14)
            tie_ok = True
            detail = []
            for (p, sh), (rc2, out2, dt2, cached2) in zip(files, results):
                tie_secs += 0 if cached2 else dt2
                if rc2 == 0:
                    continue
                tie_ok = False
                m = re.search(r"bad\s*=\s*\[([^\]]*)\]", out2)
                if m and m.group(1).strip():
                    bad_cases += [int(x) for x in re.findall(r"-?\d+", m.group(1))]
                else:
                    detail.append("%s: %s" % (os.path.basename(p), out2[-400:]))
            why = ""
            bad_cases.sort()
            if bad_cases:
                why = "model and implementation differ on %d of %d cases; first: %s" % (len(bad_cases), len(cases), cases[bad_cases[0]]["id"])
            ck.oblige("tie: model run = real code on %d histories (%d calls) in %d Coq-checked shard files (Lemma tie : bad = [])"
                      % (len(cases), sum(len(c["ops"]) for c in cases), len(files)), tie_ok, "" if tie_ok else why + " " + " | ".join(detail))

    # ---- falsifier: the property stated directly against the real code
    fails, fsum = [], ""
    if harness:
        rc, fout, _ = vlib.sh([harness, "romcheck", tier, str(ck.seed), corpus], timeout=1800)
        for line in fout.splitlines():
            m = re.match(r"FAIL (C10\.\S+) case=(\{.*\}) from=(\S+) :: (.*)", line)
            if m:
                fails.append((m.group(1), json.loads(m.group(2)), m.group(3), m.group(4)))
            elif line.startswith("SUMMARY"):
                fsum = line
        if not fsum:
            ck.oblige("harness romcheck ran", False, fout[-1500:])
    for (clause, case, origin, detail) in fails:
        key = "%s.%s" % (clause.split(".")[1], "_".join(show_op(o) for o in case["ops"]).replace(" ", ""))
        text = "%s on the real code: %s  [history: %s; image %d bytes; found in %s]" % (
            clause, detail, ", ".join(show_op(o) for o in case["ops"]), case["size"], origin)
        if bad_cases:
            text += "  (the model/implementation tie is broken as well: %d cases, first %s)" % (len(bad_cases), cases[bad_cases[0]]["id"])
        ck.violation(key, "counterexample", text, {"case": case, "clause": clause, "observed": detail})
    all_ok = all(o["discharged"] for o in ck.obligations)
    if not all_ok and not fails:
        broken = [o["name"] for o in ck.obligations if not o["discharged"]]
        if bad_cases:
            c = cases[bad_cases[0]]
            lines = explain(c, "tie")
            ck.violation("tie." + c["id"], "broken-correspondence",
                         "the Go falsifier found no input violating the io contract, but the model and the real code differ on %d cases; first: %s\n%s"
                         % (len(bad_cases), c["id"], "\n".join(lines)), {"case": c, "model_vs_code": lines})
        else:
            kind = "broken-correspondence" if any(n.startswith("tie") or n.startswith("harness") for n in broken) else "broken-theorem"
            ck.violation("obligation", kind, "the Go falsifier found no failing input; broken: " + "; ".join(broken), {"broken_obligations": broken})

    # ---- evidence
    feats, distinct = {}, set()
    for c in cases:
        for f in c.get("feat") or []:
            feats[f] = feats.get(f, 0) + 1
        if set(c.get("feat") or []) - NONTRIVIAL_EXCEPT:
            distinct.add(json.dumps([c["size"], c["ops"]], sort_keys=True))
    m = re.search(r"histories=(\d+) calls=(\d+)", fsum)
    ck.cov.update({
        "exhaustive": False,
        "evaluations": len(cases) + (int(m.group(1)) if m else 0),
        "distinct_nontrivial": len(distinct) if tie_ok else 0,
        "rule": "the theorems are unbounded (induction over histories); counted here are this run's tie histories (evaluations also adds the falsifier's histories): a history is non-trivial when "
                "at least one call takes a non-default branch (refused write, zero-length call, EOF, short read at the window end, page < $8000, panic outside the image), distinct by (image size, operations); "
                "counted only when the Coq tie lemmas were accepted",
        "checker_cmd": "coqc -Q coq/Lib Lib -Q coq/Props Props -Q coq/Model Model -Q build/work/Run Run build/work/Run/C10_props.v build/work/Run/Cases_C10_%s_*.v" % tier,
        "traces_validated_against_impl": len(cases) if tie_ok else 0,
        "tie_calls": sum(len(c["ops"]) for c in cases),
        "tie_coq_seconds_cpu": round(tie_secs, 1),
        "input_distribution": {"generator_classes": classes, "observed_features_by_history": feats},
        "falsifier": fsum,
        "modelled": "rom.go: BusReader, BusWriter, busWriter.Write, alwaysError.Read/Write; bytes.Reader.Read",
    })
    ck.sample({"theorem": "C10_writes", "statement": "forall img a ps, addr_ok a -> rom_half a -> window_inside img a -> exists os d w', writes img (bus_writer a) ps = Ok ((os, splice img (pc_start a) d), w') /\\ stream_writes (pc_end a - pc_start a) ps = (os, d) /\\ pc_start a + zlen d <= pc_end a /\\ w' = WWin (pc_start a) (pc_end a) (zlen d)"})
    ck.sample({"theorem": "C10_reads", "statement": "forall img a ks, addr_ok a -> rom_half a -> window_inside img a -> sizes_ok ks -> exists r, bus_reader img a = Ok r /\\ reads img r ks = stream_reads (slice img (pc_start a) (pc_end a)) ks"})
    for c in cases[:2] + cases[len(cases) // 2:len(cases) // 2 + 2]:
        ck.sample({"tie_case": c["id"], "image_bytes": c["size"], "history": [show_op(o) for o in c["ops"]], "observed": [show_obs(o) for o in c["obs"]],
                   "image_diff_runs": [(r["a"], r["n"]) for r in c.get("runs") or []]})


def replay(pid, rp):
    r = rp.get("replay", {})
    case = r.get("case")
    if not case:
        print(rp.get("detail"))
        return 1
    harness, herr = vlib.build_harness()
    if harness is None:
        print(herr)
        return 2
    os.makedirs(vlib.RUN, exist_ok=True)
    tmp = os.path.join(vlib.RUN, "replay_C10.json")
    json.dump(case, open(tmp, "w"))
    rc, out, _ = vlib.sh([harness, "romreplay", tmp], timeout=300)
    print("real code (tree under test: %s):" % vlib.REPO)
    print(out.rstrip())
    print("model (coq/Model/Rom.v, vm_compute):")
    for i, s in enumerate(model_says(case, "replay")):
        print("  %-36s -> %s" % (show_op(case["ops"][i]) if i < len(case["ops"]) else "?", s))
    return 1 if rc != 0 else 0
