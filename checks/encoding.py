"""C03: every instruction method of *asm.Emitter emits the canonical 65816 encoding.

obligations  static generic theorems (Props/EncProps.v) instantiated on the descriptors regenerated from
             asm/emitter.go + asm/flags.go: desc_ok for every descriptor (vm_compute), Theorem C03,
             the library's two CPU opcode tables (cpu_ok, Theorems C03_cpu65 / C03_cpualt), agreement of
             the harness's decoder table with Spec/EmitSpec.isa, coverage of the reflected method set.
tie          every method is called, through reflection, over its whole operand range (8/16 bit) or a
             strided + boundary + high-byte-garbage sample (24/32 bit; all 2^24 in the thorough tier)
             under the four tracked width states; per (method, state, progression) a rolling digest of
             (panic | bytes, Len delta, PC delta, flag delta); Coq computes the same digests from the
             descriptors by vm_compute; Lemma tie : bad = [].
falsifier    harness `enc falsify`: the property stated directly on the real code (own statement of the
             name convention, own WDC decoder table, DisassembleTo and Step of both CPUs).
"""
import os
import random
import re
import shutil
import vlib

STATES = [0, 16, 32, 48]
SHARDS = 16

HDR = """From Coq Require Import List ZArith String Bool Uint63.
From Spec Require Import EmitSpec.
From Model Require Import EmitDesc.
From Props Require Import EncProps.
From Gen Require Import GenEmitter.
Import ListNotations.
Local Open Scope string_scope.
Local Open Scope Z_scope.
Set Printing Depth 5000.
Set Printing Width 200.
"""

DESC_V = HDR + """(* per-run instantiation of property C03 on the descriptors regenerated from the Go source *)
Definition bad_descs := Eval vm_compute in map d_name (filter (fun d => negb (desc_ok kinds d)) methods).
Print bad_descs.
Definition bad_wf := Eval vm_compute in map d_name (filter (fun d => negb (wf_desc d)) methods).
Print bad_wf.
Definition unconventional := Eval vm_compute in map d_name (filter (fun d => negb (conventional d)) methods).
Print unconventional.
Definition n_methods := Eval vm_compute in List.length methods.
Print n_methods.
Lemma tracker_checked : tracker_ok tracker_info = true.
Proof. vm_compute. reflexivity. Qed.
Lemma wf_checked : forallb wf_desc methods = true.
Proof. vm_compute. reflexivity. Qed.
Lemma descs_checked : forallb (desc_ok kinds) methods = true.
Proof. vm_compute. reflexivity. Qed.
Theorem C03 : C03_statement tracker_info kinds methods.
Proof. exact (C03_generic tracker_info kinds methods tracker_checked descs_checked). Qed.
Print Assumptions C03.
"""

CPU_V = HDR + """(* the library's own opcode tables decode what the emitter emits *)
Definition bad65 := Eval vm_compute in map d_name (filter (fun d => negb (cpu_ok cpu65_table cpu65_modes d)) methods).
Definition badalt := Eval vm_compute in map d_name (filter (fun d => negb (cpu_ok cpualt_table cpualt_modes d)) methods).
Print bad65.
Print badalt.
Lemma cpu65_checked : forallb (cpu_ok cpu65_table cpu65_modes) methods = true.
Proof. vm_compute. reflexivity. Qed.
Lemma cpualt_checked : forallb (cpu_ok cpualt_table cpualt_modes) methods = true.
Proof. vm_compute. reflexivity. Qed.
Theorem C03_cpu65 : C03_cpu_statement cpu65_table cpu65_modes methods.
Proof. exact (C03_cpu_generic _ _ _ cpu65_checked). Qed.
Theorem C03_cpualt : C03_cpu_statement cpualt_table cpualt_modes methods.
Proof. exact (C03_cpu_generic _ _ _ cpualt_checked). Qed.
Print Assumptions C03_cpu65.
Print Assumptions C03_cpualt.
"""

ISA_V = HDR + """(* the harness's decoder table (falsifier) is the same matrix as Spec/EmitSpec.isa *)
Definition go_isa : list (string * amode) := [
{rows}
].
Lemma isa_same : isa = go_isa.
Proof. reflexivity. Qed.
"""

COVER_V = HDR + """(* reflected method set of *asm.Emitter = instruction methods (descriptors) + the other exported methods *)
Definition reflected : list string := [{names}].
Definition unmodelled := Eval vm_compute in filter (fun s => negb (mem_str s (map d_name methods ++ other_methods))) reflected.
Print unmodelled.
Lemma cover : covers (map d_name methods) other_methods reflected = true.
Proof. vm_compute. reflexivity. Qed.
"""

CASES_V = HDR + """(* tie, shard {k}: digests computed from the descriptors = digests of the compiled methods *)
Definition states : list Z := [0; 16; 32; 48].
Definition cases : list (string * list prog * list (list int)) := [
{cases}
].
Definition agrees (c : string * list prog * list (list int)) : bool :=
  let '(n, ps, rows) := c in
  match find_desc methods n with
  | Some d => rows_eqb (method_digests tracker_info kinds d states ps) rows
  | None => false
  end.
Definition bad := Eval vm_compute in map (fun c => fst (fst c)) (filter (fun c => negb (agrees c)) cases).
Print bad.
Lemma tie : bad = [].
Proof. reflexivity. Qed.
"""

THEOREMS = [
    "Theorem emit_canonical (EncProps, static): forall tk ks d mg, tracker_ok tk = true -> conv_ok ks d mg = true -> forall args fl, args_ok d args -> "
    "panics tk d fl = wrong_width (mg_w mg) fl /\\ (panics tk d fl = false -> canonical_call tk ks d mg args fl)   "
    "[canonical_call: emit_bytes d args = encode opc n v, 0 <= v < 2^(8n), zlength = ilen, run = OOk bytes ilen ilen (spec_flags_after ...), "
    "forall rest, decode m16 x16 (bytes ++ rest) = Some (mn', mode, v, ilen) with mn_eqb mn mn']",
    "Theorem emit_weak (static): names outside the convention: mnemonic of the opcode = mnemonic in the name, length = ilen, decode round trip",
    "Theorem C03_generic (static): tracker_ok tk = true -> forallb (desc_ok ks) methods = true -> C03_statement tk ks methods",
    "Theorem cpu_table_decodes / C03_cpu_generic (static): cpu_ok tbl modes d = true -> the table-driven decoder returns the same operand and length as Spec decode, same mnemonic, compatible mode",
    "Theorem method_digests_spec (static): the shift/mask digest evaluation and the state-independence shortcut equal the reference div/mod model",
]


def changed_methods(names):
    """Fallback mode: methods whose Go source differs from the one the snapshot was generated from (all, if anything else in package asm changed)."""
    import json
    try:
        cur = json.load(open(os.path.join(vlib.GEN, "GenEmitterSrc.json")))
        old = json.load(open(os.path.join(vlib.COQ, "Snapshot", "GenEmitterSrc.json")))
    except Exception:
        return set(names)
    if cur.get("rest") != old.get("rest"):
        return set(names)
    return {n for n in names if cur["methods"].get(n) != old["methods"].get(n)}


def progressions(tier, seed, force_full):
    """bits -> list of (start, step, k): 2^k call numbers (start + j*step) mod 2^bits."""
    rnd = random.Random(seed)
    P = {0: [(0, 1, 0)], 8: [(0, 1, 8)], 16: [(0, 1, 16)]}
    garbage = [(0xFF000000, 65537, 12), (0x01000000, 4099, 12), (0x80000000 | rnd.getrandbits(24), 2 * rnd.getrandbits(20) + 1, 12),
               (rnd.getrandbits(32), 2 * rnd.getrandbits(31) + 1, 13)]
    if tier == "thorough" or force_full:
        P[24] = [(b << 20, 1, 20) for b in range(16)]
        P[32] = [(b << 20, 1, 20) for b in range(16)] + garbage
    else:
        # three byte parameters (lo, hi, bank): lo x hi complete for boundary banks + strided + random
        P[24] = [(0, 257, 16)] + [(bank << 16, 1, 16) for bank in (0x00, 0x7E, 0xFF)] + [(rnd.getrandbits(24), 2 * rnd.getrandbits(20) + 1, 12)]
        # 24-bit address in a uint32: strided over the 24 bits, bank boundaries, garbage in bits 24..31
        P[32] = [(0, 257, 16), (0, 1, 10), (0x7FFE00, 1, 10), (0xFFFC00, 1, 10), (rnd.getrandbits(24), 2 * rnd.getrandbits(16) + 1, 12)] + garbage
    return P


def parse_descs(gen_text):
    """name -> (ptys, state_independent) from the generated file (used only for shard balancing / reporting)."""
    out = {}
    for m in re.finditer(r'd_name := "([^"]+)"; d_pnames := \[([^\]]*)\]; d_ptys := \[([^\]]*)\]; d_bytes := \[([^\]]*)\];\s*'
                         r'd_guard := (\w+); d_effect := ([^;]+); d_kind := "([^"]+)"', gen_text):
        out[m.group(1)] = {
            "pnames": [x.strip().strip('"') for x in m.group(2).split(";") if x.strip()],
            "ptys": [x.strip() for x in m.group(3).split(";") if x.strip()],
            "bytes": m.group(4), "guard": m.group(5), "effect": m.group(6).strip(), "kind": m.group(7),
            "indep": m.group(5) == "GNone" and m.group(6).strip() == "ENone"}
    return out


def coq_list_print(out, name):
    m = re.search(name + r"\s*=\s*(\[.*?\])\s*:", out, re.S)
    if not m:
        return None
    return re.findall(r'"([^"]*)"', m.group(1))


def failed_item(src, out):
    """Name of the Lemma/Theorem/Definition of src in which coqc reported its (first) error, or None."""
    m = re.search(r'line (\d+), characters', out)
    if not m:
        return None
    lines = src.splitlines()
    for i in range(min(int(m.group(1)), len(lines)) - 1, -1, -1):
        mm = re.match(r"(?:Lemma|Theorem|Definition)\s+(\w+)", lines[i])
        if mm:
            return mm.group(1)
    return None


def item_ok(src, rc, out, name):
    """An item of a per-run file is accepted iff coqc got past it (items after the failing one were not checked)."""
    if rc == 0:
        return True
    bad = failed_item(src, out)
    if bad is None:
        return False
    order = re.findall(r"^(?:Lemma|Theorem|Definition)\s+(\w+)", src, re.M)
    return name in order and bad in order and order.index(name) < order.index(bad)


def hygiene():
    bad = []
    for rel in ("Spec/EmitSpec.v", "Model/EmitDesc.v", "Props/EncProps.v"):
        src = open(os.path.join(vlib.COQ, rel)).read()
        src = re.sub(r"\(\*.*?\*\)", "", src, flags=re.S)
        for kw in ("Axiom", "Parameter", "Conjecture", "Admitted", "admit", "Variable", "Hypothesis", "Unset Guard", "Universe"):
            if re.search(r"\b" + kw + r"\b", src):
                bad.append("%s: %s" % (rel, kw))
    return bad


def write_specfile(path, P, names, own=None):
    own = own or {}
    with open(path, "w") as f:
        for b, ps in sorted(P.items()):
            f.write("B %d %s\n" % (b, " ".join("%d:%d:%d" % p for p in ps)))
        for n in names:
            if n in own:
                f.write("X %s %s\n" % (n, " ".join("%d:%d:%d" % p for p in own[n])))
            else:
                f.write("M %s\n" % n)


def go_digests(harness, specfile):
    rc, out, dt = vlib.sh([harness, "enc", "digest", specfile], timeout=3000)
    rows, bits, errs = {}, {}, {}
    for line in out.splitlines():
        f = line.split()
        if not f:
            continue
        if f[0] == "T":
            bits[f[1]] = int(f[2])
        elif f[0] == "D":
            rows.setdefault(f[1], {})[int(f[2])] = [int(x) for x in f[3:]]
        elif f[0] == "E":
            errs[f[1]] = " ".join(f[2:])
    return rc, rows, bits, errs, out, dt


def prog_coq(p):
    return "(%d, %d, %d%%nat)" % p


def bisect(harness, name, state, prog, bits):
    """First call number in the progression at which model and code differ (digest bisection)."""
    start, step, k = prog
    os.makedirs(vlib.RUN, exist_ok=True)
    spec = os.path.join(vlib.RUN, "C03_bisect.spec")
    steps = 0
    while k > 0 and steps < 40:
        k -= 1
        steps += 1
        write_specfile(spec, {bits: [(start, step, k)]}, [name])
        rc, rows, _, _, _, _ = go_digests(harness, spec)
        g = rows.get(name, {}).get(state, [None])[0]
        v = os.path.join(vlib.RUN, "C03_bisect.v")
        open(v, "w").write(HDR + 'Definition r := Eval vm_compute in match find_desc methods "%s" with Some d => '
                           'method_digests tracker_info kinds d [%d] [%s] | None => [] end.\nPrint r.\n' % (name, state, prog_coq((start, step, k))))
        rc2, out2, _ = vlib.sh(["coqc"] + vlib.COQ_ARGS + [v], timeout=1200, env=dict(os.environ))
        m = re.search(r"\[\[(\d+)%uint63\]\]", out2)
        c = int(m.group(1)) if m else None
        if g is not None and g == c:
            start = start + step * (1 << k)
    n = start & ((1 << bits) - 1) if bits else 0
    return n


def args_of(ptys, n):
    out = []
    for t in ptys:
        b = {"TU8": 8, "TI8": 8, "TFlags": 8, "TU16": 16, "TU32": 32, "TLabel": 0}[t]
        v = n & ((1 << b) - 1)
        n >>= b
        if t == "TI8" and v >= 128:
            v -= 256
        out.append(v)
    return out


def run_c03(ck):
    tier = ck.tier
    ck.trusted = [
        "Coq 8.16.1 kernel incl. its bytecode VM (vm_compute) and primitive 63-bit integers (used only by the tie digests, never by Theorem C03); no native_compute",
        "Spec/EmitSpec.v: the WDC 65816 opcode matrix, operand sizes, little-endian operand encoding, and my reading of the method-name convention (written from the WDC data sheet, not from the Go code; cross-examined against the library's two CPU opcode tables and the harness's own table on every run)",
        "translator unit /verif/gen/emitter.go (symbolic evaluation of the method bodies): validated on every run by the digest tie over the whole 8/16-bit operand ranges (trust reduced to a 63-bit rolling-hash collision) and sampled / exhaustive (thorough) 24-bit ranges",
        "go/types, go/parser, reflect; the Go compiler for the harness",
        "interpretation: a uint32 'long' parameter denotes its low 24 bits; for block moves the parameter named d* is the destination bank and is the first operand byte; label operands are placeholders until Finalize (C06); `_lhb` = long given as lo, hi, bank",
    ]
    os.makedirs(vlib.RUN, exist_ok=True)
    ck.oblige("proof hygiene: no Axiom/Parameter/Admitted/Variable in Spec/EmitSpec.v, Model/EmitDesc.v, Props/EncProps.v", not hygiene(), str(hygiene()))

    harness, herr = vlib.build_harness()
    if harness is None:
        ck.oblige("build Go harness against the tree under test", False, herr)

    # ---- 1. regenerate the descriptors
    errs = vlib.run_gen("emitter")
    fallback = False
    gen_v = os.path.join(vlib.GEN, "GenEmitter.v")
    if "GenEmitter" in errs or "gen" in errs:
        reason = errs.get("GenEmitter") or errs.get("gen")
        snap = os.path.join(vlib.COQ, "Snapshot", "GenEmitter.v")
        if os.path.exists(snap):
            fallback = True
            vlib.write_if_changed(gen_v, open(snap).read())
            ck.cov["translator_fallback"] = "translator refused the current source (%s); the committed snapshot of the descriptors is used and must pass the exhaustive tie against the compiled code" % reason
        else:
            ck.oblige("translate asm/emitter.go into descriptors", False, reason)
    else:
        ck.oblige("translate asm/emitter.go + asm/flags.go into descriptors (gen unit emitter)", True)
    have_gen = os.path.exists(gen_v)
    descs = parse_descs(open(gen_v).read()) if have_gen else {}

    # ---- 2. obligations on the descriptors
    desc_ok = False
    bad_descs = []
    if have_gen:
        rc, out, dt, _ = vlib.coqc(gen_v)
        ck.oblige("coqc Gen/GenEmitter.v (%d regenerated descriptors type-check)" % len(descs), rc == 0, out)
        if rc == 0:
            pv = os.path.join(vlib.RUN, "C03_desc.v")
            vlib.write_if_changed(pv, DESC_V)
            ck.oblige("static theorems compiled and fresh (Spec/EmitSpec.vo, Model/EmitDesc.vo, Props/EncProps.vo)", vlib.static_vo_fresh(pv), "run ./check --setup")
            rc, out, dt, cached = vlib.coqc(pv, timeout=900)
            bad_descs = coq_list_print(out, "bad_descs") or []
            unconv = coq_list_print(out, "unconventional") or []
            desc_ok = rc == 0
            ck.oblige("Lemma tracker_checked : tracker_ok tracker_info = true (IsM16bit tests $20, IsX16bit tests $10)", item_ok(DESC_V, rc, out, "tracker_checked"), out)
            ck.oblige("Lemma descs_checked : forallb (desc_ok kinds) methods = true (vm_compute, %d descriptors)%s"
                      % (len(descs), "" if not bad_descs else "; failing: " + ", ".join(bad_descs)), rc == 0 and not bad_descs, out)
            ck.oblige("Theorem C03 : C03_statement tracker_info kinds methods (instance of C03_generic; forall args in range, forall flags)", rc == 0, out)
            ck.assumptions += vlib.parse_assumptions(out)
            ck.cov["unconventional_names"] = unconv
            ck.cov["unconventional_note"] = "methods whose suffix is outside the naming convention are proved for mnemonic + length + decode round trip only (Theorem emit_weak); they are not violations"
            # CPU tables
            cv = os.path.join(vlib.RUN, "C03_cpu.v")
            vlib.write_if_changed(cv, CPU_V)
            rc, out, dt, _ = vlib.coqc(cv, timeout=900)
            b65, balt = coq_list_print(out, "bad65") or [], coq_list_print(out, "badalt") or []
            ck.oblige("Theorem C03_cpu65 : the opcode table of emulator/cpu65c816 decodes every emitted instruction to the same mnemonic / compatible mode / operand / length%s"
                      % ("" if not b65 else "; failing: " + ", ".join(b65)), rc == 0 or (not b65 and failed_item(CPU_V, out) == "cpualt_checked"), out)
            ck.oblige("Theorem C03_cpualt : same for emulator/cpualt%s" % ("" if not balt else "; failing: " + ", ".join(balt)), rc == 0, out)
            ck.assumptions += vlib.parse_assumptions(out)
            ck.cov["cpu_table_mismatch"] = {"cpu65c816": b65, "cpualt": balt}

    # ---- 3. harness's decoder table = Spec isa; coverage of the method set
    reflected = []
    if harness and have_gen:
        rc, out, _ = vlib.sh([harness, "enc", "isa"])
        rows = [l.split() for l in out.splitlines() if l.strip()]
        if rc == 0 and len(rows) == 256:
            iv = os.path.join(vlib.RUN, "C03_isa.v")
            vlib.write_if_changed(iv, ISA_V.format(rows=";\n".join('  ("%s", %s)' % (r[1], r[2]) for r in rows)))
            rc2, out2, _, _ = vlib.coqc(iv)
            ck.oblige("Lemma isa_same : the harness's WDC decoder table (falsifier) = Spec.EmitSpec.isa, all 256 opcodes", rc2 == 0, out2)
        else:
            ck.oblige("harness enc isa", False, out[-500:])
        rc, out, _ = vlib.sh([harness, "enc", "list"])
        listed = [l.split() for l in out.splitlines() if l.strip()]
        reflected = [l[0] for l in listed]
        cv = os.path.join(vlib.RUN, "C03_cover.v")
        vlib.write_if_changed(cv, COVER_V.format(names="; ".join('"%s"' % n for n in reflected)))
        rc2, out2, _, _ = vlib.coqc(cv)
        unm = coq_list_print(out2, "unmodelled") or []
        ck.oblige("Lemma cover : the %d methods reflected from *asm.Emitter = %d instruction methods (descriptors) + other exported methods%s"
                  % (len(reflected), len(descs), "" if not unm else "; unmodelled: " + ", ".join(unm)), rc2 == 0, out2)
        others = [l[0] for l in listed if l[0] not in descs and l[1] == "true"]
        rc, out, _ = vlib.sh([harness, "enc", "probe"] + others)
        emitting = re.findall(r"PROBE (\S+) emitted=true", out)
        ck.oblige("no exported method without a descriptor appends bytes when called (probe of %d callable non-instruction methods)" % len(others),
                  rc == 0 and not emitting, "emitting without descriptor: %s" % emitting)

    # ---- 4. tie: digests over the operand ranges
    tie_ok = False
    tie_calls = 0
    bad_tie = []
    P = progressions(tier, ck.seed, False)
    PF = progressions(tier, ck.seed, True)
    own = {}
    if fallback:
        # the snapshot is not derived from the current source: methods that changed since the snapshot are
        # compared with the compiled code over their WHOLE operand range, whatever the tier
        chg = changed_methods(list(descs))
        ck.cov["fallback_changed_methods"] = sorted(chg)
        for n in chg:
            b = sum({"TU8": 8, "TI8": 8, "TFlags": 8, "TU16": 16, "TU32": 32, "TLabel": 0}[t] for t in descs[n]["ptys"])
            if b > 16:
                own[n] = PF[b]
    go_rows = {}
    bits = {}
    if harness and have_gen and descs:
        spec = os.path.join(vlib.RUN, "C03_digest.spec")
        write_specfile(spec, P, sorted(descs), own)
        rc, go_rows, bits, derrs, dout, gdt = go_digests(harness, spec)
        if rc != 0 or derrs or set(go_rows) != set(descs):
            ck.oblige("tie: harness digests", False, (str(derrs) + dout[-800:]))
        else:
            # work units (method, progression index), balanced over the shards
            units = []
            for n in descs:
                mult = 1 if descs[n]["indep"] else 4
                for pi, p in enumerate(own.get(n) or P[bits[n]]):
                    units.append(((1 << p[2]) * mult + 2000, n, pi))
                    tie_calls += (1 << p[2]) * 4
            units.sort(reverse=True)
            nsh = SHARDS if tier == "thorough" or own else min(SHARDS, 12)
            shards = [[0, {}] for _ in range(nsh)]
            for cost, n, pi in units:
                sh = min(shards, key=lambda s: s[0])
                sh[0] += cost
                sh[1].setdefault(n, []).append(pi)
            files = []
            for k, (cost, content) in enumerate(shards):
                lines = []
                for n in sorted(content):
                    pis = sorted(content[n])
                    ps = "; ".join(prog_coq((own.get(n) or P[bits[n]])[pi]) for pi in pis)
                    rows = "; ".join("[" + "; ".join("%d%%uint63" % go_rows[n][st][pi] for pi in pis) + "]" for st in STATES)
                    lines.append('  ("%s", [%s], [%s])' % (n, ps, rows))
                fv = os.path.join(vlib.RUN, "Cases_C03_%d.v" % k)
                vlib.write_if_changed(fv, CASES_V.format(k=k, cases=";\n".join(lines)))
                files.append(fv)
            for stale in os.listdir(vlib.RUN):
                m = re.match(r"Cases_C03_(\d+)\.v$", stale)
                if m and int(m.group(1)) >= nsh:
                    os.remove(os.path.join(vlib.RUN, stale))
            res = vlib.parallel([(lambda f=f: vlib.coqc(f, timeout=3000)) for f in files])
            tie_ok = all(r[0] == 0 for r in res)
            for r in res:
                bad_tie += coq_list_print(r[1], "bad") or []
            detail = "" if tie_ok else "methods whose digests differ: %s\n%s" % (sorted(set(bad_tie)), "\n".join(r[1][-300:] for r in res if r[0] != 0))
            ck.oblige("tie: Lemma tie : bad = [] in %d shards -- digests of emit_bytes/run over %d calls (%d methods x 4 width states x operand enumeration) = digests of the compiled methods (max shard %.0fs)"
                      % (len(files), tie_calls, len(descs), max(r[2] for r in res)), tie_ok, detail)
            ck.cov["tie_seconds"] = {"go": round(gdt, 1), "coq_max_shard": round(max(r[2] for r in res), 1)}
    if fallback:
        ck.oblige("translator fallback: committed snapshot of the descriptors validated against the compiled code by the exhaustive tie", tie_ok,
                  "snapshot and compiled code differ")

    # ---- 5. falsifier on the real code (always)
    fails = []
    fsum = {}
    methods_seen = []
    if harness:
        hints = []
        sd = [n for n, d in descs.items() if len(d["pnames"]) == 2 and d["pnames"][0][:1].lower() == "s" and d["pnames"][1][:1].lower() == "d"
              and d["ptys"] == ["TU8", "TU8"]]
        if sd:
            hints.append("blocksd=" + ",".join(sd))
        rc, fout, fdt = vlib.sh([harness, "enc", "falsify", "thorough" if tier == "thorough" else "quick"] + hints, timeout=3000)
        for line in fout.splitlines():
            m = re.match(r"FAIL C03 method=(\S+) flags=(\d+) args=(\S*) :: (.*)", line)
            if m:
                fails.append({"method": m.group(1), "flags": int(m.group(2)), "args": [int(x) for x in m.group(3).split(",") if x != ""], "what": m.group(4),
                              "blocksd": m.group(1) in sd})
            m = re.match(r"METHOD (\S+) (\S+) calls=(\d+) opcodes=(\S*)", line)
            if m:
                methods_seen.append({"method": m.group(1), "meaning": m.group(2), "calls": int(m.group(3)), "opcodes": m.group(4)})
            m = re.match(r"SUMMARY calls=(\d+) nontrivial=(\d+) cpu_checks=(\d+) fails=(\d+)", line)
            if m:
                fsum = {"calls": int(m.group(1)), "nontrivial": int(m.group(2)), "cpu_checks": int(m.group(3)), "fails": int(m.group(4)), "secs": round(fdt, 1)}
        if not fsum:
            ck.oblige("falsifier ran", False, fout[-800:])
    seen = set()
    for f in fails:
        if f["method"] in seen:
            continue
        seen.add(f["method"])
        ck.violation(f["method"], "counterexample",
                     "%s(%s) under tracked flags $%02x: %s" % (f["method"], ", ".join(str(a) for a in f["args"]), f["flags"], f["what"]),
                     {"method": f["method"], "flags": f["flags"], "args": f["args"], "blocksd": f["blocksd"], "observed": f["what"],
                      "how": "harness enc call %s %d %s" % (f["method"], f["flags"], " ".join(str(a) for a in f["args"]))})

    # ---- 6. a broken obligation without a concrete failing input
    broken = [o["name"] for o in ck.obligations if not o["discharged"]]
    if broken and not fails:
        detail = "the Go falsifier found no failing input on the real code; broken: " + "; ".join(b[:160] for b in broken)
        rp = {"broken_obligations": broken}
        kind = "broken-correspondence" if any(b.startswith("tie") or b.startswith("translat") or b.startswith("Lemma cover") or b.startswith("no exported") for b in broken) else "broken-theorem"
        if bad_tie and harness:
            # locate a first input on which model and code differ
            n0 = sorted(set(bad_tie))[0]
            try:
                rv = os.path.join(vlib.RUN, "C03_rows.v")
                ps = own.get(n0) or P[bits[n0]]
                open(rv, "w").write(HDR + 'Definition r := Eval vm_compute in match find_desc methods "%s" with Some d => method_digests tracker_info kinds d [0;16;32;48] [%s] | None => [] end.\nPrint r.\n'
                                    % (n0, "; ".join(prog_coq(p) for p in ps)))
                rc2, out2, _ = vlib.sh(["coqc"] + vlib.COQ_ARGS + [rv], timeout=3000, env=dict(os.environ))
                rows = [[int(x) for x in re.findall(r"(\d+)%uint63", r)] for r in re.findall(r"\[((?:\d+%uint63[;\s]*)+)\]", out2)]
                where = None
                for si, st in enumerate(STATES):
                    for pi in range(len(ps)):
                        if si < len(rows) and pi < len(rows[si]) and rows[si][pi] != go_rows[n0][st][pi] and where is None:
                            where = (st, pi)
                if where:
                    n = bisect(harness, n0, where[0], ps[where[1]], bits[n0])
                    av = args_of(descs[n0]["ptys"], n)
                    rc3, out3, _ = vlib.sh([harness, "enc", "call", n0, str(where[0])] + [str(a) for a in av if True])
                    rp.update({"method": n0, "flags": where[0], "args": av, "model_vs_code": out3.strip()})
                    if rc3 == 1:
                        kind = "counterexample"
                        detail = ("found by bisecting the tie digests (the sampled falsifier had missed it): %s(%s) under tracked flags $%02x: %s\nbroken: %s"
                                  % (n0, ", ".join(str(a) for a in av), where[0], out3.strip().splitlines()[-1], "; ".join(b[:120] for b in broken)))
                    else:
                        detail += "\nmodel and compiled code first differ at %s(%s) under flags $%02x; real code: %s" % (n0, av, where[0], out3.strip())
            except Exception as e:  # diagnosis only
                detail += "\n(bisect failed: %s)" % e
        ck.violation("obligation", kind, detail, rp)

    bad = vlib.foreign_assumptions(ck.assumptions)
    ck.oblige("Print Assumptions of C03, C03_cpu65, C03_cpualt: closed under the global context", not bad, "unexpected: %s" % bad)

    # ---- evidence
    ck.cov.update({
        "exhaustive": False,
        "exhaustive_note": "operand values are universally quantified in Theorem C03 (proof, not enumeration); the tie and the falsifier enumerate all 2^8 / 2^16 operand values of every method under all four width states, "
                           + ("all 2^24 values of 24-bit operands" if tier == "thorough" else "a strided + boundary + high-byte-garbage sample of 24-bit operands"),
        "evaluations": tie_calls + fsum.get("calls", 0),
        "distinct_nontrivial": fsum.get("nontrivial", 0),
        "rule": "one evaluation = one call of an instruction method on the real emitter (tie digest stream or falsifier); distinct_nontrivial counts, in the falsifier's primary enumeration only "
                "(each (method, width state, operand) once), the calls that carry an operand or are refused by a width guard -- the 1-byte implied instructions are excluded",
        "traces_validated_against_impl": tie_calls if tie_ok else 0,
        "checker_cmd": "coqc -Q coq/Lib Lib -Q coq/Spec Spec -Q coq/Model Model -Q coq/Props Props -Q build/work/Gen Gen build/work/Run/{C03_desc,C03_cpu,C03_isa,C03_cover,Cases_C03_k}.v",
        "modelled": "asm/emitter.go instruction methods, emit1..emit4/emit2Label/emit3Label, asm/flags.go tracker -- regenerated as descriptors from source on this run" + (" (FALLBACK: snapshot)" if fallback else ""),
        "methods": len(descs),
        "reflected_methods": len(reflected),
        "input_distribution": {"width_states": STATES, "progressions_by_operand_bits (start, step, log2 count)": {str(b): ps for b, ps in P.items()},
                               "methods_by_operand_bits": {str(b): sum(1 for n in descs if sum({"TU8": 8, "TI8": 8, "TFlags": 8, "TU16": 16, "TU32": 32, "TLabel": 0}[t] for t in descs[n]["ptys"]) == b) for b in P},
                               "falsifier": fsum},
        "static_theorems": THEOREMS,
    })
    ck.sample({"theorem": "C03 : C03_statement tracker_info kinds methods", "statement": THEOREMS[0]})
    for m in methods_seen[:1] + [x for x in methods_seen if x["method"] in ("LDA_imm16_w", "MVN", "JSL", "BNE", "JMP_abs_imm16_w")]:
        ck.sample(m)
    if descs:
        n0 = "LDA_imm16_w" if "LDA_imm16_w" in descs else sorted(descs)[0]
        ck.sample({"descriptor": n0, **descs[n0], "tie_digests_per_state": go_rows.get(n0)})


def replay(pid, rp):
    r = rp.get("replay", {})
    harness, herr = vlib.build_harness()
    if harness is None:
        print(herr)
        return 1
    if "method" in r:
        cmd = [harness, "enc", "call", r["method"], str(r.get("flags", 0))] + [str(a) for a in r.get("args", [])]
        if r.get("blocksd"):
            cmd.append("sd")
        rc, out, _ = vlib.sh(cmd)
        print(out.strip())
        if rp.get("kind") != "counterexample":
            print("recorded as %s: %s" % (rp.get("kind"), rp.get("detail")))
        return 1 if rc != 0 else (0 if rp.get("kind") == "counterexample" else 1)
    print(rp.get("detail"))
    return 1
