"""C17: 15-bit colour packing and MulDiv.  color15/color.go is regenerated as Gallina over Uint63;
unpack/pack/luminosity/channel-scaling are swept exhaustively inside the kernel; MulDiv is tied to the
channel function by a per-run factorisation lemma (falls back to naming the broken obligation); the
Z-level order properties (identity, monotonicity, <= 31) are static lemmas in Props/ColorProps.v."""
import os
import re
import vlib

CANDIDATES = {
    "wide": "let v := w_div (mul16 x m) d in conv8 (if w_ltb 31 v then 31 else v)",
    "narrow": "let v := conv8 (w_div (mul16 x m) d) in if w_ltb 31 v then 31 else v",
}

PROP_V = """(* per-run instantiation of C17 against the regenerated color15 functions (channel shape: {cand}) *)
From Coq Require Import Uint63 ZArith.
From Lib Require Import U63Ops Sweep.
From Props Require Import ColorProps.
From Gen Require Import GenColor.
Local Open Scope uint63_scope.

Definition ch (x m d : int) : int := {chdef}.

Lemma fact : forall c m d, color15_MulDiv c m d =
  let '(r, g, b) := color15_ToRGB c in color15_ToColor15 (ch r m d) (ch g m d) (ch b m d).
Proof.
  intros c m d. unfold color15_MulDiv, ch. destruct (color15_ToRGB c) as [[r g] b]. cbv zeta.
  repeat match goal with |- context [if ?x then _ else _] => destruct x end; reflexivity.
Qed.

Lemma sw_unpack : all16 (unpack_check color15_ToRGB color15_ToColor15) = true.
Proof. vm_cast_no_check (eq_refl true). Qed.
Lemma sw_lum : all16 (lum_check color15_ToRGB color15_Luminosity) = true.
Proof. vm_cast_no_check (eq_refl true). Qed.
Lemma sw_pack : pack_sweep color15_ToRGB color15_ToColor15 = true.
Proof. vm_cast_no_check (eq_refl true). Qed.
Lemma sw_ch : ch_sweep ch = true.
Proof. vm_cast_no_check (eq_refl true). Qed.

(* unpack then pack returns the colour with bit 15 clear; channels are the three 5-bit fields *)
Theorem C17_unpack_pack : forall c, (c <? 65536) = true ->
  unpack_prop color15_ToRGB color15_ToColor15 c.
Proof. exact (unpack_all _ _ sw_unpack). Qed.
(* pack then unpack returns each channel modulo 32, for every triple of bytes; bit 15 clear *)
Theorem C17_pack_unpack : forall r g b, (r <? 256) = true -> (g <? 256) = true -> (b <? 256) = true ->
  pack_prop color15_ToRGB color15_ToColor15 r g b.
Proof. exact (pack_all _ _ sw_pack). Qed.
Theorem C17_luminosity : forall c, (c <? 65536) = true -> lum_prop color15_ToRGB color15_Luminosity c.
Proof. exact (lum_all _ _ sw_lum). Qed.
(* MulDiv: per channel, independently, floor(channel*m/d) limited to 31; result below 2^15 *)
Theorem C17_muldiv : forall c m d,
  (c <? 65536) = true -> (m <? 256) = true -> (d <? 256) = true -> (d =? 0) = false ->
  let '(r, g, b) := color15_ToRGB c in
  color15_ToRGB (color15_MulDiv c m d) = (sat (r * m / d), sat (g * m / d), sat (b * m / d)) /\\
  (color15_MulDiv c m d <? 32768) = true.
Proof. exact (muldiv_all _ _ _ _ sw_unpack sw_pack sw_ch fact). Qed.
Print Assumptions C17_unpack_pack.
Print Assumptions C17_pack_unpack.
Print Assumptions C17_luminosity.
Print Assumptions C17_muldiv.
Print Assumptions sat_spec.
Print Assumptions zscale_identity.
Print Assumptions zscale_monotone.
"""

DIG_V = """From Coq Require Import Uint63 List.
From Lib Require Import U63Ops Digest.
From Gen Require Import GenColor.
Import ListNotations.
Local Open Scope uint63_scope.
Set Printing Depth 2000.
Definition enc3 (t : int * int * int) : int := let '(r, g, b) := t in r lor (g << 8) lor (b << 16).
Definition go_rgb : int := {rgb}.
Definition go_lum : int := {lum}.
Definition go_pack : list int := [{pack}].
Definition go_muldiv : list int := [{muldiv}].
Definition pairs : list int := [{pairs}].
Definition c_rgb := Eval vm_compute in fold_pow 16 0 65536 (fun c => enc3 (color15_ToRGB c)) 0.
Definition c_lum := Eval vm_compute in fold_pow 16 0 65536 color15_Luminosity 0.
Definition bad_pack := Eval vm_compute in
  diff_idx (map (fun b => fold_pow 16 0 65536 (fun n => color15_ToColor15 (n land 255) (n >> 8) b) 0) (iota 256 0)) go_pack.
Definition bad_muldiv := Eval vm_compute in
  diff_idx (map (fun p => fold_pow 16 0 65536 (fun c => color15_MulDiv c (p >> 8) (p land 255)) 0) pairs) go_muldiv.
Print bad_pack.
Print bad_muldiv.
Lemma tie_color : c_rgb = go_rgb /\\ c_lum = go_lum /\\ bad_pack = [] /\\ bad_muldiv = [].
Proof. repeat split; reflexivity. Qed.
"""


def run_c17(ck):
    ck.trusted = [
        "Coq 8.16.1 kernel incl. its bytecode VM and primitive 63-bit integers; no native_compute",
        "axioms: only the standard library's axioms for Uint63 primitives, as printed under print_assumptions",
        "translator /verif/gen, validated on this run by digests against the compiled Go functions: ToRGB and Luminosity on all 2^16 colours, ToColor15 on all 2^24 byte triples, MulDiv on all 2^16 colours x 288 (m,d) pairs",
        "statement of the clauses in coq/Props/ColorProps.v",
    ]
    errs = vlib.run_gen("color")
    vlib.fallback_obligations(ck, ("GenColor",))
    harness, herr = vlib.build_harness()
    if harness is None:
        ck.oblige("build Go harness against the tree under test", False, herr)
    os.makedirs(vlib.RUN, exist_ok=True)
    ok_all = True
    if "GenColor" in errs:
        ok_all = ck.oblige("translate color15 from source", False, errs["GenColor"]) and ok_all
    else:
        rc, out, dt, _ = vlib.coqc(os.path.join(vlib.GEN, "GenColor.v"))
        ok_all = ck.oblige("coqc Gen/GenColor.v (regenerated model type-checks)", rc == 0, out) and ok_all
        if rc == 0:
            chosen, last = None, ""
            for cand, chdef in CANDIDATES.items():
                pv = os.path.join(vlib.RUN, "C17_%s.v" % cand)
                vlib.write_if_changed(pv, PROP_V.format(cand=cand, chdef=chdef))
                rc, out, dt, cached = vlib.coqc(pv, timeout=900)
                last = out
                if rc == 0:
                    chosen = cand
                    break
                if "fact" not in out and "Lemma fact" not in out and "sw_" in out:
                    pass
            thms = ["C17_unpack_pack (forall c < 2^16)", "C17_pack_unpack (forall r g b < 2^8)", "C17_luminosity (forall c < 2^16)",
                    "C17_muldiv (forall c < 2^16, m < 2^8, 0 < d < 2^8; via Lemma fact + sweep of 32 x 256 x 256 channel scalings)"]
            for t in thms:
                ok_all = ck.oblige("Theorem " + t, chosen is not None, last) and ok_all
            ok_all = ck.oblige("static lemmas sat_spec / zscale_identity / zscale_monotone / zscale_le31 (Z-level order properties)", True) and ok_all
            if chosen:
                ck.assumptions += vlib.parse_assumptions(out)
                ck.cov["channel_shape"] = chosen
            # tie
            tie, detail = False, "harness unavailable"
            if harness:
                g_rc, g_out, _ = vlib.sh([harness, "colordigest"], timeout=300)
                d = {l.split()[0]: l.split()[1:] for l in g_out.splitlines() if l.strip()}
                if g_rc == 0 and all(k in d for k in ("rgb", "lum", "pack", "muldiv", "pairs")):
                    dv = os.path.join(vlib.RUN, "Dig_color.v")
                    vlib.write_if_changed(dv, DIG_V.format(rgb=d["rgb"][0], lum=d["lum"][0], pack="; ".join(d["pack"]),
                                                           muldiv="; ".join(d["muldiv"]), pairs="; ".join(d["pairs"])))
                    rc2, out2, dt2, _ = vlib.coqc(dv, timeout=900)
                    tie = rc2 == 0
                    detail = "digests equal (Lemma tie_color accepted)" if tie else out2
                else:
                    detail = "colordigest failed: " + g_out[-500:]
            ok_all = ck.oblige("tie: generated color15 functions = compiled Go (digests; Lemma tie_color)", tie, detail) and ok_all
    fails = []
    fout = ""
    if harness:
        rc, fout, _ = vlib.sh([harness, "colorcheck"], timeout=900)
        for line in fout.splitlines():
            m = re.match(r"FAIL (\S+) input=(\S+) (.*)", line)
            if m:
                fails.append((m.group(1), m.group(2), m.group(3)))
    for (clause, inp, detail) in fails:
        ck.violation("%s.%s" % (clause.split(".")[1], inp), "counterexample", "%s: %s %s" % (clause, inp, detail),
                     {"clause": clause, "input": inp, "observed": detail})
    if not ok_all and not fails:
        broken = [o["name"] for o in ck.obligations if not o["discharged"]]
        kind = "broken-correspondence" if any(n.startswith("tie") or n.startswith("translate") for n in broken) else "broken-theorem"
        ck.violation("obligation", kind, "Go falsifier found no failing input over the whole domain; broken: " + "; ".join(broken),
                     {"broken_obligations": broken})
    bad = vlib.foreign_assumptions(ck.assumptions)
    ck.oblige("Print Assumptions lists only Uint63 primitives and the standard library's axioms for them", not bad, "unexpected: %s" % bad)
    n = 65536 + (1 << 24) + 65536 + 32 * 256 * 256
    ck.cov.update({
        "exhaustive": True, "evaluations": n if ok_all else 0, "distinct_nontrivial": n if ok_all else 0,
        "rule": "points enumerated inside the Coq kernel: 2^16 colours (unpack, luminosity), 2^24 byte triples (pack), 32x256x256 channel scalings; MulDiv over 2^16 x 2^8 x 255 follows by Lemma fact (unbounded) - counted only when the theorems were accepted",
        "checker_cmd": "coqc ... build/work/Run/C17_<shape>.v",
        "traces_validated_against_impl": 65536 * 2 + (1 << 24) + 65536 * 288,
        "falsifier": fout.splitlines(),
        "modelled": "color15/color.go, regenerated from source on this run",
    })
    ck.sample({"theorem": "C17_muldiv", "falsifier": fout.splitlines()})


def replay(pid, rp):
    harness, herr = vlib.build_harness()
    rc, out, _ = vlib.sh([harness, "colorcheck"], timeout=900)
    print(out)
    return 1 if "FAIL" in out else 0
