"""C14: tracing is truthful and does not perturb execution.

Model: coq/Model/Disasm.v (hand model of DisassembleCurrentPC / DisassembleTo / formatInstructionModeTo of both packages and of
cpualt.Disassemble, plus a RunUntil model over an abstract step), instantiated on every run with the REGENERATED bus read
(GenCpu65.nRead / GenCpuAlt.nRead) and the REGENERATED opcode tables (GenCpu65.instr_table / GenCpuAlt.instr_table).
Theorems: coq/Props/DisasmProps.v (static) restated per run in build/work/Run/C14_*.v against the regenerated data:
  C14_pure.v   the disassembler leaves registers / memory / callbacks unchanged; RunUntil with and without logger agree
  C14_tbl.v    ISA.table_agrees <generated table> = true   (the independent opcode matrix Spec/ISA.v)
  C14_truth.v  every line is truthful (Spec/TraceSpec.v) for the repaired rel8 rendering
Tie: real trace lines of both CPUs (harness discases) parsed into the projection and compared with the model inside Coq
(Cases_C14_k.v, Lemma tie : bad_fixed = []); the same cases are also evaluated against the variant of the rel8 rendering found
in the code before the repair, which tells which variant the current code is.
Falsifiers (Go, no model): discases checks every line against an independent opcode matrix and the state the harness set up;
disrun compares runs of the real System.RunUntil with and without a Logger."""
import os
import re
import shutil
import vlib
from checks import cpu as cpuchk

TRUST = [
    "Coq 8.16.1 kernel incl. vm_compute; no native_compute; no axioms (Print Assumptions: Closed under the global context)",
    "specification: coq/Spec/ISA.v (opcode matrix from the WDC data sheet) and coq/Spec/TraceSpec.v (what a truthful line is; two "
    "adjudicated presentation aliases: BRK written without its signature byte, PEI's operand written as a plain direct-page address)",
    "hand model coq/Model/Disasm.v of the three Go copies of the disassembler and of System.RunUntil; tied to the compiled code on every run by "
    "Coq-checked case files (projection: bank, PC, bytes column, mnemonic, operand syntax and hex groups, rel8 sign, A/X/Y rendering, flags)",
    "translator /verif/gen for the bus read nRead of both packages and the opcode tables (validated by the C02 lockstep tie); "
    "coq/Lib/Machine.v: flat memory behind every bus segment -- the System's real map (WRAM mirrors, FakeHW) is exercised by the tie and "
    "by the Go falsifier only",
    "RunUntil theorem: explicit hypotheses on the abstract step function (does not read the recorded bus trace; keeps bank and PC in "
    "range) -- to be discharged where the model is connected to the generated Step (C12); the Go falsifier disrun checks the statement "
    "on the real System.RunUntil",
    "Go harness /verif/harness/distool.go: case generator, trace-line parser (projection), independent opcode matrix transcribed from "
    "Spec/ISA.v, instrumented flat memory",
]

FIELDS = ["RK", "PC", "M", "X", "RA", "RAl", "RX", "RXl", "RY", "RYl", "N", "V", "D", "I", "Z", "C"]

PURE_V = """(* per-run instantiation of C14 (first half) against the regenerated bus reads *)
From Coq Require Import ZArith NArith List Bool String.
From Lib Require Import ZOps Machine.
From Spec Require Import ISA TraceSpec.
From Model Require Import Disasm.
From Props Require Import DisasmProps.
From Gen Require Import GenFields.
From Gen Require GenCpu65 GenCpuAlt.
Import ListNotations.
Local Open Scope Z_scope.

Definition flds : fields := mkfields f_RK f_PC f_M f_X f_RA f_RAl f_RX f_RXl f_RY f_RYl f_N f_V f_D f_I f_Z f_C.

(* c.nRead of cpu65c816 (through bus.EaRead) and c.Bus.nRead of cpualt are the flat-memory read of the model *)
Lemma nread65_std : forall b a s, GenCpu65.nRead b a s = std_nread b a s.
Proof.
  intros b a s. unfold GenCpu65.nRead, GenCpu65.EaRead, std_nread, seg_get, seg_nil, mem_read, bind. cbv zeta.
  destruct (seg_ok _); [|reflexivity]. destruct (addr_ok _); reflexivity.
Qed.
Lemma nreadalt_std : forall b a s, GenCpuAlt.nRead b a s = std_nread b a s.
Proof.
  intros b a s. unfold GenCpuAlt.nRead, std_nread, bus_read, mem_read, bind. cbv zeta.
  destruct (seg_ok _); [|reflexivity]. destruct (addr_ok _); reflexivity.
Qed.
Lemma nread65_ok : nread_ok GenCpu65.nRead.
Proof. intros b a s Hb Ha. rewrite nread65_std. apply std_nread_ok; assumption. Qed.
Lemma nreadalt_ok : nread_ok GenCpuAlt.nRead.
Proof. intros b a s Hb Ha. rewrite nreadalt_std. apply std_nread_ok; assumption. Qed.
Lemma nread65_pure : nread_pure GenCpu65.nRead.
Proof. intros b a s v s' E. rewrite nread65_std in E. eapply std_nread_pure; exact E. Qed.
Lemma nreadalt_pure : nread_pure GenCpuAlt.nRead.
Proof. intros b a s v s' E. rewrite nreadalt_std in E. eapply std_nread_pure; exact E. Qed.

Definition cfg65 (fixed : bool) : dcfg := mkcfg flds GenCpu65.nRead GenCpu65.instr_table fixed.
Definition cfgalt (fixed : bool) : dcfg := mkcfg flds GenCpuAlt.nRead GenCpuAlt.instr_table fixed.

(* DisassembleTo / DisassembleCurrentPC leave every register, memory and the callback tables unchanged
   (for either variant of the rel8 rendering, every myPC, every state) *)
Theorem C14_disassembler_pure_65 : forall fixed mypc s l s', disassemble_to (cfg65 fixed) mypc s = Ok l s' -> same s s'.
Proof. intros fixed. exact (disassemble_to_same (cfg65 fixed) nread65_pure). Qed.
Theorem C14_disassembler_pure_alt : forall fixed mypc s l s', disassemble_to (cfgalt fixed) mypc s = Ok l s' -> same s s'.
Proof. intros fixed. exact (disassemble_to_same (cfgalt fixed) nreadalt_pure). Qed.

(* RunUntil with a Logger and without one: same final registers (AllCycles included), memory, answer, cycle total *)
Theorem C14_no_perturbation_65 : forall fixed (step : st -> res (Z * bool)) (inv : st -> Prop),
  (forall s1 s2, same s1 s2 -> res_same (step s1) (step s2)) ->
  (forall s r s', inv s -> step s = Ok r s' -> inv s') ->
  (forall s1 s2, same s1 s2 -> inv s1 -> inv s2) ->
  (forall s, inv s -> pc_ok flds s) ->
  forall fuel target maxc s, inv s ->
    outcome_same (run_until flds step (Some (disassemble (cfg65 fixed))) fuel target maxc 0 s [])
                 (run_until flds step None fuel target maxc 0 s []).
Proof. intros fixed step inv. exact (C14_no_perturbation (cfg65 fixed) step inv nread65_ok). Qed.
Theorem C14_no_perturbation_alt : forall fixed (step : st -> res (Z * bool)) (inv : st -> Prop),
  (forall s1 s2, same s1 s2 -> res_same (step s1) (step s2)) ->
  (forall s r s', inv s -> step s = Ok r s' -> inv s') ->
  (forall s1 s2, same s1 s2 -> inv s1 -> inv s2) ->
  (forall s, inv s -> pc_ok flds s) ->
  forall fuel target maxc s, inv s ->
    outcome_same (run_until flds step (Some (disassemble (cfgalt fixed))) fuel target maxc 0 s [])
                 (run_until flds step None fuel target maxc 0 s []).
Proof. intros fixed step inv. exact (C14_no_perturbation (cfgalt fixed) step inv nreadalt_ok). Qed.

Print Assumptions C14_disassembler_pure_65.
Print Assumptions C14_disassembler_pure_alt.
Print Assumptions C14_no_perturbation_65.
Print Assumptions C14_no_perturbation_alt.
"""

TBL_V = """(* per-run: the regenerated opcode tables against the independent matrix Spec/ISA.v *)
From Coq Require Import ZArith List Bool String.
From Spec Require Import ISA.
From Gen Require GenCpu65 GenCpuAlt.
Import ListNotations.
Definition dis65 := Eval vm_compute in (disasm_disagreements GenCpu65.instr_table, exec_disagreements GenCpu65.instr_table, rows_complete GenCpu65.instr_table).
Definition disalt := Eval vm_compute in (disasm_disagreements GenCpuAlt.instr_table, exec_disagreements GenCpuAlt.instr_table, rows_complete GenCpuAlt.instr_table).
Print dis65.
Print disalt.
Lemma tbl65_agrees : table_agrees GenCpu65.instr_table = true.
Proof. vm_compute. reflexivity. Qed.
Lemma tblalt_agrees : table_agrees GenCpuAlt.instr_table = true.
Proof. vm_compute. reflexivity. Qed.
"""

TRUTH_V = """(* per-run instantiation of C14 (second half): every trace line is truthful, for the repaired rel8 rendering,
   against the regenerated tables and bus reads *)
From Coq Require Import ZArith NArith List Bool String.
From Lib Require Import ZOps Machine.
From Spec Require Import ISA TraceSpec.
From Model Require Import Disasm.
From Props Require Import DisasmProps.
From Run Require Import C14_pure C14_tbl.
Local Open Scope Z_scope.

Theorem C14_truthful_65 : forall s, wf flds s ->
  exists l s', disassemble (cfg65 true) s = Ok l s' /\\ same s s' /\\ truthful (view_of flds s) l.
Proof. exact (disassemble_truthful (cfg65 true) nread65_ok tbl65_agrees eq_refl). Qed.
Theorem C14_truthful_alt : forall s, wf flds s ->
  exists l s', disassemble (cfgalt true) s = Ok l s' /\\ same s s' /\\ truthful (view_of flds s) l.
Proof. exact (disassemble_truthful (cfgalt true) nreadalt_ok tblalt_agrees eq_refl). Qed.
Print Assumptions C14_truthful_65.
Print Assumptions C14_truthful_alt.
"""

REFUTED_V = """(* per-run witness: with the regenerated table of {pkg}, opcode {op} is shown untruthfully even by the repaired rendering *)
From Coq Require Import ZArith NArith List Bool String.
From Lib Require Import ZOps Machine.
From Spec Require Import ISA TraceSpec.
From Model Require Import Disasm.
From Props Require Import DisasmProps.
From Gen Require Import GenFields.
From Run Require Import C14_pure.
Import ListNotations.
Local Open Scope Z_scope.
Definition wst : st := mkst (fun f => nassoc f [(f_RK, 0); (f_PC, 32768)]) (fun a => zassoc a [(32768, {op}); (32769, 171); (32770, 205); (32771, 239)]) [] (fun _ => false) false.
Lemma wst_wf : wf flds wst.
Proof. unfold wf, flds, wst, get. cbn. repeat split; try (vm_compute; congruence); auto. repeat (apply Forall_cons; [vm_compute; congruence|]). apply Forall_nil. Qed.
Definition shown := Eval vm_compute in option_map (fun l => (l_bytes l, l_name l)) (line_of (disassemble ({cfg} true) wst)).
Print shown.
Theorem C14_refuted_table_{pkg} : exists s l, wf flds s /\\ line_of (disassemble ({cfg} true) s) = Some l /\\ ~ truthful (view_of flds s) l.
Proof.
  exists wst. eexists. split; [exact wst_wf|]. split; [vm_compute; reflexivity|].
  intros (_ & _ & Hb & Hn & Hs & Hg & _).
  first [ vm_compute in Hb; discriminate Hb | vm_compute in Hn; discriminate Hn | vm_compute in Hs; discriminate Hs | vm_compute in Hg; discriminate Hg ].
Qed.
Print Assumptions C14_refuted_table_{pkg}.
"""

CASES_HEAD = """(* GENERATED per run by checks/disasm.py: real trace lines (harness discases) against Model/Disasm.v *)
From Coq Require Import ZArith NArith List Bool String.
From Lib Require Import ZOps Machine.
From Spec Require Import ISA TraceSpec.
From Model Require Import Disasm.
From Gen Require Import GenFields.
From Run Require Import C14_pure.
Import ListNotations.
Local Open Scope Z_scope.
Definition cfg_of (fixed : bool) (kind : Z) : dcfg := if (kind =? 0) || (kind =? 3) then cfg65 fixed else cfgalt fixed.
Definition O (pbr pc : Z) (bs : list Z) (nm : string) (shape : Z) (gs : list (list Z)) (back hasregs aw : Z) (av : Z) (xw xv yw yv : Z) (fl : list Z) (pure : Z) : option obs :=
  Some (mkobs pbr pc bs nm shape gs (negb (back =? 0)) (negb (hasregs =? 0)) (negb (aw =? 0), av) (negb (xw =? 0), xv) (negb (yw =? 0), yv) (map (fun z => negb (z =? 0)) fl)
              (negb (pure =? 0))).
Definition R (rk pc m x ra ral rx rxl ry ryl n v d i z c : Z) : list (N * Z) :=
  [(f_RK, rk); (f_PC, pc); (f_M, m); (f_X, x); (f_RA, ra); (f_RAl, ral); (f_RX, rx); (f_RXl, rxl); (f_RY, ry); (f_RYl, ryl);
   (f_N, n); (f_V, v); (f_D, d); (f_I, i); (f_Z, z); (f_C, c)].
Definition cases : list (Z * dcase) := [
"""

CASES_TAIL = """].
Definition key (c : Z * dcase) : Z := c_id (snd c) * 4 + fst c.
Definition bad_fixed := Eval vm_compute in map key (filter (fun c => negb (agrees (cfg_of true (fst c)) (snd c))) cases).
Definition bad_today := Eval vm_compute in map key (filter (fun c => negb (agrees (cfg_of false (fst c)) (snd c))) cases).
Print bad_fixed.
Print bad_today.
Lemma tie : bad_fixed = [].
Proof. reflexivity. Qed.
"""


def coq_string(s):
    return '"' + s.replace('"', '""') + '"%string'


def case_to_coq(line):
    """one 'K ...' line of harness discases -> (key, Gallina text) or None for unparsed observations"""
    m = re.match(r"K (\d+) (\d+) (\d+) R (.*?) M (.*?) O (.*) T (\S+)$", line)
    if not m:
        return None
    cid, kind, mypc = int(m.group(1)), int(m.group(2)), int(m.group(3))
    regs = dict(kv.split("=") for kv in m.group(4).split())
    mem = [kv.split("=") for kv in m.group(5).split()]
    obs = m.group(6)
    rtxt = "R " + " ".join(regs[n] for n in FIELDS)
    mtxt = "[" + "; ".join("(%s, %s)" % (a, v) for a, v in mem) + "]"
    if obs == "PANIC":
        otxt = "None"
    elif obs.startswith("UNPARSED"):
        # a line the parser does not understand can agree with no model line: shape -1
        otxt = "(O 0 0 [] \"\"%string (-1) [] 0 0 0 0 0 0 0 0 [] 1)"
    else:
        f = obs.split()
        pbr, pc, bs, nm, shape, gs, back, hasregs, aw, av, xw, xv, yw, yv, fl, pure = f
        bl = "[]" if bs == "-" else "[" + "; ".join(bs.split(",")) + "]"
        gl = "[]" if gs == "-" else "[" + "; ".join("[" + "; ".join(g.split(".")) + "]" for g in gs.split(";")) + "]"
        nm = "" if nm == "-" else nm
        otxt = "(O %s %s %s %s %s %s %s %s %s %s %s %s %s %s [%s] %s)" % (pbr, pc, bl, coq_string(nm), shape, gl, back, hasregs, aw, av, xw, xv, yw, yv,
                                                                       "; ".join(fl), pure)
    return cid * 4 + kind, "(%d, mkcase %d %d (%s) %s %s)" % (kind, cid, mypc, rtxt, mtxt, otxt)


def parse_list(out, name):
    m = re.search(r"%s\s*=\s*(\[[^\]]*\])" % name, out, re.S)
    if not m:
        return None
    return [int(x) for x in re.findall(r"-?\d+", m.group(1))]


def parse_fails(out):
    """FAIL blocks of the harness -> list of dict(key, text, fields)"""
    res = []
    for b in re.split(r"\n(?=FAIL )", "\n" + out):
        b = b.strip()
        m = re.match(r"FAIL C14 key=(\S+)(.*)", b, re.S)
        if m:
            res.append({"key": m.group(1), "text": b[:1800]})
    return res


def stats_of(out):
    st = {}
    for l in out.splitlines():
        m = re.match(r"STAT (\S+) (\d+)", l)
        if m:
            st[m.group(1)] = int(m.group(2))
    return st


def coq_obligation(ck, name, path, text, timeout=900):
    vlib.write_if_changed(path, text)
    fresh = vlib.static_vo_fresh(path)
    rc, out, dt, cached = vlib.coqc(path, timeout=timeout)
    ok = rc == 0 and fresh
    detail = out if rc != 0 else ("" if fresh else "a static .vo imported by this file is older than its source: run ./check --setup")
    ck.oblige(name, ok, detail)
    if rc == 0:
        ck.assumptions += vlib.parse_assumptions(out)
    return ok, out


FULL_V = r"""(* GENERATED per run: tracing does not perturb execution, for the regenerated interpreters (C14, no hypotheses left) *)
From Coq Require Import ZArith NArith List Bool String.
From Lib Require Import ZOps Machine.
From Spec Require Import ISA TraceSpec.
From Model Require Import Disasm.
From Props Require Import DisasmProps SafeLib CpuEqLib.
From Props Require RelLib.
From Gen Require Import GenFields.
From Gen Require GenCpu65 GenCpuAlt.
From Run Require Import C14_pure.
From Run Require C08_GenCpu65 C08_GenCpuAlt C14_rel_GenCpu65 C14_rel_GenCpuAlt.
Import ListNotations.
Local Open Scope Z_scope.

(* the state invariant: every register field within its Go type (nothing about the recorded trace) *)
Definition finv (s : st) : Prop := forall f, Bty fwidth f (get f s).

Lemma finv_same : forall s1 s2, same s1 s2 -> finv s1 -> finv s2.
Proof. intros s1 s2 H Hi f. rewrite <- (same_get f s1 s2 H). apply Hi. Qed.

Lemma finv_pc_ok : forall s, finv s -> pc_ok flds s.
Proof.
  intros s Hi. split.
  - pose proof (Hi f_RK) as H. cbv [Bty fwidth f_RK] in H. exact H.
  - pose proof (Hi f_PC) as H. cbv [Bty fwidth f_PC] in H. exact H.
Qed.

Definition untraced (s : st) : st := mkst (regs s) (mem s) [] (onpc s) (onwdm s).
Lemma untraced_same : forall s, same s (untraced s).
Proof. intros s. repeat split. Qed.
Lemma untraced_inv : forall s, finv s -> Inv (Bty fwidth) (untraced s).
Proof. intros s Hi. split; [exact Hi | constructor]. Qed.

Section One.
  Variable step : st -> res (Z * bool).
  Hypothesis step_rel : forall s1 s2, RelLib.same s1 s2 -> RelLib.rsame (step s1) (step s2).
  Hypothesis step_safe : forall s, Inv (Bty fwidth) s -> safe (fun _ s' => Inv (Bty fwidth) s') (step s).

  Lemma step_same : forall s1 s2, same s1 s2 -> res_same (step s1) (step s2).
  Proof. intros s1 s2 H. exact (step_rel s1 s2 H). Qed.

  Lemma step_finv : forall s r s', finv s -> step s = Ok r s' -> finv s'.
  Proof.
    intros s r s' Hi E.
    pose proof (step_safe (untraced s) (untraced_inv s Hi)) as HS.
    pose proof (step_same s (untraced s) (untraced_same s)) as HR. rewrite E in HR.
    destruct (step (untraced s)) as [r0 s0|]; simpl in HS, HR; [|contradiction].
    destruct HR as [_ Hsame]. apply (finv_same s0 s'); [apply same_sym; exact Hsame | exact (proj1 HS)].
  Qed.
End One.

(* C14, first half, for the interpreter the System embeds and for the alternative one: for every start state with
   fields in their Go types, every target, budget and fuel: RunUntil with a Logger (whose lines come from the
   disassembler) and without one end with the same answer, cycle total, registers (AllCycles included) and memory *)
Theorem C14_no_perturbation_full_65 : forall fixed fuel target maxc s, finv s ->
  outcome_same (run_until flds GenCpu65.Step (Some (disassemble (cfg65 fixed))) fuel target maxc 0 s [])
               (run_until flds GenCpu65.Step None fuel target maxc 0 s []).
Proof.
  intros fixed. apply (C14_no_perturbation_65 fixed GenCpu65.Step finv).
  - exact (step_same GenCpu65.Step C14_rel_GenCpu65.step_same_GenCpu65).
  - exact (step_finv GenCpu65.Step C14_rel_GenCpu65.step_same_GenCpu65 C08_GenCpu65.C08_step_GenCpu65).
  - exact finv_same.
  - exact finv_pc_ok.
Qed.
Theorem C14_no_perturbation_full_alt : forall fixed fuel target maxc s, finv s ->
  outcome_same (run_until flds GenCpuAlt.Step (Some (disassemble (cfgalt fixed))) fuel target maxc 0 s [])
               (run_until flds GenCpuAlt.Step None fuel target maxc 0 s []).
Proof.
  intros fixed. apply (C14_no_perturbation_alt fixed GenCpuAlt.Step finv).
  - exact (step_same GenCpuAlt.Step C14_rel_GenCpuAlt.step_same_GenCpuAlt).
  - exact (step_finv GenCpuAlt.Step C14_rel_GenCpuAlt.step_same_GenCpuAlt C08_GenCpuAlt.C08_step_GenCpuAlt).
  - exact finv_same.
  - exact finv_pc_ok.
Qed.
Print Assumptions C14_no_perturbation_full_65.
Print Assumptions C14_no_perturbation_full_alt.
"""


def run_c14(ck):
    ck.trusted = list(TRUST)
    os.makedirs(vlib.RUN, exist_ok=True)
    thorough = ck.tier == "thorough"
    harness, herr = vlib.build_harness()
    if harness is None:
        ck.oblige("build Go harness against the tree under test", False, herr)
    models = cpuchk.prepare_models(ck)

    # ---------------------------------------------------------------- theorems of this run
    pure_ok = tbl_ok = truth_ok = False
    tbl_out = ""
    if models:
        pure_ok, _ = coq_obligation(
            ck, "Theorems C14_disassembler_pure_65/_alt (forall variant, myPC, state: DisassembleTo leaves registers, memory, callbacks unchanged) and "
                "C14_no_perturbation_65/_alt (forall step, fuel, target, maxCycles, state: RunUntil with logger and without end in the same registers incl. "
                "AllCycles, memory, answer and cycle total) over the regenerated nRead; Lemmas nread65_ok / nreadalt_ok",
            os.path.join(vlib.RUN, "C14_pure.v"), PURE_V)
        if pure_ok:
            # the two facts about the regenerated Step that the no-perturbation theorem needs, proved on this run:
            # (i) Step never looks at the recorded trace (checks/cpurel.py + Props/RelLib.v), (ii) Step keeps every
            # field within its Go type (C08's theorem), then the theorem without hypotheses
            from checks import cpusafe, cpurel
            okp = True
            def prep(mod):
                t, _ = cpusafe.generate(os.path.join(vlib.GEN, mod + ".v"), mod)
                p8 = os.path.join(vlib.RUN, "C08_%s.v" % mod)
                vlib.write_if_changed(p8, t)
                r8 = vlib.coqc(p8, timeout=1800)
                t, _ = cpurel.generate(os.path.join(vlib.GEN, mod + ".v"), mod)
                pr = os.path.join(vlib.RUN, "C14_rel_%s.v" % mod)
                vlib.write_if_changed(pr, t)
                rr = vlib.coqc(pr, timeout=1800)
                return mod, r8, rr
            for (mod, r8, rr) in vlib.parallel([lambda m=m: prep(m) for m in ("GenCpu65", "GenCpuAlt")]):
                mm = re.search(r"\(in proof (\w+)\)", rr[1])
                okp = ck.oblige("Theorem step_same_%s : forall s1 s2, same s1 s2 -> rsame (Step s1) (Step s2)  [the regenerated Step never looks at the recorded bus "
                                "trace: one two-run lemma per translated routine, %.0fs]" % (mod, rr[2]), rr[0] == 0,
                                "" if rr[0] == 0 else "first lemma that no longer checks: " + (mm.group(1) if mm else rr[1][-500:])) and okp
                okp = ck.oblige("Theorem C08_step_%s (Step keeps every field within its Go type; re-used here)" % mod, r8[0] == 0, "" if r8[0] == 0 else r8[1][-500:]) and okp
            if okp:
                coq_obligation(
                    ck, "Theorems C14_no_perturbation_full_65 / _alt : forall variant fuel target maxc s, (every field of s within its Go type) -> RunUntil over the "
                        "regenerated Step with a Logger fed by the disassembler and without one end with the same answer, cycle total, registers (AllCycles "
                        "included) and memory - no hypothesis left",
                    os.path.join(vlib.RUN, "C14_full.v"), FULL_V)
        tbl_ok, tbl_out = coq_obligation(
            ck, "Lemmas tbl65_agrees / tblalt_agrees : ISA.table_agrees <regenerated opcode table> = true (mnemonic, mode and nominal size of all 256 "
                "opcodes of both packages against the independent matrix)",
            os.path.join(vlib.RUN, "C14_tbl.v"), TBL_V)
        if tbl_ok and pure_ok:
            truth_ok, _ = coq_obligation(
                ck, "Theorems C14_truthful_65 / C14_truthful_alt : forall s, wf s -> the line of the (repaired) disassembler is truthful: bytes = memory at "
                    "PC..PC+ISA.length-1 wrapping in the bank, mnemonic and operand syntax of the opcode, operand groups = little-endian operand, rel8/rel16 "
                    "destination, A/X/Y through the current widths, eight flags",
                os.path.join(vlib.RUN, "C14_truth.v"), TRUTH_V)
        else:
            ck.oblige("Theorems C14_truthful_65 / C14_truthful_alt (truthfulness of every line against Spec/ISA.v)", False,
                      "not available: " + ("the table lemma of this run is broken" if not tbl_ok else "C14_pure.v is broken"))
        dis = {}
        for nm in ("dis65", "disalt"):
            m = re.search(r"%s\s*=\s*\n?\s*\((\[[^\]]*\]),\s*(\[[^\]]*\]),\s*(\w+)\)" % nm, tbl_out, re.S)
            if m:
                dis[nm] = {"disasm": [int(x) for x in re.findall(r"\d+", m.group(1))], "exec": [int(x) for x in re.findall(r"\d+", m.group(2))],
                           "complete": m.group(3)}
        ck.cov["table_disagreements"] = dis
        # Coq witness on the regenerated table when it disagrees with the matrix
        if pure_ok and not tbl_ok:
            for nm, pkg, cfg in (("dis65", "65", "cfg65"), ("disalt", "alt", "cfgalt")):
                ops = (dis.get(nm, {}).get("disasm") or []) + (dis.get(nm, {}).get("exec") or [])
                if ops:
                    p = os.path.join(vlib.RUN, "C14_refuted_%s.v" % pkg)
                    vlib.write_if_changed(p, REFUTED_V.format(pkg=pkg, op=ops[0], cfg=cfg))
                    rc, out, _, _ = vlib.coqc(p, timeout=300)
                    ck.cov.setdefault("refuted_witnesses", []).append(
                        {"theorem": "C14_refuted_table_%s" % pkg, "opcode": ops[0], "accepted_by_coq": rc == 0,
                         "shown": (re.search(r"shown\s*=\s*(.*?)\n\s*:", out, re.S) or [None, ""])[1][:200]})

    # ---------------------------------------------------------------- tie + truthfulness falsifier
    fails = []
    st = {}
    tie_ok = False
    variant = None
    if harness:
        cdir = os.path.join(vlib.WORK, "discases")
        shutil.rmtree(cdir, ignore_errors=True)
        os.makedirs(cdir)
        cfile = os.path.join(cdir, "cases.txt")
        rc, out, _ = vlib.sh([harness, "discases", "-seed", str(ck.seed), "-tier", ck.tier, "-corpus", os.path.join(vlib.ROOT, "corpus", "C14"),
                              "-out", cfile], timeout=900)
        ck.oblige("harness discases ran", rc == 0, out[-1500:])
        st = stats_of(out)
        fails += [dict(f, src="discases") for f in parse_fails(out)]
        lines = open(cfile).read().splitlines() if os.path.exists(cfile) else []
        if models and pure_ok and lines:
            conv, bykey = [], {}
            for l in lines:
                c = case_to_coq(l)
                if c:
                    conv.append(c)
                    bykey[c[0]] = (l, c[1])
            per = 700
            shards = [conv[i:i + per] for i in range(0, len(conv), per)]
            for n in os.listdir(vlib.RUN):
                if n.startswith("Cases_C14_"):
                    try:
                        if int(re.findall(r"\d+", n[10:])[0]) >= len(shards):
                            os.remove(os.path.join(vlib.RUN, n))
                    except (IndexError, ValueError):
                        pass

            def job(i, sh):
                p = os.path.join(vlib.RUN, "Cases_C14_%d.v" % i)
                vlib.write_if_changed(p, CASES_HEAD + ";\n".join(t for _, t in sh) + "\n" + CASES_TAIL)
                return vlib.coqc(p, timeout=1200)
            results = vlib.parallel([(lambda i=i, sh=sh: job(i, sh)) for i, sh in enumerate(shards)])
            bad_fixed, bad_today, broken = [], [], []
            for i, (rc, out, dt, cached) in enumerate(results):
                bf, bt = parse_list(out, "bad_fixed"), parse_list(out, "bad_today")
                if bf is None or bt is None:
                    broken.append("shard %d: %s" % (i, out[-600:]))
                    continue
                bad_fixed += bf
                bad_today += bt
                if rc != 0 and not bf:
                    broken.append("shard %d: %s" % (i, out[-600:]))
            tie_ok = not bad_fixed and not broken
            if not bad_fixed and not broken:
                variant = "repaired"
            elif not bad_today and not broken:
                variant = "as found before the repair (rel8 sign test on the byte after the offset)"
            else:
                variant = "neither"
            detail = ""
            if broken:
                detail = "; ".join(broken)[:1200]
            elif bad_fixed:
                k = bad_fixed[0]
                detail = "%d of %d lines differ from the repaired model (%d differ from the model of the code as found); first: %s" % (
                    len(bad_fixed), len(conv), len(bad_today), bykey.get(k, ("?",))[0][:700])
            ck.oblige("tie: Lemma tie (Cases_C14_*.v, %d shards): the %d real trace lines of cpu65c816 (System.RunUntil + Logger, DisassembleTo) and cpualt "
                      "(DisassembleCurrentPC/DisassembleTo, Disassemble) equal the lines of the repaired model" % (len(shards), len(conv)), tie_ok, detail)
            ck.cov["code_matches_variant"] = variant
            ck.cov["tie_mismatches_vs_repaired_model"] = len(bad_fixed)
            ck.cov["tie_mismatches_vs_model_of_code_as_found"] = len(bad_today)
            for k in (bad_fixed[:1] + [c[0] for c in conv[:2]]):
                if k in bykey:
                    ck.sample({"tie_case": bykey[k][0][:600]})
        elif models and pure_ok:
            ck.oblige("tie: real trace lines equal the model's lines", False, "no cases produced")

        # ------------------------------------------------------------ non-perturbation falsifier on the real System.RunUntil
        nprog = 3000 if thorough else 400
        rc2, out2, _ = vlib.sh([harness, "disrun", "-seed", str(ck.seed), "-n", str(nprog)], timeout=1800)
        ck.oblige("harness disrun ran", rc2 == 0, out2[-1500:])
        st2 = stats_of(out2)
        fails += [dict(f, src="disrun") for f in parse_fails(out2)]
        ck.cov["run_falsifier"] = st2
    else:
        st2 = {}

    # ---------------------------------------------------------------- verdict
    seen = set()
    for f in fails:
        key = "C14." + f["key"]
        if key in seen:
            continue
        seen.add(key)
        rp = {"how": "harness " + f["src"]}
        m = re.search(r"input: (.*)", f["text"])
        if m:
            rp["case"] = m.group(1).strip()
        m = re.search(r"program=(\d+) seed=(\d+)", f["text"])
        if m:
            rp["program"], rp["seed"], rp["n"] = int(m.group(1)), int(m.group(2)), 3000 if thorough else 400
        ck.violation(key, "counterexample", f["text"], rp)
    broken = [o["name"] for o in ck.obligations if not o["discharged"]]
    if broken and not fails:
        kind = "broken-correspondence" if any(n.startswith("tie") or n.startswith("translate") for n in broken) else "broken-theorem"
        ck.violation("C14.obligation", kind, "the Go falsifiers (every opcode x widths x operand classes; %d programs with/without Logger) found no failing input; broken: %s"
                     % (st2.get("programs", 0), "; ".join(b[:160] for b in broken)), {"broken_obligations": broken})
    bad = vlib.foreign_assumptions(ck.assumptions)
    ck.oblige("Print Assumptions of every C14 theorem: Closed under the global context", not bad, "unexpected: %s" % bad)
    nlines = sum(v for k, v in st.items() if k.startswith("lines_kind"))
    ck.cov.update({
        "evaluations": nlines + st2.get("programs", 0),
        "traces_validated_against_impl": nlines if tie_ok else 0,
        "distinct_nontrivial": st.get("distinct", 0),
        "rule": "one PRNG (VERIF_SEED); corpus first; then per opcode (256) x M/X (4): random operands + boundary operands, rel8 offsets $00 $7F $80 $FC $FF $01 $FE $81 "
                "and destinations wrapping in the bank, rel16 offsets $0000 $7FFF $8000 $FFFC $FFFF; per opcode PC = $FFFC..$FFFF (operand bytes wrap inside the bank), E=1, "
                "flag bytes outside {0,1} (M/X = 2, 3, $80, $FF change the computed length), stale low-byte register copies, DisassembleTo with myPC != PC; lines logged by "
                "real program runs single-stepped through System.RunUntil; every case through System.RunUntil+Logger (bytes.Buffer), cpualt.DisassembleCurrentPC/"
                "DisassembleTo, cpualt.Disassemble and (a quarter) cpu65c816.DisassembleTo; distinct = distinct (opcode, M, X, case class) combinations, counted by the harness",
        "distribution": st,
        "checker_cmd": "coqc build/work/Run/C14_pure.v C14_tbl.v C14_truth.v Cases_C14_*.v ; harness discases ; harness disrun",
        "modelled": "emulator/cpu65c816/cpu_disassembler.go (DisassembleCurrentPC, DisassembleTo, formatInstructionModeTo, appendCPUFlags), "
                    "emulator/cpualt/cpu_disassembler.go (Disassemble, formatInstructionMode, DisassembleCurrentPC, DisassembleTo, formatInstructionModeTo, printCPUFlags), "
                    "emulator/system.go RunUntil (loop, GetPC), xbuf/b.go through the parsed text; NOT in the projection: column padding, punctuation, the leading cycle count, "
                    "S= and ea=/addr= of cpualt; cpualt.DisassemblePreviousPC (uses PPC with the current bank) is outside the property",
    })
    ck.sample({"theorem": "C14_truthful_65 : forall s, wf flds s -> exists l s', disassemble (cfg65 true) s = Ok l s' /\\ same s s' /\\ truthful (view_of flds s) l"})
    ck.sample({"theorem": "C14_no_perturbation_65 : forall fixed step inv, (step respects `same`) -> (inv preserved) -> (inv -> pc_ok) -> forall fuel target maxc s, inv s -> "
                          "outcome_same (run_until flds step (Some (disassemble (cfg65 fixed))) fuel target maxc 0 s []) (run_until flds step None fuel target maxc 0 s [])"})
    ck.sample({"static_witnesses": "DisasmProps.C14_refuted_rel8 (BNE $FC at $8000 shown as $80fe +), DisasmProps.C14_refuted_brk (BRK shown with one byte)"})


def replay(pid, rp):
    r = rp.get("replay", {})
    harness, herr = vlib.build_harness()
    if harness is None:
        print(herr)
        return 1
    if "case" in r:
        rc, out, _ = vlib.sh([harness, "disreplay"] + r["case"].split(), timeout=300)
        print(out.strip())
        # the same case inside Coq: the real lines against both variants of the model (vm_compute)
        try:
            d = os.path.join(vlib.WORK, "disreplay")
            shutil.rmtree(d, ignore_errors=True)
            os.makedirs(d)
            open(os.path.join(d, "r.case"), "w").write(r["case"].replace("corpus:", "") + "\n")
            vlib.sh([harness, "discases", "-corpus", d, "-corpus-only", "-out", os.path.join(d, "cases.txt")], timeout=300)
            if not vlib.run_gen("cpu"):
                for n in ("GenFields", "GenCpu65", "GenCpuAlt"):
                    vlib.coqc(os.path.join(vlib.GEN, n + ".v"), timeout=600)
                vlib.write_if_changed(os.path.join(vlib.RUN, "C14_pure.v"), PURE_V)
                vlib.coqc(os.path.join(vlib.RUN, "C14_pure.v"))
                conv = [case_to_coq(l) for l in open(os.path.join(d, "cases.txt")).read().splitlines()]
                pv = os.path.join(vlib.RUN, "Cases_C14_replay.v")
                vlib.write_if_changed(pv, CASES_HEAD + ";\n".join(c[1] for c in conv if c) + "\n" + CASES_TAIL)
                crc, cout, _, _ = vlib.coqc(pv, timeout=300)
                bf, bt = parse_list(cout, "bad_fixed"), parse_list(cout, "bad_today")
                kinds = {0: "System.RunUntil+Logger", 1: "cpualt.DisassembleCurrentPC", 2: "cpualt.Disassemble", 3: "cpu65c816.DisassembleTo"}
                print("inside Coq (build/work/Run/Cases_C14_replay.v): real lines that differ from the repaired model: %s; from the model of the code as found: %s"
                      % ([kinds[k % 4] for k in (bf or [])], [kinds[k % 4] for k in (bt or [])]))
        except Exception as e:  # the Go replay above is the verdict
            print("Coq replay unavailable:", e)
        return 1 if rc != 0 else 0
    if "program" in r:
        rc, out, _ = vlib.sh([harness, "disrun", "-seed", str(r["seed"]), "-n", str(r.get("n", 400)), "-only", str(r["program"])], timeout=600)
        print(out.strip())
        return 1 if "FAIL" in out else 0
    print(rp.get("detail"))
    return 1
