"""C13: bus routing follows Attach; EaDump agrees with byte-wise reads.

Static theorems: coq/Props/BusProps.v over the hand-written model coq/Model/Bus.v (any history of Attach
calls; EaRead/EaWrite; EaDump = the byte-wise loop).  The model carries the EaDump loop in two variants that
differ only in where the per-segment counter starts (DumpCurrent: 0, DumpRepaired: a & 0xf).  The tie
(cases run on the REAL code by harness/bustool.go, agreement checked by the Coq kernel) decides which variant
the tree under test is; the theorems of the EaDump clause hold for DumpRepaired only, and for DumpCurrent
`C13_dump_refuted` is a witness against the clause.  The Go falsifier states the property directly."""
import hashlib
import json
import os
import re
import vlib

CORPUS = os.path.join(vlib.ROOT, "corpus", "C13")
SHARD = 70  # cases per Cases file

PROP_V = """(* per-run restatement of the C13 theorems (Props/BusProps.v over Model/Bus.v) *)
From Coq Require Import ZArith List Bool.
From Lib Require Import ZList.
From Model Require Import Bus.
From Props Require Import BusProps.
Import ListNotations.
Local Open Scope Z_scope.
Local Open Scope bool_scope.

(* the Attach loop, run literally, is its closed form *)
Theorem C13_attach_loop : forall rt m s e, attach_res_equiv (attach_loop rt m s e) (attach rt m s e).
Proof. exact attach_loop_equiv. Qed.
(* a misaligned Attach returns an error and leaves routing unchanged *)
Theorem C13_attach_misaligned : forall rt c,
  alignedb c = false -> do_attach rt c = AErr /\\ apply_call rt c = rt.
Proof. exact attach_misaligned. Qed.
(* an aligned Attach (end below 2^24) succeeds ... *)
Theorem C13_attach_aligned_succeeds : forall rt c,
  alignedb c = true -> c_end c < ABITS -> exists rt', do_attach rt c = AOk rt' /\\ apply_call rt c = rt'.
Proof. exact attach_aligned_succeeds. Qed.
(* ... and updates exactly the blocks of its range *)
Theorem C13_attach_exact_blocks : forall rt c k,
  apply_call rt c k =
  if alignedb c && (c_start c / 16 <=? k) && (k <=? c_end c / 16) && (k <? NSEG) then Some (c_mem c) else rt k.
Proof. exact apply_call_blocks. Qed.
Theorem C13_attach_exact_addresses : forall rt c a,
  call_wf c -> 0 <= a < ABITS ->
  seg_at (apply_call rt c) a = if covers c a then Some (c_mem c) else seg_at rt a.
Proof. exact apply_call_seg. Qed.
(* addresses outside the range of a call are unaffected by it *)
Theorem C13_outside_unaffected : forall rt c a,
  call_wf c -> 0 <= a < ABITS -> ~ (c_start c <= a <= c_end c) -> seg_at (apply_call rt c) a = seg_at rt a.
Proof. exact apply_call_outside. Qed.
(* an Attach panics exactly when its loop runs past the table; never with end < 2^24 *)
Theorem C13_attach_panics_iff : forall rt c, (exists rt', do_attach rt c = APanic rt') <-> call_panics c = true.
Proof. exact attach_panics_iff. Qed.
(* after ANY history: route = the last aligned Attach covering the address, None if never attached *)
Theorem C13_route_history : forall h a,
  Forall call_wf h -> 0 <= a < ABITS -> seg_at (run_calls empty_rt h) a = last_cover h a.
Proof. exact route_history. Qed.
Theorem C13_history_outcomes : forall h,
  Forall (fun c => c_end c < ABITS) h ->
  Forall (fun c => forall rt, if alignedb c then exists rt', do_attach rt c = AOk rt' else do_attach rt c = AErr) h.
Proof. exact history_outcomes. Qed.
(* EaRead / EaWrite hand the unmodified address to that memory; Panic when unattached *)
Theorem C13_ea_read : forall W h a st,
  Forall call_wf h -> 0 <= a < ABITS ->
  ea_read W (run_calls empty_rt h) a st =
  match last_cover h a with Some m => mem_read W m a st | None => Panic st end.
Proof. exact ea_read_after_history. Qed.
Theorem C13_ea_write : forall W h a v st,
  Forall call_wf h -> 0 <= a < ABITS ->
  ea_write W (run_calls empty_rt h) a v st =
  match last_cover h a with Some m => mem_write W m a v st | None => Panic st end.
Proof. exact ea_write_after_history. Qed.
Theorem C13_memory_receives_address : forall W m a st,
  log (res_state (mem_read W m a st)) = (m, 0, a, 0) :: log st /\\ stores (res_state (mem_read W m a st)) = stores st.
Proof. exact mem_read_receives. Qed.
Theorem C13_memory_receives_write : forall W m a v st,
  log (res_state (mem_write W m a v st)) = (m, 1, a, v) :: log st.
Proof. exact mem_write_receives. Qed.
(* EaDump = the byte-wise loop (repaired loop: any start; today's loop: aligned starts) *)
Theorem C13_dump_bytewise : forall v W rt s e data st,
  0 <= s <= e -> e < ABITS -> (v = DumpRepaired \\/ s mod 16 = 0) ->
  ea_dump v W rt s e data st =
  with_count (fun d => (e - s + 1, d)) (dump_bytes (Z.to_nat (e - s + 1)) W rt s 0 data st).
Proof. exact ea_dump_bytewise. Qed.
(* EaDump of the repaired loop after any history: count, data[i] = read(start+i), untouched otherwise *)
Theorem C13_dump : forall W h s e data st,
  Forall call_wf h ->
  0 <= s <= e -> e < ABITS -> e - s + 1 <= zlen data ->
  (forall a m, s <= a <= e -> last_cover h a = Some m -> peek W m a st <> None) ->
  exists d st',
    ea_dump DumpRepaired W (run_calls empty_rt h) s e data st = Ok (e - s + 1, d) st' /\\
    zlen d = zlen data /\\
    (forall i, 0 <= i < e - s + 1 ->
       match last_cover h (s + i) with
       | Some m => mem_read W m (s + i) st = Ok (znth d i) (log_ev st (m, 0, s + i, 0))
       | None => znth d i = znth data i
       end) /\\
    (forall i, e - s + 1 <= i -> znth d i = znth data i) /\\
    stores st' = stores st.
Proof. exact C13_dump_after_history. Qed.
(* the memories receive exactly the attached addresses of the range, ascending, each once *)
Theorem C13_dump_log : forall v W rt s e data st,
  0 <= s <= e -> e < ABITS -> (v = DumpRepaired \\/ s mod 16 = 0) -> e - s + 1 <= zlen data ->
  (forall a m, s <= a <= e -> seg_at rt a = Some m -> peek W m a st <> None) ->
  exists d st',
    ea_dump v W rt s e data st = Ok (e - s + 1, d) st' /\\
    zlen d = zlen data /\\
    (forall i, 0 <= i < e - s + 1 ->
       match seg_at rt (s + i) with
       | Some m => ea_read W rt (s + i) st = Ok (znth d i) (log_ev st (m, 0, s + i, 0))
       | None => znth d i = znth data i
       end) /\\
    (forall i, e - s + 1 <= i -> znth d i = znth data i) /\\
    stores st' = stores st /\\
    log st' = rev (dump_events rt s (Z.to_nat (e - s + 1))) ++ log st.
Proof. exact ea_dump_values. Qed.
(* the witness against today's loop *)
Theorem C13_dump_refuted_today :
  (forall a, 8 <= a <= 23 -> exists b st1, ea_read w2_world w2_rt a w2_state = Ok b st1) /\\
  exists st', ea_dump DumpCurrent w2_world w2_rt 8 23 (sentinel 16) w2_state = Panic st' /\\
              hd (0, 0, 0, 0) (log st') = (1, 0, 16, 0) /\\ last_cover w2_hist 16 = Some 2.
Proof. exact C13_dump_refuted. Qed.
(* EaRead24_wrap, the third read path: fails loudly before touching any memory when one of its three
   addresses is unattached; otherwise it is exactly three single EaReads (low, middle, high), and conversely *)
Theorem C13_read24_unattached_loud : forall W rt a st,
  seg_at rt (r24_addr a 0) = None \\/ seg_at rt (r24_addr a 1) = None \\/ seg_at rt (r24_addr a 2) = None ->
  ea_read24_wrap W rt a st = Panic st.
Proof. exact read24_unattached_loud. Qed.
Theorem C13_read24_three_reads : forall W rt a st ll mm hh s0 s1 s2,
  ea_read W rt (r24_addr a 0) st = Ok ll s0 ->
  ea_read W rt (r24_addr a 1) s0 = Ok mm s1 ->
  ea_read W rt (r24_addr a 2) s1 = Ok hh s2 ->
  ea_read24_wrap W rt a st = Ok (Z.lor (Z.lor (Z.shiftl hh 16) (Z.shiftl mm 8)) ll) s2.
Proof. exact read24_three_reads. Qed.
Theorem C13_read24_ok_inv : forall W rt a st v s2,
  ea_read24_wrap W rt a st = Ok v s2 ->
  exists ll mm hh s0 s1,
    ea_read W rt (r24_addr a 0) st = Ok ll s0 /\\
    ea_read W rt (r24_addr a 1) s0 = Ok mm s1 /\\
    ea_read W rt (r24_addr a 2) s1 = Ok hh s2 /\\
    v = Z.lor (Z.lor (Z.shiftl hh 16) (Z.shiftl mm 8)) ll.
Proof. exact read24_ok_inv. Qed.
(* the three addresses: same bank, offset + k modulo 2^16 (never the next bank), below 2^24 *)
Theorem C13_read24_addr : forall a k, 0 <= a < ABITS ->
  r24_addr a k = (a / 65536) * 65536 + (a mod 65536 + k) mod 65536.
Proof. exact r24_addr_arith. Qed.
(* after ANY history of Attach calls: the bytes come from the memories last attached over the three in-bank
   addresses, each handed its full address; one of them never attached: loud failure with nothing touched *)
Theorem C13_read24_after_history : forall W h a st,
  Forall call_wf h -> 0 <= a < ABITS ->
  ea_read24_wrap W (run_calls empty_rt h) a st =
  match last_cover h (r24_addr a 0), last_cover h (r24_addr a 1), last_cover h (r24_addr a 2) with
  | Some m0, Some m1, Some m2 =>
      match mem_read W m0 (r24_addr a 0) st with
      | Panic s0 => Panic s0
      | Ok ll s0 =>
          match mem_read W m1 (r24_addr a 1) s0 with
          | Panic s1 => Panic s1
          | Ok mm s1 =>
              match mem_read W m2 (r24_addr a 2) s1 with
              | Panic s2 => Panic s2
              | Ok hh s2 => Ok (Z.lor (Z.lor (Z.shiftl hh 16) (Z.shiftl mm 8)) ll) s2
              end
          end
      end
  | _, _, _ => Panic st
  end.
Proof. exact read24_after_history. Qed.
(* a successful write to a RAM is what the next read of that address returns, and no other cell of any memory changes *)
Theorem C13_write_then_read : forall W rt a v st st' m off,
  seg_at rt a = Some m -> W m = KRam off ->
  ea_write W rt a v st = Ok tt st' ->
  exists st'', ea_read W rt a st' = Ok v st''.
Proof. exact ea_write_then_read. Qed.
Theorem C13_write_frame : forall W rt a v st st' m off m' a',
  seg_at rt a = Some m -> W m = KRam off ->
  ea_write W rt a v st = Ok tt st' ->
  (m' <> m \\/ forall off', W m' = KRam off' \\/ W m' = KRom off' -> u32 (a' - off') <> u32 (a - off)) ->
  peek W m' a' st' = peek W m' a' st.
Proof. exact ea_write_frame. Qed.
Print Assumptions C13_attach_loop.
Print Assumptions C13_attach_misaligned.
Print Assumptions C13_attach_aligned_succeeds.
Print Assumptions C13_attach_exact_blocks.
Print Assumptions C13_attach_exact_addresses.
Print Assumptions C13_outside_unaffected.
Print Assumptions C13_attach_panics_iff.
Print Assumptions C13_route_history.
Print Assumptions C13_history_outcomes.
Print Assumptions C13_ea_read.
Print Assumptions C13_ea_write.
Print Assumptions C13_memory_receives_address.
Print Assumptions C13_memory_receives_write.
Print Assumptions C13_dump_bytewise.
Print Assumptions C13_dump.
Print Assumptions C13_dump_log.
Print Assumptions C13_dump_refuted_today.
Print Assumptions C13_read24_unattached_loud.
Print Assumptions C13_read24_three_reads.
Print Assumptions C13_read24_ok_inv.
Print Assumptions C13_read24_addr.
Print Assumptions C13_read24_after_history.
Print Assumptions C13_write_then_read.
Print Assumptions C13_write_frame.
"""

THEOREMS = [
    ("C13_attach_loop", "the Attach loop run literally = its closed form (forall rt m start end)"),
    ("C13_attach_misaligned", "misaligned Attach: error, routing unchanged"),
    ("C13_attach_aligned_succeeds", "aligned Attach with end < 2^24 returns nil"),
    ("C13_attach_exact_blocks", "Attach updates exactly the blocks of its range"),
    ("C13_attach_exact_addresses", "the same per address < 2^24"),
    ("C13_outside_unaffected", "addresses outside an attached range are unaffected"),
    ("C13_attach_panics_iff", "Attach panics iff its loop runs past the table"),
    ("C13_route_history", "any history: route = last aligned Attach covering the address (induction over the list)"),
    ("C13_history_outcomes", "with ends < 2^24 every call is nil-or-error, never a panic"),
    ("C13_ea_read", "EaRead after any history hands the unmodified address to that memory; Panic if unattached"),
    ("C13_ea_write", "EaWrite likewise"),
    ("C13_memory_receives_address", "the memory's log shows exactly (m, Read, a)"),
    ("C13_memory_receives_write", "the memory's log shows exactly (m, Write, a, v)"),
    ("C13_dump_bytewise", "EaDump = byte-wise loop (repaired: any start; today's loop: aligned start)"),
    ("C13_dump", "repaired EaDump after any history: returns end-start+1, data[i] = read(start+i) if attached, untouched otherwise"),
    ("C13_dump_log", "EaDump reads exactly the attached addresses, ascending, each once"),
    ("C13_dump_refuted_today", "witness: today's loop, EaDump(8,23) over two 16-byte RAMs panics in the first RAM at address 16"),
    ("C13_read24_unattached_loud", "EaRead24_wrap fails loudly, before any memory is touched, when one of its three addresses is unattached"),
    ("C13_read24_three_reads", "EaRead24_wrap = three single EaReads (low, middle, high; offset wraps inside the bank), little-endian"),
    ("C13_read24_ok_inv", "a successful EaRead24_wrap decomposes into three successful single EaReads"),
    ("C13_read24_addr", "for every a < 2^24 and every k: byte k of EaRead24_wrap sits at bank(a)*65536 + (offset(a)+k) mod 65536"),
    ("C13_write_then_read", "a successful EaWrite to a RAM is what the next EaRead of that address returns"),
    ("C13_write_frame", "a successful EaWrite changes what no memory answers at any other cell (other memory, or other index of the same slice)"),
    ("C13_read24_after_history", "after any Attach history EaRead24_wrap reads through the last covering memory of each of its three in-bank addresses, or fails loudly untouched"),
]

DATA_HDR = """(* generated by checks/bus.py from the observations of harness/bustool.go on the tree under test *)
From Coq Require Import ZArith List.
From Model Require Import Bus.
Import ListNotations.
Local Open Scope Z_scope.
Definition cases : list (Z * case) := [
"""

TIE_V = """From Coq Require Import ZArith List Bool.
From Model Require Import Bus.
From Run Require Import {data}.
Import ListNotations.
Local Open Scope Z_scope.
Definition bad := Eval vm_compute in map fst (filter (fun c => negb (agrees {variant} (snd c))) cases).
Print bad.
Lemma tie : bad = [].
Proof. reflexivity. Qed.
"""


def zl(xs):
    return "[" + ";".join(str(int(x)) for x in xs) + "]"


def gal_kind(m):
    if m["kind"] == "ram":
        return "KRam %d" % m.get("off", 0)
    if m["kind"] == "rom":
        return "KRom %d" % m.get("off", 0)
    return "KRec"


def gal_op(o):
    k = o["op"]
    if k == "attach":
        return "OpAttach %d %d %d %d" % (o.get("m", 0), o.get("s", 0), o.get("e", 0), o["obs"])
    if k == "read":
        return "OpRead %d (%d)" % (o.get("a", 0), o["obs"])
    if k == "read24":
        return "OpRead24 %d (%d)" % (o.get("a", 0), o["obs"])
    if k == "write":
        return "OpWrite %d %d (%d)" % (o.get("a", 0), o.get("v", 0), o["obs"])
    return "OpDump %d %d %d %d (%d) %d" % (o.get("s", 0), o.get("e", 0), o.get("sent", 0), o.get("len", 0),
                                           o["obs"], o.get("out", 0))


def gal_init(m):
    if m.get("data") is not None or not m.get("size"):
        return "Bytes %s" % zl(m.get("data") or [])
    return "Fill %d %d" % (m.get("seed", 0), m["size"])


def gal_world(mems):
    return "[" + ";".join("(%d,%s)" % (m["id"], gal_kind(m)) for m in mems) + "]"


def gal_inits(mems):
    return "[" + ";".join("(%d,%s)" % (m["id"], gal_init(m)) for m in mems if m["kind"] != "rec") + "]"


def gal_case(idx, c):
    ops = "[" + ";\n    ".join(gal_op(o) for o in c["ops"]) + "]"
    fin = "[" + ";".join("(%d,%d)" % (m["id"], m.get("dig", 0)) for m in (c.get("final") or [])) + "]"
    return "(%d, mkCase %s\n   %s\n   %s\n   %d %d %s)" % (idx, gal_world(c["mems"]), gal_inits(c["mems"]), ops,
                                                            c.get("logn", 0), c.get("log", 0), fin)


def parse_bad(out):
    m = re.search(r"bad\s*=\s*(\[[^\]]*\])", out)
    if not m:
        return None
    body = m.group(1).strip("[]").strip()
    if not body:
        return []
    return [int(x) for x in re.split(r"[;\s]+", body) if x.strip()]


DIAG_V = """From Coq Require Import ZArith List.
From Model Require Import Bus.
From Run Require Import {data}.
Import ListNotations.
Local Open Scope Z_scope.
Eval vm_compute in option_map (fun c => show_case {variant} (snd c)) (find (fun c => fst c =? {idx}) cases).
"""


def diagnose(variant, idx, case, tag="Diag_C13"):
    """What the model does on one case next to what the compiled code did (text)."""
    dv = os.path.join(vlib.RUN, tag + ".v")
    vlib.write_if_changed(dv, DIAG_V.format(data="Cases_C13_%d" % (idx // SHARD), variant=variant, idx=idx))
    rc, out, _, _ = vlib.coqc(dv, timeout=300)
    model = re.sub(r"\s+", " ", out[out.find("="):] if "=" in out else out)
    obs = [(o["op"], o["obs"]) for o in case["ops"]]
    return "case %s: compiled code observed (op, outcome) %s, log of %d events; model %s (per op: outcome, data after a dump; then the log): %s" % (
        case["name"], obs, case.get("logn", 0), variant, model[:1200])


def tie_variant(variant, shards):
    """Compile the tie lemma of every shard for one EaDump variant. Returns (ok, bad case indices, log, secs)."""
    def job(k):
        tv = os.path.join(vlib.RUN, "Tie_C13_%s_%d.v" % (variant, k))
        vlib.write_if_changed(tv, TIE_V.format(data="Cases_C13_%d" % k, variant=variant))
        return vlib.coqc(tv, timeout=900)
    res = vlib.parallel([(lambda k=k: job(k)) for k in range(len(shards))])
    ok, bad, logs, secs = True, [], [], 0.0
    for (rc, out, dt, cached) in res:
        secs += dt
        b = parse_bad(out)
        if rc != 0:
            ok = False
            if b:
                bad += b
            else:
                logs.append(out[-600:])
    return ok, bad, "\n".join(logs), secs


def run_falsifier(harness, ck):
    rc, out, dt = vlib.sh([harness, "buscheck", str(ck.seed), ck.tier], timeout=1500)
    fails, evals = [], {}
    for line in out.splitlines():
        m = re.match(r"FAIL (\S+) key=(\S+) count=(\d+) input=(\{.*\}) detail=(.*)$", line)
        if m:
            fails.append({"clause": m.group(1), "key": m.group(2), "count": int(m.group(3)),
                          "scenario": json.loads(m.group(4)), "detail": m.group(5)})
        m = re.match(r"EVAL (\S+) (\d+)", line)
        if m:
            evals[m.group(1)] = int(m.group(2))
    if rc not in (0, 1) or not evals:
        return None, evals, out[-800:]
    return fails, evals, out


def run_c13(ck):
    ck.trusted = [
        "Coq 8.16.1 kernel incl. its bytecode VM (vm_compute); no axioms (Print Assumptions: closed under the global context)",
        "hand-written model coq/Model/Bus.v of bus.go Attach/EaRead/EaWrite/EaDump and memory RAM/ROM; its agreement with the compiled code is "
        "differential: every generated case is checked by the kernel (Lemma tie), the input distribution is in this file",
        "harness/bustool.go: instrumented Memory wrappers (record every address/value, delegate to memory.RAM / *memory.ROM), recover() around each call",
        "the statements in coq/Props/BusProps.v (call_wf, alignedb, covers, last_cover, dump_bytes) as the reading of C13; "
        "interpretation: addresses < 2^24, start <= end, data long enough, an Attach running past the table is a panic",
        "modelled, not verified: Go uint32 arithmetic, slice indexing, interface nil test, order of evaluation in `data[i] = s.Read(a)`",
    ]
    os.makedirs(vlib.RUN, exist_ok=True)
    harness, herr = vlib.build_harness()
    if harness is None:
        ck.oblige("build Go harness against the tree under test", False, herr)

    # 1. static theorems, restated on this run
    pv = os.path.join(vlib.RUN, "C13_props.v")
    vlib.write_if_changed(pv, PROP_V)
    fresh = vlib.static_vo_fresh(pv)
    ck.oblige("static library fresh: Model/Bus.vo, Props/BusProps.vo newer than their sources (./check --setup)", fresh,
              "run ./check --setup")
    rc, out, dt, cached = vlib.coqc(pv, timeout=900) if fresh else (1, "static .vo stale", 0, False)
    for (name, what) in THEOREMS:
        ck.oblige("Theorem %s (%s)" % (name, what), rc == 0, out)
    if rc == 0:
        ck.assumptions += vlib.parse_assumptions(out)
    bad_ax = vlib.foreign_assumptions(ck.assumptions)
    ck.oblige("Print Assumptions: every C13 theorem is closed under the global context", rc == 0 and not bad_ax,
              "unexpected: %s" % bad_ax)
    src = open(os.path.join(vlib.COQ, "Props", "BusProps.v")).read() + open(os.path.join(vlib.COQ, "Model", "Bus.v")).read()
    hyg = re.findall(r"\b(Axiom|Parameter|Conjecture|Admitted|admit|Variable|Unset Guard Checking)\b", src)
    ck.oblige("hygiene grep over Model/Bus.v and Props/BusProps.v", not hyg, "found: %s" % hyg)
    theorems_ok = all(o["discharged"] for o in ck.obligations)

    # 2. tie: cases run on the real code, agreement checked by the kernel
    cases, variant, tie_ok, tie_case = [], None, False, None
    feat_count, distinct = {}, set()
    nops = 0
    tie_detail = "harness unavailable"
    if harness:
        rc_c, out_c, dt_c = vlib.sh([harness, "buscases", str(ck.seed), ck.tier, CORPUS], timeout=900)
        for line in out_c.splitlines():
            if line.startswith("{"):
                cases.append(json.loads(line))
        if rc_c != 0 or not cases:
            tie_detail = "buscases failed: " + out_c[-600:]
        else:
            for c in cases:
                nops += len(c["ops"])
                key = hashlib.sha256(json.dumps([c["mems"], c["ops"]], sort_keys=True).encode()).hexdigest()
                nontrivial = [f for f in c["feat"] if f not in ("read-ok", "write-ok", "dump-aligned-start")]
                if nontrivial:
                    distinct.add(key)
                for f in c["feat"]:
                    feat_count[f] = feat_count.get(f, 0) + 1
            shards = [cases[i:i + SHARD] for i in range(0, len(cases), SHARD)]
            def data_job(k):
                dv = os.path.join(vlib.RUN, "Cases_C13_%d.v" % k)
                body = ";\n".join(gal_case(k * SHARD + j, c) for j, c in enumerate(shards[k]))
                vlib.write_if_changed(dv, DATA_HDR + body + "\n].\n")
                return vlib.coqc(dv, timeout=900)
            dres = vlib.parallel([(lambda k=k: data_job(k)) for k in range(len(shards))])
            dfail = [o[-400:] for (r, o, _, _) in dres if r != 0]
            if dfail:
                tie_detail = "case data does not type-check: " + dfail[0]
            else:
                # the corpus witness says which variant to try first; the verdict is the kernel's
                first = cases[0]
                wd = [o for o in first["ops"] if o["op"] == "dump"]
                order = ["DumpCurrent", "DumpRepaired"] if (wd and wd[0]["obs"] == -1) else ["DumpRepaired", "DumpCurrent"]
                results = {}
                for v in order:
                    results[v] = tie_variant(v, shards)
                    if results[v][0]:
                        variant = v
                        break
                ck.cov["tie_seconds"] = round(sum(r[3] for r in results.values()) + sum(d[2] for d in dres), 1)
                if variant:
                    tie_ok = True
                    tie_detail = "all %d cases agree with the model (EaDump variant %s)" % (len(cases), variant)
                else:
                    best = min(results, key=lambda v: len(results[v][1]) if results[v][1] else 10 ** 9)
                    names = [cases[i]["name"] for i in results[best][1][:8]]
                    tie_detail = "no variant of the model agrees with the compiled code; closest %s, disagreeing cases: %s %s" % (
                        best, names, results[best][2])
                    if results[best][1]:
                        i0 = results[best][1][0]
                        tie_case = {"variant": best, "case": {k: cases[i0][k] for k in ("name", "mems", "ops")},
                                    "explanation": diagnose(best, i0, cases[i0])}
                        tie_detail += " | " + tie_case["explanation"]
                    ck.cov["tie_disagreeing_cases"] = {v: [cases[i]["name"] for i in r[1][:20]] for v, r in results.items()}
    ck.oblige("tie: compiled bus/memory code = Model/Bus.v on every generated case (Lemma tie in Run/Tie_C13_*.v, by the kernel)",
              tie_ok, tie_detail)
    # the EaDump theorems are about the repaired loop; which loop the tree has is decided by the tie
    dump_ok = ck.oblige("EaDump clause applies: the tree's EaDump is the loop the theorems C13_dump / C13_dump_log are about "
                        "(per-segment counter starts at a & 0xf)", variant == "DumpRepaired",
                        "the compiled EaDump agrees with the model variant %s; C13_dump_refuted_today is a witness against the clause for it"
                        % variant if variant else tie_detail)
    ck.cov["eadump_variant"] = variant

    # 3. falsifier on the real code (always)
    fails, evals, fout = (None, {}, "harness unavailable")
    if harness:
        fails, evals, fout = run_falsifier(harness, ck)
    if fails is None:
        ck.oblige("falsifier ran", False, fout)
        fails = []
    for f in fails:
        ck.violation(f["key"], "counterexample", "%s (%d failing scenarios; first/minimal shown): %s" % (f["clause"], f["count"], f["detail"]),
                     {"clause": f["clause"], "scenario": f["scenario"], "observed": f["detail"]})
    if not (theorems_ok and tie_ok and dump_ok) and not fails:
        broken = [o["name"] for o in ck.obligations if not o["discharged"]]
        kind = "broken-correspondence" if (theorems_ok and not tie_ok) or (theorems_ok and not dump_ok) else "broken-theorem"
        ck.violation("obligation", kind, "Go falsifier found no failing input; broken: " + "; ".join(broken),
                     {"broken_obligations": broken, "tie": tie_detail, "disagreeing_case": tie_case})
    if fails and tie_ok and variant == "DumpRepaired":
        ck.cov["note"] = "falsifier found a counterexample although proofs and tie passed: the model or the tie generator misses it"

    ck.cov.update({
        "evaluations": len(cases) + sum(evals.values()),
        "distinct_nontrivial": len(distinct),
        "rule": "tie cases = corpus/C13 first, then 192 systematic cases (6 layouts x every start 0..31 x end classes), then seeded random "
                "histories (overlap/adjacent/re-attach/misaligned/empty/panicking Attach; probes at block edges and unattached addresses; dumps of "
                "every alignment straddling memories and holes; malformed: beyond the table, data too short). distinct_nontrivial = distinct "
                "(memories, script) pairs, by sha256, whose feature vector has a feature other than read-ok/write-ok/dump-aligned-start. "
                "evaluations = tie cases + falsifier probes",
        "checker_cmd": "coqc -Q coq/Lib Lib -Q coq/Props Props -Q coq/Model Model -Q build/work/Run Run build/work/Run/C13_props.v ; "
                       "build/work/Run/Cases_C13_<k>.v ; build/work/Run/Tie_C13_<variant>_<k>.v",
        "traces_validated_against_impl": len(cases) if tie_ok else 0,
        "operations_validated_against_impl": nops if tie_ok else 0,
        "case_features": feat_count,
        "falsifier_evaluations": evals,
        "falsifier_failures": [{"key": f["key"], "count": f["count"]} for f in fails],
        "modelled": "emulator/bus/bus.go Attach, EaRead, EaWrite, EaDump; emulator/memory/ram.go and rom.go Read/Write (hand-written, tied per run)",
        "exhaustive": False,
    })
    ck.sample({"theorem": "C13_route_history", "statement": "forall h a, Forall call_wf h -> 0 <= a < 2^24 -> seg_at (run_calls empty_rt h) a = last_cover h a"})
    ck.sample({"theorem": "C13_dump", "statement": "forall W h s e data st, ... -> exists d st', ea_dump DumpRepaired W (run_calls empty_rt h) s e data st = Ok (e-s+1, d) st' /\\ ... (see obligation list / Run/C13_props.v)"})
    for c in cases[:1] + cases[200:202]:
        ck.sample({"case": c["name"], "mems": [{k: v for k, v in m.items() if k != "data"} for m in c["mems"]],
                   "ops": c["ops"][:6], "features": c["feat"]})
    for f in fails[:2]:
        ck.sample({"counterexample": f["scenario"], "detail": f["detail"]})


REPLAY_V = """From Coq Require Import ZArith List.
From Lib Require Import ZList.
From Model Require Import Bus.
Import ListNotations.
Local Open Scope Z_scope.
Definition W := world_of {world}.
Definition st0 := mkState [] (map (fun p => (fst p, init_bytes (snd p))) {init}).
Definition rt := fold_left (fun rt c => let '(m, s, e) := c in attach_rt rt m s e) {hist} empty_rt.
Definition show {{A}} (r : res A) : option A * list event := match r with Ok a s => (Some a, rev (log s)) | Panic s => (None, rev (log s)) end.
{body}
"""


def replay(pid, rp):
    """Re-run one falsifier scenario on the current tree (Go) and in the model (Coq, both EaDump variants)."""
    r = rp.get("replay", rp)
    harness, herr = vlib.build_harness()
    if harness is None:
        print(herr)
        return 1
    sc = r.get("scenario")
    if not sc and r.get("disagreeing_case"):
        # a model/code disagreement: re-run the case on this tree and ask the kernel again, both variants
        dc = r["disagreeing_case"]
        rc, out, _ = vlib.sh([harness, "buscase", json.dumps(dc["case"])], timeout=300)
        if rc != 0:
            print(out)
            return 1
        c = json.loads(out.strip().splitlines()[-1])
        os.makedirs(vlib.RUN, exist_ok=True)
        dv = os.path.join(vlib.RUN, "Cases_C13_9999.v")
        vlib.write_if_changed(dv, DATA_HDR + gal_case(9999 * SHARD, c) + "\n].\n")
        vlib.coqc(dv, timeout=300)
        agree = []
        for v in ("DumpRepaired", "DumpCurrent"):
            tv = os.path.join(vlib.RUN, "Tie_C13_%s_9999.v" % v)
            vlib.write_if_changed(tv, TIE_V.format(data="Cases_C13_9999", variant=v))
            rc2, out2, _, _ = vlib.coqc(tv, timeout=300)
            print("model variant %s: %s" % (v, "agrees with the compiled code on this case" if rc2 == 0 else "DISAGREES"))
            if rc2 == 0:
                agree.append(v)
            else:
                print(diagnose(v, 9999 * SHARD, c, "Diag_C13_replay"))
        return 0 if "DumpRepaired" in agree else 1
    if not sc:
        print("replay file carries neither a scenario nor a disagreeing case:", json.dumps(r)[:500])
        return 1
    rc, out, _ = vlib.sh([harness, "busreplay", json.dumps(sc)], timeout=300)
    print(out.strip())
    p = sc["probe"]
    world = gal_world(sc["mems"])
    init = gal_inits(sc["mems"])
    hist = "[" + ";".join("(%d,%d,%d)" % tuple(h) for h in sc["hist"]) + "]"
    if p["op"] == "dump":
        body = "\n".join("Eval vm_compute in show (ea_dump %s W rt %d %d (repeat %d %d%%nat) st0)." %
                         (v, p.get("s", 0), p.get("e", 0), p.get("sent", 0), p.get("len", 0)) for v in ("DumpCurrent", "DumpRepaired"))
    elif p["op"] == "read":
        body = "Eval vm_compute in show (ea_read W rt %d st0)." % p.get("a", 0)
    elif p["op"] == "write":
        body = "Eval vm_compute in show (ea_write W rt %d %d st0)." % (p.get("a", 0), p.get("v", 0))
    else:
        body = "Eval vm_compute in map (seg_at rt) %s." % zl(sorted(set(x for h in sc["hist"] for x in (h[1], h[2]))))
    os.makedirs(vlib.RUN, exist_ok=True)
    rv = os.path.join(vlib.RUN, "Replay_C13.v")
    vlib.write_if_changed(rv, REPLAY_V.format(world=world, init=init, hist=hist, body=body))
    rc2, out2, _, _ = vlib.coqc(rv, timeout=300)
    print("model (Model/Bus.v; for a dump: DumpCurrent then DumpRepaired; (Some result | None = Panic, reads/writes the memories received)):")
    print(out2.strip()[-3000:])
    return 1 if rc != 0 else 0
