package main

// Falsifier of the callbacks clause of C12, stated directly on the two real interpreters (no model):
//
//	one Step from a generated state (pending NMI / IRQ in most cases, OnPC registered on a random subset of the
//	candidate fetch addresses: the old PBR:PC, the interrupt vector targets, a random address; OnWDM registered or not).
//	With a := PRK<<16|PPC after the step, the recorded event list must split as
//	    tA ++ [OnPC(a) iff registered at a] ++ [read a -> opcode] ++ tC
//	where tA has no callback; for opcode $42 tC = [read PRK:(PPC+1) -> v] ++ [OnWDM(v) iff registered] and cpu.WDM = v;
//	for every other opcode tC has no callback.
//
// Output: "FAIL C12 cb ..." lines (first five), "STAT cb_*" counters.  -case k prints case k only (replay).

import (
	"flag"
	"fmt"
	"strings"
)

func cbIdx(names []string, n string) int {
	for i, x := range names {
		if x == n {
			return i
		}
	}
	return -1
}

func cbEvString(tr []cpuEv) string {
	var sb strings.Builder
	for _, e := range tr {
		switch {
		case e.kind == 'P':
			fmt.Fprintf(&sb, " OnPC(%06x)", e.a)
		case e.kind == 'D':
			fmt.Fprintf(&sb, " OnWDM(%02x)", e.v)
		case e.w:
			fmt.Fprintf(&sb, " W:%06x=%02x", e.a, e.v)
		default:
			fmt.Fprintf(&sb, " R:%06x=%02x", e.a, e.v)
		}
	}
	return sb.String()
}

// cbClause decides the clause for one step; "" = holds
func cbClause(tr []cpuEv, a, a1 uint32, reg map[uint32]bool, onwdm bool, wdmField byte) string {
	why := "no event is a read of the fetch address PRK:PPC"
	located := false // some split has the quiet prefix, the OnPC callback iff registered, and the fetch from a
	for i := 0; i <= len(tr); i++ {
		if i > 0 && tr[i-1].kind != 0 {
			break // a callback inside the candidate interrupt-entry prefix: no later split can work either
		}
		j := i
		if reg[a] {
			if j >= len(tr) || tr[j].kind != 'P' || tr[j].a != a {
				continue
			}
			j++
		}
		if j >= len(tr) || tr[j].kind != 0 || tr[j].w || tr[j].a != a {
			continue
		}
		op := tr[j].v
		rest := tr[j+1:]
		located = true
		if op == 0x42 {
			want := 1
			if onwdm {
				want = 2
			}
			if len(rest) != want || rest[0].kind != 0 || rest[0].w || rest[0].a != a1 {
				why = fmt.Sprintf("opcode $42 fetched at event %d, but the rest is not [read of the operand at %06x%s]", j, a1, map[bool]string{true: ", OnWDM", false: ""}[onwdm])
				continue
			}
			v := rest[0].v
			if onwdm && (rest[1].kind != 'D' || rest[1].v != v) {
				why = fmt.Sprintf("OnWDM did not receive the operand byte %02x read at %06x", v, a1)
				continue
			}
			if wdmField != v {
				why = fmt.Sprintf("cpu.WDM = %02x, operand byte %02x", wdmField, v)
				continue
			}
			return ""
		}
		ok := true
		for _, e := range rest {
			if e.kind != 0 {
				ok = false
				why = fmt.Sprintf("opcode %02x fetched at event %d, a callback ran afterwards", op, j)
			}
		}
		if ok {
			return ""
		}
	}
	if located {
		return why
	}
	if reg[a] {
		n := 0
		for _, e := range tr {
			if e.kind == 'P' && e.a == a {
				n++
			}
		}
		if n != 1 {
			return fmt.Sprintf("OnPC registered at the fetch address %06x ran %d times", a, n)
		}
		return "OnPC(" + fmt.Sprintf("%06x", a) + ") is not immediately before the opcode fetch from that address, after every other event of interrupt entry: " + why
	}
	for _, e := range tr {
		if e.kind == 'P' {
			return fmt.Sprintf("OnPC(%06x) ran although the opcode was fetched from %06x", e.a, a)
		}
	}
	return why
}

func cbClauseCmd(args []string) int {
	fs := flag.NewFlagSet("cbclause", flag.ExitOnError)
	seed := fs.Uint64("seed", 1, "")
	n := fs.Int("n", 2000, "cases")
	only := fs.Int("case", -1, "print this case only")
	fieldsArg := fs.String("fields", "", "comma-separated flattened field names in model index order")
	fs.Parse(args)
	names := strings.Split(*fieldsArg, ",")
	iPRK, iPPC, iWDM, iInt, iPC, iRK := cbIdx(names, "PRK"), cbIdx(names, "PPC"), cbIdx(names, "WDM"), cbIdx(names, "Interrupt"), cbIdx(names, "PC"), cbIdx(names, "RK")
	if iPRK < 0 || iPPC < 0 || iWDM < 0 || iInt < 0 || iPC < 0 || iRK < 0 {
		fmt.Println("FAIL C12 cb: the CPU has no PRK / PPC / WDM / Interrupt / PC / RK field")
		return 0
	}
	rng := &cpuRng{s: *seed*0x9E3779B97F4A7C15 + 0x7654321}
	r65, rAlt := newRun65(), newRunAlt()
	fails := 0
	stats := map[string]int{}
	for id := 0; id < *n; id++ {
		op := -1
		switch rng.n(4) {
		case 0:
			op = 0x42
		case 1:
			op = rng.n(256)
		}
		c := genCase(rng, id, op, names, false)
		c.steps = 1 + rng.n(3)
		// pending interrupt in two of three cases
		pend := uint64(rng.pick(1, 2, 3, 2, 3, 3))
		c.regs[iInt] = pend
		rk, pc := uint32(c.regs[iRK]), uint32(c.regs[iPC])
		// vectors: IRQ $00FFEE (bank becomes 0), NMI $00FFEA (bank kept)
		irqT, nmiT := uint32(rng.v16()), uint32(rng.v16())
		c.mem[0xFFEE], c.mem[0xFFEF] = byte(irqT), byte(irqT>>8)
		c.mem[0xFFEA], c.mem[0xFFEB] = byte(nmiT), byte(nmiT>>8)
		cands := []uint32{rk<<16 | pc, irqT, rk<<16 | nmiT, uint32(rng.next() & 0xFFFFFF), rk<<16 | (pc+1)&0xFFFF}
		// the instruction found after the interrupt: WDM in half of the cases
		for _, t := range cands[1:3] {
			if rng.n(2) == 0 {
				c.mem[t] = 0x42
			}
		}
		c.onpc = nil
		reg := map[uint32]bool{}
		for _, a := range cands {
			if rng.n(2) == 0 && !reg[a] {
				reg[a] = true
				c.onpc = append(c.onpc, a)
			}
		}
		c.onwdm = rng.n(2) == 0
		for which, rs := range [][]cpuStepRes{r65.run(&c, names), rAlt.run(&c, names)} {
			for i, s := range rs {
				if s.panicked {
					stats["cb_panic"]++
					break
				}
				a := uint32(s.regs[iPRK])<<16 | uint32(s.regs[iPPC])
				a1 := uint32(s.regs[iPRK])<<16 | (uint32(s.regs[iPPC])+1)&0xFFFF
				stats["cb_steps"]++
				if reg[a] {
					stats["cb_registered_at_fetch"]++
				}
				if i == 0 && pend != 1 {
					stats["cb_pending"]++
					if reg[a] {
						stats["cb_pending_registered_at_fetch"]++
					}
				}
				bad := cbClause(s.trace, a, a1, reg, c.onwdm, byte(s.regs[iWDM]))
				if len(s.trace) > 0 && s.trace[len(s.trace)-1].kind == 'D' {
					stats["cb_onwdm_ran"]++
				}
				if *only >= 0 && *only != id {
					continue
				}
				if bad != "" || *only == id {
					if bad != "" {
						fails++
					}
					if fails <= 5 || *only == id {
						verdict := "FAIL C12 cb"
						if bad == "" {
							verdict = "PASS C12 cb"
						}
						fmt.Printf("%s case=%d step=%d interp=%s pending=%d PBR:PC=%02x:%04x onpc=%06x onwdm=%v fetch=%06x: %s\n  events:%s\n",
							verdict, id, i, []string{"cpu65c816", "cpualt"}[which], pend, rk, pc, c.onpc, c.onwdm, a, bad, cbEvString(s.trace))
					}
					if bad != "" {
						break
					}
				}
			}
		}
	}
	fmt.Printf("STAT cb_cases %d\nSTAT cb_fails %d\n", *n, fails)
	for _, k := range []string{"cb_steps", "cb_pending", "cb_registered_at_fetch", "cb_pending_registered_at_fetch", "cb_onwdm_ran", "cb_panic"} {
		fmt.Printf("STAT %s %d\n", k, stats[k])
	}
	return 0
}

func init() {
	commands["cbclause"] = cbClauseCmd
}
