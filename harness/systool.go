package main

// C11: observation of the REAL emulator.System memory map (tie) and the property stated directly
// against it with lorom.BusAddressToPak as the only oracle (falsifier).  No model in this file.
//
//   sysprobe [quick|thorough]   probe all 2^24 addresses of a System built by CreateEmulator:
//                               which byte of which backing array (ROM/SRAM/WRAM) is behind each address,
//                               or I/O, or nothing (the access panics); per-bank digests of that table;
//                               write probe; then the C11 clauses against lorom.BusAddressToPak.
//   syseval <hex>...            the same observations for single addresses (replay)

import (
	"bytes"
	"fmt"
	"os"
	"strconv"
	"strings"

	"github.com/alttpo/snes/emulator"
	"github.com/alttpo/snes/mapping/lorom"
)

// observed backing of one address; the same encoding as Model.System.enc_cell
const (
	obsNone    = uint64(0) // access panics
	obsIO      = uint64(1) // backed, but not by a byte of ROM/SRAM/WRAM
	obsErratic = uint64(2) // panics in some rounds only (never expected)
)

func obsCell(c int, o uint32) uint64 { return uint64(c)<<28 | uint64(o) }
func isCell(x uint64) bool           { return x >= 1<<28 }
func cellOf(x uint64) (int, uint32)  { return int(x >> 28), uint32(x & (1<<28 - 1)) }

var clsName = []string{"?", "ROM", "SRAM", "WRAM"}

func obsString(x uint64) string {
	switch {
	case x == obsNone:
		return "none(panics)"
	case x == obsIO:
		return "io"
	case x == obsErratic:
		return "erratic"
	}
	c, o := cellOf(x)
	return fmt.Sprintf("%s[%06x]", clsName[c], o)
}

type sysUnderTest struct {
	s           *emulator.System
	arr         [4][]byte // 1 ROM, 2 SRAM, 3 WRAM (slices of the System's own arrays)
	createErr   error
	createPanic interface{}
	seed        uint64
}

func newSys() *sysUnderTest {
	u := &sysUnderTest{s: new(emulator.System)}
	func() {
		defer func() { u.createPanic = recover() }()
		u.createErr = u.s.CreateEmulator()
	}()
	u.arr[1] = u.s.ROM[:]
	u.arr[2] = u.s.SRAM[:]
	u.arr[3] = u.s.WRAM[:]
	u.seed, _ = strconv.ParseUint(os.Getenv("VERIF_SEED"), 10, 64)
	if u.seed == 0 {
		u.seed = 1
	}
	return u
}

func (u *sysUnderTest) read(n uint32) (v byte, ok bool) {
	defer func() {
		if recover() != nil {
			ok = false
		}
	}()
	return u.s.Bus.EaRead(n), true
}

func (u *sysUnderTest) write(n uint32, v byte) (ok bool) {
	defer func() {
		if recover() != nil {
			ok = false
		}
	}()
	u.s.Bus.EaWrite(n, v)
	return true
}

// byte r of the 32-bit word class<<24 | index
func (u *sysUnderTest) fillEnc(r uint) {
	for c := 1; c <= 3; c++ {
		a := u.arr[c]
		for i := range a {
			a[i] = byte((uint32(c)<<24 | uint32(i)) >> (8 * r))
		}
	}
}

// pseudo-random contents, values 0..253 only (254/255 are reserved for probe writes)
func pat(seed uint64, c int, i int) byte {
	x := seed*0x9E3779B97F4A7C15 + uint64(c)<<32 + uint64(i)
	x ^= x >> 29
	x *= 0xBF58476D1CE4E5B9
	x ^= x >> 32
	return byte(x % 254)
}

func (u *sysUnderTest) fillPat(salt uint64) {
	for c := 1; c <= 3; c++ {
		a := u.arr[c]
		for i := range a {
			a[i] = pat(u.seed+salt, c, i)
		}
	}
}

// observe: for each address, which cell do reads come from.  Four rounds with the arrays holding byte r of
// (class, index) recover a candidate; a fifth round with unrelated contents confirms that the address
// really follows that array byte.
func (u *sysUnderTest) observe(addrs []uint32) []uint64 {
	count := 1 << 24
	if addrs != nil {
		count = len(addrs)
	}
	at := func(i int) uint32 {
		if addrs != nil {
			return addrs[i]
		}
		return uint32(i)
	}
	dec := make([]uint32, count)
	pan := make([]uint8, count)
	for r := uint(0); r < 4; r++ {
		u.fillEnc(r)
		for i := 0; i < count; i++ {
			v, ok := u.read(at(i))
			if !ok {
				pan[i] |= 1 << r
			} else {
				dec[i] |= uint32(v) << (8 * r)
			}
		}
	}
	u.fillPat(0)
	obs := make([]uint64, count)
	for i := 0; i < count; i++ {
		v, ok := u.read(at(i))
		switch {
		case pan[i] == 0xF && !ok:
			obs[i] = obsNone
		case pan[i] != 0 || !ok:
			obs[i] = obsErratic
		default:
			c, o := int(dec[i]>>24), dec[i]&0xFFFFFF
			if c >= 1 && c <= 3 && int(o) < len(u.arr[c]) && u.arr[c][o] == v {
				obs[i] = obsCell(c, o)
			} else {
				obs[i] = obsIO
			}
		}
	}
	return obs
}

// the cell a pak address designates (ROM p < $E00000; SRAM $E00000+o; WRAM $F50000+o, o < $20000),
// limited to the emulator's array sizes: beyond them there is no such byte
func (u *sysUnderTest) pakCell(p uint32) (uint64, bool) {
	c, o := 0, uint32(0)
	switch {
	case p < 0xE00000:
		c, o = 1, p
	case p < 0xF00000:
		c, o = 2, p-0xE00000
	case p >= 0xF50000 && p < 0xF70000:
		c, o = 3, p-0xF50000
	default:
		return 0, false
	}
	return obsCell(c, o), true
}

func (u *sysUnderTest) inArray(x uint64) bool {
	c, o := cellOf(x)
	return c >= 1 && c <= 3 && int(o) < len(u.arr[c])
}

type writeResult struct {
	n        uint32
	panicked bool
	hits     []uint64 // array cells that changed
}

// writeProbe: with the arrays holding a reference pattern (values 0..253) write 254/255 through the bus at the
// sampled addresses; find every array byte that changed (candidates first, then a full comparison per bank).
func (u *sysUnderTest) writeProbe(obs []uint64, samples func(bank uint32) []uint32, each func(w writeResult)) int {
	u.fillPat(1)
	var ref [4][]byte
	for c := 1; c <= 3; c++ {
		ref[c] = append([]byte(nil), u.arr[c]...)
	}
	total := 0
	restoreAll := func() {
		for c := 1; c <= 3; c++ {
			copy(u.arr[c], ref[c])
		}
	}
	// one write; which of the candidate bytes (the cell reads come from, the cell lorom designates, the
	// watched bytes) changed?  Every changed candidate is put back.
	one := func(n uint32, v byte, watch []uint64) writeResult {
		w := writeResult{n: n}
		w.panicked = !u.write(n, v)
		check := func(x uint64) {
			c, o := cellOf(x)
			if u.arr[c][o] != ref[c][o] {
				u.arr[c][o] = ref[c][o]
				for _, h := range w.hits {
					if h == x {
						return
					}
				}
				w.hits = append(w.hits, x)
			}
		}
		if isCell(obs[n]) {
			check(obs[n])
		}
		if p, err := lorom.BusAddressToPak(n); err == nil {
			if e, ok := u.pakCell(p); ok && u.inArray(e) {
				check(e)
			}
		}
		for _, x := range watch {
			check(x)
		}
		return w
	}
	// every array byte that differs from the reference (at most limit of them)
	strays := func(limit int) []uint64 {
		var d []uint64
		for c := 1; c <= 3; c++ {
			if bytes.Equal(u.arr[c], ref[c]) {
				continue
			}
			for i := range ref[c] {
				if u.arr[c][i] != ref[c][i] && len(d) < limit {
					d = append(d, obsCell(c, uint32(i)))
				}
			}
		}
		return d
	}
	for bank := uint32(0); bank < 256; bank++ {
		ss := samples(bank)
		res := make([]writeResult, len(ss))
		for i, n := range ss {
			res[i] = one(n, byte(254+(n&1)), nil)
		}
		total += len(ss)
		// did anything else change?  (a write that went to a byte outside its candidates)  Then repeat this
		// bank's writes watching those bytes, to attribute each to the address that writes it.
		if d := strays(1024); len(d) > 0 {
			restoreAll()
			for i, n := range ss {
				w := one(n, byte(254+(n&1)), d)
				for _, h := range w.hits {
					known := false
					for _, g := range res[i].hits {
						known = known || g == h
					}
					if !known {
						res[i].hits = append(res[i].hits, h)
					}
				}
			}
			restoreAll()
		}
		for _, w := range res {
			each(w)
		}
	}
	return total
}

func sampler(tier string, seed uint64) func(bank uint32) []uint32 {
	return func(bank uint32) []uint32 {
		var ss []uint32
		if tier == "thorough" {
			for o := uint32(0); o < 65536; o++ {
				ss = append(ss, bank<<16|o)
			}
			return ss
		}
		// every 16-byte bus segment: both edges and one interior byte
		for blk := uint32(0); blk < 4096; blk++ {
			base := bank<<16 | blk<<4
			in := 1 + uint32(pat(seed, int(bank), int(blk)))%14
			ss = append(ss, base, base+in, base+15)
		}
		return ss
	}
}

type clauseAcc struct {
	id    string
	count int
	first string
	fails int
}

func (c *clauseAcc) ok() { c.count++ }
func (c *clauseAcc) fail(n uint32, format string, a ...interface{}) {
	c.fails++
	if c.first == "" {
		c.first = fmt.Sprintf("FAIL %s input=%06x %s", c.id, n, fmt.Sprintf(format, a...))
	}
}
func (c *clauseAcc) print() {
	if c.first != "" {
		fmt.Printf("%s (%d failing addresses)\n", c.first, c.fails)
	} else {
		fmt.Printf("OK %s %d\n", c.id, c.count)
	}
}

func sysProbe(tier string) int {
	u := newSys()
	fmt.Printf("create err=%v panic=%v\n", u.createErr, u.createPanic)
	obs := u.observe(nil)

	// ---- tie output: digests of the observed table, bank by bank ----
	var sb strings.Builder
	for b := 0; b < 256; b++ {
		h := uint64(0)
		for o := 0; o < 65536; o++ {
			h = mix(h, obs[b<<16|o])
		}
		fmt.Fprintf(&sb, " %d", h)
	}
	fmt.Println("cells" + sb.String())
	var st [6]int
	for _, x := range obs {
		switch {
		case isCell(x):
			c, _ := cellOf(x)
			st[2+c]++
		default:
			st[x]++
		}
	}
	fmt.Printf("stats none=%d io=%d erratic=%d rom=%d sram=%d wram=%d\n", st[0], st[1], st[2], st[3], st[4], st[5])
	// a compact run-length description of the observed map, one line per change of kind (for the evidence)
	fmt.Println("map " + describe(obs))

	// ---- falsifier: the property against lorom.BusAddressToPak, read side, all 2^24 addresses ----
	agree := &clauseAcc{id: "C11.read_agree"}
	foreign := &clauseAcc{id: "C11.foreign_backing"}
	ioOver := &clauseAcc{id: "C11.io_over_mapped"}
	mRom := &clauseAcc{id: "C11.mirror_rom"}
	mWram := &clauseAcc{id: "C11.mirror_wram"}
	mSram := &clauseAcc{id: "C11.mirror_sram"}
	for i := 0; i < 1<<24; i++ {
		n := uint32(i)
		p, err := lorom.BusAddressToPak(n)
		e, eok := uint64(0), false
		if err == nil {
			e, eok = u.pakCell(p)
		}
		x := obs[n]
		switch {
		case isCell(x) && eok:
			if x != e {
				agree.fail(n, "reads come from %s but lorom says pak %06x = %s", obsString(x), p, obsString(e))
			} else {
				agree.ok()
			}
		case isCell(x):
			foreign.fail(n, "backed by %s but lorom.BusAddressToPak = (%06x, %v)", obsString(x), p, err)
		case x != obsNone && eok:
			ioOver.fail(n, "lorom says pak %06x = %s but the emulator answers with %s", p, obsString(e), obsString(x))
		default:
			foreign.ok()
			ioOver.ok()
		}
		bank, off := n>>16, n&0xFFFF
		if bank <= 0x3F {
			if off >= 0x8000 {
				if !isCell(x) || obs[n+0x800000] != x {
					mRom.fail(n, "%s here, %s at %06x", obsString(x), obsString(obs[n+0x800000]), n+0x800000)
				} else {
					mRom.ok()
				}
			}
			if off < 0x2000 {
				if !isCell(x) || obs[n+0x800000] != x || obs[0x7E0000+off] != x {
					mWram.fail(n, "%s here, %s at %06x, %s at %06x", obsString(x), obsString(obs[n+0x800000]), n+0x800000,
						obsString(obs[0x7E0000+off]), 0x7E0000+off)
				} else {
					mWram.ok()
				}
			}
		}
		if bank >= 0x70 && bank <= 0x7D && off < 0x8000 {
			if obs[n+0x800000] != x || (x != obsNone && !isCell(x)) {
				mSram.fail(n, "%s here, %s at %06x", obsString(x), obsString(obs[n+0x800000]), n+0x800000)
			} else if isCell(x) {
				mSram.ok()
			}
		}
	}
	if !isCell(obs[0x700000]) {
		mSram.fail(0x700000, "no SRAM at all behind $70:0000 (%s)", obsString(obs[0x700000]))
	}

	// ---- write side ----
	wTie := &clauseAcc{id: "WRITEDIFF"} // writes versus the cell reads come from (tie: same cell for both)
	wProp := &clauseAcc{id: "C11.write"}
	nw := u.writeProbe(obs, sampler(tier, u.seed), func(w writeResult) {
		x := obs[w.n]
		// tie: exactly the cell that reads come from changes; panics exactly where reads panic
		switch {
		case x == obsNone && (!w.panicked || len(w.hits) != 0):
			wTie.fail(w.n, "read panics but write panicked=%v changed=%s", w.panicked, hitsString(w.hits))
		case x == obsIO && (w.panicked || len(w.hits) != 0):
			wTie.fail(w.n, "read is I/O but write panicked=%v changed=%s", w.panicked, hitsString(w.hits))
		case isCell(x) && (w.panicked || len(w.hits) != 1 || w.hits[0] != x):
			wTie.fail(w.n, "reads come from %s but write panicked=%v changed=%s", obsString(x), w.panicked, hitsString(w.hits))
		default:
			wTie.ok()
		}
		// property: where the emulator has storage and lorom assigns a cell, exactly that byte changes
		p, err := lorom.BusAddressToPak(w.n)
		e, eok := uint64(0), false
		if err == nil {
			e, eok = u.pakCell(p)
		}
		backed := isCell(x) || len(w.hits) != 0
		switch {
		case backed && eok:
			if len(w.hits) != 1 || w.hits[0] != e {
				wProp.fail(w.n, "write should change exactly %s (pak %06x), changed %s", obsString(e), p, hitsString(w.hits))
			} else {
				wProp.ok()
			}
		case backed:
			wProp.fail(w.n, "lorom leaves this address unmapped, yet the write changed %s", hitsString(w.hits))
		}
	})
	fmt.Printf("writes %d\n", nw)
	wTie.print()
	for _, c := range []*clauseAcc{agree, foreign, ioOver, wProp, mRom, mWram, mSram} {
		c.print()
	}
	return 0
}

func hitsString(h []uint64) string {
	if len(h) == 0 {
		return "nothing"
	}
	var s []string
	for _, x := range h {
		s = append(s, obsString(x))
	}
	return strings.Join(s, "+")
}

// describe: run-length list of (first address, kind) where the kind of backing changes
func describe(obs []uint64) string {
	kind := func(n int) string {
		x := obs[n]
		if isCell(x) {
			c, o := cellOf(x)
			// a run continues while the offset advances with the address
			return fmt.Sprintf("%s%+d", clsName[c], int64(o)-int64(n))
		}
		return obsString(x)
	}
	var sb strings.Builder
	prev, runs := "", 0
	for n := 0; n < 1<<24; n++ {
		k := kind(n)
		if k != prev {
			runs++
			if runs <= 12 {
				fmt.Fprintf(&sb, "%06x:%s ", n, k)
			}
			prev = k
		}
	}
	fmt.Fprintf(&sb, "... runs=%d", runs)
	return sb.String()
}

func sysEval(args []string) int {
	u := newSys()
	fmt.Printf("create err=%v panic=%v\n", u.createErr, u.createPanic)
	var addrs []uint32
	for _, a := range args {
		v, err := strconv.ParseUint(a, 16, 32)
		if err != nil || v >= 1<<24 {
			fmt.Println("bad address", a)
			return 2
		}
		addrs = append(addrs, uint32(v))
	}
	sub := u.observe(addrs)
	full := make([]uint64, 1<<24)
	for i, n := range addrs {
		full[n] = sub[i]
	}
	byBank := map[uint32][]uint32{}
	for _, n := range addrs {
		byBank[n>>16] = append(byBank[n>>16], n)
	}
	wr := map[uint32]writeResult{}
	u.writeProbe(full, func(bank uint32) []uint32 { return byBank[bank] }, func(w writeResult) { wr[w.n] = w })
	for i, n := range addrs {
		p, err := lorom.BusAddressToPak(n)
		es := "-"
		if err == nil {
			if e, ok := u.pakCell(p); ok {
				es = obsString(e)
			}
		}
		w := wr[n]
		fmt.Printf("bus %06x: reads from %s; write panicked=%v changed %s; lorom.BusAddressToPak = (%06x, %v) = %s\n",
			n, obsString(sub[i]), w.panicked, hitsString(w.hits), p, err, es)
	}
	return 0
}

func init() {
	commands["sysprobe"] = func(args []string) int {
		tier := "quick"
		if len(args) > 0 {
			tier = args[0]
		}
		return sysProbe(tier)
	}
	commands["syseval"] = sysEval
	// syscells <bank hex>: the observed cell of every address of one bank (to locate a model/code difference)
	commands["syscells"] = func(args []string) int {
		b, err := strconv.ParseUint(args[0], 16, 8)
		if err != nil {
			return 2
		}
		u := newSys()
		addrs := make([]uint32, 65536)
		for i := range addrs {
			addrs[i] = uint32(b)<<16 | uint32(i)
		}
		var sb strings.Builder
		for _, x := range u.observe(addrs) {
			fmt.Fprintf(&sb, " %d", x)
		}
		fmt.Println("cellsof" + sb.String())
		return 0
	}
}
