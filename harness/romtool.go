package main

// C10: ROM.BusReader / ROM.BusWriter (rom.go).
//
//	harness romcases <tier> <seed> <corpusdir>   histories run on the REAL code, inputs + observations as JSON
//	                                             lines (the check turns them into Gallina data; Coq decides
//	                                             model = implementation on every case)
//	harness romcheck <tier> <seed> <corpusdir>   falsifier: the io contract of the property stated directly
//	                                             against the real code (no model), FAIL lines with a minimised,
//	                                             replayable history
//	harness romreplay <file>                     one history (a case object or a replay file) through the falsifier
//
// A history is a list of operations over one image and any number of live handles:
// NR addr (BusReader), NW addr (BusWriter), R h k (Read of k bytes on reader h), W h payload.
import (
	"bytes"
	"encoding/json"
	"fmt"
	"io"
	"os"
	"path/filepath"
	"sort"
	"strings"

	snes "github.com/alttpo/snes"
)

type romOp struct {
	K string `json:"k"`           // NR | NW | R | W
	A uint32 `json:"a,omitempty"` // bus address (NR, NW)
	H int    `json:"h,omitempty"` // handle number (R: n-th reader created, W: n-th writer created)
	N int    `json:"n,omitempty"` // R: len(p); W with G: payload length
	D []int  `json:"d,omitempty"` // W: literal payload
	G []int  `json:"g,omitempty"` // W: payload = fill(G[0], G[1] + i), i < N   (long payloads)
}

type romObs struct {
	K  string `json:"k"` // new | panic | read | write
	N  int    `json:"n"`
	E  string `json:"e,omitempty"`  // nil | eof | ueof | other
	D  []int  `json:"d,omitempty"`  // read: the n bytes delivered, if at most romLitMax of them
	Dg uint64 `json:"dg,omitempty"` // read: otherwise their rolling digest (Props/RomTie.v digest)
}

type romRun struct {
	A  int    `json:"a"`
	N  int    `json:"n"`
	D  []int  `json:"d,omitempty"`
	Dg uint64 `json:"dg,omitempty"`
}

// data longer than this travels as (length, digest): Coq takes minutes to parse 10^5 literals
const romLitMax = 64

func romDigest(b []byte) uint64 {
	h := uint64(0)
	for _, x := range b {
		h = (h*1000003 + uint64(x) + 1) & ((1 << 63) - 1)
	}
	return h
}

type romCase struct {
	ID   string   `json:"id"`
	Seed int      `json:"seed"`
	Size int      `json:"size"`
	Ops  []romOp  `json:"ops"`
	Obs  []romObs `json:"obs,omitempty"`
	Runs []romRun `json:"runs,omitempty"`
	Feat []string `json:"feat,omitempty"`
	Big  bool     `json:"big,omitempty"`
}

// byte i of the image generated from seed: the same function as Model.Rom.fill
func romFill(seed, i int) byte { return byte((i ^ (i >> 8) ^ (i >> 13)) + seed) }

func romImage(seed, size int) []byte {
	img := make([]byte, size) // len = cap, as for a ROM file read into memory
	for i := range img {
		img[i] = romFill(seed, i)
	}
	return img
}

func (o *romOp) payload() []byte {
	if len(o.G) == 2 {
		p := make([]byte, o.N)
		for i := range p {
			p[i] = romFill(o.G[0], o.G[1]+i)
		}
		return p
	}
	p := make([]byte, len(o.D))
	for i, b := range o.D {
		p[i] = byte(b)
	}
	return p
}

func errClass(err error) string {
	switch err {
	case nil:
		return "nil"
	case io.EOF:
		return "eof"
	case io.ErrUnexpectedEOF:
		return "ueof"
	}
	return "other"
}

type failedReader struct{}

func (failedReader) Read(p []byte) (int, error) { return 0, io.ErrUnexpectedEOF }

func ints(b []byte) []int {
	r := make([]int, len(b))
	for i, x := range b {
		r[i] = int(x)
	}
	return r
}

// ---------------------------------------------------------------------------------------------
// the property, stated directly (falsifier).  window(a) is the LoROM file window of the property:
// from the address's file offset up to (excluding) the last byte of its 32 KiB bank.
type romWin struct {
	low, free  bool // low: page < $8000; free: bank not inside the image (the property says nothing)
	start, end int
	pos        int
}

func romWindow(a uint32, size int) romWin {
	page := int(a & 0xFFFF)
	bank := int(a >> 16)
	if page < 0x8000 {
		return romWin{low: true}
	}
	w := romWin{start: bank*0x8000 + (page - 0x8000), end: bank*0x8000 + 0x7FFF}
	w.pos = w.start
	if w.end > size {
		w.free = true
	}
	return w
}

type romContract struct {
	shadow []byte // the image as the property says it must be
	rs, ws []romWin
	fail   string // first broken clause
	detail string
	at     int // index of the operation that broke it
}

func (c *romContract) bad(i int, clause, format string, a ...interface{}) {
	if c.fail == "" {
		c.fail, c.at, c.detail = clause, i, fmt.Sprintf(format, a...)
	}
}

func firstDiff(a, b []byte) int {
	for i := range a {
		if i >= len(b) || a[i] != b[i] {
			return i
		}
	}
	if len(a) != len(b) {
		return len(a)
	}
	return -1
}

// ---------------------------------------------------------------------------------------------
// run one history on the real code; c (optional) judges every call against the property
func romExec(cs *romCase, c *romContract) (obs []romObs, img []byte) {
	img = romImage(cs.Seed, cs.Size)
	rom := &snes.ROM{Name: "verif", Contents: img}
	if c != nil {
		c.shadow = append([]byte(nil), img...)
	}
	var rs []io.Reader
	var ws []io.Writer
	for i := range cs.Ops {
		op := &cs.Ops[i]
		switch op.K {
		case "NR":
			var r io.Reader
			pan := func() (p bool) {
				defer func() {
					if recover() != nil {
						p = true
					}
				}()
				r = rom.BusReader(op.A)
				return
			}()
			if pan {
				r = failedReader{}
				obs = append(obs, romObs{K: "panic"})
			} else {
				obs = append(obs, romObs{K: "new"})
			}
			rs = append(rs, r)
			if c != nil {
				w := romWindow(op.A, cs.Size)
				if pan && !w.free {
					c.bad(i, "no_panic", "BusReader($%06X) panicked although the bank lies inside the %d-byte image", op.A, cs.Size)
				}
				if pan {
					w.free = true
				}
				c.rs = append(c.rs, w)
			}
		case "NW":
			var w io.Writer
			pan := func() (p bool) {
				defer func() {
					if recover() != nil {
						p = true
					}
				}()
				w = rom.BusWriter(op.A)
				return
			}()
			if pan {
				obs = append(obs, romObs{K: "panic"})
			} else {
				obs = append(obs, romObs{K: "new"})
			}
			ws = append(ws, w)
			if c != nil {
				cw := romWindow(op.A, cs.Size)
				if pan && !cw.free {
					c.bad(i, "no_panic", "BusWriter($%06X) panicked although the bank lies inside the %d-byte image", op.A, cs.Size)
				}
				if pan {
					cw.free = true
				}
				c.ws = append(c.ws, cw)
			}
		case "R":
			if op.H < 0 || op.H >= len(rs) {
				obs = append(obs, romObs{K: "read", E: "ueof"})
				continue
			}
			buf := make([]byte, op.N)
			for j := range buf {
				buf[j] = 0xA5
			}
			var n int
			var err error
			pan := func() (p bool) {
				defer func() {
					if recover() != nil {
						p = true
					}
				}()
				n, err = rs[op.H].Read(buf)
				return
			}()
			if pan {
				obs = append(obs, romObs{K: "panic"})
			} else {
				m := n
				if m < 0 || m > len(buf) {
					m = 0
				}
				o := romObs{K: "read", N: n, E: errClass(err)}
				if m <= romLitMax {
					o.D = ints(buf[:m])
				} else {
					o.Dg = romDigest(buf[:m])
				}
				obs = append(obs, o)
			}
			if c != nil {
				c.judgeRead(i, op, pan, n, err, buf)
			}
		case "W":
			if op.H < 0 || op.H >= len(ws) || ws[op.H] == nil {
				obs = append(obs, romObs{K: "write", E: "ueof"})
				continue
			}
			p := op.payload()
			keep := append([]byte(nil), p...)
			var n int
			var err error
			pan := func() (pp bool) {
				defer func() {
					if recover() != nil {
						pp = true
					}
				}()
				n, err = ws[op.H].Write(p)
				return
			}()
			if pan {
				obs = append(obs, romObs{K: "panic"})
			} else {
				obs = append(obs, romObs{K: "write", N: n, E: errClass(err)})
			}
			if c != nil {
				c.judgeWrite(i, op, pan, n, err, p, keep, img)
			}
		}
	}
	return
}

func (c *romContract) judgeRead(i int, op *romOp, pan bool, n int, err error, buf []byte) {
	w := &c.rs[op.H]
	k := len(buf)
	switch {
	case w.free:
		return
	case pan:
		c.bad(i, "no_panic", "Read(%d bytes) on reader %d panicked", k, op.H)
	case w.low:
		if n != 0 || err != io.ErrUnexpectedEOF {
			c.bad(i, "low_page", "page < $8000: Read(%d bytes) = (%d, %v), want (0, unexpected EOF)", k, n, err)
		}
	default:
		rem := w.end - w.pos
		if n < 0 || n > k {
			c.bad(i, "read_window", "Read(%d bytes) = (%d, %v): n outside 0..len(p)", k, n, err)
			return
		}
		if n > rem {
			c.bad(i, "read_window", "Read(%d bytes) delivered %d bytes, only %d remain before the end of the window [$%X,$%X)", k, n, rem, w.start, w.end)
			return
		}
		if !bytes.Equal(buf[:n], c.shadow[w.pos:w.pos+n]) {
			d := firstDiff(buf[:n], c.shadow[w.pos:w.pos+n])
			c.bad(i, "read_window", "Read(%d bytes): byte %d of the result is $%02X, the image has $%02X at file offset $%X", k, d, buf[d], c.shadow[w.pos+d], w.pos+d)
			return
		}
		w.pos += n
		switch err {
		case nil:
			if k > 0 && rem > 0 && n == 0 {
				c.bad(i, "read_window", "Read(%d bytes) = (0, nil) with %d bytes remaining", k, rem)
			}
			if k > 0 && rem == 0 {
				c.bad(i, "read_eof", "Read(%d bytes) = (%d, nil) at the end of the window, want EOF", k, n)
			}
		case io.EOF:
			if w.pos != w.end {
				c.bad(i, "read_eof", "Read(%d bytes) = (%d, EOF) with %d bytes of the window still unread", k, n, w.end-w.pos)
			}
		default:
			c.bad(i, "read_window", "Read(%d bytes) = (%d, %v): unexpected error", k, n, err)
		}
	}
}

func (c *romContract) judgeWrite(i int, op *romOp, pan bool, n int, err error, p, keep, img []byte) {
	w := &c.ws[op.H]
	if w.free {
		// nothing is promised about the handle, but the bytes of the image that exist are still
		// only to be changed through a window; resynchronise the expectation
		copy(c.shadow, img)
		return
	}
	if pan {
		c.bad(i, "no_panic", "Write(%d bytes) on writer %d panicked", len(p), op.H)
		return
	}
	if !bytes.Equal(p, keep) {
		c.bad(i, "write_contract", "Write modified its argument")
	}
	if w.low {
		if n != 0 || err != io.ErrUnexpectedEOF {
			c.bad(i, "low_page", "page < $8000: Write(%d bytes) = (%d, %v), want (0, unexpected EOF)", len(p), n, err)
		}
		if d := firstDiff(img, c.shadow); d >= 0 {
			c.bad(i, "low_page", "page < $8000: Write(%d bytes) changed the image at file offset $%X", len(p), d)
		}
		return
	}
	rem := w.end - w.pos
	if n < 0 || n > len(p) {
		c.bad(i, "write_contract", "Write(%d bytes) = (%d, %v): n outside 0..len(p)", len(p), n, err)
		return
	}
	if err == nil && n != len(p) {
		c.bad(i, "silent_partial_write", "Write(%d bytes) with %d bytes of room in the window [$%X,$%X) = (%d, nil): fewer bytes than given and no error", len(p), rem, w.start, w.end, n)
	}
	if err != nil && len(p) <= rem {
		c.bad(i, "fits_refused", "Write(%d bytes) with %d bytes of room in the window [$%X,$%X) = (%d, %v): it fits and must be stored", len(p), rem, w.start, w.end, n, err)
	}
	if n > rem {
		c.bad(i, "write_window", "Write(%d bytes) reports %d bytes stored, the window [$%X,$%X) has room for %d", len(p), n, w.start, w.end, rem)
		copy(c.shadow, img)
		return
	}
	copy(c.shadow[w.pos:w.pos+n], p[:n])
	w.pos += n
	if d := firstDiff(img, c.shadow); d >= 0 {
		where := "inside"
		if d < w.start || d >= w.end {
			where = "OUTSIDE"
		}
		c.bad(i, "write_window", "after Write(%d bytes) = (%d, %v) the image has $%02X at file offset $%X (%s the window [$%X,$%X)), want $%02X (the %d reported bytes stored contiguously at $%X, nothing else changed)",
			len(p), n, err, img[d], d, where, w.start, w.end, c.shadow[d], n, w.pos-n)
		copy(c.shadow, img)
	}
}

// after the history: a fresh reader at every window address used returns the window of the image
// as it is now (so: what was written through a writer at that address), then EOF, again and again
func (c *romContract) judgeFinal(cs *romCase, img []byte) {
	rom := &snes.ROM{Name: "verif", Contents: img}
	seen := map[uint32]bool{}
	for _, op := range cs.Ops {
		if (op.K != "NR" && op.K != "NW") || seen[op.A] {
			continue
		}
		seen[op.A] = true
		w := romWindow(op.A, cs.Size)
		if w.low || w.free {
			continue
		}
		func() {
			defer func() {
				if r := recover(); r != nil {
					c.bad(len(cs.Ops), "no_panic", "reading back $%06X panicked: %v", op.A, r)
				}
			}()
			r := rom.BusReader(op.A)
			var got []byte
			buf := make([]byte, 5000)
			var err error
			for it := 0; it < 12 && err == nil; it++ {
				var n int
				n, err = r.Read(buf)
				if n < 0 || n > len(buf) {
					c.bad(len(cs.Ops), "read_window", "reading back $%06X: n = %d", op.A, n)
					return
				}
				got = append(got, buf[:n]...)
			}
			if err != io.EOF {
				c.bad(len(cs.Ops), "read_eof", "reading back $%06X: no EOF after %d bytes (err = %v), the window has %d", op.A, len(got), err, w.end-w.start)
				return
			}
			if !bytes.Equal(got, c.shadow[w.start:w.end]) {
				d := firstDiff(got, c.shadow[w.start:w.end])
				c.bad(len(cs.Ops), "read_after_write", "a reader at $%06X returns %d bytes, the window [$%X,$%X) holds %d; first difference at byte %d", op.A, len(got), w.start, w.end, w.end-w.start, d)
				return
			}
			for it := 0; it < 2; it++ {
				if n, e := r.Read(buf[:1+it*7]); n != 0 || e != io.EOF {
					c.bad(len(cs.Ops), "read_eof", "reading back $%06X: Read after EOF = (%d, %v)", op.A, n, e)
				}
			}
		}()
	}
}

func romJudge(cs *romCase) *romContract {
	c := &romContract{}
	_, img := romExec(cs, c)
	if c.fail == "" {
		c.judgeFinal(cs, img)
	}
	return c
}

// greedy minimisation: cut after the failing call, then drop calls (and unused handles) one at a time
func romMinimise(cs *romCase, clause string) *romCase {
	still := func(t *romCase) bool { return romJudge(t).fail == clause }
	cur := *cs
	if c := romJudge(&cur); c.fail == clause && c.at+1 < len(cur.Ops) {
		t := cur
		t.Ops = append([]romOp(nil), cur.Ops[:c.at+1]...)
		if still(&t) {
			cur = t
		}
	}
	for changed := true; changed; {
		changed = false
		for i := len(cur.Ops) - 1; i >= 0; i-- {
			t := cur
			t.Ops = nil
			ok := true
			var nr, nw int // handle numbers of the dropped creation
			for j := 0; j < i; j++ {
				if cur.Ops[j].K == "NR" {
					nr++
				}
				if cur.Ops[j].K == "NW" {
					nw++
				}
			}
			for j, o := range cur.Ops {
				if j == i {
					continue
				}
				switch {
				case cur.Ops[i].K == "NR" && o.K == "R" && j > i:
					if o.H == nr {
						ok = false
					} else if o.H > nr {
						o.H--
					}
				case cur.Ops[i].K == "NW" && o.K == "W" && j > i:
					if o.H == nw {
						ok = false
					} else if o.H > nw {
						o.H--
					}
				}
				t.Ops = append(t.Ops, o)
			}
			if ok && len(t.Ops) > 0 && still(&t) {
				cur = t
				changed = true
			}
		}
	}
	// shorter literal payloads of the same length class are not attempted: lengths are the point
	cur.Obs, cur.Runs, cur.Feat = nil, nil, nil
	return &cur
}

// ---------------------------------------------------------------------------------------------
// generators
type romRng struct{ s uint64 }

func (r *romRng) next() uint64 {
	r.s += 0x9E3779B97F4A7C15
	z := r.s
	z = (z ^ (z >> 30)) * 0xBF58476D1CE4E5B9
	z = (z ^ (z >> 27)) * 0x94D049BB133111EB
	return z ^ (z >> 31)
}
func (r *romRng) n(k int) int {
	if k <= 0 {
		return 0
	}
	return int(r.next() % uint64(k))
}
func (r *romRng) pick(ws ...int) int {
	t := 0
	for _, w := range ws {
		t += w
	}
	x := r.n(t)
	for i, w := range ws {
		if x < w {
			return i
		}
		x -= w
	}
	return len(ws) - 1
}

type romGen struct {
	r       *romRng
	size    int
	big     bool // long payloads / long reads allowed
	maxLen  int
	rw, ww  []romWin // the generator's own idea of the handles (guides the lengths only)
	ops     []romOp
	addrs   []uint32
	classes map[string]int
}

func (g *romGen) note(c string) { g.classes[c]++ }

func (g *romGen) addr() uint32 {
	r := g.r
	inside := g.size / 0x8000
	if g.size%0x8000 == 0x7FFF {
		inside++ // one byte short of a whole bank: the window still fits
	}
	var bank int
	switch r.pick(62, 12, 12, 6, 8) {
	case 0:
		bank = r.n(inside)
		g.note("bank:inside")
	case 1:
		bank = inside - 1
		g.note("bank:last-inside")
	case 2:
		bank = inside
		g.note("bank:first-outside")
	case 3:
		bank = []int{0x7F, 0xFF, 0x100, 0x8000, 0xFFFF, r.n(0x10000)}[r.n(6)]
		g.note("bank:far-outside")
	default:
		bank = 0
		g.note("bank:0")
	}
	if bank < 0 {
		bank = 0
	}
	var page int
	switch r.pick(30, 8, 22, 12, 14, 14) {
	case 0:
		page = 0xFFFF - r.n(9)
		g.note("page:last-8")
	case 1:
		page = 0x8000 + r.n(4)
		g.note("page:first-4")
	case 2:
		page = 0x8000 + r.n(0x8000)
		g.note("page:random-rom-half")
	case 3:
		page = 0xFFFF - 9 - r.n(292)
		g.note("page:last-300")
	case 4:
		page = []int{0, 0x7FFF, 0x7FFE, 1, r.n(0x8000)}[r.n(5)]
		g.note("page:below-8000")
	default:
		if len(g.addrs) > 0 {
			a := g.addrs[r.n(len(g.addrs))]
			g.note("addr:aliasing-earlier-handle")
			if r.n(2) == 0 {
				return a
			}
			d := uint32(r.n(7)) - 3
			if (a+d)&0xFFFF >= 0x8000 && (a+d)>>16 == a>>16 {
				return a + d
			}
			return a
		}
		page = 0xFFFF - r.n(40)
		g.note("page:last-40")
	}
	if !g.big && page >= 0x8000 && 0xFFFF-page > g.maxLen {
		// short windows unless long payloads are allowed: the boundary is where the property is decided
		if r.n(4) != 0 {
			page = 0xFFFF - r.n(g.maxLen)
		}
	}
	return uint32(bank)<<16 | uint32(page)
}

func (g *romGen) length(rem int, what string) int {
	r := g.r
	var l int
	switch r.pick(8, 8, 16, 10, 12, 5, 26, 5, 4, 6) {
	case 0:
		l = 0
		g.note(what + ":len=0")
	case 1:
		l = 1
		g.note(what + ":len=1")
	case 2:
		l = rem
		g.note(what + ":ends-at-window-end")
	case 3:
		l = rem - 1
		g.note(what + ":ends-one-before")
	case 4:
		l = rem + 1
		g.note(what + ":one-beyond")
	case 5:
		l = rem + 2 + r.n(8)
		g.note(what + ":beyond")
	case 6:
		m := rem
		if m > 40 {
			m = 40
		}
		l = 2 + r.n(m)
		g.note(what + ":small")
	case 7:
		l = r.n(rem + 1)
		g.note(what + ":up-to-room")
	case 8:
		l = rem + 1000 + r.n(40000)
		g.note(what + ":far-beyond")
	default:
		l = 1 + r.n(16)
		g.note(what + ":1..16")
	}
	if l < 0 {
		l = 0
	}
	if !g.big && l > g.maxLen {
		l = g.maxLen - r.n(8)
	}
	if l > 70000 {
		l = 70000
	}
	return l
}

func (g *romGen) step() {
	r := g.r
	k := r.pick(9, 11, 34, 46)
	if len(g.rw) == 0 && k == 2 {
		k = 0
	}
	if len(g.ww) == 0 && k == 3 {
		k = 1
	}
	switch k {
	case 0:
		a := g.addr()
		g.addrs = append(g.addrs, a)
		g.rw = append(g.rw, romWindow(a, g.size))
		g.ops = append(g.ops, romOp{K: "NR", A: a})
	case 1:
		a := g.addr()
		g.addrs = append(g.addrs, a)
		g.ww = append(g.ww, romWindow(a, g.size))
		g.ops = append(g.ops, romOp{K: "NW", A: a})
	case 2:
		h := r.n(len(g.rw))
		w := &g.rw[h]
		rem := w.end - w.pos
		if w.low {
			rem = 0
		}
		l := g.length(rem, "read")
		if l < rem {
			w.pos += l
		} else {
			w.pos = w.end
		}
		g.ops = append(g.ops, romOp{K: "R", H: h, N: l})
	default:
		h := r.n(len(g.ww))
		w := &g.ww[h]
		rem := w.end - w.pos
		if w.low {
			rem = 0
		}
		l := g.length(rem, "write")
		if l <= rem {
			w.pos += l
		}
		op := romOp{K: "W", H: h}
		if l > 48 {
			op.N, op.G = l, []int{1 + r.n(250), r.n(100000)}
		} else {
			op.D = make([]int, l)
			for i := range op.D {
				op.D[i] = r.n(256)
			}
		}
		g.ops = append(g.ops, op)
	}
}

var romSizes = []int{0x8000, 0x10000, 0x18000, 0x20000, 0x10000 - 1, 0x10000 - 2, 0x8000 - 1, 0x18000 + 5, 0x10000 + 0x7FFF}

func romRandomCase(r *romRng, id string, seed int, big bool, maxOps int, classes map[string]int) *romCase {
	size := romSizes[r.pick(22, 34, 16, 6, 6, 5, 4, 4, 3)]
	g := &romGen{r: r, size: size, big: big, maxLen: 300, classes: classes}
	n := 4 + r.n(maxOps-3)
	// start with one to three handles
	for i, k := 0, 1+r.n(3); i < k; i++ {
		a := g.addr()
		g.addrs = append(g.addrs, a)
		if r.n(3) == 0 {
			g.rw = append(g.rw, romWindow(a, size))
			g.ops = append(g.ops, romOp{K: "NR", A: a})
		} else {
			g.ww = append(g.ww, romWindow(a, size))
			g.ops = append(g.ops, romOp{K: "NW", A: a})
		}
	}
	for len(g.ops) < n {
		g.step()
	}
	classes[fmt.Sprintf("size:%d", size)]++
	return &romCase{ID: id, Seed: seed, Size: size, Ops: g.ops, Big: big}
}

func lit(n, base int) []int {
	if n < 0 {
		n = 0
	}
	d := make([]int, n)
	for i := range d {
		d[i] = (base + i*7) & 255
	}
	return d
}

func rop(h, n int) romOp {
	if n < 0 {
		n = 0
	}
	return romOp{K: "R", H: h, N: n}
}

func wop(h, n, base int) romOp {
	if n > 48 {
		return romOp{K: "W", H: h, N: n, G: []int{base&127 + 1, base * 3}}
	}
	return romOp{K: "W", H: h, D: lit(n, base)}
}

// boundary classes solved for explicitly: for every image size, bank and distance d of the address
// from the end of its window, histories whose write / read lengths end at, one before and beyond it
func romBoundaryCases(seed int, big bool) []*romCase {
	var out []*romCase
	sizes := []int{0x8000, 0x10000, 0x18000}
	ds := []int{0, 1, 2, 3, 4, 5, 16, 47}
	if big {
		sizes = []int{0x10000}
		ds = []int{0x7FFF, 0x7FFE, 1000}
	}
	for _, size := range sizes {
		for bank := 0; bank <= size/0x8000; bank++ { // the last one is the first bank outside the image
			for _, d := range ds {
				a := uint32(bank)<<16 | uint32(0xFFFF-d)
				mk := func(tag string, ops ...romOp) {
					out = append(out, &romCase{ID: fmt.Sprintf("boundary/%s/size=%d/$%06X", tag, size, a), Seed: seed, Size: size, Ops: ops, Big: big})
				}
				mk("beyond-then-at", romOp{K: "NW", A: a}, wop(0, d+1, 10), wop(0, d, 20), wop(0, 1, 30), wop(0, 0, 0),
					romOp{K: "NR", A: a}, rop(0, d+5), romOp{K: "R", H: 0, N: 1})
				mk("before-then-beyond", romOp{K: "NR", A: a}, romOp{K: "NW", A: a}, wop(0, d-1, 40), wop(0, 2, 50), wop(0, 1, 60), wop(0, 1, 70), wop(0, 0, 0),
					romOp{K: "R", H: 0, N: 0}, rop(0, d-1), romOp{K: "R", H: 0, N: 0}, romOp{K: "R", H: 0, N: 5}, romOp{K: "R", H: 0, N: 0}, romOp{K: "R", H: 0, N: 1})
				if d >= 4 {
					mk("historical-shape", romOp{K: "NW", A: a}, wop(0, d-2, 80), wop(0, 4, 90), wop(0, 1, 100), wop(0, 2, 110), wop(0, 1, 120),
						romOp{K: "NR", A: a}, rop(0, d), rop(0, d))
				}
			}
		}
		if !big {
			// page < $8000 in every bank, and two writers + a reader sharing one window
			for bank := 0; bank <= size/0x8000; bank++ {
				for _, page := range []int{0, 0x7FFF, 0x4000} {
					a := uint32(bank)<<16 | uint32(page)
					out = append(out, &romCase{ID: fmt.Sprintf("boundary/low-page/size=%d/$%06X", size, a), Seed: seed, Size: size, Ops: []romOp{
						{K: "NR", A: a}, {K: "NW", A: a}, {K: "R", H: 0, N: 0}, {K: "R", H: 0, N: 3}, wop(0, 0, 0), wop(0, 1, 1), wop(0, 5, 2), {K: "R", H: 0, N: 1}}})
				}
				a := uint32(bank)<<16 | 0xFFF0
				out = append(out, &romCase{ID: fmt.Sprintf("boundary/shared-window/size=%d/$%06X", size, a), Seed: seed, Size: size, Ops: []romOp{
					{K: "NR", A: a}, {K: "NW", A: a}, {K: "NW", A: a + 4}, wop(0, 6, 5), wop(1, 6, 9), {K: "R", H: 0, N: 12}, wop(0, 9, 3), wop(0, 1, 1), wop(1, 5, 8), wop(1, 1, 4), {K: "R", H: 0, N: 12}, {K: "R", H: 0, N: 0}}})
			}
		}
	}
	return out
}

func romCorpus(dir string) []*romCase {
	var out []*romCase
	names, _ := filepath.Glob(filepath.Join(dir, "*.json"))
	sort.Strings(names)
	for _, n := range names {
		b, err := os.ReadFile(n)
		if err != nil {
			continue
		}
		var c romCase
		if json.Unmarshal(b, &c) != nil || len(c.Ops) == 0 {
			fmt.Fprintf(os.Stderr, "corpus file %s unreadable\n", n)
			continue
		}
		c.ID = "corpus/" + filepath.Base(n)
		c.Obs, c.Runs, c.Feat = nil, nil, nil
		out = append(out, &c)
	}
	return out
}

// observed final image as the runs that differ from the generated one (gaps below 16 bytes merged)
func romRuns(seed int, img []byte) []romRun {
	var runs []romRun
	i := 0
	for i < len(img) {
		if img[i] == romFill(seed, i) {
			i++
			continue
		}
		j, last := i, i
		for j < len(img) && j-last < 16 {
			if img[j] != romFill(seed, j) {
				last = j
			}
			j++
		}
		for i <= last { // long runs are cut into pieces that are literal where short, digests where long
			e := last + 1
			if e-i > romLitMax && e-i <= 2*romLitMax {
				e = i + romLitMax
			}
			if e-i <= romLitMax {
				runs = append(runs, romRun{A: i, N: e - i, D: ints(img[i:e])})
			} else {
				runs = append(runs, romRun{A: i, N: e - i, Dg: romDigest(img[i:e])})
			}
			i = e
		}
	}
	return runs
}

func romFeatures(cs *romCase) []string {
	f := map[string]bool{}
	low := map[int]bool{}
	nr := 0
	for i, o := range cs.Ops {
		ob := cs.Obs[i]
		switch o.K {
		case "NR":
			if o.A&0xFFFF < 0x8000 {
				low[nr] = true
			}
			nr++
			if ob.K == "panic" {
				f["new-reader-panics(bank outside image)"] = true
			}
		case "R":
			switch {
			case ob.K == "panic":
				f["read-panics"] = true
			case ob.E == "ueof":
				f["read:page<8000"] = true
			case ob.E == "eof" && o.N == 0:
				f["read:len0-at-end=EOF"] = true
			case ob.E == "eof":
				f["read:EOF"] = true
			case o.N == 0:
				f["read:len0-with-bytes-left=(0,nil)"] = true
			case ob.N < o.N:
				f["read:short(window end)"] = true
			default:
				f["read:full"] = true
			}
		case "W":
			l := o.N
			if len(o.G) != 2 {
				l = len(o.D)
			}
			switch {
			case ob.K == "panic":
				f["write-panics(bank outside image)"] = true
			case ob.E == "ueof" && ob.N == 0:
				f["write:refused"] = true
			case ob.E == "nil" && ob.N == l && l == 0:
				f["write:len0"] = true
			case ob.E == "nil" && ob.N == l:
				f["write:stored"] = true
			default:
				f["write:OTHER(n<len or unexpected error)"] = true
			}
		}
	}
	if len(cs.Runs) > 0 {
		f["image-changed"] = true
	}
	var out []string
	for k := range f {
		out = append(out, k)
	}
	sort.Strings(out)
	return out
}

func romTierCounts(tier string) (nTie, nBig, nFals, maxOps int) {
	if tier == "thorough" {
		return 8000, 48, 300000, 48
	}
	return 1100, 10, 30000, 22
}

func romAllCases(tier string, seed uint64, corpus string, forTie bool, classes map[string]int) []*romCase {
	nTie, nBig, nFals, maxOps := romTierCounts(tier)
	out := romCorpus(corpus)
	imgSeed := int(seed%200) + 1
	out = append(out, romBoundaryCases(imgSeed, false)...)
	out = append(out, romBoundaryCases(imgSeed, true)...)
	r := &romRng{s: seed*0x51ED2701 + 77}
	n := nTie
	if !forTie {
		n = nFals
		r.s ^= 0xFA15
	}
	for i := 0; i < n; i++ {
		// the image seed changes every 128 cases so that a shard of the tie shares few images
		s := (imgSeed+i/128)%250 + 1
		out = append(out, romRandomCase(r, fmt.Sprintf("random/%d", i), s, false, maxOps, classes))
	}
	for i := 0; i < nBig; i++ {
		out = append(out, romRandomCase(r, fmt.Sprintf("random-long/%d", i), imgSeed, true, 10, classes))
	}
	return out
}

func romArgs(args []string) (tier string, seed uint64, corpus string) {
	tier, seed, corpus = "quick", 1, ""
	if len(args) > 0 {
		tier = args[0]
	}
	if len(args) > 1 {
		fmt.Sscanf(args[1], "%d", &seed)
	}
	if len(args) > 2 {
		corpus = args[2]
	}
	return
}

func romCasesCmd(args []string) int {
	tier, seed, corpus := romArgs(args)
	classes := map[string]int{}
	cases := romAllCases(tier, seed, corpus, true, classes)
	w := json.NewEncoder(os.Stdout)
	for _, c := range cases {
		obs, img := romExec(c, nil)
		c.Obs = obs
		c.Runs = romRuns(c.Seed, img)
		c.Feat = romFeatures(c)
		w.Encode(c)
	}
	b, _ := json.Marshal(classes)
	fmt.Printf("CLASSES %s\n", b)
	return 0
}

func romCheckCmd(args []string) int {
	tier, seed, corpus := romArgs(args)
	classes := map[string]int{}
	cases := romAllCases(tier, seed, corpus, false, classes)
	// exhaustive small histories at the end of a window: two writes of every length up to the room + 2
	for _, size := range []int{0x8000, 0x10000} {
		for bank := 0; bank < size/0x8000; bank++ {
			for d := 0; d <= 9; d++ {
				a := uint32(bank)<<16 | uint32(0xFFFF-d)
				for l1 := 0; l1 <= d+2; l1++ {
					for l2 := 0; l2 <= d+2; l2++ {
						cases = append(cases, &romCase{ID: fmt.Sprintf("enum/size=%d/$%06X/%d,%d", size, a, l1, l2), Seed: 3, Size: size,
							Ops: []romOp{{K: "NR", A: a}, {K: "NW", A: a}, wop(0, l1, 1), wop(0, l2, 2), {K: "R", H: 0, N: d + 1}, {K: "R", H: 0, N: 1}}})
					}
				}
			}
		}
	}
	// a large image: banks $80 and above lie inside it (high bank bits must not be dropped or mirrored)
	{
		size := 0x410000
		for _, bank := range []int{0x00, 0x01, 0x7F, 0x80, 0x81} {
			for _, d := range []int{0, 3, 0x7FFF} {
				a := uint32(bank)<<16 | uint32(0xFFFF-d)
				cases = append(cases, &romCase{ID: fmt.Sprintf("big/size=%d/$%06X", size, a), Seed: 5, Size: size,
					Ops: []romOp{{K: "NR", A: a}, {K: "NW", A: a}, wop(0, 2, 1), {K: "R", H: 0, N: 2}, {K: "NR", A: a}, {K: "R", H: 1, N: 4}}})
			}
		}
	}
	fails := map[string]int{}
	calls := 0
	rc := 0
	for _, c := range cases {
		calls += len(c.Ops)
		j := romJudge(c)
		if j.fail == "" {
			continue
		}
		fails[j.fail]++
		rc = 1
		if fails[j.fail] > 1 {
			continue // one minimised witness per clause
		}
		m := romMinimise(c, j.fail)
		jm := romJudge(m)
		b, _ := json.Marshal(m)
		fmt.Printf("FAIL C10.%s case=%s from=%s :: %s\n", j.fail, b, c.ID, jm.detail)
	}
	b, _ := json.Marshal(fails)
	fmt.Printf("SUMMARY histories=%d calls=%d failing_by_clause=%s\n", len(cases), calls, b)
	return rc
}

func romReplayCmd(args []string) int {
	if len(args) < 1 {
		fmt.Fprintln(os.Stderr, "usage: harness romreplay <file>")
		return 2
	}
	b, err := os.ReadFile(args[0])
	if err != nil {
		fmt.Fprintln(os.Stderr, err)
		return 2
	}
	var c romCase
	var wrap struct {
		Replay struct {
			Case romCase `json:"case"`
		} `json:"replay"`
	}
	if json.Unmarshal(b, &wrap) == nil && len(wrap.Replay.Case.Ops) > 0 {
		c = wrap.Replay.Case
	} else if json.Unmarshal(b, &c) != nil || len(c.Ops) == 0 {
		fmt.Fprintln(os.Stderr, "no history in", args[0])
		return 2
	}
	obs, img := romExec(&c, nil)
	for i, o := range c.Ops {
		var in string
		switch o.K {
		case "NR", "NW":
			in = fmt.Sprintf("%s $%06X", map[string]string{"NR": "BusReader", "NW": "BusWriter"}[o.K], o.A)
		case "R":
			in = fmt.Sprintf("reader %d: Read(%d bytes)", o.H, o.N)
		default:
			in = fmt.Sprintf("writer %d: Write(%d bytes)", o.H, len(o.payload()))
		}
		ob := obs[i]
		out := ob.K
		if ob.K == "read" || ob.K == "write" {
			out = fmt.Sprintf("n=%d err=%s", ob.N, ob.E)
			if len(ob.D) > 0 && len(ob.D) <= 24 {
				out += " data=" + strings.Trim(fmt.Sprint(ob.D), "[]")
			}
		}
		fmt.Printf("  %-36s -> %s\n", in, out)
	}
	runs := romRuns(c.Seed, img)
	for _, r := range runs {
		if r.N <= 24 {
			fmt.Printf("  image changed at $%X: %v\n", r.A, r.D)
		} else {
			fmt.Printf("  image changed at $%X: %d bytes\n", r.A, r.N)
		}
	}
	j := romJudge(&c)
	if j.fail != "" {
		fmt.Printf("FAIL C10.%s at call %d :: %s\n", j.fail, j.at, j.detail)
		return 1
	}
	fmt.Println("history obeys the C10 contract on the current tree")
	return 0
}

func init() {
	commands["romcases"] = romCasesCmd
	commands["romcheck"] = romCheckCmd
	commands["romreplay"] = romReplayCmd
}
