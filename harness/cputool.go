package main

// CPU harness: structured case generation, execution of the two real interpreters on lazily
// backed flat 16 MiB memories with recover(), lockstep comparison (C02 falsifier), address-range and
// crash detection (C08), cycle checks (C12), and the case/result files for the correspondence with
// the regenerated Coq models (extracted to OCaml).

import (
	"bufio"
	"flag"
	"fmt"
	"os"
	"reflect"
	"sort"
	"strings"
	"unsafe"

	"github.com/alttpo/snes/emulator/bus"
	"github.com/alttpo/snes/emulator/cpu65c816"
	"github.com/alttpo/snes/emulator/cpualt"
)

// ---------------------------------------------------------------- PRNG (single stream per run)

type cpuRng struct{ s uint64 }

func (r *cpuRng) next() uint64 {
	r.s ^= r.s << 13
	r.s ^= r.s >> 7
	r.s ^= r.s << 17
	return r.s
}
func (r *cpuRng) n(k int) int { return int(r.next() % uint64(k)) }
func (r *cpuRng) pick(vals ...uint32) uint32 {
	return vals[r.n(len(vals))]
}

func (r *cpuRng) v8() uint32 {
	if r.n(3) == 0 {
		return uint32(r.next() & 0xFF)
	}
	return r.pick(0, 1, 2, 0x0F, 0x10, 0x7F, 0x80, 0x81, 0xFE, 0xFF, 0x99, 0x09, 0x90)
}
func (r *cpuRng) v16() uint32 {
	if r.n(3) == 0 {
		return uint32(r.next() & 0xFFFF)
	}
	return r.pick(0, 1, 2, 3, 0x7F, 0x80, 0xFF, 0x100, 0x101, 0x1FF, 0x7FFF, 0x8000, 0x8001, 0xFF00, 0xFFFD, 0xFFFE, 0xFFFF, 0x00FE, 0x9999, 0x0999)
}

// ---------------------------------------------------------------- lazily backed flat memory

func cpuFill(seed uint32, a uint32) byte {
	x := uint64(a)*2654435761 + uint64(seed)*97 + uint64(a>>8)*31
	return byte(x >> 11)
}

type cpuEv struct {
	w    bool
	a    uint32
	v    byte
	kind byte // 0 = bus access, 'P' = OnPC callback, 'D' = OnWDM callback
}

type cpuMem struct {
	seed  uint32
	ov    map[uint32]byte
	trace []cpuEv
}

func (m *cpuMem) get(a uint32) byte {
	if v, ok := m.ov[a]; ok {
		return v
	}
	return cpuFill(m.seed, a)
}
func (m *cpuMem) Read(a uint32) byte {
	if a >= 1<<24 {
		panic(fmt.Errorf("flat memory: address %x out of range", a))
	}
	v := m.get(a)
	m.trace = append(m.trace, cpuEv{false, a, v, 0})
	return v
}
func (m *cpuMem) Write(a uint32, v byte) {
	if a >= 1<<24 {
		panic(fmt.Errorf("flat memory: address %x out of range", a))
	}
	m.ov[a] = v
	m.trace = append(m.trace, cpuEv{true, a, v, 0})
}
func (m *cpuMem) Shutdown()            {}
func (m *cpuMem) Size() uint32         { return 1 << 24 }
func (m *cpuMem) Clear()               {}
func (m *cpuMem) Dump(a uint32) []byte { return nil }

// ---------------------------------------------------------------- field access by flattened name

func cpuField(root reflect.Value, name string) reflect.Value {
	v := root
	for _, part := range strings.Split(name, "_") {
		v = v.FieldByName(part)
		if !v.IsValid() {
			return v
		}
	}
	if !v.CanSet() {
		v = reflect.NewAt(v.Type(), unsafe.Pointer(v.UnsafeAddr())).Elem()
	}
	return v
}

func cpuSetFields(root reflect.Value, names []string, vals []uint64) {
	for i, n := range names {
		f := cpuField(root, n)
		if !f.IsValid() {
			panic("no field " + n)
		}
		if f.Kind() == reflect.Bool {
			f.SetBool(vals[i] != 0)
		} else {
			f.SetUint(vals[i])
		}
	}
}

func cpuGetFields(root reflect.Value, names []string) []uint64 {
	out := make([]uint64, len(names))
	for i, n := range names {
		f := cpuField(root, n)
		if f.Kind() == reflect.Bool {
			if f.Bool() {
				out[i] = 1
			}
		} else {
			out[i] = f.Uint()
		}
	}
	return out
}

// ---------------------------------------------------------------- cases

type cpuCase struct {
	id    int
	steps int
	seed  uint32
	onwdm bool
	onpc  []uint32
	regs  []uint64
	mem   map[uint32]byte
	tag   string
	opcode int
	ops   string // one letter per entry of the history: S = Step, R = Reset, I = TriggerIRQ ("" = all S)
}

func widthOf(name string) int {
	switch name {
	case "AllCycles":
		return 64
	case "PC", "PPC", "RA", "RD", "RX", "RY", "SP", "StepInfo_Addr", "stepPC":
		return 16
	case "StepInfo_EA":
		return 32
	case "Stopped":
		return 1
	}
	return 8
}

// cpuHistories: multi-step cases may contain Reset() / TriggerIRQ() calls between the steps (switched off by the C01
// differential run: the ISA specification has no notion of these entry points)
var cpuHistories = true

func genCase(r *cpuRng, id int, opcode int, names []string, multi bool) cpuCase {
	c := cpuCase{id: id, steps: 1, seed: uint32(r.next() & 0xFFFFF), mem: map[uint32]byte{}, opcode: opcode}
	idx := map[string]int{}
	for i, n := range names {
		idx[n] = i
	}
	c.regs = make([]uint64, len(names))
	set := func(n string, v uint32) {
		if i, ok := idx[n]; ok {
			c.regs[i] = uint64(v)
		}
	}
	// flags
	e := uint32(0)
	if r.n(4) == 0 {
		e = 1
	}
	m, x := uint32(r.n(2)), uint32(r.n(2))
	consistent := r.n(10) < 7
	if e == 1 && consistent {
		m, x = 1, 1
	}
	set("E", e)
	set("M", m)
	set("X", x)
	d := uint32(0)
	if r.n(4) == 0 {
		d = 1
	}
	set("D", d)
	for _, f := range []string{"C", "Z", "N", "V", "I", "B"} {
		set(f, uint32(r.n(2)))
	}
	if !consistent && r.n(8) == 0 {
		// flags outside {0,1}: any value the byte field can hold
		set([]string{"C", "Z", "N", "V", "I", "D", "M", "X", "E"}[r.n(9)], r.v8())
	}
	ra, rx, ry := r.v16(), r.v16(), r.v16()
	set("RA", ra)
	set("RX", rx)
	set("RY", ry)
	if consistent {
		set("RAl", ra&0xFF)
		set("RAh", ra>>8)
		if x == 1 {
			rx &= 0xFF
			ry &= 0xFF
			set("RX", rx)
			set("RY", ry)
		}
		set("RXl", rx&0xFF)
		set("RYl", ry&0xFF)
	} else {
		set("RAl", r.v8())
		set("RAh", r.v8())
		set("RXl", r.v8())
		set("RYl", r.v8())
	}
	if d == 1 && r.n(2) == 0 {
		// valid BCD accumulator
		bcd := func() uint32 { return uint32(r.n(10)) }
		a := bcd() | bcd()<<4 | bcd()<<8 | bcd()<<12
		set("RA", a)
		set("RAl", a&0xFF)
		set("RAh", a>>8)
	}
	pc := r.v16()
	if r.n(3) == 0 {
		pc = r.pick(0xFFFC, 0xFFFD, 0xFFFE, 0xFFFF, 0x00FD, 0x00FE, 0x00FF, 0x7FFE)
	}
	set("PC", pc)
	rk := r.pick(0, 0, 1, 0x7E, 0x80, 0xFE, 0xFF, uint32(r.next()&0xFF))
	set("RK", rk)
	set("RDBR", r.pick(0, 0, 1, 0x7E, 0x7F, 0xFE, 0xFF, 0xFF, uint32(r.next()&0xFF)))
	set("RD", r.pick(0, 0, 0, 0x0001, 0x00FF, 0x0100, 0xFF00, 0xFF01, 0xFFFF, r.v16()))
	sp := r.pick(0x01FF, 0x0100, 0x0101, 0x0000, 0x0001, 0xFFFF, 0xFFFE, 0x00FF, 0x1FFF, r.v16())
	if e == 1 && consistent {
		sp = 0x0100 | sp&0xFF
	}
	set("SP", sp)
	set("Interrupt", r.pick(0, 1, 1, 1, 1, 1, 1, 2, 3, 4, uint32(r.next()&0xFF)))
	set("Cycles", r.v8())
	all := r.next()
	switch r.n(4) {
	case 0:
		all = 0
	case 1:
		all = ^uint64(0) - uint64(r.n(12))
	case 2:
		all &= 0xFFFFFF
	}
	if i, ok := idx["AllCycles"]; ok {
		c.regs[i] = all
	}
	set("stepPC", r.v16())
	if r.n(16) == 0 {
		set("Stopped", 1)
	}
	set("PPC", r.v16())
	set("PRK", r.v8())
	set("WDM", r.v8())
	set("StepInfo_EA", uint32(r.next()&0xFFFFFF))
	set("StepInfo_Addr", r.v16())
	set("StepInfo_Mode", r.v8())

	// memory: boundary-directed pointer contents, then the instruction bytes (which win)
	b8 := func() byte {
		if r.n(3) == 0 {
			return byte(r.next())
		}
		return byte(r.pick(0x00, 0x01, 0x02, 0x7F, 0x80, 0xFD, 0xFE, 0xFF, 0x09, 0x99))
	}
	op1, op2, op3 := b8(), b8(), b8()
	boundary := r.n(10) < 4
	if boundary {
		op1 = byte(r.pick(0xFD, 0xFE, 0xFF, 0xFF))
		op2 = 0xFF
		op3 = 0xFF
		if r.n(3) == 0 {
			op1, op2 = b8(), b8()
		}
		if r.n(2) == 0 {
			set("RDBR", 0xFF)
		}
		small := r.pick(1, 1, 2, 3, 0xFF, 0x100, 0xFFFF)
		if x == 1 {
			small &= 0xFF
		}
		if r.n(2) == 0 {
			set("RX", small)
			set("RXl", small&0xFF)
		}
		if r.n(2) == 0 {
			set("RY", small)
			set("RYl", small&0xFF)
		}
		// pointers in bank 0 at the places the indirect modes look
		rdv := uint32(c.regs[idx["RD"]])
		spv := uint32(c.regs[idx["SP"]])
		rxv := uint32(c.regs[idx["RX"]])
		if x == 1 {
			rxv = uint32(c.regs[idx["RXl"]])
		}
		cands := []uint32{(rdv + uint32(op1)) & 0xFFFF, (rdv + uint32(op1) + rxv) & 0xFFFF, (spv + uint32(op1)) & 0xFFFF,
			uint32(op1) | uint32(op2)<<8, rk<<16 | ((uint32(op1) | uint32(op2)<<8) + rxv) & 0xFFFF}
		for _, p := range cands {
			if r.n(2) == 0 {
				lo := byte(r.pick(0xFD, 0xFE, 0xFF, 0xFF, 0x00))
				bank := p & 0xFF0000
				c.mem[p] = lo
				c.mem[bank|(p+1)&0xFFFF] = 0xFF
				c.mem[bank|(p+2)&0xFFFF] = byte(r.pick(0xFF, 0xFF, 0x7E, 0x00))
				c.mem[(p+1)&0xFFFFFF] = 0xFF
			}
		}
		c.tag = "boundary"
	}
	if d == 1 && r.n(2) == 0 {
		// valid BCD operand bytes everywhere they may be read: make the fill irrelevant for immediates
		op1 = byte(r.n(10) | r.n(10)<<4)
		op2 = byte(r.n(10) | r.n(10)<<4)
	}
	if opcode >= 0 {
		c.mem[rk<<16|pc] = byte(opcode)
		c.mem[rk<<16|(pc+1)&0xFFFF] = op1
		c.mem[rk<<16|(pc+2)&0xFFFF] = op2
		c.mem[rk<<16|(pc+3)&0xFFFF] = op3
	}
	if r.n(3) == 0 {
		c.onwdm = true
	}
	if r.n(4) == 0 {
		c.onpc = append(c.onpc, rk<<16|pc)
		if r.n(2) == 0 {
			c.onpc = append(c.onpc, uint32(r.next()&0xFFFFFF))
		}
	}
	if multi {
		c.steps = 8 + r.n(40)
		if c.tag == "" {
			c.tag = "multi"
		}
		// a third of the multi-step cases are HISTORIES: Reset() and TriggerIRQ() calls between the steps
		// (C12: the stop flag lasts until Reset; C02: the two interpreters agree on these entry points too)
		if cpuHistories && r.n(3) == 0 {
			ops := make([]byte, c.steps)
			for i := range ops {
				switch k := r.n(12); {
				case k == 0:
					ops[i] = 'R'
				case k <= 2:
					ops[i] = 'I'
				default:
					ops[i] = 'S'
				}
			}
			ops[0] = 'S'
			c.ops = string(ops)
			c.tag = "history"
			if r.n(2) == 0 {
				// the history starts by executing STP: the stop condition must then last exactly until the next Reset
				c.mem[rk<<16|pc] = 0xDB
				c.opcode = 0xDB
				c.tag = "history-stp"
				if c.steps > 3 && r.n(2) == 0 {
					ops[2+r.n(c.steps-2)] = 'R'
					c.ops = string(ops)
				}
			}
		}
	}
	return c
}

func (c *cpuCase) opAt(i int) byte {
	if c.ops == "" || i >= len(c.ops) {
		return 'S'
	}
	return c.ops[i]
}

func (c *cpuCase) line(names []string) string {
	var sb strings.Builder
	w := 0
	if c.onwdm {
		w = 1
	}
	fmt.Fprintf(&sb, "C %d %d %d %d R", c.id, c.steps, c.seed, w)
	for _, v := range c.regs {
		fmt.Fprintf(&sb, " %d", v)
	}
	sb.WriteString(" M")
	addrs := make([]int, 0, len(c.mem))
	for a := range c.mem {
		addrs = append(addrs, int(a))
	}
	sort.Ints(addrs)
	for _, a := range addrs {
		fmt.Fprintf(&sb, " %d=%d", a, c.mem[uint32(a)])
	}
	sb.WriteString(" P")
	for _, a := range c.onpc {
		fmt.Fprintf(&sb, " %d", a)
	}
	if c.ops != "" {
		sb.WriteString(" O " + c.ops)
	}
	return sb.String()
}

// ---------------------------------------------------------------- running the real interpreters

type cpuStepRes struct {
	panicked bool
	pmsg     string
	cycles   int
	stopped  bool
	regs     []uint64
	trace    []cpuEv
	op       byte // 0 = Step, 'R' = Reset, 'I' = TriggerIRQ
}

func (s *cpuStepRes) line(id, step int) string {
	if s.panicked {
		return fmt.Sprintf("%d %d PANIC", id, step)
	}
	var sb strings.Builder
	st := 0
	if s.stopped {
		st = 1
	}
	if s.op != 0 {
		fmt.Fprintf(&sb, "%d %d %c %d %d R", id, step, s.op, s.cycles, st)
	} else {
		fmt.Fprintf(&sb, "%d %d OK %d %d R", id, step, s.cycles, st)
	}
	for _, v := range s.regs {
		fmt.Fprintf(&sb, " %d", v)
	}
	sb.WriteString(" T")
	for _, e := range s.trace {
		switch {
		case e.kind == 'P':
			fmt.Fprintf(&sb, " P:%d", e.a)
		case e.kind == 'D':
			fmt.Fprintf(&sb, " D:%d", e.v)
		case e.w:
			fmt.Fprintf(&sb, " W:%d:%d", e.a, e.v)
		default:
			fmt.Fprintf(&sb, " R:%d:%d", e.a, e.v)
		}
	}
	return sb.String()
}

type cpuRunner interface {
	run(c *cpuCase, names []string) []cpuStepRes
}

type run65 struct {
	b   *bus.Bus
	cpu *cpu65c816.CPU
	mem *cpuMem
}

func newRun65() *run65 {
	b, _ := bus.New()
	m := &cpuMem{}
	if err := b.Attach(m, "flat", 0, 0xFFFFFF); err != nil {
		panic(err)
	}
	c, _ := cpu65c816.New(b)
	return &run65{b, c, m}
}

func (r *run65) run(c *cpuCase, names []string) []cpuStepRes {
	r.mem.seed = c.seed
	r.mem.ov = map[uint32]byte{}
	for a, v := range c.mem {
		r.mem.ov[a] = v
	}
	root := reflect.ValueOf(r.cpu).Elem()
	cpuSetFields(root, names, c.regs)
	mem := r.mem
	r.cpu.OnWDM = nil
	if c.onwdm {
		r.cpu.OnWDM = func(v byte) { mem.trace = append(mem.trace, cpuEv{kind: 'D', v: v}) }
	}
	r.cpu.OnPC = map[uint32]func(){}
	for _, a := range c.onpc {
		a := a
		r.cpu.OnPC[a] = func() { mem.trace = append(mem.trace, cpuEv{kind: 'P', a: a}) }
	}
	var out []cpuStepRes
	for i := 0; i < c.steps; i++ {
		mem.trace = nil
		res := cpuStepRes{}
		func() {
			defer func() {
				if e := recover(); e != nil {
					res.panicked = true
					res.pmsg = fmt.Sprint(e)
				}
			}()
			switch c.opAt(i) {
			case 'R':
				r.cpu.Reset()
				res.op = 'R'
			case 'I':
				r.cpu.TriggerIRQ()
				res.op = 'I'
			default:
				res.cycles, res.stopped = r.cpu.Step()
			}
		}()
		if !res.panicked {
			res.regs = cpuGetFields(root, names)
			res.trace = append([]cpuEv(nil), mem.trace...)
		}
		out = append(out, res)
		if res.panicked {
			break
		}
	}
	return out
}

type runAlt struct {
	cpu *cpualt.CPU
	mem *cpuMem
}

func newRunAlt() *runAlt {
	c := &cpualt.CPU{}
	c.Init()
	m := &cpuMem{}
	c.Bus.AttachReader(0, 0xFFFFFF, func(a uint32) uint8 { return m.Read(a) })
	c.Bus.AttachWriter(0, 0xFFFFFF, func(a uint32, v uint8) { m.Write(a, v) })
	return &runAlt{c, m}
}

func (r *runAlt) run(c *cpuCase, names []string) []cpuStepRes {
	r.mem.seed = c.seed
	r.mem.ov = map[uint32]byte{}
	for a, v := range c.mem {
		r.mem.ov[a] = v
	}
	root := reflect.ValueOf(r.cpu).Elem()
	cpuSetFields(root, names, c.regs)
	mem := r.mem
	r.cpu.OnWDM = nil
	if c.onwdm {
		r.cpu.OnWDM = func(v byte) { mem.trace = append(mem.trace, cpuEv{kind: 'D', v: v}) }
	}
	r.cpu.OnPC = map[uint32]func(){}
	for _, a := range c.onpc {
		a := a
		r.cpu.OnPC[a] = func() { mem.trace = append(mem.trace, cpuEv{kind: 'P', a: a}) }
	}
	var out []cpuStepRes
	for i := 0; i < c.steps; i++ {
		mem.trace = nil
		res := cpuStepRes{}
		func() {
			defer func() {
				if e := recover(); e != nil {
					res.panicked = true
					res.pmsg = fmt.Sprint(e)
				}
			}()
			switch c.opAt(i) {
			case 'R':
				r.cpu.Reset()
				res.op = 'R'
			case 'I':
				r.cpu.TriggerIRQ()
				res.op = 'I'
			default:
				res.cycles, res.stopped = r.cpu.Step()
			}
		}()
		if !res.panicked {
			res.regs = cpuGetFields(root, names)
			res.trace = append([]cpuEv(nil), mem.trace...)
		}
		out = append(out, res)
		if res.panicked {
			break
		}
	}
	return out
}

// ---------------------------------------------------------------- command: cpucases

func cpuCasesCmd(args []string) int {
	fs := flag.NewFlagSet("cpucases", flag.ExitOnError)
	seed := fs.Uint64("seed", 1, "")
	variants := fs.Int("variants", 20, "single-step cases per opcode")
	multi := fs.Int("multi", 100, "multi-step cases")
	fieldsArg := fs.String("fields", "", "comma-separated flattened field names in model index order")
	outDir := fs.String("out", ".", "")
	hist := fs.Bool("hist", true, "a third of the multi-step cases are call histories (Reset / TriggerIRQ between the steps)")
	fs.Parse(args)
	cpuHistories = *hist
	names := strings.Split(*fieldsArg, ",")
	rng := &cpuRng{s: *seed*0x9E3779B97F4A7C15 + 0x1234567}
	r65, rAlt := newRun65(), newRunAlt()
	fc, _ := os.Create(*outDir + "/cases.txt")
	f65, _ := os.Create(*outDir + "/go65.txt")
	fAlt, _ := os.Create(*outDir + "/goalt.txt")
	wc, w65, wAlt := bufio.NewWriter(fc), bufio.NewWriter(f65), bufio.NewWriter(fAlt)
	defer func() { wc.Flush(); w65.Flush(); wAlt.Flush(); fc.Close(); f65.Close(); fAlt.Close() }()
	stats := map[string]int{}
	id := 0
	iAll, iStop := -1, -1
	for i, n := range names {
		if n == "AllCycles" {
			iAll = i
		}
		if n == "Stopped" {
			iStop = i
		}
	}
	emit := func(c cpuCase) {
		fmt.Fprintln(wc, c.line(names))
		a := r65.run(&c, names)
		b := rAlt.run(&c, names)
		for i := range a {
			fmt.Fprintln(w65, a[i].line(c.id, i))
		}
		for i := range b {
			fmt.Fprintln(wAlt, b[i].line(c.id, i))
		}
		// falsifiers: C02 lockstep, C08 crash / address range, C12 cycles
		for i := 0; i < len(a) && i < len(b); i++ {
			la, lb := a[i].line(c.id, i), b[i].line(c.id, i)
			if la != lb {
				stats["c02_diverge"]++
				if stats["c02_diverge"] <= 5 {
					fmt.Printf("FAIL C02 case=%d step=%d opcode=%02x tag=%s\n  primary: %s\n  alt:     %s\n", c.id, i, cpuOpcodeAt(&c), c.tag, trunc(la), trunc(lb))
				}
				break
			}
		}
		for which, rs := range [][]cpuStepRes{a, b} {
			for i, s := range rs {
				if s.panicked {
					stats["c08_panic"]++
					if stats["c08_panic"] <= 5 {
						fmt.Printf("FAIL C08 case=%d step=%d interp=%d opcode=%02x panic=%s\n", c.id, i, which, cpuOpcodeAt(&c), s.pmsg)
					}
				} else if s.op != 0 {
					// Reset / TriggerIRQ: C12 "until the CPU is reset": Reset clears the stop condition, TriggerIRQ keeps it
					if iStop >= 0 {
						prev := c.regs[iStop]
						if i > 0 {
							prev = rs[i-1].regs[iStop]
						}
						if (s.op == 'R' && s.regs[iStop] != 0) || (s.op == 'I' && s.regs[iStop] != prev) {
							stats["c12_reset"]++
							if stats["c12_reset"] <= 5 {
								fmt.Printf("FAIL C12 case=%d step=%d interp=%d op=%c Stopped %d -> %d (Reset must clear the stop condition, TriggerIRQ must keep it) history=%s\n",
									c.id, i, which, s.op, prev, s.regs[iStop], c.ops)
							}
						}
					}
				} else if s.cycles < 1 {
					stats["c12_cycles"]++
					if stats["c12_cycles"] <= 5 {
						fmt.Printf("FAIL C12 case=%d step=%d interp=%d cycles=%d\n", c.id, i, which, s.cycles)
					}
				} else if iAll >= 0 && iStop >= 0 {
					// AllCycles advances by exactly the reported cycles; the stop flag is the Stopped field
					prev := c.regs[iAll]
					if i > 0 {
						prev = rs[i-1].regs[iAll]
					}
					prevStop := c.regs[iStop]
					if i > 0 {
						prevStop = rs[i-1].regs[iStop]
					}
					// the stop condition is reported from the moment a STP has executed, and never before: the flag
					// never falls in a Step, and it rises only in a Step that read a $DB byte (the STP opcode)
					sawSTP := false
					for _, e := range s.trace {
						if e.kind == 0 && !e.w && e.v == 0xDB {
							sawSTP = true
						}
					}
					if (prevStop != 0 && !s.stopped) || (prevStop == 0 && s.stopped && !sawSTP) {
						stats["c12_stopflag"]++
						if stats["c12_stopflag"] <= 5 {
							fmt.Printf("FAIL C12 case=%d step=%d interp=%d opcode=%02x Stopped before=%d reported=%v STP-fetched=%v history=%s\n",
								c.id, i, which, cpuOpcodeAt(&c), prevStop, s.stopped, sawSTP, c.ops)
						}
					}
					if s.regs[iAll] != prev+uint64(s.cycles) || s.stopped != (s.regs[iStop] != 0) {
						stats["c12_account"]++
						if stats["c12_account"] <= 5 {
							fmt.Printf("FAIL C12 case=%d step=%d interp=%d opcode=%02x cycles=%d AllCycles %d -> %d stopped=%v Stopped=%d\n",
								c.id, i, which, cpuOpcodeAt(&c), s.cycles, prev, s.regs[iAll], s.stopped, s.regs[iStop])
						}
					}
				}
			}
		}
		stats["cases"]++
		stats["steps"] += len(a)
		if c.tag != "" {
			stats["tag_"+c.tag]++
		}
	}
	for v := 0; v < *variants; v++ {
		for op := 0; op < 256; op++ {
			c := genCase(rng, id, op, names, false)
			id++
			emit(c)
		}
	}
	for i := 0; i < *multi; i++ {
		op := -1
		if i%2 == 0 {
			op = rng.n(256)
		}
		c := genCase(rng, id, op, names, true)
		id++
		emit(c)
	}
	keys := make([]string, 0, len(stats))
	for k := range stats {
		keys = append(keys, k)
	}
	sort.Strings(keys)
	for _, k := range keys {
		fmt.Printf("STAT %s %d\n", k, stats[k])
	}
	return 0
}

func cpuOpcodeAt(c *cpuCase) int { return c.opcode }

func trunc(s string) string {
	if len(s) > 400 {
		return s[:400] + "..."
	}
	return s
}

func init() {
	commands["cpucases"] = cpuCasesCmd
}
