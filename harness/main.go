// Command harness runs the repository's real code for the /verif checks: translator-validation
// digests, implementation-level falsifiers and correspondence cases.  It is built on every run
// against the tree under test (go.mod `replace github.com/alttpo/snes => $VERIF_REPO`).
package main

import (
	"fmt"
	"os"
)

var commands = map[string]func(args []string) int{}

func main() {
	if len(os.Args) < 2 {
		fmt.Fprintln(os.Stderr, "usage: harness <command> [args]")
		os.Exit(2)
	}
	f, ok := commands[os.Args[1]]
	if !ok {
		fmt.Fprintln(os.Stderr, "unknown command", os.Args[1])
		os.Exit(2)
	}
	os.Exit(f(os.Args[2:]))
}
