package main

import (
	"fmt"
	"strings"

	"github.com/alttpo/snes/mapping/exhirom"
	"github.com/alttpo/snes/mapping/hirom"
	"github.com/alttpo/snes/mapping/lorom"
	"github.com/alttpo/snes/mapping/sa1rom"
	"github.com/alttpo/snes/mapping/util"
)

type mapFn func(uint32) (uint32, error)

var mappers = map[string][2]mapFn{
	"lorom":   {lorom.BusAddressToPak, lorom.PakAddressToBus},
	"hirom":   {hirom.BusAddressToPak, hirom.PakAddressToBus},
	"exhirom": {exhirom.BusAddressToPak, exhirom.PakAddressToBus},
	"sa1rom":  {sa1rom.BusAddressToPak, sa1rom.PakAddressToBus},
}

const mask63 = (uint64(1) << 63) - 1

func mix(h, v uint64) uint64 { return (h*1000003 + v + 1) & mask63 }

func enc(v uint32, err error) uint64 {
	e := uint64(0)
	if err != nil {
		if err == util.ErrUnmappedAddress {
			e = 1
		} else {
			e = 2
		}
	}
	return (uint64(v)*4 + e) & mask63
}

func bankDigests(f mapFn) string {
	var sb strings.Builder
	for b := uint32(0); b < 256; b++ {
		h := uint64(0)
		for o := uint32(0); o < 65536; o++ {
			h = mix(h, enc(f(b<<16|o)))
		}
		fmt.Fprintf(&sb, " %d", h)
	}
	return sb.String()
}

func pclass(p uint32) int {
	switch {
	case p < 0xE00000:
		return 1
	case p < 0xF00000:
		return 2
	case p < 0xF50000:
		return 0
	}
	return 3
}

func inWindow(p uint32) bool { return p < 0xF00000 || (p >= 0xF50000 && p < 0xF70000) }

func sysbank(b uint32) bool { return b <= 0x3F || (b >= 0x80 && b <= 0xBF) }

// mapcheck: the C04/C05 clauses stated directly against the compiled functions (falsifier).
func mapCheck(name string) int {
	m := mappers[name]
	b2p, p2b := m[0], m[1]
	type clause struct {
		id string
		f  func(n uint32) string
	}
	page := func(f mapFn) func(n uint32) string {
		return func(n uint32) string {
			if n&8191 == 8191 {
				return ""
			}
			p, e1 := f(n)
			q, e2 := f(n + 1)
			if (e1 == nil) != (e2 == nil) {
				return fmt.Sprintf("mapped-ness changes inside a page: f(n)=(%06x,%v) f(n+1)=(%06x,%v)", p, e1, q, e2)
			}
			if e1 == nil && q != p+1 {
				return fmt.Sprintf("byte order not preserved: f(n)=%06x f(n+1)=%06x", p, q)
			}
			return ""
		}
	}
	clauses := []clause{
		{"C04.right_inverse", func(n uint32) string {
			p, err := b2p(n)
			if err != nil {
				return ""
			}
			b, err := p2b(p)
			if err != nil {
				return fmt.Sprintf("pak %06x (from bus %06x) rejected: %v", p, n, err)
			}
			q, err := b2p(b)
			if err != nil || q != p {
				return fmt.Sprintf("bus %06x -> pak %06x -> bus %06x -> (%06x,%v)", n, p, b, q, err)
			}
			return ""
		}},
		{"C04.pak_to_bus_class", func(n uint32) string {
			b, err := p2b(n)
			if err != nil {
				return ""
			}
			if b >= 1<<24 {
				return fmt.Sprintf("pak %06x -> bus %x beyond 24 bits", n, b)
			}
			q, err := b2p(b)
			if err != nil {
				return fmt.Sprintf("pak %06x -> bus %06x which is unmapped", n, b)
			}
			if pclass(q) != pclass(n) || q&8191 != n&8191 {
				return fmt.Sprintf("pak %06x -> bus %06x -> pak %06x: class %d vs %d, page offset %x vs %x", n, b, q, pclass(n), pclass(q), n&8191, q&8191)
			}
			return ""
		}},
		{"C05.image", func(n uint32) string {
			p, err := b2p(n)
			if err == nil {
				if !inWindow(p) {
					return fmt.Sprintf("bus %06x -> pak %06x outside every class window", n, p)
				}
				return ""
			}
			if err != util.ErrUnmappedAddress || p != 0 {
				return fmt.Sprintf("bus %06x -> (%06x,%v): not (0, ErrUnmappedAddress)", n, p, err)
			}
			return ""
		}},
		{"C05.reject_window", func(n uint32) string {
			_, err := p2b(n)
			in := n >= 0xF00000 && n < 0xF50000
			if in != (err != nil) {
				return fmt.Sprintf("pak %06x: rejected=%v but in unassigned window=%v", n, err != nil, in)
			}
			return ""
		}},
		{"C05.console", func(n uint32) string {
			bank, off := n>>16, n&0xFFFF
			p, err := b2p(n)
			switch {
			case bank == 0x7E || bank == 0x7F:
				if err != nil || p != 0xF50000+(n-0x7E0000) {
					return fmt.Sprintf("WRAM bus %06x -> (%06x,%v)", n, p, err)
				}
			case sysbank(bank) && off < 0x2000:
				if err != nil || p != 0xF50000+off {
					return fmt.Sprintf("low-WRAM mirror bus %06x -> (%06x,%v)", n, p, err)
				}
			case sysbank(bank) && off < 0x6000:
				if err == nil {
					return fmt.Sprintf("register area bus %06x translated to %06x", n, p)
				}
			}
			return ""
		}},
		{"C05.page_b2p", page(b2p)},
		{"C05.page_p2b", page(p2b)},
	}
	rc := 0
	for _, c := range clauses {
		bad := ""
		for n := uint32(0); n < 1<<24; n++ {
			if msg := c.f(n); msg != "" {
				bad = fmt.Sprintf("FAIL %s %s input=%06x %s", c.id, name, n, msg)
				break
			}
		}
		if bad != "" {
			fmt.Println(bad)
			rc = 1
		} else {
			fmt.Printf("OK %s %s 16777216\n", c.id, name)
		}
	}
	return rc
}

func init() {
	commands["mapdigest"] = func(args []string) int {
		m, ok := mappers[args[0]]
		if !ok {
			return 2
		}
		fmt.Println("b2p" + bankDigests(m[0]))
		fmt.Println("p2b" + bankDigests(m[1]))
		return 0
	}
	commands["mapcheck"] = func(args []string) int { return mapCheck(args[0]) }
	commands["mapeval"] = func(args []string) int {
		// mapeval <mapper> <b2p|p2b> <hex>...: print the compiled function's value (replay support)
		m := mappers[args[0]]
		f := m[0]
		if args[1] == "p2b" {
			f = m[1]
		}
		for _, a := range args[2:] {
			var n uint32
			fmt.Sscanf(a, "%x", &n)
			v, err := f(n)
			fmt.Printf("%s %s %06x -> %06x %v\n", args[0], args[1], n, v, err)
		}
		return 0
	}
}
